#!/usr/bin/env python3
"""save_seeds.py <evallog> — copy confirmed seeded changes from /tmp/seed-out into /verif/seeded/<prop>-<n>/ with meta.json."""
import json, os, re, shutil, sys
log = open(sys.argv[1]).read()
notes = json.load(open('/verif/seeded/notes.json')) if os.path.exists('/verif/seeded/notes.json') else {}
blocks = re.split(r'^######## ', log, flags=re.M)[1:]
for b in blocks:
    head, body = b.split('\n', 1)
    prop, n = head.strip().split('/')
    src = f'/tmp/seed-out/{prop}/{n}'
    if not os.path.exists(src + '/patch.diff'):
        continue
    dst = f'/verif/seeded/{prop}-{n}'
    os.makedirs(dst, exist_ok=True)
    for f in ('patch.diff', 'demo_test.go', 'README.md'):
        if os.path.exists(f'{src}/{f}'):
            shutil.copy(f'{src}/{f}', f'{dst}/{f}')
    sec = lambda title: (re.search(r'== ' + re.escape(title) + r'.*?\n(.*?)(?=\n== |\Z)', body, re.S) or [None, ''])[1].strip()
    viol = re.findall(r'VIOLATION property=\S+ replay=\S*/(\S+?)\.json', body)
    res = re.search(r'RESULT .*', body)
    readme = open(f'{dst}/README.md').read() if os.path.exists(f'{dst}/README.md') else ''
    meta = {
        'property': prop,
        'source': 'independent sub-agent given only the property text and a scratch worktree',
        'what_it_needs_to_manifest': notes.get(f'{prop}-{n}', {}).get('needs', 'see README.md'),
        'confirmed': {
            'demo_passes_on_unmodified_tree': 'ok' in sec('demo on unmodified tree'),
            'demo_fails_with_patch': 'FAIL' in sec('demo with patch (must fail)'),
            'stock_package_tests_pass_with_patch': sec('stock tests with patch (must pass)').splitlines()[-1:] ,
            'commands': f'scripts/seed_eval.sh {prop} {n} <pkg>  (fresh worktree of /repo HEAD; go build ./...; go test of the package; demo test; vcheck with VERIF_REPO)',
        },
        'check_result': res.group(0) if res else 'not run',
        'caught': bool(viol),
        'caught_by': sorted(set(viol)),
        'history': notes.get(f'{prop}-{n}', {}).get('history', 'caught by the check as it was when the change arrived'),
    }
    json.dump(meta, open(f'{dst}/meta.json', 'w'), indent=1)
    print(prop, n, 'caught' if viol else 'MISSED', meta['check_result'][-60:])
