#!/bin/bash
# apply_fix.sh <diff file> <baseline package filter(s), comma separated> <commit subject> [body]
set -e
D=$1; F=$2; SUBJ=$3; BODY=${4:-}
cd /repo
git apply --check "$D"
git apply "$D"
GOFLAGS=-mod=mod GOPROXY=off go build ./... 
if ! python3 /verif/scripts/baseline.py ${F//,/ } | tail -3; then git checkout -- .; echo "BASELINE FAILED; reverted"; exit 1; fi
git add -A -- $(git diff --name-only)
git commit -q -m "$SUBJ" -m "$BODY"
git log -1 --format='%h %s'
