#!/usr/bin/env python3
"""Regenerate the generated tables of DESIGN.md (§6.2 findings, §6.3 seeded changes, §6.4 per-property status)
between the markers <!-- GEN:BEGIN --> and <!-- GEN:END -->."""
import json, glob, os, re, subprocess
kf = json.load(open('/verif/known_findings.json'))
claimed = set(json.load(open('/verif/harness/claimed.json')))
na = json.load(open('/verif/harness/na.json'))
props = [json.loads(l) for l in open('/verif/properties.jsonl')]
out = []
out.append('### 6.2 Defects found in baidu/bfe by the checks\n')
out.append('Every entry was produced by a solver model and replayed natively against the real build (map-order and clock dependent ones: confirmed by repeated native runs / solver model only, as noted in the harness registry). `fixed` = repaired in /repo by the named `fix:` commit (the check passes on the repaired tree without a KNOWN-FINDING line and reports the violation again if it returns); `known` = recorded in /verif/known_findings.json, printed as KNOWN-FINDING, any other violation of the same assertion is still reported.\n')
out.append('| property | id | status | what fails (witness) |')
out.append('|---|---|---|---|')
for e in sorted(kf, key=lambda e: (e['property'], e['id'])):
    st = e['status'] + (' ' + e.get('commit', '') if e['status'] == 'fixed' else '')
    w = (e.get('what', '') + ' — ' + e.get('witness', '')).replace('|', '\\|').replace('\n', ' ')
    out.append(f"| {e['property']} | {e['id']} | {st} | {w[:400]} |")
nf = sum(1 for e in kf if e['status'] == 'fixed'); nk = sum(1 for e in kf if e['status'] == 'known')
out.append(f'\n{nf} fixed, {nk} known. Reasons for leaving a finding unrepaired are in notes/Cnn.md (typically: the repair is a design decision, needs an API change, or an existing test pins the defective behaviour so the unedited suite would fail).\n')
out.append('### 6.3 Seeded changes (independent sub-agents, property text only) and which check catches them\n')
out.append('| seed | needs in order to manifest | result | caught by (harness-assert label) | history |')
out.append('|---|---|---|---|---|')
tot = c = 0
for d in sorted(glob.glob('/verif/seeded/C*-*')):
    mp = d + '/meta.json'
    if not os.path.exists(mp):
        continue
    m = json.load(open(mp)); tot += 1; c += 1 if m['caught'] else 0
    needs = m.get('what_it_needs_to_manifest', '')
    if needs == 'see README.md':
        rd = open(d + '/README.md').read() if os.path.exists(d + '/README.md') else ''
        needs = (re.sub(r'\s+', ' ', rd)[:160] + '…') if rd else ''
    by = ', '.join(x.split('-', 1)[1] if '-' in x else x for x in m.get('caught_by', []))[:160]
    out.append(f"| {os.path.basename(d)} | {needs.replace('|','/')} | {'caught' if m['caught'] else 'MISSED'} | {by} | {m.get('history','').replace('|','/')} |")
out.append(f'\n{c} of {tot} seeded changes are caught by the registered quick tier (after the strengthening recorded in the history column).\n')
out.append('### 6.4 Status per property\n')
out.append('| id | status | harness packages | registered bounds (quick / thorough as stated in harness/registry) |')
out.append('|---|---|---|---|')
for p in props:
    pid = p['id']
    rp = f'/verif/harness/registry/{pid}.json'
    if pid in claimed and os.path.exists(rp):
        r = json.load(open(rp))
        pk = sorted({h['pkg'] for h in r['harnesses']})
        out.append(f"| {pid} | claimed ({len(r['harnesses'])} harnesses) | {', '.join(pk)} | {r.get('bounds','').replace('|','/')[:420]} |")
    else:
        out.append(f"| {pid} | not applicable | | {na.get(pid, 'not built')[:300]} |")
s = open('/verif/DESIGN.md').read()
blk = '<!-- GEN:BEGIN -->\n' + '\n'.join(out) + '\n<!-- GEN:END -->'
if '<!-- GEN:BEGIN -->' in s:
    s = re.sub(r'<!-- GEN:BEGIN -->.*<!-- GEN:END -->', lambda m: blk, s, flags=re.S)
else:
    s += '\n' + blk + '\n'
open('/verif/DESIGN.md', 'w').write(s)
print('tables regenerated:', nf, 'fixed', nk, 'known', tot, 'seeds')
