#!/usr/bin/env python3
"""Merge /verif/harness/known/*.json fragments (lists of findings) into /verif/known_findings.json."""
import json, glob
out = []
for f in sorted(glob.glob('/verif/harness/known/*.json')):
    out += json.load(open(f))
json.dump(out, open('/verif/known_findings.json', 'w'), indent=1)
print(len(out), 'entries')
