#!/usr/bin/env python3
"""Generate /verif/MANIFEST.json from harness/registry.json, harness/meta.json and harness/na.json."""
import json, subprocess
import glob, os
reg = {os.path.basename(f)[:-5]: json.load(open(f)) for f in glob.glob('/verif/harness/registry/C*.json')}
meta = json.load(open('/verif/harness/meta.json'))
na = json.load(open('/verif/harness/na.json'))
props = [json.loads(l) for l in open('/verif/properties.jsonl')]
claimed_list = set(json.load(open('/verif/harness/claimed.json')))
checks = []
for p in props:
    pid = p['id']
    if pid not in reg or pid in na or pid not in claimed_list:
        continue
    m = meta.get(pid, {})
    r = reg[pid]
    has_thorough = any(h.get('thorough') for h in r['harnesses'])
    c = {
        "property_id": pid,
        "quick_cmd": f"/verif/bin/vcheck {pid} --tier quick",
        "thorough_cmd": f"/verif/bin/vcheck {pid} --tier thorough",
        "evidence_file": f"/verif/evidence/{pid}.json",
        "replay_cmd_template": f"/verif/bin/vcheck {pid} --replay {{path}}",
        "engine": "gosym",
        "level_claimed": {
            "category": "other",
            "text": m.get('level_text') or ("bounded symbolic verification of the real code: " + r.get('bounds', '')),
            "design_ref": m.get('design_ref', 'DESIGN.md §3 ' + pid),
        },
        "level_note": m.get('level_note') or ("outside the claim: " + r.get('outside', '') + "; trusted: go/ssa, the gosym interpreter and its listed intrinsics, z3, the reference models in the harness"),
        "technique": m.get('technique', "SMT-based bounded symbolic execution of the Go SSA (own go/ssa -> SMT-LIB2 interpreter, z3), counterexamples replayed natively"),
    }
    checks.append(c)
claimed = {c['property_id'] for c in checks}
nas = []
for p in props:
    if p['id'] not in claimed:
        nas.append({"property_id": p['id'], "reason": na.get(p['id'], "check not built yet (build session in progress)")})
man = {
    "version": 1,
    "setup_cmd": "cd /verif/engine && GOFLAGS=-mod=mod GOPROXY=off GOSUMDB=off GOTOOLCHAIN=local go build -o /verif/bin/vcheck ./cmd/vcheck",
    "hooks": {
        "guard": "verif",
        "enable": "none needed: harness files (/verif/harness/<pkg>/zz_verif_*.go) and the zz_vrt runtime are injected with go/packages Overlay for the encoder and `go test -overlay` for native replay; /repo carries no hook code, so the guard-off build is the plain build",
        "baseline_off_cmd": "python3 /verif/scripts/baseline.py",
        "source_commits": [],
        "add_only": True
    },
    "engines": [{"name": "gosym", "path": "/verif/engine", "serves_properties": sorted(claimed),
                 "kind_free_text": "symbolic interpreter over go/ssa (x/tools v0.29.0) emitting SMT-LIB2 bit-vector queries to a persistent z3 4.8.12 (push/pop), with if-conversion of pure regions, DFS over decisions by re-execution, native replay of models via go test -overlay"}],
    "checks": checks,
    "not_applicable": nas,
    "notes": "All checks: exit 0 = every obligation inside the registered bound discharged (KNOWN-FINDING lines for listed findings); exit 1 = VIOLATION confirmed by native replay; exit 2 = the machinery could not run (harness does not build against the tree, vacuous run, encoder mismatch). Fixed defects are recorded in /verif/known_findings.json with status fixed and suppress nothing."
}
json.dump(man, open('/verif/MANIFEST.json', 'w'), indent=1)
print('checks', len(checks), 'not_applicable', len(nas))
