#!/usr/bin/env python3
"""Run the repository's stable baseline tests (guard off: no build tags, no overlay) and compare with
/root/.vp/BASELINE.json stable_pass.  usage: baseline.py [package-substring ...]  (default: all packages)
Only the tests listed as stable are selected (-run), because some other tests of bfe_tls block on the network."""
import json, subprocess, sys, os, collections
from concurrent.futures import ThreadPoolExecutor
filters = sys.argv[1:]
env = dict(os.environ, GOFLAGS='-mod=mod', GOPROXY='off', GOSUMDB='off', GOTOOLCHAIN='local')
base = json.load(open('/root/.vp/BASELINE.json'))['stable_pass']
bypkg = collections.defaultdict(set)
for t in base:
    pkg, name = t.split('::')
    if filters and not any(f in pkg for f in filters):
        continue
    bypkg[pkg].add(name)

def run(pkg):
    names = sorted({n.split('/')[0] for n in bypkg[pkg]})
    pat = '^(' + '|'.join(names) + ')$'
    p = subprocess.run(['go', 'test', '-json', '-vet=off', '-count=1', '-timeout', '10m', '-run', pat, pkg],
                       cwd='/repo', env=env, capture_output=True, text=True)
    res = {}
    for line in p.stdout.splitlines():
        try:
            e = json.loads(line)
        except Exception:
            continue
        if e.get('Test') and e.get('Action') in ('pass', 'fail', 'skip'):
            res[e['Test']] = e['Action']
    bad = [(pkg, n, res.get(n)) for n in sorted(bypkg[pkg]) if res.get(n) != 'pass']
    return len(bypkg[pkg]), bad, (p.stderr[-400:] if bad else '')

total, allbad = 0, []
with ThreadPoolExecutor(8) as ex:
    for n, bad, err in ex.map(run, sorted(bypkg)):
        total += n
        allbad += bad
        if err:
            print(err)
print('stable tests selected:', total, 'not passing:', len(allbad))
for b in allbad[:40]:
    print('  NOT PASSING', *b)
sys.exit(1 if allbad else 0)
