#!/usr/bin/env python3
"""Run the repository's test suite (guard off: no build tags) and compare with /root/.vp/BASELINE.json stable_pass.
usage: baseline.py [pkg-pattern ...]   (default ./...)"""
import json, subprocess, sys, os
pats = sys.argv[1:] or ['./...']
env = dict(os.environ, GOFLAGS='-mod=mod', GOPROXY='off', GOSUMDB='off', GOTOOLCHAIN='local')
p = subprocess.run(['go', 'test', '-json', '-vet=off', '-count=1', '-timeout', '25m'] + pats, cwd='/repo', env=env, capture_output=True, text=True)
res = {}
for line in p.stdout.splitlines():
    try:
        e = json.loads(line)
    except Exception:
        continue
    if e.get('Test') and e.get('Action') in ('pass', 'fail', 'skip'):
        res[e['Package'] + '::' + e['Test']] = e['Action']
base = json.load(open('/root/.vp/BASELINE.json'))['stable_pass']
pk = set(k.split('::')[0] for k in res)
missing = [t for t in base if t.split('::')[0] in pk and res.get(t) != 'pass']
print('tests run:', len(res), 'stable tests in these packages:', sum(1 for t in base if t.split('::')[0] in pk), 'not passing:', len(missing))
for t in missing[:40]:
    print('  NOT PASSING', t, res.get(t))
sys.exit(1 if missing else 0)
