#!/usr/bin/env python3
"""mark_fixed.py <prop> <commit> <id> [<id> ...]  — set status fixed + commit in harness/known/<prop>.json"""
import json, sys, subprocess
prop, commit, ids = sys.argv[1], sys.argv[2], sys.argv[3:]
p = f'/verif/harness/known/{prop}.json'
k = json.load(open(p))
found = set()
for e in k:
    if e['id'] in ids:
        e['status'] = 'fixed'; e['commit'] = commit; found.add(e['id'])
json.dump(k, open(p, 'w'), indent=1)
print('marked', sorted(found), 'missing', sorted(set(ids) - found))
subprocess.run(['python3', '/verif/scripts/merge_known.py'])
