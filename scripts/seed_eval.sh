#!/bin/bash
# seed_eval.sh <prop> <n> <pkgdir> [extra go test -run pattern for the stock tests]
# Confirms a seeded change (from /tmp/seed-out/<prop>/<n>) in a scratch worktree and runs the property's check on it.
set -u
P=$1; N=$2; PKG=$3; RUNPAT=${4:-}
SRC=/tmp/seed-out/$P/$N
WT=/tmp/seedeval-$P-$N
export GOFLAGS=-mod=mod GOPROXY=off GOSUMDB=off GOTOOLCHAIN=local
git -C /repo worktree remove --force $WT 2>/dev/null
git -C /repo worktree add -q $WT HEAD || exit 2
cd $WT
cp $SRC/demo_test.go $WT/$PKG/zz_seed_demo_test.go
echo "== demo on unmodified tree"
timeout 600 go test -vet=off -count=1 -run 'Seed' ./$PKG/ 2>&1 | tail -3
git apply $SRC/patch.diff || { echo "PATCH DOES NOT APPLY"; exit 2; }
echo "== build"; timeout 600 go build ./... 2>&1 | tail -3
echo "== demo with patch (must fail)"
timeout 600 go test -vet=off -count=1 -run 'Seed' ./$PKG/ 2>&1 | tail -4
rm -f $WT/$PKG/zz_seed_demo_test.go
echo "== stock tests with patch (must pass)"
if [ -n "$RUNPAT" ]; then timeout 900 go test -vet=off -count=1 -run "$RUNPAT" ./$PKG/ 2>&1 | tail -3; else timeout 900 go test -vet=off -count=1 ./$PKG/ 2>&1 | tail -3; fi
echo "== check $P on the seeded tree"
cd /verif && VERIF_REPO=$WT VERIF_EVIDENCE_DIR=/tmp/seedeval-ev-$P-$N timeout 1800 ./bin/vcheck-dev $P --workers 8 2>&1 | grep "RESULT\|VIOLATION\|INCONCL\|detail\|ERROR" | cut -c1-300
git -C /repo worktree remove --force $WT; rm -rf /tmp/seedeval-ev-$P-$N
