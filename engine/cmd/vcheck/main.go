// vcheck decides one property: it regenerates the SMT encoding from /repo's current working tree
// (go/packages + go/ssa + the symbolic interpreter in verif/engine/sym), discharges the harness
// assertions with an SMT solver, replays counterexamples natively and writes the evidence file.
package main

import (
	"bytes"
	"encoding/json"
	"flag"
	"fmt"
	"os"
	"os/exec"
	"path/filepath"
	"regexp"
	"sort"
	"strings"
	"time"

	"verif/engine/sym"
)

const (
	verifDir  = "/verif"
	modPrefix = "github.com/bfenetworks/bfe/"
)

// repo is the tree under check: /repo, or a scratch worktree when VERIF_REPO is set (development,
// seeded-change experiments). Registered commands never set VERIF_REPO.
var repo = func() string {
	if r := os.Getenv("VERIF_REPO"); r != "" {
		return r
	}
	return "/repo"
}()

// loadRegistry reads /verif/harness/registry/<prop>.json.
func loadRegistry(prop string) (propReg, error) {
	var pr propReg
	b, err := os.ReadFile(filepath.Join(verifDir, "harness", "registry", prop+".json"))
	if err != nil {
		return pr, err
	}
	err = json.Unmarshal(b, &pr)
	return pr, err
}

type tierCfg struct {
	Params   map[string]int `json:"params"`
	Unwind   int            `json:"unwind"`
	MaxPaths int            `json:"max_paths"`
	MaxSteps int64          `json:"max_steps"`
	Seconds  int            `json:"seconds"`
	Merge    int            `json:"merge_limit"`
	Solver   string         `json:"solver"`
	Timeout  int            `json:"query_timeout_ms"`
	MapOrder bool           `json:"map_order"`
	Solver2  string         `json:"solver2"`
	Workers  int            `json:"workers"`
}

type harnessReg struct {
	Pkg      string   `json:"pkg"` // relative package dir, e.g. bfe_http
	Func     string   `json:"func"`
	Quick    tierCfg  `json:"quick"`
	Thorough *tierCfg `json:"thorough"`
	Asserts  []string `json:"asserts"` // labels that must be reached (vacuity guard)
	NoNative bool     `json:"no_native_replay"`
	What     string   `json:"what"`
}

type propReg struct {
	Files     []string     `json:"files"` // harness files relative to /verif/harness
	Patterns  []string     `json:"patterns"`
	Harnesses []harnessReg `json:"harnesses"`
	Bounds    string       `json:"bounds"`
	Outside   string       `json:"outside"`
	Assumes   []string     `json:"assumptions"`
}

type knownFinding struct {
	Property string `json:"property"`
	ID       string `json:"id"`
	Status   string `json:"status"` // known | fixed
	Witness  string `json:"witness"`
	Site     string `json:"site"`
	What     string `json:"what"`
	Commit   string `json:"commit,omitempty"`
}

func fatal(code int, f string, a ...interface{}) {
	fmt.Printf(f+"\n", a...)
	os.Exit(code)
}

func main() {
	tier := flag.String("tier", "", "quick|thorough")
	only := flag.String("only", "", "run only this harness function")
	workers := flag.Int("workers", 16, "")
	debug := flag.Bool("debug", false, "")
	noReplay := flag.Bool("noreplay", false, "skip native replay (development only; never used by registered commands)")
	paramOv := flag.String("param", "", "override params k=v,k=v (development)")
	secOv := flag.Int("seconds", 0, "override per-harness deadline (development)")
	replayPath := flag.String("replay", "", "replay a recorded counterexample natively against /repo")
	flag.Parse()
	if flag.NArg() < 1 {
		fatal(2, "usage: vcheck <property> [--tier quick|thorough]")
	}
	prop := flag.Arg(0)
	// flags may follow the property id
	if flag.NArg() > 1 {
		fs := flag.NewFlagSet("rest", flag.ExitOnError)
		tier = fs.String("tier", *tier, "")
		only = fs.String("only", *only, "")
		workers = fs.Int("workers", *workers, "")
		debug = fs.Bool("debug", *debug, "")
		noReplay = fs.Bool("noreplay", *noReplay, "")
		paramOv = fs.String("param", *paramOv, "")
		secOv = fs.Int("seconds", *secOv, "")
		replayPath = fs.String("replay", *replayPath, "")
		fs.Parse(flag.Args()[1:])
	}
	if *replayPath != "" {
		os.Exit(doReplay(prop, *replayPath))
	}
	if *tier == "" {
		*tier = os.Getenv("VERIF_TIER")
	}
	if *tier == "" {
		*tier = "quick"
	}
	seed := 0
	fmt.Sscan(os.Getenv("VERIF_SEED"), &seed)
	if *debug {
		os.Setenv("VERIF_DEBUG", "1")
	}
	t0 := time.Now()

	pr, err := loadRegistry(prop)
	if err != nil {
		fatal(2, "ERROR registry for %s: %v", prop, err)
	}
	var kfs []knownFinding
	if kb, err := os.ReadFile(filepath.Join(verifDir, "known_findings.json")); err == nil {
		if err := json.Unmarshal(kb, &kfs); err != nil {
			fatal(2, "ERROR known_findings.json: %v", err)
		}
	}
	listed := map[string]bool{}
	kfByID := map[string]knownFinding{}
	for _, k := range kfs {
		if k.Property == prop && k.Status == "known" {
			listed[k.ID] = true
			kfByID[k.ID] = k
		}
	}

	// overlay: vrt + this property's harness files
	overlay := map[string][]byte{filepath.Join(repo, "zz_vrt", "vrt.go"): []byte(sym.VrtSource)}
	for _, f := range pr.Files {
		src, err := os.ReadFile(filepath.Join(verifDir, "harness", f))
		if err != nil {
			fatal(2, "ERROR harness file: %v", err)
		}
		overlay[filepath.Join(repo, f)] = src
	}
	pats := pr.Patterns
	if len(pats) == 0 {
		seen := map[string]bool{}
		for _, h := range pr.Harnesses {
			if !seen[h.Pkg] {
				seen[h.Pkg] = true
				pats = append(pats, "./"+h.Pkg)
			}
		}
	}
	ld, err := sym.Load(repo, pats, overlay)
	if err != nil {
		fatal(2, "ERROR property=%s cannot load /repo with harness (build broken or harness out of date): %v", prop, err)
	}
	fmt.Printf("loaded %v in %.1fs\n", pats, ld.Wall.Seconds())

	ev := newEvidence(prop, *tier, seed)
	exit := 0
	var violLines, knownLines, inconcl []string
	replayDir := filepath.Join(evidenceDir(), "replay")
	os.MkdirAll(replayDir, 0o755)
	// remove stale replays of this property
	if old, _ := filepath.Glob(filepath.Join(replayDir, prop+"-*.json")); old != nil {
		for _, o := range old {
			os.Remove(o)
		}
	}

	for _, h := range pr.Harnesses {
		if *only != "" && h.Func != *only {
			continue
		}
		tc := h.Quick
		if *tier == "thorough" && h.Thorough != nil {
			tc = *h.Thorough
			if tc.Params == nil {
				tc.Params = h.Quick.Params
			}
		}
		params := map[string]int{}
		for k, v := range tc.Params {
			params[k] = v
		}
		if *paramOv != "" {
			for _, kv := range strings.Split(*paramOv, ",") {
				var k string
				var v int
				if i := strings.IndexByte(kv, '='); i > 0 {
					k = kv[:i]
					fmt.Sscan(kv[i+1:], &v)
					params[k] = v
				}
			}
		}
		cfg := sym.Config{Unwind: tc.Unwind, MaxPaths: tc.MaxPaths, MaxSteps: tc.MaxSteps, MergeLimit: tc.Merge, Listed: listed, Params: params, MapOrder: tc.MapOrder}
		// thorough tier: every discharged assertion obligation is re-discharged by a second back end
		// (z3 4.8.12 unless the registry names another); a timeout there is recorded, a model is a failure
		cfg.Solver2 = tc.Solver2
		if *tier == "thorough" && cfg.Solver2 == "" {
			cfg.Solver2 = "z3"
		}
		if s2 := os.Getenv("VERIF_SOLVER2"); s2 != "" {
			cfg.Solver2 = s2
		}
		if cfg.Solver2 == "none" {
			cfg.Solver2 = ""
		}
		secs := tc.Seconds
		if secs == 0 {
			secs = 600
		}
		if *secOv > 0 {
			secs = *secOv
		}
		cfg.Deadline = time.Now().Add(time.Duration(secs) * time.Second)
		w := *workers
		if tc.Workers > 0 {
			w = tc.Workers
		}
		spec := sym.HarnessSpec{Pkg: modPrefix + h.Pkg, Func: h.Func, Cfg: cfg, Workers: w, Solver: tc.Solver, Timeout: tc.Timeout}
		res, err := sym.RunHarness(ld, spec)
		if err != nil {
			fatal(2, "ERROR property=%s harness %s: %v", prop, h.Func, err)
		}
		st := res.Stats
		fmt.Printf("harness %s: %.1fs paths=%d ends=%v obligations=%d (trivial %d) discharged=%d queries=%d solver=%.1fs merges=%d forks=%d viol-candidates=%d\n",
			h.Func, res.Wall.Seconds(), st.Paths, st.PathEnds, st.Obligations, st.Trivial, st.Discharged, res.Queries, res.SolverTime.Seconds(), st.Merges, st.Forks, len(res.Viols))
		for _, lab := range h.Asserts {
			if st.AssertLabels[lab]+st.Covers[lab] == 0 {
				res.Inconclusive = append(res.Inconclusive, "vacuous: assertion/cover "+lab+" never reached")
			}
		}
		for _, ic := range res.Inconclusive {
			inconcl = append(inconcl, h.Func+": "+ic)
		}
		if len(st.InitFailed) > 0 && *debug {
			fmt.Println("  init notes:", st.InitFailed)
		}
		ev.addHarness(h, params, res)

		// triage violation candidates: group by (label, kind, knownID), replay up to 2 per class
		classes := map[string][]sym.Violation{}
		var order []string
		for _, v := range res.Viols {
			key := v.Kind + "|" + v.Label + "|" + v.KnownID
			if _, ok := classes[key]; !ok {
				order = append(order, key)
			}
			classes[key] = append(classes[key], v)
		}
		sort.Strings(order)
		var rp *replayer
		for _, key := range order {
			vs := classes[key]
			v0 := vs[0]
			if v0.Kind == "unknown" {
				inconcl = append(inconcl, fmt.Sprintf("%s: %s: %s", h.Func, v0.Label, v0.Detail))
				continue
			}
			confirmed := false
			var lastOut, path string
			tries := 0
			for _, v := range vs {
				if tries >= 2 {
					break
				}
				tries++
				path = filepath.Join(replayDir, fmt.Sprintf("%s-%s-%s-%d.json", prop, h.Func, sanitize(v.Label+"_"+v.KnownID), tries))
				writeReplay(path, prop, h, v, params)
				if *noReplay || h.NoNative {
					confirmed = true
					lastOut = "(native replay not available for this harness: symbolic environment stubs; model checked by the solver only)"
					break
				}
				if rp == nil {
					rp, err = newReplayer(prop, h, pr.Files)
					if err != nil {
						inconcl = append(inconcl, fmt.Sprintf("%s: cannot build native replay: %v", h.Func, err))
						break
					}
				}
				okr, out := rp.run(path, v)
				lastOut = out
				if okr {
					confirmed = true
					break
				}
			}
			summary := fmt.Sprintf("%s %s %s [%d models] choices=%v", v0.Kind, v0.Label, v0.Detail, len(vs), v0.Choices)
			if !confirmed {
				inconcl = append(inconcl, fmt.Sprintf("%s: ENCODER-MISMATCH %s: solver model does not reproduce natively: %s", h.Func, summary, tail(lastOut, 300)))
				ev.Mismatches++
				continue
			}
			if v0.KnownID != "" {
				k := kfByID[v0.KnownID]
				knownLines = append(knownLines, fmt.Sprintf("KNOWN-FINDING: property=%s %s %s (witness: %s; replay=%s)", prop, v0.KnownID, k.What, k.Witness, path))
				ev.Known = append(ev.Known, v0.KnownID)
			} else {
				violLines = append(violLines, fmt.Sprintf("VIOLATION property=%s replay=%s", prop, path))
				ev.ViolationNotes = append(ev.ViolationNotes, summary+" :: "+tail(lastOut, 400))
				ev.Violations++
				exit = 1
			}
		}
		if rp != nil {
			rp.close()
		}
	}

	if len(ev.Coverage.Harnesses) == 0 {
		fatal(2, "ERROR property=%s no harness was run (--only %q matches nothing)", prop, *only)
	}
	ev.Inconclusive = inconcl
	ev.finish(pr, time.Since(t0))
	if err := ev.write(filepath.Join(evidenceDir(), prop+".json")); err != nil {
		fatal(2, "ERROR writing evidence: %v", err)
	}
	for _, l := range dedupe(knownLines) {
		fmt.Println(l)
	}
	for _, l := range inconcl {
		fmt.Println("INCONCLUSIVE property=" + prop + " " + l)
	}
	for _, l := range violLines {
		fmt.Println(l)
	}
	for _, n := range ev.ViolationNotes {
		fmt.Println("  detail:", n)
	}
	if exit == 0 && len(inconcl) > 0 {
		// machinery could not cover the registered bound: not a pass, not a violation
		for _, l := range inconcl {
			if strings.Contains(l, "vacuous") || strings.Contains(l, "ENCODER-MISMATCH") {
				exit = 2
			}
		}
		if os.Getenv("VERIF_STRICT") != "" {
			exit = 2
		}
	}
	fmt.Printf("RESULT property=%s tier=%s exit=%d obligations=%d discharged=%d violations=%d known=%d inconclusive=%d wall=%.1fs\n",
		prop, *tier, exit, ev.Coverage.Obligations, ev.Coverage.Discharged, ev.Violations, len(dedupe(knownLines)), len(inconcl), time.Since(t0).Seconds())
	os.Exit(exit)
}

func dedupe(xs []string) []string {
	seen := map[string]bool{}
	var r []string
	for _, x := range xs {
		if !seen[x] {
			seen[x] = true
			r = append(r, x)
		}
	}
	return r
}

func tail(s string, n int) string {
	s = strings.TrimSpace(s)
	if len(s) > n {
		s = "…" + s[len(s)-n:]
	}
	return strings.ReplaceAll(s, "\n", " | ")
}

var nonWord = regexp.MustCompile(`[^A-Za-z0-9_]+`)

func sanitize(s string) string { return nonWord.ReplaceAllString(s, "_") }

// ---------- replay ----------

type replayFile struct {
	Property string            `json:"property"`
	Harness  string            `json:"harness"`
	Pkg      string            `json:"pkg"`
	Label    string            `json:"label"`
	Kind     string            `json:"kind"`
	Detail   string            `json:"detail"`
	KnownID  string            `json:"known_id,omitempty"`
	Stack    string            `json:"stack,omitempty"`
	Values   map[string]uint64 `json:"values"`
	Choices  []int             `json:"choices"`
	Params   map[string]int    `json:"params"`
	How      string            `json:"how_to_replay"`
}

func writeReplay(path, prop string, h harnessReg, v sym.Violation, params map[string]int) {
	rf := replayFile{Property: prop, Harness: h.Func, Pkg: h.Pkg, Label: v.Label, Kind: v.Kind, Detail: v.Detail, KnownID: v.KnownID, Stack: v.Stack,
		Values: v.Model, Choices: v.Choices, Params: params,
		How: fmt.Sprintf("/verif/bin/vcheck %s --replay %s   (runs the harness natively with `go test -overlay` against /repo, VRT_REPLAY=<this file>)", prop, path)}
	if rf.Values == nil {
		rf.Values = map[string]uint64{}
	}
	if rf.Choices == nil {
		rf.Choices = []int{}
	}
	b, _ := json.MarshalIndent(rf, "", " ")
	os.WriteFile(path, b, 0o644)
}

type replayer struct {
	dir string
	bin string
	h   harnessReg
}

func goEnv() []string {
	return append(os.Environ(), "GOFLAGS=-mod=mod", "GOPROXY=off", "GOSUMDB=off", "GOTOOLCHAIN=local")
}

// newReplayer compiles the package's test binary with the harness and the native vrt injected by overlay.
func newReplayer(prop string, h harnessReg, files []string) (*replayer, error) {
	dir, err := os.MkdirTemp("", "verif-replay-")
	if err != nil {
		return nil, err
	}
	r := &replayer{dir: dir, h: h, bin: filepath.Join(dir, "replay.test")}
	os.WriteFile(filepath.Join(dir, "vrt.go"), []byte(sym.VrtSource), 0o644)
	pkgName, err := packageName(filepath.Join(repo, h.Pkg))
	if err != nil {
		return nil, err
	}
	test := fmt.Sprintf("package %s\n\nimport \"testing\"\n\nfunc TestVerifReplay(t *testing.T) { %s() }\n", pkgName, h.Func)
	os.WriteFile(filepath.Join(dir, "replay_test.go"), []byte(test), 0o644)
	ov := map[string]map[string]string{"Replace": {
		filepath.Join(repo, "zz_vrt", "vrt.go"):               filepath.Join(dir, "vrt.go"),
		filepath.Join(repo, h.Pkg, "zz_verif_replay_test.go"): filepath.Join(dir, "replay_test.go"),
	}}
	for _, f := range files {
		if filepath.Dir(f) == h.Pkg || true {
			ov["Replace"][filepath.Join(repo, f)] = filepath.Join(verifDir, "harness", f)
		}
	}
	ob, _ := json.Marshal(ov)
	os.WriteFile(filepath.Join(dir, "overlay.json"), ob, 0o644)
	cmd := exec.Command("go", "test", "-vet=off", "-c", "-o", r.bin, "-overlay", filepath.Join(dir, "overlay.json"), "./"+h.Pkg)
	cmd.Dir = repo
	cmd.Env = goEnv()
	out, err := cmd.CombinedOutput()
	if err != nil {
		os.RemoveAll(dir)
		return nil, fmt.Errorf("go test -c: %v: %s", err, tail(string(out), 600))
	}
	return r, nil
}

func (r *replayer) close() { os.RemoveAll(r.dir) }

func packageName(dir string) (string, error) {
	ents, err := os.ReadDir(dir)
	if err != nil {
		return "", err
	}
	re := regexp.MustCompile(`(?m)^package\s+(\w+)`)
	for _, e := range ents {
		if strings.HasSuffix(e.Name(), ".go") && !strings.HasSuffix(e.Name(), "_test.go") {
			b, err := os.ReadFile(filepath.Join(dir, e.Name()))
			if err != nil {
				continue
			}
			if m := re.FindSubmatch(b); m != nil {
				return string(m[1]), nil
			}
		}
	}
	return "", fmt.Errorf("no package clause in %s", dir)
}

// run executes the harness natively under the model; returns whether the violation reproduces.
func (r *replayer) run(replayPath string, v sym.Violation) (bool, string) {
	limit := 60 * time.Second
	if v.Kind == "unwind" || v.Kind == "steps" {
		limit = 10 * time.Second
	}
	cmd := exec.Command(r.bin, "-test.run", "^TestVerifReplay$", "-test.count=1", "-test.timeout", limit.String())
	cmd.Dir = filepath.Join(repo, r.h.Pkg)
	cmd.Env = append(os.Environ(), "VRT_REPLAY="+replayPath)
	var buf bytes.Buffer
	cmd.Stdout = &buf
	cmd.Stderr = &buf
	err := cmd.Run()
	out := buf.String()
	code := 0
	if ee, ok := err.(*exec.ExitError); ok {
		code = ee.ExitCode()
	} else if err != nil {
		return false, "cannot run replay: " + err.Error()
	}
	switch {
	case strings.Contains(out, "VRT-ASSUME-FAIL"), strings.Contains(out, "VRT-ERROR"):
		return false, out
	case strings.Contains(out, "VRT-FAIL label="):
		return true, out
	case strings.Contains(out, "test timed out"):
		return v.Kind == "unwind" || v.Kind == "steps" || v.Kind == "blocked", out
	case code != 0 && (strings.Contains(out, "panic:") || strings.Contains(out, "fatal error:")):
		// a native panic/crash: reproduces panic-kind violations; for assert-kind it is still a failure of the real code
		return true, out
	}
	return false, out
}

// doReplay runs one recorded counterexample natively; exit 1 (with a VIOLATION line) if it reproduces.
func doReplay(prop, path string) int {
	b, err := os.ReadFile(path)
	if err != nil {
		fmt.Println("ERROR", err)
		return 2
	}
	var rf replayFile
	if err := json.Unmarshal(b, &rf); err != nil {
		fmt.Println("ERROR", err)
		return 2
	}
	pr, err := loadRegistry(prop)
	if err != nil {
		fmt.Println("ERROR registry", prop, err)
		return 2
	}
	var h harnessReg
	for _, x := range pr.Harnesses {
		if x.Func == rf.Harness {
			h = x
		}
	}
	if h.Func == "" {
		fmt.Println("ERROR harness not registered:", rf.Harness)
		return 2
	}
	rp, err := newReplayer(prop, h, pr.Files)
	if err != nil {
		fmt.Println("ERROR", err)
		return 2
	}
	defer rp.close()
	okr, out := rp.run(path, sym.Violation{Kind: rf.Kind, Label: rf.Label})
	fmt.Println(out)
	if okr {
		fmt.Printf("VIOLATION property=%s replay=%s\n", prop, path)
		return 1
	}
	fmt.Println("replay does not reproduce a violation on the current tree")
	return 0
}

// ---------- evidence ----------

type coverage struct {
	Explanation        string                   `json:"explanation"`
	Obligations        int                      `json:"obligations"`
	Discharged         int                      `json:"discharged"`
	Evaluations        int                      `json:"evaluations"`
	DistinctNontrivial int                      `json:"distinct_nontrivial"`
	Rule               string                   `json:"rule"`
	Samples            []interface{}            `json:"samples"`
	Exhaustive         bool                     `json:"exhaustive"`
	Functions          []string                 `json:"functions_encoded"`
	Bounds             string                   `json:"bounds"`
	Outside            string                   `json:"outside_the_claim"`
	Harnesses          []map[string]interface{} `json:"harnesses"`
	Queries            int                      `json:"solver_queries"`
	SolverS            float64                  `json:"solver_time_s"`
	Paths              int                      `json:"paths"`
	Stubs              map[string]int           `json:"stubs_hit"`
	TrustedBase        []string                 `json:"trusted_base"`
	CheckerCmd         string                   `json:"checker_cmd"`
}

type evidence struct {
	PropertyID     string   `json:"property_id"`
	Tier           string   `json:"tier"`
	Seed           int      `json:"seed"`
	Level          string   `json:"level"`
	Coverage       coverage `json:"coverage"`
	Assumptions    []string `json:"assumptions"`
	WallS          float64  `json:"wall_s"`
	Violations     int      `json:"violations"`
	Known          []string `json:"known_findings_reproduced"`
	Inconclusive   []string `json:"inconclusive"`
	ViolationNotes []string `json:"violation_notes,omitempty"`
	Mismatches     int      `json:"encoder_mismatches"`
	funcs          map[string]bool
	assumes        map[string]bool
}

func newEvidence(prop, tier string, seed int) *evidence {
	return &evidence{PropertyID: prop, Tier: tier, Seed: seed, Level: "other", funcs: map[string]bool{}, assumes: map[string]bool{},
		Coverage: coverage{Stubs: map[string]int{}}, Known: []string{}, Inconclusive: []string{}}
}

func (e *evidence) addHarness(h harnessReg, params map[string]int, r *sym.HarnessResult) {
	st := r.Stats
	c := &e.Coverage
	c.Obligations += st.Obligations
	c.Discharged += st.Discharged
	c.Queries += r.Queries
	c.SolverS += r.SolverTime.Seconds()
	c.Paths += st.Paths
	c.Evaluations += st.Paths
	// distinct non-trivial: paths that ended normally and carried at least one obligation are not individually tracked;
	// conservatively count completed paths.
	c.DistinctNontrivial += st.PathEnds["done"]
	for f := range st.Funcs {
		e.funcs[f] = true
	}
	for s, n := range st.Stubs {
		if !strings.Contains(s, "zz_vrt.") {
			c.Stubs[s] += n
		}
	}
	for a := range st.Assumes {
		e.assumes[a] = true
	}
	for _, s := range st.Samples {
		if len(c.Samples) < 12 {
			c.Samples = append(c.Samples, map[string]string{"harness": h.Func, "obligation": s})
		}
	}
	hm := map[string]interface{}{
		"func": h.Func, "what": h.What, "params": params, "paths": st.Paths, "path_ends": st.PathEnds,
		"obligations": st.Obligations, "trivially_true_after_simplification": st.Trivial, "discharged": st.Discharged,
		"feasibility_queries": st.BranchQ, "assertion_queries": st.AssertQ, "solver_unknown": st.Unknown,
		"merges": st.Merges, "forks": st.Forks, "instructions": st.Steps, "wall_s": r.Wall.Seconds(),
		"solver_s": r.SolverTime.Seconds(), "assert_labels_reached": st.AssertLabels, "covers": st.Covers,
		"shapes": st.Shapes, "go_statements_recorded": st.GoStmts, "init_notes": len(st.InitFailed),
		"second_solver_rechecked": st.CrossChecked, "second_solver_unknown": st.CrossUnknown, "second_solver_disagreements": st.CrossDisagree, "second_solver_skipped_budget": st.CrossSkipped,
		"violation_candidates": len(r.Viols), "inconclusive": r.Inconclusive,
	}
	c.Harnesses = append(c.Harnesses, hm)
}

func (e *evidence) finish(pr propReg, wall time.Duration) {
	c := &e.Coverage
	for f := range e.funcs {
		c.Functions = append(c.Functions, f)
	}
	sort.Strings(c.Functions)
	c.Bounds = pr.Bounds
	c.Outside = pr.Outside
	c.Rule = "a case is one explored execution path of a harness (a conjunction of branch decisions over symbolic inputs, i.e. a set of concrete inputs); paths are distinct by construction (DFS over decisions); counted as non-trivial when the path ran to the end of the harness"
	c.Explanation = "bounded symbolic execution of the real Go code (go/ssa of /repo's working tree, rebuilt on this run) into SMT-LIB2 bit-vector terms; each harness assertion is an obligation discharged by z3 as unsat(path ∧ ¬assert) for every value of the symbolic inputs inside the stated bounds, or refuted by a model that is replayed natively against /repo with go test -overlay. Loops are unwound up to the stated bound with unwinding assertions; nothing is claimed outside the bounds."
	c.TrustedBase = []string{"go/ssa (golang.org/x/tools v0.29.0)", "verif/engine/sym symbolic interpreter and its intrinsics", "z3 4.8.12", "the reference models written in the harness files"}
	c.CheckerCmd = "/verif/bin/vcheck " + e.PropertyID + " --tier " + e.Tier
	if c.Samples == nil {
		c.Samples = []interface{}{}
	}
	if len(c.Samples) == 0 {
		c.Samples = append(c.Samples, "all obligations of this run were discharged by term simplification (structural equality of the two sides)")
	}
	for a := range e.assumes {
		e.Assumptions = append(e.Assumptions, a)
	}
	e.Assumptions = append(e.Assumptions, pr.Assumes...)
	sort.Strings(e.Assumptions)
	if e.Assumptions == nil {
		e.Assumptions = []string{}
	}
	e.WallS = wall.Seconds()
}

func (e *evidence) write(path string) error {
	os.MkdirAll(filepath.Dir(path), 0o755)
	b, err := json.MarshalIndent(e, "", " ")
	if err != nil {
		return err
	}
	return os.WriteFile(path, b, 0o644)
}

// evidenceDir is /verif/evidence unless VERIF_EVIDENCE_DIR redirects it (scratch experiments).
func evidenceDir() string {
	if d := os.Getenv("VERIF_EVIDENCE_DIR"); d != "" {
		return d
	}
	return filepath.Join(verifDir, "evidence")
}
