package sym

import (
	"fmt"
	"os"
	"sort"
	"sync"
	"time"

	"golang.org/x/tools/go/packages"
	"golang.org/x/tools/go/ssa"
	"golang.org/x/tools/go/ssa/ssautil"
)

type Loaded struct {
	Prog *ssa.Program
	Pkgs []*ssa.Package
	Wall time.Duration
}

// Load type-checks the packages (with overlay) from repo's current working tree and builds SSA.
func Load(repo string, patterns []string, overlay map[string][]byte) (*Loaded, error) {
	t0 := time.Now()
	cfg := &packages.Config{Mode: packages.LoadAllSyntax, Dir: repo, Overlay: overlay,
		Env: append(os.Environ(), "GOFLAGS=-mod=mod", "GOPROXY=off", "GOSUMDB=off", "GOTOOLCHAIN=local")}
	pkgs, err := packages.Load(cfg, patterns...)
	if err != nil {
		return nil, err
	}
	var errs []string
	packages.Visit(pkgs, nil, func(p *packages.Package) {
		for _, e := range p.Errors {
			errs = append(errs, e.Error())
		}
	})
	if len(errs) > 0 {
		if len(errs) > 10 {
			errs = errs[:10]
		}
		return nil, fmt.Errorf("package errors: %v", errs)
	}
	prog, spkgs := ssautil.AllPackages(pkgs, ssa.InstantiateGenerics)
	prog.Build()
	return &Loaded{Prog: prog, Pkgs: spkgs, Wall: time.Since(t0)}, nil
}

func (ld *Loaded) FindFunc(pkgPath, name string) (*ssa.Package, *ssa.Function) {
	for _, p := range ld.Prog.AllPackages() {
		if p.Pkg.Path() == pkgPath {
			return p, p.Func(name)
		}
	}
	return nil, nil
}

type HarnessSpec struct {
	Pkg     string
	Func    string
	Cfg     Config
	Workers int
	Solver  string
	Timeout int // ms per query
	MaxViol int
}

type HarnessResult struct {
	Spec         HarnessSpec
	Stats        *Stats
	Viols        []Violation
	Wall         time.Duration
	SolverTime   time.Duration
	Queries      int
	Inconclusive []string
	PathsCapped  bool
}

type taskQueue struct {
	mu      sync.Mutex
	cond    *sync.Cond
	tasks   [][]decision
	idle    int
	workers int
	done    bool
	paths   int
	maxP    int
	capped  bool
}

func freeze(pre []decision) []decision {
	r := make([]decision, len(pre))
	for i, d := range pre {
		r[i] = decision{kind: d.kind, choice: d.choice, val: d.val}
		if d.kind == 'v' {
			r[i].kind = 'f'
		}
	}
	return r
}

func (q *taskQueue) push(pre []decision) bool {
	q.mu.Lock()
	defer q.mu.Unlock()
	if q.idle == 0 || len(q.tasks) >= q.idle {
		return false
	}
	q.tasks = append(q.tasks, freeze(pre))
	q.cond.Signal()
	return true
}

func (q *taskQueue) pop() ([]decision, bool) {
	q.mu.Lock()
	defer q.mu.Unlock()
	q.idle++
	for len(q.tasks) == 0 && !q.done {
		if q.idle == q.workers {
			q.done = true
			q.cond.Broadcast()
			break
		}
		q.cond.Wait()
	}
	if len(q.tasks) == 0 {
		return nil, false
	}
	q.idle--
	t := q.tasks[len(q.tasks)-1]
	q.tasks = q.tasks[:len(q.tasks)-1]
	return t, true
}

func (q *taskQueue) countPath() bool {
	q.mu.Lock()
	defer q.mu.Unlock()
	q.paths++
	if q.maxP > 0 && q.paths > q.maxP {
		q.capped = true
		return false
	}
	return true
}

// RunHarness explores all paths of the harness within the bounds.
func RunHarness(ld *Loaded, spec HarnessSpec) (*HarnessResult, error) {
	t0 := time.Now()
	pkg, fn := ld.FindFunc(spec.Pkg, spec.Func)
	if fn == nil {
		return nil, fmt.Errorf("harness %s.%s not found", spec.Pkg, spec.Func)
	}
	if spec.Workers <= 0 {
		spec.Workers = 16
	}
	if spec.Solver == "" {
		spec.Solver = "z3-new" // z3 5.1.0: its incremental bit-vector core is 10-30x faster than 4.8.12 on these queries
		if s := os.Getenv("VERIF_SOLVER"); s != "" {
			spec.Solver = s
		}
	}
	if spec.Timeout == 0 {
		spec.Timeout = 20000
	}
	if spec.Cfg.MaxSteps == 0 {
		spec.Cfg.MaxSteps = 20_000_000
	}
	if spec.Cfg.MaxDepth == 0 {
		spec.Cfg.MaxDepth = 400
	}
	if spec.Cfg.Unwind == 0 {
		spec.Cfg.Unwind = 64
	}
	if spec.MaxViol == 0 {
		spec.MaxViol = 200
	}
	q := &taskQueue{workers: spec.Workers, maxP: spec.Cfg.MaxPaths}
	q.cond = sync.NewCond(&q.mu)
	q.tasks = append(q.tasks, nil)
	res := &HarnessResult{Spec: spec, Stats: newStats()}
	var mu sync.Mutex
	var wg sync.WaitGroup
	var firstErr error
	for w := 0; w < spec.Workers; w++ {
		wg.Add(1)
		go func(w int) {
			defer wg.Done()
			cfg := spec.Cfg // copy per worker
			m, err := NewMachine(ld.Prog, &cfg, spec.Solver, spec.Timeout)
			if err != nil {
				mu.Lock()
				firstErr = err
				mu.Unlock()
				return
			}
			defer m.Close()
			inited := false
			for {
				pre, ok := q.pop()
				if !ok {
					break
				}
				if !inited {
					m.RunInit(pkg)
					inited = true
				}
				m.spawn = q.push
				m.log = pre
				for {
					if !q.countPath() {
						break
					}
					r := m.RunPath(fn)
					m.stats.Paths++
					m.stats.PathEnds[r.Kind]++
					if debugOn && m.stats.Paths < 40 {
						fmt.Printf("[path %d] %s %s log=%s\n", m.stats.Paths, r.Kind, r.Detail, fmtLog(m.log))
					}
					if r.Kind == "deadline" {
						break
					}
					nl, more := nextLog(m.log)
					if !more {
						break
					}
					m.log = nl
				}
			}
			mu.Lock()
			res.Stats.merge(m.stats)
			res.Viols = append(res.Viols, m.viols...)
			res.SolverTime += m.solver.Time
			res.Queries += m.solver.Queries
			if m.solver.Errors > 0 {
				res.Inconclusive = append(res.Inconclusive, fmt.Sprintf("solver errors: %d (last: %s)", m.solver.Errors, m.solver.LastErr))
			}
			mu.Unlock()
		}(w)
	}
	wg.Wait()
	if firstErr != nil {
		return nil, firstErr
	}
	res.Wall = time.Since(t0)
	res.PathsCapped = q.capped
	st := res.Stats
	if q.capped {
		res.Inconclusive = append(res.Inconclusive, fmt.Sprintf("path cap %d reached", spec.Cfg.MaxPaths))
	}
	for _, k := range []string{"unsupported", "unknown", "deadline"} {
		if n := st.PathEnds[k]; n > 0 {
			detail := ""
			if k == "unsupported" {
				var ks []string
				for u := range st.Unsupported {
					ks = append(ks, u)
				}
				sort.Strings(ks)
				detail = fmt.Sprint(ks)
			}
			res.Inconclusive = append(res.Inconclusive, fmt.Sprintf("%d paths ended %s %s", n, k, detail))
		}
	}
	if st.Unknown > 0 {
		res.Inconclusive = append(res.Inconclusive, fmt.Sprintf("%d solver unknowns", st.Unknown))
	}
	if st.PathEnds["done"] == 0 {
		res.Inconclusive = append(res.Inconclusive, "vacuous: no path reached the end of the harness")
	}
	return res, nil
}

func fmtLog(log []decision) string {
	s := ""
	for _, d := range log {
		switch d.kind {
		case 'v', 'f':
			s += fmt.Sprintf("%c=%d(ex%d) ", d.kind, d.val, len(d.excluded))
		default:
			s += fmt.Sprintf("%c%d/%d ", d.kind, d.choice, len(d.remaining))
		}
	}
	return s
}
