package sym

import (
	"fmt"

	"golang.org/x/tools/go/ssa"
)

func (m *Machine) vrtFresh(a []value, w int) value {
	return m.fresh(cstr(a[0]), w)
}

var vrtIntrinsics map[string]intrinsic

func init() {
	vrtIntrinsics = map[string]intrinsic{
		"Bool": func(m *Machine, fn *ssa.Function, a []value) value { return m.vrtFresh(a, 0) },
		"Byte": func(m *Machine, fn *ssa.Function, a []value) value { return m.vrtFresh(a, 8) },
		"U16":  func(m *Machine, fn *ssa.Function, a []value) value { return m.vrtFresh(a, 16) },
		"U32":  func(m *Machine, fn *ssa.Function, a []value) value { return m.vrtFresh(a, 32) },
		"U64":  func(m *Machine, fn *ssa.Function, a []value) value { return m.vrtFresh(a, 64) },
		"Int":  func(m *Machine, fn *ssa.Function, a []value) value { return m.vrtFresh(a, 64) },
		"I64":  func(m *Machine, fn *ssa.Function, a []value) value { return m.vrtFresh(a, 64) },
		"I32":  func(m *Machine, fn *ssa.Function, a []value) value { return m.vrtFresh(a, 32) },
		"I16":  func(m *Machine, fn *ssa.Function, a []value) value { return m.vrtFresh(a, 16) },
		"I8":   func(m *Machine, fn *ssa.Function, a []value) value { return m.vrtFresh(a, 8) },
		"Bytes": func(m *Machine, fn *ssa.Function, a []value) value {
			n := m.concInt(a[1])
			label := sanitize(cstr(a[0]))
			k := m.nondetN[label]
			m.nondetN[label] = k + 1
			r := make([]value, n)
			for i := range r {
				r[i] = m.tt.Var(fmt.Sprintf("v_%s_%d_%d", label, k, i), 8)
			}
			return r
		},
		"Str": func(m *Machine, fn *ssa.Function, a []value) value {
			n := m.concInt(a[1])
			label := sanitize(cstr(a[0]))
			k := m.nondetN[label]
			m.nondetN[label] = k + 1
			if n == 0 {
				return Str{}
			}
			r := make([]*Term, n)
			for i := range r {
				r[i] = m.tt.Var(fmt.Sprintf("v_%s_%d_%d", label, k, i), 8)
			}
			return Str{B: r}
		},
		"Choose": func(m *Machine, fn *ssa.Function, a []value) value {
			n := m.concInt(a[1])
			k := m.choose(n)
			m.stats.Shapes[cstr(a[0])]++
			return m.i64(k)
		},
		"Range": func(m *Machine, fn *ssa.Function, a []value) value {
			lo, hi := m.concInt(a[1]), m.concInt(a[2])
			k := m.choose(hi - lo + 1)
			return m.i64(lo + k)
		},
		"Assume": func(m *Machine, fn *ssa.Function, a []value) value {
			c := a[0].(*Term)
			if c.IsTrue() {
				return nil
			}
			if c.IsFalse() {
				panic(pathEnd{"infeasible", "assume false"})
			}
			if m.feasible(c) == Unsat {
				panic(pathEnd{"infeasible", "assume"})
			}
			m.addPC(c)
			return nil
		},
		"Assert": func(m *Machine, fn *ssa.Function, a []value) value {
			c := a[0].(*Term)
			label := cstr(a[1])
			m.stats.Obligations++
			m.stats.AssertLabels[label]++
			if c.IsTrue() {
				m.stats.Trivial++
				m.stats.Discharged++
				return nil
			}
			if len(m.stats.Samples) < 6 {
				m.stats.Samples = append(m.stats.Samples, fmt.Sprintf("%s: pc[%d conjuncts] => %s", label, len(m.pc), c.String()))
			}
			viol := m.checkViolation(m.tt.Not(c), "assert", label, "")
			if c.IsFalse() {
				panic(pathEnd{"infeasible", "assert false"})
			}
			// continue under the assumption that the assertion holds (pc is satisfiable, so if no
			// violating model exists pc ∧ c is satisfiable too and needs no query)
			if viol && m.feasible(c) == Unsat {
				panic(pathEnd{"infeasible", "assert always fails here"})
			}
			m.addPC(c)
			return nil
		},
		"Known": func(m *Machine, fn *ssa.Function, a []value) value {
			m.known = append(m.known, knownPred{id: cstr(a[0]), pred: a[1].(*Term)})
			return nil
		},
		"Cover": func(m *Machine, fn *ssa.Function, a []value) value {
			m.stats.Covers[cstr(a[0])]++
			return nil
		},
		"Param": func(m *Machine, fn *ssa.Function, a []value) value {
			name := cstr(a[0])
			if v, ok := m.cfg.Params[name]; ok {
				return m.i64(v)
			}
			return a[1]
		},
		"Symbolic": func(m *Machine, fn *ssa.Function, a []value) value { return m.tt.True },
		"GoCount": func(m *Machine, fn *ssa.Function, a []value) value {
			gs, _ := m.ghost["go"].([]goRecord)
			return m.i64(len(gs))
		},
		"RunGo": func(m *Machine, fn *ssa.Function, a []value) value {
			gs, _ := m.ghost["go"].([]goRecord)
			i := m.concInt(a[0])
			m.callValue(gs[i].fn, gs[i].args, nil)
			return nil
		},
		"MapOrder": func(m *Machine, fn *ssa.Function, a []value) value {
			m.cfg.MapOrder = a[0].(*Term).IsTrue()
			return nil
		},
		"IsConcrete": func(m *Machine, fn *ssa.Function, a []value) value {
			if t, ok := a[0].(iface).v.(*Term); ok {
				return m.tt.Bool(t.IsConst())
			}
			return m.tt.True
		},
	}
}

// VrtSource is the native implementation of the harness runtime, injected as an overlay package.
// In symbolic mode its bodies are never executed (all functions are intrinsics).
const VrtSource = `// Package zz_vrt is the verification harness runtime (injected by overlay; not part of bfe).
package zz_vrt

import (
	"encoding/json"
	"fmt"
	"os"
	"time"
)

type replay struct {
	Values  map[string]uint64 ` + "`json:\"values\"`" + `
	Choices []int             ` + "`json:\"choices\"`" + `
	Params  map[string]int    ` + "`json:\"params\"`" + `
}

var (
	rp      replay
	loaded  bool
	counts  = map[string]int{}
	choiceN int
)

func load() {
	if loaded {
		return
	}
	loaded = true
	p := os.Getenv("VRT_REPLAY")
	if p == "" {
		return
	}
	b, err := os.ReadFile(p)
	if err != nil {
		fmt.Println("VRT-ERROR cannot read replay:", err)
		os.Exit(5)
	}
	if err := json.Unmarshal(b, &rp); err != nil {
		fmt.Println("VRT-ERROR bad replay:", err)
		os.Exit(5)
	}
}

// Reset restarts the replay cursor (used by test wrappers that run a harness twice).
func Reset() { counts = map[string]int{}; choiceN = 0 }

func sanitize(s string) string {
	b := []byte(s)
	for i, c := range b {
		if !(c >= 'a' && c <= 'z' || c >= 'A' && c <= 'Z' || c >= '0' && c <= '9' || c == '_') {
			b[i] = '_'
		}
	}
	return string(b)
}

func val(label string) uint64 {
	load()
	label = sanitize(label)
	k := counts[label]
	counts[label] = k + 1
	return rp.Values[fmt.Sprintf("v_%s_%d", label, k)]
}

func Bool(label string) bool { return val(label) != 0 }
func Byte(label string) byte { return byte(val(label)) }
func U16(label string) uint16 { return uint16(val(label)) }
func U32(label string) uint32 { return uint32(val(label)) }
func U64(label string) uint64 { return val(label) }
func Int(label string) int    { return int(val(label)) }
func I64(label string) int64  { return int64(val(label)) }
func I32(label string) int32  { return int32(val(label)) }
func I16(label string) int16  { return int16(val(label)) }
func I8(label string) int8    { return int8(val(label)) }

func Bytes(label string, n int) []byte {
	load()
	label = sanitize(label)
	k := counts[label]
	counts[label] = k + 1
	r := make([]byte, n)
	for i := range r {
		r[i] = byte(rp.Values[fmt.Sprintf("v_%s_%d_%d", label, k, i)])
	}
	return r
}

func Str(label string, n int) string { return string(Bytes(label, n)) }

func Choose(label string, n int) int {
	load()
	if n <= 1 {
		return 0
	}
	if choiceN >= len(rp.Choices) {
		fmt.Println("VRT-ERROR replay ran out of choices at", label)
		os.Exit(5)
	}
	c := rp.Choices[choiceN]
	choiceN++
	return c
}

func Range(label string, lo, hi int) int { return lo + Choose(label, hi-lo+1) }

func Assume(c bool) {
	if !c {
		fmt.Println("VRT-ASSUME-FAIL")
		os.Exit(4)
	}
}

func Assert(c bool, label string) {
	if !c {
		fmt.Printf("VRT-FAIL label=%s\n", label)
		os.Exit(3)
	}
}

func Known(id string, pred bool) {
	if pred {
		fmt.Printf("VRT-KNOWN id=%s\n", id)
	}
}

func Cover(label string) {}

func Param(name string, def int) int {
	load()
	if v, ok := rp.Params[name]; ok {
		return v
	}
	return def
}

func Symbolic() bool { return false }
func GoCount() int   { return 0 }
func RunGo(i int)    {}
func MapOrder(on bool) {}
func IsConcrete(x interface{}) bool { return true }

// CondSignals is only meaningful symbolically (number of sync.Cond.Signal/Broadcast calls so far).
func CondSignals() int { return 0 }

// OnBlock registers the harness's "other party" of a channel protocol. Symbolically the engine runs f
// when the code under test would block; natively f is polled from a helper goroutine until OnBlock(nil)
// (which waits for the helper to stop, so the harness may then read what f recorded).
var (
	peerStop chan struct{}
	peerDone chan struct{}
)

func OnBlock(f func()) {
	if peerStop != nil {
		close(peerStop)
		<-peerDone
		peerStop = nil
	}
	if f == nil {
		return
	}
	stop, done := make(chan struct{}), make(chan struct{})
	peerStop, peerDone = stop, done
	go func() {
		defer close(done)
		for {
			select {
			case <-stop:
				return
			default:
			}
			f()
			time.Sleep(20 * time.Microsecond)
		}
	}()
}

// ExpectBlock: the code called next is expected to block forever. Natively a watchdog ends the process
// quietly (nothing reproduced) if the harness is still stuck after 300ms; ExpectBlock("") disarms it.
var blockTimer *time.Timer

func ExpectBlock(label string) {
	if blockTimer != nil {
		blockTimer.Stop()
		blockTimer = nil
	}
	if label == "" {
		return
	}
	blockTimer = time.AfterFunc(300*time.Millisecond, func() {
		fmt.Printf("VRT-BLOCKED-AS-EXPECTED label=%s\n", label)
		os.Exit(0)
	})
}
`
