package sym

import (
	"fmt"
	"go/token"
	"go/types"
	"math"
	"unicode/utf8"

	"golang.org/x/tools/go/ssa"
)

// ---------- runtime errors ----------

// mkRuntimeError builds a value implementing error for runtime panics: a runtime.Error-like iface with a string payload.
func (m *Machine) mkRuntimeError(msg string) value {
	return iface{t: m.runtimeErrType(), v: Str{S: "runtime error: " + msg}}
}

func (m *Machine) mkRuntimeErrorPlain(msg string) value {
	return iface{t: m.runtimeErrType(), v: Str{S: msg}}
}

// runtimeErrType: we use runtime.errorString (a string type implementing runtime.Error) when available.
func (m *Machine) runtimeErrType() types.Type {
	if m.errType != nil {
		return m.errType
	}
	if p := m.prog.ImportedPackage("runtime"); p != nil {
		if t := p.Type("errorString"); t != nil {
			m.errType = t.Type()
			return m.errType
		}
	}
	m.errType = types.Typ[types.String]
	return m.errType
}

// concInt concretizes an integer value (forking over feasible values if symbolic).
func (m *Machine) concInt(v value) int {
	t := v.(*Term)
	if t.IsConst() {
		return int(t.SVal())
	}
	if m.spec > 0 {
		panic(mergeAbort{})
	}
	c := m.concretize(t)
	return int(m.tt.Const(t.W, c).SVal())
}

// ---------- unary / binary ----------

func (fr *frame) unop(instr *ssa.UnOp, x value) value {
	m := fr.m
	switch instr.Op {
	case token.ARROW:
		ch := x.(*Chan)
		et := instr.X.Type().Underlying().(*types.Chan).Elem()
		v, ok := m.chanRecv(ch, m.zero(et))
		if instr.CommaOk {
			return tuple{v, m.tt.Bool(ok)}
		}
		return v
	case token.SUB:
		switch x := x.(type) {
		case *Term:
			return m.tt.Neg(x)
		case float64:
			return -x
		}
	case token.MUL:
		return m.loadFrom(x)
	case token.NOT:
		return m.tt.Not(x.(*Term))
	case token.XOR:
		return m.tt.BvNot(x.(*Term))
	}
	panic(fmt.Sprintf("unop %s %T", instr.Op, x))
}

func (m *Machine) loadFrom(p value) value {
	switch p := p.(type) {
	case *value:
		if p == nil {
			panic(goPanic{m.mkRuntimeError("invalid memory address or nil pointer dereference")})
		}
		return load(p)
	case *SymRef:
		return m.symLoad(p)
	case *PtrSet:
		return m.ptrSetLoad(p)
	case unsafePtr:
		return m.loadFrom(p.v)
	}
	panic(fmt.Sprintf("load from %T", p))
}

func (fr *frame) storeTo(p value, v value) { fr.m.storePtr(p, v) }

func (m *Machine) storePtr(p value, v value) {
	if m.spec > 0 {
		panic(mergeAbort{})
	}
	switch p := p.(type) {
	case *value:
		if p == nil {
			panic(goPanic{m.mkRuntimeError("invalid memory address or nil pointer dereference")})
		}
		m.store(p, v)
		return
	case *SymRef:
		m.symStore(p, v)
		return
	case *PtrSet:
		m.ptrSetStore(p, v)
		return
	}
	panic(fmt.Sprintf("store to %T", p))
}

func cellAt(v *value, path []int) *value {
	for _, i := range path {
		switch a := (*v).(type) {
		case structure:
			v = &a[i]
		case array:
			v = &a[i]
		default:
			panic("cellAt")
		}
	}
	return v
}

func (m *Machine) symLoad(p *SymRef) value {
	// pointer-valued cells: build the guarded pointer set directly (guards idx==i are disjoint)
	if len(p.base) > 0 {
		if _, isPtr := (*cellAt(&p.base[0], p.path)).(*value); isPtr {
			alts := make([]ptrAlt, 0, len(p.base))
			allPtr := true
			for i := range p.base {
				q, ok := (*cellAt(&p.base[i], p.path)).(*value)
				if !ok {
					allPtr = false
					break
				}
				alts = append(alts, ptrAlt{m.tt.Eq(p.idx, m.tt.Const(p.idx.W, uint64(i))), q})
			}
			if allPtr {
				if r, ok := m.mkPtrSet(alts); ok {
					return r
				}
			}
		}
	}
	var res value
	for i := len(p.base) - 1; i >= 0; i-- {
		v := load(cellAt(&p.base[i], p.path))
		if res == nil {
			res = v
			continue
		}
		c := m.tt.Eq(p.idx, m.tt.Const(p.idx.W, uint64(i)))
		// run-length form for tables of constants (e.g. a 10000-entry bucket table with a few ranges
		// set): cells j..i holding the same constant become one guard j <= idx <= i
		if tv, ok := v.(*Term); ok && tv.IsConst() {
			j := i
			for j > 0 {
				u, ok := load(cellAt(&p.base[j-1], p.path)).(*Term)
				if !ok || !u.IsConst() || u.W != tv.W || u.Val != tv.Val {
					break
				}
				j--
			}
			if j < i {
				c = m.tt.Cmp("bvule", p.idx, m.tt.Const(p.idx.W, uint64(i)))
				if j > 0 {
					c = m.tt.And(m.tt.Cmp("bvuge", p.idx, m.tt.Const(p.idx.W, uint64(j))), c)
				}
				i = j
			}
		}
		r, ok := m.mergeVals(c, v, res)
		if !ok {
			// fall back to concretizing the index
			if m.spec > 0 {
				panic(mergeAbort{})
			}
			k := m.concretize(p.idx)
			return load(cellAt(&p.base[k], p.path))
		}
		res = r
	}
	return res
}

func (m *Machine) symStore(p *SymRef, v value) {
	for i := range p.base {
		cell := cellAt(&p.base[i], p.path)
		c := m.tt.Eq(p.idx, m.tt.Const(p.idx.W, uint64(i)))
		nv, ok := m.mergeVals(c, v, *cell)
		if !ok {
			k := m.concretize(p.idx)
			m.store(cellAt(&p.base[k], p.path), v)
			return
		}
		m.store(cell, nv)
	}
}

func cmpOp(op token.Token, signed bool) string {
	switch op {
	case token.LSS:
		if signed {
			return "bvslt"
		}
		return "bvult"
	case token.LEQ:
		if signed {
			return "bvsle"
		}
		return "bvule"
	case token.GTR:
		if signed {
			return "bvsgt"
		}
		return "bvugt"
	case token.GEQ:
		if signed {
			return "bvsge"
		}
		return "bvuge"
	}
	panic("cmpOp")
}

func (m *Machine) binop(op token.Token, t types.Type, x, y value, ty types.Type) value {
	switch op {
	case token.EQL:
		return m.eqTerm(t, x, y)
	case token.NEQ:
		return m.tt.Not(m.eqTerm(t, x, y))
	}
	switch xv := x.(type) {
	case *Term:
		yv := y.(*Term)
		if xv.W == 0 {
			switch op {
			case token.AND:
				return m.tt.And(xv, yv)
			case token.OR:
				return m.tt.Or(xv, yv)
			}
			panic("bool binop " + op.String())
		}
		signed := isSigned(t)
		switch op {
		case token.ADD:
			return m.tt.Bin("bvadd", xv, yv)
		case token.SUB:
			return m.tt.Bin("bvsub", xv, yv)
		case token.MUL:
			return m.tt.Bin("bvmul", xv, yv)
		case token.QUO, token.REM:
			zero := m.tt.Eq(yv, m.tt.Const(yv.W, 0))
			if !zero.IsFalse() {
				if m.spec > 0 {
					panic(mergeAbort{})
				}
				if m.branch(zero) {
					panic(goPanic{m.mkRuntimeError("integer divide by zero")})
				}
			}
			var o string
			switch {
			case op == token.QUO && signed:
				o = "bvsdiv"
			case op == token.QUO:
				o = "bvudiv"
			case signed:
				o = "bvsrem"
			default:
				o = "bvurem"
			}
			return m.tt.Bin(o, xv, yv)
		case token.AND:
			return m.tt.Bin("bvand", xv, yv)
		case token.OR:
			return m.tt.Bin("bvor", xv, yv)
		case token.XOR:
			return m.tt.Bin("bvxor", xv, yv)
		case token.AND_NOT:
			return m.tt.Bin("bvand", xv, m.tt.BvNot(yv))
		case token.SHL, token.SHR:
			if isSigned(ty) {
				neg := m.tt.Cmp("bvslt", yv, m.tt.Const(yv.W, 0))
				if !neg.IsFalse() {
					if m.spec > 0 {
						panic(mergeAbort{})
					}
					if m.branch(neg) {
						panic(goPanic{m.mkRuntimeError("negative shift amount")})
					}
				}
			}
			// a symbolic shift amount has a tiny domain and makes every later term a barrel shifter:
			// concretise it by forking over its feasible values
			if !yv.IsConst() && !xv.IsConst() && !m.cfg.SymbolicShifts {
				if m.spec > 0 {
					panic(mergeAbort{})
				}
				yv = m.tt.Const(yv.W, m.concretize(yv))
			}
			// bring the amount to x's width, saturating
			var amt *Term
			if yv.W > xv.W {
				big := m.tt.Cmp("bvuge", yv, m.tt.Const(yv.W, uint64(xv.W)))
				amt = m.tt.Ite(big, m.tt.Const(xv.W, uint64(xv.W)), m.tt.Extract(yv, xv.W-1, 0))
			} else {
				amt = m.tt.ZExt(yv, xv.W)
			}
			if op == token.SHL {
				return m.tt.Bin("bvshl", xv, amt)
			}
			if signed {
				return m.tt.Bin("bvashr", xv, amt)
			}
			return m.tt.Bin("bvlshr", xv, amt)
		case token.LSS, token.LEQ, token.GTR, token.GEQ:
			return m.tt.Cmp(cmpOp(op, signed), xv, yv)
		}
	case Str:
		yv := y.(Str)
		switch op {
		case token.ADD:
			return m.strConcat(xv, yv)
		case token.LSS:
			return m.strLess(xv, yv)
		case token.GTR:
			return m.strLess(yv, xv)
		case token.LEQ:
			return m.tt.Not(m.strLess(yv, xv))
		case token.GEQ:
			return m.tt.Not(m.strLess(xv, yv))
		}
	case float64:
		yv := y.(float64)
		f32 := false
		if b, ok := t.Underlying().(*types.Basic); ok && b.Kind() == types.Float32 {
			f32 = true
		}
		rnd := func(f float64) value {
			if f32 {
				return float64(float32(f))
			}
			return f
		}
		switch op {
		case token.ADD:
			return rnd(xv + yv)
		case token.SUB:
			return rnd(xv - yv)
		case token.MUL:
			return rnd(xv * yv)
		case token.QUO:
			return rnd(xv / yv)
		case token.LSS:
			return m.tt.Bool(xv < yv)
		case token.LEQ:
			return m.tt.Bool(xv <= yv)
		case token.GTR:
			return m.tt.Bool(xv > yv)
		case token.GEQ:
			return m.tt.Bool(xv >= yv)
		}
	}
	panic(unsupported{fmt.Sprintf("binop %s on %T", op, x)})
}

// ---------- conversions ----------

func (m *Machine) conv(dst, src types.Type, x value) value {
	x = m.resolveSlice(x)
	ud, us := dst.Underlying(), src.Underlying()
	// pointer / unsafe.Pointer conversions
	if b, ok := ud.(*types.Basic); ok && b.Kind() == types.UnsafePointer {
		if up, ok := x.(unsafePtr); ok {
			return up
		}
		if t, ok := x.(*Term); ok { // uintptr -> unsafe.Pointer
			if t.IsConst() && t.Val == 0 {
				return unsafePtr{}
			}
			panic(unsupported{"uintptr to unsafe.Pointer"})
		}
		return unsafePtr{v: x}
	}
	if b, ok := us.(*types.Basic); ok && b.Kind() == types.UnsafePointer {
		up := x.(unsafePtr)
		switch ud.(type) {
		case *types.Pointer:
			if up.v == nil {
				return (*value)(nil)
			}
			return up.v
		case *types.Basic: // uintptr
			if up.v == nil {
				return m.tt.Const(64, 0)
			}
			if p, ok := up.v.(*value); ok && p == nil {
				return m.tt.Const(64, 0)
			}
			panic(unsupported{"unsafe.Pointer to uintptr"})
		}
	}
	switch xv := x.(type) {
	case *Term:
		if db, ok := ud.(*types.Basic); ok {
			switch {
			case db.Info()&types.IsInteger != 0:
				w := intWidth(db)
				if xv.W == 0 {
					panic("conv bool")
				}
				if w <= xv.W {
					return m.tt.Extract(xv, w-1, 0)
				}
				if isSigned(src) {
					return m.tt.SExt(xv, w)
				}
				return m.tt.ZExt(xv, w)
			case db.Info()&types.IsFloat != 0:
				if !xv.IsConst() {
					panic(unsupported{"symbolic int to float"})
				}
				var f float64
				if isSigned(src) {
					f = float64(xv.SVal())
				} else {
					f = float64(xv.Val)
				}
				if db.Kind() == types.Float32 {
					f = float64(float32(f))
				}
				return f
			case db.Info()&types.IsString != 0:
				// integer (rune) to string
				if !xv.IsConst() {
					// ASCII only
					if m.spec > 0 {
						panic(mergeAbort{})
					}
					ascii := m.tt.Cmp("bvult", xv, m.tt.Const(xv.W, 0x80))
					if m.branch(ascii) {
						return Str{B: []*Term{m.tt.Extract(xv, 7, 0)}}
					}
					return m.runeToStrSym(xv)
				}
				return Str{S: string(rune(xv.SVal()))}
			}
		}
	case float64:
		if db, ok := ud.(*types.Basic); ok {
			switch {
			case db.Info()&types.IsFloat != 0:
				if db.Kind() == types.Float32 {
					return float64(float32(xv))
				}
				return xv
			case db.Info()&types.IsInteger != 0:
				w := intWidth(db)
				if db.Info()&types.IsUnsigned != 0 {
					return m.tt.Const(w, uint64(xv))
				}
				return m.tt.Const(w, uint64(int64(xv)))
			}
		}
	case Str:
		switch d := ud.(type) {
		case *types.Basic:
			return xv
		case *types.Slice:
			eb := d.Elem().Underlying().(*types.Basic)
			switch eb.Kind() {
			case types.Uint8:
				bs := m.strBytes(xv)
				r := make([]value, len(bs))
				for i, b := range bs {
					r[i] = b
				}
				return r
			case types.Int32:
				c, ok := xv.Concrete()
				if !ok {
					// ASCII-only symbolic strings
					r := make([]value, xv.Len())
					for i, b := range xv.B {
						if m.spec > 0 {
							panic(mergeAbort{})
						}
						if !m.branch(m.tt.Cmp("bvult", b, m.tt.Const(8, 0x80))) {
							panic(unsupported{"symbolic non-ASCII string to []rune"})
						}
						r[i] = m.tt.ZExt(b, 32)
					}
					return r
				}
				rs := []rune(c)
				r := make([]value, len(rs))
				for i, x := range rs {
					r[i] = m.tt.Const(32, uint64(uint32(x)))
				}
				return r
			}
		}
	case []value:
		if db, ok := ud.(*types.Basic); ok && db.Info()&types.IsString != 0 {
			eb := us.(*types.Slice).Elem().Underlying().(*types.Basic)
			if eb.Kind() == types.Uint8 {
				r := make([]*Term, len(xv))
				for i, b := range xv {
					r[i] = b.(*Term)
				}
				if len(r) == 0 {
					return Str{}
				}
				return m.strNorm(Str{B: r})
			}
			// []rune -> string
			allConst := true
			for _, b := range xv {
				if !b.(*Term).IsConst() {
					allConst = false
				}
			}
			if !allConst {
				// symbolic runes: ASCII only (one byte each); concrete runes keep their UTF-8 encoding
				var r []*Term
				for _, b := range xv {
					t := b.(*Term)
					if t.IsConst() {
						for _, c := range []byte(string(rune(t.SVal()))) {
							r = append(r, m.tt.Const(8, uint64(c)))
						}
						continue
					}
					if m.spec > 0 {
						panic(mergeAbort{})
					}
					if !m.branch(m.tt.Cmp("bvult", t, m.tt.Const(t.W, 0x80))) {
						panic(unsupported{"symbolic non-ASCII []rune to string"})
					}
					r = append(r, m.tt.Extract(t, 7, 0))
				}
				if len(r) == 0 {
					return Str{}
				}
				return m.strNorm(Str{B: r})
			}
			rs := make([]rune, len(xv))
			for i, b := range xv {
				rs[i] = rune(b.(*Term).SVal())
			}
			return Str{S: string(rs)}
		}
		if _, ok := ud.(*types.Slice); ok {
			return xv
		}
	case *value:
		return xv
	}
	if types.Identical(ud, us) {
		return x
	}
	panic(unsupported{fmt.Sprintf("conv %s -> %s (%T)", src, dst, x)})
}

// ---------- addressing ----------

func (fr *frame) fieldAddr(x value, field int) value {
	m := fr.m
	switch p := x.(type) {
	case *value:
		if p == nil {
			panic(goPanic{m.mkRuntimeError("invalid memory address or nil pointer dereference")})
		}
		st, ok := (*p).(structure)
		if !ok {
			panic(unsupported{fmt.Sprintf("field address in %T (unsafe cast?)", *p)})
		}
		return &st[field]
	case *SymRef:
		np := append(append([]int(nil), p.path...), field)
		return &SymRef{base: p.base, idx: p.idx, path: np}
	case *PtrSet:
		return m.ptrSetMap(p, func(q *value) *value {
			st, ok := (*q).(structure)
			if !ok {
				panic(unsupported{fmt.Sprintf("field address in %T (unsafe cast?)", *q)})
			}
			return &st[field]
		})
	}
	panic(fmt.Sprintf("fieldAddr %T", x))
}

// boundsCheck forks on idx in [0,n); returns concrete index or -1 with sym term.
func (m *Machine) boundsCheck(idx *Term, n int, what string) {
	var ok *Term
	if idx.IsConst() {
		if idx.SVal() >= 0 && idx.SVal() < int64(n) {
			return
		}
		ok = m.tt.False
	} else {
		ok = m.tt.Cmp("bvult", idx, m.tt.Const(idx.W, uint64(n)))
	}
	if ok.IsTrue() {
		return
	}
	if ok.IsFalse() {
		d := "?"
		if idx.IsConst() {
			d = fmt.Sprint(idx.SVal())
		}
		panic(goPanic{m.mkRuntimeError(fmt.Sprintf("index out of range [%s] with length %d", d, n))})
	}
	if m.spec > 0 {
		panic(mergeAbort{})
	}
	if !m.branch(ok) {
		panic(goPanic{m.mkRuntimeError(fmt.Sprintf("index out of range [sym] with length %d", n))})
	}
}

func (fr *frame) indexAddr(instr *ssa.IndexAddr) value {
	m := fr.m
	x := fr.get(instr.X)
	idx := fr.get(instr.Index).(*Term)
	if idx.W != 64 {
		if isSigned(instr.Index.Type()) {
			idx = m.tt.SExt(idx, 64)
		} else {
			idx = m.tt.ZExt(idx, 64)
		}
	}
	var cells []value
	var path []int
	switch x := x.(type) {
	case *SliceSet:
		return m.sliceSetIndexAddr(x, idx)
	case []value:
		cells = x
	case *value: // *array
		if x == nil {
			panic(goPanic{m.mkRuntimeError("invalid memory address or nil pointer dereference")})
		}
		cells = (*x).(array)
	case *SymRef:
		// pointer to array inside a symbolic element: only concrete inner index
		m.boundsCheck(idx, int(instr.X.Type().Underlying().(*types.Pointer).Elem().Underlying().(*types.Array).Len()), "array")
		k := m.concInt(idx)
		np := append(append([]int(nil), x.path...), k)
		return &SymRef{base: x.base, idx: x.idx, path: np}
	case *PtrSet:
		n := int(instr.X.Type().Underlying().(*types.Pointer).Elem().Underlying().(*types.Array).Len())
		m.boundsCheck(idx, n, "array")
		if idx.IsConst() {
			return m.ptrSetMap(x, func(q *value) *value { return &(*q).(array)[idx.Val] })
		}
		alts := m.nonNilAlts(x)
		if len(alts)*n > maxPtrAlts {
			// too many combinations: resolve the pointer first
			q := m.resolvePtr(x).(*value)
			return &SymRef{base: (*q).(array), idx: idx}
		}
		var out []ptrAlt
		for _, a := range alts {
			arr := (*a.p).(array)
			for j := range arr {
				out = append(out, ptrAlt{m.tt.And(a.g, m.tt.Eq(idx, m.tt.Const(64, uint64(j)))), &arr[j]})
			}
		}
		r, ok := m.mkPtrSet(out)
		if !ok {
			panic(unsupported{"pointer set too large"})
		}
		return r
	default:
		panic(fmt.Sprintf("indexAddr %T", x))
	}
	_ = path
	m.boundsCheck(idx, len(cells), "slice")
	if idx.IsConst() {
		return &cells[idx.Val]
	}
	if len(cells) == 1 {
		return &cells[0]
	}
	return &SymRef{base: cells, idx: idx}
}

func (fr *frame) index(instr *ssa.Index) value {
	m := fr.m
	x := fr.get(instr.X)
	idx := fr.get(instr.Index).(*Term)
	if idx.W != 64 {
		if isSigned(instr.Index.Type()) {
			idx = m.tt.SExt(idx, 64)
		} else {
			idx = m.tt.ZExt(idx, 64)
		}
	}
	switch x := x.(type) {
	case array:
		m.boundsCheck(idx, len(x), "array")
		if idx.IsConst() {
			return copyVal(x[idx.Val])
		}
		return m.symLoad(&SymRef{base: x, idx: idx})
	case Str:
		return m.strIndex(x, idx)
	}
	panic(fmt.Sprintf("index %T", x))
}

func (m *Machine) strIndex(s Str, idx *Term) value {
	m.boundsCheck(idx, s.Len(), "string")
	if idx.IsConst() {
		return m.strByte(s, int(idx.Val))
	}
	var res *Term
	for i := s.Len() - 1; i >= 0; i-- {
		b := m.strByte(s, i)
		if res == nil {
			res = b
		} else {
			res = m.tt.Ite(m.tt.Eq(idx, m.tt.Const(64, uint64(i))), b, res)
		}
	}
	return res
}

func (fr *frame) lookup(instr *ssa.Lookup) value {
	m := fr.m
	x := fr.get(instr.X)
	switch x := x.(type) {
	case Str:
		idx := fr.get(instr.Index).(*Term)
		if idx.W != 64 {
			if isSigned(instr.Index.Type()) {
				idx = m.tt.SExt(idx, 64)
			} else {
				idx = m.tt.ZExt(idx, 64)
			}
		}
		return m.strIndex(x, idx)
	case *Map:
		key := fr.get(instr.Index)
		vt := instr.X.Type().Underlying().(*types.Map).Elem()
		var v value
		ok := false
		if x != nil {
			v, ok = m.mapGet(x, key)
		}
		if !ok {
			v = m.zero(vt)
		} else {
			v = copyVal(v)
		}
		if instr.CommaOk {
			return tuple{v, m.tt.Bool(ok)}
		}
		return v
	}
	panic(fmt.Sprintf("lookup %T", x))
}

func (fr *frame) slice(instr *ssa.Slice) value {
	m := fr.m
	x := m.resolveSlice(m.resolvePtr(fr.get(instr.X)))
	var lo, hi, max int = 0, -1, -1
	// A symbolic bound is concretised by forking over its feasible values. Split first on "bound
	// exceeds the capacity" (one representative out-of-range path: Go panics for every such value)
	// so that the enumeration is limited to 0..cap instead of the whole range of a wire length field.
	limit := -1
	switch xx := x.(type) {
	case Str:
		limit = xx.Len()
	case []value:
		limit = cap(xx)
	case *value:
		if xx != nil {
			if a, ok := (*xx).(array); ok {
				limit = len(a)
			}
		}
	}
	if limit >= 0 {
		for _, op := range []ssa.Value{instr.Low, instr.High, instr.Max} {
			if op == nil {
				continue
			}
			if t, ok := fr.get(op).(*Term); ok && !t.IsConst() && m.spec == 0 {
				if !m.branch(m.tt.Cmp("bvule", t, m.tt.Const(t.W, uint64(limit)))) {
					panic(goPanic{m.mkRuntimeError(fmt.Sprintf("slice bounds out of range [sym] with capacity %d", limit))})
				}
			}
		}
	}
	if instr.Low != nil {
		lo = m.concInt(fr.get(instr.Low))
	}
	if instr.High != nil {
		hi = m.concInt(fr.get(instr.High))
	}
	if instr.Max != nil {
		max = m.concInt(fr.get(instr.Max))
	}
	oob := func(a, b int) {
		panic(goPanic{m.mkRuntimeError(fmt.Sprintf("slice bounds out of range [%d:%d]", a, b))})
	}
	// an explicit negative bound is out of range (it must not be mistaken for "bound absent" below)
	if (instr.High != nil && hi < 0) || (instr.Max != nil && max < 0) {
		oob(lo, hi)
	}
	switch x := x.(type) {
	case Str:
		if hi < 0 {
			hi = x.Len()
		}
		if lo < 0 || hi > x.Len() || lo > hi {
			oob(lo, hi)
		}
		return m.strSlice(x, lo, hi)
	case []value:
		if hi < 0 {
			hi = len(x)
		}
		if max < 0 {
			max = cap(x)
		}
		if lo < 0 || hi > cap(x) || lo > hi || max > cap(x) || hi > max {
			oob(lo, hi)
		}
		if x == nil {
			return []value(nil)
		}
		return x[lo:hi:max]
	case *value:
		if x == nil {
			panic(goPanic{m.mkRuntimeError("invalid memory address or nil pointer dereference")})
		}
		a := (*x).(array)
		if hi < 0 {
			hi = len(a)
		}
		if max < 0 {
			max = len(a)
		}
		if lo < 0 || hi > len(a) || lo > hi || max > len(a) || hi > max {
			oob(lo, hi)
		}
		return []value(a)[lo:hi:max]
	}
	panic(fmt.Sprintf("slice %T", x))
}

// ---------- maps ----------

func (m *Machine) keyEq(kt types.Type, a, b value) *Term {
	return m.eqTerm(kt, a, b)
}

func (m *Machine) mapFind(mp *Map, key value) int {
	for i := range mp.ents {
		eq := m.keyEq(mp.kt, mp.ents[i].k, key)
		if eq.IsTrue() {
			return i
		}
		if eq.IsFalse() {
			continue
		}
		if m.spec > 0 {
			panic(mergeAbort{})
		}
		if m.branch(eq) {
			return i
		}
	}
	return -1
}

func (m *Machine) mapGet(mp *Map, key value) (value, bool) {
	i := m.mapFind(mp, key)
	if i < 0 {
		return nil, false
	}
	return mp.ents[i].v, true
}

func (m *Machine) mapSet(mp *Map, key, val value) {
	if m.spec > 0 {
		panic(mergeAbort{})
	}
	i := m.mapFind(mp, key)
	old := mp.ents
	m.trail = append(m.trail, undo{fn: func() { mp.ents = old }})
	ne := make([]mapEnt, len(old), len(old)+1)
	copy(ne, old)
	if i >= 0 {
		ne[i].v = copyVal(val)
	} else {
		ne = append(ne, mapEnt{copyVal(key), copyVal(val)})
	}
	mp.ents = ne
}

func (m *Machine) mapDelete(mp *Map, key value) {
	if mp == nil {
		return
	}
	i := m.mapFind(mp, key)
	if i < 0 {
		return
	}
	old := mp.ents
	m.trail = append(m.trail, undo{fn: func() { mp.ents = old }})
	ne := make([]mapEnt, 0, len(old))
	ne = append(ne, old[:i]...)
	ne = append(ne, old[i+1:]...)
	mp.ents = ne
}

// ---------- range ----------

func (m *Machine) rangeIter(x value, t types.Type) value {
	switch x := x.(type) {
	case Str:
		return &rangeIter{str: x}
	case *Map:
		it := &rangeIter{isMap: true, m: x}
		if x != nil {
			ents := x.ents
			order := make([]int, len(ents))
			for i := range order {
				order[i] = i
			}
			if m.cfg.MapOrder && m.initDone && len(ents) > 1 && len(ents) <= 4 {
				// nondeterministic permutation (Fisher-Yates with concrete forks)
				for i := len(order) - 1; i > 0; i-- {
					j := m.choose(i + 1)
					order[i], order[j] = order[j], order[i]
				}
			}
			for _, i := range order {
				it.keys = append(it.keys, ents[i].k)
			}
		}
		return it
	}
	panic(fmt.Sprintf("range over %T", x))
}

func (m *Machine) next(it *rangeIter, instr *ssa.Next) value {
	if it.isMap {
		for it.pos < len(it.keys) {
			k := it.keys[it.pos]
			it.pos++
			// still present?
			for _, e := range it.m.ents {
				if eq := m.keyEq(it.m.kt, e.k, k); eq.IsTrue() {
					return tuple{m.tt.True, copyVal(k), copyVal(e.v)}
				}
			}
		}
		return tuple{m.tt.False, nil, nil}
	}
	s := it.str
	if it.pos >= s.Len() {
		return tuple{m.tt.False, m.tt.Const(64, 0), m.tt.Const(32, 0)}
	}
	i := it.pos
	if c, ok := s.Concrete(); ok {
		r, sz := utf8.DecodeRuneInString(c[i:])
		it.pos += sz
		return tuple{m.tt.True, m.tt.Const(64, uint64(i)), m.tt.Const(32, uint64(uint32(r)))}
	}
	b := m.strByte(s, i)
	if b.IsConst() && b.Val < 0x80 {
		it.pos++
		return tuple{m.tt.True, m.tt.Const(64, uint64(i)), m.tt.Const(32, b.Val)}
	}
	if b.IsConst() {
		// concrete multi-byte lead followed by possibly symbolic bytes: need all concrete
		n := 1
		for n < 4 && i+n < s.Len() && m.strByte(s, i+n).IsConst() {
			n++
		}
		bs := make([]byte, n)
		for k := 0; k < n; k++ {
			bs[k] = byte(m.strByte(s, i+k).Val)
		}
		if utf8.FullRune(bs) || i+n == s.Len() {
			r, sz := utf8.DecodeRune(bs)
			it.pos += sz
			return tuple{m.tt.True, m.tt.Const(64, uint64(i)), m.tt.Const(32, uint64(uint32(r)))}
		}
		panic(unsupported{"range over string: symbolic continuation byte"})
	}
	if m.branch(m.tt.Cmp("bvult", b, m.tt.Const(8, 0x80))) {
		it.pos++
		return tuple{m.tt.True, m.tt.Const(64, uint64(i)), m.tt.ZExt(b, 32)}
	}
	// non-ASCII symbolic byte: treat precisely only when it cannot start a valid sequence (then RuneError, width 1)
	// bytes 0x80..0xC1 and 0xF5..0xFF are always invalid leads.
	inv := m.tt.Or(m.tt.Cmp("bvult", b, m.tt.Const(8, 0xC2)), m.tt.Cmp("bvugt", b, m.tt.Const(8, 0xF4)))
	if m.branch(inv) {
		it.pos++
		return tuple{m.tt.True, m.tt.Const(64, uint64(i)), m.tt.Const(32, 0xFFFD)}
	}
	// possible multi-byte lead: if it is the last byte it is invalid too
	if i+1 == s.Len() {
		it.pos++
		return tuple{m.tt.True, m.tt.Const(64, uint64(i)), m.tt.Const(32, 0xFFFD)}
	}
	panic(unsupported{"range over string: symbolic multi-byte sequence"})
}

// ---------- type assertions ----------

func (m *Machine) typeAssert(instr *ssa.TypeAssert, itf iface) value {
	var v value
	ok := false
	if itf.t != nil {
		if it, isI := instr.AssertedType.Underlying().(*types.Interface); isI {
			if m.implements(itf.t, it) {
				v, ok = itf, true
			}
		} else if types.Identical(itf.t, instr.AssertedType) {
			v, ok = itf.v, true
		}
	}
	if instr.CommaOk {
		if !ok {
			v = m.zero(instr.AssertedType)
		}
		return tuple{copyVal(v), m.tt.Bool(ok)}
	}
	if !ok {
		msg := fmt.Sprintf("interface conversion: interface is %v, not %s", itf.t, instr.AssertedType)
		panic(goPanic{m.mkRuntimeErrorPlain(msg)})
	}
	return copyVal(v)
}

func (m *Machine) implements(t types.Type, it *types.Interface) bool {
	ms := m.prog.MethodSets.MethodSet(t)
	for i := 0; i < it.NumMethods(); i++ {
		meth := it.Method(i)
		sel := ms.Lookup(meth.Pkg(), meth.Name())
		if sel == nil {
			return false
		}
		if !types.Identical(sel.Type(), meth.Type()) {
			// compare signatures without receiver
			if !types.Identical(sel.Obj().Type().(*types.Signature).Params(), meth.Type().(*types.Signature).Params()) ||
				!types.Identical(sel.Obj().Type().(*types.Signature).Results(), meth.Type().(*types.Signature).Results()) {
				return false
			}
		}
	}
	return true
}

// ---------- builtins ----------

func (m *Machine) callBuiltin(fn *ssa.Builtin, args []value) value {
	// symbolic slices: len/cap are answered symbolically, everything else resolves by forking
	if len(args) > 0 {
		if ss, ok := args[0].(*SliceSet); ok {
			switch fn.Name() {
			case "len":
				return m.sliceSetLen(ss, false)
			case "cap":
				return m.sliceSetLen(ss, true)
			}
		}
	}
	for i := range args {
		switch args[i].(type) {
		case *SliceSet:
			args[i] = m.resolveSlice(args[i])
		}
	}
	switch fn.Name() {
	case "append":
		if len(args) == 1 {
			return args[0]
		}
		if s, ok := args[1].(Str); ok {
			// append([]byte, string...)
			bs := m.strBytes(s)
			vs := make([]value, len(bs))
			for i, b := range bs {
				vs[i] = b
			}
			args[1] = vs
		}
		a := args[0].([]value)
		b := args[1].([]value)
		if len(b) == 0 {
			return a
		}
		if m.spec > 0 {
			panic(mergeAbort{})
		}
		if len(a)+len(b) <= cap(a) {
			r := a[:len(a)+len(b)]
			for i := range b {
				m.store(&r[len(a)+i], copyVal(b[i]))
			}
			return r
		}
		nc := 2 * cap(a)
		if nc < len(a)+len(b) {
			nc = len(a) + len(b)
		}
		if nc < 4 {
			nc = len(a) + len(b)
		}
		r := make([]value, len(a)+len(b), nc)
		for i := range a {
			r[i] = copyVal(a[i])
		}
		for i := range b {
			r[len(a)+i] = copyVal(b[i])
		}
		// zero the spare capacity lazily: elements beyond len must be valid zero values when resliced
		if nc > len(r) {
			var z value
			if len(r) > 0 {
				z = zeroLike(m, r[0])
			}
			full := r[:nc]
			for i := len(r); i < nc; i++ {
				full[i] = copyVal(z)
			}
		}
		return r
	case "copy":
		dst := args[0].([]value)
		var src []value
		if s, ok := args[1].(Str); ok {
			bs := m.strBytes(s)
			src = make([]value, len(bs))
			for i, b := range bs {
				src[i] = b
			}
		} else {
			src = args[1].([]value)
		}
		n := len(dst)
		if len(src) < n {
			n = len(src)
		}
		if n > 0 && m.spec > 0 {
			panic(mergeAbort{})
		}
		// handle overlap: copy via temp
		tmp := make([]value, n)
		for i := 0; i < n; i++ {
			tmp[i] = copyVal(src[i])
		}
		for i := 0; i < n; i++ {
			m.store(&dst[i], tmp[i])
		}
		return m.tt.Const(64, uint64(n))
	case "close":
		m.chanClose(args[0].(*Chan))
		return nil
	case "delete":
		m.mapDelete(args[0].(*Map), args[1])
		return nil
	case "print", "println":
		return nil
	case "len":
		switch x := args[0].(type) {
		case Str:
			return m.tt.Const(64, uint64(x.Len()))
		case array:
			return m.tt.Const(64, uint64(len(x)))
		case *value:
			return m.tt.Const(64, uint64(len((*x).(array))))
		case []value:
			return m.tt.Const(64, uint64(len(x)))
		case *Map:
			if x == nil {
				return m.tt.Const(64, 0)
			}
			return m.tt.Const(64, uint64(len(x.ents)))
		case *Chan:
			if x == nil {
				return m.tt.Const(64, 0)
			}
			return m.tt.Const(64, uint64(len(x.buf)))
		}
		panic(fmt.Sprintf("len %T", args[0]))
	case "cap":
		switch x := args[0].(type) {
		case array:
			return m.tt.Const(64, uint64(len(x)))
		case *value:
			return m.tt.Const(64, uint64(len((*x).(array))))
		case []value:
			return m.tt.Const(64, uint64(cap(x)))
		case *Chan:
			if x == nil {
				return m.tt.Const(64, 0)
			}
			return m.tt.Const(64, uint64(x.cap))
		}
		panic(fmt.Sprintf("cap %T", args[0]))
	case "min", "max":
		isMin := fn.Name() == "min"
		sig := fn.Type().(*types.Signature)
		signed := isSigned(sig.Params().At(0).Type())
		r := args[0]
		for _, a := range args[1:] {
			switch x := r.(type) {
			case *Term:
				y := a.(*Term)
				op := "bvult"
				if signed {
					op = "bvslt"
				}
				lt := m.tt.Cmp(op, x, y)
				if isMin {
					r = m.tt.Ite(lt, x, y)
				} else {
					r = m.tt.Ite(lt, y, x)
				}
			case float64:
				if isMin {
					r = math.Min(x, a.(float64))
				} else {
					r = math.Max(x, a.(float64))
				}
			default:
				panic(unsupported{"min/max on " + fmt.Sprintf("%T", r)})
			}
		}
		return r
	case "clear":
		switch x := args[0].(type) {
		case *Map:
			if x != nil {
				old := x.ents
				m.trail = append(m.trail, undo{fn: func() { x.ents = old }})
				x.ents = nil
			}
		case []value:
			for i := range x {
				m.store(&x[i], zeroLike(m, x[i]))
			}
		}
		return nil
	case "panic":
		panic(goPanic{args[0]})
	case "recover":
		fr := m.curFrame
		if fr != nil && fr.caller != nil && fr.caller.panicking {
			fr.caller.panicking = false
			p := fr.caller.panicVal
			fr.caller.panicVal = nil
			return p
		}
		return iface{}
	case "ssa:wrapnilchk":
		recv := args[0]
		if ps, ok := recv.(*PtrSet); ok {
			m.nonNilAlts(ps)
		}
		if p, ok := recv.(*value); ok && p == nil {
			panic(goPanic{m.mkRuntimeErrorPlain(fmt.Sprintf("value method %s.%s called using nil pointer", describe(args[1]), describe(args[2])))})
		}
		return recv
	case "String": // unsafe.String
		n := m.concInt(args[1])
		switch p := args[0].(type) {
		case sliceData:
			if p.str != nil {
				return m.strSlice(*p.str, 0, n)
			}
			r := make([]*Term, n)
			for i := 0; i < n; i++ {
				r[i] = p.s[i].(*Term)
			}
			if n == 0 {
				return Str{}
			}
			return m.strNorm(Str{B: r})
		case *value:
			if n == 0 {
				return Str{}
			}
			if n == 1 {
				return m.strNorm(Str{B: []*Term{(*p).(*Term)}})
			}
		}
		panic(unsupported{"unsafe.String on " + fmt.Sprintf("%T", args[0])})
	case "SliceData":
		return sliceData{s: args[0].([]value)}
	case "StringData":
		s := args[0].(Str)
		return sliceData{str: &s}
	case "Slice": // unsafe.Slice
		n := m.concInt(args[1])
		switch p := args[0].(type) {
		case sliceData:
			if p.str != nil {
				bs := m.strBytes(*p.str)
				r := make([]value, n)
				for i := 0; i < n; i++ {
					r[i] = bs[i]
				}
				return r
			}
			return p.s[:n:n]
		}
		panic(unsupported{"unsafe.Slice"})
	}
	panic(unsupported{"builtin " + fn.Name()})
}

func zeroLike(m *Machine, v value) value {
	switch v := v.(type) {
	case *Term:
		return m.tt.Const(v.W, 0)
	case Str:
		return Str{}
	case structure:
		r := make(structure, len(v))
		for i := range v {
			r[i] = zeroLike(m, v[i])
		}
		return r
	case array:
		r := make(array, len(v))
		for i := range v {
			r[i] = zeroLike(m, v[i])
		}
		return r
	case *value, *PtrSet:
		return (*value)(nil)
	case []value, *SliceSet:
		return []value(nil)
	case iface:
		return iface{}
	case *Map:
		return (*Map)(nil)
	case *Chan:
		return (*Chan)(nil)
	case float64:
		return float64(0)
	case *ssa.Function, *closure, *builtinFn:
		return (*ssa.Function)(nil)
	case unsafePtr:
		return unsafePtr{}
	}
	panic(fmt.Sprintf("zeroLike %T", v))
}
