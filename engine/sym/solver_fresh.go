package sym

import (
	"bytes"
	"fmt"
	"os/exec"
	"strings"
	"time"
)

// checkFresh re-decides a query on which the persistent incremental solver answered unknown in a
// fresh, non-incremental process: without push/pop scopes the solver's full preprocessing (bit-vector
// simplification before bit-blasting) applies, which decides in about a second many difference-
// constraint queries over symbolic instants that the incremental core times out on. The query is the
// same formula (pc ∧ extra); only a definite sat/unsat answer is used, anything else stays unknown.
func (s *Solver) checkFresh(pc []*Term, extra []*Term, vars []*Term, model map[string]uint64) Result {
	var sb strings.Builder
	var sent []bool
	secs := s.timeout/1000 + 1
	var cmd *exec.Cmd
	switch {
	case strings.HasPrefix(s.Kind, "cvc5"):
		args := []string{"--produce-models", "-q", fmt.Sprintf("--tlimit=%d", s.timeout)}
		if s.Kind == "cvc5-int" {
			args = append(args, "--solve-bv-as-int=sum")
		}
		cmd = exec.Command("cvc5", args...)
		sb.WriteString("(set-logic ALL)\n")
	case s.Kind == "z3":
		cmd = exec.Command("/usr/bin/z3", "-in", fmt.Sprintf("-T:%d", secs))
	default:
		cmd = exec.Command("z3-new", "-in", fmt.Sprintf("-T:%d", secs))
	}
	for _, t := range pc {
		define(t, &sent, &sb)
		fmt.Fprintf(&sb, "(assert %s)\n", t.ref())
	}
	for _, t := range extra {
		define(t, &sent, &sb)
		fmt.Fprintf(&sb, "(assert %s)\n", t.ref())
	}
	sb.WriteString("(check-sat)\n")
	if model != nil && len(vars) > 0 {
		sb.WriteString("(get-value (")
		n := 0
		for _, v := range vars {
			if v.ID < len(sent) && sent[v.ID] {
				sb.WriteString(v.ref())
				sb.WriteString(" ")
				n++
			}
		}
		sb.WriteString("))\n")
		if n == 0 {
			// nothing to evaluate: drop the command again
			txt := sb.String()
			sb.Reset()
			sb.WriteString(txt[:strings.LastIndex(txt, "(get-value")])
		}
	}
	if s.Log != nil {
		fmt.Fprintf(s.Log, "; ---- fresh-solver retry ----\n%s; ---- end retry ----\n", sb.String())
	}
	cmd.Stdin = strings.NewReader(sb.String())
	var out bytes.Buffer
	cmd.Stdout = &out
	t0 := time.Now()
	_ = cmd.Run()
	_ = t0
	txt := strings.TrimSpace(out.String())
	first := txt
	rest := ""
	if i := strings.IndexByte(txt, '\n'); i >= 0 {
		first, rest = strings.TrimSpace(txt[:i]), txt[i+1:]
	}
	switch first {
	case "unsat":
		return Unsat
	case "sat":
		if model != nil && len(vars) > 0 {
			if !strings.Contains(rest, "(") || strings.Contains(rest, "error") {
				return Unknown
			}
			parseModel(rest, model)
		}
		return Sat
	}
	return Unknown
}
