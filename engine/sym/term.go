// Package sym is a bounded symbolic interpreter over go/ssa that emits SMT-LIB2.
package sym

import (
	"fmt"
	"math/bits"
	"strings"
)

// Term is a hash-consed SMT term. W==0 means Bool, W>0 means (_ BitVec W).
type Term struct {
	Op   string
	W    int
	Args []*Term
	Val  uint64 // constants with W<=64 (Bool: 0/1)
	Name string // variables
	A, B int    // extract hi/lo; zext/sext amount in A
	ID   int
	gen  int // path generation in which this variable was (re)created
}

type termKey struct {
	op      string
	w       int
	a, b, c int
	val     uint64
	name    string
	x, y    int
}

// TermTable owns all terms of one worker.
type TermTable struct {
	m     map[termKey]*Term
	n     int
	True  *Term
	False *Term
	Vars  []*Term
	Gen      int
	PathVars []*Term
}

func NewTermTable() *TermTable {
	tt := &TermTable{m: map[termKey]*Term{}}
	tt.True = tt.mk(&Term{Op: "const", W: 0, Val: 1})
	tt.False = tt.mk(&Term{Op: "const", W: 0, Val: 0})
	return tt
}

func (tt *TermTable) mk(t *Term) *Term {
	k := termKey{op: t.Op, w: t.W, val: t.Val, name: t.Name, x: t.A, y: t.B, a: -1, b: -1, c: -1}
	if len(t.Args) > 0 {
		k.a = t.Args[0].ID
	}
	if len(t.Args) > 1 {
		k.b = t.Args[1].ID
	}
	if len(t.Args) > 2 {
		k.c = t.Args[2].ID
	}
	if len(t.Args) > 3 {
		panic("term arity")
	}
	if e, ok := tt.m[k]; ok {
		return e
	}
	tt.n++
	t.ID = tt.n
	tt.m[k] = t
	if t.Op == "var" {
		tt.Vars = append(tt.Vars, t)
	}
	return t
}

func mask(w int) uint64 {
	if w >= 64 {
		return ^uint64(0)
	}
	return (uint64(1) << uint(w)) - 1
}

func (t *Term) IsConst() bool { return t.Op == "const" }
func (t *Term) IsTrue() bool  { return t.Op == "const" && t.W == 0 && t.Val == 1 }
func (t *Term) IsFalse() bool { return t.Op == "const" && t.W == 0 && t.Val == 0 }

// SVal returns the constant as signed.
func (t *Term) SVal() int64 {
	if t.W >= 64 {
		return int64(t.Val)
	}
	if t.Val&(1<<uint(t.W-1)) != 0 {
		return int64(t.Val | ^mask(t.W))
	}
	return int64(t.Val)
}

func (tt *TermTable) Const(w int, v uint64) *Term {
	if w == 0 {
		if v != 0 {
			return tt.True
		}
		return tt.False
	}
	if w > 64 {
		// wide constants only as zero-extended 64-bit values
		return tt.ZExt(tt.Const(64, v), w)
	}
	return tt.mk(&Term{Op: "const", W: w, Val: v & mask(w)})
}

func (tt *TermTable) Bool(b bool) *Term {
	if b {
		return tt.True
	}
	return tt.False
}

func (tt *TermTable) Var(name string, w int) *Term {
	t := tt.mk(&Term{Op: "var", W: w, Name: name})
	if t.gen != tt.Gen {
		t.gen = tt.Gen
		tt.PathVars = append(tt.PathVars, t)
	}
	return t
}

// NewPath starts a new generation of path-local variables (models are read for these only).
func (tt *TermTable) NewPath() {
	tt.Gen++
	tt.PathVars = nil
}

func (tt *TermTable) Not(a *Term) *Term {
	if a.IsConst() {
		return tt.Bool(a.Val == 0)
	}
	if a.Op == "not" {
		return a.Args[0]
	}
	return tt.mk(&Term{Op: "not", W: 0, Args: []*Term{a}})
}

func (tt *TermTable) And(a, b *Term) *Term {
	if a.IsConst() {
		if a.Val == 0 {
			return tt.False
		}
		return b
	}
	if b.IsConst() {
		if b.Val == 0 {
			return tt.False
		}
		return a
	}
	if a == b {
		return a
	}
	if (a.Op == "not" && a.Args[0] == b) || (b.Op == "not" && b.Args[0] == a) {
		return tt.False
	}
	return tt.mk(&Term{Op: "and", W: 0, Args: []*Term{a, b}})
}

func (tt *TermTable) Or(a, b *Term) *Term {
	if a.IsConst() {
		if a.Val == 1 {
			return tt.True
		}
		return b
	}
	if b.IsConst() {
		if b.Val == 1 {
			return tt.True
		}
		return a
	}
	if a == b {
		return a
	}
	if (a.Op == "not" && a.Args[0] == b) || (b.Op == "not" && b.Args[0] == a) {
		return tt.True
	}
	return tt.mk(&Term{Op: "or", W: 0, Args: []*Term{a, b}})
}

func (tt *TermTable) AndN(ts ...*Term) *Term {
	r := tt.True
	for _, t := range ts {
		r = tt.And(r, t)
	}
	return r
}

func (tt *TermTable) OrN(ts ...*Term) *Term {
	r := tt.False
	for _, t := range ts {
		r = tt.Or(r, t)
	}
	return r
}

func (tt *TermTable) Ite(c, a, b *Term) *Term {
	if a.W != b.W {
		panic(fmt.Sprintf("ite width mismatch %d %d", a.W, b.W))
	}
	if c.IsConst() {
		if c.Val == 1 {
			return a
		}
		return b
	}
	if a == b {
		return a
	}
	if a.W == 0 {
		if a.IsConst() && b.IsConst() {
			if a.Val == 1 {
				return c
			}
			return tt.Not(c)
		}
		if a.IsTrue() {
			return tt.Or(c, b)
		}
		if a.IsFalse() {
			return tt.And(tt.Not(c), b)
		}
		if b.IsTrue() {
			return tt.Or(tt.Not(c), a)
		}
		if b.IsFalse() {
			return tt.And(c, a)
		}
	}
	if c.Op == "not" {
		return tt.Ite(c.Args[0], b, a)
	}
	// ite(c, ite(c, x, y), b) => ite(c, x, b)
	if a.Op == "ite" && a.Args[0] == c {
		a = a.Args[1]
	}
	if b.Op == "ite" && b.Args[0] == c {
		b = b.Args[2]
	}
	return tt.mk(&Term{Op: "ite", W: a.W, Args: []*Term{c, a, b}})
}

func (tt *TermTable) Eq(a, b *Term) *Term {
	if a.W != b.W {
		panic(fmt.Sprintf("eq width mismatch %d %d (%s, %s)", a.W, b.W, a.Op, b.Op))
	}
	if a == b {
		return tt.True
	}
	if a.IsConst() && b.IsConst() {
		return tt.Bool(a.Val == b.Val)
	}
	if a.IsConst() {
		a, b = b, a
	}
	if a.W == 0 {
		if b.IsConst() {
			if b.Val == 1 {
				return a
			}
			return tt.Not(a)
		}
	}
	// eq(ite(c,k1,k2), k) with constants
	if b.IsConst() && a.Op == "ite" {
		x, y := a.Args[1], a.Args[2]
		if x.IsConst() || y.IsConst() {
			return tt.Ite(a.Args[0], tt.Eq(x, b), tt.Eq(y, b))
		}
	}
	// eq(zext(x), k)
	if b.IsConst() && a.Op == "zext" {
		x := a.Args[0]
		if b.Val&^mask(x.W) != 0 {
			return tt.False
		}
		return tt.Eq(x, tt.Const(x.W, b.Val))
	}
	if a.ID > b.ID {
		a, b = b, a
	}
	return tt.mk(&Term{Op: "=", W: 0, Args: []*Term{a, b}})
}

func (tt *TermTable) Ne(a, b *Term) *Term { return tt.Not(tt.Eq(a, b)) }

// Cmp builds bvult/bvule/bvslt/bvsle (others by swapping).
func (tt *TermTable) Cmp(op string, a, b *Term) *Term {
	if a.W != b.W {
		panic("cmp width mismatch")
	}
	switch op {
	case "bvugt":
		return tt.Cmp("bvult", b, a)
	case "bvuge":
		return tt.Cmp("bvule", b, a)
	case "bvsgt":
		return tt.Cmp("bvslt", b, a)
	case "bvsge":
		return tt.Cmp("bvsle", b, a)
	}
	if a.IsConst() && b.IsConst() {
		switch op {
		case "bvult":
			return tt.Bool(a.Val < b.Val)
		case "bvule":
			return tt.Bool(a.Val <= b.Val)
		case "bvslt":
			return tt.Bool(a.SVal() < b.SVal())
		case "bvsle":
			return tt.Bool(a.SVal() <= b.SVal())
		}
	}
	if a == b {
		return tt.Bool(op == "bvule" || op == "bvsle")
	}
	if op == "bvult" && b.IsConst() && b.Val == 0 {
		return tt.False
	}
	if op == "bvule" && a.IsConst() && a.Val == 0 {
		return tt.True
	}
	// comparisons of zero-extended values against small constants
	if a.Op == "zext" && b.IsConst() && (op == "bvult" || op == "bvule" || ((op == "bvslt" || op == "bvsle") && b.SVal() >= 0)) {
		x := a.Args[0]
		uop := op
		if op == "bvslt" {
			uop = "bvult"
		} else if op == "bvsle" {
			uop = "bvule"
		}
		if b.Val > mask(x.W) {
			return tt.True
		}
		return tt.Cmp(uop, x, tt.Const(x.W, b.Val))
	}
	if b.Op == "zext" && a.IsConst() && (op == "bvult" || op == "bvule" || ((op == "bvslt" || op == "bvsle") && a.SVal() >= 0)) {
		x := b.Args[0]
		uop := op
		if op == "bvslt" {
			uop = "bvult"
		} else if op == "bvsle" {
			uop = "bvule"
		}
		if a.Val > mask(x.W) {
			return tt.False
		}
		return tt.Cmp(uop, tt.Const(x.W, a.Val), x)
	}
	if (op == "bvslt" || op == "bvsle") && a.Op == "zext" && b.Op == "zext" && a.Args[0].W == b.Args[0].W {
		uop := "bvult"
		if op == "bvsle" {
			uop = "bvule"
		}
		return tt.Cmp(uop, a.Args[0], b.Args[0])
	}
	if (op == "bvult" || op == "bvule") && a.Op == "zext" && b.Op == "zext" && a.Args[0].W == b.Args[0].W {
		return tt.Cmp(op, a.Args[0], b.Args[0])
	}
	return tt.mk(&Term{Op: op, W: 0, Args: []*Term{a, b}})
}

func (tt *TermTable) Bin(op string, a, b *Term) *Term {
	if a.W != b.W {
		panic(fmt.Sprintf("binop %s width mismatch %d %d", op, a.W, b.W))
	}
	w := a.W
	if a.IsConst() && b.IsConst() && w <= 64 {
		x, y := a.Val, b.Val
		var r uint64
		ok := true
		switch op {
		case "bvadd":
			r = x + y
		case "bvsub":
			r = x - y
		case "bvmul":
			r = x * y
		case "bvand":
			r = x & y
		case "bvor":
			r = x | y
		case "bvxor":
			r = x ^ y
		case "bvshl":
			if y >= uint64(w) {
				r = 0
			} else {
				r = x << y
			}
		case "bvlshr":
			if y >= uint64(w) {
				r = 0
			} else {
				r = x >> y
			}
		case "bvashr":
			s := a.SVal()
			if y >= uint64(w) {
				if s < 0 {
					r = ^uint64(0)
				} else {
					r = 0
				}
			} else {
				r = uint64(s >> y)
			}
		case "bvudiv":
			if y == 0 {
				r = mask(w)
			} else {
				r = x / y
			}
		case "bvurem":
			if y == 0 {
				r = x
			} else {
				r = x % y
			}
		case "bvsdiv":
			if y == 0 {
				ok = false
			} else if a.SVal() == -1<<63 && b.SVal() == -1 {
				r = x
			} else {
				r = uint64(a.SVal() / b.SVal())
			}
		case "bvsrem":
			if y == 0 {
				ok = false
			} else if b.SVal() == -1 {
				r = 0
			} else {
				r = uint64(a.SVal() % b.SVal())
			}
		default:
			ok = false
		}
		if ok {
			return tt.Const(w, r)
		}
	}
	switch op {
	case "bvadd", "bvor", "bvxor":
		if a.IsConst() && a.Val == 0 {
			return b
		}
		if b.IsConst() && b.Val == 0 {
			return a
		}
		if op == "bvor" && a == b {
			return a
		}
		if op == "bvxor" && a == b {
			return tt.Const(w, 0)
		}
	case "bvsub":
		if b.IsConst() && b.Val == 0 {
			return a
		}
		if a == b {
			return tt.Const(w, 0)
		}
	case "bvmul":
		if (a.IsConst() && a.Val == 0) || (b.IsConst() && b.Val == 0) {
			return tt.Const(w, 0)
		}
		if a.IsConst() && a.Val == 1 && w <= 64 {
			return b
		}
		if b.IsConst() && b.Val == 1 && w <= 64 {
			return a
		}
	case "bvand":
		if (a.IsConst() && a.Val == 0) || (b.IsConst() && b.Val == 0) {
			return tt.Const(w, 0)
		}
		if w <= 64 && a.IsConst() && a.Val == mask(w) {
			return b
		}
		if w <= 64 && b.IsConst() && b.Val == mask(w) {
			return a
		}
		if a == b {
			return a
		}
	case "bvshl", "bvlshr", "bvashr":
		if b.IsConst() && b.Val == 0 {
			return a
		}
		if a.IsConst() && a.Val == 0 && op != "bvashr" {
			return a
		}
	}
	// commutative canonical order: constant last
	switch op {
	case "bvadd", "bvmul", "bvand", "bvor", "bvxor":
		if a.IsConst() && !b.IsConst() {
			a, b = b, a
		}
	}
	return tt.mk(&Term{Op: op, W: w, Args: []*Term{a, b}})
}

func (tt *TermTable) Neg(a *Term) *Term {
	return tt.Bin("bvsub", tt.Const(a.W, 0), a)
}

func (tt *TermTable) BvNot(a *Term) *Term {
	if a.IsConst() {
		return tt.Const(a.W, ^a.Val)
	}
	return tt.mk(&Term{Op: "bvnot", W: a.W, Args: []*Term{a}})
}

func (tt *TermTable) Extract(a *Term, hi, lo int) *Term {
	if lo == 0 && hi == a.W-1 {
		return a
	}
	w := hi - lo + 1
	if a.IsConst() && a.W <= 64 {
		return tt.Const(w, a.Val>>uint(lo))
	}
	if (a.Op == "zext" || a.Op == "sext") && hi < a.Args[0].W {
		return tt.Extract(a.Args[0], hi, lo)
	}
	if a.Op == "zext" && lo >= a.Args[0].W && w <= 64 {
		return tt.Const(w, 0)
	}
	if a.Op == "extract" {
		return tt.Extract(a.Args[0], hi+a.B, lo+a.B)
	}
	if a.Op == "concat" {
		lw := a.Args[1].W
		if hi < lw {
			return tt.Extract(a.Args[1], hi, lo)
		}
		if lo >= lw {
			return tt.Extract(a.Args[0], hi-lw, lo-lw)
		}
	}
	return tt.mk(&Term{Op: "extract", W: w, Args: []*Term{a}, A: hi, B: lo})
}

func (tt *TermTable) ZExt(a *Term, w int) *Term {
	if w == a.W {
		return a
	}
	if w < a.W {
		return tt.Extract(a, w-1, 0)
	}
	if a.IsConst() && w <= 64 {
		return tt.Const(w, a.Val)
	}
	if a.Op == "zext" {
		return tt.ZExt(a.Args[0], w)
	}
	return tt.mk(&Term{Op: "zext", W: w, Args: []*Term{a}, A: w - a.W})
}

func (tt *TermTable) SExt(a *Term, w int) *Term {
	if w == a.W {
		return a
	}
	if w < a.W {
		return tt.Extract(a, w-1, 0)
	}
	if a.IsConst() && w <= 64 {
		return tt.Const(w, uint64(a.SVal()))
	}
	if a.Op == "zext" {
		return tt.ZExt(a.Args[0], w)
	}
	return tt.mk(&Term{Op: "sext", W: w, Args: []*Term{a}, A: w - a.W})
}

func (tt *TermTable) Concat(hi, lo *Term) *Term {
	w := hi.W + lo.W
	if hi.IsConst() && lo.IsConst() && w <= 64 {
		return tt.Const(w, hi.Val<<uint(lo.W)|lo.Val)
	}
	if hi.IsConst() && hi.Val == 0 && hi.W <= 64 {
		return tt.ZExt(lo, w)
	}
	return tt.mk(&Term{Op: "concat", W: w, Args: []*Term{hi, lo}})
}

// ---------- printing ----------

func sortStr(w int) string {
	if w == 0 {
		return "Bool"
	}
	return fmt.Sprintf("(_ BitVec %d)", w)
}

func constStr(t *Term) string {
	if t.W == 0 {
		if t.Val == 1 {
			return "true"
		}
		return "false"
	}
	if t.W%4 == 0 {
		return fmt.Sprintf("#x%0*x", t.W/4, t.Val)
	}
	return fmt.Sprintf("#b%0*b", t.W, t.Val)
}

// ref returns how t is referenced inside other terms (after Define).
func (t *Term) ref() string {
	switch t.Op {
	case "const":
		return constStr(t)
	case "var":
		// the width is part of the SMT symbol: the same label may be used with different widths on
		// different paths and declarations are global in the persistent solver
		return fmt.Sprintf("%s!%d", t.Name, t.W)
	}
	return fmt.Sprintf("t!%d", t.ID)
}

func (t *Term) body() string {
	var sb strings.Builder
	switch t.Op {
	case "extract":
		fmt.Fprintf(&sb, "((_ extract %d %d) %s)", t.A, t.B, t.Args[0].ref())
	case "zext":
		fmt.Fprintf(&sb, "((_ zero_extend %d) %s)", t.A, t.Args[0].ref())
	case "sext":
		fmt.Fprintf(&sb, "((_ sign_extend %d) %s)", t.A, t.Args[0].ref())
	default:
		sb.WriteString("(")
		sb.WriteString(t.Op)
		for _, a := range t.Args {
			sb.WriteString(" ")
			sb.WriteString(a.ref())
		}
		sb.WriteString(")")
	}
	return sb.String()
}

// define appends to out the declarations/definitions needed for t (post-order),
// marking them in sent (indexed by term ID; per solver process).
func define(t *Term, sent *[]bool, out *strings.Builder) {
	isSent := func(x *Term) bool {
		return x.Op == "const" || (x.ID < len(*sent) && (*sent)[x.ID])
	}
	if isSent(t) {
		return
	}
	type fr struct {
		t *Term
		i int
	}
	st := []fr{{t, 0}}
	for len(st) > 0 {
		f := &st[len(st)-1]
		if isSent(f.t) {
			st = st[:len(st)-1]
			continue
		}
		if f.i < len(f.t.Args) {
			a := f.t.Args[f.i]
			f.i++
			if !isSent(a) {
				st = append(st, fr{a, 0})
			}
			continue
		}
		x := f.t
		if x.Op == "var" {
			fmt.Fprintf(out, "(declare-const %s %s)\n", x.ref(), sortStr(x.W))
		} else {
			fmt.Fprintf(out, "(define-fun t!%d () %s %s)\n", x.ID, sortStr(x.W), x.body())
		}
		for len(*sent) <= x.ID {
			*sent = append(*sent, false)
		}
		(*sent)[x.ID] = true
		st = st[:len(st)-1]
	}
}

// String renders a term as a tree (for evidence samples; truncated).
func (t *Term) String() string {
	var sb strings.Builder
	t.str(&sb, 0)
	s := sb.String()
	if len(s) > 400 {
		s = s[:400] + "…"
	}
	return s
}

func (t *Term) str(sb *strings.Builder, d int) {
	if sb.Len() > 500 {
		return
	}
	switch t.Op {
	case "const":
		sb.WriteString(constStr(t))
	case "var":
		sb.WriteString(t.Name)
	case "extract":
		fmt.Fprintf(sb, "((_ extract %d %d) ", t.A, t.B)
		t.Args[0].str(sb, d+1)
		sb.WriteString(")")
	case "zext", "sext":
		fmt.Fprintf(sb, "(%s%d ", t.Op, t.A)
		t.Args[0].str(sb, d+1)
		sb.WriteString(")")
	default:
		sb.WriteString("(" + t.Op)
		for _, a := range t.Args {
			sb.WriteString(" ")
			a.str(sb, d+1)
		}
		sb.WriteString(")")
	}
}

// Eval evaluates t under a model (variables absent from the model are 0).
func Eval(t *Term, model map[string]uint64, memo map[*Term]uint64) uint64 {
	if v, ok := memo[t]; ok {
		return v
	}
	var r uint64
	a := func(i int) uint64 { return Eval(t.Args[i], model, memo) }
	sv := func(i int) int64 {
		v := a(i)
		w := t.Args[i].W
		if w < 64 && v&(1<<uint(w-1)) != 0 {
			return int64(v | ^mask(w))
		}
		return int64(v)
	}
	b2u := func(b bool) uint64 {
		if b {
			return 1
		}
		return 0
	}
	if t.W > 64 {
		panic("Eval: wide term")
	}
	switch t.Op {
	case "const":
		r = t.Val
	case "var":
		r = model[t.Name]
	case "not":
		r = 1 - a(0)
	case "and":
		r = a(0) & a(1)
	case "or":
		r = a(0) | a(1)
	case "ite":
		if a(0) == 1 {
			r = a(1)
		} else {
			r = a(2)
		}
	case "=":
		r = b2u(a(0) == a(1))
	case "bvult":
		r = b2u(a(0) < a(1))
	case "bvule":
		r = b2u(a(0) <= a(1))
	case "bvslt":
		r = b2u(sv(0) < sv(1))
	case "bvsle":
		r = b2u(sv(0) <= sv(1))
	case "bvnot":
		r = ^a(0)
	case "extract":
		if t.Args[0].W > 64 {
			panic("Eval: wide term")
		}
		r = a(0) >> uint(t.B)
	case "zext":
		r = a(0)
	case "sext":
		r = uint64(sv(0))
	case "concat":
		r = a(0)<<uint(t.Args[1].W) | a(1)
	default:
		x, y := a(0), a(1)
		w := t.W
		switch t.Op {
		case "bvadd":
			r = x + y
		case "bvsub":
			r = x - y
		case "bvmul":
			r = x * y
		case "bvand":
			r = x & y
		case "bvor":
			r = x | y
		case "bvxor":
			r = x ^ y
		case "bvshl":
			if y < uint64(w) {
				r = x << y
			}
		case "bvlshr":
			if y < uint64(w) {
				r = x >> y
			}
		case "bvashr":
			s := sv(0)
			if y >= uint64(w) {
				y = 63
			}
			r = uint64(s >> y)
		case "bvudiv":
			if y == 0 {
				r = mask(w)
			} else {
				r = x / y
			}
		case "bvurem":
			if y == 0 {
				r = x
			} else {
				r = x % y
			}
		case "bvsdiv":
			if y == 0 {
				if sv(0) < 0 {
					r = 1
				} else {
					r = mask(w)
				}
			} else if sv(1) == -1 {
				r = uint64(-sv(0))
			} else {
				r = uint64(sv(0) / sv(1))
			}
		case "bvsrem":
			if y == 0 {
				r = x
			} else if sv(1) == -1 {
				r = 0
			} else {
				r = uint64(sv(0) % sv(1))
			}
		default:
			panic("Eval: op " + t.Op)
		}
	}
	if t.W == 0 {
		r &= 1
	} else {
		r &= mask(t.W)
	}
	memo[t] = r
	return r
}

var _ = bits.Len
