package sym

import (
	"fmt"
	"os"
	"runtime"
	"runtime/debug"
	"go/types"
	"sort"
	"strings"
	"time"

	"golang.org/x/tools/go/ssa"
)

// ---------- path-ending signals (Go panics inside the interpreter) ----------

type unsupported struct{ msg string }

// goPanic is a panic of the interpreted program.
type goPanic struct{ v value }

// pathEnd terminates the current path.
type pathEnd struct {
	kind   string // done infeasible unwind steps blocked exit depth
	detail string
}

type decision struct {
	kind      byte  // 'b' branch/guards, 'c' choose, 'v' concretize
	choice    int   // chosen option index
	remaining []int // other feasible options not yet explored
	val       uint64
	excluded  []uint64
	retry     bool // for 'v': next visit must draw a new value
	last      bool // for 'v': no further value is feasible (checked when val was drawn): do not retry
}

// Config bounds one harness run.
type Config struct {
	Unwind     int   // max symbolic decisions per If per frame
	MaxSteps   int64 // instruction budget per path
	MaxDepth   int   // call depth
	MaxPaths   int   // per task-tree
	MergeLimit int   // speculative instructions per merge attempt
	NoMerge    bool
	Deadline   time.Time
	Listed     map[string]bool // known-finding ids that are listed in known_findings.json
	Params     map[string]int  // harness parameters (vrt.Param)
	Trace      bool
	MapOrder   bool // nondeterministic map iteration order (<= 4 entries)
	SymbolicShifts bool // keep symbolic shift amounts as terms instead of forking over their values
	Solver2        string // optional second back end that re-discharges every assertion obligation
}

type knownPred struct {
	id   string
	pred *Term
}

// Violation is a candidate counterexample found by the solver.
type Violation struct {
	Label   string
	Kind    string // assert panic unwind blocked steps
	Detail  string
	Model   map[string]uint64
	Choices []int
	KnownID string // non-empty when it falls in a listed known-finding class
	Stack   string
}

type Stats struct {
	Paths        int
	PathEnds     map[string]int
	Steps        int64
	BranchQ      int
	AssertQ      int
	Obligations  int
	Trivial      int // obligations discharged by constant folding
	Discharged   int
	Unknown      int
	Merges       int
	Forks        int
	Funcs        map[string]int
	Stubs        map[string]int
	Assumes      map[string]int
	Covers       map[string]int
	AssertLabels map[string]int
	Unsupported  map[string]int
	Samples      []string
	Shapes       map[string]int
	InitFailed   []string
	GoStmts      int
	CrossChecked  int // obligations re-discharged by the second solver
	CrossUnknown  int // second solver timed out / unknown (recorded, not a failure)
	CrossDisagree int // second solver found a model where the first said unsat (machinery failure)
	CrossSkipped  int // obligations not re-checked because this worker's second-solver time budget was used up
}

// crossBudget bounds the second-solver time per worker and harness (z3 4.8.12 needs minutes and gigabytes on
// some ite-heavy queries that z3 5.1.0 decides in seconds).
const crossBudget = 180 * time.Second

func newStats() *Stats {
	return &Stats{PathEnds: map[string]int{}, Funcs: map[string]int{}, Stubs: map[string]int{}, Assumes: map[string]int{},
		Covers: map[string]int{}, AssertLabels: map[string]int{}, Unsupported: map[string]int{}, Shapes: map[string]int{}}
}

func (s *Stats) merge(o *Stats) {
	s.Paths += o.Paths
	s.Steps += o.Steps
	s.BranchQ += o.BranchQ
	s.AssertQ += o.AssertQ
	s.Obligations += o.Obligations
	s.Trivial += o.Trivial
	s.Discharged += o.Discharged
	s.Unknown += o.Unknown
	s.Merges += o.Merges
	s.Forks += o.Forks
	s.GoStmts += o.GoStmts
	s.CrossChecked += o.CrossChecked
	s.CrossUnknown += o.CrossUnknown
	s.CrossDisagree += o.CrossDisagree
	s.CrossSkipped += o.CrossSkipped
	mm := func(a, b map[string]int) {
		for k, v := range b {
			a[k] += v
		}
	}
	mm(s.PathEnds, o.PathEnds)
	mm(s.Funcs, o.Funcs)
	mm(s.Stubs, o.Stubs)
	mm(s.Assumes, o.Assumes)
	mm(s.Covers, o.Covers)
	mm(s.AssertLabels, o.AssertLabels)
	mm(s.Unsupported, o.Unsupported)
	mm(s.Shapes, o.Shapes)
	for _, x := range o.Samples {
		if len(s.Samples) < 8 {
			s.Samples = append(s.Samples, x)
		}
	}
	for _, x := range o.InitFailed {
		found := false
		for _, y := range s.InitFailed {
			if x == y {
				found = true
			}
		}
		if !found {
			s.InitFailed = append(s.InitFailed, x)
		}
	}
}

type fnInfo struct {
	index map[ssa.Value]int
	n     int
	pure  map[*ssa.BasicBlock]bool
}

// Machine is one worker's interpreter state.
type Machine struct {
	prog    *ssa.Program
	tt      *TermTable
	solver  *Solver
	solver2 *Solver
	// crossSpent is the wall time this worker has spent in the second solver; once it exceeds crossBudget
	// the remaining obligations are decided by the primary solver only (counted in Stats.CrossSkipped).
	crossSpent time.Duration
	cfg     *Config
	stats   *Stats
	globals map[*ssa.Global]*value
	fninfo  map[*ssa.Function]*fnInfo
	trail   []undo
	baseTr  int // trail position after init

	// per-path state
	pc       []*Term
	log      []decision
	pos      int
	known    []knownPred
	steps    int64
	depth    int
	nondetN  map[string]int
	choices  []int
	viols    []Violation
	spawn    func(prefix []decision) bool // parallel split hook
	curFrame *frame
	initDone bool
	timeBase *Term
	timeN    int
	ghost    map[string]value
	errType  types.Type
	pathTag  string
	spec     int // >0 while executing speculatively (if-conversion)
	strictFmt int
	initGlobals map[*ssa.Package]map[*ssa.Global]bool
}

type deferred struct {
	fn    value
	args  []value
	instr *ssa.Defer
	tail  *deferred
}

type frame struct {
	m         *Machine
	caller    *frame
	fn        *ssa.Function
	info      *fnInfo
	block     *ssa.BasicBlock
	prevBlock *ssa.BasicBlock
	env       []value
	locals    []*value
	defers    *deferred
	result    value
	panicking bool
	panicVal  value
	symCount  map[ssa.Instruction]int
	skipPhis  bool
	startAt   int
}

func NewMachine(prog *ssa.Program, cfg *Config, solverKind string, timeoutMs int) (*Machine, error) {
	s, err := NewSolver(solverKind, timeoutMs)
	if err != nil {
		return nil, err
	}
	m := &Machine{prog: prog, tt: NewTermTable(), solver: s, cfg: cfg, stats: newStats(),
		globals: map[*ssa.Global]*value{}, fninfo: map[*ssa.Function]*fnInfo{}}
	if cfg.Solver2 != "" && cfg.Solver2 != solverKind {
		s2, err := NewSolver(cfg.Solver2, timeoutMs)
		if err != nil {
			return nil, err
		}
		m.solver2 = s2
	}
	return m, nil
}

func (m *Machine) Close() {
	m.solver.Close()
	if m.solver2 != nil {
		m.solver2.Close()
	}
}

func (m *Machine) info(fn *ssa.Function) *fnInfo {
	if fi, ok := m.fninfo[fn]; ok {
		return fi
	}
	fi := &fnInfo{index: map[ssa.Value]int{}, pure: map[*ssa.BasicBlock]bool{}}
	for _, p := range fn.Params {
		fi.index[p] = fi.n
		fi.n++
	}
	for _, p := range fn.FreeVars {
		fi.index[p] = fi.n
		fi.n++
	}
	for _, b := range fn.Blocks {
		for _, in := range b.Instrs {
			if v, ok := in.(ssa.Value); ok {
				fi.index[v] = fi.n
				fi.n++
			}
		}
	}
	for _, b := range fn.Blocks {
		fi.pure[b] = blockStaticallyPure(b)
	}
	m.fninfo[fn] = fi
	return fi
}

// ---------- globals & init ----------

func (m *Machine) globalAddr(g *ssa.Global) *value {
	if p, ok := m.globals[g]; ok {
		return p
	}
	cell := new(value)
	*cell = m.zero(g.Type().(*types.Pointer).Elem())
	if g.Pkg != nil && skipInitPkg(g.Pkg.Pkg.Path()) && !skipPkgs[g.Pkg.Pkg.Path()] && m.initializedByInit(g) {
		// the package initializer is not run, so this variable's real value is unknown: poison it
		// (any use ends the path as unsupported) instead of silently using the zero value
		*cell = poison{"global " + g.String() + " of a package whose init is not interpreted"}
	}
	m.globals[g] = cell
	return cell
}

// initializedByInit reports whether the package initializer (or an init#N function) mentions g.
func (m *Machine) initializedByInit(g *ssa.Global) bool {
	pkg := g.Pkg
	if m.initGlobals == nil {
		m.initGlobals = map[*ssa.Package]map[*ssa.Global]bool{}
	}
	set, ok := m.initGlobals[pkg]
	if !ok {
		set = map[*ssa.Global]bool{}
		seen := map[*ssa.Function]bool{}
		var scan func(fn *ssa.Function)
		scan = func(fn *ssa.Function) {
			if fn == nil || seen[fn] || fn.Pkg != pkg {
				return
			}
			seen[fn] = true
			var ops []*ssa.Value
			for _, b := range fn.Blocks {
				for _, in := range b.Instrs {
					ops = in.Operands(ops[:0])
					for _, op := range ops {
						if op == nil || *op == nil {
							continue
						}
						switch v := (*op).(type) {
						case *ssa.Global:
							if v.Pkg == pkg {
								set[v] = true
							}
						case *ssa.Function:
							if strings.HasPrefix(v.Name(), "init#") {
								scan(v)
							}
						}
					}
				}
			}
		}
		scan(pkg.Func("init"))
		m.initGlobals[pkg] = set
	}
	// process-environment handles are harmless as nil
	switch g.String() {
	case "os.Stdout", "os.Stderr", "os.Stdin", "os.Args":
		return false
	}
	return set[g]
}

// skipInit lists packages whose init has OS/runtime effects and is not run.
var skipInit = map[string]bool{
	"runtime": true, "os": true, "syscall": true, "internal/poll": true, "internal/cpu": true,
	"internal/godebug": true, "internal/syscall/unix": true, "net": true, "crypto/rand": true,
	"os/signal": true, "os/exec": true, "os/user": true, "internal/testlog": true,
	"runtime/debug": true, "runtime/pprof": true, "runtime/trace": true, "internal/bisect": true,
	"internal/godebugs": true, "internal/runtime/exithook": true, "reflect": true, "internal/reflectlite": true,
	"testing": true, "flag": true, "log": true, "net/http": true, "crypto/tls": true, "crypto/x509": true,
	"internal/abi": true, "internal/bytealg": true, "runtime/internal/sys": true, "runtime/internal/atomic": true,
	"internal/runtime/atomic": true, "sync": true, "sync/atomic": true, "internal/race": true, "unsafe": true,
	"math/rand": true, "math/rand/v2": true, "internal/chacha8rand": true, "crypto/internal/boring": true,
	"crypto/internal/boring/sig": true, "vendor/golang.org/x/sys/cpu": true, "golang.org/x/sys/cpu": true,
	"golang.org/x/sys/unix": true, "internal/sysinfo": true, "mime": true, "net/textproto": false,
	"github.com/baidu/go-lib/log": true, "github.com/baidu/go-lib/log/log4go": true,
	"encoding/json": true, "github.com/json-iterator/go": true, "github.com/modern-go/reflect2": true,
	"gopkg.in/gcfg.v1": true, "github.com/miekg/dns": true, "github.com/oschwald/geoip2-golang": true,
	"github.com/oschwald/maxminddb-golang": true, "go.uber.org/automaxprocs/maxprocs": true, "go.uber.org/automaxprocs/internal/cgroups": true,
	"github.com/andybalholm/brotli": true, "compress/flate": true, "compress/gzip": true, "compress/zlib": true,
	"time": false,
}

func skipInitPkg(path string) bool {
	return skipInit[path] || strings.HasPrefix(path, "crypto/") || strings.HasPrefix(path, "vendor/") ||
		strings.HasPrefix(path, "internal/") && path != "internal/itoa" && path != "internal/stringslite" && path != "internal/oserror" && path != "internal/singleflight"
}

// RunInit executes package initializers (dependency order) for root and what it imports.
func (m *Machine) RunInit(root *ssa.Package) {
	seen := map[*types.Package]bool{}
	var order []*ssa.Package
	var visit func(p *types.Package)
	visit = func(p *types.Package) {
		if seen[p] {
			return
		}
		seen[p] = true
		imps := p.Imports()
		sort.Slice(imps, func(i, j int) bool { return imps[i].Path() < imps[j].Path() })
		for _, q := range imps {
			visit(q)
		}
		if sp := m.prog.Package(p); sp != nil {
			order = append(order, sp)
		}
	}
	visit(root.Pkg)
	saved := *m.cfg
	m.cfg.MaxSteps = 200_000_000
	m.cfg.Deadline = time.Time{}
	for _, sp := range order {
		if skipInitPkg(sp.Pkg.Path()) {
			continue
		}
		m.runPkgInit(sp)
	}
	for _, f := range postInit {
		f(m)
	}
	*m.cfg = saved
	m.initDone = true
	m.baseTr = len(m.trail)
}

// postInit hooks run after the package initialisers (e.g. pure globals of packages whose init is skipped).
var postInit []func(m *Machine)

func (m *Machine) runPkgInit(sp *ssa.Package) {
	init := sp.Func("init")
	if init == nil || init.Blocks == nil {
		return
	}
	defer func() {
		if r := recover(); r != nil {
			if os.Getenv("VERIF_DEBUG") != "" {
				fmt.Println("INIT FAIL", sp.Pkg.Path(), fmtPanic(r), "\n", m.stackString())
				if _, ok := r.(runtime.Error); ok {
					debug.PrintStack()
				}
			}
			m.stats.InitFailed = append(m.stats.InitFailed, fmt.Sprintf("%s: %v", sp.Pkg.Path(), fmtPanic(r)))
			m.curFrame = nil
			m.depth = 0
		}
	}()
	m.steps = 0
	// the init function calls the inits of imports itself; guard via init$guard global (already handled by SSA code).
	m.call(init, nil, nil)
}

func fmtPanic(r interface{}) string {
	switch r := r.(type) {
	case unsupported:
		return "unsupported: " + r.msg
	case goPanic:
		return "panic: " + describePanic(r.v)
	case pathEnd:
		return "pathEnd " + r.kind + " " + r.detail
	}
	return fmt.Sprint(r)
}

func describePanic(v value) string {
	if i, ok := v.(iface); ok {
		if i.t == nil {
			return "nil"
		}
		switch x := i.v.(type) {
		case Str:
			c, _ := x.Concrete()
			return c
		case *value:
			// error implementations: try first string field
			if x != nil {
				if st, ok := (*x).(structure); ok {
					for _, f := range st {
						if s, ok := f.(Str); ok {
							c, _ := s.Concrete()
							return i.t.String() + ": " + c
						}
					}
				}
			}
		case structure:
			for _, f := range x {
				if s, ok := f.(Str); ok {
					c, _ := s.Concrete()
					return i.t.String() + ": " + c
				}
			}
		}
		return i.t.String()
	}
	return describe(v)
}

// ---------- decisions ----------

func (m *Machine) feasible(extra *Term) Result {
	m.stats.BranchQ++
	r := m.solver.Check(m.pc, []*Term{extra}, nil, nil)
	if r == Unknown {
		m.stats.Unknown++
	}
	return r
}

// decide picks among guarded options (guards are exhaustive under pc). Returns chosen index.
func (m *Machine) decide(kind byte, guards []*Term) int {
	if m.spec > 0 {
		panic(mergeAbort{})
	}
	if m.pos < len(m.log) {
		d := m.log[m.pos]
		m.pos++
		if d.choice < len(guards) && guards[d.choice] != nil {
			m.addPC(guards[d.choice])
		}
		return d.choice
	}
	if !m.cfg.Deadline.IsZero() && time.Now().After(m.cfg.Deadline) {
		panic(pathEnd{"deadline", ""})
	}
	var opts []int
	for i, g := range guards {
		if g == nil { // unconditional option (choose)
			opts = append(opts, i)
			continue
		}
		if g.IsFalse() {
			continue
		}
		if i == len(guards)-1 && len(opts) == 0 {
			// last option and nothing else feasible: pc is satisfiable, so this one is
			opts = append(opts, i)
			break
		}
		if m.feasible(g) != Unsat {
			opts = append(opts, i)
		}
	}
	if len(opts) == 0 {
		panic(pathEnd{"infeasible", "no feasible option"})
	}
	d := decision{kind: kind, choice: opts[0], remaining: opts[1:]}
	if len(opts) > 1 {
		m.stats.Forks++
		if m.spawn != nil {
			// hand the siblings to other workers
			for _, o := range opts[1:] {
				pre := make([]decision, len(m.log), len(m.log)+1)
				copy(pre, m.log)
				pre = append(pre, decision{kind: kind, choice: o})
				if !m.spawn(pre) {
					goto keep
				}
			}
			d.remaining = nil
		}
	}
keep:
	m.log = append(m.log, d)
	m.pos++
	if guards[d.choice] != nil {
		m.addPC(guards[d.choice])
	}
	return d.choice
}

func (m *Machine) addPC(t *Term) {
	if t.IsTrue() {
		return
	}
	m.pc = append(m.pc, t)
}

// branch forks on a symbolic condition.
func (m *Machine) branch(c *Term) bool {
	if c.IsConst() {
		return c.Val == 1
	}
	return m.decide('b', []*Term{c, m.tt.Not(c)}) == 0
}

// Choose forks concretely over [0,n).
func (m *Machine) choose(n int) int {
	if n <= 0 {
		panic(pathEnd{"infeasible", "empty choose"})
	}
	if n == 1 {
		return 0
	}
	gs := make([]*Term, n)
	k := m.decide('c', gs)
	m.choices = append(m.choices, k)
	return k
}

// concretize forks over the feasible values of t.
func (m *Machine) concretize(t *Term) uint64 {
	if t.IsConst() {
		return t.Val
	}
	if t.W > 64 {
		panic(unsupported{"concretize wide term"})
	}
	if m.spec > 0 {
		panic(mergeAbort{})
	}
	if m.pos < len(m.log) {
		d := &m.log[m.pos]
		if !d.retry {
			m.pos++
			m.addPC(m.tt.Eq(t, m.tt.Const(t.W, d.val)))
			return d.val
		}
		// draw a new value different from the excluded ones
		d.retry = false
		extra := []*Term{}
		for _, e := range d.excluded {
			extra = append(extra, m.tt.Ne(t, m.tt.Const(t.W, e)))
		}
		model := map[string]uint64{}
		m.stats.BranchQ++
		r := m.solver.Check(m.pc, extra, m.tt.PathVars, model)
		if r != Sat {
			if r == Unknown {
				m.stats.Unknown++
				panic(pathEnd{"unknown", "concretize"})
			}
			// exhausted: drop this decision
			m.log = m.log[:m.pos]
			panic(pathEnd{"infeasible", "concretize exhausted"})
		}
		v := Eval(t, model, map[*Term]uint64{})
		if debugOn {
			fmt.Printf("concretize retry: t=%s excluded=%v -> %d model=%v\n", t, d.excluded, v, model)
		}
		for _, e := range d.excluded {
			if e == v {
				panic(unsupported{"internal: concretize drew an excluded value (model evaluation inconsistent)"})
			}
		}
		d.val = v
		d.last = m.noOtherValue(t, append(append([]uint64{}, d.excluded...), v))
		m.pos++
		m.log = m.log[:m.pos]
		m.addPC(m.tt.Eq(t, m.tt.Const(t.W, v)))
		return v
	}
	model := map[string]uint64{}
	m.stats.BranchQ++
	r := m.solver.Check(m.pc, nil, m.tt.PathVars, model)
	if r != Sat {
		if r == Unknown {
			m.stats.Unknown++
			panic(pathEnd{"unknown", "concretize"})
		}
		panic(pathEnd{"infeasible", "concretize"})
	}
	v := Eval(t, model, map[*Term]uint64{})
	m.log = append(m.log, decision{kind: 'v', val: v, last: m.noOtherValue(t, []uint64{v})})
	m.pos++
	m.stats.Forks++
	m.addPC(m.tt.Eq(t, m.tt.Const(t.W, v)))
	return v
}

// noOtherValue reports whether, under the current path condition, t cannot take any value outside
// vals (then the concretisation decision needs no retry path).
func (m *Machine) noOtherValue(t *Term, vals []uint64) bool {
	extra := make([]*Term, 0, len(vals))
	for _, e := range vals {
		extra = append(extra, m.tt.Ne(t, m.tt.Const(t.W, e)))
	}
	m.stats.BranchQ++
	return m.solver.Check(m.pc, extra, nil, nil) == Unsat
}

// nextLog computes the next decision log for DFS; returns false when exhausted.
func nextLog(log []decision) ([]decision, bool) {
	for len(log) > 0 {
		d := &log[len(log)-1]
		if d.kind == 'v' && d.last {
			log = log[:len(log)-1]
			continue
		}
		if d.kind == 'v' {
			d.excluded = append(d.excluded, d.val)
			d.retry = true
			return log, true
		}
		if len(d.remaining) > 0 {
			d.choice = d.remaining[0]
			d.remaining = d.remaining[1:]
			return log, true
		}
		log = log[:len(log)-1]
	}
	return nil, false
}

// ---------- running a path ----------

// PathResult of one path.
type PathResult struct {
	Kind   string
	Detail string
}

func (m *Machine) resetPath() {
	m.undoTo(m.baseTr)
	m.pc = m.pc[:0]
	m.pos = 0
	m.known = m.known[:0]
	m.steps = 0
	m.depth = 0
	m.nondetN = map[string]int{}
	m.tt.NewPath()
	m.choices = m.choices[:0]
	m.curFrame = nil
	m.timeBase = nil
	m.timeN = 0
	m.ghost = map[string]value{}
	m.pathTag = ""
}

// RunPath executes fn once following m.log.
func (m *Machine) RunPath(fn *ssa.Function) (res PathResult) {
	m.resetPath()
	defer func() {
		m.stats.Steps += m.steps
		if r := recover(); r != nil {
			switch r := r.(type) {
			case pathEnd:
				res = PathResult{r.kind, r.detail}
			case unsupported:
				m.stats.Unsupported[r.msg]++
				res = PathResult{"unsupported", r.msg}
			case goPanic:
				// uncaught panic of the code under test
				res = PathResult{"panic", describePanic(r.v)}
				m.reportOutcome("panic", "panic", describePanic(r.v))
			case runtime.Error:
				msg := "internal: " + r.Error() + " @ " + m.stackString()
				if os.Getenv("VERIF_DEBUG") != "" {
					fmt.Println(msg)
					debug.PrintStack()
				}
				m.stats.Unsupported[msg]++
				res = PathResult{"unsupported", msg}
			default:
				// interpreter-internal panic (unexpected value kind, e.g. a poisoned global): the path is
				// not encodable, never a pass
				msg := "internal: " + fmt.Sprint(r) + " @ " + m.stackString()
				if os.Getenv("VERIF_DEBUG") != "" {
					fmt.Println(msg)
					debug.PrintStack()
				}
				m.stats.Unsupported[msg]++
				res = PathResult{"unsupported", msg}
			}
		}
		if res.Kind == "blocked" {
			if lbl, ok := m.expectedBlock(); ok { // vrt.ExpectBlock: blocking here is what the harness predicted
				m.stats.Covers[lbl]++
				res.Kind = "blocked-expected"
			}
		}
		switch res.Kind {
		case "unwind", "steps", "blocked", "depth":
			m.reportOutcome(res.Kind, res.Kind, res.Detail)
		}
	}()
	m.call(fn, nil, nil)
	return PathResult{"done", ""}
}

func (m *Machine) stackString() string {
	var sb strings.Builder
	n := 0
	for fr := m.curFrame; fr != nil && n < 12; fr = fr.caller {
		sb.WriteString(fr.fn.String())
		sb.WriteString(" <- ")
		n++
	}
	return sb.String()
}

// reportOutcome records a non-assert outcome (panic/unwind/...) as a violation candidate, split by known classes.
func (m *Machine) reportOutcome(kind, label, detail string) {
	m.stats.Obligations++
	m.checkViolation(m.tt.True, kind, label, detail)
}

// checkViolation decides pc ∧ bad, split into listed known classes and the rest.
func (m *Machine) checkViolation(bad *Term, kind, label, detail string) (anyViolation bool) {
	var listed []knownPred
	notKnown := m.tt.True
	for _, k := range m.known {
		if m.cfg.Listed[k.id] {
			listed = append(listed, k)
			notKnown = m.tt.And(notKnown, m.tt.Not(k.pred))
		}
	}
	stack := m.stackString()
	query := func(extra *Term, knownID string) bool {
		model := map[string]uint64{}
		m.stats.AssertQ++
		r := m.solver.Check(m.pc, []*Term{bad, extra}, m.tt.PathVars, model)
		switch r {
		case Sat:
			ch := append([]int(nil), m.choices...)
			m.viols = append(m.viols, Violation{Label: label, Kind: kind, Detail: detail, Model: model, Choices: ch, KnownID: knownID, Stack: stack})
			return true
		case Unknown:
			m.stats.Unknown++
			m.viols = append(m.viols, Violation{Label: label, Kind: "unknown", Detail: "solver unknown on " + kind + " " + detail + " " + m.solver.LastErr, Choices: append([]int(nil), m.choices...), Stack: stack})
			return true
		}
		// discharged by the primary solver: optionally re-discharge with a second back end
		if m.solver2 != nil && m.crossSpent > crossBudget {
			m.stats.CrossSkipped++
		} else if m.solver2 != nil {
			t0 := time.Now()
			// z3 4.8.12 does not always honour :timeout inside one incremental query: a watchdog kills the
			// process after twice the per-query limit; Check then reports unknown and restarts the solver, and
			// this worker stops cross-checking for the rest of the harness.
			proc, hardKilled := m.solver2.cmd.Process, false
			wd := time.AfterFunc(time.Duration(2*m.solver2.timeout+10000)*time.Millisecond, func() { hardKilled = true; proc.Kill() })
			r2 := m.solver2.Check(m.pc, []*Term{bad, extra}, nil, nil)
			wd.Stop()
			m.crossSpent += time.Since(t0)
			if hardKilled {
				m.crossSpent += crossBudget
			}
			switch r2 {
			case Unsat:
				m.stats.CrossChecked++
			case Unknown:
				m.stats.CrossUnknown++
			case Sat:
				m.stats.CrossDisagree++
				m.viols = append(m.viols, Violation{Label: label, Kind: "unknown", Detail: "SOLVER DISAGREEMENT: " + m.solver.Kind + " says unsat, " + m.solver2.Kind + " says sat on " + kind + " " + detail, Choices: append([]int(nil), m.choices...), Stack: stack})
				return true
			}
		}
		return false
	}
	v := query(notKnown, "")
	if !v {
		m.stats.Discharged++
	}
	anyViolation = v
	for _, k := range listed {
		if query(k.pred, k.id) {
			anyViolation = true
		}
	}
	return
}
