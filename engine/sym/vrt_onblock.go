package sym

import "golang.org/x/tools/go/ssa"

// vrt.OnBlock(f): the harness registers the "other party" of a channel protocol (e.g. the serve loop
// that answers a handler goroutine). When the code under test would block on a channel operation
// (receive on an empty channel, send on a full one, select with no ready case), the engine runs f once
// as a step function and retries the operation; if it is still not ready the path ends `blocked` as
// before. f is never re-entered (a blocking operation inside f itself ends the path). OnBlock(nil)
// unregisters. This sequentialises exactly one schedule - the peer runs only when the code under test
// cannot proceed - which is the hand-off discipline of an unbuffered request/response exchange.
func init() {
	vrtIntrinsics["OnBlock"] = func(m *Machine, fn *ssa.Function, a []value) value {
		switch f := a[0].(type) {
		case *closure:
			if f == nil {
				delete(m.ghost, "onBlock")
			} else {
				m.ghost["onBlock"] = f
			}
		case *ssa.Function:
			if f == nil {
				delete(m.ghost, "onBlock")
			} else {
				m.ghost["onBlock"] = f
			}
		default:
			delete(m.ghost, "onBlock")
		}
		return nil
	}
}

// runBlockPeer runs the registered OnBlock peer once; false if there is none or it is already running.
func (m *Machine) runBlockPeer() bool {
	f, ok := m.ghost["onBlock"]
	if !ok || f == nil {
		return false
	}
	if b, _ := m.ghost["onBlockRunning"].(bool); b {
		return false
	}
	m.ghost["onBlockRunning"] = true
	m.stats.Stubs["vrt.OnBlock: harness peer run at a blocking channel operation"]++
	m.callValue(f, nil, nil)
	m.ghost["onBlockRunning"] = false
	return true
}
