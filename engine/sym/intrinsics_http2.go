package sym

import (
	"go/types"

	"golang.org/x/tools/go/ssa"
)

// Timers for the HTTP/2 server harnesses (C33..C38): the unit-level harnesses never let time pass, so a
// timer is an object that never fires. time.NewTimer returns a *Timer whose C is a fresh buffered
// channel nobody writes to; time.AfterFunc returns a *Timer and never runs the callback; Stop/Reset
// report "was active". Every use is listed in the evidence stubs.
func init() {
	newTimer := func(withChan bool) intrinsic {
		return func(m *Machine, fn *ssa.Function, a []value) value {
			m.stats.Stubs["time.NewTimer/AfterFunc: timer never fires"]++
			pt := fn.Signature.Results().At(0).Type().(*types.Pointer)
			st := pt.Elem().Underlying().(*types.Struct)
			s := m.zero(pt.Elem()).(structure)
			if withChan {
				for i := 0; i < st.NumFields(); i++ {
					if st.Field(i).Name() == "C" {
						s[i] = &Chan{cap: 1}
					}
				}
			}
			cell := new(value)
			*cell = s
			return cell
		}
	}
	intrinsics["time.NewTimer"] = newTimer(true)
	intrinsics["time.AfterFunc"] = newTimer(false)
	intrinsics["(*time.Timer).Stop"] = func(m *Machine, fn *ssa.Function, a []value) value { return m.tt.True }
	intrinsics["(*time.Timer).Reset"] = func(m *Machine, fn *ssa.Function, a []value) value { return m.tt.True }
}
