package sym

import (
	"crypto/md5"
	"fmt"
	"go/types"
	"net"
	"strconv"
	"strings"
	"sync"

	"golang.org/x/tools/go/ssa"
)

// unique.Make canonicalisation table, per machine (handles made during package init must stay
// identical to handles made later for an equal value).
type uniqueEnt struct {
	t    types.Type
	v    value
	cell *value
}

var (
	uniqueMu   sync.Mutex
	uniqueTabs = map[*Machine][]uniqueEnt{}
)

// Intrinsics needed by the PROXY-protocol / module harnesses (C46, C55, ...).
func init() {
	// encoding/binary.Read on a pointer to a fixed-size value (integers, arrays, structs of those):
	// reflection is not interpreted, so the typed big/little-endian decoding is done here against the
	// interpreter's values. The bytes are obtained with the real io.ReadFull on the real reader, so
	// short reads / EOF behave as in the library (io.EOF / io.ErrUnexpectedEOF are passed through).
	intrinsics["encoding/binary.Read"] = func(m *Machine, fn *ssa.Function, a []value) value {
		rd := a[0].(iface)
		order := a[1].(iface)
		data := a[2].(iface)
		pt, ok := data.t.Underlying().(*types.Pointer)
		if !ok {
			panic(unsupported{"encoding/binary.Read into " + data.t.String()})
		}
		size, ok := binFixedSize(pt.Elem())
		if !ok {
			panic(unsupported{"encoding/binary.Read into " + data.t.String()})
		}
		big := true
		if order.t != nil && strings.Contains(strings.ToLower(order.t.String()), "little") {
			big = false
		}
		buf := make([]value, size)
		for i := range buf {
			buf[i] = m.tt.Const(8, 0)
		}
		iop := m.prog.ImportedPackage("io")
		if iop == nil || iop.Func("ReadFull") == nil {
			panic(unsupported{"io.ReadFull not loaded"})
		}
		res := m.call(iop.Func("ReadFull"), []value{rd, buf}, nil).(tuple)
		if err, _ := res[1].(iface); err.t != nil {
			return err
		}
		pos := 0
		v := m.binDecode(pt.Elem(), buf, &pos, big)
		m.storePtr(data.v, v)
		return iface{}
	}

	// encoding/binary.Write of a fixed-size value (or a pointer to one): typed encoding done here, the
	// bytes are handed to the writer's real Write method in one call (as the library does).
	intrinsics["encoding/binary.Write"] = func(m *Machine, fn *ssa.Function, a []value) value {
		w := a[0].(iface)
		order := a[1].(iface)
		data := a[2].(iface)
		t, v := data.t, data.v
		if pt, ok := t.Underlying().(*types.Pointer); ok {
			t, v = pt.Elem(), m.loadFrom(v)
		}
		if _, ok := binFixedSize(t); !ok {
			panic(unsupported{"encoding/binary.Write of " + data.t.String()})
		}
		big := true
		if order.t != nil && strings.Contains(strings.ToLower(order.t.String()), "little") {
			big = false
		}
		var out []value
		m.binEncode(t, v, &out, big)
		if w.t == nil {
			panic(goPanic{m.mkRuntimeError("invalid memory address or nil pointer dereference")})
		}
		sel := m.prog.MethodSets.MethodSet(w.t).Lookup(nil, "Write")
		if sel == nil {
			panic(unsupported{"writer without Write"})
		}
		res := m.call(m.prog.MethodValue(sel), []value{w.v, out}, nil).(tuple)
		return res[1]
	}

	// unique.Make[T](v): the real body needs the runtime's weak pointers and type hashing. Model: one
	// canonical cell per distinct (concrete) value; Handle[T] is struct{value *T}, so handle equality
	// is pointer equality exactly as in the library. net/netip (z4, z6noz) depends on it.
	intrinsics["unique.Make"] = func(m *Machine, fn *ssa.Function, a []value) value {
		t := fn.Signature.Params().At(0).Type()
		uniqueMu.Lock()
		defer uniqueMu.Unlock()
		for _, e := range uniqueTabs[m] {
			if !types.Identical(e.t, t) {
				continue
			}
			eq := m.eqTerm(t, e.v, a[0])
			if eq.IsTrue() {
				return structure{e.cell}
			}
			if !eq.IsFalse() {
				panic(unsupported{"unique.Make of a symbolic value"})
			}
		}
		cell := new(value)
		*cell = copyVal(a[0])
		uniqueTabs[m] = append(uniqueTabs[m], uniqueEnt{t, copyVal(a[0]), cell})
		return structure{cell}
	}

	// crypto/md5.Sum of concrete data: the exact digest, computed natively (the digest of symbolic
	// data is out of reach and ends the path as unsupported).
	intrinsics["crypto/md5.Sum"] = func(m *Machine, fn *ssa.Function, a []value) value {
		s, _ := a[0].([]value)
		data := make([]byte, len(s))
		for i, b := range s {
			t := b.(*Term)
			if !t.IsConst() {
				panic(unsupported{"crypto/md5.Sum of symbolic data"})
			}
			data[i] = byte(t.Val)
		}
		sum := md5.Sum(data)
		r := make(array, len(sum))
		for i, b := range sum {
			r[i] = m.tt.Const(8, uint64(b))
		}
		return r
	}

	// time.Unix(sec, nsec): with concrete arguments the exact library representation is built; with
	// symbolic arguments the real body's nanosecond normalisation (64-bit division by 1e9) makes every
	// later query intractable, so the result is represented like the engine's time.Now instants
	// (monotonic-flagged wall word, ext = Unix nanoseconds), which UnixNano/Sub/Before/After read back.
	intrinsics["time.Unix"] = func(m *Machine, fn *ssa.Function, a []value) value {
		sec, nsec := a[0].(*Term), a[1].(*Term)
		if sec.IsConst() && nsec.IsConst() {
			s, n := sec.SVal(), nsec.SVal()
			if n < 0 || n >= 1e9 {
				k := n / 1e9
				s += k
				n -= k * 1e9
				if n < 0 {
					n += 1e9
					s--
				}
			}
			const unixToInternal = (1969*365 + 1969/4 - 1969/100 + 1969/400) * 86400
			var loc value = (*value)(nil)
			if tp := m.prog.ImportedPackage("time"); tp != nil && tp.Var("Local") != nil {
				loc = m.loadFrom(m.globalAddr(tp.Var("Local")))
			}
			return structure{m.tt.Const(64, uint64(n)), m.tt.Const(64, uint64(s+unixToInternal)), loc}
		}
		m.stats.Assumes["time.Unix of a symbolic instant is kept as Unix nanoseconds (no calendar normalisation)"]++
		ns := m.tt.Bin("bvadd", m.tt.Bin("bvmul", sec, m.tt.Const(64, 1000000000)), nsec)
		return structure{m.tt.Const(64, hasMonotonic), ns, (*value)(nil)}
	}

	// net.ResolveTCPAddr on "literal-ip:port" (no resolver in the engine): SplitHostPort + ParseIP +
	// Atoi evaluated natively on the concrete strings. A host that is not an IP literal does not
	// resolve (error), as it would for names like "<nil>" that no resolver knows.
	intrinsics["net.ResolveTCPAddr"] = func(m *Machine, fn *ssa.Function, a []value) value {
		network, ok1 := a[0].(Str).Concrete()
		address, ok2 := a[1].(Str).Concrete()
		if !ok1 || !ok2 || strings.Contains(address, "<symbolic") {
			panic(unsupported{"net.ResolveTCPAddr of a symbolic address"})
		}
		fail := func(msg string) value {
			return tuple{(*value)(nil), m.mkErr("net.ResolveTCPAddr: " + msg)}
		}
		if network != "tcp" && network != "tcp4" && network != "tcp6" && network != "" {
			return fail("unknown network " + network)
		}
		host, port, err := net.SplitHostPort(address)
		if err != nil {
			return fail(err.Error())
		}
		pn, err := strconv.Atoi(port)
		if err != nil || pn < 0 || pn > 65535 {
			return fail("invalid port " + port)
		}
		var ip net.IP
		if host != "" {
			ip = net.ParseIP(host)
			if ip == nil {
				m.stats.Assumes["net.ResolveTCPAddr: a host that is not an IP literal does not resolve"]++
				return fail("no such host " + host)
			}
			if network == "tcp4" && ip.To4() == nil || network == "tcp6" && ip.To4() != nil {
				return fail("no suitable address found")
			}
		}
		var ipv []value
		if ip != nil {
			ipv = make([]value, len(ip))
			for i, b := range ip {
				ipv[i] = m.tt.Const(8, uint64(b))
			}
		}
		cell := new(value)
		*cell = structure{ipv, m.i64(pn), Str{}}
		return tuple{cell, iface{}}
	}
}

// binFixedSize: encoding/binary's dataSize for fixed-size types.
func binFixedSize(t types.Type) (int, bool) {
	switch u := t.Underlying().(type) {
	case *types.Basic:
		switch u.Kind() {
		case types.Bool, types.Int8, types.Uint8:
			return 1, true
		case types.Int16, types.Uint16:
			return 2, true
		case types.Int32, types.Uint32:
			return 4, true
		case types.Int64, types.Uint64:
			return 8, true
		}
	case *types.Array:
		n, ok := binFixedSize(u.Elem())
		return n * int(u.Len()), ok
	case *types.Struct:
		sum := 0
		for i := 0; i < u.NumFields(); i++ {
			n, ok := binFixedSize(u.Field(i).Type())
			if !ok {
				return 0, false
			}
			sum += n
		}
		return sum, true
	}
	return 0, false
}

func (m *Machine) binEncode(t types.Type, v value, out *[]value, big bool) {
	switch u := t.Underlying().(type) {
	case *types.Basic:
		n, _ := binFixedSize(t)
		x := v.(*Term)
		if u.Kind() == types.Bool {
			*out = append(*out, m.tt.Ite(x, m.tt.Const(8, 1), m.tt.Const(8, 0)))
			return
		}
		for i := 0; i < n; i++ {
			k := i
			if big {
				k = n - 1 - i
			}
			*out = append(*out, m.tt.Extract(x, 8*k+7, 8*k))
		}
	case *types.Array:
		for _, e := range v.(array) {
			m.binEncode(u.Elem(), e, out, big)
		}
	case *types.Struct:
		for i, e := range v.(structure) {
			if u.Field(i).Name() == "_" {
				e = m.zero(u.Field(i).Type())
			}
			m.binEncode(u.Field(i).Type(), e, out, big)
		}
	default:
		panic(fmt.Sprintf("binEncode %s", t))
	}
}

func (m *Machine) binDecode(t types.Type, buf []value, pos *int, big bool) value {
	switch u := t.Underlying().(type) {
	case *types.Basic:
		n, _ := binFixedSize(t)
		bs := buf[*pos : *pos+n]
		*pos += n
		if u.Kind() == types.Bool {
			return m.tt.Ne(bs[0].(*Term), m.tt.Const(8, 0))
		}
		var r *Term
		for i := 0; i < n; i++ {
			b := bs[i].(*Term)
			if !big {
				b = bs[n-1-i].(*Term)
			}
			if r == nil {
				r = b
			} else {
				r = m.tt.Concat(r, b)
			}
		}
		return r
	case *types.Array:
		r := make(array, u.Len())
		for i := range r {
			r[i] = m.binDecode(u.Elem(), buf, pos, big)
		}
		return r
	case *types.Struct:
		r := make(structure, u.NumFields())
		for i := range r {
			v := m.binDecode(u.Field(i).Type(), buf, pos, big)
			if u.Field(i).Name() == "_" {
				v = m.zero(u.Field(i).Type()) // blank fields are skipped by encoding/binary
			}
			r[i] = v
		}
		return r
	}
	panic(fmt.Sprintf("binDecode %s", t))
}
