package sym

import (
	"fmt"
	"go/types"
	"strings"

	"golang.org/x/tools/go/ssa"
)

type value = interface{}

type structure []value
type array []value
type tuple []value

type iface struct {
	t types.Type
	v value
}

type closure struct {
	Fn  *ssa.Function
	Env []value
}

// Str is a Go string: concrete (S) or symbolic bytes (B != nil) of concrete length.
type Str struct {
	S string
	B []*Term
}

// unsafePtr wraps a pointer converted to unsafe.Pointer.
type unsafePtr struct{ v value }

// sliceData is the result of unsafe.SliceData / unsafe.StringData.
type sliceData struct {
	s   []value
	str *Str
}

// SymRef is a pointer to base[idx](.path) with symbolic idx (already bounds-checked: idx <u len(base)).
type SymRef struct {
	base []value
	idx  *Term
	path []int // field path inside the element (struct fields / array indices)
}

type mapEnt struct {
	k, v value
}

// Map is an insertion-ordered association list.
type Map struct {
	kt   types.Type
	ents []mapEnt
}

type Chan struct {
	buf    []value
	cap    int
	closed bool
}

// builtinFn is an engine-provided callable value (e.g. sort swapper).
type builtinFn struct {
	name string
	fn   func(m *Machine, args []value) value
}

// rangeIter iterates over a string or map snapshot.
type rangeIter struct {
	isMap bool
	m     *Map
	keys  []value
	str   Str
	pos   int
}

func (s Str) Len() int {
	if s.B != nil {
		return len(s.B)
	}
	return len(s.S)
}

func (s Str) IsConcrete() bool {
	if s.B == nil {
		return true
	}
	for _, b := range s.B {
		if !b.IsConst() {
			return false
		}
	}
	return true
}

// Concrete returns the Go string if all bytes are constants.
func (s Str) Concrete() (string, bool) {
	if s.B == nil {
		return s.S, true
	}
	bs := make([]byte, len(s.B))
	for i, b := range s.B {
		if !b.IsConst() {
			return "", false
		}
		bs[i] = byte(b.Val)
	}
	return string(bs), true
}

func (m *Machine) strNorm(s Str) Str {
	if c, ok := s.Concrete(); ok {
		return Str{S: c}
	}
	return s
}

func (m *Machine) strByte(s Str, i int) *Term {
	if s.B != nil {
		return s.B[i]
	}
	return m.tt.Const(8, uint64(s.S[i]))
}

func (m *Machine) strBytes(s Str) []*Term {
	if s.B != nil {
		return s.B
	}
	r := make([]*Term, len(s.S))
	for i := 0; i < len(s.S); i++ {
		r[i] = m.tt.Const(8, uint64(s.S[i]))
	}
	return r
}

func (m *Machine) strSlice(s Str, lo, hi int) Str {
	if s.B != nil {
		return m.strNorm(Str{B: s.B[lo:hi:hi]})
	}
	return Str{S: s.S[lo:hi]}
}

func (m *Machine) strConcat(a, b Str) Str {
	if a.B == nil && b.B == nil {
		return Str{S: a.S + b.S}
	}
	if a.Len() == 0 {
		return b
	}
	if b.Len() == 0 {
		return a
	}
	r := make([]*Term, 0, a.Len()+b.Len())
	r = append(r, m.strBytes(a)...)
	r = append(r, m.strBytes(b)...)
	return Str{B: r}
}

func (m *Machine) strEq(a, b Str) *Term {
	if a.Len() != b.Len() {
		return m.tt.False
	}
	if a.B == nil && b.B == nil {
		return m.tt.Bool(a.S == b.S)
	}
	r := m.tt.True
	for i := 0; i < a.Len(); i++ {
		r = m.tt.And(r, m.tt.Eq(m.strByte(a, i), m.strByte(b, i)))
		if r.IsFalse() {
			return r
		}
	}
	return r
}

// strLess returns a<b (lexicographic, bytewise).
func (m *Machine) strLess(a, b Str) *Term {
	if a.B == nil && b.B == nil {
		return m.tt.Bool(a.S < b.S)
	}
	n := a.Len()
	if b.Len() < n {
		n = b.Len()
	}
	// from the end: res = (a.len < b.len) if common prefix equal
	res := m.tt.Bool(a.Len() < b.Len())
	for i := n - 1; i >= 0; i-- {
		x, y := m.strByte(a, i), m.strByte(b, i)
		res = m.tt.Ite(m.tt.Eq(x, y), res, m.tt.Cmp("bvult", x, y))
	}
	return res
}

// ---------- type helpers ----------

func isSigned(t types.Type) bool {
	b, ok := t.Underlying().(*types.Basic)
	return ok && b.Info()&types.IsInteger != 0 && b.Info()&types.IsUnsigned == 0
}

func isInteger(t types.Type) bool {
	b, ok := t.Underlying().(*types.Basic)
	return ok && b.Info()&types.IsInteger != 0
}

func isFloat(t types.Type) bool {
	b, ok := t.Underlying().(*types.Basic)
	return ok && b.Info()&types.IsFloat != 0
}

func isString(t types.Type) bool {
	b, ok := t.Underlying().(*types.Basic)
	return ok && b.Info()&types.IsString != 0
}

func isBool(t types.Type) bool {
	b, ok := t.Underlying().(*types.Basic)
	return ok && b.Info()&types.IsBoolean != 0
}

func intWidth(t types.Type) int {
	b, ok := t.Underlying().(*types.Basic)
	if !ok {
		panic(fmt.Sprintf("intWidth: %s", t))
	}
	switch b.Kind() {
	case types.Int8, types.Uint8:
		return 8
	case types.Int16, types.Uint16:
		return 16
	case types.Int32, types.Uint32:
		return 32
	case types.Int, types.Uint, types.Int64, types.Uint64, types.Uintptr, types.UntypedInt, types.UntypedRune:
		return 64
	case types.Bool, types.UntypedBool:
		return 0
	}
	panic(fmt.Sprintf("intWidth: %s", t))
}

// zero returns the zero value of t.
func (m *Machine) zero(t types.Type) value {
	switch t := t.(type) {
	case *types.Basic:
		if t.Kind() == types.UntypedNil {
			panic("untyped nil has no zero value")
		}
		switch {
		case t.Info()&types.IsBoolean != 0:
			return m.tt.False
		case t.Info()&types.IsInteger != 0:
			return m.tt.Const(intWidth(t), 0)
		case t.Info()&types.IsFloat != 0:
			return float64(0)
		case t.Info()&types.IsComplex != 0:
			return complex128(0)
		case t.Info()&types.IsString != 0:
			return Str{}
		case t.Kind() == types.UnsafePointer:
			return unsafePtr{}
		}
	case *types.Pointer:
		return (*value)(nil)
	case *types.Array:
		a := make(array, t.Len())
		for i := range a {
			a[i] = m.zero(t.Elem())
		}
		return a
	case *types.Named:
		return m.zero(t.Underlying())
	case *types.Alias:
		return m.zero(types.Unalias(t))
	case *types.Interface:
		return iface{}
	case *types.Slice:
		return []value(nil)
	case *types.Struct:
		s := make(structure, t.NumFields())
		for i := range s {
			s[i] = m.zero(t.Field(i).Type())
		}
		return s
	case *types.Tuple:
		if t.Len() == 1 {
			return m.zero(t.At(0).Type())
		}
		s := make(tuple, t.Len())
		for i := range s {
			s[i] = m.zero(t.At(i).Type())
		}
		return s
	case *types.Chan:
		return (*Chan)(nil)
	case *types.Map:
		return (*Map)(nil)
	case *types.Signature:
		return (*ssa.Function)(nil)
	case *types.TypeParam:
		panic(unsupported{"zero of type parameter"})
	}
	panic(fmt.Sprintf("zero: unexpected type %T %s", t, t))
}

// copyVal makes a deep copy of aggregate values (structs/arrays); other values are immutable or references.
func copyVal(v value) value {
	switch v := v.(type) {
	case structure:
		r := make(structure, len(v))
		for i := range v {
			r[i] = copyVal(v[i])
		}
		return r
	case array:
		r := make(array, len(v))
		for i := range v {
			r[i] = copyVal(v[i])
		}
		return r
	}
	return v
}

type undo struct {
	addr *value
	old  value
	fn   func()
}

// store writes v to *addr in place (recursively for aggregates), logging for undo.
func (m *Machine) store(addr *value, v value) {
	switch rhs := v.(type) {
	case structure:
		if lhs, ok := (*addr).(structure); ok && len(lhs) == len(rhs) {
			for i := range lhs {
				m.store(&lhs[i], rhs[i])
			}
			return
		}
		m.trail = append(m.trail, undo{addr: addr, old: *addr})
		*addr = copyVal(v)
	case array:
		if lhs, ok := (*addr).(array); ok && len(lhs) == len(rhs) {
			for i := range lhs {
				m.store(&lhs[i], rhs[i])
			}
			return
		}
		m.trail = append(m.trail, undo{addr: addr, old: *addr})
		*addr = copyVal(v)
	default:
		m.trail = append(m.trail, undo{addr: addr, old: *addr})
		*addr = v
	}
}

func (m *Machine) undoTo(n int) {
	for i := len(m.trail) - 1; i >= n; i-- {
		u := m.trail[i]
		if u.fn != nil {
			u.fn()
		} else {
			*u.addr = u.old
		}
	}
	m.trail = m.trail[:n]
}

func load(addr *value) value {
	return copyVal(*addr)
}

// ---------- equality ----------

// eqTerm returns the Bool term for x == y at static type t.
func (m *Machine) eqTerm(t types.Type, x, y value) *Term {
	switch xv := x.(type) {
	case *Term:
		return m.tt.Eq(xv, y.(*Term))
	case Str:
		return m.strEq(xv, y.(Str))
	case float64:
		return m.tt.Bool(xv == y.(float64))
	case complex128:
		return m.tt.Bool(xv == y.(complex128))
	case *value:
		if yv, ok := y.(*value); ok {
			return m.tt.Bool(xv == yv)
		}
		return m.ptrEq(x, y)
	case *PtrSet:
		return m.ptrEq(x, y)
	case *SymRef:
		panic(unsupported{"comparison of symbolic reference"})
	case *Map:
		return m.tt.Bool(xv == y.(*Map))
	case *Chan:
		return m.tt.Bool(xv == y.(*Chan))
	case unsafePtr:
		yv := y.(unsafePtr)
		xp, _ := xv.v.(*value)
		yp, _ := yv.v.(*value)
		return m.tt.Bool(xp == yp)
	case []value:
		// only comparison with nil is legal
		if ys, ok := y.(*SliceSet); ok {
			if xv != nil {
				panic(unsupported{"slice comparison"})
			}
			return m.sliceSetIsNil(ys)
		}
		yv := y.([]value)
		return m.tt.Bool(xv == nil && yv == nil)
	case *SliceSet:
		if yv, ok := y.([]value); ok && yv == nil {
			return m.sliceSetIsNil(xv)
		}
		panic(unsupported{"slice comparison"})
	case *ssa.Function:
		if yf, ok := y.(*ssa.Function); ok {
			return m.tt.Bool(xv == yf)
		}
		return m.tt.False
	case *closure:
		if yc, ok := y.(*closure); ok {
			return m.tt.Bool(xv == yc)
		}
		return m.tt.False
	case *ssa.Builtin, *builtinFn:
		return m.tt.Bool(x == y)
	case iface:
		yv := y.(iface)
		if xv.t == nil || yv.t == nil {
			return m.tt.Bool(xv.t == nil && yv.t == nil)
		}
		if !types.Identical(xv.t, yv.t) {
			return m.tt.False
		}
		if !types.Comparable(xv.t) {
			panic(goPanic{m.mkRuntimeError("comparing uncomparable type " + xv.t.String())})
		}
		return m.eqTerm(xv.t, xv.v, yv.v)
	case structure:
		yv := y.(structure)
		st := t.Underlying().(*types.Struct)
		r := m.tt.True
		for i := range xv {
			if st.Field(i).Name() == "_" {
				continue
			}
			r = m.tt.And(r, m.eqTerm(st.Field(i).Type(), xv[i], yv[i]))
			if r.IsFalse() {
				return r
			}
		}
		return r
	case array:
		yv := y.(array)
		et := t.Underlying().(*types.Array).Elem()
		r := m.tt.True
		for i := range xv {
			r = m.tt.And(r, m.eqTerm(et, xv[i], yv[i]))
			if r.IsFalse() {
				return r
			}
		}
		return r
	case rtype:
		if yv, ok := y.(rtype); ok {
			return m.tt.Bool(types.Identical(xv.t, yv.t))
		}
		return m.tt.False
	case poison:
		panic(unsupported{"comparison of a poisoned init result: " + xv.why})
	}
	if p, ok := y.(poison); ok {
		panic(unsupported{"comparison of a poisoned init result: " + p.why})
	}
	panic(fmt.Sprintf("eqTerm: unhandled %T", x))
}

type rtype struct{ t types.Type }

// mergeable reports whether ite(c, a, b) can be formed; returns merged value.
func (m *Machine) mergeVals(c *Term, a, b value) (value, bool) {
	switch av := a.(type) {
	case *Term:
		bv, ok := b.(*Term)
		if !ok || av.W != bv.W {
			return nil, false
		}
		return m.tt.Ite(c, av, bv), true
	case Str:
		bv, ok := b.(Str)
		if !ok || av.Len() != bv.Len() {
			return nil, false
		}
		if av.B == nil && bv.B == nil && av.S == bv.S {
			return av, true
		}
		r := make([]*Term, av.Len())
		for i := range r {
			r[i] = m.tt.Ite(c, m.strByte(av, i), m.strByte(bv, i))
		}
		return m.strNorm(Str{B: r}), true
	case structure:
		bv, ok := b.(structure)
		if !ok || len(av) != len(bv) {
			return nil, false
		}
		r := make(structure, len(av))
		for i := range av {
			x, ok := m.mergeVals(c, av[i], bv[i])
			if !ok {
				return nil, false
			}
			r[i] = x
		}
		return r, true
	case array:
		bv, ok := b.(array)
		if !ok || len(av) != len(bv) {
			return nil, false
		}
		r := make(array, len(av))
		for i := range av {
			x, ok := m.mergeVals(c, av[i], bv[i])
			if !ok {
				return nil, false
			}
			r[i] = x
		}
		return r, true
	case tuple:
		bv, ok := b.(tuple)
		if !ok || len(av) != len(bv) {
			return nil, false
		}
		r := make(tuple, len(av))
		for i := range av {
			x, ok := m.mergeVals(c, av[i], bv[i])
			if !ok {
				return nil, false
			}
			r[i] = x
		}
		return r, true
	case iface:
		bv, ok := b.(iface)
		if !ok {
			return nil, false
		}
		if av.t == nil && bv.t == nil {
			return av, true
		}
		if av.t == nil || bv.t == nil || !types.Identical(av.t, bv.t) {
			return nil, false
		}
		x, ok := m.mergeVals(c, av.v, bv.v)
		if !ok {
			return nil, false
		}
		return iface{av.t, x}, true
	case *value:
		if bv, ok := b.(*value); ok && av == bv {
			return av, true
		}
		return m.mergePtrs(c, a, b)
	case *PtrSet:
		return m.mergePtrs(c, a, b)
	case []value:
		bv, ok := b.([]value)
		if !ok {
			return m.mergeSlices(c, a, b)
		}
		if av == nil && bv == nil {
			return av, true
		}
		if len(av) == len(bv) && cap(av) == cap(bv) && len(av) > 0 && &av[0] == &bv[0] {
			return av, true
		}
		if len(av) == 0 && len(bv) == 0 && (av == nil) == (bv == nil) && cap(av) == 0 && cap(bv) == 0 {
			return av, true
		}
		return m.mergeSlices(c, a, b)
	case *SliceSet:
		return m.mergeSlices(c, a, b)
	case *Map:
		if bv, ok := b.(*Map); ok && av == bv {
			return av, true
		}
		return nil, false
	case *Chan:
		if bv, ok := b.(*Chan); ok && av == bv {
			return av, true
		}
		return nil, false
	case *ssa.Function:
		if bv, ok := b.(*ssa.Function); ok && av == bv {
			return av, true
		}
		return nil, false
	case *closure:
		if bv, ok := b.(*closure); ok && av == bv {
			return av, true
		}
		return nil, false
	case float64:
		if bv, ok := b.(float64); ok && av == bv {
			return av, true
		}
		return nil, false
	case nil:
		if b == nil {
			return nil, true
		}
		return nil, false
	}
	return nil, false
}

// describe renders a value for diagnostics.
func describe(v value) string {
	switch v := v.(type) {
	case *Term:
		return v.String()
	case Str:
		if c, ok := v.Concrete(); ok {
			return fmt.Sprintf("%q", c)
		}
		var sb strings.Builder
		sb.WriteString("str[")
		for i, b := range v.B {
			if i > 0 {
				sb.WriteString(" ")
			}
			if i > 16 {
				sb.WriteString("…")
				break
			}
			sb.WriteString(b.String())
		}
		sb.WriteString("]")
		return sb.String()
	case iface:
		if v.t == nil {
			return "nil"
		}
		return fmt.Sprintf("iface(%s, %s)", v.t, describe(v.v))
	case structure:
		var sb strings.Builder
		sb.WriteString("{")
		for i, f := range v {
			if i > 0 {
				sb.WriteString(", ")
			}
			if sb.Len() > 300 {
				sb.WriteString("…")
				break
			}
			sb.WriteString(describe(f))
		}
		sb.WriteString("}")
		return sb.String()
	case *value:
		if v == nil {
			return "nil"
		}
		return "&" + describe(*v)
	case []value:
		return fmt.Sprintf("slice(len=%d)", len(v))
	}
	return fmt.Sprintf("%T", v)
}
