package sym

import (
	"bufio"
	"fmt"
	"io"
	"os"
	"os/exec"
	"strconv"
	"strings"
	"time"
)

type Result int

const (
	Unsat Result = iota
	Sat
	Unknown
)

func (r Result) String() string { return [...]string{"unsat", "sat", "unknown"}[r] }

// Solver is one persistent SMT solver process driven over stdin/stdout.
type Solver struct {
	Kind     string // "z3", "z3-new", "cvc5"
	cmd      *exec.Cmd
	in       io.WriteCloser
	out      *bufio.Reader
	sent     []bool
	stack    []*Term // asserted path-condition prefix, one push level each
	Queries  int
	Unknowns int
	FreshRetries int // unknowns of the incremental solver decided by a fresh process
	Errors   int
	Time     time.Duration
	LastErr  string
	Log      io.Writer // optional: all SMT text
	dead     bool
	timeout  int
}

func NewSolver(kind string, timeoutMs int) (*Solver, error) {
	var cmd *exec.Cmd
	switch kind {
	case "z3":
		cmd = exec.Command("/usr/bin/z3", "-in")
	case "z3-new":
		cmd = exec.Command("z3-new", "-in")
	case "cvc5":
		cmd = exec.Command("cvc5", "--incremental", "--produce-models", "-q", fmt.Sprintf("--tlimit-per=%d", timeoutMs))
	case "cvc5-int":
		cmd = exec.Command("cvc5", "--incremental", "--produce-models", "-q", "--solve-bv-as-int=sum", fmt.Sprintf("--tlimit-per=%d", timeoutMs))
	default:
		return nil, fmt.Errorf("unknown solver %s", kind)
	}
	in, err := cmd.StdinPipe()
	if err != nil {
		return nil, err
	}
	out, err := cmd.StdoutPipe()
	if err != nil {
		return nil, err
	}
	cmd.Stderr = nil
	if err := cmd.Start(); err != nil {
		return nil, err
	}
	s := &Solver{Kind: kind, cmd: cmd, in: in, out: bufio.NewReaderSize(out, 1<<16), timeout: timeoutMs}
	if p := os.Getenv("VERIF_SMTLOG"); p != "" {
		if f, err := os.OpenFile(fmt.Sprintf("%s.%d", p, cmd.Process.Pid), os.O_CREATE|os.O_WRONLY|os.O_TRUNC, 0o644); err == nil {
			s.Log = f
		}
	}
	s.write("(set-option :global-declarations true)\n")
	if strings.HasPrefix(kind, "cvc5") {
		s.write("(set-logic ALL)\n")
	} else {
		s.write(fmt.Sprintf("(set-option :timeout %d)\n", timeoutMs))
	}
	return s, nil
}

func (s *Solver) Close() {
	if s == nil || s.dead {
		return
	}
	s.dead = true
	s.in.Close()
	s.cmd.Process.Kill()
	s.cmd.Wait()
}

func (s *Solver) restart() {
	kind, to := s.Kind, s.timeout
	s.Close()
	n, err := NewSolver(kind, to)
	if err != nil {
		panic(err)
	}
	n.Queries, n.Unknowns, n.Errors, n.Time, n.Log = s.Queries, s.Unknowns, s.Errors, s.Time, s.Log
	*s = *n
}

func (s *Solver) write(txt string) {
	if s.Log != nil {
		io.WriteString(s.Log, txt)
	}
	if _, err := io.WriteString(s.in, txt); err != nil {
		s.LastErr = "write: " + err.Error()
	}
}

func (s *Solver) readLine() string {
	l, err := s.out.ReadString('\n')
	if err != nil {
		s.LastErr = "read: " + err.Error()
		return "(error \"solver died\")"
	}
	return strings.TrimSpace(l)
}

// readSexp reads one balanced s-expression (possibly multi-line).
func (s *Solver) readSexp() string {
	var sb strings.Builder
	depth := 0
	started := false
	for {
		l := s.readLine()
		sb.WriteString(l)
		sb.WriteString(" ")
		for _, c := range l {
			if c == '(' {
				depth++
				started = true
			} else if c == ')' {
				depth--
			}
		}
		if (started && depth <= 0) || (!started && l != "") {
			return sb.String()
		}
		if s.LastErr != "" && strings.Contains(l, "solver died") {
			return sb.String()
		}
	}
}

// align makes the solver's assertion stack equal to pc.
func (s *Solver) align(pc []*Term, sb *strings.Builder) {
	k := 0
	for k < len(s.stack) && k < len(pc) && s.stack[k] == pc[k] {
		k++
	}
	if k < len(s.stack) {
		fmt.Fprintf(sb, "(pop %d)\n", len(s.stack)-k)
		s.stack = s.stack[:k]
	}
	for ; k < len(pc); k++ {
		define(pc[k], &s.sent, sb)
		fmt.Fprintf(sb, "(push 1)\n(assert %s)\n", pc[k].ref())
		s.stack = append(s.stack, pc[k])
	}
}

// Check decides sat(pc ∧ extra...). If model != nil and the result is sat, the values of vars are stored in it.
func (s *Solver) Check(pc []*Term, extra []*Term, vars []*Term, model map[string]uint64) Result {
	t0 := time.Now()
	defer func() { s.Time += time.Since(t0) }()
	s.Queries++
	var sb strings.Builder
	s.align(pc, &sb)
	for _, e := range extra {
		define(e, &s.sent, &sb)
	}
	sb.WriteString("(push 1)\n")
	for _, e := range extra {
		fmt.Fprintf(&sb, "(assert %s)\n", e.ref())
	}
	sb.WriteString("(check-sat)\n")
	s.write(sb.String())
	resp := s.readLine()
	for resp == "" {
		resp = s.readLine()
	}
	var r Result
	switch {
	case resp == "sat":
		r = Sat
	case resp == "unsat":
		r = Unsat
	case resp == "unknown" || strings.Contains(resp, "timeout"):
		// second chance in a fresh non-incremental process (see solver_fresh.go)
		s.write("(pop 1)\n")
		if fr := s.checkFresh(pc, extra, vars, model); fr != Unknown {
			s.FreshRetries++
			return fr
		}
		s.Unknowns++
		return Unknown
	default:
		r = Unknown
		s.Errors++
		s.LastErr = resp
		if strings.Contains(resp, "solver died") {
			s.restart()
			return Unknown
		}
	}
	if r == Sat && model != nil && len(vars) > 0 {
		var q strings.Builder
		q.WriteString("(get-value (")
		for _, v := range vars {
			if v.ID < len(s.sent) && s.sent[v.ID] {
				q.WriteString(v.ref())
				q.WriteString(" ")
			}
		}
		q.WriteString("))\n")
		s.write(q.String())
		parseModel(s.readSexp(), model)
	}
	s.write("(pop 1)\n")
	return r
}

func parseModel(txt string, model map[string]uint64) {
	// ((name #xHH) (name #bBB) (name true) ...)
	f := strings.FieldsFunc(txt, func(r rune) bool { return r == '(' || r == ')' || r == ' ' || r == '\n' || r == '\t' })
	for i := 0; i+1 < len(f); i += 2 {
		name, val := f[i], f[i+1]
		if k := strings.LastIndexByte(name, '!'); k > 0 {
			name = name[:k] // strip the width suffix of the SMT symbol
		}
		switch {
		case val == "true":
			model[name] = 1
		case val == "false":
			model[name] = 0
		case strings.HasPrefix(val, "#x"):
			v, _ := strconv.ParseUint(val[2:], 16, 64)
			model[name] = v
		case strings.HasPrefix(val, "#b"):
			v, _ := strconv.ParseUint(val[2:], 2, 64)
			model[name] = v
		case val == "_": // (_ bv10 32)
			if i+3 < len(f) && strings.HasPrefix(f[i+2], "bv") {
				v, _ := strconv.ParseUint(f[i+2][2:], 10, 64)
				model[name] = v
				i += 2
			}
		}
	}
}
