package sym

import (
	"go/types"
	"net"
	"strings"

	"golang.org/x/tools/go/ssa"
)

// JSON-file hook. bfe's loaders do os.Open(filename) + json.NewDecoder(file).Decode(&conf) and then run
// their own checks/conversions in the same function. Reflection-based decoding cannot be interpreted, so a
// harness passes the file name "verif-json:<Func>"; os.Open accepts exactly such names, and Decode(dst)
// calls the harness function <Func>(dst interface{}) error (in the harness's package), which fills *dst
// from a struct the harness built. Natively (replay) the harness writes a real JSON file instead, so the
// replay goes through the real decoder. Any other file name is unsupported (never a silent zero result).
const verifJSONPrefix = "verif-json:"

// Intrinsics needed by the routing/configuration harnesses (C10–C14).
func init() {
	// net.IP.String goes through net/netip (unique handles, poisoned globals). For a concrete
	// address the native result is exact; a symbolic address is not supported.
	intrinsics["(net.IP).String"] = func(m *Machine, fn *ssa.Function, a []value) value {
		s, _ := a[0].([]value)
		ip := make(net.IP, len(s))
		for i, b := range s {
			t := b.(*Term)
			if !t.IsConst() {
				panic(unsupported{"net.IP.String of a symbolic address"})
			}
			ip[i] = byte(t.Val)
		}
		if s == nil {
			ip = nil
		}
		return Str{S: ip.String()}
	}
	// net.IPv4 copies the package-level v4InV6Prefix; package net's init is skipped (its globals are
	// zero, not the real values), so the real body would silently build a wrong address.
	intrinsics["net.IPv4"] = func(m *Machine, fn *ssa.Function, a []value) value {
		r := make([]value, 16)
		for i := range r {
			r[i] = m.tt.Const(8, 0)
		}
		r[10], r[11] = m.tt.Const(8, 0xff), m.tt.Const(8, 0xff)
		for i := 0; i < 4; i++ {
			r[12+i] = a[i]
		}
		return r
	}
	intrinsics["os.Open"] = func(m *Machine, fn *ssa.Function, a []value) value {
		name, ok := a[0].(Str).Concrete()
		if !ok || !strings.HasPrefix(name, verifJSONPrefix) {
			panic(unsupported{"os.Open of a real file"})
		}
		m.ghost["verif-json"] = strings.TrimPrefix(name, verifJSONPrefix)
		f := new(value)
		*f = m.zero(fn.Signature.Results().At(0).Type().(*types.Pointer).Elem())
		return tuple{f, iface{}}
	}
	intrinsics["(*os.File).Close"] = func(m *Machine, fn *ssa.Function, a []value) value { return iface{} }
	intrinsics["github.com/bfenetworks/bfe/bfe_util/json.NewDecoder"] = func(m *Machine, fn *ssa.Function, a []value) value {
		if _, ok := m.ghost["verif-json"].(string); !ok {
			panic(unsupported{"json.NewDecoder on a reader that is not a verif-json file"})
		}
		return (*value)(nil)
	}
	intrinsics["(*github.com/json-iterator/go.Decoder).Decode"] = func(m *Machine, fn *ssa.Function, a []value) value {
		name, ok := m.ghost["verif-json"].(string)
		if !ok {
			panic(unsupported{"jsoniter Decode without a verif-json file"})
		}
		root := m.curFrame
		for root != nil && root.caller != nil {
			root = root.caller
		}
		if root == nil || root.fn.Pkg == nil || root.fn.Pkg.Func(name) == nil {
			panic(unsupported{"verif-json hook function not found: " + name})
		}
		return m.call(root.fn.Pkg.Func(name), []value{a[1]}, nil)
	}
}
