package sym

import (
	"net"

	"golang.org/x/tools/go/ssa"
)

// Intrinsics needed by the routing/configuration harnesses (C10–C14).
func init() {
	// net.IP.String goes through net/netip (unique handles, poisoned globals). For a concrete
	// address the native result is exact; a symbolic address is not supported.
	intrinsics["(net.IP).String"] = func(m *Machine, fn *ssa.Function, a []value) value {
		s, _ := a[0].([]value)
		ip := make(net.IP, len(s))
		for i, b := range s {
			t := b.(*Term)
			if !t.IsConst() {
				panic(unsupported{"net.IP.String of a symbolic address"})
			}
			ip[i] = byte(t.Val)
		}
		if s == nil {
			ip = nil
		}
		return Str{S: ip.String()}
	}
	// net.IPv4 copies the package-level v4InV6Prefix; package net's init is skipped (its globals are
	// zero, not the real values), so the real body would silently build a wrong address.
	intrinsics["net.IPv4"] = func(m *Machine, fn *ssa.Function, a []value) value {
		r := make([]value, 16)
		for i := range r {
			r[i] = m.tt.Const(8, 0)
		}
		r[10], r[11] = m.tt.Const(8, 0xff), m.tt.Const(8, 0xff)
		for i := 0; i < 4; i++ {
			r[12+i] = a[i]
		}
		return r
	}
}
