package sym

// Intrinsics needed by the reverse-proxy harnesses (C07/C08).

import (
	"golang.org/x/tools/go/ssa"
)

func init() {
	// reflect.TypeOf is not interpreted (it reads the interface header through unsafe casts). Its result
	// is POISONED: passing it on (e.g. as an argument of a skipped logging call, as clusterInvoke's
	// default error branch does) is fine, any real use of it ends the path as unsupported.
	intrinsics["reflect.TypeOf"] = func(m *Machine, fn *ssa.Function, a []value) value {
		return poison{"result of reflect.TypeOf (reflection is not interpreted)"}
	}

	// math/rand's additive lagged Fibonacci source (rand.New(rand.NewSource(seed))): seeding runs ~1800
	// iterations of a multiplicative congruential generator, which on a symbolic seed (time.Now) builds
	// enormous terms. The source is over-approximated instead: Seed does nothing and every Uint64 is a
	// fresh unconstrained 64-bit value; Int63/Int31/Intn/... are computed from it by the real library code.
	intrinsics["(*math/rand.rngSource).Seed"] = func(m *Machine, fn *ssa.Function, a []value) value {
		m.stats.Assumes["math/rand source: every draw is an arbitrary 64-bit value (seed ignored)"]++
		return nil
	}
	intrinsics["(*math/rand.rngSource).Uint64"] = func(m *Machine, fn *ssa.Function, a []value) value {
		return m.fresh("rand", 64)
	}
}
