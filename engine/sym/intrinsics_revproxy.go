package sym

// Intrinsics needed by the reverse-proxy harnesses (C07/C08).
// (rand.New(rand.NewSource(..)).Int31() of BalanceGslb.randomSelectExclude is modelled in intrinsics_balance.go.)

import (
	"golang.org/x/tools/go/ssa"
)

func init() {
	// reflect.TypeOf is not interpreted (it reads the interface header through unsafe casts). Its result
	// is POISONED: passing it on (e.g. as an argument of a skipped logging call, as clusterInvoke's
	// default error branch does) is fine, any real use of it ends the path as unsupported.
	intrinsics["reflect.TypeOf"] = func(m *Machine, fn *ssa.Function, a []value) value {
		return poison{"result of reflect.TypeOf (reflection is not interpreted)"}
	}
}
