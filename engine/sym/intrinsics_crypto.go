package sym

// Crypto primitives are not interpreted (hash compression functions have no Go body on amd64 and
// bit-blasting them is useless anyway). The compression function of each hash is replaced by an
// UNINTERPRETED update: the chaining state becomes fresh unconstrained symbolic words. Everything
// around it (buffering in Write, padding in Sum, hmac's ipad/opad logic) runs from real SSA, so
// lengths, buffer handling and control flow stay exact; only digest VALUES are arbitrary. A harness
// must therefore not assert anything that depends on a digest value. (SHA-256 additionally keeps
// functional consistency - equal inputs, equal digest - see intrinsics_crypto_uf.go.)

import (
	"golang.org/x/tools/go/ssa"
)

func init() {
	noop := func(m *Machine, fn *ssa.Function, a []value) value { return nil }
	for _, n := range []string{
		"crypto/internal/boring/sig.StandardCrypto",
		"crypto/internal/boring/sig.BoringCrypto",
		"crypto/internal/boring/sig.FIPSOnly",
	} {
		intrinsics[n] = noop
	}
	// block(dig *digest, p []byte): field 0 of every digest struct is the chaining state array.
	havoc := func(label string, w int) intrinsic {
		return func(m *Machine, fn *ssa.Function, a []value) value {
			p, ok := a[0].(*value)
			if !ok || p == nil {
				panic(unsupported{"crypto block: unexpected receiver"})
			}
			st, ok := (*p).(structure)
			if !ok || len(st) == 0 {
				panic(unsupported{"crypto block: unexpected digest layout"})
			}
			arr, ok := st[0].(array)
			if !ok {
				panic(unsupported{"crypto block: unexpected digest state"})
			}
			for i := range arr {
				arr[i] = m.fresh(label, w)
			}
			return nil
		}
	}
	intrinsics["crypto/md5.block"] = havoc("md5_state", 32)
	intrinsics["crypto/sha1.block"] = havoc("sha1_state", 32)
	intrinsics["crypto/sha256.block"] = sha256BlockUF // as havoc, plus functional consistency (intrinsics_crypto_uf.go)
	intrinsics["crypto/sha512.block"] = havoc("sha512_state", 64)
}
