package sym

// Intrinsics for the module-callback harnesses (C48): the *code identity* of a func value.
//
// bfe_module prints (and code under test may compare) the name of a registered callback with
//     runtime.FuncForPC(reflect.ValueOf(f).Pointer()).Name()
// Reflection is not interpreted in general (reflect.ValueOf reads the interface header through unsafe
// casts), but this one idiom has a precise meaning that the engine can give: the code pointer of a func
// value identifies the *function body*, not the func value — all closures made from one function literal
// and all method values of one method (whatever the receiver) share it. In go/ssa that is exactly the
// *ssa.Function of the closure (`T.m$bound` for method values). Modelled:
//   reflect.ValueOf(f)          f a non-nil func value: a reflect.Value {nil, unsafePtr{f}, flag=Func};
//                               nil interface: the zero Value; anything else: poisoned (as before, any use
//                               of it ends the path as unsupported)
//   (reflect.Value).Kind        the kind bits of the flag
//   (reflect.Value).Pointer     func values only: a stable non-zero number per *ssa.Function
//   runtime.FuncForPC(pc)       a non-nil *runtime.Func for numbers handed out by Pointer, nil otherwise
//   (*runtime.Func).Name        the ssa name of that function ("" for nil, as the real method)
// Natively two func values with the same code pointer likewise have the same name, so replays agree
// (callers must not let the compiler inline a closure factory: use method values or //go:noinline).

import (
	"sync"

	"golang.org/x/tools/go/ssa"
)

const reflectKindFunc = 19

var funcPC struct {
	sync.Mutex
	ids map[*ssa.Function]uint64
	fns []*ssa.Function
}

func funcPCOf(fn *ssa.Function) uint64 {
	funcPC.Lock()
	defer funcPC.Unlock()
	if funcPC.ids == nil {
		funcPC.ids = map[*ssa.Function]uint64{}
	}
	if id, ok := funcPC.ids[fn]; ok {
		return id
	}
	funcPC.fns = append(funcPC.fns, fn)
	id := uint64(0x400000 + 0x20*len(funcPC.fns))
	funcPC.ids[fn] = id
	return id
}

func funcOfPC(pc uint64) *ssa.Function {
	funcPC.Lock()
	defer funcPC.Unlock()
	if pc < 0x400020 || pc%0x20 != 0 {
		return nil
	}
	i := int((pc-0x400000)/0x20) - 1
	if i < 0 || i >= len(funcPC.fns) {
		return nil
	}
	return funcPC.fns[i]
}

// funcBody returns the function body of a func value (nil for nil func values / other values).
func funcBody(v value) (*ssa.Function, bool) {
	switch f := v.(type) {
	case *closure:
		if f == nil {
			return nil, true
		}
		return f.Fn, true
	case *ssa.Function:
		return f, true
	}
	return nil, false
}

func reflectFuncValue(a value) (value, bool) {
	s, ok := a.(structure)
	if !ok || len(s) != 3 {
		return nil, false
	}
	up, ok := s[1].(unsafePtr)
	if !ok {
		return nil, false
	}
	if _, isFn := funcBody(up.v); !isFn {
		return nil, false
	}
	return up.v, true
}

func init() {
	intrinsics["reflect.ValueOf"] = func(m *Machine, fn *ssa.Function, a []value) value {
		i, ok := a[0].(iface)
		if !ok {
			return poison{"result of reflect.ValueOf (reflection is not interpreted)"}
		}
		if i.t == nil {
			return zeroResult(m, fn, a)
		}
		if body, isFn := funcBody(i.v); isFn && body != nil {
			return structure{(*value)(nil), unsafePtr{i.v}, m.tt.Const(64, reflectKindFunc)}
		}
		return poison{"result of reflect.ValueOf of a non-func value (reflection is not interpreted)"}
	}
	intrinsics["(reflect.Value).Kind"] = func(m *Machine, fn *ssa.Function, a []value) value {
		s, ok := a[0].(structure)
		if !ok || len(s) != 3 {
			panic(unsupported{"reflect.Value.Kind of an uninterpreted reflect.Value"})
		}
		fl, ok := s[2].(*Term)
		if !ok || !fl.IsConst() {
			panic(unsupported{"reflect.Value.Kind of an uninterpreted reflect.Value"})
		}
		return m.tt.Const(64, fl.Val&31)
	}
	intrinsics["(reflect.Value).Pointer"] = func(m *Machine, fn *ssa.Function, a []value) value {
		fv, ok := reflectFuncValue(a[0])
		if !ok {
			panic(unsupported{"reflect.Value.Pointer of a non-func value"})
		}
		body, _ := funcBody(fv)
		if body == nil {
			return m.tt.Const(64, 0)
		}
		return m.tt.Const(64, funcPCOf(body))
	}
	intrinsics["runtime.FuncForPC"] = func(m *Machine, fn *ssa.Function, a []value) value {
		pc, ok := a[0].(*Term)
		if !ok || !pc.IsConst() {
			return zeroResult(m, fn, a)
		}
		body := funcOfPC(pc.Val)
		if body == nil {
			return zeroResult(m, fn, a)
		}
		cell := new(value)
		*cell = structure{Str{S: body.String()}}
		return cell
	}
	intrinsics["(*runtime.Func).Name"] = func(m *Machine, fn *ssa.Function, a []value) value {
		p, ok := a[0].(*value)
		if !ok || p == nil {
			return Str{}
		}
		if s, ok := (*p).(structure); ok && len(s) == 1 {
			if name, ok := s[0].(Str); ok {
				return name
			}
		}
		return Str{}
	}
}
