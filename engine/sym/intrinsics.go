package sym

import (
	"fmt"
	"go/types"
	"os"
	"strings"

	"golang.org/x/tools/go/ssa"
)

type intrinsic func(m *Machine, fn *ssa.Function, args []value) value

const vrtPath = "github.com/bfenetworks/bfe/zz_vrt"

var intrinsics map[string]intrinsic

func init() {
	intrinsics = map[string]intrinsic{}
	for k, v := range baseIntrinsics {
		intrinsics[k] = v
	}
}

// skipPkgs: every function of these packages is a no-op returning zero values (logging).
var skipPkgs = map[string]bool{
	"github.com/baidu/go-lib/log":        true,
	"github.com/baidu/go-lib/log/log4go": true,
	"log":                                true,
}

func (m *Machine) lookupIntrinsic(fn *ssa.Function, name string) intrinsic {
	if h, ok := intrinsics[name]; ok {
		return h
	}
	if fn.Pkg != nil {
		p := fn.Pkg.Pkg.Path()
		if skipPkgs[p] {
			return zeroResult
		}
		if p == vrtPath {
			if h, ok := vrtIntrinsics[fn.Name()]; ok {
				return h
			}
			if fn.Name() == "init" {
				return zeroResult
			}
			panic("unknown vrt function " + fn.Name())
		}
	} else if fn.Signature.Recv() != nil {
		// methods of types from skipped packages (wrappers have no Pkg)
		if n, ok := derefNamed(fn.Signature.Recv().Type()); ok && n.Obj().Pkg() != nil && skipPkgs[n.Obj().Pkg().Path()] {
			return zeroResult
		}
	}
	return nil
}

func derefNamed(t types.Type) (*types.Named, bool) {
	if p, ok := t.(*types.Pointer); ok {
		t = p.Elem()
	}
	n, ok := t.(*types.Named)
	return n, ok
}

func zeroResult(m *Machine, fn *ssa.Function, args []value) value {
	res := fn.Signature.Results()
	switch res.Len() {
	case 0:
		return nil
	case 1:
		return m.zero(res.At(0).Type())
	}
	return m.zero(res)
}

func (m *Machine) fresh(label string, w int) *Term {
	label = sanitize(label)
	k := m.nondetN[label]
	m.nondetN[label] = k + 1
	return m.tt.Var(fmt.Sprintf("v_%s_%d", label, k), w)
}

func sanitize(s string) string {
	var sb strings.Builder
	for _, c := range s {
		if c >= 'a' && c <= 'z' || c >= 'A' && c <= 'Z' || c >= '0' && c <= '9' || c == '_' {
			sb.WriteRune(c)
		} else {
			sb.WriteByte('_')
		}
	}
	return sb.String()
}

func cstr(v value) string {
	s, ok := v.(Str).Concrete()
	if !ok {
		panic("vrt label must be concrete")
	}
	return s
}

func (m *Machine) mkErr(msg string) value {
	// *errors.errorString{s}
	p := m.prog.ImportedPackage("errors")
	if p == nil {
		panic(unsupported{"errors package not loaded"})
	}
	t := p.Type("errorString").Type()
	cell := new(value)
	*cell = structure{Str{S: msg}}
	return iface{t: types.NewPointer(t), v: cell}
}

func (m *Machine) sliceOfBytes(ts []*Term) []value {
	r := make([]value, len(ts))
	for i, t := range ts {
		r[i] = t
	}
	return r
}

func (m *Machine) bytesOf(v value) []*Term {
	v = m.resolveSlice(v)
	switch v := v.(type) {
	case Str:
		return m.strBytes(v)
	case []value:
		r := make([]*Term, len(v))
		for i := range v {
			r[i] = v[i].(*Term)
		}
		return r
	}
	panic(fmt.Sprintf("bytesOf %T", v))
}

func (m *Machine) i64(v int) *Term { return m.tt.Const(64, uint64(int64(v))) }

// indexOf returns the first index i with pred(i) else -1, as a term.
func (m *Machine) firstIndex(n int, pred func(i int) *Term) *Term {
	res := m.i64(-1)
	for i := n - 1; i >= 0; i-- {
		res = m.tt.Ite(pred(i), m.i64(i), res)
	}
	return res
}

func (m *Machine) lastIndex(n int, pred func(i int) *Term) *Term {
	res := m.i64(-1)
	for i := 0; i < n; i++ {
		res = m.tt.Ite(pred(i), m.i64(i), res)
	}
	return res
}

func (m *Machine) indexSub(s, sub []*Term) *Term {
	if len(sub) > len(s) {
		return m.i64(-1)
	}
	return m.firstIndex(len(s)-len(sub)+1, func(i int) *Term {
		r := m.tt.True
		for j := range sub {
			r = m.tt.And(r, m.tt.Eq(s[i+j], sub[j]))
		}
		return r
	})
}

func (m *Machine) lastIndexSub(s, sub []*Term) *Term {
	if len(sub) > len(s) {
		return m.i64(-1)
	}
	return m.lastIndex(len(s)-len(sub)+1, func(i int) *Term {
		r := m.tt.True
		for j := range sub {
			r = m.tt.And(r, m.tt.Eq(s[i+j], sub[j]))
		}
		return r
	})
}

func (m *Machine) compareBytes(a, b []*Term) *Term {
	n := len(a)
	if len(b) < n {
		n = len(b)
	}
	var res *Term
	switch {
	case len(a) < len(b):
		res = m.i64(-1)
	case len(a) > len(b):
		res = m.i64(1)
	default:
		res = m.i64(0)
	}
	for i := n - 1; i >= 0; i-- {
		res = m.tt.Ite(m.tt.Eq(a[i], b[i]), res, m.tt.Ite(m.tt.Cmp("bvult", a[i], b[i]), m.i64(-1), m.i64(1)))
	}
	return res
}

func (m *Machine) equalBytes(a, b []*Term) *Term {
	if len(a) != len(b) {
		return m.tt.False
	}
	r := m.tt.True
	for i := range a {
		r = m.tt.And(r, m.tt.Eq(a[i], b[i]))
	}
	return r
}

func (m *Machine) asciiMap(s Str, f func(b *Term) *Term) value {
	if c, ok := s.Concrete(); ok {
		_ = c
		return nil
	}
	all := m.tt.True
	for _, b := range s.B {
		all = m.tt.And(all, m.tt.Cmp("bvult", b, m.tt.Const(8, 0x80)))
	}
	if m.spec > 0 && !all.IsTrue() {
		panic(mergeAbort{})
	}
	if !m.branch(all) {
		panic(unsupported{"case mapping of symbolic non-ASCII string"})
	}
	r := make([]*Term, len(s.B))
	for i, b := range s.B {
		r[i] = f(b)
	}
	return m.strNorm(Str{B: r})
}

func (m *Machine) lowerByte(b *Term) *Term {
	isUp := m.tt.And(m.tt.Cmp("bvuge", b, m.tt.Const(8, 'A')), m.tt.Cmp("bvule", b, m.tt.Const(8, 'Z')))
	return m.tt.Ite(isUp, m.tt.Bin("bvadd", b, m.tt.Const(8, 32)), b)
}

func (m *Machine) upperByte(b *Term) *Term {
	isLo := m.tt.And(m.tt.Cmp("bvuge", b, m.tt.Const(8, 'a')), m.tt.Cmp("bvule", b, m.tt.Const(8, 'z')))
	return m.tt.Ite(isLo, m.tt.Bin("bvsub", b, m.tt.Const(8, 32)), b)
}

// atomics operate on cells
func atomicCell(v value) *value {
	switch p := v.(type) {
	case *PtrSet:
		panic(unsupported{"atomic operation through a symbolic pointer"})
	case *value:
		return p
	case unsafePtr:
		return p.v.(*value)
	}
	panic(fmt.Sprintf("atomic on %T", v))
}

func (m *Machine) nowNs() *Term {
	lo := m.tt.Const(64, 0)
	if m.timeBase != nil {
		lo = m.timeBase
	}
	// harness parameter CLOCK_BITS=b (optional) narrows the clock to [0,2^b) ns: a stated bound that
	// keeps difference constraints over many instants cheap for the bit-vector solver. The instant is
	// the zero-extension of a b-bit variable, so the upper bits are syntactically zero.
	if b, ok := m.cfg.Params["CLOCK_BITS"]; ok && b > 0 && b < 61 {
		t := m.tt.ZExt(m.tt.Var(fmt.Sprintf("v_time%d_%d", b, m.timeN), b), 64)
		m.timeN++
		m.addPC(m.tt.Cmp("bvule", lo, t))
		m.timeBase = t
		m.stats.Assumes[fmt.Sprintf("time.Now: instants are non-decreasing, in [0,2^%d) ns (CLOCK_BITS)", b)]++
		return t
	}
	t := m.tt.Var(fmt.Sprintf("v_time_%d", m.timeN), 64)
	m.timeN++
	m.addPC(m.tt.Cmp("bvsle", lo, t))
	m.addPC(m.tt.Cmp("bvslt", t, m.tt.Const(64, 1<<61)))
	m.timeBase = t
	m.stats.Assumes["time.Now: instants are non-decreasing, in [0,2^61) ns"]++
	return t
}

const hasMonotonic = 1 << 63

var baseIntrinsics = map[string]intrinsic{
	// ----- bytealg / strings / bytes -----
	"internal/bytealg.IndexByte": func(m *Machine, fn *ssa.Function, a []value) value {
		s := m.bytesOf(a[0])
		c := a[1].(*Term)
		return m.firstIndex(len(s), func(i int) *Term { return m.tt.Eq(s[i], c) })
	},
	"internal/bytealg.IndexByteString": func(m *Machine, fn *ssa.Function, a []value) value {
		s := m.bytesOf(a[0])
		c := a[1].(*Term)
		return m.firstIndex(len(s), func(i int) *Term { return m.tt.Eq(s[i], c) })
	},
	"internal/bytealg.LastIndexByte": func(m *Machine, fn *ssa.Function, a []value) value {
		s := m.bytesOf(a[0])
		c := a[1].(*Term)
		return m.lastIndex(len(s), func(i int) *Term { return m.tt.Eq(s[i], c) })
	},
	"internal/bytealg.LastIndexByteString": func(m *Machine, fn *ssa.Function, a []value) value {
		s := m.bytesOf(a[0])
		c := a[1].(*Term)
		return m.lastIndex(len(s), func(i int) *Term { return m.tt.Eq(s[i], c) })
	},
	"internal/bytealg.Count": func(m *Machine, fn *ssa.Function, a []value) value {
		s := m.bytesOf(a[0])
		c := a[1].(*Term)
		r := m.i64(0)
		for i := range s {
			r = m.tt.Bin("bvadd", r, m.tt.Ite(m.tt.Eq(s[i], c), m.i64(1), m.i64(0)))
		}
		return r
	},
	"internal/bytealg.CountString": func(m *Machine, fn *ssa.Function, a []value) value {
		s := m.bytesOf(a[0])
		c := a[1].(*Term)
		r := m.i64(0)
		for i := range s {
			r = m.tt.Bin("bvadd", r, m.tt.Ite(m.tt.Eq(s[i], c), m.i64(1), m.i64(0)))
		}
		return r
	},
	"internal/bytealg.Equal": func(m *Machine, fn *ssa.Function, a []value) value {
		return m.equalBytes(m.bytesOf(a[0]), m.bytesOf(a[1]))
	},
	"bytes.Equal": func(m *Machine, fn *ssa.Function, a []value) value {
		return m.equalBytes(m.bytesOf(a[0]), m.bytesOf(a[1]))
	},
	"internal/bytealg.Compare": func(m *Machine, fn *ssa.Function, a []value) value {
		return m.compareBytes(m.bytesOf(a[0]), m.bytesOf(a[1]))
	},
	"bytes.Compare": func(m *Machine, fn *ssa.Function, a []value) value {
		return m.compareBytes(m.bytesOf(a[0]), m.bytesOf(a[1]))
	},
	"strings.Compare": func(m *Machine, fn *ssa.Function, a []value) value {
		return m.compareBytes(m.bytesOf(a[0]), m.bytesOf(a[1]))
	},
	"internal/bytealg.CompareString": func(m *Machine, fn *ssa.Function, a []value) value {
		return m.compareBytes(m.bytesOf(a[0]), m.bytesOf(a[1]))
	},
	"internal/bytealg.Index": func(m *Machine, fn *ssa.Function, a []value) value {
		return m.indexSub(m.bytesOf(a[0]), m.bytesOf(a[1]))
	},
	"internal/bytealg.IndexString": func(m *Machine, fn *ssa.Function, a []value) value {
		return m.indexSub(m.bytesOf(a[0]), m.bytesOf(a[1]))
	},
	"strings.Index": func(m *Machine, fn *ssa.Function, a []value) value {
		return m.indexSub(m.bytesOf(a[0]), m.bytesOf(a[1]))
	},
	"internal/stringslite.Index": func(m *Machine, fn *ssa.Function, a []value) value {
		return m.indexSub(m.bytesOf(a[0]), m.bytesOf(a[1]))
	},
	"bytes.Index": func(m *Machine, fn *ssa.Function, a []value) value {
		return m.indexSub(m.bytesOf(a[0]), m.bytesOf(a[1]))
	},
	"strings.LastIndex": func(m *Machine, fn *ssa.Function, a []value) value {
		return m.lastIndexSub(m.bytesOf(a[0]), m.bytesOf(a[1]))
	},
	"bytes.LastIndex": func(m *Machine, fn *ssa.Function, a []value) value {
		return m.lastIndexSub(m.bytesOf(a[0]), m.bytesOf(a[1]))
	},
	"internal/bytealg.MakeNoZero": func(m *Machine, fn *ssa.Function, a []value) value {
		n := m.concInt(a[0])
		r := make([]value, n)
		for i := range r {
			r[i] = m.tt.Const(8, 0)
		}
		return r
	},
	"strings.ToLower": func(m *Machine, fn *ssa.Function, a []value) value {
		s := a[0].(Str)
		if c, ok := s.Concrete(); ok {
			return Str{S: strings.ToLower(c)}
		}
		return m.asciiMap(s, m.lowerByte)
	},
	"strings.ToUpper": func(m *Machine, fn *ssa.Function, a []value) value {
		s := a[0].(Str)
		if c, ok := s.Concrete(); ok {
			return Str{S: strings.ToUpper(c)}
		}
		return m.asciiMap(s, m.upperByte)
	},
	"strings.EqualFold": func(m *Machine, fn *ssa.Function, a []value) value {
		s, t := a[0].(Str), a[1].(Str)
		if cs, ok := s.Concrete(); ok {
			if ct, ok := t.Concrete(); ok {
				return m.tt.Bool(strings.EqualFold(cs, ct))
			}
		}
		// ASCII only
		all := m.tt.True
		for _, b := range append(m.strBytes(s), m.strBytes(t)...) {
			all = m.tt.And(all, m.tt.Cmp("bvult", b, m.tt.Const(8, 0x80)))
		}
		if m.spec > 0 && !all.IsTrue() {
			panic(mergeAbort{})
		}
		if !m.branch(all) {
			panic(unsupported{"EqualFold of symbolic non-ASCII string"})
		}
		if s.Len() != t.Len() {
			return m.tt.False
		}
		r := m.tt.True
		for i := 0; i < s.Len(); i++ {
			r = m.tt.And(r, m.tt.Eq(m.lowerByte(m.strByte(s, i)), m.lowerByte(m.strByte(t, i))))
		}
		return r
	},
	"(*strings.Builder).String": func(m *Machine, fn *ssa.Function, a []value) value {
		b := a[0].(*value)
		buf := (*b).(structure)[1].([]value)
		if len(buf) == 0 {
			return Str{}
		}
		r := make([]*Term, len(buf))
		for i := range buf {
			r[i] = buf[i].(*Term)
		}
		return m.strNorm(Str{B: r})
	},
	"(*strings.Builder).copyCheck": func(m *Machine, fn *ssa.Function, a []value) value { return nil },
	"strings.Clone":                func(m *Machine, fn *ssa.Function, a []value) value { return a[0] },
	"internal/stringslite.Clone":   func(m *Machine, fn *ssa.Function, a []value) value { return a[0] },
	"unique.Make":                  nil,

	// ----- runtime / sync -----
	"runtime.KeepAlive":       func(m *Machine, fn *ssa.Function, a []value) value { return nil },
	"runtime.GC":              func(m *Machine, fn *ssa.Function, a []value) value { return nil },
	"runtime.Gosched":         func(m *Machine, fn *ssa.Function, a []value) value { return nil },
	"runtime.SetFinalizer":    func(m *Machine, fn *ssa.Function, a []value) value { return nil },
	"runtime.GOMAXPROCS":      func(m *Machine, fn *ssa.Function, a []value) value { return m.i64(1) },
	"runtime.NumCPU":          func(m *Machine, fn *ssa.Function, a []value) value { return m.i64(1) },
	"runtime.Stack":           func(m *Machine, fn *ssa.Function, a []value) value { return m.i64(0) },
	"runtime/debug.Stack":     func(m *Machine, fn *ssa.Function, a []value) value { return []value(nil) },
	"runtime.Caller":          zeroResult,
	"runtime.Callers":         zeroResult,
	"runtime.FuncForPC":       zeroResult,
	"internal/race.Acquire":   zeroResult,
	"internal/race.Release":   zeroResult,
	"internal/race.Read":      zeroResult,
	"internal/race.Write":     zeroResult,
	"internal/race.Enable":    zeroResult,
	"internal/race.Disable":   zeroResult,
	"sync.runtime_registerPoolCleanup": zeroResult,
	"sync.runtime_procPin":             func(m *Machine, fn *ssa.Function, a []value) value { return m.i64(0) },
	"sync.runtime_procUnpin":           zeroResult,
	"sync.fatal": func(m *Machine, fn *ssa.Function, a []value) value {
		panic(goPanic{m.mkRuntimeErrorPlain("fatal error: " + cstr(a[0]))})
	},
	"sync.throw": func(m *Machine, fn *ssa.Function, a []value) value {
		panic(goPanic{m.mkRuntimeErrorPlain("fatal error: " + cstr(a[0]))})
	},
	"(*sync.Mutex).lockSlow": func(m *Machine, fn *ssa.Function, a []value) value {
		panic(pathEnd{"blocked", "sync.Mutex.Lock on a locked mutex"})
	},
	"(*sync.RWMutex).rUnlockSlow": nil,
	"sync.runtime_SemacquireMutex": func(m *Machine, fn *ssa.Function, a []value) value {
		panic(pathEnd{"blocked", "semacquire"})
	},
	"sync.runtime_SemacquireRWMutexR": func(m *Machine, fn *ssa.Function, a []value) value {
		panic(pathEnd{"blocked", "RWMutex.RLock while write-locked"})
	},
	"sync.runtime_SemacquireRWMutex": func(m *Machine, fn *ssa.Function, a []value) value {
		panic(pathEnd{"blocked", "RWMutex.Lock while read-locked"})
	},
	"sync.runtime_Semacquire": func(m *Machine, fn *ssa.Function, a []value) value {
		panic(pathEnd{"blocked", "semacquire (WaitGroup.Wait?)"})
	},
	"sync.runtime_Semrelease": zeroResult,
	"(*sync.Cond).Wait": func(m *Machine, fn *ssa.Function, a []value) value {
		panic(pathEnd{"blocked", "sync.Cond.Wait"})
	},
	"(*sync.Cond).Signal":    zeroResult,
	"(*sync.Cond).Broadcast": zeroResult,
	"(*sync.Pool).Get": func(m *Machine, fn *ssa.Function, a []value) value {
		// always miss: call New if set
		p := a[0].(*value)
		st := (*p).(structure)
		newf := st[len(st)-1]
		if f, ok := newf.(*ssa.Function); ok && f == nil {
			return iface{}
		}
		return m.callValue(newf, nil, nil)
	},
	"(*sync.Pool).Put": zeroResult,

	"os.Exit": func(m *Machine, fn *ssa.Function, a []value) value {
		panic(pathEnd{"exit", "os.Exit"})
	},
	"os.Getenv":    func(m *Machine, fn *ssa.Function, a []value) value { return Str{} },
	"os.Getpid":    func(m *Machine, fn *ssa.Function, a []value) value { return m.i64(4242) },
	"os.Hostname":  func(m *Machine, fn *ssa.Function, a []value) value { return tuple{Str{S: "host"}, iface{}} },
	"time.Sleep":   zeroResult,
	"time.Now": func(m *Machine, fn *ssa.Function, a []value) value {
		t := m.nowNs()
		return structure{m.tt.Const(64, hasMonotonic), t, (*value)(nil)}
	},
	"time.Since": func(m *Machine, fn *ssa.Function, a []value) value {
		t := m.nowNs()
		st := a[0].(structure)
		return m.tt.Bin("bvsub", t, st[1].(*Term))
	},
	"time.Until": func(m *Machine, fn *ssa.Function, a []value) value {
		t := m.nowNs()
		st := a[0].(structure)
		return m.tt.Bin("bvsub", st[1].(*Term), t)
	},
	"(time.Time).UnixNano": func(m *Machine, fn *ssa.Function, a []value) value {
		st := a[0].(structure)
		w := st[0].(*Term)
		if w.IsConst() && w.Val == hasMonotonic {
			return st[1]
		}
		panic(unsupported{"UnixNano on non-stub time"})
	},
	"time.runtimeNano": func(m *Machine, fn *ssa.Function, a []value) value {
		if !m.initDone {
			return m.i64(1)
		}
		return m.nowNs()
	},
	"time.now": func(m *Machine, fn *ssa.Function, a []value) value {
		panic(unsupported{"time.now"})
	},

	// ----- math/rand -----
	"math/rand.Intn": func(m *Machine, fn *ssa.Function, a []value) value {
		n := a[0].(*Term)
		r := m.fresh("rand", 64)
		m.addPC(m.tt.Cmp("bvsle", m.i64(0), r))
		m.addPC(m.tt.Cmp("bvslt", r, n))
		m.stats.Assumes["rand.Intn(n) in [0,n)"]++
		return r
	},
	"math/rand.Int63": func(m *Machine, fn *ssa.Function, a []value) value {
		r := m.fresh("rand", 64)
		m.addPC(m.tt.Cmp("bvsle", m.i64(0), r))
		return r
	},
	"math/rand.Int": func(m *Machine, fn *ssa.Function, a []value) value {
		r := m.fresh("rand", 64)
		m.addPC(m.tt.Cmp("bvsle", m.i64(0), r))
		return r
	},
	"math/rand.Uint64": func(m *Machine, fn *ssa.Function, a []value) value { return m.fresh("rand", 64) },
	"math/rand.Uint32": func(m *Machine, fn *ssa.Function, a []value) value { return m.fresh("rand", 32) },
	"math/rand.Seed":   zeroResult,

	// ----- errors / fmt -----
	"fmt.Errorf": func(m *Machine, fn *ssa.Function, a []value) value {
		f, _ := a[0].(Str).Concrete()
		return m.mkErr("fmt.Errorf: " + f)
	},
	"fmt.Sprintf": func(m *Machine, fn *ssa.Function, a []value) value {
		return m.sprintf(a[0].(Str), a[1].([]value))
	},
	"fmt.Sprint": func(m *Machine, fn *ssa.Function, a []value) value {
		args := a[0].([]value)
		var r Str
		for _, x := range args {
			r = m.strConcat(r, m.fmtValue(x.(iface), 'v'))
		}
		return r
	},
	"fmt.Fprintf": func(m *Machine, fn *ssa.Function, a []value) value {
		m.strictFmt++
		s := m.sprintf(a[1].(Str), a[2].([]value)).(Str)
		m.strictFmt--
		return m.writeTo(a[0].(iface), s)
	},
	"fmt.Fprintln": func(m *Machine, fn *ssa.Function, a []value) value {
		m.strictFmt++
		var r Str
		for i, x := range a[1].([]value) {
			if i > 0 {
				r = m.strConcat(r, Str{S: " "})
			}
			r = m.strConcat(r, m.fmtValue(x.(iface), 'v'))
		}
		m.strictFmt--
		return m.writeTo(a[0].(iface), m.strConcat(r, Str{S: "\n"}))
	},
	"fmt.Fprint": func(m *Machine, fn *ssa.Function, a []value) value {
		m.strictFmt++
		var r Str
		for _, x := range a[1].([]value) {
			r = m.strConcat(r, m.fmtValue(x.(iface), 'v'))
		}
		m.strictFmt--
		return m.writeTo(a[0].(iface), r)
	},
	"fmt.Printf":   func(m *Machine, fn *ssa.Function, a []value) value { return tuple{m.i64(0), iface{}} },
	"fmt.Println":  func(m *Machine, fn *ssa.Function, a []value) value { return tuple{m.i64(0), iface{}} },
	"fmt.Print":    func(m *Machine, fn *ssa.Function, a []value) value { return tuple{m.i64(0), iface{}} },

	// ----- sync/atomic -----
	"sync/atomic.LoadInt32":   atomicLoad,
	"sync/atomic.LoadInt64":   atomicLoad,
	"sync/atomic.LoadUint32":  atomicLoad,
	"sync/atomic.LoadUint64":  atomicLoad,
	"sync/atomic.LoadUintptr": atomicLoad,
	"sync/atomic.LoadPointer": atomicLoad,
	"sync/atomic.StoreInt32":  atomicStore,
	"sync/atomic.StoreInt64":  atomicStore,
	"sync/atomic.StoreUint32": atomicStore,
	"sync/atomic.StoreUint64": atomicStore,
	"sync/atomic.StoreUintptr": atomicStore,
	"sync/atomic.StorePointer": atomicStore,
	"sync/atomic.AddInt32":    atomicAdd,
	"sync/atomic.AddInt64":    atomicAdd,
	"sync/atomic.AddUint32":   atomicAdd,
	"sync/atomic.AddUint64":   atomicAdd,
	"sync/atomic.AddUintptr":  atomicAdd,
	"sync/atomic.SwapInt32":   atomicSwap,
	"sync/atomic.SwapInt64":   atomicSwap,
	"sync/atomic.SwapUint32":  atomicSwap,
	"sync/atomic.SwapUint64":  atomicSwap,
	"sync/atomic.SwapPointer": atomicSwap,
	"sync/atomic.CompareAndSwapInt32":   atomicCAS,
	"sync/atomic.CompareAndSwapInt64":   atomicCAS,
	"sync/atomic.CompareAndSwapUint32":  atomicCAS,
	"sync/atomic.CompareAndSwapUint64":  atomicCAS,
	"sync/atomic.CompareAndSwapUintptr": atomicCAS,
	"sync/atomic.CompareAndSwapPointer": atomicCAS,

	// ----- sort -----
	"sort.Slice":       sortSlice,
	"sort.SliceStable": sortSlice,

	// ----- math/bits -----
	"math/bits.Mul64": func(m *Machine, fn *ssa.Function, a []value) value {
		x, y := m.tt.ZExt(a[0].(*Term), 128), m.tt.ZExt(a[1].(*Term), 128)
		p := m.tt.Bin("bvmul", x, y)
		return tuple{m.tt.Extract(p, 127, 64), m.tt.Extract(p, 63, 0)}
	},
	"math/bits.Add64": func(m *Machine, fn *ssa.Function, a []value) value {
		x, y, c := m.tt.ZExt(a[0].(*Term), 65), m.tt.ZExt(a[1].(*Term), 65), m.tt.ZExt(a[2].(*Term), 65)
		s := m.tt.Bin("bvadd", m.tt.Bin("bvadd", x, y), c)
		return tuple{m.tt.Extract(s, 63, 0), m.tt.ZExt(m.tt.Extract(s, 64, 64), 64)}
	},
}

func init() {
	for k, v := range baseIntrinsics {
		if v == nil {
			delete(baseIntrinsics, k)
		}
	}
}

func atomicPtr(a value) value {
	if up, ok := a.(unsafePtr); ok {
		return up.v
	}
	return a
}
func atomicLoad(m *Machine, fn *ssa.Function, a []value) value { return m.loadFrom(atomicPtr(a[0])) }
func atomicStore(m *Machine, fn *ssa.Function, a []value) value {
	m.storePtr(atomicPtr(a[0]), a[1])
	return nil
}
func atomicAdd(m *Machine, fn *ssa.Function, a []value) value {
	p := atomicPtr(a[0])
	n := m.tt.Bin("bvadd", m.loadFrom(p).(*Term), a[1].(*Term))
	m.storePtr(p, n)
	return n
}
func atomicSwap(m *Machine, fn *ssa.Function, a []value) value {
	p := atomicPtr(a[0])
	old := m.loadFrom(p)
	m.storePtr(p, a[1])
	return old
}
func atomicCAS(m *Machine, fn *ssa.Function, a []value) value {
	p := atomicPtr(a[0])
	cur := m.loadFrom(p)
	switch c := cur.(type) {
	case *Term:
		eq := m.tt.Eq(c, a[1].(*Term))
		m.storePtr(p, m.tt.Ite(eq, a[2].(*Term), c))
		return eq
	case unsafePtr:
		o := a[1].(unsafePtr)
		cp, _ := c.v.(*value)
		op, _ := o.v.(*value)
		if cp == op {
			m.storePtr(p, a[2])
			return m.tt.True
		}
		return m.tt.False
	}
	panic(unsupported{"CAS on " + fmt.Sprintf("%T", cur)})
}

// sortSlice: insertion sort driven by the less closure (stable).
func sortSlice(m *Machine, fn *ssa.Function, a []value) value {
	s := a[0].(iface).v.([]value)
	less := a[1]
	for i := 1; i < len(s); i++ {
		for j := i; j > 0; j-- {
			r := m.callValue(less, []value{m.i64(j), m.i64(j - 1)}, nil).(*Term)
			if !m.branch(r) {
				break
			}
			x, y := copyVal(s[j]), copyVal(s[j-1])
			m.store(&s[j], y)
			m.store(&s[j-1], x)
		}
	}
	return nil
}

// writeTo calls w.Write([]byte(s)) through the interface.
func (m *Machine) writeTo(w iface, s Str) value {
	if w.t == nil {
		panic(goPanic{m.mkRuntimeError("invalid memory address or nil pointer dereference")})
	}
	sel := m.prog.MethodSets.MethodSet(w.t).Lookup(nil, "Write")
	if sel == nil {
		panic(unsupported{"writer without Write"})
	}
	return m.call(m.prog.MethodValue(sel), []value{w.v, m.sliceOfBytes(m.strBytes(s))}, nil)
}

// ---------- minimal fmt ----------

func (m *Machine) sprintf(format Str, args []value) value {
	f, ok := format.Concrete()
	if !ok {
		panic(unsupported{"symbolic format"})
	}
	var out Str
	ai := 0
	for i := 0; i < len(f); i++ {
		c := f[i]
		if c != '%' {
			out = m.strConcat(out, Str{S: string(c)})
			continue
		}
		i++
		if i >= len(f) {
			break
		}
		// skip flags/width
		for i < len(f) && strings.IndexByte("+-# 0123456789.", f[i]) >= 0 {
			i++
		}
		if i >= len(f) {
			break
		}
		verb := f[i]
		if verb == '%' {
			out = m.strConcat(out, Str{S: "%"})
			continue
		}
		if ai >= len(args) {
			out = m.strConcat(out, Str{S: "%!" + string(verb) + "(MISSING)"})
			continue
		}
		out = m.strConcat(out, m.fmtValue(args[ai].(iface), verb))
		ai++
	}
	return out
}

func (m *Machine) fmtValue(x iface, verb byte) Str {
	if x.t == nil {
		return Str{S: "<nil>"}
	}
	switch v := x.v.(type) {
	case Str:
		if verb == 'q' {
			if c, ok := v.Concrete(); ok {
				return Str{S: fmt.Sprintf("%q", c)}
			}
			return m.strConcat(m.strConcat(Str{S: "\""}, v), Str{S: "\""})
		}
		return v
	case *Term:
		if v.W == 0 {
			if v.IsConst() {
				return Str{S: fmt.Sprint(v.Val == 1)}
			}
			return Str{S: "<symbolic bool>"}
		}
		if v.IsConst() {
			var n interface{}
			if isSigned(x.t) {
				n = v.SVal()
			} else {
				n = v.Val
			}
			switch verb {
			case 'x':
				return Str{S: fmt.Sprintf("%x", n)}
			case 'X':
				return Str{S: fmt.Sprintf("%X", n)}
			case 'c':
				return Str{S: fmt.Sprintf("%c", n)}
			case 'q':
				return Str{S: fmt.Sprintf("%q", n)}
			case 'b':
				return Str{S: fmt.Sprintf("%b", n)}
			case 'o':
				return Str{S: fmt.Sprintf("%o", n)}
			}
			return Str{S: fmt.Sprint(n)}
		}
		if m.strictFmt > 0 {
			panic(unsupported{"formatting a symbolic integer into an io.Writer"})
		}
		m.stats.Assumes["fmt.Sprintf of a symbolic integer yields an opaque placeholder (message text only)"]++
		return Str{S: "<symbolic int>"}
	case float64:
		return Str{S: fmt.Sprint(v)}
	case []value:
		if b, ok := x.t.Underlying().(*types.Slice); ok {
			if e, ok := b.Elem().Underlying().(*types.Basic); ok && e.Kind() == types.Uint8 && (verb == 's' || verb == 'q') {
				return m.conv(types.Typ[types.String], x.t, v).(Str)
			}
		}
	}
	// error / Stringer
	if verb == 'v' || verb == 's' {
		for _, name := range []string{"Error", "String"} {
			ms := m.prog.MethodSets.MethodSet(x.t)
			if sel := ms.Lookup(nil, name); sel != nil {
				if f := m.prog.MethodValue(sel); f != nil && f.Signature.Params().Len() == 0 && f.Signature.Results().Len() == 1 && isString(f.Signature.Results().At(0).Type()) {
					if p, ok := x.v.(*value); ok && p == nil {
						return Str{S: "<nil>"}
					}
					return m.call(f, []value{x.v}, nil).(Str)
				}
			}
		}
	}
	return Str{S: "<" + x.t.String() + ">"}
}

var _ = os.Exit
