package sym

// Package net's init is not run (OS effects: sysInit, resolver configuration, ...), which would leave
// its pure address constants as nil slices: net.IPv6zero / IPv4zero would then compare unequal to every
// 16-byte address and net.IPv4() would build addresses without the ::ffff: prefix — silently wrong, not
// `unsupported`. These globals are plain byte-slice literals in net/ip.go; they are set here to exactly
// those literals after the package initialisers ran.

func init() {
	postInit = append(postInit, setNetGlobals)
}

func v4in6(a, b, c, d byte) []byte {
	return []byte{0, 0, 0, 0, 0, 0, 0, 0, 0, 0, 0xff, 0xff, a, b, c, d}
}

func setNetGlobals(m *Machine) {
	pkg := m.prog.ImportedPackage("net")
	if pkg == nil {
		return
	}
	vals := map[string][]byte{
		"v4InV6Prefix":               {0, 0, 0, 0, 0, 0, 0, 0, 0, 0, 0xff, 0xff},
		"IPv4bcast":                  v4in6(255, 255, 255, 255),
		"IPv4allsys":                 v4in6(224, 0, 0, 1),
		"IPv4allrouter":              v4in6(224, 0, 0, 2),
		"IPv4zero":                   v4in6(0, 0, 0, 0),
		"classAMask":                 {0xff, 0, 0, 0},
		"classBMask":                 {0xff, 0xff, 0, 0},
		"classCMask":                 {0xff, 0xff, 0xff, 0},
		"IPv6zero":                   {0, 0, 0, 0, 0, 0, 0, 0, 0, 0, 0, 0, 0, 0, 0, 0},
		"IPv6unspecified":            {0, 0, 0, 0, 0, 0, 0, 0, 0, 0, 0, 0, 0, 0, 0, 0},
		"IPv6loopback":               {0, 0, 0, 0, 0, 0, 0, 0, 0, 0, 0, 0, 0, 0, 0, 1},
		"IPv6interfacelocalallnodes": {0xff, 0x01, 0, 0, 0, 0, 0, 0, 0, 0, 0, 0, 0, 0, 0, 0x01},
		"IPv6linklocalallnodes":      {0xff, 0x02, 0, 0, 0, 0, 0, 0, 0, 0, 0, 0, 0, 0, 0, 0x01},
		"IPv6linklocalallrouters":    {0xff, 0x02, 0, 0, 0, 0, 0, 0, 0, 0, 0, 0, 0, 0, 0, 0x02},
	}
	for name, bs := range vals {
		g := pkg.Var(name)
		if g == nil {
			continue
		}
		s := make([]value, len(bs))
		for i, b := range bs {
			s[i] = m.tt.Const(8, uint64(b))
		}
		m.store(m.globalAddr(g), s)
	}
}
