package sym

import (
	"strconv"

	"golang.org/x/tools/go/ssa"
)

// decByteStr renders an 8-bit term in decimal. The number of digits must be concrete, so a symbolic
// byte forks (at most three ways) on its magnitude.
func (m *Machine) decByteStr(b *Term) Str {
	if b.IsConst() {
		return Str{S: strconv.Itoa(int(b.Val))}
	}
	if m.spec > 0 {
		panic(mergeAbort{})
	}
	c := func(v uint64) *Term { return m.tt.Const(8, v) }
	digit := func(t *Term) *Term { return m.tt.Bin("bvadd", c('0'), t) }
	if m.branch(m.tt.Cmp("bvult", b, c(10))) {
		return Str{B: []*Term{digit(b)}}
	}
	ones := m.tt.Bin("bvurem", b, c(10))
	tens := m.tt.Bin("bvurem", m.tt.Bin("bvudiv", b, c(10)), c(10))
	if m.branch(m.tt.Cmp("bvult", b, c(100))) {
		return Str{B: []*Term{digit(tens), digit(ones)}}
	}
	return Str{B: []*Term{digit(m.tt.Bin("bvudiv", b, c(100))), digit(tens), digit(ones)}}
}

// Intrinsics refined for the HTTP/1 harnesses (C24–C29). The file name sorts last on purpose: the
// init functions of a package run in file-name order and this one wraps entries installed by the others.
func init() {
	// (net.IP).String of an IPv4 address (4-byte form, or 16-byte form with a concrete IPv4-mapped
	// prefix) whose four address bytes may be symbolic: dotted decimal built digit by digit.
	// Everything else goes to the previously installed model (concrete addresses only).
	baseIPString := intrinsics["(net.IP).String"]
	intrinsics["(net.IP).String"] = func(m *Machine, fn *ssa.Function, a []value) value {
		s, _ := a[0].([]value)
		var v4 []value
		switch len(s) {
		case 4:
			v4 = s
		case 16:
			mapped := true
			for i := 0; i < 12; i++ {
				t := s[i].(*Term)
				want := uint64(0)
				if i >= 10 {
					want = 0xff
				}
				if !t.IsConst() || t.Val != want {
					mapped = false
				}
			}
			if mapped {
				v4 = s[12:]
			}
		}
		symbolic := false
		for _, b := range v4 {
			if !b.(*Term).IsConst() {
				symbolic = true
			}
		}
		if !symbolic {
			return baseIPString(m, fn, a)
		}
		var r Str
		for i, b := range v4 {
			if i > 0 {
				r = m.strConcat(r, Str{S: "."})
			}
			r = m.strConcat(r, m.decByteStr(b.(*Term)))
		}
		return r
	}

	// strings.EqualFold(s, t) where one side is a concrete pure-ASCII string and both have the same byte
	// length is decided exactly without restricting the symbolic side to ASCII: every rune of the ASCII
	// side is one byte, so an equal-length other side containing any byte >= 0x80 has either an invalid
	// byte (decoded as U+FFFD, which folds to no ASCII rune) or a multi-byte rune (then it has fewer
	// runes than the ASCII side and EqualFold is false when one side runs out). Hence the result is
	// "every byte is ASCII and equal after ASCII lower-casing". Every other case goes to the base model.
	base := intrinsics["strings.EqualFold"]
	intrinsics["strings.EqualFold"] = func(m *Machine, fn *ssa.Function, a []value) value {
		s, t := a[0].(Str), a[1].(Str)
		if _, ok := s.Concrete(); ok {
			s, t = t, s
		}
		ct, ok := t.Concrete()
		if _, sc := s.Concrete(); !ok || sc || s.Len() != len(ct) {
			return base(m, fn, a)
		}
		for i := 0; i < len(ct); i++ {
			if ct[i] >= 0x80 {
				return base(m, fn, a)
			}
		}
		r := m.tt.True
		for i := 0; i < len(ct); i++ {
			b := m.strByte(s, i)
			r = m.tt.And(r, m.tt.Cmp("bvult", b, m.tt.Const(8, 0x80)))
			r = m.tt.And(r, m.tt.Eq(m.lowerByte(b), m.lowerByte(m.tt.Const(8, uint64(ct[i])))))
		}
		return r
	}
}
