package sym

import (
	"fmt"
	"testing"
	"unicode"
)

// Differential validation of the fmt.Sscanf model (intrinsics_cond.go) against the real fmt.Sscanf for
// the two formats bfe uses. Exhaustive over all byte strings of length <= 2 (and <= 3 unless -short),
// then over longer strings on an alphabet containing every byte class the model distinguishes.

// A width >= 1000 encodes the pair of widths (wid/1000, wid%1000): format %<w1>s%<w2>s.
func checkSscanfModel(t *testing.T, in []byte, wid int) bool {
	wid2 := 0
	format := fmt.Sprintf("%%%ds%%s", wid)
	if wid >= 1000 {
		wid, wid2 = wid/1000, wid%1000
		format = fmt.Sprintf("%%%ds%%%ds", wid, wid2)
	}
	if w1, w2, ok := parseSscanfFormat(format); !ok || w1 != wid || w2 != wid2 {
		t.Fatalf("parseSscanfFormat(%q) = %d, %d, %v", format, w1, w2, ok)
	}
	var a, b string
	n, err := fmt.Sscanf(string(in), format, &a, &b)
	out := sscanfWords(sscanfBytes(in), wid, wid2)
	ma, mb := "", ""
	if out.n >= 1 {
		ma = out.nativeWord(in, 0)
	}
	if out.n >= 2 {
		mb = out.nativeWord(in, 1)
	}
	errs := ""
	if err != nil {
		errs = err.Error()
	}
	if n != out.n || errs != out.err || a != ma || b != mb {
		t.Errorf("Sscanf(%q, %q): real n=%d err=%q a=%q b=%q; model n=%d err=%q a=%q b=%q", in, format, n, errs, a, b, out.n, out.err, ma, mb)
		return false
	}
	return true
}

func enumSscanf(t *testing.T, alphabet []byte, length int, wids []int) {
	buf := make([]byte, length)
	idx := make([]int, length)
	bad := 0
	for {
		for i := range buf {
			buf[i] = alphabet[idx[i]]
		}
		for _, w := range wids {
			if !checkSscanfModel(t, buf, w) {
				bad++
				if bad > 20 {
					t.Fatal("too many mismatches")
				}
			}
		}
		i := length - 1
		for i >= 0 {
			idx[i]++
			if idx[i] < len(alphabet) {
				break
			}
			idx[i] = 0
			i--
		}
		if i < 0 {
			return
		}
	}
}

func TestSscanfModel(t *testing.T) {
	all := make([]byte, 256)
	for i := range all {
		all[i] = byte(i)
	}
	wids := []int{6, 14, 1, 2, 6001, 14001, 1001, 2002, 1003}
	enumSscanf(t, all, 0, wids)
	enumSscanf(t, all, 1, wids)
	enumSscanf(t, all, 2, wids)
	if !testing.Short() {
		enumSscanf(t, all, 3, []int{6, 1, 6001, 1001})
	}
	// every byte class the decoder distinguishes, including all multi-byte white space encodings
	classes := []byte{' ', '\n', '\r', '\t', 'a', '7', 'Z', 0x00, 0x7f, 0x80, 0x85, 0x8a, 0x9a, 0x9f, 0xa0, 0xa8, 0xaf, 0xbf,
		0xc2, 0xc3, 0xe0, 0xe1, 0xe2, 0xe3, 0xed, 0xef, 0xf0, 0xf4, 0xf5, 0xff, 0x81, 0x90}
	enumSscanf(t, classes, 4, []int{6, 2, 2001, 1002})
	small := []byte{' ', '\n', '\r', 'a', '1', 0xc2, 0x85, 0xe2, 0x80, 0xff}
	enumSscanf(t, small, 5, []int{6, 14, 2, 2001, 2002})
	enumSscanf(t, small, 6, []int{6, 2, 2001, 3002})
	tiny := []byte{' ', 'a', '\n', 0xc2, 0xa0}
	for l := 7; l <= 9; l++ {
		enumSscanf(t, tiny, l, []int{6, 14, 6001, 6002})
	}
	two := []byte{' ', 'x'}
	for l := 10; l <= 17; l++ {
		enumSscanf(t, two, l, []int{6, 14, 6001, 14001, 14002})
	}
	for _, f := range []string{"%s%s", "%6s", "%6s%", "%6s%s%s", "%6d%1s", "%6s%0s", "%6s%1d", "%6s %1s", "%-6s%1s", "6s%1s", "%6s%1ss"} {
		if _, _, ok := parseSscanfFormat(f); ok {
			t.Errorf("parseSscanfFormat(%q) accepted", f)
		}
	}
}

// string(rune) for symbolic runes: the encoder must agree with the language on constant inputs of
// every width class (constant terms fold, so no solver is needed).
func TestRuneToStrSym(t *testing.T) {
	m := &Machine{tt: NewTermTable()}
	for _, r := range []int32{0x80, 0xa0, 0x7ff, 0x800, 0xfeff, 0xd7ff, 0xd800, 0xdfff, 0xe000, 0xffff, 0x10000, 0x10ffff, 0x110000, -1, -2147483648, 0x3000, 0x1f600} {
		got, ok := m.runeToStrSym(m.tt.Const(32, uint64(uint32(r)))).Concrete()
		if !ok || got != string(rune(r)) {
			t.Errorf("rune %#x: got %q ok=%v want %q", r, got, ok, string(rune(r)))
		}
	}
}

// The flat range-table predicate must agree with unicode.IsLetter / unicode.IsDigit: checked on every
// rune below U+3000, on every boundary of every table range (lo-1, lo, lo+1, hi-1, hi, hi+1), on a
// stride through the rest of the code space, and on out-of-range values.
func TestUnicodeRangeTerm(t *testing.T) {
	m := &Machine{tt: NewTermTable()}
	r := m.tt.Var("r", 32)
	for _, c := range []struct {
		name   string
		tab    *unicode.RangeTable
		native func(rune) bool
	}{{"IsLetter", unicode.Letter, unicode.IsLetter}, {"IsDigit", unicode.Digit, unicode.IsDigit}} {
		term := m.inRangeTable(r, c.tab)
		bad := 0
		check := func(v int32) {
			got := Eval(term, map[string]uint64{"r": uint64(uint32(v))}, map[*Term]uint64{}) == 1
			if got != c.native(rune(v)) {
				bad++
				if bad < 10 {
					t.Errorf("%s(%#x): term %v native %v", c.name, v, got, c.native(rune(v)))
				}
			}
		}
		for v := int32(0); v < 0x3000; v++ {
			check(v)
		}
		for v := int32(0x3000); v < 0x120000; v += 131 {
			check(v)
		}
		around := func(lo, hi uint32) {
			for _, d := range []int32{-1, 0, 1} {
				check(int32(lo) + d)
				check(int32(hi) + d)
			}
		}
		for _, x := range c.tab.R16 {
			around(uint32(x.Lo), uint32(x.Hi))
		}
		for _, x := range c.tab.R32 {
			around(x.Lo, x.Hi)
		}
		for _, v := range []int32{-1, -2147483648, 0x7fffffff, 0x10ffff, 0x110000} {
			check(v)
		}
	}
}
