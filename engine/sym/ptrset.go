package sym

import "fmt"

// PtrSet is a symbolic pointer: exactly one alternative's guard holds (under the path condition).
// It arises when pointer values are merged by if-conversion or loaded through a symbolic index.
type ptrAlt struct {
	g *Term
	p *value // may be nil (the nil pointer)
}

type PtrSet struct {
	alts []ptrAlt
}

const maxPtrAlts = 1100

func (m *Machine) ptrAlts(v value) ([]ptrAlt, bool) {
	switch p := v.(type) {
	case *value:
		return []ptrAlt{{m.tt.True, p}}, true
	case *PtrSet:
		return p.alts, true
	}
	return nil, false
}

// mkPtrSet normalises alternatives (drops false guards, merges equal pointers).
func (m *Machine) mkPtrSet(alts []ptrAlt) (value, bool) {
	var out []ptrAlt
	pos := make(map[*value]int, len(alts))
	for _, a := range alts {
		if a.g.IsFalse() {
			continue
		}
		if i, ok := pos[a.p]; ok {
			out[i].g = m.tt.Or(out[i].g, a.g)
			continue
		}
		pos[a.p] = len(out)
		out = append(out, a)
	}
	if len(out) == 0 {
		return (*value)(nil), true
	}
	if len(out) == 1 {
		return out[0].p, true
	}
	if len(out) > maxPtrAlts {
		return nil, false
	}
	return &PtrSet{alts: out}, true
}

func (m *Machine) mergePtrs(c *Term, a, b value) (value, bool) {
	aa, ok1 := m.ptrAlts(a)
	bb, ok2 := m.ptrAlts(b)
	if !ok1 || !ok2 {
		return nil, false
	}
	nc := m.tt.Not(c)
	alts := make([]ptrAlt, 0, len(aa)+len(bb))
	for _, x := range aa {
		alts = append(alts, ptrAlt{m.tt.And(c, x.g), x.p})
	}
	for _, x := range bb {
		alts = append(alts, ptrAlt{m.tt.And(nc, x.g), x.p})
	}
	return m.mkPtrSet(alts)
}

// nonNilAlts forks off the nil alternative (nil dereference panic) and returns the rest.
func (m *Machine) nonNilAlts(ps *PtrSet) []ptrAlt {
	var rest []ptrAlt
	nilG := m.tt.False
	for _, a := range ps.alts {
		if a.p == nil {
			nilG = m.tt.Or(nilG, a.g)
		} else {
			rest = append(rest, a)
		}
	}
	if !nilG.IsFalse() {
		if m.spec > 0 {
			panic(mergeAbort{})
		}
		if m.branch(nilG) {
			panic(goPanic{m.mkRuntimeError("invalid memory address or nil pointer dereference")})
		}
	}
	return rest
}

// resolvePtr concretises a symbolic pointer by forking over its alternatives.
func (m *Machine) resolvePtr(v value) value {
	ps, ok := v.(*PtrSet)
	if !ok {
		return v
	}
	if m.spec > 0 {
		panic(mergeAbort{})
	}
	gs := make([]*Term, len(ps.alts))
	for i, a := range ps.alts {
		gs[i] = a.g
	}
	k := m.decide('b', gs)
	return ps.alts[k].p
}

// mergeGuarded merges values selected by mutually exclusive guards.
func (m *Machine) mergeGuarded(gs []*Term, vs []value) (value, bool) {
	if len(vs) == 0 {
		return nil, false
	}
	allPtr, allSlice := true, true
	for _, v := range vs {
		if _, ok := v.(*value); !ok {
			allPtr = false
		}
		if _, ok := v.([]value); !ok {
			allSlice = false
		}
	}
	if allPtr {
		alts := make([]ptrAlt, len(vs))
		for i, v := range vs {
			alts[i] = ptrAlt{gs[i], v.(*value)}
		}
		return m.mkPtrSet(alts)
	}
	if allSlice {
		alts := make([]sliceAlt, len(vs))
		for i, v := range vs {
			alts[i] = sliceAlt{gs[i], v.([]value)}
		}
		return m.mkSliceSet(alts)
	}
	res := vs[len(vs)-1]
	for i := len(vs) - 2; i >= 0; i-- {
		r, ok := m.mergeVals(gs[i], vs[i], res)
		if !ok {
			return nil, false
		}
		res = r
	}
	return res, true
}

func (m *Machine) ptrSetLoad(ps *PtrSet) value {
	alts := m.nonNilAlts(ps)
	if len(alts) > 0 {
		gs := make([]*Term, len(alts))
		vs := make([]value, len(alts))
		for i, a := range alts {
			gs[i] = a.g
			vs[i] = load(a.p)
		}
		if r, ok := m.mergeGuarded(gs, vs); ok {
			return r
		}
		return load(m.resolvePtr(ps).(*value))
	}
	var res value
	for i := len(alts) - 1; i >= 0; i-- {
		v := load(alts[i].p)
		if res == nil {
			res = v
			continue
		}
		r, ok := m.mergeVals(alts[i].g, v, res)
		if !ok {
			return load(m.resolvePtr(ps).(*value))
		}
		res = r
	}
	if res == nil {
		panic(pathEnd{"infeasible", "load through empty pointer set"})
	}
	return res
}

func (m *Machine) ptrSetStore(ps *PtrSet, v value) {
	alts := m.nonNilAlts(ps)
	// check mergeability first
	nvs := make([]value, len(alts))
	for i, a := range alts {
		nv, ok := m.mergeVals(a.g, v, *a.p)
		if !ok {
			p := m.resolvePtr(ps).(*value)
			m.store(p, v)
			return
		}
		nvs[i] = nv
	}
	for i, a := range alts {
		m.store(a.p, nvs[i])
	}
}

func (m *Machine) ptrSetMap(ps *PtrSet, f func(p *value) *value) value {
	alts := m.nonNilAlts(ps)
	out := make([]ptrAlt, len(alts))
	for i, a := range alts {
		out[i] = ptrAlt{a.g, f(a.p)}
	}
	r, ok := m.mkPtrSet(out)
	if !ok {
		panic(unsupported{"pointer set too large"})
	}
	return r
}

func (m *Machine) ptrEq(x, y value) *Term {
	xa, ok1 := m.ptrAlts(x)
	ya, ok2 := m.ptrAlts(y)
	if !ok1 || !ok2 {
		panic(unsupported{fmt.Sprintf("pointer comparison %T %T", x, y)})
	}
	r := m.tt.False
	for _, a := range xa {
		for _, b := range ya {
			if a.p == b.p {
				r = m.tt.Or(r, m.tt.And(a.g, b.g))
			}
		}
	}
	return r
}
