package sym

import "golang.org/x/tools/go/ssa"

// vrt.ExpectBlock(label): the harness declares that the code it calls next must block forever
// (sync.Cond.Wait with nobody left to signal, empty channel, ...). A path that then ends `blocked` is a
// normal end (counted as cover `label` and path end "blocked-expected") instead of a reported outcome.
// ExpectBlock("") withdraws the expectation. The file name sorts after vrt.go on purpose: vrt.go's init
// creates the vrtIntrinsics map.
func init() {
	vrtIntrinsics["ExpectBlock"] = func(m *Machine, fn *ssa.Function, a []value) value {
		m.ghost["expectBlock"] = cstr(a[0])
		return nil
	}
	// vrt.CondSignals(): number of sync.Cond.Signal/Broadcast calls executed so far on this path. A
	// harness that sequentialises a waiter uses it to see whether the waiter would have been woken.
	vrtIntrinsics["CondSignals"] = func(m *Machine, fn *ssa.Function, a []value) value {
		n, _ := m.ghost["condSignals"].(int)
		return m.i64(n)
	}
	for _, name := range []string{"(*sync.Cond).Signal", "(*sync.Cond).Broadcast"} {
		old := intrinsics[name]
		intrinsics[name] = func(m *Machine, fn *ssa.Function, a []value) value {
			n, _ := m.ghost["condSignals"].(int)
			m.ghost["condSignals"] = n + 1
			if old != nil {
				return old(m, fn, a)
			}
			return nil
		}
	}
}

// expectedBlock reports (and consumes) a pending vrt.ExpectBlock label.
func (m *Machine) expectedBlock() (string, bool) {
	lbl, ok := m.ghost["expectBlock"].(string)
	if !ok || lbl == "" {
		return "", false
	}
	return lbl, true
}
