package sym

// Balancing-area intrinsics.
//
// github.com/spaolacci/murmur3.Sum64 is UNINTERPRETED: the result of each call is a fresh symbolic
// 64-bit value v_murmur_<k> (k = call number on the path), constrained only by functional
// consistency with the earlier calls of the same path (equal argument bytes => equal result).
// Nothing else is assumed about the hash, so a harness claim holds "for every hash function".
// Native replay: a harness can read the model's value of the k-th call with vrt.U64("murmur")
// (only under !vrt.Symbolic()) and search a key that hashes to the same residue.

import (
	"go/types"

	"golang.org/x/tools/go/ssa"
)

// A locally seeded generator (rand.New(rand.NewSource(time.Now().UnixNano())), used by
// BalanceGslb.randomSelectExclude) is nondeterministic like the global one: NewSource/New build an
// inert object and the draw methods return a fresh value of the documented range.
func init() {
	intrinsics["math/rand.NewSource"] = func(m *Machine, fn *ssa.Function, a []value) value { return iface{} }
	intrinsics["math/rand.New"] = func(m *Machine, fn *ssa.Function, a []value) value {
		t := fn.Signature.Results().At(0).Type().(*types.Pointer).Elem()
		cell := new(value)
		*cell = m.zero(t)
		return cell
	}
	nonneg := func(w int) intrinsic {
		return func(m *Machine, fn *ssa.Function, a []value) value {
			r := m.fresh("rand", w)
			m.addPC(m.tt.Cmp("bvsle", m.tt.Const(w, 0), r))
			m.stats.Assumes["(*rand.Rand).Int31/Int63/Int: nondeterministic non-negative value"]++
			return r
		}
	}
	intrinsics["(*math/rand.Rand).Int31"] = nonneg(32)
	intrinsics["(*math/rand.Rand).Int63"] = nonneg(64)
	intrinsics["(*math/rand.Rand).Int"] = nonneg(64)
}

// Health-check probe environment (bfe_balance/backend.checkTCPConnect). No socket exists in the
// interpreter; the two dial entry points are given the two possible environment behaviours, so that a
// harness selects the probe outcome through configuration (BackendCheck.CheckTimeout nil / set):
//   net.Dial         -> the connection is established (an inert *net.TCPConn whose Close is a no-op)
//   net.DialTimeout  -> the attempt fails with an error
func init() {
	intrinsics["net.Dial"] = func(m *Machine, fn *ssa.Function, a []value) value {
		t := fn.Pkg.Type("TCPConn").Type()
		cell := new(value)
		*cell = m.zero(t)
		m.stats.Assumes["net.Dial stub: connection established (inert conn)"]++
		return tuple{iface{t: types.NewPointer(t), v: cell}, iface{}}
	}
	intrinsics["net.DialTimeout"] = func(m *Machine, fn *ssa.Function, a []value) value {
		m.stats.Assumes["net.DialTimeout stub: the attempt fails (i/o timeout)"]++
		return tuple{iface{}, m.mkErr("dial tcp: i/o timeout")}
	}
	intrinsics["(*net.TCPConn).Close"] = func(m *Machine, fn *ssa.Function, a []value) value { return iface{} }
	intrinsics["(*net.conn).Close"] = func(m *Machine, fn *ssa.Function, a []value) value { return iface{} }
}

type murmurCall struct {
	arg []*Term
	res *Term
}

func init() {
	intrinsics["github.com/spaolacci/murmur3.Sum64"] = func(m *Machine, fn *ssa.Function, a []value) value {
		var arg []*Term
		if a[0] != nil {
			if s, ok := a[0].([]value); ok {
				arg = make([]*Term, len(s))
				for i := range s {
					arg[i] = s[i].(*Term)
				}
			} else {
				panic(unsupported{"murmur3.Sum64 of a symbolic slice"})
			}
		}
		prev, _ := m.ghost["murmur"].([]murmurCall)
		r := m.fresh("murmur", 64)
		for _, p := range prev {
			if len(p.arg) != len(arg) {
				continue
			}
			eq := m.equalBytes(p.arg, arg)
			if eq.IsFalse() {
				continue
			}
			if eq.IsTrue() {
				// syntactically the same argument bytes: hand out the very same term (the fresh
				// variable above is still drawn, so the numbering of later calls is unchanged). One
				// term instead of two equated variables keeps e.g. `hash % total` hash-consed.
				m.ghost["murmur"] = append(prev[:len(prev):len(prev)], murmurCall{arg, p.res})
				m.stats.Assumes["murmur3.Sum64 is uninterpreted: fresh 64-bit result per call, equal for equal argument bytes"]++
				return p.res
			}
			m.addPC(m.tt.Or(m.tt.Not(eq), m.tt.Eq(r, p.res)))
		}
		m.ghost["murmur"] = append(prev[:len(prev):len(prev)], murmurCall{arg, r})
		m.stats.Assumes["murmur3.Sum64 is uninterpreted: fresh 64-bit result per call, equal for equal argument bytes"]++
		return r
	}
}
