package sym

// SliceSet is a symbolic slice value: exactly one alternative's guard holds. It arises when slice
// headers are loaded through symbolic pointers (e.g. node.children in a tree walk).
type sliceAlt struct {
	g *Term
	s []value
}

type SliceSet struct {
	alts []sliceAlt
}

func sameSlice(a, b []value) bool {
	if a == nil || b == nil {
		return a == nil && b == nil
	}
	if len(a) != len(b) || cap(a) != cap(b) {
		return false
	}
	if cap(a) == 0 {
		return true
	}
	return &a[:1][0] == &b[:1][0]
}

func (m *Machine) sliceAlts(v value) ([]sliceAlt, bool) {
	switch s := v.(type) {
	case []value:
		return []sliceAlt{{m.tt.True, s}}, true
	case *SliceSet:
		return s.alts, true
	}
	return nil, false
}

func (m *Machine) mkSliceSet(alts []sliceAlt) (value, bool) {
	var out []sliceAlt
	for _, a := range alts {
		if a.g.IsFalse() {
			continue
		}
		found := false
		for i := range out {
			if sameSlice(out[i].s, a.s) {
				out[i].g = m.tt.Or(out[i].g, a.g)
				found = true
				break
			}
		}
		if !found {
			out = append(out, a)
		}
	}
	if len(out) == 0 {
		return []value(nil), true
	}
	if len(out) == 1 {
		return out[0].s, true
	}
	if len(out) > 64 {
		return nil, false
	}
	return &SliceSet{alts: out}, true
}

func (m *Machine) mergeSlices(c *Term, a, b value) (value, bool) {
	aa, ok1 := m.sliceAlts(a)
	bb, ok2 := m.sliceAlts(b)
	if !ok1 || !ok2 {
		return nil, false
	}
	nc := m.tt.Not(c)
	var alts []sliceAlt
	for _, x := range aa {
		alts = append(alts, sliceAlt{m.tt.And(c, x.g), x.s})
	}
	for _, x := range bb {
		alts = append(alts, sliceAlt{m.tt.And(nc, x.g), x.s})
	}
	return m.mkSliceSet(alts)
}

// resolveSlice concretises a symbolic slice by forking over its alternatives.
func (m *Machine) resolveSlice(v value) value {
	ss, ok := v.(*SliceSet)
	if !ok {
		return v
	}
	if m.spec > 0 {
		panic(mergeAbort{})
	}
	gs := make([]*Term, len(ss.alts))
	for i, a := range ss.alts {
		gs[i] = a.g
	}
	k := m.decide('b', gs)
	return ss.alts[k].s
}

func (m *Machine) sliceSetIsNil(ss *SliceSet) *Term {
	r := m.tt.False
	for _, a := range ss.alts {
		if a.s == nil {
			r = m.tt.Or(r, a.g)
		}
	}
	return r
}

func (m *Machine) sliceSetLen(ss *SliceSet, useCap bool) *Term {
	var res *Term
	for i := len(ss.alts) - 1; i >= 0; i-- {
		n := len(ss.alts[i].s)
		if useCap {
			n = cap(ss.alts[i].s)
		}
		t := m.tt.Const(64, uint64(n))
		if res == nil {
			res = t
		} else {
			res = m.tt.Ite(ss.alts[i].g, t, res)
		}
	}
	return res
}

// sliceSetIndexAddr returns a (symbolic) pointer to ss[idx]; idx is a 64-bit term.
func (m *Machine) sliceSetIndexAddr(ss *SliceSet, idx *Term) value {
	// bounds: idx <u len
	ok := m.tt.Cmp("bvult", idx, m.sliceSetLen(ss, false))
	if !ok.IsTrue() {
		if m.spec > 0 {
			panic(mergeAbort{})
		}
		if !m.branch(ok) {
			panic(goPanic{m.mkRuntimeError("index out of range [sym] with symbolic slice")})
		}
	}
	total := 0
	for _, a := range ss.alts {
		if idx.IsConst() {
			total++
		} else {
			total += len(a.s)
		}
	}
	if total > maxPtrAlts {
		s := m.resolveSlice(ss).([]value)
		if idx.IsConst() {
			return &s[idx.Val]
		}
		return &SymRef{base: s, idx: idx}
	}
	var out []ptrAlt
	for _, a := range ss.alts {
		if idx.IsConst() {
			if int(idx.Val) < len(a.s) {
				out = append(out, ptrAlt{a.g, &a.s[idx.Val]})
			}
			continue
		}
		for j := range a.s {
			out = append(out, ptrAlt{m.tt.And(a.g, m.tt.Eq(idx, m.tt.Const(64, uint64(j)))), &a.s[j]})
		}
	}
	r, good := m.mkPtrSet(out)
	if !good {
		panic(unsupported{"pointer set too large"})
	}
	return r
}
