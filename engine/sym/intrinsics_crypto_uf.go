package sym

// Session-ticket cryptography (bfe_tls/ticket.go: HMAC-SHA256 over AES-CTR).
//
//   - crypto/sha256.block is an UNINTERPRETED FUNCTION WITH FUNCTIONAL CONSISTENCY (Ackermann style, as
//     murmur3.Sum64 in intrinsics_balance.go): the new chaining state is 8 fresh words, constrained to
//     equal the result of every earlier call on this path whose chaining state and block bytes are
//     equal. Syntactically equal arguments get the very same terms. Nothing else is known about digest
//     values (no collision resistance, no unforgeability): a harness may only rely on "the same bytes
//     under the same key give the same MAC".
//   - AES is exact but only for a CONCRETE key and a CONCRETE input block (the key schedule and block
//     encryption are computed natively by Go's crypto/aes); anything symbolic ends the path as
//     unsupported. crypto/aes.newCipher is replaced because the real one branches on CPU feature
//     globals set by an initializer that is not run, and continues in assembly. CTR mode itself
//     (crypto/cipher.ctr: counter increment, buffering, XOR) runs from its real SSA.
//   - crypto/subtle.XORBytes (assembly on amd64) and crypto/internal/alias overlap tests (pointer
//     arithmetic) are modelled directly.

import (
	"crypto/aes"
	"go/types"

	"golang.org/x/tools/go/ssa"
)

type hashBlockCall struct {
	in  []*Term // chaining state words followed by the block bytes
	out []*Term
}

const sha256Assume = "crypto/sha256.block is an uninterpreted function: fresh chaining state per call, equal for equal (state, block bytes)"

func sha256BlockUF(m *Machine, fn *ssa.Function, a []value) value {
	p, ok := a[0].(*value)
	if !ok || p == nil {
		panic(unsupported{"crypto block: unexpected receiver"})
	}
	st, ok := (*p).(structure)
	if !ok || len(st) == 0 {
		panic(unsupported{"crypto block: unexpected digest layout"})
	}
	arr, ok := st[0].(array)
	if !ok {
		panic(unsupported{"crypto block: unexpected digest state"})
	}
	in := make([]*Term, 0, len(arr)+64)
	for i := range arr {
		t, ok := arr[i].(*Term)
		if !ok {
			panic(unsupported{"crypto block: unexpected digest state word"})
		}
		in = append(in, t)
	}
	if a[1] != nil {
		in = append(in, m.bytesOf(a[1])...)
	}
	out := make([]*Term, len(arr))
	for i := range out {
		out[i] = m.fresh("sha256_state", 32) // always drawn: the numbering does not depend on matches
	}
	m.stats.Assumes[sha256Assume]++
	prev, _ := m.ghost["sha256block"].([]hashBlockCall)
	for _, c := range prev {
		if len(c.in) != len(in) {
			continue
		}
		eq := m.equalBytes(c.in, in)
		if eq.IsFalse() {
			continue
		}
		if eq.IsTrue() {
			out = c.out
			break
		}
		same := m.tt.True
		for i := range out {
			same = m.tt.And(same, m.tt.Eq(out[i], c.out[i]))
		}
		m.addPC(m.tt.Or(m.tt.Not(eq), same))
	}
	m.ghost["sha256block"] = append(prev[:len(prev):len(prev)], hashBlockCall{in, out})
	for i := range arr {
		m.store(&arr[i], out[i])
	}
	return nil
}

func concreteBytes(m *Machine, v value, what string) []byte {
	ts := m.bytesOf(v)
	r := make([]byte, len(ts))
	for i, t := range ts {
		if !t.IsConst() {
			panic(unsupported{what + " with symbolic bytes (AES is only computed for concrete key and block)"})
		}
		r[i] = byte(t.Val)
	}
	return r
}

func init() {
	// newCipher(key []byte) (cipher.Block, error): an *aesCipherAsm whose enc words hold the RAW key
	// bytes (one per word; the schedule is never read by interpreted code, only by Encrypt below).
	intrinsics["crypto/aes.newCipher"] = func(m *Machine, fn *ssa.Function, a []value) value {
		key := concreteBytes(m, a[0], "crypto/aes.newCipher")
		obj := fn.Pkg.Type("aesCipherAsm")
		if obj == nil {
			panic(unsupported{"crypto/aes.newCipher: no aesCipherAsm type on this platform"})
		}
		t := obj.Type()
		cell := new(value)
		*cell = m.zero(t)
		inner, ok := (*cell).(structure)[0].(structure) // aesCipher{l, enc, dec}
		if !ok || len(inner) != 3 {
			panic(unsupported{"crypto/aes.newCipher: unexpected aesCipher layout"})
		}
		enc, ok := inner[1].(array)
		if !ok || len(enc) < len(key) {
			panic(unsupported{"crypto/aes.newCipher: unexpected aesCipher layout"})
		}
		inner[0] = m.tt.Const(8, uint64(len(key)))
		for i, b := range key {
			enc[i] = m.tt.Const(32, uint64(b))
		}
		m.stats.Assumes["AES: exact (native crypto/aes) for concrete key and concrete input block; symbolic ones end the path"]++
		return tuple{iface{t: types.NewPointer(t), v: cell}, iface{}}
	}
	intrinsics["(*crypto/aes.aesCipherAsm).Encrypt"] = func(m *Machine, fn *ssa.Function, a []value) value {
		p, ok := a[0].(*value)
		if !ok || p == nil {
			panic(unsupported{"aes Encrypt: unexpected receiver"})
		}
		inner := (*p).(structure)[0].(structure)
		lt, ok := inner[0].(*Term)
		if !ok || !lt.IsConst() {
			panic(unsupported{"aes Encrypt: unexpected receiver"})
		}
		enc := inner[1].(array)
		key := make([]byte, int(lt.Val))
		for i := range key {
			key[i] = byte(enc[i].(*Term).Val)
		}
		dst, _ := m.resolveSlice(a[1]).([]value)
		src := concreteBytes(m, a[2], "aes Encrypt")
		if len(src) < aes.BlockSize {
			panic(goPanic{iface{t: types.Typ[types.String], v: Str{S: "crypto/aes: input not full block"}}})
		}
		if len(dst) < aes.BlockSize {
			panic(goPanic{iface{t: types.Typ[types.String], v: Str{S: "crypto/aes: output not full block"}}})
		}
		blk, err := aes.NewCipher(key)
		if err != nil {
			panic(unsupported{"aes Encrypt: " + err.Error()})
		}
		var out [aes.BlockSize]byte
		blk.Encrypt(out[:], src[:aes.BlockSize])
		for i := range out {
			m.store(&dst[i], m.tt.Const(8, uint64(out[i])))
		}
		return nil
	}
	// XORBytes(dst, x, y []byte) int
	intrinsics["crypto/subtle.XORBytes"] = func(m *Machine, fn *ssa.Function, a []value) value {
		dst, _ := m.resolveSlice(a[0]).([]value)
		x, y := m.bytesOf(a[1]), m.bytesOf(a[2])
		n := len(x)
		if len(y) < n {
			n = len(y)
		}
		if n > 0 && len(dst) < n {
			panic(goPanic{iface{t: types.Typ[types.String], v: Str{S: "subtle.XORBytes: dst too short"}}})
		}
		for i := 0; i < n; i++ {
			m.store(&dst[i], m.tt.Bin("bvxor", x[i], y[i]))
		}
		return m.i64(n)
	}
	// The overlap tests compare addresses. The callers reached here (cipher.ctr.XORKeyStream from
	// bfe_tls ticket code) pass either the same slice or disjoint ones: "no inexact overlap".
	intrinsics["crypto/internal/alias.InexactOverlap"] = func(m *Machine, fn *ssa.Function, a []value) value {
		m.stats.Assumes["crypto/internal/alias.InexactOverlap: buffers are identical or disjoint (false)"]++
		return m.tt.False
	}
}
