package sym

import (
	"go/types"
	"regexp"
	"strconv"
	"strings"
	"unicode"

	"golang.org/x/tools/go/ssa"
)

// Intrinsics needed by the condition-DSL harnesses (C16–C18).
//
// fmt.Sscanf: package fmt's scanner is reflection- and panic/recover-driven and is not interpreted.
// bfe uses it with exactly two formats, "%14s%s" and "%6s%s" (bfe_util/time.go). sscanfWords is a
// small executable model of fmt.Sscanf for formats of the shape %<width>s%s or %<width>s%<width2>s
// (the second width is optional) written against an abstract input (sscanfInput), so that the very
// same code runs
//   - natively on concrete bytes (sscanf_model_test.go compares it with the real fmt.Sscanf,
//     exhaustively on short inputs), and
//   - symbolically, where every question about an input byte forks the path.
// Every counterexample that passes through it is additionally replayed natively against the real fmt.

// sscanfInput is the input string seen through byte-range questions.
type sscanfInput interface {
	Len() int
	In(i int, lo, hi byte) bool // lo <= input[i] <= hi
}

const (
	scOther   = 0 // a rune that is not white space
	scSpace   = 1 // white space other than newline
	scNewline = 2
)

type scRune struct {
	w     int  // width in bytes
	cls   int  // scOther / scSpace / scNewline
	valid bool // false: invalid UTF-8, read as U+FFFD of width 1 (and written back as EF BF BD)
	done  bool
}

// sscanfDecode classifies the rune starting at byte p the way fmt's readRune + isSpace do.
func sscanfDecode(in sscanfInput, p int) scRune {
	n := in.Len()
	if in.In(p, 0x00, 0x7f) {
		if in.In(p, '\n', '\n') {
			return scRune{w: 1, cls: scNewline, valid: true}
		}
		if in.In(p, 0x09, 0x0d) || in.In(p, ' ', ' ') {
			return scRune{w: 1, cls: scSpace, valid: true}
		}
		return scRune{w: 1, cls: scOther, valid: true}
	}
	bad := scRune{w: 1, cls: scOther, valid: false}
	cont := func(i int) bool { return i < n && in.In(i, 0x80, 0xbf) }
	switch {
	case in.In(p, 0xc2, 0xdf):
		if !cont(p + 1) {
			return bad
		}
		// U+0085 (C2 85), U+00A0 (C2 A0)
		if in.In(p, 0xc2, 0xc2) && (in.In(p+1, 0x85, 0x85) || in.In(p+1, 0xa0, 0xa0)) {
			return scRune{w: 2, cls: scSpace, valid: true}
		}
		return scRune{w: 2, cls: scOther, valid: true}
	case in.In(p, 0xe0, 0xef):
		if p+1 >= n {
			return bad
		}
		lo, hi := byte(0x80), byte(0xbf)
		if in.In(p, 0xe0, 0xe0) {
			lo = 0xa0
		} else if in.In(p, 0xed, 0xed) {
			hi = 0x9f
		}
		if !in.In(p+1, lo, hi) || !cont(p+2) {
			return bad
		}
		sp := false
		switch {
		case in.In(p, 0xe1, 0xe1): // U+1680 = E1 9A 80
			sp = in.In(p+1, 0x9a, 0x9a) && in.In(p+2, 0x80, 0x80)
		case in.In(p, 0xe2, 0xe2): // U+2000..200A, 2028, 2029, 202F = E2 80 xx; U+205F = E2 81 9F
			if in.In(p+1, 0x80, 0x80) {
				sp = in.In(p+2, 0x80, 0x8a) || in.In(p+2, 0xa8, 0xa9) || in.In(p+2, 0xaf, 0xaf)
			} else if in.In(p+1, 0x81, 0x81) {
				sp = in.In(p+2, 0x9f, 0x9f)
			}
		case in.In(p, 0xe3, 0xe3): // U+3000 = E3 80 80
			sp = in.In(p+1, 0x80, 0x80) && in.In(p+2, 0x80, 0x80)
		}
		if sp {
			return scRune{w: 3, cls: scSpace, valid: true}
		}
		return scRune{w: 3, cls: scOther, valid: true}
	case in.In(p, 0xf0, 0xf4):
		if p+1 >= n {
			return bad
		}
		lo, hi := byte(0x80), byte(0xbf)
		if in.In(p, 0xf0, 0xf0) {
			lo = 0x90
		} else if in.In(p, 0xf4, 0xf4) {
			hi = 0x8f
		}
		if !in.In(p+1, lo, hi) || !cont(p+2) || !cont(p+3) {
			return bad
		}
		return scRune{w: 4, cls: scOther, valid: true}
	}
	return bad
}

// scSeg is a piece of a scanned word: input[lo:hi], or U+FFFD when !valid.
type scSeg struct {
	lo, hi int
	valid  bool
}

type sscanfOut struct {
	n     int // operands stored
	err   string
	words [2][]scSeg
}

// sscanfWords models fmt.Sscanf(input, "%<wid>s%s", &a, &b) and, when wid2 > 0,
// fmt.Sscanf(input, "%<wid>s%<wid2>s", &a, &b): for each of the two verbs, skip white
// space (a newline is an error: "unexpected newline"; '\r' is plain white space), fail with io.EOF at
// the end of input, then read non-space runes — at most wid *runes* for the first verb, at most wid2
// runes for the second one (wid2 == 0: no limit). Input left over after the second word is ignored,
// exactly like fmt does (a width is a maximum; fmt does not complain about unread input).
func sscanfWords(in sscanfInput, wid, wid2 int) sscanfOut {
	var out sscanfOut
	n := in.Len()
	memo := make([]scRune, n)
	dec := func(p int) scRune {
		if !memo[p].done {
			memo[p] = sscanfDecode(in, p)
			memo[p].done = true
		}
		return memo[p]
	}
	p := 0
	for w := 0; w < 2; w++ {
		for p < n {
			r := dec(p)
			if r.cls == scNewline {
				out.err = "unexpected newline"
				return out
			}
			if r.cls != scSpace {
				break
			}
			p += r.w
		}
		if p >= n {
			out.err = "EOF"
			return out
		}
		limit := 1 << 30
		if w == 0 {
			limit = wid
		} else if wid2 > 0 {
			limit = wid2
		}
		for cnt := 0; p < n && cnt < limit; cnt++ {
			r := dec(p)
			if r.cls != scOther {
				break
			}
			out.words[w] = append(out.words[w], scSeg{p, p + r.w, r.valid})
			p += r.w
		}
		out.n++
	}
	return out
}

// sscanfBytes is the native input.
type sscanfBytes []byte

func (b sscanfBytes) Len() int                   { return len(b) }
func (b sscanfBytes) In(i int, lo, hi byte) bool { return lo <= b[i] && b[i] <= hi }

func (o sscanfOut) nativeWord(in []byte, w int) string {
	var sb strings.Builder
	for _, s := range o.words[w] {
		if s.valid {
			sb.Write(in[s.lo:s.hi])
		} else {
			sb.WriteString("\uFFFD")
		}
	}
	return sb.String()
}

// sscanfSym is the symbolic input: each question forks the path (infeasible sides are pruned).
type sscanfSym struct {
	m *Machine
	s Str
}

func (x sscanfSym) Len() int { return x.s.Len() }
func (x sscanfSym) In(i int, lo, hi byte) bool {
	tt := x.m.tt
	b := x.m.strByte(x.s, i)
	var c *Term
	if lo == hi {
		c = tt.Eq(b, tt.Const(8, uint64(lo)))
	} else {
		c = tt.And(tt.Cmp("bvuge", b, tt.Const(8, uint64(lo))), tt.Cmp("bvule", b, tt.Const(8, uint64(hi))))
	}
	return x.m.branch(c)
}

func (m *Machine) sscanfWordStr(in Str, segs []scSeg) Str {
	var r Str
	for _, s := range segs {
		if s.valid {
			r = m.strConcat(r, m.strSlice(in, s.lo, s.hi))
		} else {
			r = m.strConcat(r, Str{S: "\uFFFD"})
		}
	}
	return r
}

// parseSscanfFormat accepts exactly %<digits>s%s and %<digits>s%<digits>s; the second width is 0 when
// the second verb has none.
func parseSscanfFormat(f string) (int, int, bool) {
	width := func(d string, optional bool) (int, bool) {
		if d == "" {
			return 0, optional
		}
		for _, c := range d {
			if c < '0' || c > '9' {
				return 0, false
			}
		}
		w, err := strconv.Atoi(d)
		if err != nil || w <= 0 || w > 1<<20 {
			return 0, false
		}
		return w, true
	}
	if !strings.HasPrefix(f, "%") || !strings.HasSuffix(f, "s") {
		return 0, 0, false
	}
	parts := strings.Split(f[1:len(f)-1], "s%")
	if len(parts) != 2 {
		return 0, 0, false
	}
	w1, ok1 := width(parts[0], false)
	w2, ok2 := width(parts[1], true)
	if !ok1 || !ok2 {
		return 0, 0, false
	}
	return w1, w2, true
}

func init() {
	intrinsics["fmt.Sscanf"] = func(m *Machine, fn *ssa.Function, a []value) value {
		f, ok := a[1].(Str).Concrete()
		if !ok {
			panic(unsupported{"fmt.Sscanf: symbolic format"})
		}
		wid, wid2, ok := parseSscanfFormat(f)
		args, _ := a[2].([]value)
		if !ok || len(args) != 2 {
			panic(unsupported{"fmt.Sscanf: only the model for \"%<n>s%s\" / \"%<n>s%<m>s\" with two *string operands exists; format " + strconv.Quote(f)})
		}
		var ptrs [2]*value
		for i, x := range args {
			p, ok := x.(iface).v.(*value)
			if !ok {
				panic(unsupported{"fmt.Sscanf: operand is not a plain *string"})
			}
			if _, ok := (*p).(Str); !ok {
				panic(unsupported{"fmt.Sscanf: operand is not a *string"})
			}
			ptrs[i] = p
		}
		in := a[0].(Str)
		m.stats.Stubs["fmt.Sscanf(model %Ns%s)"]++
		out := sscanfWords(sscanfSym{m, in}, wid, wid2)
		for w := 0; w < out.n; w++ {
			m.store(ptrs[w], m.strNorm(m.sscanfWordStr(in, out.words[w])))
		}
		if out.err != "" {
			return tuple{m.i64(out.n), m.mkErr(out.err)}
		}
		return tuple{m.i64(out.n), iface{}}
	}

	// Error text of a time.Parse failure: message only (bfe wraps it into another error); building it
	// quotes the offending value byte by byte, which would fork on every symbolic byte.
	intrinsics["(*time.ParseError).Error"] = func(m *Machine, fn *ssa.Function, a []value) value {
		m.stats.Stubs["(*time.ParseError).Error(opaque)"]++
		return Str{S: "time.ParseError"}
	}

	// Error text of a strconv failure (Atoi/ParseInt): message only; the real body quotes the offending
	// string through the isPrint tables, byte by byte.
	intrinsics["(*strconv.NumError).Error"] = func(m *Machine, fn *ssa.Function, a []value) value {
		m.stats.Stubs["(*strconv.NumError).Error(opaque)"]++
		return Str{S: "strconv.NumError"}
	}

	// regexp.Compile: the regexp package is not interpreted. A concrete pattern is compiled natively by
	// the engine (so the ok/err outcome is the real one and replays); a symbolic pattern compiles
	// nondeterministically. The returned *Regexp is an opaque zero object: matching with it is not
	// modelled (the regmatch primitives' semantics are outside the C17/C18 claims).
	compile := func(m *Machine, fn *ssa.Function, a []value) value {
		res := fn.Signature.Results()
		ptrT := res.At(0).Type()
		mk := func() value {
			cell := new(value)
			*cell = m.zero(ptrT.Underlying().(*types.Pointer).Elem())
			return cell
		}
		pat := a[0].(Str)
		good := true
		if c, ok := pat.Concrete(); ok {
			_, err := regexp.Compile(c)
			good = err == nil
			m.stats.Stubs["regexp.Compile(concrete pattern, native outcome)"]++
		} else {
			good = m.branch(m.fresh("regexp_ok", 0))
			m.stats.Stubs["regexp.Compile(symbolic pattern, nondet outcome)"]++
		}
		if res.Len() == 1 { // MustCompile
			if !good {
				panic(unsupported{"regexp.MustCompile of an invalid pattern"})
			}
			return mk()
		}
		if good {
			return tuple{mk(), iface{}}
		}
		return tuple{m.zero(ptrT), m.mkErr("regexp: invalid pattern")}
	}
	intrinsics["regexp.Compile"] = compile
	intrinsics["regexp.MustCompile"] = compile
}

// runeToStrSym is string(r) for a symbolic, non-ASCII integer r (the ASCII case is handled by the
// caller): UTF-8 encoding by width class, one fork per class; surrogates and values above U+10FFFF
// (including negative ones) give U+FFFD, as the language specifies.
func (m *Machine) runeToStrSym(r *Term) Str {
	tt := m.tt
	w := r.W
	if w < 32 {
		r = tt.ZExt(r, 32)
		w = 32
	}
	lt := func(v uint64) *Term { return tt.Cmp("bvult", r, tt.Const(w, v)) }
	cont := func(hi, lo int) *Term { return tt.Concat(tt.Const(2, 2), tt.Extract(r, hi, lo)) }
	if m.branch(lt(0x800)) {
		return Str{B: []*Term{tt.Concat(tt.Const(3, 6), tt.Extract(r, 10, 6)), cont(5, 0)}}
	}
	bad := tt.Or(tt.Not(lt(0x110000)), tt.And(tt.Not(lt(0xd800)), lt(0xe000)))
	if m.branch(bad) {
		return Str{S: "\uFFFD"}
	}
	if m.branch(lt(0x10000)) {
		return Str{B: []*Term{tt.Concat(tt.Const(4, 14), tt.Extract(r, 15, 12)), cont(11, 6), cont(5, 0)}}
	}
	return Str{B: []*Term{tt.Concat(tt.Const(5, 30), tt.Extract(r, 20, 18)), cont(17, 12), cont(11, 6), cont(5, 0)}}
}

// inRangeTable is the exact membership predicate "r is in table" for a symbolic 32-bit rune r, as one flat
// disjunction of range tests read from the real unicode tables of the engine's own Go runtime (the same
// tables the real unicode.Is binary-searches). The real SSA of unicode.Is is interpretable, but its
// binary search turns into deeply nested ite terms over the 650-range Letter table which the solver
// digests badly; the flat form is equivalent (validated against unicode.Is in TestUnicodeRangeTerm).
func (m *Machine) inRangeTable(r *Term, tab *unicode.RangeTable) *Term {
	tt := m.tt
	var alts []*Term
	one := func(lo, hi, stride uint32) {
		c := tt.And(tt.Cmp("bvuge", r, tt.Const(32, uint64(lo))), tt.Cmp("bvule", r, tt.Const(32, uint64(hi))))
		if stride > 1 && lo != hi {
			off := tt.Bin("bvsub", r, tt.Const(32, uint64(lo)))
			c = tt.And(c, tt.Eq(tt.Bin("bvurem", off, tt.Const(32, uint64(stride))), tt.Const(32, 0)))
		}
		alts = append(alts, c)
	}
	for _, x := range tab.R16 {
		one(uint32(x.Lo), uint32(x.Hi), uint32(x.Stride))
	}
	for _, x := range tab.R32 {
		one(x.Lo, x.Hi, x.Stride)
	}
	return tt.OrN(alts...)
}

func unicodePred(native func(rune) bool, tab *unicode.RangeTable) intrinsic {
	return func(m *Machine, fn *ssa.Function, a []value) value {
		r := a[0].(*Term)
		if r.IsConst() {
			return m.tt.Bool(native(rune(int32(uint32(r.Val)))))
		}
		if r.W != 32 {
			panic(unsupported{"unicode predicate on a non-rune term"})
		}
		return m.inRangeTable(r, tab)
	}
}

func init() {
	intrinsics["unicode.IsLetter"] = unicodePred(unicode.IsLetter, unicode.Letter)
	intrinsics["unicode.IsDigit"] = unicodePred(unicode.IsDigit, unicode.Digit)
}
