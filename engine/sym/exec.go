package sym

import (
	"fmt"
	"os"
	"time"
	"runtime"
	"go/constant"
	"go/token"
	"go/types"
	"strings"

	"golang.org/x/tools/go/ssa"
)

func (fr *frame) get(key ssa.Value) value {
	switch key := key.(type) {
	case nil:
		return nil
	case *ssa.Function, *ssa.Builtin:
		return key
	case *ssa.Const:
		return fr.m.constValue(key)
	case *ssa.Global:
		return fr.m.globalAddr(key)
	}
	if i, ok := fr.info.index[key]; ok {
		v := fr.env[i]
		if v == nil {
			// could be a legitimately nil-valued slot? all our values are non-nil Go values except untyped nil const
			panic(fmt.Sprintf("get: no value for %T: %v in %s", key, key.Name(), fr.fn))
		}
		return v
	}
	panic(fmt.Sprintf("get: unknown value %T: %v", key, key.Name()))
}

func (fr *frame) set(key ssa.Value, v value) {
	fr.env[fr.info.index[key]] = v
}

func (m *Machine) constValue(c *ssa.Const) value {
	if c.Value == nil {
		return m.zero(c.Type())
	}
	t := c.Type().Underlying()
	if tp, ok := t.(*types.TypeParam); ok {
		_ = tp
		panic(unsupported{"const of type param"})
	}
	if b, ok := t.(*types.Basic); ok {
		switch {
		case b.Info()&types.IsBoolean != 0:
			return m.tt.Bool(constant.BoolVal(c.Value))
		case b.Info()&types.IsInteger != 0:
			w := intWidth(b)
			if b.Info()&types.IsUnsigned != 0 {
				u, _ := constant.Uint64Val(constant.ToInt(c.Value))
				return m.tt.Const(w, u)
			}
			i, ok := constant.Int64Val(constant.ToInt(c.Value))
			if !ok {
				u, _ := constant.Uint64Val(constant.ToInt(c.Value))
				return m.tt.Const(w, u)
			}
			return m.tt.Const(w, uint64(i))
		case b.Info()&types.IsFloat != 0:
			f, _ := constant.Float64Val(c.Value)
			if b.Kind() == types.Float32 {
				return float64(float32(f))
			}
			return f
		case b.Info()&types.IsString != 0:
			if c.Value.Kind() == constant.String {
				return Str{S: constant.StringVal(c.Value)}
			}
			return Str{S: string(rune(c.Int64()))}
		case b.Info()&types.IsComplex != 0:
			return c.Complex128()
		}
	}
	panic(fmt.Sprintf("constValue: %s", c))
}

// ---------- calls ----------

func (m *Machine) call(fn *ssa.Function, args []value, env []value) value {
	if m.depth > m.cfg.MaxDepth && m.cfg.MaxDepth > 0 {
		panic(pathEnd{"depth", fn.String()})
	}
	name := fn.String()
	if o := fn.Origin(); o != nil {
		name = o.String()
	}
	if h := m.lookupIntrinsic(fn, name); h != nil {
		m.stats.Stubs[name]++
		return h(m, fn, args)
	}
	if fn.Blocks == nil {
		panic(unsupported{"no body: " + name})
	}
	if fn.Pkg != nil && fn.Name() == "init" && fn.Signature.Recv() == nil && fn.Parent() == nil && skipInitPkg(fn.Pkg.Pkg.Path()) && fn == fn.Pkg.Func("init") {
		return nil
	}
	if m.initDone {
		if pk := fn.Pkg; pk != nil && strings.HasPrefix(pk.Pkg.Path(), "github.com/bfenetworks/bfe") {
			m.stats.Funcs[name]++
		} else if fn.Pkg == nil {
			m.stats.Funcs[name]++
		}
	}
	fi := m.info(fn)
	fr := &frame{m: m, caller: m.curFrame, fn: fn, info: fi, env: make([]value, fi.n)}
	for i, p := range fn.Params {
		if i < len(args) {
			fr.env[fi.index[p]] = args[i]
		}
	}
	for i, fv := range fn.FreeVars {
		fr.env[fi.index[fv]] = env[i]
	}
	for _, l := range fn.Locals {
		cell := new(value)
		*cell = m.zero(l.Type().(*types.Pointer).Elem())
		fr.env[fi.index[l]] = cell
	}
	fr.block = fn.Blocks[0]
	m.depth++
	saved := m.curFrame
	m.curFrame = fr
	defer func() {
		m.depth--
		m.curFrame = saved
	}()
	for fr.block != nil {
		fr.runBlocks()
	}
	return fr.result
}

// runBlocks runs until return; recovers Go panics of the target to run deferred calls.
func (fr *frame) runBlocks() {
	defer func() {
		if fr.block == nil {
			return // normal return
		}
		r := recover()
		if r == nil {
			return
		}
		gp, ok := r.(goPanic)
		if !ok {
			panic(r) // pathEnd / unsupported / internal error: propagate
		}
		fr.m.curFrame = fr
		fr.panicking = true
		fr.panicVal = gp.v
		fr.runDefers()
		// recovered: continue at the Recover block
		fr.block = fr.fn.Recover
		fr.prevBlock = nil
		fr.startAt = 0
		if fr.block == nil {
			// named results hold the return values
			fr.result = fr.namedResults()
		}
	}()
	for {
		if fr.m.cfg.Trace {
			fmt.Printf("%s.%d:\n", fr.fn, fr.block.Index)
		}
		start := 0
		if fr.startAt > 0 {
			start = fr.startAt
			fr.startAt = 0
		}
		instrs := fr.block.Instrs
		cont := false
		for i := start; i < len(instrs); i++ {
			in := instrs[i]
			if fr.m.cfg.Trace {
				if v, ok := in.(ssa.Value); ok {
					fmt.Println("\t", v.Name(), "=", in)
				} else {
					fmt.Println("\t", in)
				}
			}
			switch fr.visit(in) {
			case kReturn:
				fr.block = nil
				return
			case kJump:
				cont = true
			}
			if cont {
				break
			}
		}
		if !cont {
			panic("block fell through")
		}
	}
}

func (fr *frame) namedResults() value {
	// After recovery without a Recover block, results are zero values.
	res := fr.fn.Signature.Results()
	switch res.Len() {
	case 0:
		return nil
	case 1:
		return fr.m.zero(res.At(0).Type())
	}
	return fr.m.zero(res)
}

func (fr *frame) runDefers() {
	for d := fr.defers; d != nil; d = d.tail {
		fr.defers = d.tail
		fr.runDefer(d)
	}
	fr.defers = nil
	if fr.panicking {
		panic(goPanic{fr.panicVal})
	}
}

func (fr *frame) runDefer(d *deferred) {
	ok := false
	defer func() {
		if !ok {
			r := recover()
			if gp, is := r.(goPanic); is {
				// a deferred call panicked: replaces the current panic, continue with the remaining defers
				fr.m.curFrame = fr
				fr.panicking = true
				fr.panicVal = gp.v
				return
			}
			panic(r)
		}
	}()
	fr.m.callValue(d.fn, d.args, fr)
	ok = true
}

// callValue calls a function value.
func (m *Machine) callValue(fn value, args []value, _ *frame) value {
	switch fn := fn.(type) {
	case *ssa.Function:
		if fn == nil {
			panic(goPanic{m.mkRuntimeError("invalid memory address or nil pointer dereference")})
		}
		return m.call(fn, args, nil)
	case *closure:
		return m.call(fn.Fn, args, fn.Env)
	case *ssa.Builtin:
		return m.callBuiltin(fn, args)
	case *builtinFn:
		return fn.fn(m, args)
	}
	panic(fmt.Sprintf("callValue: %T", fn))
}

func (fr *frame) prepareCall(call *ssa.CallCommon) (fn value, args []value) {
	m := fr.m
	v := fr.get(call.Value)
	if call.Method == nil {
		fn = v
	} else {
		recv := v.(iface)
		if recv.t == nil {
			panic(goPanic{m.mkRuntimeError("invalid memory address or nil pointer dereference")})
		}
		f := m.lookupMethod(recv.t, call.Method)
		if f == nil {
			panic(unsupported{fmt.Sprintf("method %s not found on %s", call.Method.Name(), recv.t)})
		}
		fn = f
		args = append(args, recv.v)
	}
	for _, a := range call.Args {
		args = append(args, fr.get(a))
	}
	return
}

func (m *Machine) lookupMethod(t types.Type, meth *types.Func) *ssa.Function {
	ms := m.prog.MethodSets.MethodSet(t)
	sel := ms.Lookup(meth.Pkg(), meth.Name())
	if sel == nil {
		return nil
	}
	return m.prog.MethodValue(sel)
}

const (
	kNext = iota
	kReturn
	kJump
)

func (fr *frame) visit(instr ssa.Instruction) int {
	m := fr.m
	m.steps++
	if m.steps&0xfffff == 0 {
		if !m.cfg.Deadline.IsZero() && time.Now().After(m.cfg.Deadline) {
			panic(pathEnd{"deadline", ""})
		}
		if debugOn {
			fmt.Printf("[steps %d] depth=%d pc=%d log=%d stack=%s\n", m.steps, m.depth, len(m.pc), len(m.log), m.stackString())
		}
	}
	if m.steps > m.cfg.MaxSteps {
		panic(pathEnd{"steps", fmt.Sprintf("step budget %d exceeded in %s", m.cfg.MaxSteps, fr.fn)})
	}
	switch instr := instr.(type) {
	case *ssa.DebugRef:
	case *ssa.UnOp:
		fr.set(instr, fr.unop(instr, fr.get(instr.X)))
	case *ssa.BinOp:
		fr.set(instr, m.binop(instr.Op, instr.X.Type(), fr.get(instr.X), fr.get(instr.Y), instr.Y.Type()))
	case *ssa.Call:
		if !m.initDone && fr.fn.Synthetic == "package initializer" {
			fr.set(instr, fr.initCall(instr))
			break
		}
		fn, args := fr.prepareCall(&instr.Call)
		fr.set(instr, nonNil(m.callValue(fn, args, fr)))
	case *ssa.ChangeInterface:
		fr.set(instr, fr.get(instr.X))
	case *ssa.ChangeType:
		fr.set(instr, fr.get(instr.X))
	case *ssa.Convert:
		fr.set(instr, m.conv(instr.Type(), instr.X.Type(), fr.get(instr.X)))
	case *ssa.MultiConvert:
		fr.set(instr, m.conv(instr.Type(), instr.X.Type(), fr.get(instr.X)))
	case *ssa.SliceToArrayPointer:
		s := fr.get(instr.X).([]value)
		n := int(instr.Type().Underlying().(*types.Pointer).Elem().Underlying().(*types.Array).Len())
		if len(s) < n {
			panic(goPanic{m.mkRuntimeError("cannot convert slice to array pointer: length too short")})
		}
		if s == nil {
			fr.set(instr, (*value)(nil))
		} else {
			// the array value shares the slice's cells (reads and element stores alias correctly;
			// a whole-array store through this pointer would not write back: documented limitation)
			p := new(value)
			*p = array(s[:n:n])
			fr.set(instr, p)
		}
	case *ssa.MakeInterface:
		fr.set(instr, iface{t: instr.X.Type(), v: fr.get(instr.X)})
	case *ssa.Extract:
		fr.set(instr, fr.get(instr.Tuple).(tuple)[instr.Index])
	case *ssa.Slice:
		fr.set(instr, fr.slice(instr))
	case *ssa.Return:
		switch len(instr.Results) {
		case 0:
		case 1:
			fr.result = fr.get(instr.Results[0])
		default:
			var res tuple
			for _, r := range instr.Results {
				res = append(res, fr.get(r))
			}
			fr.result = res
		}
		return kReturn
	case *ssa.RunDefers:
		fr.runDefers()
	case *ssa.Panic:
		panic(goPanic{fr.get(instr.X)})
	case *ssa.Send:
		ch := fr.get(instr.Chan).(*Chan)
		m.chanSend(ch, fr.get(instr.X))
	case *ssa.Store:
		fr.storeTo(fr.get(instr.Addr), fr.get(instr.Val))
	case *ssa.If:
		return fr.doIf(instr)
	case *ssa.Jump:
		fr.jumpTo(fr.block.Succs[0])
		return kJump
	case *ssa.Defer:
		fn, args := fr.prepareCall(&instr.Call)
		fr.defers = &deferred{fn: fn, args: args, instr: instr, tail: fr.defers}
	case *ssa.Go:
		m.stats.GoStmts++
		fn, args := fr.prepareCall(&instr.Call)
		m.recordGo(fn, args)
	case *ssa.MakeChan:
		n := m.concInt(fr.get(instr.Size))
		fr.set(instr, &Chan{cap: n})
	case *ssa.Alloc:
		var addr *value
		if instr.Heap {
			addr = new(value)
			*addr = m.zero(instr.Type().(*types.Pointer).Elem())
			fr.set(instr, addr)
		} else {
			addr = fr.env[fr.info.index[instr]].(*value)
			*addr = m.zero(instr.Type().(*types.Pointer).Elem())
		}
	case *ssa.MakeSlice:
		n := m.concInt(fr.get(instr.Len))
		c := m.concInt(fr.get(instr.Cap))
		if n < 0 || c < n {
			panic(goPanic{m.mkRuntimeError("makeslice: len out of range")})
		}
		if c > 1<<22 {
			panic(unsupported{fmt.Sprintf("makeslice of %d elements", c)})
		}
		et := instr.Type().Underlying().(*types.Slice).Elem()
		s := make([]value, c)
		z := m.zero(et)
		for i := range s {
			if i == 0 {
				s[i] = z
			} else {
				s[i] = copyVal(z)
			}
		}
		fr.set(instr, s[:n])
	case *ssa.MakeMap:
		fr.set(instr, &Map{kt: instr.Type().Underlying().(*types.Map).Key()})
	case *ssa.Range:
		fr.set(instr, m.rangeIter(fr.get(instr.X), instr.X.Type()))
	case *ssa.Next:
		fr.set(instr, m.next(fr.get(instr.Iter).(*rangeIter), instr))
	case *ssa.FieldAddr:
		fr.set(instr, fr.fieldAddr(fr.get(instr.X), instr.Field))
	case *ssa.Field:
		fr.set(instr, fr.get(instr.X).(structure)[instr.Field])
	case *ssa.IndexAddr:
		fr.set(instr, fr.indexAddr(instr))
	case *ssa.Index:
		fr.set(instr, fr.index(instr))
	case *ssa.Lookup:
		fr.set(instr, fr.lookup(instr))
	case *ssa.MapUpdate:
		mp := fr.get(instr.Map).(*Map)
		if mp == nil {
			panic(goPanic{m.mkRuntimeError("assignment to entry in nil map")})
		}
		m.mapSet(mp, fr.get(instr.Key), fr.get(instr.Value))
	case *ssa.TypeAssert:
		fr.set(instr, m.typeAssert(instr, fr.get(instr.X).(iface)))
	case *ssa.MakeClosure:
		var bindings []value
		for _, b := range instr.Bindings {
			bindings = append(bindings, fr.get(b))
		}
		fr.set(instr, &closure{instr.Fn.(*ssa.Function), bindings})
	case *ssa.Phi:
		// handled in jumpTo
		panic("unexpected phi")
	case *ssa.Select:
		fr.set(instr, fr.doSelect(instr))
	default:
		panic(fmt.Sprintf("unexpected instruction: %T", instr))
	}
	return kNext
}

var debugOn = os.Getenv("VERIF_DEBUG") != ""

type poison struct{ why string }

// initCall runs a call made directly by a package initializer; an unsupported callee poisons the result
// instead of aborting the whole initializer.
func (fr *frame) initCall(instr *ssa.Call) (res value) {
	m := fr.m
	depth, cur := m.depth, m.curFrame
	defer func() {
		if r := recover(); r != nil {
			why := ""
			switch r := r.(type) {
			case unsupported:
				why = r.msg
			case runtime.Error:
				why = "internal: " + r.Error()
			default:
				panic(r)
			}
			m.depth, m.curFrame = depth, cur
			m.stats.InitFailed = append(m.stats.InitFailed, fmt.Sprintf("%s: %s (result poisoned: %s)", fr.fn.Pkg.Pkg.Path(), instr.String(), why))
			res = poison{why}
		}
	}()
	fn, args := fr.prepareCall(&instr.Call)
	return nonNil(m.callValue(fn, args, fr))
}

func nonNil(v value) value {
	if v == nil {
		return tuple(nil)
	}
	return v
}

// jumpTo transfers control to b, evaluating phis in parallel.
func (fr *frame) jumpTo(b *ssa.BasicBlock) {
	pred := fr.block
	fr.enter(b, pred)
}

func (fr *frame) enter(b, pred *ssa.BasicBlock) {
	idx := -1
	for i, p := range b.Preds {
		if p == pred {
			idx = i
			break
		}
	}
	n := 0
	var vals []value
	for _, in := range b.Instrs {
		phi, ok := in.(*ssa.Phi)
		if !ok {
			break
		}
		vals = append(vals, fr.get(phi.Edges[idx]))
		n++
	}
	for i := 0; i < n; i++ {
		fr.set(b.Instrs[i].(*ssa.Phi), vals[i])
	}
	fr.prevBlock = pred
	fr.block = b
	fr.startAt = n
	if n == 0 {
		fr.startAt = 0
	}
}

func (fr *frame) countSym(in ssa.Instruction) {
	if fr.symCount == nil {
		fr.symCount = map[ssa.Instruction]int{}
	}
	fr.symCount[in]++
	if fr.m.cfg.Unwind > 0 && fr.symCount[in] > fr.m.cfg.Unwind {
		panic(pathEnd{"unwind", fmt.Sprintf("%s block %d: more than %d symbolic decisions", fr.fn, in.Block().Index, fr.m.cfg.Unwind)})
	}
}

func (fr *frame) doIf(instr *ssa.If) int {
	m := fr.m
	c := fr.get(instr.Cond).(*Term)
	if c.IsConst() {
		if c.Val == 1 {
			fr.jumpTo(fr.block.Succs[0])
		} else {
			fr.jumpTo(fr.block.Succs[1])
		}
		return kJump
	}
	if !m.cfg.NoMerge {
		if r, ok := fr.tryMerge(instr, c); ok {
			return r
		}
	}
	fr.countSym(instr)
	if m.branch(c) {
		fr.jumpTo(fr.block.Succs[0])
	} else {
		fr.jumpTo(fr.block.Succs[1])
	}
	return kJump
}

// ---------- if-conversion of pure regions ----------

type leaf struct {
	guard *Term
	block *ssa.BasicBlock
	pred  *ssa.BasicBlock
	isRet bool
	ret   value
}

func blockStaticallyPure(b *ssa.BasicBlock) bool {
	for _, in := range b.Instrs {
		switch in := in.(type) {
		case *ssa.BinOp:
			switch in.Op {
			case token.QUO, token.REM:
				if _, ok := in.Y.(*ssa.Const); !ok {
					return false
				}
				if isInteger(in.Y.Type()) {
					if c := in.Y.(*ssa.Const); c.Value == nil || constant.Sign(c.Value) == 0 {
						return false
					}
				}
			case token.SHL, token.SHR:
				if isSigned(in.Y.Type()) {
					if _, ok := in.Y.(*ssa.Const); !ok {
						return false
					}
				}
			}
		case *ssa.UnOp:
			if in.Op == token.ARROW {
				return false
			}
		case *ssa.Convert, *ssa.ChangeType, *ssa.ChangeInterface, *ssa.MakeInterface, *ssa.Extract, *ssa.Phi,
			*ssa.FieldAddr, *ssa.Field, *ssa.IndexAddr, *ssa.Index, *ssa.DebugRef, *ssa.Lookup:
		case *ssa.TypeAssert:
			if !in.CommaOk {
				return false
			}
		case *ssa.If, *ssa.Jump:
		case *ssa.Return:
		case *ssa.Call:
			// calls to pure builtins only
			if bi, ok := in.Call.Value.(*ssa.Builtin); ok {
				switch bi.Name() {
				case "len", "cap", "min", "max":
					continue
				}
			}
			return false
		default:
			return false
		}
	}
	return true
}

type mergeAbort struct{}

// specVisit executes a pure instruction speculatively; returns false if it cannot be proven safe.
func (fr *frame) specVisit(in ssa.Instruction) (ok bool) {
	defer func() {
		if r := recover(); r != nil {
			switch r.(type) {
			case goPanic, unsupported, mergeAbort, runtime.Error, string:
				ok = false
			default:
				panic(r)
			}
		}
	}()
	m := fr.m
	switch in := in.(type) {
	case *ssa.UnOp:
		if in.Op == token.MUL {
			p, isPtr := fr.get(in.X).(*value)
			if !isPtr || p == nil {
				switch fr.get(in.X).(type) {
				case *SymRef, *PtrSet:
				default:
					return false
				}
			}
		}
	case *ssa.FieldAddr:
		if p, isPtr := fr.get(in.X).(*value); isPtr && p == nil {
			return false
		}
	case *ssa.Slice:
		return false
	case *ssa.IndexAddr, *ssa.Index, *ssa.Lookup:
		// only concrete, in-range indices (checked by spec flag below)
	}
	m.spec++
	defer func() { m.spec-- }()
	fr.visit(in)
	return true
}

func (fr *frame) explore(b, pred *ssa.BasicBlock, guard *Term, leaves *[]leaf, budget *int, body bool) bool {
	if len(*leaves) >= 32 {
		return false
	}
	if (!body && len(b.Preds) > 1) || !fr.info.pure[b] {
		*leaves = append(*leaves, leaf{guard: guard, block: b, pred: pred})
		return true
	}
	for _, in := range b.Instrs {
		*budget--
		if *budget < 0 {
			return false
		}
		switch in := in.(type) {
		case *ssa.Phi:
			if !body {
				// single predecessor
				fr.set(in, fr.get(in.Edges[0]))
			}
		case *ssa.Jump:
			return fr.explore(b.Succs[0], b, guard, leaves, budget, false)
		case *ssa.If:
			c := fr.get(in.Cond).(*Term)
			if c.IsConst() {
				if c.Val == 1 {
					return fr.explore(b.Succs[0], b, guard, leaves, budget, false)
				}
				return fr.explore(b.Succs[1], b, guard, leaves, budget, false)
			}
			if !fr.explore(b.Succs[0], b, fr.m.tt.And(guard, c), leaves, budget, false) {
				return false
			}
			return fr.explore(b.Succs[1], b, fr.m.tt.And(guard, fr.m.tt.Not(c)), leaves, budget, false)
		case *ssa.Return:
			if fr.defers != nil || fr.fn.Recover != nil {
				*leaves = append(*leaves, leaf{guard: guard, block: b, pred: pred})
				return true
			}
			var res value
			switch len(in.Results) {
			case 0:
			case 1:
				res = fr.get(in.Results[0])
			default:
				var t tuple
				for _, r := range in.Results {
					t = append(t, fr.get(r))
				}
				res = t
			}
			*leaves = append(*leaves, leaf{guard: guard, isRet: true, ret: res, block: b, pred: pred})
			return true
		default:
			if !fr.specVisit(in) {
				// not provably safe: resume for real at the start of this block
				*leaves = append(*leaves, leaf{guard: guard, block: b, pred: pred})
				return true
			}
		}
	}
	panic("explore: block without terminator")
}

type group struct {
	leaves []leaf
	guard  *Term
	phis   []value
	ret    value
}

func (fr *frame) groupLeaves(leaves []leaf) []*group {
	m := fr.m
	var groups []*group
	for _, lf := range leaves {
		if lf.guard.IsFalse() {
			continue
		}
		placed := false
		for _, g := range groups {
			h := g.leaves[0]
			if h.isRet != lf.isRet {
				continue
			}
			if lf.isRet {
				if v, ok := m.mergeVals(lf.guard, lf.ret, g.ret); ok {
					g.ret = v
					g.leaves = append(g.leaves, lf)
					g.guard = m.tt.Or(g.guard, lf.guard)
					placed = true
					break
				}
				continue
			}
			if h.block != lf.block || len(lf.block.Preds) <= 1 {
				continue
			}
			// join block: merge phi operands
			pv := fr.phiVals(lf.block, lf.pred)
			merged := make([]value, len(pv))
			ok := true
			for i := range pv {
				v, k := m.mergeVals(lf.guard, pv[i], g.phis[i])
				if !k {
					ok = false
					break
				}
				merged[i] = v
			}
			if ok {
				g.phis = merged
				g.leaves = append(g.leaves, lf)
				g.guard = m.tt.Or(g.guard, lf.guard)
				placed = true
				break
			}
		}
		if !placed {
			g := &group{leaves: []leaf{lf}, guard: lf.guard}
			if lf.isRet {
				g.ret = lf.ret
			} else if len(lf.block.Preds) > 1 {
				g.phis = fr.phiVals(lf.block, lf.pred)
			}
			groups = append(groups, g)
		}
	}
	return groups
}

// complete reports whether the group covers every predecessor edge of its join block.
func (g *group) complete() bool {
	h := g.leaves[0]
	if h.isRet || len(h.block.Preds) <= 1 {
		return false
	}
	seen := map[*ssa.BasicBlock]bool{}
	for _, lf := range g.leaves {
		seen[lf.pred] = true
	}
	for _, p := range h.block.Preds {
		if !seen[p] {
			return false
		}
	}
	return true
}

func (fr *frame) tryMerge(instr *ssa.If, c *Term) (int, bool) {
	m := fr.m
	var leaves []leaf
	budget := m.cfg.MergeLimit
	if budget == 0 {
		budget = 600
	}
	b := fr.block
	if !fr.explore(b.Succs[0], b, c, &leaves, &budget, false) {
		return 0, false
	}
	if !fr.explore(b.Succs[1], b, m.tt.Not(c), &leaves, &budget, false) {
		return 0, false
	}
	var groups []*group
	for iter := 0; iter < 16; iter++ {
		groups = fr.groupLeaves(leaves)
		var pick *group
		for _, g := range groups {
			if g.complete() && fr.info.pure[g.leaves[0].block] {
				pick = g
				break
			}
		}
		if pick == nil {
			break
		}
		// continue speculative execution through the closed join
		jb := pick.leaves[0].block
		var rest []leaf
		for _, g := range groups {
			if g != pick {
				rest = append(rest, g.leaves...)
			}
		}
		for i, in := range jb.Instrs {
			phi, ok := in.(*ssa.Phi)
			if !ok {
				break
			}
			fr.set(phi, pick.phis[i])
		}
		nl := rest
		if !fr.explore(jb, pick.leaves[0].pred, pick.guard, &nl, &budget, true) {
			// keep the previous grouping
			break
		}
		// if the join block turned out dynamically impure, explore returned it as a leaf at block start;
		// that leaf must carry the merged phis: detect and stop.
		stuck := false
		for _, lf := range nl[len(rest):] {
			if lf.block == jb && !lf.isRet {
				stuck = true
			}
		}
		if stuck {
			break
		}
		leaves = nl
	}
	if len(groups) == 0 {
		panic(pathEnd{"infeasible", "merge: no leaves"})
	}
	k := 0
	if len(groups) > 1 {
		gs := make([]*Term, len(groups))
		for i, g := range groups {
			gs[i] = g.guard
		}
		fr.countSym(instr)
		k = m.decide('b', gs)
	} else {
		m.stats.Merges++
	}
	g := groups[k]
	if len(g.leaves) > 1 {
		m.stats.Merges++
	}
	h := g.leaves[0]
	if h.isRet {
		fr.result = g.ret
		return kReturn, true
	}
	if len(h.block.Preds) > 1 {
		n := 0
		for i, in := range h.block.Instrs {
			phi, ok := in.(*ssa.Phi)
			if !ok {
				break
			}
			fr.set(phi, g.phis[i])
			n++
		}
		fr.prevBlock = h.pred
		fr.block = h.block
		fr.startAt = n
		return kJump, true
	}
	// single-predecessor impure block: resume at its start
	fr.enter(h.block, h.pred)
	return kJump, true
}

func (fr *frame) phiVals(b, pred *ssa.BasicBlock) []value {
	idx := -1
	for i, p := range b.Preds {
		if p == pred {
			idx = i
			break
		}
	}
	var vals []value
	for _, in := range b.Instrs {
		phi, ok := in.(*ssa.Phi)
		if !ok {
			break
		}
		vals = append(vals, fr.get(phi.Edges[idx]))
	}
	return vals
}

// ---------- goroutines, channels, select ----------

type goRecord struct {
	fn   value
	args []value
}

func (m *Machine) recordGo(fn value, args []value) {
	gs, _ := m.ghost["go"].([]goRecord)
	gs = append(gs, goRecord{fn, args})
	m.ghost["go"] = gs
}

func (m *Machine) chanSend(ch *Chan, v value) {
	if ch == nil {
		panic(pathEnd{"blocked", "send on nil channel"})
	}
	if ch.closed {
		panic(goPanic{m.mkRuntimeErrorPlain("send on closed channel")})
	}
	if len(ch.buf) >= ch.cap {
		if !(m.runBlockPeer() && len(ch.buf) < ch.cap) { // vrt.OnBlock peer, see vrt_onblock.go
			panic(pathEnd{"blocked", "send on full channel"})
		}
	}
	old := ch.buf
	m.trail = append(m.trail, undo{fn: func() { ch.buf = old }})
	ch.buf = append(append([]value(nil), ch.buf...), v)
}

func (m *Machine) chanRecv(ch *Chan, zero value) (value, bool) {
	if ch == nil {
		panic(pathEnd{"blocked", "receive on nil channel"})
	}
	if len(ch.buf) > 0 {
		old := ch.buf
		m.trail = append(m.trail, undo{fn: func() { ch.buf = old }})
		v := ch.buf[0]
		ch.buf = append([]value(nil), ch.buf[1:]...)
		return v, true
	}
	if ch.closed {
		return zero, false
	}
	if m.runBlockPeer() && (len(ch.buf) > 0 || ch.closed) { // vrt.OnBlock peer
		return m.chanRecv(ch, zero)
	}
	panic(pathEnd{"blocked", "receive on empty channel"})
}

func (m *Machine) chanClose(ch *Chan) {
	if ch == nil {
		panic(goPanic{m.mkRuntimeErrorPlain("close of nil channel")})
	}
	if ch.closed {
		panic(goPanic{m.mkRuntimeErrorPlain("close of closed channel")})
	}
	m.trail = append(m.trail, undo{fn: func() { ch.closed = false }})
	ch.closed = true
}

func (fr *frame) doSelect(instr *ssa.Select) value {
	m := fr.m
	// first ready case wins (deterministic; documented)
	chosen := -1
	var recv value = nil
	recvOk := false
	peerRan := false
retry:
	for i, st := range instr.States {
		ch := fr.get(st.Chan).(*Chan)
		if ch == nil {
			continue
		}
		if st.Dir == types.SendOnly {
			if ch.closed {
				panic(goPanic{m.mkRuntimeErrorPlain("send on closed channel")})
			}
			if len(ch.buf) < ch.cap {
				m.chanSend(ch, fr.get(st.Send))
				chosen = i
				break
			}
		} else {
			if len(ch.buf) > 0 || ch.closed {
				et := st.Chan.Type().Underlying().(*types.Chan).Elem()
				recv, recvOk = m.chanRecv(ch, m.zero(et))
				chosen = i
				break
			}
		}
	}
	if chosen < 0 && instr.Blocking {
		if !peerRan && m.runBlockPeer() { // vrt.OnBlock peer
			peerRan = true
			goto retry
		}
		panic(pathEnd{"blocked", "select with no ready case"})
	}
	r := tuple{m.tt.Const(64, uint64(int64(chosen))), m.tt.Bool(recvOk)}
	for i, st := range instr.States {
		if st.Dir == types.RecvOnly {
			et := st.Chan.Type().Underlying().(*types.Chan).Elem()
			if i == chosen {
				r = append(r, recv)
			} else {
				r = append(r, m.zero(et))
			}
		}
	}
	return r
}
