package sym

// Floating-point helpers of package math on CONCRETE operands.
//
// The engine does not encode floating point symbolically: a float64 value is a Go float64 inside the
// interpreter and every operator on it is evaluated concretely (ops.go). math.Abs / math.Float64bits /
// math.Float64frombits are written with unsafe pointer casts between float64 and uint64 cells, which the
// typed memory of the interpreter cannot follow, so they are evaluated here on the concrete value. A
// symbolic operand cannot reach them (int -> float conversion of a symbolic integer ends the path as
// `unsupported`).

import (
	"math"

	"golang.org/x/tools/go/ssa"
)

func init() {
	f64 := func(v value) float64 {
		f, ok := v.(float64)
		if !ok {
			panic(unsupported{"math function on a non-concrete float"})
		}
		return f
	}
	intrinsics["math.Abs"] = func(m *Machine, fn *ssa.Function, a []value) value { return math.Abs(f64(a[0])) }
	intrinsics["math.Float64bits"] = func(m *Machine, fn *ssa.Function, a []value) value {
		return m.tt.Const(64, math.Float64bits(f64(a[0])))
	}
	intrinsics["math.Float64frombits"] = func(m *Machine, fn *ssa.Function, a []value) value {
		t, ok := a[0].(*Term)
		if !ok || !t.IsConst() {
			panic(unsupported{"math.Float64frombits of a symbolic value"})
		}
		return math.Float64frombits(t.Val)
	}
}
