package bfe_fcgi

// C55 — FastCGI requests and responses are encoded faithfully.
// Kernel: FCGIClient.writePairs, encodeSize, newWriter/bufWriter/streamWriter.Write/Close, writeRecord,
// header.init, writeBeginRequest, FCGIClient.Do; streamReader.Read, record.read.
// The responder is an in-memory io.ReadWriteCloser; what bfe writes is decoded by a reference
// FastCGI record / name-value decoder written here from the FastCGI 1.0 specification (3.3, 3.4).

import (
	"bytes"
	"io"
	"strings"

	vrt "github.com/bfenetworks/bfe/zz_vrt"
)

type rwcC55 struct {
	out    []byte   // everything written by the client
	writes [][]byte // one entry per Write call
	in     []byte   // what the responder sends
	pos    int
}

func (c *rwcC55) Write(p []byte) (int, error) {
	c.out = append(c.out, p...)
	c.writes = append(c.writes, append([]byte{}, p...))
	return len(p), nil
}
func (c *rwcC55) Read(p []byte) (int, error) {
	if c.pos >= len(c.in) {
		return 0, io.EOF
	}
	n := copy(p, c.in[c.pos:])
	c.pos += n
	return n, nil
}
func (c *rwcC55) Close() error { return nil }

type recC55 struct {
	typ     uint8
	id      uint16
	content []byte
}

// decodeRecordsC55: FastCGI 3.3 — version(1) type(1) requestId(2) contentLength(2) paddingLength(1)
// reserved(1) content padding. ok = the byte stream is exactly a sequence of complete records.
func decodeRecordsC55(b []byte) (recs []recC55, ok bool) {
	for len(b) > 0 {
		if len(b) < 8 || b[0] != 1 {
			return recs, false
		}
		cl := int(b[4])<<8 | int(b[5])
		pl := int(b[6])
		if len(b) < 8+cl+pl {
			return recs, false
		}
		recs = append(recs, recC55{typ: b[1], id: uint16(b[2])<<8 | uint16(b[3]), content: b[8 : 8+cl]})
		b = b[8+cl+pl:]
	}
	return recs, true
}

// decodeSizeC55: FastCGI 3.4 — one byte if the high bit is clear, else four bytes (31-bit length).
func decodeSizeC55(b []byte) (size int, n int, ok bool) {
	if len(b) < 1 {
		return 0, 0, false
	}
	if b[0]&0x80 == 0 {
		return int(b[0]), 1, true
	}
	if len(b) < 4 {
		return 0, 0, false
	}
	return int(b[0]&0x7f)<<24 | int(b[1])<<16 | int(b[2])<<8 | int(b[3]), 4, true
}

type pairC55 struct{ k, v string }

func decodePairsC55(b []byte) (pairs []pairC55, ok bool) {
	for len(b) > 0 {
		kl, n1, ok1 := decodeSizeC55(b)
		if !ok1 {
			return pairs, false
		}
		vl, n2, ok2 := decodeSizeC55(b[n1:])
		if !ok2 || len(b) < n1+n2+kl+vl {
			return pairs, false
		}
		b = b[n1+n2:]
		pairs = append(pairs, pairC55{string(b[:kl]), string(b[kl : kl+vl])})
		b = b[kl+vl:]
	}
	return pairs, true
}

// checkParamsC55: the PARAMS records written decode to exactly the input pairs (any order), every
// record is complete, carries request id 1, and the stream ends with exactly one empty record.
func checkParamsC55(c *rwcC55, in []pairC55) {
	recs, ok := decodeRecordsC55(c.out)
	vrt.Assert(ok, "C55/records-well-formed")
	var stream []byte
	empties := 0
	for i, r := range recs {
		vrt.Assert(r.typ == FCGIParams && r.id == 1, "C55/record-type-and-id")
		vrt.Assert(len(r.content) <= 65535 && len(c.writes[i]) <= 8+65535+255, "C55/record-payload-at-most-65535")
		if len(r.content) == 0 {
			empties++
			vrt.Assert(i == len(recs)-1, "C55/empty-record-only-terminates")
		}
		stream = append(stream, r.content...)
	}
	vrt.Assert(empties == 1, "C55/params-stream-terminated")
	got, ok := decodePairsC55(stream)
	vrt.Assert(ok, "C55/params-decodable")
	vrt.Assert(len(got) == len(in), "C55/params-count")
	for _, p := range in {
		found := false
		for _, g := range got {
			if g.k == p.k && g.v == p.v {
				found = true
			}
		}
		vrt.Assert(found, "C55/params-decode-to-input")
	}
}

// boundary lengths around the one-byte/four-byte size encoding and around maxWrite (65500)
var keyLensC55 = []int{1, 127, 128, 65491, 65492, 65493, 65530}
var valLensC55 = []int{0, 1, 127, 128, 65364, 65365, 65491, 65492, 65499, 70000}

// VerifC55_pairSizes: one parameter whose name and value lengths come from the boundary lists
// (contents are fixed bytes: only the size arithmetic matters here).
func VerifC55_pairSizes() {
	kl := keyLensC55[vrt.Choose("keyLen", len(keyLensC55))]
	vl := valLensC55[vrt.Choose("valLen", len(valLensC55))]
	k, v := strings.Repeat("k", kl), strings.Repeat("v", vl)
	c := &rwcC55{}
	client := &FCGIClient{rwc: c, reqId: 1}
	vrt.Known("C55-long-name-panics", 8+kl > maxWrite)
	vrt.Known("C55-long-value-truncated", 8+kl+vl > maxWrite && 8+kl <= maxWrite)
	err := client.writePairs(FCGIParams, map[string]string{k: v})
	vrt.Assert(err == nil, "C55/write-pairs-no-error")
	checkParamsC55(c, []pairC55{{k, v}})
}

// VerifC55_twoPairs: two parameters whose sizes straddle the record-flush rule of writePairs
// ((nn+m) > maxWrite), both map iteration orders.
func VerifC55_twoPairs() {
	vrt.MapOrder(true)
	v1 := []int{65300, 65480, 65489, 65490}[vrt.Choose("v1", 4)]
	v2 := []int{0, 1, 10, 200}[vrt.Choose("v2", 4)]
	a, b := strings.Repeat("x", v1), strings.Repeat("y", v2)
	c := &rwcC55{}
	client := &FCGIClient{rwc: c, reqId: 1}
	err := client.writePairs(FCGIParams, map[string]string{"A": a, "B": b})
	vrt.Assert(err == nil, "C55/write-pairs-no-error")
	checkParamsC55(c, []pairC55{{"A", a}, {"B", b}})
}

// VerifC55_pairContent: one or two small parameters with fully symbolic names and values.
func VerifC55_pairContent() {
	vrt.MapOrder(true)
	k1 := vrt.Str("k1", vrt.Range("k1Len", 1, 2))
	v1 := vrt.Str("v1", vrt.Range("v1Len", 0, vrt.Param("V", 2)))
	in := []pairC55{{k1, v1}}
	m := map[string]string{k1: v1}
	if vrt.Choose("pairs", 2) == 1 {
		k2 := vrt.Str("k2", 1)
		v2 := vrt.Str("v2", vrt.Range("v2Len", 0, 1))
		vrt.Assume(k2 != k1)
		m[k2] = v2
		in = append(in, pairC55{k2, v2})
	}
	c := &rwcC55{}
	client := &FCGIClient{rwc: c, reqId: 1}
	err := client.writePairs(FCGIParams, m)
	vrt.Assert(err == nil, "C55/write-pairs-no-error")
	checkParamsC55(c, in)
}

// VerifC55_request: a whole request through Do: BEGIN_REQUEST(responder), PARAMS..., empty PARAMS,
// STDIN records carrying exactly the body, empty STDIN.
func VerifC55_request() {
	body := vrt.Bytes("body", vrt.Range("bodyLen", 0, vrt.Param("B", 3)))
	c := &rwcC55{}
	client := &FCGIClient{rwc: c, reqId: 1}
	_, err := client.Do(map[string]string{"K": "v"}, bytes.NewReader(body))
	vrt.Assert(err == nil, "C55/do-no-error")
	recs, ok := decodeRecordsC55(c.out)
	vrt.Assert(ok && len(recs) >= 4, "C55/records-well-formed")
	vrt.Assert(recs[0].typ == FCGIBeginRequest && len(recs[0].content) == 8 && recs[0].content[0] == 0 &&
		recs[0].content[1] == FCGIResponser && recs[0].content[2] == 0, "C55/begin-request-responder")
	var params, stdin []byte
	phase := 0 // 0 params, 1 stdin, 2 done
	for _, r := range recs[1:] {
		vrt.Assert(r.id == 1, "C55/record-type-and-id")
		switch {
		case phase == 0 && r.typ == FCGIParams:
			params = append(params, r.content...)
			if len(r.content) == 0 {
				phase = 1
			}
		case phase == 1 && r.typ == FCGIStdin:
			stdin = append(stdin, r.content...)
			if len(r.content) == 0 {
				phase = 2
			}
		default:
			vrt.Assert(false, "C55/record-order")
		}
	}
	vrt.Assert(phase == 2, "C55/streams-terminated")
	pairs, ok := decodePairsC55(params)
	vrt.Assert(ok && len(pairs) == 1 && pairs[0].k == "K" && pairs[0].v == "v", "C55/params-decode-to-input")
	vrt.Assert(bytes.Equal(stdin, body), "C55/stdin-is-request-body")
}

// VerifC55_response: the responder sends up to R records of type STDOUT / STDERR / END_REQUEST with
// 0..2 symbolic content bytes and 0 or 3 padding bytes; the reader handed to the HTTP layer must
// yield exactly the STDOUT contents that precede END_REQUEST.
func VerifC55_response() {
	R := vrt.Range("records", 0, vrt.Param("R", 3))
	var wire, want []byte
	ended, stderrSeen := false, false
	for i := 0; i < R; i++ {
		typ := []uint8{FCGIStdout, FCGIStderr, FCGIEndRequest}[vrt.Choose("type", 3)]
		cl := vrt.Range("contentLen", 0, 2)
		if typ == FCGIEndRequest {
			cl = 8
		}
		pl := []int{0, 3}[vrt.Choose("pad", 2)]
		content := vrt.Bytes("content", cl)
		wire = append(wire, 1, typ, 0, 1, 0, byte(cl), byte(pl), 0)
		wire = append(wire, content...)
		wire = append(wire, make([]byte, pl)...)
		if !ended {
			switch typ {
			case FCGIStdout:
				want = append(want, content...)
			case FCGIStderr:
				if cl > 0 {
					stderrSeen = true
				}
			case FCGIEndRequest:
				ended = true
			}
		}
	}
	c := &rwcC55{in: wire}
	client := &FCGIClient{rwc: c, reqId: 1}
	r := &streamReader{c: client}
	var got []byte
	var err error
	buf := make([]byte, 3)
	for i := 0; i < 3*R+4 && err == nil; i++ {
		var n int
		n, err = r.Read(buf)
		got = append(got, buf[:n]...)
	}
	vrt.Known("C55-stderr-mixed-into-response", stderrSeen)
	vrt.Assert(err != nil, "C55/response-stream-ends")
	vrt.Assert(bytes.Equal(got, want), "C55/response-body-is-stdout-only")
}

// ---------------------------------------------------------------- focused checks (seeded-change review)

// VerifC55_bigRecord: the responder sends one STDOUT record at the top of the 16-bit content length range
// (65000, 65528, 65529, 65535 bytes; first and last byte symbolic, pattern between) with 0, 1, 7 or 255
// padding bytes — contentLength + paddingLength may exceed 65535, which is legal (FastCGI 3.3) and what
// net/http/fcgi emits for large replies —, then a 2-byte STDOUT record and END_REQUEST. The reader must
// yield exactly the two contents.
func VerifC55_bigRecord() {
	cl := []int{65000, 65528, 65529, 65535}[vrt.Choose("contentLen", 4)]
	pl := []int{0, 1, 7, 255}[vrt.Choose("pad", 4)]
	content := bytes.Repeat([]byte("0123456789abcdef"), 4096)[:cl]
	content[0], content[cl-1] = vrt.Byte("first"), vrt.Byte("last")
	small := vrt.Bytes("small", 2)
	var wire []byte
	wire = append(wire, 1, FCGIStdout, 0, 1, byte(cl>>8), byte(cl), byte(pl), 0)
	wire = append(wire, content...)
	wire = append(wire, make([]byte, pl)...)
	wire = append(wire, 1, FCGIStdout, 0, 1, 0, 2, 6, 0)
	wire = append(wire, small...)
	wire = append(wire, 0, 0, 0, 0, 0, 0)
	wire = append(wire, 1, FCGIEndRequest, 0, 1, 0, 8, 0, 0, 0, 0, 0, 0, 0, 0, 0, 0)
	c := &rwcC55{in: wire}
	client := &FCGIClient{rwc: c, reqId: 1}
	r := &streamReader{c: client}
	var got []byte
	var err error
	buf := make([]byte, 70000)
	for i := 0; i < 6 && err == nil; i++ {
		var n int
		n, err = r.Read(buf)
		got = append(got, buf[:n]...)
	}
	vrt.Assert(err == io.EOF, "C55/big-record-stream-ends")
	vrt.Assert(len(got) == cl+2, "C55/big-record-length")
	vrt.Assert(bytes.Equal(got, append(append([]byte{}, content...), small...)), "C55/big-record-body-exact")
}
