package bfe_bufio

// C22 — buffered I/O preserves the byte stream and counts it exactly.
//
// The Reader/Writer under test are the real ones. Everything else in this file is harness:
// a source that hands out a symbolic stream in chunks of chosen sizes, a sink that accepts a
// chosen number of bytes per call, and a reference *stream cursor* (the oracle).

import (
	"io"
	"unicode/utf8"

	vrt "github.com/bfenetworks/bfe/zz_vrt"
)

const bufC22 = 16 // minReadBufferSize: the smallest buffer NewReaderSize will build

// ---------- underlying reader ----------

// srcC22 delivers data in chunks. The first len(plan) calls deliver plan[i] bytes (0 = as much as
// fits); after that every call draws the chunk size with vrt.Choose from {1..chmax} ∪ {as much as
// fits} (chmax == 0: always as much as fits); up to `zeros` calls may return (0, nil); the end of the
// stream is reported either together with the last chunk or by a separate (0, io.EOF) call (eofWithData).
type srcC22 struct {
	data        []byte
	plan        []int
	pos         int
	chmax       int
	zeros       int
	eofWithData bool
	calls       int
	posAtLast   int // pos on entry to the most recent Read call
}

func (s *srcC22) Read(p []byte) (int, error) {
	s.calls++
	s.posAtLast = s.pos
	rem := len(s.data) - s.pos
	if rem == 0 {
		return 0, io.EOF
	}
	if len(p) == 0 {
		return 0, nil
	}
	if s.zeros > 0 && vrt.Choose("zero", 2) == 1 {
		s.zeros--
		return 0, nil
	}
	hi := len(p)
	if rem < hi {
		hi = rem
	}
	var k int
	if s.calls <= len(s.plan) {
		k = s.plan[s.calls-1]
		if k == 0 || k > hi {
			k = hi
		}
	} else if s.chmax == 0 {
		k = hi
	} else if hi <= s.chmax {
		k = vrt.Range("chunk", 1, hi)
	} else {
		c := vrt.Choose("chunk", s.chmax+1)
		if c < s.chmax {
			k = c + 1
		} else {
			k = hi
		}
	}
	copy(p, s.data[s.pos:s.pos+k])
	s.pos += k
	if s.pos == len(s.data) && s.eofWithData {
		return k, io.EOF
	}
	return k, nil
}

// ---------- underlying writer ----------

var errSinkC22 = io.ErrClosedPipe // any non-nil error: the sink refused part of a write

// sinkC22 accepts at most `room` more bytes in total; a call that does not fit is a short write with an
// error (the io.Writer contract). room < 0 means unlimited.
type sinkC22 struct {
	data  []byte
	room  int
	calls int
}

func (s *sinkC22) Write(p []byte) (int, error) {
	s.calls++
	if s.room < 0 || len(p) <= s.room {
		s.data = append(s.data, p...)
		if s.room >= 0 {
			s.room -= len(p)
		}
		return len(p), nil
	}
	k := s.room
	s.data = append(s.data, p[:k]...)
	s.room = 0
	return k, errSinkC22
}

// ---------- helpers (pure, concrete loop bounds) ----------

// eqC22: got == stream[at : at+len(got)]
func eqC22(got []byte, stream []byte, at int) bool {
	if at < 0 || at+len(got) > len(stream) {
		return false
	}
	ok := true
	for i := 0; i < len(got); i++ {
		if got[i] != stream[at+i] {
			ok = false
		}
	}
	return ok
}

// countC22: number of bytes equal to c in b[:n]
func noByteC22(b []byte, n int, c byte) bool {
	ok := true
	for i := 0; i < n && i < len(b); i++ {
		if b[i] == c {
			ok = false
		}
	}
	return ok
}

// op codes
const (
	opReadC22 = iota
	opReadByteC22
	opUnreadByteC22
	opReadSliceC22
	opReadLineC22
	opPeekC22
	opReadRuneC22
	opUnreadRuneC22
	opWriteToC22
	opReadBytesC22
	opReadStringC22
)

type opC22 struct {
	kind int
	arg  int
}

// runReaderC22 is the common body: a script of nops operations drawn from menu over a stream of L
// symbolic bytes. The oracle is the cursor `cur` (= bytes consumed so far, net of unreads).
func runReaderC22(stream []byte, plan []int, chmax, zeros, nops int, menu []opC22) {
	L := len(stream)
	src := &srcC22{data: stream, plan: plan, chmax: chmax, zeros: zeros, eofWithData: vrt.Choose("eofmode", 2) == 1}
	r := NewReaderSize(src, bufC22)
	cur := 0
	lastWasRead := false // previous operation returned at least one byte through Read/ReadByte
	// bookkeeping for two known-defect classes (what the Reader remembers for UnreadByte/UnreadRune)
	haveLast, lineSinceLast := false, false  // a byte is remembered / a line operation or WriteTo consumed bytes since
	runeArmed, lineSinceRune := false, false // a rune size is remembered / ... since
	cntOK := make([]bool, nops)
	for k := 0; k < nops; k++ {
		op := menu[vrt.Choose("op", len(menu))]
		tr0, cur0, calls0 := r.TotalRead, cur, src.calls
		delimFound := false
		wasRead := false
		switch op.kind {
		case opReadC22:
			p := make([]byte, op.arg)
			// Known defect: a zero-length Read hands out (and clears) a pending io.EOF although
			// buffered bytes are still undelivered (std bufio returns (0, nil) while Buffered() > 0).
			vrt.Known("C22-empty-read-reports-eof-before-buffered-data", op.arg == 0 && r.Buffered() > 0)
			n, err := r.Read(p)
			vrt.Assert(n >= 0 && n <= len(p), "C22/read-count-in-range")
			vrt.Assert(eqC22(p[:n], stream, cur), "C22/read-data")
			cur += n
			vrt.Assert(err == nil || err == io.EOF, "C22/read-error-kind")
			if err == io.EOF {
				vrt.Assert(cur == L, "C22/read-eof-only-at-end")
			}
			wasRead = n > 0
			if n > 0 {
				haveLast, lineSinceLast, runeArmed = true, false, false
			}
		case opReadByteC22:
			c, err := r.ReadByte()
			runeArmed = false
			if err == nil {
				haveLast, lineSinceLast = true, false
				vrt.Assert(cur < L && c == stream[cur], "C22/readbyte-data")
				cur++
				wasRead = true
			} else {
				vrt.Assert(err == io.EOF && cur == L, "C22/readbyte-eof-only-at-end")
			}
		case opUnreadByteC22:
			// Known defect: ReadSlice/ReadLine/ReadBytes/ReadString/WriteTo do not update the byte
			// remembered for UnreadByte; when they emptied the buffer, UnreadByte re-inserts the byte
			// remembered from an earlier Read/ReadByte/ReadRune instead of the last byte delivered.
			vrt.Known("C22-unreadbyte-restores-stale-byte", haveLast && lineSinceLast && r.Buffered() == 0)
			err := r.UnreadByte()
			runeArmed = false
			if err == nil {
				haveLast = false
				vrt.Assert(cur > 0, "C22/unreadbyte-nothing-to-unread")
				cur--
			} else if lastWasRead {
				vrt.Assert(false, "C22/unreadbyte-after-read-succeeds")
			}
		case opReadSliceC22, opReadBytesC22, opReadStringC22:
			var line []byte
			var err error
			switch op.kind {
			case opReadSliceC22:
				line, err = r.ReadSlice('\n')
			case opReadBytesC22:
				line, err = r.ReadBytes('\n')
			default:
				var s string
				s, err = r.ReadString('\n')
				line = []byte(s)
			}
			vrt.Assert(eqC22(line, stream, cur), "C22/readslice-data")
			n := len(line)
			if err == nil {
				vrt.Assert(n > 0 && line[n-1] == '\n', "C22/readslice-ends-in-delim")
				vrt.Assert(noByteC22(line, n-1, '\n'), "C22/readslice-first-delim")
				delimFound = true
			} else {
				vrt.Assert(noByteC22(line, n, '\n'), "C22/readslice-error-means-no-delim")
				if op.kind == opReadSliceC22 {
					vrt.Assert(err == io.EOF || err == ErrBufferFull, "C22/readslice-error-kind")
				} else {
					vrt.Assert(err == io.EOF, "C22/readslice-error-kind")
				}
				if err == ErrBufferFull {
					vrt.Assert(n == bufC22, "C22/readslice-bufferfull-only-when-full")
				}
			}
			cur += n
			if n > 0 {
				lineSinceLast, lineSinceRune = true, true
			}
			if err == io.EOF {
				vrt.Assert(cur == L, "C22/readslice-eof-only-at-end")
			}
		case opReadLineC22:
			line, isPrefix, err := r.ReadLine()
			n := len(line)
			if err != nil {
				vrt.Assert(line == nil && !isPrefix, "C22/readline-line-or-error")
				vrt.Assert(err == io.EOF && cur == L, "C22/readline-eof-only-at-end")
			} else {
				vrt.Assert(eqC22(line, stream, cur), "C22/readline-data")
				vrt.Assert(noByteC22(line, n, '\n'), "C22/readline-no-newline-inside")
				e := cur + n
				if isPrefix {
					// Known defect: when the full buffer ends in '\r' ReadLine gives the '\r' back
					// (b.r--) but leaves TotalRead at the 16 bytes ReadSlice counted.
					vrt.Known("C22-readline-cr-putback-overcount", n == bufC22-1)
					cur = e
				} else if e == L {
					cur = e
				} else if stream[e] == '\n' {
					cur = e + 1
					delimFound = true
				} else {
					vrt.Assert(stream[e] == '\r' && e+1 < L && stream[e+1] == '\n', "C22/readline-ends-at-line-end")
					cur = e + 2
					delimFound = true
				}
			}
		case opPeekC22:
			bs, err := r.Peek(op.arg)
			vrt.Assert(len(bs) <= op.arg, "C22/peek-count")
			vrt.Assert(eqC22(bs, stream, cur), "C22/peek-data")
			if err == nil {
				vrt.Assert(len(bs) == op.arg, "C22/peek-short-without-error")
			} else {
				vrt.Assert(len(bs) < op.arg, "C22/peek-error-with-full-count")
				if err == io.EOF {
					vrt.Assert(cur+len(bs) == L, "C22/peek-eof-only-at-end")
				} else {
					vrt.Assert(err == ErrBufferFull && op.arg > bufC22, "C22/peek-error-kind")
				}
			}
		case opReadRuneC22:
			ru, size, err := r.ReadRune()
			runeArmed = false
			if err == nil {
				haveLast, lineSinceLast, runeArmed, lineSinceRune = true, false, true, false
			}
			if err != nil {
				vrt.Assert(err == io.EOF && cur == L && size == 0, "C22/readrune-eof-only-at-end")
			} else {
				wr, ws := utf8.DecodeRune(stream[cur:])
				vrt.Assert(size == ws && ru == wr, "C22/readrune-value")
				cur += size
			}
		case opUnreadRuneC22:
			// The size given back is not observable from the result; the position assertion below
			// (bytes taken from the source - bytes still buffered) pins it.
			// Known defect: ReadSlice/ReadLine/... and WriteTo do not forget the size of the last rune;
			// UnreadRune then moves the read index back by that size although other bytes were consumed
			// since (below the start of the buffer when the buffer was refilled in between).
			vrt.Known("C22-unreadrune-after-line-read", runeArmed && lineSinceRune)
			b0 := r.Buffered()
			err := r.UnreadRune()
			if err == nil {
				haveLast, runeArmed = false, false
				back := r.Buffered() - b0
				vrt.Assert(back >= 1 && back <= 4 && back <= cur, "C22/unreadrune-size")
				cur -= back
			}
		case opWriteToC22:
			sink := &sinkC22{room: -1}
			z0 := src.zeros
			n, err := r.WriteTo(sink)
			// Known defect: WriteTo's copy loop ends at the first fill that brings nothing, so one
			// (0, nil) from the underlying reader is taken for the end of the stream (and err is nil).
			vrt.Known("C22-writeto-stops-at-empty-read", src.zeros < z0)
			vrt.Assert(int(n) == len(sink.data), "C22/writeto-count")
			vrt.Assert(eqC22(sink.data, stream, cur), "C22/writeto-data")
			cur += int(n)
			vrt.Assert(err == nil && cur == L, "C22/writeto-drains")
		}
		lastWasRead = wasRead
		if (op.kind == opReadLineC22 || op.kind == opWriteToC22) && cur > cur0 {
			lineSinceLast, lineSinceRune = true, true
		}
		// bytes handed out by the source = bytes consumed by the client + bytes still buffered
		vrt.Assert(src.pos-r.Buffered() == cur, "C22/position")
		// ... and the buffered bytes are the next bytes of the stream (Peek within the buffer reads nothing)
		bn := r.Buffered()
		if bn >= 0 && bn <= bufC22 && (k == nops-1 || op.kind == opUnreadByteC22 || op.kind == opUnreadRuneC22) {
			pk, _ := r.Peek(bn)
			vrt.Assert(len(pk) == bn && eqC22(pk, stream, cur), "C22/buffered-data")
		}
		// Known defect: ReadSlice (and everything built on it) adds only the part of the line that
		// arrived with the *last* fill when bytes were already buffered before that fill.
		vrt.Known("C22-readslice-straddle-undercount",
			delimFound && src.calls > calls0 && src.posAtLast > cur0)
		cntOK[k] = r.TotalRead-tr0 == cur-cur0
	}
	for k := 0; k < nops; k++ {
		vrt.Assert(cntOK[k], "C22/total-read")
	}
}

// most interesting first: the registry picks a prefix of this menu with MENU
var menuShortC22 = []opC22{
	{opReadSliceC22, 0}, {opReadLineC22, 0}, {opReadByteC22, 0}, {opUnreadByteC22, 0},
	{opReadC22, 2}, {opPeekC22, 2}, {opReadC22, 0}, {opWriteToC22, 0},
	{opReadBytesC22, 0}, {opReadC22, 16}, {opPeekC22, 17}, {opReadStringC22, 0},
}

// VerifC22_readerShort: short streams, tiny chunks (every call chooses 1..CH bytes or all that fits).
func VerifC22_readerShort() {
	L := vrt.Range("L", 0, vrt.Param("L", 4))
	runReaderC22(vrt.Bytes("stream", L), nil, vrt.Param("CH", 2), vrt.Param("Z", 0), vrt.Param("NOPS", 3),
		menuShortC22[:vrt.Param("MENU", len(menuShortC22))])
}

// most interesting first: the registry picks a prefix of this menu with MENU
var menuLongC22 = []opC22{
	{opReadLineC22, 0}, {opReadSliceC22, 0}, {opReadByteC22, 0}, {opReadC22, 17}, {opPeekC22, 16},
	{opUnreadByteC22, 0}, {opReadC22, 5}, {opReadC22, 16}, {opWriteToC22, 0}, {opReadBytesC22, 0},
}

// chunk plans (sizes of the first two underlying reads, 0 = all that fits; later reads: all that fits)
var plansC22 = [][]int{{0, 0}, {15, 0}, {1, 0}, {1, 1}, {15, 1}}

// VerifC22_readerLong: streams longer than the buffer (buffer-full, "\r\n" straddling the buffer end,
// direct large reads, slide-on-fill). Chunking: one of the first PLANS entries of plansC22. '\n' may occur only at index >= NLFROM.
func VerifC22_readerLong() {
	L := vrt.Range("L", vrt.Param("LMIN", 15), vrt.Param("LMAX", 18))
	stream := vrt.Bytes("stream", L)
	vrt.Assume(noByteC22(stream, vrt.Param("NLFROM", 0), '\n'))
	plan := plansC22[vrt.Choose("plan", vrt.Param("PLANS", len(plansC22)))]
	runReaderC22(stream, plan, 0, 0, vrt.Param("NOPS", 2), menuLongC22[:vrt.Param("MENU", len(menuLongC22))])
}

var menuRuneC22 = []opC22{
	{opReadRuneC22, 0}, {opUnreadRuneC22, 0}, {opReadByteC22, 0}, {opReadSliceC22, 0}, {opUnreadByteC22, 0}, {opPeekC22, 1},
}

// VerifC22_readerRune: ReadRune/UnreadRune mixed with byte operations.
func VerifC22_readerRune() {
	L := vrt.Range("L", 0, vrt.Param("L", 4))
	stream := vrt.Bytes("stream", L)
	if vrt.Param("ALPHA", 0) == 1 {
		// quick tier: one representative per UTF-8 byte class instead of all 256 values
		for i := 0; i < L; i++ {
			c := stream[i]
			vrt.Assume(c == 'a' || c == 0x80 || c == 0xbf || c == 0xc3 || c == 0xe2 || c == 0xed || c == 0xf0 || c == 0xff)
		}
	}
	runReaderC22(stream, nil, vrt.Param("CH", 1), 0, vrt.Param("NOPS", 3), menuRuneC22[:vrt.Param("MENU", len(menuRuneC22))])
}

// ---------- Writer ----------

const (
	wWriteC22 = iota
	wWriteByteC22
	wWriteStringC22
	wFlushC22
	wReadFromC22
	wWriteRuneC22
)

var menuWriterC22 = []opC22{
	{wWriteC22, 0}, {wWriteC22, 3}, {wWriteC22, 14}, {wWriteC22, 17},
	{wWriteByteC22, 0}, {wWriteStringC22, 5}, {wWriteStringC22, 17}, {wFlushC22, 0},
	{wReadFromC22, 3}, {wReadFromC22, 17}, {wWriteRuneC22, 0},
}

// chunk plans of the source handed to ReadFrom (0 = all that fits; later reads: all that fits)
var plansRFC22 = [][]int{{0}, {1, 0}, {5, 1}}

// prefixC22: a == b[:len(a)]
func prefixC22(a, b []byte) bool {
	if len(a) > len(b) {
		return false
	}
	ok := true
	for i := 0; i < len(a); i++ {
		if a[i] != b[i] {
			ok = false
		}
	}
	return ok
}

// VerifC22_writer: a script of NOPS writer operations over a sink that accepts ROOM more bytes in total
// (ROOM chosen; -1 = unlimited). acc = the bytes the Writer reported as accepted, in order.
func VerifC22_writer() {
	nops := vrt.Param("NOPS", 3)
	room := vrt.Range("room", -1, vrt.Param("ROOM", 2))
	if room >= 0 {
		room = room * vrt.Param("ROOMSTEP", 9)
	}
	sink := &sinkC22{room: room}
	w := NewWriterSize(sink, bufC22)
	var acc []byte
	cntOK := make([]bool, nops)
	for k := 0; k < nops; k++ {
		op := menuWriterC22[vrt.Choose("op", len(menuWriterC22))]
		tw0, acc0 := w.TotalWrite, len(acc)
		flushErrInReadFrom := false
		switch op.kind {
		case wWriteC22:
			p := vrt.Bytes("w", op.arg)
			n, err := w.Write(p)
			vrt.Assert(n >= 0 && n <= len(p), "C22/write-count-in-range")
			vrt.Assert(n == len(p) || err != nil, "C22/write-short-iff-error")
			acc = append(acc, p[:n]...)
		case wWriteByteC22:
			c := vrt.Byte("wb")
			if w.WriteByte(c) == nil {
				acc = append(acc, c)
			}
		case wWriteStringC22:
			s := vrt.Str("ws", op.arg)
			n, err := w.WriteString(s)
			vrt.Assert(n >= 0 && n <= len(s), "C22/write-count-in-range")
			vrt.Assert(n == len(s) || err != nil, "C22/write-short-iff-error")
			acc = append(acc, s[:n]...)
		case wFlushC22:
			if w.Flush() == nil {
				vrt.Assert(w.Buffered() == 0, "C22/flush-empties")
			}
		case wReadFromC22:
			data := vrt.Bytes("rf", op.arg)
			src := &srcC22{data: data, plan: plansRFC22[vrt.Choose("plan", len(plansRFC22))], eofWithData: vrt.Choose("eofmode", 2) == 1}
			n, err := w.ReadFrom(src)
			vrt.Assert(int(n) == src.pos, "C22/readfrom-count")
			acc = append(acc, data[:src.pos]...)
			if err == nil {
				vrt.Assert(src.pos == len(data), "C22/readfrom-reads-to-eof")
			}
			flushErrInReadFrom = err != nil && n > 0
		case wWriteRuneC22:
			ru := rune(vrt.I32("rune"))
			vrt.Assume(ru >= 0 && ru <= 0x10ffff)
			n, err := w.WriteRune(ru)
			if err == nil {
				var tmp [4]byte
				m := utf8.EncodeRune(tmp[:], ru)
				vrt.Assert(n == m, "C22/writerune-size")
				acc = append(acc, tmp[:m]...)
			} else {
				vrt.Assert(n == 0, "C22/writerune-size")
			}
		}
		// what reached the sink is a prefix of what was accepted; nothing is lost: sink + buffered = accepted
		vrt.Assert(prefixC22(sink.data, acc), "C22/writer-stream")
		vrt.Assert(len(sink.data)+w.Buffered() == len(acc), "C22/writer-position")
		vrt.Known("C22-readfrom-flush-error-undercount", flushErrInReadFrom)
		cntOK[k] = w.TotalWrite-tw0 == len(acc)-acc0
	}
	if w.Flush() == nil {
		vrt.Assert(len(sink.data) == len(acc) && prefixC22(acc, sink.data), "C22/writer-flushed-all")
	}
	for k := 0; k < nops; k++ {
		vrt.Assert(cntOK[k], "C22/total-write")
	}
}

// VerifC22_readerDeep: longer scripts (NOPS=3..) over the first MENU operations of menuShortC22
// (ReadSlice, ReadLine, ReadByte, UnreadByte, ...) on very short streams: interactions such as
// ReadByte, ReadSlice, UnreadByte need three operations.
func VerifC22_readerDeep() {
	L := vrt.Range("L", 0, vrt.Param("L", 2))
	runReaderC22(vrt.Bytes("stream", L), nil, vrt.Param("CH", 1), 0, vrt.Param("NOPS", 3),
		menuShortC22[:vrt.Param("MENU", 4)])
}

// ---------- focused harnesses added after the seeded-change review ----------

// UnreadByte after a Peek that had to refill: the refill slides the unread bytes to index 0 of the buffer,
// so there is no room in front of them for the byte to be given back.
var menuUnreadC22 = []opC22{
	{opReadByteC22, 0}, {opPeekC22, 2}, {opUnreadByteC22, 0}, {opReadC22, 2}, {opPeekC22, 3},
}

// VerifC22_readerUnread: scripts of NOPS operations over {ReadByte, Peek 2, UnreadByte, ...} on streams of
// 0..L bytes handed out one byte (or all that fits) per underlying read: ReadByte, Peek (refill + slide),
// UnreadByte must leave the cursor, the buffered bytes and the counter consistent whether or not the
// UnreadByte is accepted.
func VerifC22_readerUnread() {
	L := vrt.Range("L", 0, vrt.Param("L", 3))
	runReaderC22(vrt.Bytes("stream", L), nil, vrt.Param("CH", 1), 0, vrt.Param("NOPS", 3),
		menuUnreadC22[:vrt.Param("MENU", 3)])
}

// sinkRFC22 is an underlying writer that also implements io.ReaderFrom (like *net.TCPConn or
// bytes.Buffer): ReadFrom drains r to io.EOF with reads of 8 bytes and appends everything to data.
type sinkRFC22 struct {
	sinkC22
	rfCalls int
}

func (s *sinkRFC22) ReadFrom(r io.Reader) (int64, error) {
	s.rfCalls++
	var n int64
	var tmp [8]byte
	for i := 0; i < 64; i++ {
		m, err := r.Read(tmp[:])
		s.data = append(s.data, tmp[:m]...)
		n += int64(m)
		if err == io.EOF {
			return n, nil
		}
		if err != nil {
			return n, err
		}
	}
	return n, io.ErrNoProgress
}

// VerifC22_writerReaderFrom: Writer(16) over an unlimited sink that implements io.ReaderFrom: one Write of
// 0 / 3 / 14 symbolic bytes (so the buffer is empty / partly filled at the call), optionally a Flush, then
// ReadFrom(source of 3 / 17 / 30 symbolic bytes, three chunk plans), then Flush. Whichever way the bytes
// travel (through the buffer, handed to the sink's ReadFrom, or both): ReadFrom returns the number of bytes
// taken from the source, the sink receives head+body in order, TotalWrite grows by exactly that number.
func VerifC22_writerReaderFrom() {
	sink := &sinkRFC22{sinkC22: sinkC22{room: -1}}
	w := NewWriterSize(sink, bufC22)
	headLens := []int{0, 3, 14}
	head := vrt.Bytes("head", headLens[vrt.Choose("head", len(headLens))])
	n0, err0 := w.Write(head)
	vrt.Assert(n0 == len(head) && err0 == nil, "C22/write-short-iff-error")
	if vrt.Choose("flush", 2) == 1 {
		vrt.Assert(w.Flush() == nil && w.Buffered() == 0, "C22/flush-empties")
	}
	vrt.Assert(w.TotalWrite == len(head), "C22/total-write")
	bodyLens := []int{3, 17, 30}
	body := vrt.Bytes("rf", bodyLens[vrt.Choose("body", vrt.Param("BODIES", len(bodyLens)))])
	src := &srcC22{data: body, plan: plansRFC22[vrt.Choose("plan", len(plansRFC22))], eofWithData: vrt.Choose("eofmode", 2) == 1}
	tw0 := w.TotalWrite
	n, err := w.ReadFrom(src)
	vrt.Assert(err == nil && src.pos == len(body), "C22/readfrom-reads-to-eof")
	vrt.Assert(int(n) == src.pos, "C22/readfrom-count")
	vrt.Assert(len(sink.data)+w.Buffered() == len(head)+len(body), "C22/writer-position")
	vrt.Assert(w.TotalWrite-tw0 == len(body), "C22/total-write")
	if sink.rfCalls > 0 {
		vrt.Cover("C22/readfrom-delegated")
	}
	vrt.Assert(w.Flush() == nil, "C22/writer-flushed-all")
	all := append(append([]byte{}, head...), body...)
	vrt.Assert(len(sink.data) == len(all) && prefixC22(all, sink.data), "C22/writer-stream")
}
