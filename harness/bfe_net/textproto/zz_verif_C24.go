package textproto

// C24 layer 1 — header-line layer. The real Reader.ReadMIMEHeaderAndKeys (readContinuedLineSlice,
// canonicalMIMEHeaderKey, bfe_bufio.Reader.ReadLine) on a header block whose first line(s) are symbolic
// bytes, against a reference RFC 7230 §3.2 header-block parser.

import (
	"bytes"

	"github.com/bfenetworks/bfe/bfe_bufio"
	vrt "github.com/bfenetworks/bfe/zz_vrt"
)

// tchar of RFC 7230 §3.2.6
func isTcharC24(c byte) bool {
	if 'a' <= c && c <= 'z' || 'A' <= c && c <= 'Z' || '0' <= c && c <= '9' {
		return true
	}
	switch c {
	case '!', '#', '$', '%', '&', '\'', '*', '+', '-', '.', '^', '_', '`', '|', '~':
		return true
	}
	return false
}

func isTokenC24(b []byte) bool {
	ok := len(b) > 0
	for _, c := range b {
		if !isTcharC24(c) {
			ok = false
		}
	}
	return ok
}

func lowerC24(c byte) byte {
	if 'A' <= c && c <= 'Z' {
		return c + 32
	}
	return c
}

func foldEqC24(a, b []byte) bool {
	if len(a) != len(b) {
		return false
	}
	eq := true
	for i := 0; i < len(a); i++ {
		if lowerC24(a[i]) != lowerC24(b[i]) {
			eq = false
		}
	}
	return eq
}

func trimOWSC24(b []byte) []byte {
	for len(b) > 0 && (b[0] == ' ' || b[0] == '\t') {
		b = b[1:]
	}
	for len(b) > 0 && (b[len(b)-1] == ' ' || b[len(b)-1] == '\t') {
		b = b[:len(b)-1]
	}
	return b
}

type fieldC24 struct {
	name, value []byte
	folded      bool
}

// refHeadersC24: RFC 7230 §3.2 header block. Line terminator CRLF or bare LF (§3.5 allows it).
// header-field = field-name ":" OWS field-value OWS, field-name = token: no whitespace before the colon,
// no empty name. A line starting with SP/HTAB is an obs-fold continuation of the previous field; before
// the first field it makes the message invalid, or (skipLeadingWS, the other option §3 gives a
// recipient) such lines are consumed without processing.
// Returns the fields, the number of bytes up to and including the empty line, and whether the block is valid.
func refHeadersC24(in []byte, skipLeadingWS bool) (fields []fieldC24, consumed int, ok bool) {
	pos := 0
	for {
		e := -1
		for i := pos; i < len(in); i++ {
			if in[i] == '\n' {
				e = i
				break
			}
		}
		if e < 0 {
			return nil, 0, false
		}
		line := in[pos:e]
		if len(line) > 0 && line[len(line)-1] == '\r' {
			line = line[:len(line)-1]
		}
		pos = e + 1
		if len(line) == 0 {
			return fields, pos, true
		}
		if line[0] == ' ' || line[0] == '\t' {
			if len(fields) == 0 {
				if skipLeadingWS {
					continue
				}
				return nil, 0, false
			}
			fields[len(fields)-1].folded = true
			continue
		}
		c := bytes.IndexByte(line, ':')
		if c < 0 {
			return nil, 0, false
		}
		if !isTokenC24(line[:c]) {
			return nil, 0, false
		}
		fields = append(fields, fieldC24{name: line[:c], value: trimOWSC24(line[c+1:])})
	}
}

// agreesC24: does the real result (header map + keys in arrival order + bytes consumed) equal the reference result?
func agreesC24(hdr MIMEHeader, keys MIMEKeys, consumed int, fields []fieldC24, refConsumed int) bool {
	if consumed != refConsumed || len(keys) != len(fields) {
		return false
	}
	same := true
	for i, f := range fields {
		if !foldEqC24([]byte(keys[i]), f.name) {
			return false
		}
		// which occurrence of this name is it?
		j := 0
		for _, g := range fields[:i] {
			if foldEqC24(g.name, f.name) {
				j++
			}
		}
		vv := hdr[keys[i]]
		if j >= len(vv) {
			return false
		}
		if !f.folded && !bytes.Equal(trimOWSC24([]byte(vv[j])), f.value) {
			same = false
		}
	}
	return same
}

func hasNonTokenKeyC24(keys MIMEKeys) bool {
	bad := false
	for _, k := range keys {
		if !isTokenC24([]byte(k)) {
			bad = true
		}
	}
	return bad
}

// first line of the block (up to the first LF), CR stripped
func firstLineC24(in []byte) []byte {
	for i, c := range in {
		if c == '\n' {
			l := in[:i]
			if len(l) > 0 && l[len(l)-1] == '\r' {
				l = l[:len(l)-1]
			}
			return l
		}
	}
	return in
}

// some line consists of SP/HTAB only (at least one)
func hasWSOnlyLineC24(in []byte) bool {
	start := 0
	hit := false
	for i, c := range in {
		if c == '\n' {
			l := in[start:i]
			if len(l) > 0 && l[len(l)-1] == '\r' {
				l = l[:len(l)-1]
			}
			if len(l) > 0 && len(trimOWSC24(l)) == 0 {
				hit = true
			}
			start = i + 1
		}
	}
	return hit
}

// some line (before the block ends) begins with ':' after optional leading whitespace
func hasEmptyNameLineC24(in []byte) bool {
	start := 0
	hit := false
	for i, c := range in {
		if c == '\n' {
			l := trimOWSC24(in[start:i])
			if len(l) > 0 && l[0] == ':' {
				hit = true
			}
			start = i + 1
		}
	}
	return hit
}

// VerifC24_headerLines: block = N symbolic bytes ++ CRLF "B: 2" CRLF CRLF "X".
func VerifC24_headerLines() {
	n := vrt.Range("len", 0, vrt.Param("N", 5))
	sym := vrt.Bytes("line", n)
	in := append(append([]byte{}, sym...), []byte("\r\nB: 2\r\n\r\nX")...)

	vrt.Known("C24-leading-ws-first-header-line", len(firstLineC24(in)) > 0 && (in[0] == ' ' || in[0] == '\t'))
	vrt.Known("C24-ws-only-line-ends-headers", hasWSOnlyLineC24(in))
	vrt.Known("C24-empty-field-name-skipped", hasEmptyNameLineC24(in))

	src := bytes.NewReader(in)
	br := bfe_bufio.NewReader(src)
	tp := NewReader(br)
	hdr, keys, err := tp.ReadMIMEHeaderAndKeys()
	consumed := len(in) - br.Buffered() - src.Len()

	fields, refConsumed, ok := refHeadersC24(in, false)
	fields2, refConsumed2, ok2 := fields, refConsumed, ok
	if len(in) > 0 && (in[0] == ' ' || in[0] == '\t') {
		fields2, refConsumed2, ok2 = refHeadersC24(in, true)
	}
	if err == nil {
		if ok || ok2 {
			// a block the reference accepts: same boundary, same names in the same order, same values
			vrt.Assert(ok && agreesC24(hdr, keys, consumed, fields, refConsumed) ||
				ok2 && agreesC24(hdr, keys, consumed, fields2, refConsumed2), "C24/line-fields-agree")
		} else {
			// a block the reference must reject is not turned into well-formed fields: at this layer the
			// reader may still hand the offending name through verbatim (a non-token key) for the
			// request layer to refuse — see VerifC24_readRequest.
			vrt.Assert(hasNonTokenKeyC24(keys), "C24/line-bad-not-reinterpreted")
		}
	} else {
		// rejecting a block the reference accepts is a loss of service, not a framing ambiguity; it is
		// still reported, because the property speaks of equal results on accepted requests only when the
		// request is accepted — so nothing is asserted here beyond reachability.
		vrt.Cover("C24/line-rejected")
	}
}
