package bfe_module

// C48 (tier 1) — module callbacks run in registration order and the first verdict other than
// continue stops the chain.
// Kernel: NewBfeCallbacks, BfeCallbacks.AddFilter / GetHandlerList, HandlerList.Add*Filter,
// HandlerList.FilterAccept / FilterRequest / FilterForward / FilterResponse / FilterFinish and the
// generic*Filter adapters, over the real container/list.
// The server's reaction to the verdicts (ReverseProxy.ServeHTTP) is outside this harness.

import (
	"github.com/bfenetworks/bfe/bfe_basic"
	"github.com/bfenetworks/bfe/bfe_http"
	vrt "github.com/bfenetworks/bfe/zz_vrt"
)

const maxFiltersC48 = 5

var pointsC48 = []int{HandleAccept, HandleHandshake, HandleBeforeLocation, HandleFoundProduct, HandleAfterLocation,
	HandleForward, HandleReadResponse, HandleRequestFinish, HandleFinish}

// VerifC48_chain: N filters registered at one callback point, each returning a symbolic verdict
// (any of the five documented values); the chain is run once.
func VerifC48_chain() {
	point := pointsC48[vrt.Choose("point", len(pointsC48))]
	n := vrt.Range("filters", 0, vrt.Param("N", 4))
	var verdict [maxFiltersC48]int
	var resps [maxFiltersC48]*bfe_http.Response
	for i := 0; i < n; i++ {
		verdict[i] = vrt.Int("verdict")
		vrt.Assume(verdict[i] >= BfeHandlerFinish && verdict[i] <= BfeHandlerClose)
		resps[i] = &bfe_http.Response{StatusCode: 200 + i}
	}
	var calls []int
	cbs := NewBfeCallbacks()
	for i := 0; i < n; i++ {
		i := i
		var err error
		switch point {
		case HandleAccept, HandleHandshake, HandleFinish:
			err = cbs.AddFilter(point, func(s *bfe_basic.Session) int { calls = append(calls, i); return verdict[i] })
		case HandleBeforeLocation, HandleFoundProduct, HandleAfterLocation:
			err = cbs.AddFilter(point, func(r *bfe_basic.Request) (int, *bfe_http.Response) {
				calls = append(calls, i)
				return verdict[i], resps[i]
			})
		case HandleForward:
			err = cbs.AddFilter(point, func(r *bfe_basic.Request) int { calls = append(calls, i); return verdict[i] })
		default:
			err = cbs.AddFilter(point, func(r *bfe_basic.Request, res *bfe_http.Response) int { calls = append(calls, i); return verdict[i] })
		}
		vrt.Assert(err == nil, "C48/filter-registered")
	}
	hl := cbs.GetHandlerList(point)
	vrt.Assert(hl != nil, "C48/handler-list-exists")

	req := &bfe_basic.Request{}
	sess := &bfe_basic.Session{}
	got := -1
	var gotResp *bfe_http.Response
	switch point {
	case HandleAccept, HandleHandshake:
		got = hl.FilterAccept(sess)
	case HandleFinish:
		got = hl.FilterFinish(sess)
	case HandleBeforeLocation, HandleFoundProduct, HandleAfterLocation:
		got, gotResp = hl.FilterRequest(req)
	case HandleForward:
		got = hl.FilterForward(req)
	default:
		got = hl.FilterResponse(req, &bfe_http.Response{})
	}

	// reference: first filter whose verdict is not "go on"
	stop := n
	for i := n - 1; i >= 0; i-- {
		if verdict[i] != BfeHandlerGoOn {
			stop = i
		}
	}
	wantCalls := stop + 1
	if stop == n {
		wantCalls = n
	}
	vrt.Assert(len(calls) == wantCalls, "C48/stops-at-first-non-continue")
	for j := 0; j < len(calls) && j < maxFiltersC48; j++ {
		vrt.Assert(calls[j] == j, "C48/registration-order")
	}
	if stop == n {
		vrt.Assert(got == BfeHandlerGoOn, "C48/all-continue-yields-continue")
	} else {
		vrt.Assert(got == verdict[stop], "C48/returns-the-stopping-verdict")
		if point == HandleBeforeLocation || point == HandleFoundProduct || point == HandleAfterLocation {
			vrt.Assert(gotResp == resps[stop], "C48/returns-the-stopping-filters-response")
		}
	}
}

// VerifC48_wrongType: a callback of the wrong signature is refused at registration for every point
// (so a chain never contains a filter it cannot call).
func VerifC48_wrongType() {
	point := pointsC48[vrt.Choose("point", len(pointsC48))]
	cbs := NewBfeCallbacks()
	err := cbs.AddFilter(point, func(x int) int { return x })
	vrt.Assert(err != nil, "C48/wrong-signature-refused")
	vrt.Assert(cbs.AddFilter(99, func(s *bfe_basic.Session) int { return BfeHandlerGoOn }) != nil, "C48/unknown-point-refused")
}
