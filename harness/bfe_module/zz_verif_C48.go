package bfe_module

// C48 (tier 1) — module callbacks run in registration order and the first verdict other than
// continue stops the chain.
// Kernel: NewBfeCallbacks, BfeCallbacks.AddFilter / GetHandlerList, HandlerList.Add*Filter,
// HandlerList.FilterAccept / FilterRequest / FilterForward / FilterResponse / FilterFinish and the
// generic*Filter adapters, over the real container/list.
// The server's reaction to the verdicts (ReverseProxy.ServeHTTP) is outside this harness.

import (
	"github.com/bfenetworks/bfe/bfe_basic"
	"github.com/bfenetworks/bfe/bfe_http"
	vrt "github.com/bfenetworks/bfe/zz_vrt"
)

const maxFiltersC48 = 5

var pointsC48 = []int{HandleAccept, HandleHandshake, HandleBeforeLocation, HandleFoundProduct, HandleAfterLocation,
	HandleForward, HandleReadResponse, HandleRequestFinish, HandleFinish}

// VerifC48_chain: N filters registered at one callback point, each returning a symbolic verdict
// (any of the five documented values); the chain is run once.
func VerifC48_chain() {
	point := pointsC48[vrt.Choose("point", len(pointsC48))]
	n := vrt.Range("filters", 0, vrt.Param("N", 4))
	var verdict [maxFiltersC48]int
	var resps [maxFiltersC48]*bfe_http.Response
	for i := 0; i < n; i++ {
		verdict[i] = vrt.Int("verdict")
		vrt.Assume(verdict[i] >= BfeHandlerFinish && verdict[i] <= BfeHandlerClose)
		resps[i] = &bfe_http.Response{StatusCode: 200 + i}
	}
	var calls []int
	cbs := NewBfeCallbacks()
	for i := 0; i < n; i++ {
		i := i
		var err error
		switch point {
		case HandleAccept, HandleHandshake, HandleFinish:
			err = cbs.AddFilter(point, func(s *bfe_basic.Session) int { calls = append(calls, i); return verdict[i] })
		case HandleBeforeLocation, HandleFoundProduct, HandleAfterLocation:
			err = cbs.AddFilter(point, func(r *bfe_basic.Request) (int, *bfe_http.Response) {
				calls = append(calls, i)
				return verdict[i], resps[i]
			})
		case HandleForward:
			err = cbs.AddFilter(point, func(r *bfe_basic.Request) int { calls = append(calls, i); return verdict[i] })
		default:
			err = cbs.AddFilter(point, func(r *bfe_basic.Request, res *bfe_http.Response) int { calls = append(calls, i); return verdict[i] })
		}
		vrt.Assert(err == nil, "C48/filter-registered")
	}
	hl := cbs.GetHandlerList(point)
	vrt.Assert(hl != nil, "C48/handler-list-exists")

	req := &bfe_basic.Request{}
	sess := &bfe_basic.Session{}
	got := -1
	var gotResp *bfe_http.Response
	switch point {
	case HandleAccept, HandleHandshake:
		got = hl.FilterAccept(sess)
	case HandleFinish:
		got = hl.FilterFinish(sess)
	case HandleBeforeLocation, HandleFoundProduct, HandleAfterLocation:
		got, gotResp = hl.FilterRequest(req)
	case HandleForward:
		got = hl.FilterForward(req)
	default:
		got = hl.FilterResponse(req, &bfe_http.Response{})
	}

	// reference: first filter whose verdict is not "go on"
	stop := n
	for i := n - 1; i >= 0; i-- {
		if verdict[i] != BfeHandlerGoOn {
			stop = i
		}
	}
	wantCalls := stop + 1
	if stop == n {
		wantCalls = n
	}
	vrt.Assert(len(calls) == wantCalls, "C48/stops-at-first-non-continue")
	for j := 0; j < len(calls) && j < maxFiltersC48; j++ {
		vrt.Assert(calls[j] == j, "C48/registration-order")
	}
	if stop == n {
		vrt.Assert(got == BfeHandlerGoOn, "C48/all-continue-yields-continue")
	} else {
		vrt.Assert(got == verdict[stop], "C48/returns-the-stopping-verdict")
		if point == HandleBeforeLocation || point == HandleFoundProduct || point == HandleAfterLocation {
			vrt.Assert(gotResp == resps[stop], "C48/returns-the-stopping-filters-response")
		}
	}
}

// VerifC48_wrongType: a callback of the wrong signature is refused at registration for every point
// (so a chain never contains a filter it cannot call).
func VerifC48_wrongType() {
	point := pointsC48[vrt.Choose("point", len(pointsC48))]
	cbs := NewBfeCallbacks()
	err := cbs.AddFilter(point, func(x int) int { return x })
	vrt.Assert(err != nil, "C48/wrong-signature-refused")
	vrt.Assert(cbs.AddFilter(99, func(s *bfe_basic.Session) int { return BfeHandlerGoOn }) != nil, "C48/unknown-point-refused")
}

// ---------------------------------------------------------------- focused checks (seeded-change review)

// modC48 is a module instance: several instances of one module type register the same method.
type modC48 struct {
	id      int
	verdict int
	resp    *bfe_http.Response
	calls   *[]int
}

func (mo *modC48) onSession(s *bfe_basic.Session) int {
	*mo.calls = append(*mo.calls, mo.id)
	return mo.verdict
}
func (mo *modC48) onRequest(r *bfe_basic.Request) (int, *bfe_http.Response) {
	*mo.calls = append(*mo.calls, mo.id)
	return mo.verdict, mo.resp
}
func (mo *modC48) onForward(r *bfe_basic.Request) int {
	*mo.calls = append(*mo.calls, mo.id)
	return mo.verdict
}
func (mo *modC48) onResponse(r *bfe_basic.Request, res *bfe_http.Response) int {
	*mo.calls = append(*mo.calls, mo.id)
	return mo.verdict
}

// filterOfC48 returns the callback of the right signature for the point: a method value of mo
// (kind 0) or a closure made by one factory function (kind 1).
func filterOfC48(point int, mo *modC48, kind int) interface{} {
	switch point {
	case HandleAccept, HandleHandshake, HandleFinish:
		if kind == 0 {
			return mo.onSession
		}
		return sessionFactoryC48(mo)
	case HandleBeforeLocation, HandleFoundProduct, HandleAfterLocation:
		if kind == 0 {
			return mo.onRequest
		}
		return requestFactoryC48(mo)
	case HandleForward:
		if kind == 0 {
			return mo.onForward
		}
		return forwardFactoryC48(mo)
	}
	if kind == 0 {
		return mo.onResponse
	}
	return responseFactoryC48(mo)
}

//go:noinline
func sessionFactoryC48(mo *modC48) func(s *bfe_basic.Session) int {
	return func(s *bfe_basic.Session) int { *mo.calls = append(*mo.calls, mo.id); return mo.verdict }
}

//go:noinline
func requestFactoryC48(mo *modC48) func(r *bfe_basic.Request) (int, *bfe_http.Response) {
	return func(r *bfe_basic.Request) (int, *bfe_http.Response) {
		*mo.calls = append(*mo.calls, mo.id)
		return mo.verdict, mo.resp
	}
}

//go:noinline
func forwardFactoryC48(mo *modC48) func(r *bfe_basic.Request) int {
	return func(r *bfe_basic.Request) int { *mo.calls = append(*mo.calls, mo.id); return mo.verdict }
}

//go:noinline
func responseFactoryC48(mo *modC48) func(r *bfe_basic.Request, res *bfe_http.Response) int {
	return func(r *bfe_basic.Request, res *bfe_http.Response) int {
		*mo.calls = append(*mo.calls, mo.id)
		return mo.verdict
	}
}

func dispatchC48(hl *HandlerList, point int) (int, *bfe_http.Response) {
	switch point {
	case HandleAccept, HandleHandshake:
		return hl.FilterAccept(&bfe_basic.Session{}), nil
	case HandleFinish:
		return hl.FilterFinish(&bfe_basic.Session{}), nil
	case HandleBeforeLocation, HandleFoundProduct, HandleAfterLocation:
		return hl.FilterRequest(&bfe_basic.Request{})
	case HandleForward:
		return hl.FilterForward(&bfe_basic.Request{}), nil
	}
	return hl.FilterResponse(&bfe_basic.Request{}, &bfe_http.Response{}), nil
}

func isRequestPointC48(point int) bool {
	return point == HandleBeforeLocation || point == HandleFoundProduct || point == HandleAfterLocation
}

// VerifC48_sameCode: the filters of a chain are distinct func VALUES that share their code: the same
// method of 2..3 module instances, or closures made by one factory. Every registered filter is a
// filter of its own: it runs, in registration order, and its verdict counts.
func VerifC48_sameCode() {
	point := pointsC48[vrt.Choose("point", len(pointsC48))]
	kind := vrt.Choose("kind", 2)
	n := vrt.Range("instances", 2, 3)
	var calls []int
	var mods [3]*modC48
	cbs := NewBfeCallbacks()
	for i := 0; i < n; i++ {
		v := vrt.Int("verdict")
		vrt.Assume(v >= BfeHandlerFinish && v <= BfeHandlerClose)
		mods[i] = &modC48{id: i, verdict: v, resp: &bfe_http.Response{StatusCode: 300 + i}, calls: &calls}
		vrt.Assert(cbs.AddFilter(point, filterOfC48(point, mods[i], kind)) == nil, "C48/same-code-filter-registered")
	}
	got, gotResp := dispatchC48(cbs.GetHandlerList(point), point)
	stop := n
	for i := n - 1; i >= 0; i-- {
		if mods[i].verdict != BfeHandlerGoOn {
			stop = i
		}
	}
	wantCalls := stop + 1
	if stop == n {
		wantCalls = n
	}
	vrt.Assert(len(calls) == wantCalls, "C48/same-code-every-filter-runs")
	for j := 0; j < len(calls) && j < 3; j++ {
		vrt.Assert(calls[j] == j, "C48/same-code-registration-order")
	}
	if stop == n {
		vrt.Assert(got == BfeHandlerGoOn, "C48/same-code-all-continue")
	} else {
		vrt.Assert(got == mods[stop].verdict, "C48/same-code-stopping-verdict")
		if isRequestPointC48(point) {
			vrt.Assert(gotResp == mods[stop].resp, "C48/same-code-stopping-response")
		}
	}
}

// VerifC48_lateRegistration: a chain of 0..1 filters is run, then another filter is registered at the
// same point (AddFilter reports success) and the chain is run again: the second run includes the late
// filter, in registration order, and its verdict counts.
func VerifC48_lateRegistration() {
	point := pointsC48[vrt.Choose("point", len(pointsC48))]
	early := vrt.Range("early", 0, 1)
	var calls []int
	cbs := NewBfeCallbacks()
	if early == 1 {
		m0 := &modC48{id: 0, verdict: BfeHandlerGoOn, calls: &calls}
		vrt.Assert(cbs.AddFilter(point, filterOfC48(point, m0, 0)) == nil, "C48/late-first-registered")
	}
	hl := cbs.GetHandlerList(point)
	got, _ := dispatchC48(hl, point)
	vrt.Assert(got == BfeHandlerGoOn && len(calls) == early, "C48/late-first-run")

	v := vrt.Int("verdict")
	vrt.Assume(v >= BfeHandlerFinish && v <= BfeHandlerClose)
	m1 := &modC48{id: 1, verdict: v, resp: &bfe_http.Response{StatusCode: 403}, calls: &calls}
	vrt.Assert(cbs.AddFilter(point, filterOfC48(point, m1, 1)) == nil, "C48/late-filter-registered")
	calls = nil
	got, gotResp := dispatchC48(cbs.GetHandlerList(point), point)
	vrt.Assert(len(calls) == early+1, "C48/late-filter-runs")
	if len(calls) == early+1 {
		vrt.Assert(calls[early] == 1 && (early == 0 || calls[0] == 0), "C48/late-registration-order")
	}
	vrt.Assert(got == v, "C48/late-filter-verdict")
	if isRequestPointC48(point) && v != BfeHandlerGoOn {
		vrt.Assert(gotResp == m1.resp, "C48/late-filter-response")
	}
}
