package bfe_proxy

// C46 — PROXY protocol headers are parsed per specification
// (http://www.haproxy.org/download/1.8/doc/proxy-protocol.txt, sections 2.1 and 2.2).
// Kernel: Read, parseVersion1, parseV1IPAddress, parseV1PortNumber, parseVersion2, validateLength,
// NewConn, Conn.Read / RemoteAddr / VirtualAddr / checkProxyHeader over the real bfe_bufio.Reader and
// io.LimitedReader on a scripted in-memory net.Conn defined here.

import (
	"bytes"
	"errors"
	"io"
	"net"
	"time"

	bufio "github.com/bfenetworks/bfe/bfe_bufio"
	vrt "github.com/bfenetworks/bfe/zz_vrt"
)

// ---------------------------------------------------------------- scripted connection

type scriptConnC46 struct {
	data   []byte
	pos    int
	split  int // the first delivery stops here (0 = everything at once)
	closed bool
}

var errClosedC46 = errors.New("use of closed connection")
var sockRemoteC46 = &net.TCPAddr{IP: net.IP{9, 9, 9, 9}, Port: 999}
var sockLocalC46 = &net.TCPAddr{IP: net.IP{8, 8, 8, 8}, Port: 888}

func (c *scriptConnC46) Read(b []byte) (int, error) {
	if c.closed {
		return 0, errClosedC46
	}
	if c.pos >= len(c.data) {
		return 0, io.EOF
	}
	end := len(c.data)
	if c.pos < c.split && c.split < end {
		end = c.split
	}
	n := copy(b, c.data[c.pos:end])
	c.pos += n
	return n, nil
}
func (c *scriptConnC46) Write(b []byte) (int, error)        { return len(b), nil }
func (c *scriptConnC46) Close() error                       { c.closed = true; return nil }
func (c *scriptConnC46) LocalAddr() net.Addr                { return sockLocalC46 }
func (c *scriptConnC46) RemoteAddr() net.Addr               { return sockRemoteC46 }
func (c *scriptConnC46) SetDeadline(t time.Time) error      { return nil }
func (c *scriptConnC46) SetReadDeadline(t time.Time) error  { return nil }
func (c *scriptConnC46) SetWriteDeadline(t time.Time) error { return nil }

// drainC46 reads the application stream until an error; returns bytes and the terminating error.
func drainC46(r io.Reader, max int) ([]byte, error) {
	var got []byte
	buf := make([]byte, 5)
	for i := 0; i < max+2; i++ {
		n, err := r.Read(buf)
		got = append(got, buf[:n]...)
		if err != nil {
			return got, err
		}
	}
	return got, nil
}

var lenSetC46 = []int{0, 1, 11, 12, 13, 20, 35, 36, 37, 40}

// v2StreamC46 builds signature + cmd + fam + 16-bit length + T further symbolic bytes.
// The declared length ln is picked from a concrete list (quick) or 0..LMAX (FULL=1); the number of
// bytes that actually follow is ln+d, d in {-1,0,1,3}.
func v2StreamC46(cmd, fam byte, payload []byte) (stream []byte, ln int) {
	if vrt.Param("FULL", 0) == 1 {
		ln = vrt.Range("declLen", 0, vrt.Param("LMAX", 40))
	} else {
		ln = lenSetC46[vrt.Choose("declLen", len(lenSetC46))]
	}
	lenHi := byte(0)
	if vrt.Choose("lenHi", 2) == 1 {
		lenHi = 1 // declared length 256+ln: more than is ever available here
	}
	d := []int{0, 1, 3, -1}[vrt.Choose("slack", 4)]
	T := ln + d
	if T < 0 {
		T = 0
	}
	stream = append(stream, SIGV2...)
	stream = append(stream, cmd, fam, lenHi, byte(ln))
	stream = append(stream, payload[:T]...)
	if lenHi != 0 {
		ln += 256
	}
	return stream, ln
}

// refV2C46 is the section 2.2 receiver. verdict: 0 = must reject, 1 = must accept, 2 = receiver's choice
// (UNSPEC / datagram / unix families on a TCP listener: "free to accept ... or to reject").
// hlen is the total header size (16 + declared length) for every accepted header.
func refV2C46(stream []byte, ln int) (verdict int, local bool, v6 bool) {
	cmd, fam := stream[12], stream[13]
	if cmd>>4 != 2 || cmd&0x0f > 1 {
		return 0, false, false
	}
	avail := len(stream) - 16
	if cmd&0x0f == 0 {
		// LOCAL: "the receiver must accept this connection as valid and must use the real connection
		// endpoints and discard the protocol block including the family which is ignored"
		if avail < ln {
			return 0, true, false
		}
		return 1, true, false
	}
	switch fam {
	case 0x11:
		if ln < 12 || avail < ln {
			return 0, false, false
		}
		return 1, false, false
	case 0x21:
		if ln < 36 || avail < ln {
			return 0, false, true
		}
		return 1, false, true
	case 0x00, 0x12, 0x22, 0x31, 0x32:
		if avail < ln {
			return 0, false, false
		}
		return 2, false, false
	}
	return 0, false, false
}

// VerifC46_v2_header: Read() on every v2 header shape: command and family bytes, addresses, ports,
// TLV padding and trailing payload symbolic. Checks the reported Header and the bytes left in the reader.
func VerifC46_v2_header() {
	cmd, fam := vrt.Byte("cmd"), vrt.Byte("fam")
	payload := vrt.Bytes("payload", 44)
	stream, ln := v2StreamC46(cmd, fam, payload)
	rd := bufio.NewReader(bytes.NewReader(stream))
	vrt.Known("C46-v2-local-header-not-skipped", cmd == 0x20)
	hdr, err := Read(rd)
	verdict, local, v6 := refV2C46(stream, ln)
	if verdict == 0 {
		vrt.Assert(err != nil && err != ErrNoProxyProtocol, "C46/v2-malformed-rejected")
		return
	}
	if verdict == 2 && err != nil {
		vrt.Assert(err != ErrNoProxyProtocol, "C46/v2-optional-family-rejected-as-error")
		return
	}
	vrt.Assert(err == nil && hdr != nil, "C46/v2-conformant-accepted")
	rest, rerr := drainC46(rd, len(stream))
	vrt.Assert(rerr == io.EOF, "C46/v2-stream-ends-cleanly")
	vrt.Assert(bytes.Equal(rest, stream[16+ln:]), "C46/v2-application-bytes-exact")
	if local || verdict == 2 {
		return
	}
	p := stream[16:]
	if !v6 {
		vrt.Assert(bytes.Equal(hdr.SourceAddress, p[0:4]) && bytes.Equal(hdr.DestinationAddress, p[4:8]), "C46/v2-addresses")
		vrt.Assert(hdr.SourcePort == uint16(p[8])<<8|uint16(p[9]) && hdr.DestinationPort == uint16(p[10])<<8|uint16(p[11]), "C46/v2-ports")
	} else {
		vrt.Assert(bytes.Equal(hdr.SourceAddress, p[0:16]) && bytes.Equal(hdr.DestinationAddress, p[16:32]), "C46/v2-addresses")
		vrt.Assert(hdr.SourcePort == uint16(p[32])<<8|uint16(p[33]) && hdr.DestinationPort == uint16(p[34])<<8|uint16(p[35]), "C46/v2-ports")
	}
}

// sameTCPAddrC46 compares by address bytes (4-byte and 16-byte forms of an IPv4 address are the same address).
func sameTCPAddrC46(a net.Addr, ip net.IP, port int) bool {
	t, ok := a.(*net.TCPAddr)
	if !ok || t == nil || t.Port != port {
		return false
	}
	if w4 := ip.To4(); w4 != nil {
		g4 := t.IP.To4()
		return g4 != nil && bytes.Equal(g4, w4)
	}
	return len(t.IP) == 16 && bytes.Equal(t.IP, ip)
}

// VerifC46_v2_conn: the same through Conn (what the server uses): RemoteAddr / VirtualAddr, the
// application byte stream, connection closed on malformed input. Addresses/ports are fixed here
// (1.2.3.4:1000 -> 5.6.7.8:2000, [2001::1]:1000 -> [2001::2]:2000), command, family, length, TLV
// padding, trailing bytes and the delivery split vary.
func VerifC46_v2_conn() {
	cmd, fam := vrt.Byte("cmd"), vrt.Byte("fam")
	payload := vrt.Bytes("payload", 44)
	src6 := net.IP{0x20, 0x01, 0, 0, 0, 0, 0, 0, 0, 0, 0, 0, 0, 0, 0, 1}
	dst6 := net.IP{0x20, 0x01, 0, 0, 0, 0, 0, 0, 0, 0, 0, 0, 0, 0, 0, 2}
	if fam&0xf0 == 0x20 {
		copy(payload[0:16], src6)
		copy(payload[16:32], dst6)
		copy(payload[32:36], []byte{0x03, 0xe8, 0x07, 0xd0})
	} else {
		copy(payload[0:12], []byte{1, 2, 3, 4, 5, 6, 7, 8, 0x03, 0xe8, 0x07, 0xd0})
	}
	stream, ln := v2StreamC46(cmd, fam, payload)
	sc := &scriptConnC46{data: stream, split: []int{0, 1, 14}[vrt.Choose("split", 3)]}
	c := NewConn(sc, 0, 0)
	vrt.Known("C46-v2-local-header-not-skipped", cmd == 0x20)
	got, rerr := drainC46(c, len(stream))
	verdict, local, v6 := refV2C46(stream, ln)
	if verdict == 0 {
		vrt.Assert(len(got) == 0 && rerr != nil, "C46/v2-conn-malformed-no-data")
		vrt.Assert(sc.closed, "C46/v2-conn-malformed-closed")
		return
	}
	if verdict == 2 {
		// receiver's choice: either refused without data or passed on exactly
		vrt.Assert(len(got) == 0 || bytes.Equal(got, stream[16+ln:]), "C46/v2-conn-optional-family-all-or-nothing")
		return
	}
	vrt.Assert(rerr == io.EOF, "C46/v2-conn-stream-ends-cleanly")
	vrt.Assert(bytes.Equal(got, stream[16+ln:]), "C46/v2-conn-application-bytes-exact")
	vrt.Assert(!sc.closed, "C46/v2-conn-stays-open")
	switch {
	case local:
		vrt.Assert(c.RemoteAddr() == net.Addr(sockRemoteC46), "C46/v2-conn-local-uses-socket-address")
		vrt.Assert(c.VirtualAddr() == nil, "C46/v2-conn-local-no-virtual-address")
	case v6:
		vrt.Assert(sameTCPAddrC46(c.RemoteAddr(), src6, 1000), "C46/v2-conn-remote-addr")
		vrt.Assert(sameTCPAddrC46(c.VirtualAddr(), dst6, 2000), "C46/v2-conn-virtual-addr")
	default:
		vrt.Assert(sameTCPAddrC46(c.RemoteAddr(), net.IP{1, 2, 3, 4}, 1000), "C46/v2-conn-remote-addr")
		vrt.Assert(sameTCPAddrC46(c.VirtualAddr(), net.IP{5, 6, 7, 8}, 2000), "C46/v2-conn-virtual-addr")
	}
}

// ---------------------------------------------------------------- version 1

// refPortC46: "a decimal integer in the range [0..65535] inclusive. Heading zeroes are not permitted."
func refPortC46(s string) (uint16, bool) {
	if len(s) == 0 || len(s) > 5 || (len(s) > 1 && s[0] == '0') {
		return 0, false
	}
	n := 0
	ok := true
	for i := 0; i < len(s); i++ {
		if s[i] < '0' || s[i] > '9' {
			ok = false
		}
		n = n*10 + int(s[i]-'0')
	}
	if !ok || n > 65535 {
		return 0, false
	}
	return uint16(n), true
}

func nonCanonicalPortC46(s string) bool {
	return len(s) > 1 && (s[0] == '+' || s[0] == '-' || s[0] == '0')
}

// VerifC46_v1_header: Read() on v1 lines. Shapes: TCP4 / TCP6 lines with a symbolic 4-byte protocol
// token and a symbolic source-port token (1..5 bytes, all byte values), a symbolic character inside
// an address, UNKNOWN in its short and long form, an extra token, a bare-LF line end; 2 symbolic
// bytes of application data follow.
func VerifC46_v1_header() {
	tail := vrt.Bytes("tail", 2)
	shape := vrt.Choose("shape", 7)
	var line string
	wantOK, wantUnknown := false, false
	var wantSrc, wantDst net.IP
	var wantSport, wantDport uint16
	v4a, v4b := net.IP{1, 2, 3, 4}, net.IP{5, 6, 7, 8}
	v6a := net.IP{0x20, 0x01, 0, 0, 0, 0, 0, 0, 0, 0, 0, 0, 0, 0, 0, 1}
	v6b := net.IP{0x20, 0x01, 0, 0, 0, 0, 0, 0, 0, 0, 0, 0, 0, 0, 0, 2}
	switch shape {
	case 0:
		// symbolic protocol token in front of IPv4 addresses
		proto := vrt.Str("proto", 4)
		line = "PROXY " + proto + " 1.2.3.4 5.6.7.8 1000 443\r\n"
		wantOK = proto == "TCP4"
		wantSrc, wantDst, wantSport, wantDport = v4a, v4b, 1000, 443
		vrt.Known("C46-v1-unknown-family-token-accepted", proto != "TCP4" && proto != "TCP6")
	case 1:
		// symbolic source-port token, TCP4 or TCP6
		port := vrt.Str("port", vrt.Range("portLen", 1, vrt.Param("PL", 5)))
		// an LF inside the token ends the header line early ("0 2\r\n" makes the conformant line
		// "PROXY TCP4 1.2.3.4 5.6.7.8 0 2\r\n" followed by application data): not a port token.
		vrt.Assume(bytes.IndexByte([]byte(port), '\n') < 0)
		if vrt.Choose("v6", 2) == 1 {
			line = "PROXY TCP6 2001::1 2001::2 " + port + " 443\r\n"
			wantSrc, wantDst = v6a, v6b
		} else {
			line = "PROXY TCP4 1.2.3.4 5.6.7.8 " + port + " 443\r\n"
			wantSrc, wantDst = v4a, v4b
		}
		sp, pok := refPortC46(port)
		wantOK = pok
		wantSport, wantDport = sp, 443
		vrt.Known("C46-v1-port-not-canonical-decimal", nonCanonicalPortC46(port))
		// a space inside the token makes a seventh token: the extra-token class
		vrt.Known("C46-v1-extra-token-accepted", bytes.IndexByte([]byte(port), ' ') >= 0)
	case 2:
		line = "PROXY UNKNOWN\r\n"
		wantOK, wantUnknown = true, true
		vrt.Known("C46-v1-unknown-short-form-rejected", true)
	case 3:
		line = "PROXY UNKNOWN 1.2.3.4 5.6.7.8 1 2\r\n"
		wantOK, wantUnknown = true, true
	case 4:
		c := vrt.Str("addrChar", 1)
		line = "PROXY TCP4 1.2.3." + c + " 5.6.7.8 1 2\r\n"
		wantOK = c[0] >= '0' && c[0] <= '9'
		wantSrc, wantDst = net.IP{1, 2, 3, c[0] - '0'}, v4b
		wantSport, wantDport = 1, 2
	case 5:
		line = "PROXY TCP4 1.2.3.4 5.6.7.8 1 2 x\r\n"
		vrt.Known("C46-v1-extra-token-accepted", true)
	case 6:
		line = "PROXY TCP4 1.2.3.4 5.6.7.8 1 2\n"
	}
	stream := append([]byte(line), tail...)
	rd := bufio.NewReader(bytes.NewReader(stream))
	hdr, err := Read(rd)
	if !wantOK {
		vrt.Assert(err != nil && err != ErrNoProxyProtocol, "C46/v1-malformed-rejected")
		return
	}
	vrt.Assert(err == nil && hdr != nil, "C46/v1-conformant-accepted")
	rest, rerr := drainC46(rd, len(stream))
	vrt.Assert(rerr == io.EOF && bytes.Equal(rest, tail), "C46/v1-application-bytes-exact")
	if wantUnknown {
		return
	}
	vrt.Assert(sameIPC46(hdr.SourceAddress, wantSrc) && sameIPC46(hdr.DestinationAddress, wantDst), "C46/v1-addresses")
	vrt.Assert(hdr.SourcePort == wantSport && hdr.DestinationPort == wantDport, "C46/v1-ports")
}

func sameIPC46(got, want net.IP) bool {
	if w4 := want.To4(); w4 != nil {
		g4 := got.To4()
		return g4 != nil && bytes.Equal(g4, w4)
	}
	return len(got) == 16 && bytes.Equal(got, want)
}

// VerifC46_v1_conn: v1 lines through Conn: reported addresses, application bytes, delivery split.
func VerifC46_v1_conn() {
	tail := vrt.Bytes("tail", 3)
	shape := vrt.Choose("shape", 5)
	line := ""
	switch shape {
	case 0:
		line = "PROXY TCP4 1.2.3.4 5.6.7.8 1000 2000\r\n"
	case 1:
		line = "PROXY TCP6 2001::1 2001::2 1000 2000\r\n"
	case 2:
		line = "PROXY UNKNOWN\r\n"
		vrt.Known("C46-v1-unknown-short-form-rejected", true)
	case 3:
		line = "PROXY UNKNOWN 1.2.3.4 5.6.7.8 1000 2000\r\n"
		vrt.Known("C46-v1-unknown-long-form-closes-connection", true)
	case 4:
		line = "PROXY TCP4 1.2.3.4 5.6.7.8 1000 70000\r\n" // malformed: port out of range
	}
	stream := append([]byte(line), tail...)
	sc := &scriptConnC46{data: stream, split: []int{0, 3, 7, len(line) - 1}[vrt.Choose("split", 4)]}
	c := NewConn(sc, 0, 0)
	got, rerr := drainC46(c, len(stream))
	if shape == 4 {
		vrt.Assert(len(got) == 0 && rerr != nil && sc.closed, "C46/v1-conn-malformed-no-data")
		return
	}
	if shape == 2 || shape == 3 {
		vrt.Assert(c.RemoteAddr() == net.Addr(sockRemoteC46), "C46/v1-conn-unknown-uses-socket-address")
		vrt.Assert(c.VirtualAddr() == nil, "C46/v1-conn-unknown-no-virtual-address")
	}
	vrt.Assert(rerr == io.EOF && bytes.Equal(got, tail), "C46/v1-conn-application-bytes-exact")
	vrt.Assert(!sc.closed, "C46/v1-conn-stays-open")
	switch shape {
	case 0:
		vrt.Assert(sameTCPAddrC46(c.RemoteAddr(), net.IP{1, 2, 3, 4}, 1000), "C46/v1-conn-remote-addr")
		vrt.Assert(sameTCPAddrC46(c.VirtualAddr(), net.IP{5, 6, 7, 8}, 2000), "C46/v1-conn-virtual-addr")
	case 1:
		vrt.Assert(sameTCPAddrC46(c.RemoteAddr(), net.IP{0x20, 0x01, 0, 0, 0, 0, 0, 0, 0, 0, 0, 0, 0, 0, 0, 1}, 1000), "C46/v1-conn-remote-addr")
		vrt.Assert(sameTCPAddrC46(c.VirtualAddr(), net.IP{0x20, 0x01, 0, 0, 0, 0, 0, 0, 0, 0, 0, 0, 0, 0, 0, 2}, 2000), "C46/v1-conn-virtual-addr")
	}
}

// ---------------------------------------------------------------- no header

func hasPrefixC46(b, sig []byte) bool {
	n := len(sig)
	if len(b) < n {
		n = len(b)
	}
	return bytes.Equal(b[:n], sig[:n])
}

// VerifC46_passthrough: a stream of 0..L symbolic bytes that neither starts with a signature nor is a
// proper prefix of one (which would be a truncated header) must reach the application unchanged,
// with the socket's own addresses reported.
func VerifC46_passthrough() {
	L := vrt.Range("len", 0, vrt.Param("L", 14))
	stream := vrt.Bytes("stream", L)
	vrt.Assume(!hasPrefixC46(stream, SIGV1) && !hasPrefixC46(stream, SIGV2))
	split := 0
	if L > 1 && vrt.Choose("split", 2) == 1 {
		split = 1
	}
	sc := &scriptConnC46{data: append([]byte{}, stream...), split: split}
	c := NewConn(sc, 0, 0)
	vrt.Known("C46-short-stream-starting-like-a-signature-dropped", L > 0 && L < 12 && (stream[0] == 'P' || stream[0] == '\r'))
	got, rerr := drainC46(c, L)
	vrt.Assert(bytes.Equal(got, stream), "C46/no-header-bytes-untouched")
	vrt.Assert(rerr == io.EOF, "C46/no-header-clean-end")
	vrt.Assert(!sc.closed, "C46/no-header-stays-open")
	vrt.Assert(c.RemoteAddr() == net.Addr(sockRemoteC46) && c.VirtualAddr() == nil, "C46/no-header-socket-addresses")
}

// ---------------------------------------------------------------- long payloads (header byte limit)

// drainBigC46 reads the application stream with a large buffer until an error.
func drainBigC46(r io.Reader, max int) ([]byte, error) {
	var got []byte
	buf := make([]byte, 700)
	for i := 0; i < max/700+8; i++ {
		n, err := r.Read(buf)
		got = append(got, buf[:n]...)
		if err != nil {
			return got, err
		}
	}
	return got, nil
}

// VerifC46_longPayload: the byte limit that protects the header parser (maxProxyHeaderBytes, default
// 2048) must not apply to the application stream: after every accepted header — v1 TCP4, v1 UNKNOWN in
// both forms, v2 PROXY and v2 LOCAL — and on header-less connections a payload longer than the limit
// reaches the application completely. Limits: the default (2048, payload 2112 bytes) and a configured
// limit of 100 bytes (payload 160 bytes); payload = concrete pattern with symbolic first/middle/last byte.
func VerifC46_longPayload() {
	limit := int64(0)
	payload := bytes.Repeat([]byte("0123456789abcdef"), 132)
	if vrt.Choose("limit", 2) == 1 {
		limit = 100
		payload = payload[:160]
	}
	payload[0], payload[len(payload)/2], payload[len(payload)-1] = vrt.Byte("p0"), vrt.Byte("pm"), vrt.Byte("pz")
	shape := vrt.Choose("shape", 6)
	var head []byte
	local := false
	switch shape {
	case 0:
		head = []byte("PROXY UNKNOWN\r\n")
	case 1:
		head = []byte("PROXY UNKNOWN 1.2.3.4 5.6.7.8 1000 2000\r\n")
	case 2:
		head = []byte("PROXY TCP4 1.2.3.4 5.6.7.8 1000 2000\r\n")
	case 3:
		// v2 LOCAL, unspecified family, no address block
		head = append(append([]byte{}, SIGV2...), 0x20, 0x00, 0, 0)
		local = true
	case 4:
		head = append(append([]byte{}, SIGV2...), 0x21, 0x11, 0, 12, 1, 2, 3, 4, 5, 6, 7, 8, 0x03, 0xe8, 0x07, 0xd0)
	case 5:
		// no header at all; the first byte must not look like a signature
		vrt.Assume(payload[0] != 'P' && payload[0] != '\r')
	}
	stream := append(append([]byte{}, head...), payload...)
	split := 0
	if len(head) > 0 && vrt.Choose("split", 2) == 1 {
		split = len(head)
	}
	sc := &scriptConnC46{data: stream, split: split}
	c := NewConn(sc, 0, limit)
	got, rerr := drainBigC46(c, len(stream))
	vrt.Assert(rerr == io.EOF, "C46/long-payload-clean-end")
	vrt.Assert(!sc.closed, "C46/long-payload-stays-open")
	if local {
		// The LOCAL header itself is the known class C46-v2-local-header-not-skipped (3 header bytes
		// stay in the stream); here only "every following byte arrives" is demanded.
		vrt.Assert(len(got) >= len(payload), "C46/long-payload-local-complete")
		if len(got) >= len(payload) {
			vrt.Assert(bytes.Equal(got[len(got)-len(payload):], payload), "C46/long-payload-local-bytes")
		}
		return
	}
	vrt.Assert(len(got) == len(payload), "C46/long-payload-complete")
	vrt.Assert(bytes.Equal(got, payload), "C46/long-payload-bytes-exact")
	if shape == 0 || shape == 1 || shape == 5 {
		vrt.Assert(c.RemoteAddr() == net.Addr(sockRemoteC46), "C46/long-payload-socket-address")
	}
}
