package condition

// C16 — condition expressions evaluate with the documented precedence:
// parentheses, then ! (right assoc), then && (left), then || (left).
//
// Real code under check: the goyacc tables/driver (parser.condParse through its lexer interface), the
// real scanner (second harness), parser.Parse, condition.Build/build, UnaryCond/BinaryCond/
// PrimitiveCond.Match. Atoms are real primitives req_tag_match("a<i>","t") whose truth value is a
// symbolic byte in the request's tag table, so the i-th atom is true iff truth byte i == 't'.

import (
	"net"
	"net/url"

	"github.com/bfenetworks/bfe/bfe_basic"
	"github.com/bfenetworks/bfe/bfe_basic/condition/parser"
	"github.com/bfenetworks/bfe/bfe_http"
	vrt "github.com/bfenetworks/bfe/zz_vrt"
)

// ---- independent reference: precedence climbing over the harness token kinds ----

type nodeC16 struct {
	kind int // 0 atom, 1 and, 2 or, 3 not
	atom int
	l, r int
}

type refParserC16 struct {
	toks    []int
	pos     int
	atoms   int
	nodes   []nodeC16
	bad     bool
	swapped bool // true: the (wrong) table in which || binds tighter than &&
}

func (p *refParserC16) peek() int {
	if p.pos < len(p.toks) {
		return p.toks[p.pos]
	}
	return parser.TokEndC16
}

func (p *refParserC16) add(n nodeC16) int {
	p.nodes = append(p.nodes, n)
	return len(p.nodes) - 1
}

func (p *refParserC16) prec(tok int) int {
	and, or := 2, 1
	if p.swapped {
		and, or = 1, 2
	}
	switch tok {
	case parser.TokAndC16:
		return and
	case parser.TokOrC16:
		return or
	}
	return 0
}

// unary: '!' unary | '(' expr ')' | atom        ('!' binds tighter than any binary operator)
func (p *refParserC16) unary() int {
	if p.bad {
		return -1
	}
	switch p.peek() {
	case parser.TokNotC16:
		p.pos++
		x := p.unary()
		return p.add(nodeC16{kind: 3, l: x})
	case parser.TokLpC16:
		p.pos++
		x := p.expr(1)
		if p.peek() != parser.TokRpC16 {
			p.bad = true
			return -1
		}
		p.pos++
		return x
	case parser.TokAtomC16:
		p.pos++
		a := p.atoms
		p.atoms++
		return p.add(nodeC16{kind: 0, atom: a})
	}
	p.bad = true
	return -1
}

// expr(min): left-associative binary operators of precedence >= min
func (p *refParserC16) expr(min int) int {
	l := p.unary()
	for !p.bad {
		t := p.peek()
		pr := p.prec(t)
		if pr == 0 || pr < min {
			break
		}
		p.pos++
		r := p.expr(pr + 1)
		k := 1
		if t == parser.TokOrC16 {
			k = 2
		}
		l = p.add(nodeC16{kind: k, l: l, r: r})
	}
	return l
}

func refParseC16(toks []int, swapped bool) (*refParserC16, int, bool) {
	p := &refParserC16{toks: toks, swapped: swapped}
	root := p.expr(1)
	if p.bad || p.pos != len(toks) {
		return p, -1, false
	}
	return p, root, true
}

func (p *refParserC16) eval(n int, truth []bool) bool {
	nd := p.nodes[n]
	switch nd.kind {
	case 0:
		return truth[nd.atom]
	case 3:
		x := p.eval(nd.l, truth)
		return !x
	}
	x := p.eval(nd.l, truth)
	y := p.eval(nd.r, truth)
	if nd.kind == 1 {
		return x && y
	}
	return x || y
}

// viableC16: is toks a viable prefix / a complete sentence of the documented grammar
// (operand/operator alternation with balanced parentheses). Independent of the tree builder above.
func viableC16(toks []int) (prefix bool, complete bool) {
	depth := 0
	wantOperand := true
	for _, t := range toks {
		if wantOperand {
			switch t {
			case parser.TokAtomC16:
				wantOperand = false
			case parser.TokNotC16:
			case parser.TokLpC16:
				depth++
			default:
				return false, false
			}
		} else {
			switch t {
			case parser.TokAndC16, parser.TokOrC16:
				wantOperand = true
			case parser.TokRpC16:
				if depth == 0 {
					return false, false
				}
				depth--
			default:
				return false, false
			}
		}
	}
	return true, !wantOperand && depth == 0
}

// mixedC16: some parenthesis level contains both && and || directly (not separated by parentheses).
// Exactly for these expressions the documented table and the swapped one build different trees.
func mixedC16(toks []int) bool {
	var and, or [16]bool
	depth := 0
	mixed := false
	for _, t := range toks {
		switch t {
		case parser.TokLpC16:
			depth++
			and[depth], or[depth] = false, false
		case parser.TokRpC16:
			if depth > 0 {
				depth--
			}
		case parser.TokAndC16:
			and[depth] = true
		case parser.TokOrC16:
			or[depth] = true
		}
		if and[depth] && or[depth] {
			mixed = true
		}
	}
	return mixed
}

func countAtomsC16(toks []int) int {
	n := 0
	for _, t := range toks {
		if t == parser.TokAtomC16 {
			n++
		}
	}
	return n
}

// mkReqC16: a request whose tag table makes atom i true iff its truth byte is 't'.
func mkReqC16(n int) (*bfe_basic.Request, []bool) {
	req := &bfe_basic.Request{Session: &bfe_basic.Session{}, HttpRequest: &bfe_http.Request{}}
	req.Tags.TagTable = make(map[string][]string)
	truth := make([]bool, n)
	for i := 0; i < n; i++ {
		s := vrt.Str("truth", 1)
		vrt.Assume(s[0] == 't' || s[0] == 'f')
		req.Tags.TagTable[parser.AtomKeysC16[i]] = []string{s}
		truth[i] = s[0] == 't'
	}
	return req, truth
}

// VerifC16_precedence: every sequence of <= N tokens over {atom, &&, ||, !, (, )} goes through the real
// condParse (real lexer interface), real build and real Match; compared with the reference.
func VerifC16_precedence() {
	N := vrt.Param("N", 7)
	node, ok, toks, ended := parser.ParseTokensC16(N)
	prefix, complete := viableC16(toks)
	ref, root, refOK := refParseC16(toks, false)
	vrt.Assert(refOK == complete, "C16/reference-self-consistent")
	if !ok {
		if ended {
			vrt.Assert(!complete, "C16/rejects-only-invalid")
		} else {
			// the parser gave up at the last token: no documented sentence may start like this
			vrt.Assert(!prefix, "C16/rejects-only-invalid-prefix")
		}
		return
	}
	vrt.Assert(complete, "C16/accepts-only-valid")
	if !complete {
		return
	}
	cond, err := build(node)
	vrt.Assert(err == nil && cond != nil, "C16/builds")
	req, truth := mkReqC16(countAtomsC16(toks))
	got := cond.Match(req)
	want := ref.eval(root, truth)
	sref, sroot, _ := refParseC16(toks, true)
	swappedVal := sref.eval(sroot, truth)
	vrt.Known("C16-or-binds-tighter-than-and", mixedC16(toks) && got == swappedVal)
	vrt.Assert(got == want, "C16/value")
}

// renderC16 writes the token sequence as condition source text.
func renderC16(toks []int) string {
	s := ""
	a := 0
	for i, t := range toks {
		if i > 0 {
			s += " "
		}
		switch t {
		case parser.TokAtomC16:
			s += "req_tag_match(\"" + parser.AtomKeysC16[a] + "\", \"t\")"
			a++
		case parser.TokAndC16:
			s += "&&"
		case parser.TokOrC16:
			s += "||"
		case parser.TokNotC16:
			s += "!"
		case parser.TokLpC16:
			s += "("
		case parser.TokRpC16:
			s += ")"
		}
	}
	return s
}

// VerifC16_buildString: every *valid* expression of <= N tokens (generated from the documented grammar's
// viable prefixes), rendered as text, through the real condition.Build (scanner + parser + semantic
// checks + build) and Match; compared with the reference evaluation.
func VerifC16_buildString() {
	N := vrt.Param("N", 7)
	var toks []int
	depth := 0
	wantOperand := true
	for len(toks) < N {
		var t int
		if wantOperand {
			t = []int{parser.TokAtomC16, parser.TokNotC16, parser.TokLpC16}[vrt.Choose("operand", 3)]
		} else {
			k := vrt.Choose("operator", 4)
			if k == 3 {
				break
			}
			t = []int{parser.TokAndC16, parser.TokOrC16, parser.TokRpC16}[k]
		}
		switch t {
		case parser.TokAtomC16:
			wantOperand = false
		case parser.TokLpC16:
			depth++
		case parser.TokRpC16:
			depth--
		case parser.TokAndC16, parser.TokOrC16:
			wantOperand = true
		}
		vrt.Assume(depth >= 0)
		toks = append(toks, t)
	}
	vrt.Assume(!wantOperand && depth == 0)
	ref, root, refOK := refParseC16(toks, false)
	vrt.Assert(refOK, "C16/reference-self-consistent")
	src := renderC16(toks)
	cond, err := Build(src)
	vrt.Assert(err == nil && cond != nil, "C16/string-builds")
	if err != nil {
		return
	}
	req, truth := mkReqC16(countAtomsC16(toks))
	got := cond.Match(req)
	want := ref.eval(root, truth)
	sref, sroot, _ := refParseC16(toks, true)
	swappedVal := sref.eval(sroot, truth)
	vrt.Known("C16-or-binds-tighter-than-and", mixedC16(toks) && got == swappedVal)
	vrt.Assert(got == want, "C16/string-value")
}

// checkSentenceC16: one concrete sentence (token kinds), rendered as text, through the real Build and Match
// with an independent symbolic truth value per atom, against the reference evaluation.
func checkSentenceC16(toks []int) {
	ref, root, refOK := refParseC16(toks, false)
	vrt.Assert(refOK, "C16/reference-self-consistent")
	cond, err := Build(renderC16(toks))
	vrt.Assert(err == nil && cond != nil, "C16/group-builds")
	if err != nil {
		return
	}
	req, truth := mkReqC16(countAtomsC16(toks))
	got := cond.Match(req)
	want := ref.eval(root, truth)
	sref, sroot, _ := refParseC16(toks, true)
	swappedVal := sref.eval(sroot, truth)
	vrt.Known("C16-or-binds-tighter-than-and", mixedC16(toks) && got == swappedVal)
	vrt.Assert(got == want, "C16/negated-group-value")
}

// VerifC16_negatedGroup: "parentheses first, then !" on sentences longer than the token bound of the two
// exhaustive harnesses: a negated parenthesised group of three operands, ! ( x op y op z ), the operator
// chosen independently per position. Variants (one at a time, to keep the number of sentences small):
// 0: every operand an atom or a negated atom; 1: the group in a second pair of parentheses; 2: the group
// negated twice; 3: followed by "op atom" outside the group; 4: preceded by "atom op".
// Value of the built condition == reference value for all truth assignments.
func VerifC16_negatedGroup() {
	ops := []int{parser.TokAndC16, parser.TokOrC16}
	variant := vrt.Choose("variant", 5)
	var group []int
	for i := 0; i < 3; i++ {
		if i > 0 {
			group = append(group, ops[vrt.Choose("op", 2)])
		}
		if variant == 0 && vrt.Choose("negated-operand", 2) == 1 {
			group = append(group, parser.TokNotC16)
		}
		group = append(group, parser.TokAtomC16)
	}
	var toks []int
	if variant == 4 {
		toks = append(toks, parser.TokAtomC16, ops[vrt.Choose("outer-op", 2)])
	}
	toks = append(toks, parser.TokNotC16)
	if variant == 2 {
		toks = append(toks, parser.TokNotC16)
	}
	toks = append(toks, parser.TokLpC16)
	if variant == 1 {
		toks = append(toks, parser.TokLpC16)
	}
	toks = append(toks, group...)
	toks = append(toks, parser.TokRpC16)
	if variant == 1 {
		toks = append(toks, parser.TokRpC16)
	}
	if variant == 3 {
		toks = append(toks, ops[vrt.Choose("outer-op", 2)], parser.TokAtomC16)
	}
	checkSentenceC16(toks)
}

// ---- ! applied to the truth value of a real primitive whose attribute may be missing ----

// The property: ! is applied "to the truth values of its primitives" - whatever the truth value of a
// primitive p is on a request (also on a request that lacks the inspected attribute, where the primitive is
// false), !p is its complement on that very request. Nothing is assumed here about WHICH value p has.
var notPrimsC16 = []string{
	"req_cookie_value_in(\"uid\", \"a\", false)",
	"req_cookie_value_prefix_in(\"uid\", \"a\", true)",
	"req_header_value_in(\"X-Uid\", \"a\", false)",
	"req_query_value_in(\"uid\", \"a\", false)",
	"req_path_in(\"/a\", false)",
	"req_cip_range(\"10.0.0.1\", \"10.0.0.9\")",
	"req_vip_in(\"10.0.0.1\")",
	"ses_sip_range(\"10.0.0.1\", \"10.0.0.9\")",
	"req_tag_match(\"a0\", \"t\")",
}

func asciiC16(n int) string {
	s := vrt.Str("attr", n)
	for i := 0; i < n; i++ {
		vrt.Assume(s[i] < 0x80)
	}
	return s
}

// mkAttrReqC16: present == false: a request that carries none of the attributes the primitives above
// inspect (no cookie, no header, no URL, no addresses, no tags); present == true: all of them, each with a
// symbolic value.
func mkAttrReqC16(present bool) *bfe_basic.Request {
	req := &bfe_basic.Request{Session: &bfe_basic.Session{}, HttpRequest: &bfe_http.Request{Header: bfe_http.Header{}}}
	req.CookieMap = bfe_http.CookieMap{}
	req.Query = url.Values{}
	if !present {
		return req
	}
	req.CookieMap["uid"] = &bfe_http.Cookie{Name: "uid", Value: asciiC16(1)}
	req.HttpRequest.Header["X-Uid"] = []string{asciiC16(1)}
	req.Query["uid"] = []string{asciiC16(1)}
	req.HttpRequest.URL = &url.URL{Path: "/" + asciiC16(1)}
	last := func() net.IP { b := vrt.Bytes("ip", 1); return net.IP{10, 0, 0, b[0]} }
	req.ClientAddr = &net.TCPAddr{IP: last(), Port: 1}
	req.Session.Vip = last()
	req.Session.RemoteAddr = &net.TCPAddr{IP: last(), Port: 1}
	req.Tags.TagTable = map[string][]string{"a0": {asciiC16(1)}}
	return req
}

func mustBuildC16(src string) Condition {
	c, err := Build(src)
	vrt.Assert(err == nil && c != nil, "C16/not-primitive-builds")
	return c
}

// VerifC16_notOfPrimitive: for a real primitive p (cookie / header / query value, path, client / virtual /
// socket address, tag) and a request on which the inspected attribute is absent, or present with a symbolic
// value: Match(!p) == !Match(p), Match(!(p)) == !Match(p), Match(!!p) == Match(p), and p || !p holds,
// p && !p does not.
func VerifC16_notOfPrimitive() {
	src := notPrimsC16[vrt.Choose("primitive", len(notPrimsC16))]
	req := mkAttrReqC16(vrt.Choose("present", 2) == 1)
	p := mustBuildC16(src).Match(req)
	if p {
		vrt.Cover("C16/primitive-true")
	} else {
		vrt.Cover("C16/primitive-false")
	}
	vrt.Assert(mustBuildC16("!"+src).Match(req) == !p, "C16/not-is-complement")
	vrt.Assert(mustBuildC16("!("+src+")").Match(req) == !p, "C16/not-of-parenthesised-is-complement")
	vrt.Assert(mustBuildC16("!!"+src).Match(req) == p, "C16/double-not-is-identity")
	vrt.Assert(mustBuildC16(src+" || !"+src).Match(req), "C16/p-or-not-p")
	vrt.Assert(!mustBuildC16(src+" && !"+src).Match(req), "C16/p-and-not-p")
}
