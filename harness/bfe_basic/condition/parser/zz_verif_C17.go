package parser

// C17 (parser package) — scanner totality on symbolic byte strings; a harness lexer over every token
// kind the real lexer can hand to condParse; access to the funcProtos key set.

import (
	"sort"

	vrt "github.com/bfenetworks/bfe/zz_vrt"
)

// quoteAtEndC17: some string literal is opened by the very last byte of src (`"` or backquote), or a
// `"` is opened immediately before a newline. These are exactly the inputs for which
// scanString/scanRawString compute src[offs+1 : s.offset-1] with s.offset-1 < offs+1.
// A small lexical state machine (normal / "string" / `raw` / comment), written without early exits so
// that it stays a pure region for the symbolic interpreter.
func quoteAtEndC17(src []byte) bool {
	const (
		normal  = 0
		str     = 1
		raw     = 2
		comment = 3
	)
	n := len(src)
	state := normal
	skip := false // current byte was consumed as the second byte of \" or \\ or //
	hit := false
	for i := 0; i < n; i++ {
		c := src[i]
		last := i == n-1
		var next byte
		if !last {
			next = src[i+1]
		}
		if skip {
			skip = false
		} else {
			switch state {
			case normal:
				if c == '"' {
					if last || next == '\n' {
						hit = true
					}
					state = str
				} else if c == '`' {
					if last {
						hit = true
					}
					state = raw
				} else if c == '/' && !last && next == '/' {
					state = comment
					skip = true
				}
			case str:
				if c == '"' {
					state = normal
				} else if c == '\n' {
					state = normal
				} else if c == '\\' && !last && (next == '"' || next == '\\') {
					skip = true
				}
			case raw:
				if c == '`' {
					state = normal
				}
			case comment:
				if c == '\n' {
					state = normal
				}
			}
		}
	}
	return hit
}

// QuoteAtEndC17 exports the predicate for the harnesses in package condition.
func QuoteAtEndC17(src []byte) bool { return quoteAtEndC17(src) }

// scanAllC17: Scanner.Scan on a symbolic source until EOF: never panics, always makes progress
// (at most len(src) tokens before EOF).
func scanAllC17(L int, ascii bool) {
	src := vrt.Bytes("src", L)
	if ascii {
		for _, b := range src {
			vrt.Assume(b < 0x80)
		}
	}
	vrt.Known("C17-string-opened-at-end-of-input", quoteAtEndC17(src))
	var p Parser
	p.Init(src)
	eof := false
	for i := 0; i < L+1; i++ {
		_, tok, _ := p.scanner.Scan()
		if tok == EOF {
			eof = true
			break
		}
	}
	vrt.Assert(eof, "C17/scan-makes-progress")
}

// VerifC17_scanBytes: every byte string of length <= L, all 256 values per byte.
func VerifC17_scanBytes() {
	scanAllC17(vrt.Range("len", 0, vrt.Param("L", 2)), false)
}

// VerifC17_scanASCII: every ASCII string of length <= LA (deeper than the all-bytes harness).
func VerifC17_scanASCII() {
	scanAllC17(vrt.Range("len", 0, vrt.Param("LA", 3)), true)
}

// ---- harness lexer over every token kind the real condLex.Lex can return ----

const (
	TkIdentC17   = 0 // IDENT
	TkLitC17     = 1 // BASICLIT
	TkAndC17     = 2
	TkOrC17      = 3
	TkNotC17     = 4
	TkLpC17      = 5
	TkRpC17      = 6
	TkCommaC17   = 7
	TkSemiC17    = 8
	TkIllC17     = 9  // a token the real lexer refuses: Error("unrecognized token") then EOF
	TkEndC17     = 10 // end of input
	tkKindsC17   = 11
	identNameC17 = "default_t"
)

type lexC17 struct {
	max    int
	toks   []int
	ended  bool
	errors int
}

func (x *lexC17) Lex(lval *condSymType) int {
	if x.ended || x.errors > 0 {
		return EOF
	}
	k := TkEndC17
	if len(x.toks) < x.max {
		k = vrt.Choose("tok", tkKindsC17)
	}
	if k == TkEndC17 {
		x.ended = true
		return EOF
	}
	x.toks = append(x.toks, k)
	switch k {
	case TkIdentC17:
		lval.Node = &Ident{Name: identNameC17}
		return IDENT
	case TkLitC17:
		lval.Node = &BasicLit{Kind: STRING, Value: "s"}
		return BASICLIT
	case TkAndC17:
		return LAND
	case TkOrC17:
		return LOR
	case TkNotC17:
		return NOT
	case TkLpC17:
		return LPAREN
	case TkRpC17:
		return RPAREN
	case TkCommaC17:
		return COMMA
	case TkSemiC17:
		return SEMICOLON
	}
	// TkIllC17: what condLex.Lex does for ILLEGAL/FLOAT/IMAG tokens
	x.Error("unrecognized token")
	x.ended = true
	return EOF
}

func (x *lexC17) Error(s string) { x.errors++ }

// ParseTokensC17 runs the real condParse on a lazily chosen token sequence (<= max tokens) and returns
// whether it accepted, and the sequence.
func ParseTokensC17(max int) (bool, []int) {
	parseLock.Lock()
	defer parseLock.Unlock()
	parseNode = nil
	lx := &lexC17{max: max}
	rc := condParse(lx)
	ok := rc == 0 && lx.errors == 0
	// the parser must report every failure through Error (Parser.Parse only looks at the error list)
	// (an illegal token makes the lexer itself record an error and end the input, so rc == 0 with errors > 0 is fine)
	vrt.Assert(rc == 0 || lx.errors > 0, "C17/parser-failure-is-reported-through-error-callback")
	if ok {
		vrt.Assert(parseNode != nil, "C17/accepted-input-has-ast")
	}
	return ok, lx.toks
}

// RenderTokensC17 writes a token sequence as source text for the real scanner.
func RenderTokensC17(toks []int) string {
	s := ""
	for i, t := range toks {
		if i > 0 {
			s += " "
		}
		switch t {
		case TkIdentC17:
			s += identNameC17
		case TkLitC17:
			s += "\"s\""
		case TkAndC17:
			s += "&&"
		case TkOrC17:
			s += "||"
		case TkNotC17:
			s += "!"
		case TkLpC17:
			s += "("
		case TkRpC17:
			s += ")"
		case TkCommaC17:
			s += ","
		case TkSemiC17:
			s += ";"
		case TkIllC17:
			s += "#"
		}
	}
	return s
}

// ProtoNamesC17: the key set of funcProtos, sorted.
func ProtoNamesC17() []string {
	var names []string
	for k := range funcProtos {
		names = append(names, k)
	}
	sort.Strings(names)
	return names
}

// ProtoC17 returns the declared argument kinds of a primitive.
func ProtoC17(name string) ([]Token, bool) {
	p, ok := funcProtos[name]
	return p, ok
}

// PrototypeCheckC17 exposes the real prototypeCheck.
func PrototypeCheckC17(expr *CallExpr) error { return prototypeCheck(expr) }

// SemanticCheckC17 runs the two passes Parser.Parse applies to an accepted AST (collectVariable, then
// primitiveCheck, both through the real Inspect/Walk) on a hand-built AST and returns the number of
// reported errors and of collected variables.
func SemanticCheckC17(ast Node) (int, int) {
	var p Parser
	p.Init(nil)
	Inspect(ast, p.collectVariable)
	Inspect(ast, p.primitiveCheck)
	return len(p.errors), len(p.identList)
}
