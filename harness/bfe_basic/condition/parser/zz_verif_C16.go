package parser

// C16 (parser side) — a harness lexer that drives the real goyacc-generated condParse through its
// real condLexer interface. The token at each position is picked lazily (when the parser asks for
// it) with vrt.Choose, so the exploration follows the parser's own viable prefixes: once the parser
// has reported a syntax error no further tokens are drawn.

import (
	vrt "github.com/bfenetworks/bfe/zz_vrt"
)

// Harness-level token kinds (one harness token = one grammar symbol of the documented grammar; an
// atom expands to the real token run IDENT LPAREN BASICLIT COMMA BASICLIT RPAREN).
const (
	TokAtomC16 = 0
	TokAndC16  = 1
	TokOrC16   = 2
	TokNotC16  = 3
	TokLpC16   = 4
	TokRpC16   = 5
	TokEndC16  = 6
)

// AtomKeysC16: the i-th atom of a sequence is the call req_tag_match("<AtomKeysC16[i]>", "t").
var AtomKeysC16 = []string{"a0", "a1", "a2", "a3", "a4", "a5", "a6", "a7"}

type realTokC16 struct {
	tok  int
	node Node
}

type lexC16 struct {
	max    int          // max number of harness tokens
	toks   []int        // harness tokens handed out so far (without the end marker)
	queue  []realTokC16 // pending real tokens of the current harness token
	atoms  int
	ended  bool
	errors int
}

func (x *lexC16) Lex(lval *condSymType) int {
	if len(x.queue) == 0 {
		if x.ended || x.errors > 0 {
			return EOF
		}
		k := TokEndC16
		if len(x.toks) < x.max {
			k = vrt.Choose("tok", 7)
		}
		if k == TokEndC16 {
			x.ended = true
			return EOF
		}
		x.toks = append(x.toks, k)
		switch k {
		case TokAtomC16:
			key := AtomKeysC16[x.atoms]
			x.atoms++
			x.queue = append(x.queue,
				realTokC16{IDENT, &Ident{Name: "req_tag_match"}},
				realTokC16{LPAREN, nil},
				realTokC16{BASICLIT, &BasicLit{Kind: STRING, Value: key}},
				realTokC16{COMMA, nil},
				realTokC16{BASICLIT, &BasicLit{Kind: STRING, Value: "t"}},
				realTokC16{RPAREN, nil})
		case TokAndC16:
			x.queue = append(x.queue, realTokC16{LAND, nil})
		case TokOrC16:
			x.queue = append(x.queue, realTokC16{LOR, nil})
		case TokNotC16:
			x.queue = append(x.queue, realTokC16{NOT, nil})
		case TokLpC16:
			x.queue = append(x.queue, realTokC16{LPAREN, nil})
		case TokRpC16:
			x.queue = append(x.queue, realTokC16{RPAREN, nil})
		}
	}
	t := x.queue[0]
	x.queue = x.queue[1:]
	if t.node != nil {
		lval.Node = t.node
	}
	return t.tok
}

func (x *lexC16) Error(s string) { x.errors++ }

// ParseTokensC16 runs the real condParse on a lazily chosen sequence of at most max harness tokens.
// It returns the AST, whether the parser accepted, the token sequence that was handed out, and
// whether the end of input had been handed out (false: the parser gave up at the last token of the
// sequence, i.e. it rejects every input with that prefix).
func ParseTokensC16(max int) (Node, bool, []int, bool) {
	parseLock.Lock()
	defer parseLock.Unlock()
	parseNode = nil
	lx := &lexC16{max: max}
	rc := condParse(lx)
	ok := rc == 0 && lx.errors == 0
	if !ok {
		return nil, false, lx.toks, lx.ended
	}
	return parseNode, true, lx.toks, lx.ended
}
