package condition

// C17 — condition parsing and building are total and type-checked (package condition part).

import (
	"bytes"
	"net"

	"github.com/bfenetworks/bfe/bfe_basic/condition/parser"
	vrt "github.com/bfenetworks/bfe/zz_vrt"
)

// safeBuildC17 is condition.Build; a panic is a violation (reported by the engine / natively fatal).
func checkResultC17(cond Condition, err error) {
	vrt.Assert((cond != nil) != (err != nil), "C17/returns-condition-xor-error")
}

// VerifC17_parseTokens: every sequence of <= N tokens over all token kinds the lexer can return
// (IDENT, BASICLIT, &&, ||, !, (, ), ',', ';', an illegal token, end) through the real condParse; then the
// same sequence as text through the real Build: no panic, a condition xor an error, and a syntax error
// reported by the parser always surfaces as an error of Build.
func VerifC17_parseTokens() {
	N := vrt.Param("N", 6)
	ok, toks := parser.ParseTokensC17(N)
	src := parser.RenderTokensC17(toks)
	cond, err := Build(src)
	checkResultC17(cond, err)
	if !ok {
		vrt.Assert(err != nil, "C17/syntax-error-is-reported")
	}
}

// VerifC17_buildBytes: Build on every byte string of <= LB bytes (ASCII when ASCII=1).
func VerifC17_buildBytes() {
	L := vrt.Range("len", 0, vrt.Param("LB", 2))
	src := vrt.Bytes("src", L)
	if vrt.Param("ASCII", 1) == 1 {
		for _, b := range src {
			vrt.Assume(b < 0x80)
		}
	}
	vrt.Known("C17-string-opened-at-end-of-input", parser.QuoteAtEndC17(src))
	cond, err := Build(string(src))
	checkResultC17(cond, err)
}

// ---- prototypes: transcribed from docs/en_us/condition/condition_primitive_index.md and the
// per-primitive pages (S = String, B = Boolean). The ten primitives that exist in the code but not in
// the documentation (marked *) are listed with the signature the code declares. ----

type protoC17 struct {
	name string
	sig  string
}

var protosC17 = []protoC17{
	{"req_cip_hash_in", "S"}, {"req_cip_range", "SS"}, {"req_cip_trusted", ""},
	{"req_cookie_key_in", "S"}, {"req_cookie_value_contain", "SSB"}, {"req_cookie_value_in", "SSB"},
	{"req_cookie_value_hash_in", "SSB"}, {"req_cookie_value_prefix_in", "SSB"}, {"req_cookie_value_suffix_in", "SSB"},
	{"req_header_key_in", "S"}, {"req_header_value_contain", "SSB"}, {"req_header_value_in", "SSB"},
	{"req_header_value_hash_in", "SSB"}, {"req_header_value_prefix_in", "SSB"}, {"req_header_value_suffix_in", "SSB"},
	{"req_host_in", "S"}, {"req_method_in", "S"}, {"req_proto_secure", ""}, {"req_tag_match", "SS"},
	{"req_path_in", "SB"}, {"req_path_contain", "SB"}, {"req_path_prefix_in", "SB"},
	{"req_path_element_prefix_in", "SB"}, {"req_path_suffix_in", "SB"},
	{"req_query_key_in", "S"}, {"req_query_key_prefix_in", "S"}, {"req_query_value_in", "SSB"},
	{"req_query_value_hash_in", "SSB"}, {"req_query_value_prefix_in", "SSB"}, {"req_query_value_suffix_in", "SSB"},
	{"req_port_in", "S"}, {"req_url_regmatch", "S"}, {"req_vip_in", "S"}, {"req_vip_range", "SS"},
	{"res_code_in", "S"}, {"res_header_key_in", "S"}, {"res_header_value_in", "SSB"},
	{"ses_sip_range", "SS"}, {"ses_vip_range", "SS"}, {"ses_tls_sni_in", "S"}, {"ses_tls_client_auth", ""},
	{"ses_tls_client_ca_in", "S"},
	{"bfe_time_range", "SS"}, {"bfe_periodic_time_range", "SSS"},
	// * undocumented
	{"default_t", ""}, {"req_proto_match", "S"}, {"req_host_regmatch", "S"}, {"req_host_tag_in", "S"},
	{"req_host_suffix_in", "S"}, {"req_path_regmatch", "S"}, {"req_query_exist", ""},
	{"req_query_value_regmatch", "SS"}, {"req_query_value_contain", "SSB"}, {"req_ua_regmatch", "S"},
	{"req_header_value_regmatch", "SS"}, {"req_context_value_in", "SSB"},
}

// VerifC17_protoTable: the enumeration above covers exactly the primitives the code knows (so the
// per-primitive harness below cannot silently skip a newly added one).
func VerifC17_protoTable() {
	names := parser.ProtoNamesC17()
	vrt.Assert(len(names) == len(protosC17), "C17/enumeration-covers-every-primitive")
	for _, p := range protosC17 {
		_, ok := parser.ProtoC17(p.name)
		vrt.Assert(ok, "C17/enumerated-primitive-exists")
	}
}

// VerifC17_buildPrimitive: for every primitive name (and an unknown one), every argument count 0..4,
// symbolic argument kinds (STRING/BOOL/INT) and symbolic argument values of VL bytes:
// prototypeCheck accepts exactly the documented signature; when it accepts, buildPrimitive returns a
// condition xor an error and never panics.
func VerifC17_buildPrimitive() {
	idx := vrt.Choose("primitive", len(protosC17)+1)
	name, sig := "no_such_primitive", ""
	known := idx < len(protosC17)
	if known {
		name, sig = protosC17[idx].name, protosC17[idx].sig
	}
	n := vrt.Range("nargs", 0, vrt.Param("MAXARGS", 4))
	vl := vrt.Range("vlen", 0, vrt.Param("VL", 2))
	if name == "bfe_periodic_time_range" || name == "bfe_time_range" {
		vl = vrt.Range("tlen", 0, vrt.Param("VLT", 3))
	}
	call := &parser.CallExpr{Fun: &parser.Ident{Name: name}}
	match := known && n == len(sig)
	for i := 0; i < n; i++ {
		k := vrt.Int("kind")
		vrt.Assume(k == int(parser.STRING) || k == int(parser.BOOL) || k == int(parser.INT))
		li := vl
		if name == "bfe_periodic_time_range" && i == 2 {
			li = vrt.Range("plen", 0, 1) // the period argument must be "" to get past the first check
		}
		v := vrt.Str("val", li)
		for j := 0; j < li; j++ {
			vrt.Assume(v[j] < 0x80) // ASCII argument values (non-ASCII case folding is outside the claim)
		}
		call.Args = append(call.Args, &parser.BasicLit{Kind: parser.Token(k), Value: v})
		if i < len(sig) {
			want := int(parser.STRING)
			if sig[i] == 'B' {
				want = int(parser.BOOL)
			}
			match = match && k == want
		}
	}
	// the known time-of-day panic: Sscanf("%6s%s") succeeds on a literal shorter than 6 bytes
	if name == "bfe_periodic_time_range" && n == 3 && len(call.Args[2].Value) == 0 {
		a0, a1 := call.Args[0].Value, call.Args[1].Value
		vrt.Known("C17-time-of-day-shorter-than-6-bytes",
			len(a0) < 6 && twoWordsC17(a0, 6) || len(a1) < 6 && twoWordsC17(a1, 6))
	}
	perr := parser.PrototypeCheckC17(call)
	vrt.Assert((perr == nil) == match, "C17/prototype-check-accepts-exactly-the-signature")
	if perr != nil {
		return
	}
	cond, err := buildPrimitive(call)
	checkResultC17(cond, err)
}

// twoWordsC17: does fmt.Sscanf(s, "%<wid>s%s", &a, &b) succeed on the ASCII string s: optional white
// space (a newline is an error), a word (cut after wid characters), optional white space, a second word.
func twoWordsC17(s string, wid int) bool {
	ph, cnt := 0, 0 // 0 before word 1, 1 in word 1, 2 between, 3 success, 4 failure
	for i := 0; i < len(s); i++ {
		c := s[i]
		nl := c == '\n'
		sp := c == ' ' || c == '\t' || c == '\v' || c == '\f' || c == '\r'
		switch ph {
		case 0:
			if nl {
				ph = 4
			} else if !sp {
				ph, cnt = 1, 1
			}
		case 1:
			if nl {
				ph = 4
			} else if sp {
				ph = 2
			} else if cnt == wid {
				ph = 3
			} else {
				cnt++
			}
		case 2:
			if nl {
				ph = 4
			} else if !sp {
				ph = 3
			}
		}
	}
	return ph == 3
}

// ---- argument parsers on symbolic literals ----

// VerifC17_hashLiteral: NewHashMatcher on every literal of <= HL bytes: no panic, matcher xor error;
// an accepted literal only has digits, spaces, signs and '|' in it.
func VerifC17_hashLiteral() {
	l := vrt.Range("len", 0, vrt.Param("HL", 3))
	s := vrt.Str("lit", l)
	m, err := NewHashMatcher(s, vrt.Bool("ci"))
	vrt.Assert((m != nil) != (err != nil), "C17/hash-matcher-xor-error")
	if err == nil {
		okChars := true
		for i := 0; i < l; i++ {
			c := s[i]
			if !(c >= '0' && c <= '9' || c == ' ' || c == '-' || c == '+' || c == '|') {
				okChars = false
			}
		}
		vrt.Assert(okChars, "C17/hash-literal-with-other-characters-rejected")
		vrt.Assert(len(m.buckets) == HashMatcherBucketSize, "C17/hash-buckets-size")
	}
}

// VerifC17_hashBoundaries: literals longer than the symbolic bound of VerifC17_hashLiteral, at the
// boundaries of the documented bucket range 0..9999 (concrete literals, one symbolic probe bucket):
// accepted exactly when every number is in range and start <= end; the set buckets are exactly the range.
type hashCaseC17 struct {
	lit    string
	ok     bool
	lo, hi int
}

var hashCasesC17 = []hashCaseC17{
	{"0", true, 0, 0}, {"9999", true, 9999, 9999}, {"10000", false, 0, 0}, {"00009999", true, 9999, 9999},
	{"99999999999999999999", false, 0, 0}, {"0-9999", true, 0, 9999}, {"9998-9999", true, 9998, 9999},
	{"9999-10000", false, 0, 0}, {"5-4", false, 0, 0}, {"-1", false, 0, 0}, {"1-2-3", false, 0, 0},
	{" 12 - 13 ", true, 12, 13}, {"", false, 0, 0}, {"7|", false, 0, 0}, {"100-200|1000-1000", true, -1, -1},
}

func VerifC17_hashBoundaries() {
	c := hashCasesC17[vrt.Choose("case", len(hashCasesC17))]
	m, err := NewHashMatcher(c.lit, false)
	vrt.Assert((err == nil) == c.ok, "C17/hash-literal-accepted-iff-in-range")
	vrt.Assert((m != nil) != (err != nil), "C17/hash-matcher-xor-error")
	if err != nil {
		return
	}
	probe := vrt.Int("probe")
	vrt.Assume(probe >= 0 && probe < HashMatcherBucketSize)
	want := probe >= c.lo && probe <= c.hi
	if c.lo < 0 { // the documented example "100-200|1000-1000"
		want = probe >= 100 && probe <= 200 || probe == 1000
	}
	vrt.Assert(m.buckets[probe] == want, "C17/hash-buckets-are-the-range")
}

// VerifC17_ipLiteral: NewIpInMatcher / NewIPMatcher on symbolic literals of <= IL bytes: no panic,
// matcher xor error; an accepted range has start <= end.
func VerifC17_ipLiteral() {
	l := vrt.Range("len", 0, vrt.Param("IL", 4))
	s := vrt.Str("ip", l)
	noZone := vrt.Param("NOZONE", 0) == 1
	for i := 0; i < l; i++ {
		vrt.Assume(s[i] < 0x80)
		if noZone {
			// IPv6 zone identifiers ("fe80::1%eth0") go through unique.Make, which the engine does not
			// interpret on symbolic values; net.ParseIP rejects addresses with a zone anyway
			vrt.Assume(s[i] != '%')
		}
	}
	which := vrt.Choose("ctor", 3)
	switch which {
	case 0:
		m, err := NewIpInMatcher(s)
		vrt.Assert((m != nil) != (err != nil), "C17/ip-in-matcher-xor-error")
		if err == nil {
			vrt.Assert(len(m.patterns) >= 1, "C17/ip-in-matcher-has-patterns")
		}
	case 1:
		m, err := NewIPMatcher(s, "10.0.0.9")
		vrt.Assert((m != nil) != (err != nil), "C17/ip-matcher-xor-error")
		if err == nil {
			vrt.Assert(bytes.Compare(m.startIP, m.endIP) <= 0, "C17/ip-range-ordered")
			vrt.Assert(len(m.startIP) == net.IPv6len && len(m.endIP) == net.IPv6len, "C17/ip-range-16-bytes")
		}
	case 2:
		m, err := NewIPMatcher("::1", s)
		vrt.Assert((m != nil) != (err != nil), "C17/ip-matcher-xor-error")
		if err == nil {
			vrt.Assert(bytes.Compare(m.startIP, m.endIP) <= 0, "C17/ip-range-ordered")
		}
	}
}

// ---- the type check reaches a call wherever it sits in the expression ----

// callsC17: a few primitives of every arity (documented signatures) and an unknown one.
var callsC17 = []protoC17{
	{"default_t", ""}, {"req_host_in", "S"}, {"req_path_in", "SB"}, {"req_cip_range", "SS"},
	{"req_cookie_value_in", "SSB"}, {"no_such_primitive", "?"},
}

// wrapC17 puts the call x into one of the expression contexts of the grammar (g is a well-typed call).
const nContextsC17 = 10

func wrapC17(ctx int, x parser.Expr) parser.Expr {
	g := &parser.CallExpr{Fun: &parser.Ident{Name: "default_t"}}
	not := func(e parser.Expr) parser.Expr { return &parser.UnaryExpr{X: e, Op: parser.NOT} }
	paren := func(e parser.Expr) parser.Expr { return &parser.ParenExpr{X: e} }
	bin := func(a parser.Expr, op parser.Token, b parser.Expr) parser.Expr {
		return &parser.BinaryExpr{X: a, Op: op, Y: b}
	}
	switch ctx {
	case 0:
		return x
	case 1:
		return not(x)
	case 2:
		return not(not(x))
	case 3:
		return paren(x)
	case 4:
		return not(paren(x))
	case 5:
		return bin(g, parser.LAND, x)
	case 6:
		return bin(g, parser.LAND, not(x))
	case 7:
		return bin(not(x), parser.LOR, g)
	case 8:
		return not(paren(bin(g, parser.LOR, x)))
	}
	return paren(bin(not(paren(x)), parser.LAND, g))
}

// VerifC17_callInContext: a call (known primitive of arity 0..3 or an unknown name, 0..3 arguments of
// symbolic kinds) placed as operand of !, !!, ( ), !( ), && / || (left or right, negated or not) in a
// hand-built AST; the real semantic passes of Parser.Parse (Inspect + primitiveCheck) must report an error
// whenever the call does not have the documented signature - wherever the call sits -, and the real build
// of a checked tree returns a condition xor an error without panicking.
func VerifC17_callInContext() {
	if vrt.Choose("level", 2) == 1 {
		negatedCallTextC17()
		return
	}
	c := callsC17[vrt.Choose("call", len(callsC17))]
	n := vrt.Range("nargs", 0, 3)
	call := &parser.CallExpr{Fun: &parser.Ident{Name: c.name}}
	match := c.sig != "?" && n == len(c.sig)
	for i := 0; i < n; i++ {
		k := vrt.Int("kind")
		vrt.Assume(k == int(parser.STRING) || k == int(parser.BOOL) || k == int(parser.INT))
		// "1.1.1.1" is a valid value for every STRING parameter of the calls above
		call.Args = append(call.Args, &parser.BasicLit{Kind: parser.Token(k), Value: "1.1.1.1"})
		if i < len(c.sig) {
			want := int(parser.STRING)
			if c.sig[i] == 'B' {
				want = int(parser.BOOL)
			}
			match = match && k == want
		}
	}
	ast := wrapC17(vrt.Choose("context", nContextsC17), call)
	errs, _ := parser.SemanticCheckC17(ast)
	if !match {
		vrt.Assert(errs > 0, "C17/ill-typed-call-is-reported-in-every-context")
		return
	}
	if errs > 0 {
		return
	}
	vrt.Cover("C17/well-typed-call-passes-in-context")
	cond, err := build(ast)
	checkResultC17(cond, err)
}

// negatedCallTextC17 (second half of VerifC17_callInContext; one entry point because every harness of this
// package pays ~10 s of package initialisation): the same question at the observation point of the property, condition.Build
// on source text: ill-typed or unknown calls under ! (and in the other contexts) are rejected with an
// error, not accepted and not a panic; their well-typed counterparts build.
var badCallsC17 = []string{
	"!req_host_in()",
	"!req_path_in(\"/a\")",
	"!req_path_in(\"/a\", \"true\")",
	"!default_t(\"x\")",
	"!no_such_primitive(\"x\")",
	"!!req_host_in()",
	"!(req_host_in())",
	"default_t() && !req_host_in()",
	"!req_cip_range(\"1.1.1.1\") || default_t()",
	"!(default_t() || req_path_in(\"/a\"))",
	"req_host_in()",
	"default_t() || req_host_in(true)",
}

var goodCallsC17 = []string{
	"!req_host_in(\"a\")",
	"!req_path_in(\"/a\", true)",
	"!!default_t()",
	"!(default_t() || req_path_in(\"/a\", false))",
	"default_t() && !req_cip_range(\"1.1.1.1\", \"1.1.1.2\")",
}

func negatedCallTextC17() {
	i := vrt.Choose("source", len(badCallsC17)+len(goodCallsC17))
	if i < len(badCallsC17) {
		cond, err := Build(badCallsC17[i])
		checkResultC17(cond, err)
		vrt.Assert(err != nil, "C17/ill-typed-call-rejected-by-build")
		return
	}
	cond, err := Build(goodCallsC17[i-len(badCallsC17)])
	checkResultC17(cond, err)
	vrt.Assert(err == nil, "C17/well-typed-negated-call-builds")
}
