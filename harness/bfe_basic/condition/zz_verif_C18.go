package condition

// C18 — condition primitives implement their documented matching (non-regex primitives).
//
// Every harness builds the primitive with the real buildPrimitive (concrete pattern arguments drawn from
// a small universe), matches it against a request whose inspected attribute is symbolic, and compares
// with a reference predicate transcribed from docs/en_us/condition/{request,session,response,system}/*.md.

import (
	"net"
	"net/url"

	"github.com/bfenetworks/bfe/bfe_basic"
	"github.com/bfenetworks/bfe/bfe_basic/condition/parser"
	"github.com/bfenetworks/bfe/bfe_http"
	"github.com/bfenetworks/bfe/bfe_tls"
	vrt "github.com/bfenetworks/bfe/zz_vrt"
	"github.com/spaolacci/murmur3"
)

// ---------- construction helpers ----------

func litSC18(v string) *parser.BasicLit { return &parser.BasicLit{Kind: parser.STRING, Value: v} }
func litBC18(b bool) *parser.BasicLit {
	if b {
		return &parser.BasicLit{Kind: parser.BOOL, Value: "true"}
	}
	return &parser.BasicLit{Kind: parser.BOOL, Value: "false"}
}

// buildC18 type-checks and builds a primitive with the real code; the arguments used by the harnesses
// are all valid, so a failure is itself a violation.
func buildC18(name string, args ...*parser.BasicLit) Condition {
	call := &parser.CallExpr{Fun: &parser.Ident{Name: name}, Args: args}
	vrt.Assert(parser.PrototypeCheckC17(call) == nil, "C18/valid-call-type-checks")
	c, err := buildPrimitive(call)
	vrt.Assert(err == nil && c != nil, "C18/valid-call-builds")
	return c
}

func asciiC18(label string, n int) string {
	s := vrt.Str("attr", n)
	for i := 0; i < n; i++ {
		vrt.Assume(s[i] < 0x80)
	}
	return s
}

func baseReqC18() *bfe_basic.Request {
	return &bfe_basic.Request{
		Session:     &bfe_basic.Session{},
		HttpRequest: &bfe_http.Request{URL: &url.URL{}, Header: bfe_http.Header{}},
	}
}

// patterns: a list of 1..P entries drawn from a universe, joined with '|'.
var patUniverseC18 = []string{"a", "ab", "B", "/a", "a/", ""}

func choosePatsC18(universe []string, maxN int) ([]string, string) {
	n := vrt.Range("npat", 1, maxN)
	var pats []string
	joined := ""
	for i := 0; i < n; i++ {
		p := universe[vrt.Choose("pat", len(universe))]
		pats = append(pats, p)
		if i > 0 {
			joined += "|"
		}
		joined += p
	}
	return pats, joined
}

// ---------- reference predicates (independent of bfe code) ----------

func upC18(c byte) byte {
	if c >= 'a' && c <= 'z' {
		return c - ('a' - 'A')
	}
	return c
}

// eqAtC18: v[off:off+len(p)] == p (case-folded when ci); off+len(p) <= len(v) is required.
func eqAtC18(v string, off int, p string, ci bool) bool {
	ok := true
	for i := 0; i < len(p); i++ {
		a, b := v[off+i], p[i]
		if ci {
			a, b = upC18(a), upC18(b)
		}
		if a != b {
			ok = false
		}
	}
	return ok
}

func refInC18(v string, pats []string, ci bool) bool {
	r := false
	for _, p := range pats {
		if len(p) == len(v) && eqAtC18(v, 0, p, ci) {
			r = true
		}
	}
	return r
}

func refPrefixC18(v string, pats []string, ci bool) bool {
	r := false
	for _, p := range pats {
		if len(p) <= len(v) && eqAtC18(v, 0, p, ci) {
			r = true
		}
	}
	return r
}

func refSuffixC18(v string, pats []string, ci bool) bool {
	r := false
	for _, p := range pats {
		if len(p) <= len(v) && eqAtC18(v, len(v)-len(p), p, ci) {
			r = true
		}
	}
	return r
}

func refContainC18(v string, pats []string, ci bool) bool {
	r := false
	for _, p := range pats {
		for off := 0; off+len(p) <= len(v); off++ {
			if eqAtC18(v, off, p, ci) {
				r = true
			}
		}
	}
	return r
}

// refElemPrefixC18: path-element prefix. Pattern and path are both read with a trailing '/' (added when
// missing, per the documentation); the pattern must then be a prefix of the path.
func refElemPrefixC18(v string, pats []string, ci bool) bool {
	r := false
	vSlash := len(v) > 0 && v[len(v)-1] == '/'
	for _, p := range pats {
		q := p
		if len(q) == 0 || q[len(q)-1] != '/' {
			q += "/"
		}
		if len(q) <= len(v) {
			if eqAtC18(v, 0, q, ci) {
				r = true
			}
		} else if len(q) == len(v)+1 {
			// only the implicit trailing '/' of the path can supply the last byte
			if !vSlash && eqAtC18(v, 0, q[:len(v)], ci) {
				r = true
			}
		}
	}
	return r
}

// ---------- A. the five string matchers, through the path primitives ----------

func VerifC18_pathMatchers() {
	kind := vrt.Choose("kind", 5)
	pats, joined := choosePatsC18(patUniverseC18, vrt.Param("P", 2))
	ci := vrt.Choose("ci", 2) == 1
	v := asciiC18("path", vrt.Range("vlen", 0, vrt.Param("VL", 3)))
	name := []string{"req_path_in", "req_path_prefix_in", "req_path_suffix_in", "req_path_contain", "req_path_element_prefix_in"}[kind]
	cond := buildC18(name, litSC18(joined), litBC18(ci))
	req := baseReqC18()
	req.HttpRequest.URL.Path = v
	got := cond.Match(req)
	switch kind {
	case 0:
		vrt.Assert(got == refInC18(v, pats, ci), "C18/path-in")
	case 1:
		vrt.Assert(got == refPrefixC18(v, pats, ci), "C18/path-prefix-in")
	case 2:
		vrt.Assert(got == refSuffixC18(v, pats, ci), "C18/path-suffix-in")
	case 3:
		vrt.Assert(got == refContainC18(v, pats, ci), "C18/path-contain")
	case 4:
		vrt.Assert(got == refElemPrefixC18(v, pats, ci), "C18/path-element-prefix-in")
	}
	// a request without URL has no path: every path primitive is false
	req.HttpRequest.URL = nil
	vrt.Assert(!cond.Match(req), "C18/path-missing-is-false")
}

// ---------- B. value primitives over query / cookie / header: fetcher + matcher + missing attribute ----------

func VerifC18_keyedValues() {
	src := vrt.Choose("source", 3) // 0 query, 1 cookie, 2 header
	kind := vrt.Choose("kind", 4)  // in, prefix, suffix, contain
	pats, joined := choosePatsC18(patUniverseC18, vrt.Param("P", 2))
	ci := vrt.Choose("ci", 2) == 1
	present := vrt.Choose("present", 3) // 0 absent (nothing at all), 1 another key only, 2 present
	v := asciiC18("value", vrt.Range("vlen", 0, vrt.Param("VL", 2)))

	prefix := []string{"req_query_value_", "req_cookie_value_", "req_header_value_"}[src]
	suffix := []string{"in", "prefix_in", "suffix_in", "contain"}[kind]
	key := []string{"k", "k", "X-K"}[src]
	other := []string{"kk", "kk", "X-Kk"}[src]
	cond := buildC18(prefix+suffix, litSC18(key), litSC18(joined), litBC18(ci))

	req := baseReqC18()
	req.Query = url.Values{}
	req.CookieMap = bfe_http.CookieMap{}
	set := func(k, val string) {
		switch src {
		case 0:
			req.Query[k] = []string{val}
		case 1:
			req.CookieMap[k] = &bfe_http.Cookie{Name: k, Value: val}
		case 2:
			req.HttpRequest.Header[k] = []string{val}
		}
	}
	if present == 1 {
		set(other, v)
	} else if present == 2 {
		set(key, v)
	}
	got := cond.Match(req)
	want := false
	if present == 2 {
		switch kind {
		case 0:
			want = refInC18(v, pats, ci)
		case 1:
			want = refPrefixC18(v, pats, ci)
		case 2:
			want = refSuffixC18(v, pats, ci)
		case 3:
			want = refContainC18(v, pats, ci)
		}
	}
	// Known: a missing query key / header is read as the empty string, so a pattern list that matches ""
	// makes the primitive true although the attribute is missing.
	emptyMatches := false
	for _, p := range pats {
		if p == "" {
			emptyMatches = true
		}
	}
	vrt.Known("C18-missing-query-or-header-read-as-empty-value", present != 2 && src != 1 && emptyMatches)
	vrt.Assert(got == want, "C18/keyed-value")
}

// ---------- C. key-presence primitives ----------

func VerifC18_keyPresence() {
	src := vrt.Choose("source", 4) // query key in, query key prefix in, cookie key in, header key in
	name := []string{"req_query_key_in", "req_query_key_prefix_in", "req_cookie_key_in", "req_header_key_in"}[src]
	universe := []string{"a", "ab", "b"}
	if src == 3 {
		universe = []string{"A", "Ab", "B"} // canonical header names (documented requirement)
	}
	pats, joined := choosePatsC18(universe, 2)
	cond := buildC18(name, litSC18(joined))
	req := baseReqC18()
	req.Query = url.Values{}
	req.CookieMap = bfe_http.CookieMap{}
	// the request carries any subset of the universe plus an unrelated key
	have := make([]bool, len(universe))
	for i, k := range universe {
		have[i] = vrt.Choose("has", 2) == 1
		if !have[i] {
			continue
		}
		val := asciiC18("val", 1)
		switch src {
		case 0, 1:
			req.Query[k] = []string{val}
		case 2:
			req.CookieMap[k] = &bfe_http.Cookie{Name: k, Value: val}
		case 3:
			req.HttpRequest.Header[k] = []string{val}
		}
	}
	got := cond.Match(req)
	want := false
	for i, k := range universe {
		if !have[i] {
			continue
		}
		for _, p := range pats {
			if src == 1 {
				if len(p) <= len(k) && k[:len(p)] == p {
					want = true
				}
			} else if k == p {
				want = true
			}
		}
	}
	vrt.Assert(got == want, "C18/key-presence")
	if src <= 1 {
		exist := buildC18("req_query_exist")
		any := false
		for _, h := range have {
			any = any || h
		}
		vrt.Assert(exist.Match(req) == any, "C18/query-exist")
	}
}

// ---------- D. host, port, method, protocol, tags, TLS session attributes, response, context ----------

// Host header "name[:port]" (no IPv6 literal). hostLenIsC18(h, c): the host name is exactly h[:c], i.e.
// there is no ':' before c and h ends at c or has ':' there. The port is what follows, "80" when absent.
func hostLenIsC18(h string, c int) bool {
	ok := true
	for i := 0; i < c; i++ {
		if h[i] == ':' {
			ok = false
		}
	}
	if c < len(h) && h[c] != ':' {
		ok = false
	}
	return ok
}

func refHostIsC18(h string, name string) bool {
	if len(name) > len(h) {
		return false
	}
	return hostLenIsC18(h, len(name)) && eqAtC18(h, 0, name, true)
}

func refPortIsC18(h string, port string) bool {
	n := len(h)
	r := hostLenIsC18(h, n) && port == "80" // no colon at all
	c := n - 1 - len(port)                  // the only possible position of the first colon
	if c >= 0 {
		if hostLenIsC18(h, c) && eqAtC18(h, c+1, port, false) {
			r = true
		}
	}
	return r
}

func VerifC18_hostPort() {
	h := asciiC18("host", vrt.Range("hlen", 0, vrt.Param("HL", 4)))
	if len(h) > 0 {
		vrt.Assume(h[0] != ':' && h[0] != '[') // empty host names and IPv6 literals: see VerifC18_hostIPv6
	}
	req := baseReqC18()
	req.HttpRequest.Host = h
	hostNames := []string{"a", "ab", "B.c"}
	hc := buildC18("req_host_in", litSC18("a|ab|B.c"))
	want := false
	for _, nme := range hostNames {
		if refHostIsC18(h, nme) {
			want = true
		}
	}
	vrt.Assert(hc.Match(req) == want, "C18/host-in")
	pc := buildC18("req_port_in", litSC18("80|8"))
	vrt.Assert(pc.Match(req) == (refPortIsC18(h, "80") || refPortIsC18(h, "8")), "C18/port-in")
	// host suffix: the host name (port stripped) ends with a pattern, case-insensitively
	sc := buildC18("req_host_suffix_in", litSC18(".c|b"))
	wantSuffix := false
	for c := 0; c <= len(h); c++ {
		if hostLenIsC18(h, c) && refSuffixC18(h[:c], []string{".c", "b"}, true) {
			wantSuffix = true
		}
	}
	vrt.Assert(sc.Match(req) == wantSuffix, "C18/host-suffix-in")
}

// VerifC18_hostIPv6: a Host header with a port whose host part is a name or an IPv6 literal ("[::1]:<port>").
func VerifC18_hostIPv6() {
	p := asciiC18("port", vrt.Range("plen", 1, 2))
	for i := 0; i < len(p); i++ {
		vrt.Assume(p[i] >= '0' && p[i] <= '9')
	}
	hostPart := []string{"a1", "[::1]"}[vrt.Choose("hostpart", 2)]
	req := baseReqC18()
	req.HttpRequest.Host = hostPart + ":" + p
	vrt.Known("C18-ipv6-literal-host-split-at-first-colon", req.HttpRequest.Host[0] == '[')
	pc := buildC18("req_port_in", litSC18("80|8"))
	vrt.Assert(pc.Match(req) == (p == "80" || p == "8"), "C18/port-in-host-with-port")
	sc := buildC18("req_host_suffix_in", litSC18("1]|a1"))
	vrt.Assert(sc.Match(req), "C18/host-suffix-host-with-port")
}

func VerifC18_requestAttrs() {
	which := vrt.Choose("attr", 8)
	req := baseReqC18()
	switch which {
	case 0: // req_method_in: case-insensitive membership
		m := asciiC18("method", vrt.Range("len", 0, 4))
		req.HttpRequest.Method = m
		c := buildC18("req_method_in", litSC18("GET|post"))
		vrt.Assert(c.Match(req) == refInC18(m, []string{"GET", "post"}, true), "C18/method-in")
	case 1: // req_proto_match / req_proto_secure: protocol of the connection
		secure := vrt.Bool("secure")
		sp, hp := asciiC18("sproto", 2), asciiC18("hproto", 2)
		req.Session.IsSecure = secure
		req.Session.Proto = sp
		req.HttpRequest.Proto = hp
		c := buildC18("req_proto_match", litSC18("h2"))
		eff := hp
		if secure {
			eff = sp
		}
		vrt.Assert(c.Match(req) == refInC18(eff, []string{"h2"}, true), "C18/proto-match")
		vrt.Assert(buildC18("req_proto_secure").Match(req) == secure, "C18/proto-secure")
	case 2: // req_tag_match
		t0, t1 := asciiC18("tag", vrt.Range("len0", 0, 2)), asciiC18("tag", 1)
		n := vrt.Choose("ntags", 4) // 0: no table, 1: no such key, 2: one tag, 3: two tags
		for i := 0; i < len(t0); i++ {
			vrt.Assume(t0[i] != ':')
		}
		vrt.Assume(t1[0] != ':')
		if n >= 1 {
			req.Tags.TagTable = map[string][]string{"other": {"v"}}
		}
		if n == 2 {
			req.Tags.TagTable["k"] = []string{t0}
		} else if n == 3 {
			req.Tags.TagTable["k"] = []string{t0, t1}
		}
		c := buildC18("req_tag_match", litSC18("k"), litSC18("v"))
		want := n >= 2 && t0 == "v" || n == 3 && t1 == "v"
		vrt.Assert(c.Match(req) == want, "C18/tag-match")
	case 3: // req_host_tag_in
		t := asciiC18("hosttag", vrt.Range("len", 0, 2))
		req.Route.HostTag = t
		c := buildC18("req_host_tag_in", litSC18("a|Bc"))
		vrt.Assert(c.Match(req) == refInC18(t, []string{"a", "Bc"}, true), "C18/host-tag-in")
	case 4: // ses_tls_sni_in / ses_tls_client_auth / ses_tls_client_ca_in
		secure, hasState, auth := vrt.Bool("secure"), vrt.Choose("state", 2) == 1, vrt.Bool("auth")
		sni := asciiC18("sni", vrt.Range("len", 0, 2))
		ca := asciiC18("ca", vrt.Range("calen", 0, 2))
		req.Session.IsSecure = secure
		if hasState {
			req.Session.TlsState = &bfe_tls.ConnectionState{ServerName: sni, ClientAuth: auth, ClientCAName: ca}
		}
		tls := secure && hasState
		vrt.Assert(buildC18("ses_tls_sni_in", litSC18("a|Bc")).Match(req) == (tls && len(sni) > 0 && refInC18(sni, []string{"a", "Bc"}, true)), "C18/sni-in")
		vrt.Assert(buildC18("ses_tls_client_auth").Match(req) == (tls && auth), "C18/client-auth")
		vrt.Assert(buildC18("ses_tls_client_ca_in", litSC18("a|Bc")).Match(req) == (tls && auth && len(ca) > 0 && refInC18(ca, []string{"a", "Bc"}, false)), "C18/client-ca-in")
	case 5: // res_code_in / res_header_value_in / res_header_key_in
		hasResp := vrt.Choose("resp", 2) == 1
		code := vrt.Int("code")
		vrt.Assume(code >= 0 && code <= 999)
		hv := asciiC18("rhv", vrt.Range("len", 0, 2))
		hasHdr := vrt.Choose("hdr", 2) == 1
		if hasResp {
			req.HttpResponse = &bfe_http.Response{StatusCode: code, Header: bfe_http.Header{}}
			if hasHdr {
				req.HttpResponse.Header["X-K"] = []string{hv}
			}
		}
		vrt.Assert(buildC18("res_code_in", litSC18("200|404|7")).Match(req) == (hasResp && (code == 200 || code == 404 || code == 7)), "C18/res-code-in")
		vrt.Known("C18-missing-query-or-header-read-as-empty-value", hasResp && !hasHdr)
		vrt.Assert(buildC18("res_header_value_in", litSC18("X-K"), litSC18("a|Bc|"), litBC18(true)).Match(req) == (hasResp && hasHdr && refInC18(hv, []string{"a", "Bc", ""}, true)), "C18/res-header-value-in")
		vrt.Assert(buildC18("res_header_key_in", litSC18("X-K|X-J")).Match(req) == (hasResp && hasHdr && len(hv) > 0), "C18/res-header-key-in")
	case 6: // req_context_value_in
		mode := vrt.Choose("ctx", 4) // 0 nil context, 1 key missing, 2 string value, 3 non-string value
		cv := asciiC18("ctx", vrt.Range("len", 0, 2))
		if mode >= 1 {
			req.Context = map[interface{}]interface{}{"other": "a"}
		}
		if mode == 2 {
			req.Context["k"] = cv
		} else if mode == 3 {
			req.Context["k"] = 7
		}
		c := buildC18("req_context_value_in", litSC18("k"), litSC18("a|Bc"), litBC18(false))
		vrt.Assert(c.Match(req) == (mode == 2 && refInC18(cv, []string{"a", "Bc"}, false)), "C18/context-value-in")
	case 7: // req_cip_trusted, default_t, and the nil-request / nil-session guards of PrimitiveCond
		tr := vrt.Choose("trusted", 2) == 1
		req.Session.SetTrustSource(tr)
		vrt.Assert(buildC18("req_cip_trusted").Match(req) == tr, "C18/cip-trusted")
		vrt.Assert(buildC18("default_t").Match(req), "C18/default-true")
		c := buildC18("req_method_in", litSC18("GET"))
		req.HttpRequest.Method = "GET"
		vrt.Assert(c.Match(req), "C18/method-in")
		vrt.Assert(!c.Match(nil), "C18/nil-request-is-false")
		req.Session = nil
		vrt.Assert(!c.Match(req), "C18/nil-session-is-false")
	}
}

// ---------- E. IP primitives ----------

// refIPRangeC18: inclusive range on the 16-byte form, bytewise big-endian order.
func cmp16C18(a, b []byte) int {
	r := 0
	for i := 15; i >= 0; i-- {
		if a[i] < b[i] {
			r = -1
		} else if a[i] > b[i] {
			r = 1
		}
	}
	return r
}

func to16C18(ip []byte) []byte {
	if len(ip) == 16 {
		return ip
	}
	r := make([]byte, 16)
	r[10], r[11] = 0xff, 0xff
	copy(r[12:], ip)
	return r
}

type ipRangeC18 struct {
	lo, hi     string
	lo16, hi16 []byte
}

var v4pC18 = []byte{0, 0, 0, 0, 0, 0, 0, 0, 0, 0, 0xff, 0xff}

var ipRangesC18 = []ipRangeC18{
	{"10.0.0.1", "10.0.0.10", append(append([]byte{}, v4pC18...), 10, 0, 0, 1), append(append([]byte{}, v4pC18...), 10, 0, 0, 10)},
	{"0.0.0.0", "255.255.255.255", append(append([]byte{}, v4pC18...), 0, 0, 0, 0), append(append([]byte{}, v4pC18...), 255, 255, 255, 255)},
	{"::1", "::1:0", []byte{0, 0, 0, 0, 0, 0, 0, 0, 0, 0, 0, 0, 0, 0, 0, 1}, []byte{0, 0, 0, 0, 0, 0, 0, 0, 0, 0, 0, 0, 0, 1, 0, 0}},
	{"fe80::", "fe80::ffff", []byte{0xfe, 0x80, 0, 0, 0, 0, 0, 0, 0, 0, 0, 0, 0, 0, 0, 0}, []byte{0xfe, 0x80, 0, 0, 0, 0, 0, 0, 0, 0, 0, 0, 0, 0, 0xff, 0xff}},
}

func VerifC18_ipRange() {
	which := vrt.Choose("prim", 4)
	name := []string{"req_cip_range", "req_vip_range", "ses_vip_range", "ses_sip_range"}[which]
	rg := ipRangesC18[vrt.Choose("range", len(ipRangesC18))]
	form := vrt.Choose("form", 3) // 0: address missing, 1: 4-byte form, 2: 16-byte form
	var ip net.IP
	if form == 1 {
		ip = net.IP(vrt.Bytes("ip", 4))
	} else if form == 2 {
		ip = net.IP(vrt.Bytes("ip", 16))
		// keep the free part small: the first 10 bytes follow the range's prefix or are zero
		free := vrt.Param("FREE", 6)
		for i := 0; i < 16-free; i++ {
			vrt.Assume(ip[i] == rg.lo16[i] || ip[i] == 0)
		}
	}
	req := baseReqC18()
	if form != 0 {
		switch which {
		case 0:
			req.ClientAddr = &net.TCPAddr{IP: ip, Port: 1}
		case 1, 2:
			req.Session.Vip = ip
		case 3:
			req.Session.RemoteAddr = &net.TCPAddr{IP: ip, Port: 1}
		}
	}
	c := buildC18(name, litSC18(rg.lo), litSC18(rg.hi))
	got := c.Match(req)
	want := false
	if form != 0 {
		a := to16C18(ip)
		want = cmp16C18(a, rg.lo16) >= 0 && cmp16C18(a, rg.hi16) <= 0
	}
	vrt.Assert(got == want, "C18/ip-range")
}

func VerifC18_vipIn() {
	form := vrt.Choose("form", 3)
	var ip net.IP
	if form == 1 {
		ip = net.IP(vrt.Bytes("ip", 4))
	} else if form == 2 {
		ip = net.IP(vrt.Bytes("ip", 16))
	}
	req := baseReqC18()
	req.Session.Vip = ip
	c := buildC18("req_vip_in", litSC18("10.0.0.1|::1|10.0.0.2"))
	want := false
	if form != 0 {
		a := to16C18(ip)
		for _, p := range [][]byte{ipRangesC18[0].lo16, ipRangesC18[2].lo16, append(append([]byte{}, v4pC18...), 10, 0, 0, 2)} {
			if cmp16C18(a, p) == 0 {
				want = true
			}
		}
	}
	vrt.Assert(c.Match(req) == want, "C18/vip-in")
}

// ---------- F. hash primitives (murmur3 uninterpreted) ----------

func VerifC18_hashIn() {
	src := vrt.Choose("source", 4) // query, cookie, header value; client ip
	sect := vrt.Choose("section", 3)
	lit := []string{"100", "0-9|9999", "5000-9999"}[sect]
	inSect := func(b uint64) bool {
		switch sect {
		case 0:
			return b == 100
		case 1:
			return b <= 9 || b == 9999
		}
		return b >= 5000 && b <= 9999
	}
	req := baseReqC18()
	req.Query = url.Values{}
	req.CookieMap = bfe_http.CookieMap{}
	if src == 3 {
		ipIdx := vrt.Choose("ip", 3) // 0 missing
		c := buildC18("req_cip_hash_in", litSC18(lit))
		if ipIdx == 0 {
			vrt.Assert(!c.Match(req), "C18/cip-hash-missing-is-false")
			return
		}
		ips := []net.IP{nil, net.IPv4(10, 0, 0, 1), net.ParseIP("fe80::1")}
		strs := []string{"", "10.0.0.1", "fe80::1"}
		req.ClientAddr = &net.TCPAddr{IP: ips[ipIdx], Port: 1}
		got := c.Match(req)
		h := murmur3.Sum64([]byte(strs[ipIdx]))
		vrt.Assert(got == inSect(h%10000), "C18/cip-hash-in")
		return
	}
	ci := vrt.Choose("ci", 2) == 1
	present := vrt.Choose("present", 2) == 1
	v := asciiC18("value", vrt.Range("vlen", 0, vrt.Param("VL", 2)))
	name := []string{"req_query_value_hash_in", "req_cookie_value_hash_in", "req_header_value_hash_in"}[src]
	key := []string{"k", "k", "X-K"}[src]
	if present {
		switch src {
		case 0:
			req.Query[key] = []string{v}
		case 1:
			req.CookieMap[key] = &bfe_http.Cookie{Name: key, Value: v}
		case 2:
			req.HttpRequest.Header[key] = []string{v}
		}
	}
	c := buildC18(name, litSC18(key), litSC18(lit), litBC18(ci))
	got := c.Match(req)
	if !present {
		// Known: a missing query key / header is hashed as the empty string
		vrt.Known("C18-missing-query-or-header-read-as-empty-value", src != 1)
		vrt.Assert(!got, "C18/hash-missing-is-false")
		return
	}
	if !ci {
		h := murmur3.Sum64([]byte(v))
		vrt.Assert(got == inSect(h%10000), "C18/value-hash-in")
		return
	}
	// case-insensitive: the documentation fixes no canonical case, so the claim is invariance under
	// changing the case of any letters, and exactness for values without letters
	flip := vrt.Bytes("flip", len(v))
	w := make([]byte, len(v))
	letters := false
	for i := 0; i < len(v); i++ {
		c := v[i]
		isL := c >= 'a' && c <= 'z' || c >= 'A' && c <= 'Z'
		if isL {
			letters = true
		}
		if isL && flip[i]&1 == 1 {
			c ^= 0x20
		}
		w[i] = c
	}
	switch src {
	case 0:
		req.Query[key] = []string{string(w)}
	case 1:
		req.CookieMap[key] = &bfe_http.Cookie{Name: key, Value: string(w)}
	case 2:
		req.HttpRequest.Header[key] = []string{string(w)}
	}
	vrt.Assert(c.Match(req) == got, "C18/value-hash-in-case-insensitive")
	if !letters {
		h := murmur3.Sum64([]byte(v))
		vrt.Assert(got == inSect(h%10000), "C18/value-hash-in")
	}
}

// ---------- G. time primitives (request time mocked with X-Bfe-Debug-Time, as documented) ----------

func digitsC18(label string, n int) string {
	s := vrt.Str("clock", n)
	for i := 0; i < n; i++ {
		vrt.Assume(s[i] >= '0' && s[i] <= '9')
	}
	return s
}

func sodC18(s string) int { // seconds of day of a 6-digit hhmmss
	return (int(s[0]-'0')*10+int(s[1]-'0'))*3600 + (int(s[2]-'0')*10+int(s[3]-'0'))*60 + int(s[4]-'0')*10 + int(s[5]-'0')
}

func validClockC18(s string) bool {
	return int(s[0]-'0')*10+int(s[1]-'0') < 24 && int(s[2]-'0')*10+int(s[3]-'0') < 60 && int(s[4]-'0')*10+int(s[5]-'0') < 60
}

// VerifC18_timeRange: bfe_time_range on one calendar day; the request time is 20190204<hhmmss>Z.
func VerifC18_timeRange() {
	clk := digitsC18("clock", 6)
	vrt.Assume(validClockC18(clk))
	req := baseReqC18()
	req.HttpRequest.Header["X-Bfe-Debug-Time"] = []string{"20190204" + clk + "Z"}
	// [10:00:00 H, 12:30:00 H] = [02:00:00 Z, 04:30:00 Z]
	c := buildC18("bfe_time_range", litSC18("20190204100000H"), litSC18("20190204123000H"))
	t := sodC18(clk)
	vrt.Assert(c.Match(req) == (t >= 2*3600 && t <= 4*3600+30*60), "C18/time-range")
	// range ending the day before / starting the day after
	c2 := buildC18("bfe_time_range", litSC18("20190203000000Z"), litSC18("20190203235959Z"))
	vrt.Assert(!c2.Match(req), "C18/time-range-other-day")
}

// VerifC18_periodicTimeRange: bfe_periodic_time_range in zone H (+8) and zone Z.
func VerifC18_periodicTimeRange() {
	clk := digitsC18("clock", 6)
	vrt.Assume(validClockC18(clk))
	req := baseReqC18()
	req.HttpRequest.Header["X-Bfe-Debug-Time"] = []string{"20190204" + clk + "Z"}
	t := sodC18(clk)
	cz := buildC18("bfe_periodic_time_range", litSC18("203000Z"), litSC18("204500Z"), litSC18(""))
	vrt.Assert(cz.Match(req) == (t >= 20*3600+30*60 && t <= 20*3600+45*60), "C18/periodic-time-range-utc")
	// [06:00:00 H, 09:00:00 H]: local = utc + 8h, wrapping at midnight
	ch := buildC18("bfe_periodic_time_range", litSC18("060000H"), litSC18("090000H"), litSC18(""))
	local := t + 8*3600
	if local >= 86400 {
		local -= 86400
	}
	vrt.Assert(ch.Match(req) == (local >= 6*3600 && local <= 9*3600), "C18/periodic-time-range-zone")
}
