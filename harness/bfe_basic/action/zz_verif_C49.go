package action

// C49 — rewrite actions have their documented effect (bfe_basic/action, the command set of
// docs/en_us/modules/mod_rewrite/mod_rewrite.md).
// Kernel: ActionFileCheck, Action.Do, ReqQueryAdd/Del/DelAllExcept/Rename, ReqHost*, ReqPath*,
// with net/url.ParseQuery / QueryUnescape executed from their real SSA.

import (
	"net/url"
	"strings"

	"github.com/bfenetworks/bfe/bfe_basic"
	"github.com/bfenetworks/bfe/bfe_http"
	vrt "github.com/bfenetworks/bfe/zz_vrt"
)

// ---------------------------------------------------------------- ActionFileCheck

// documented mod_rewrite commands with one valid parameter list each
var docCmdsC49 = []struct {
	cmd    string
	params []string
}{
	{"HOST_SET", []string{"example.org"}},
	{"HOST_SET_FROM_PATH_PREFIX", nil},
	{"HOST_SUFFIX_REPLACE", []string{".com", ".org"}},
	{"PATH_SET", []string{"/x"}},
	{"PATH_PREFIX_ADD", []string{"/bfe/"}},
	{"PATH_PREFIX_TRIM", []string{"/bfe"}},
	{"QUERY_ADD", []string{"k", "v"}},
	{"QUERY_DEL", []string{"k"}},
	{"QUERY_DEL", []string{"k", "l"}},
	{"QUERY_DEL_ALL_EXCEPT", []string{"k"}},
	{"QUERY_RENAME", []string{"k", "l"}},
}

// VerifC49_check: every documented rewrite command with valid parameters is accepted by
// ActionFileCheck and executed by Action.Do (no "unknown cmd").
func VerifC49_check() {
	i := vrt.Choose("cmd", len(docCmdsC49))
	cmd := docCmdsC49[i].cmd
	vrt.Known("C49-host-suffix-replace-rejected", cmd == "HOST_SUFFIX_REPLACE")
	err := ActionFileCheck(ActionFile{Cmd: &cmd, Params: docCmdsC49[i].params})
	vrt.Assert(err == nil, "C49/documented-action-accepted")
	ac := Action{Cmd: docCmdsC49[i].cmd, Params: docCmdsC49[i].params}
	req := mkReqC49("h.com", "h.com", "/bfe/x", "k=1")
	vrt.Assert(ac.Do(req) == nil, "C49/documented-action-executed")
}

func mkReqC49(hostHdr, urlHost, path, rawQuery string) *bfe_basic.Request {
	hr := &bfe_http.Request{Method: "GET", Header: bfe_http.Header{}, Host: hostHdr,
		URL: &url.URL{Host: urlHost, Path: path, RawQuery: rawQuery}}
	return &bfe_basic.Request{HttpRequest: hr}
}

// ---------------------------------------------------------------- query actions

// rawQueryC49: a symbolic raw query of exactly n bytes over the alphabet {a b = & % 6 1}
// (so `a`, `a=`, `%61=`, `a&`, repeated keys, empty segments and broken escapes all occur).
func rawQueryC49(n int) string {
	b := vrt.Bytes("q", n)
	for i := 0; i < n; i++ {
		c := b[i]
		vrt.Assume(c == 'a' || c == 'b' || c == '=' || c == '&' || c == '%' || c == '6' || c == '1')
	}
	return string(b)
}

// hasKeyC49: does the query string, parsed the way the backend-facing Go parser does
// (url.ParseQuery, errors ignored like URL.Query()), contain the key?
func hasKeyC49(raw, key string) bool {
	vals, _ := url.ParseQuery(raw)
	_, ok := vals[key]
	return ok
}

// sameExceptC49: the parsed queries agree on every key other than the dropped ones.
func sameExceptC49(before, after url.Values, dropped ...string) bool {
	ok := true
	for k, bv := range before {
		if inC49(k, dropped) {
			continue
		}
		av, present := after[k]
		if !present || len(av) != len(bv) {
			return false
		}
		for i := range bv {
			if av[i] != bv[i] {
				ok = false
			}
		}
	}
	for k := range after {
		if inC49(k, dropped) {
			continue
		}
		if _, present := before[k]; !present {
			return false
		}
	}
	return ok
}

func inC49(k string, l []string) bool {
	for _, x := range l {
		if x == k {
			return true
		}
	}
	return false
}

// segment classes of the known defect of the raw-string editing in ReqQueryDel / DelAllExcept /
// Rename: the key is located by searching for "&key=" in the raw string, so a segment that names
// the key differently is missed.
func segKeyC49(seg string) string {
	if i := strings.IndexByte(seg, '='); i >= 0 {
		seg = seg[:i]
	}
	return seg
}

// hasBareOrEncodedKeyC49: some segment decodes to the key but is not literally "key=...".
func hasBareOrEncodedKeyC49(raw, key string) bool {
	found := false
	for _, seg := range strings.Split(raw, "&") {
		if seg == "" {
			continue
		}
		k := segKeyC49(seg)
		dk, err := url.QueryUnescape(k)
		if err != nil || dk != key {
			continue
		}
		if !strings.Contains(seg, "=") || k != key {
			found = true
		}
	}
	return found
}

// VerifC49_queryDel: ReqQueryDel(["a"]) on every raw query of N bytes over the alphabet.
func VerifC49_queryDel() {
	n := vrt.Range("len", 0, vrt.Param("N", 4))
	raw := rawQueryC49(n)
	before, _ := url.ParseQuery(raw)
	req := mkReqC49("h", "", "/", raw)
	vrt.Known("C49-query-del-misses-bare-or-encoded-key", hasBareOrEncodedKeyC49(raw, "a"))
	ReqQueryDel(req, []string{"a"})
	out := req.HttpRequest.URL.RawQuery
	after, _ := url.ParseQuery(out)
	_, still := after["a"]
	vrt.Assert(!still, "C49/query-del-key-gone")
	vrt.Assert(sameExceptC49(before, after, "a"), "C49/query-del-others-unchanged")
	vrt.Assert(req.Query.Get("a") == "", "C49/query-del-parsed-view")
}

// VerifC49_queryDelAllExcept: ReqQueryDelAllExcept(["b"]): every key other than b is gone, b kept.
func VerifC49_queryDelAllExcept() {
	n := vrt.Range("len", 0, vrt.Param("N", 4))
	raw := rawQueryC49(n)
	before, _ := url.ParseQuery(raw)
	req := mkReqC49("h", "", "/", raw)
	// the same raw-string search: a deleted key written without '=' or percent-encoded survives
	known := false
	for k := range before {
		if k != "b" && hasBareOrEncodedKeyC49(raw, k) {
			known = true
		}
	}
	vrt.Known("C49-query-del-misses-bare-or-encoded-key", known)
	ReqQueryDelAllExcept(req, []string{"b"})
	after, _ := url.ParseQuery(req.HttpRequest.URL.RawQuery)
	onlyB := true
	for k := range after {
		if k != "b" {
			onlyB = false
		}
	}
	vrt.Assert(onlyB, "C49/query-del-all-except-others-gone")
	bv, av := before["b"], after["b"]
	same := len(bv) == len(av)
	if same {
		for i := range bv {
			if bv[i] != av[i] {
				same = false
			}
		}
	}
	vrt.Assert(same, "C49/query-del-all-except-kept-unchanged")
}

// VerifC49_queryAdd: ReqQueryAdd(["c","2"]): c=2 is present afterwards (as the last value of c), every
// other parameter is unchanged.
func VerifC49_queryAdd() {
	n := vrt.Range("len", 0, vrt.Param("N", 4))
	raw := rawQueryC49(n)
	key := "c"
	if vrt.Choose("key", 2) == 1 {
		key = "a" // a key that may already be present
	}
	before, _ := url.ParseQuery(raw)
	req := mkReqC49("h", "", "/", raw)
	ReqQueryAdd(req, []string{key, "2"})
	after, _ := url.ParseQuery(req.HttpRequest.URL.RawQuery)
	av := after[key]
	vrt.Assert(len(av) == len(before[key])+1 && av[len(av)-1] == "2", "C49/query-add-value-present")
	vrt.Assert(sameExceptC49(before, after, key), "C49/query-add-others-unchanged")
	for i, v := range before[key] {
		vrt.Assert(i < len(av) && av[i] == v, "C49/query-add-keeps-old-values")
	}
}

// VerifC49_queryRename: ReqQueryRename("a","c"): afterwards no key a, c carries a's values, other
// parameters unchanged (raw queries that already contain c are outside this harness).
func VerifC49_queryRename() {
	n := vrt.Range("len", 0, vrt.Param("N", 4))
	raw := rawQueryC49(n)
	before, _ := url.ParseQuery(raw)
	req := mkReqC49("h", "", "/", raw)
	vrt.Known("C49-query-del-misses-bare-or-encoded-key", hasBareOrEncodedKeyC49(raw, "a"))
	ReqQueryRename(req, "a", "c")
	after, _ := url.ParseQuery(req.HttpRequest.URL.RawQuery)
	_, still := after["a"]
	vrt.Assert(!still, "C49/query-rename-old-key-gone")
	bv, av := before["a"], after["c"]
	same := len(bv) == len(av)
	if same {
		for i := range bv {
			if bv[i] != av[i] {
				same = false
			}
		}
	}
	vrt.Assert(same, "C49/query-rename-values-moved")
	vrt.Assert(sameExceptC49(before, after, "a", "c"), "C49/query-rename-others-unchanged")
}

// ---------------------------------------------------------------- host actions

func hostC49(n int) string {
	b := vrt.Bytes("host", n)
	for i := 0; i < n; i++ {
		vrt.Assume(b[i] == 'a' || b[i] == 'b' || b[i] == '.' || b[i] == ':')
	}
	return string(b)
}

// VerifC49_host: HOST_SET, HOST_SUFFIX_REPLACE and HOST_SET_FROM_PATH_PREFIX through Action.Do.
// A request is either origin-form (URL.Host empty, Host from the Host header) or absolute-form
// (URL.Host == Host), the two shapes ReadRequest produces.
func VerifC49_host() {
	h := hostC49(vrt.Range("hostLen", 1, vrt.Param("H", 4)))
	absolute := vrt.Choose("absoluteForm", 2) == 1
	urlHost := ""
	if absolute {
		urlHost = h
	}
	switch vrt.Choose("action", 3) {
	case 0:
		req := mkReqC49(h, urlHost, "/p", "")
		ac := Action{Cmd: ActionHostSet, Params: []string{"new.org"}}
		vrt.Assert(ac.Do(req) == nil && req.HttpRequest.Host == "new.org", "C49/host-set")
	case 1:
		req := mkReqC49(h, urlHost, "/p", "")
		ac := Action{Cmd: ActionHostSuffixReplace, Params: []string{".b", ".org"}}
		want := h
		if strings.HasSuffix(h, ".b") {
			want = h[:len(h)-2] + ".org"
		}
		vrt.Known("C49-host-suffix-replace-reads-url-host", !absolute)
		vrt.Assert(ac.Do(req) == nil, "C49/host-suffix-replace-runs")
		vrt.Assert(req.HttpRequest.Host == want, "C49/host-suffix-replace")
	case 2:
		// path "/<seg>/<rest>": host := seg, path := "/rest"; otherwise unchanged
		pb := vrt.Bytes("path", vrt.Range("pathLen", 0, vrt.Param("P", 4)))
		for i := range pb {
			vrt.Assume(pb[i] == '/' || pb[i] == 'a' || pb[i] == '.')
		}
		path := "/" + string(pb)
		req := mkReqC49(h, urlHost, path, "")
		ac := Action{Cmd: ActionHostSetFromPathPrefix}
		vrt.Assert(ac.Do(req) == nil, "C49/host-from-path-runs")
		wantHost, wantPath := h, path
		if i := strings.IndexByte(path[1:], '/'); i >= 0 {
			wantHost, wantPath = path[1:1+i], path[1+i:]
		}
		vrt.Assert(req.HttpRequest.Host == wantHost, "C49/host-from-path-host")
		vrt.Assert(req.HttpRequest.URL.Path == wantPath, "C49/host-from-path-path")
	}
}

// ---------------------------------------------------------------- path actions

// VerifC49_path: PATH_SET, PATH_PREFIX_ADD, PATH_PREFIX_TRIM on symbolic paths; the result is always
// an absolute path, carries the prefix (ADD) / lost the prefix (TRIM), and keeps the rest verbatim.
func VerifC49_path() {
	pb := vrt.Bytes("path", vrt.Range("pathLen", 0, vrt.Param("P", 4)))
	for i := range pb {
		vrt.Assume(pb[i] == '/' || pb[i] == 'a' || pb[i] == 'b')
	}
	path := "/" + string(pb)
	req := mkReqC49("h", "", path, "x=1")
	switch vrt.Choose("action", 4) {
	case 0:
		ac := Action{Cmd: ActionPathSet, Params: []string{"/new"}}
		vrt.Assert(ac.Do(req) == nil && req.HttpRequest.URL.Path == "/new", "C49/path-set")
	case 1:
		ac := Action{Cmd: ActionPathPrefixAdd, Params: []string{"/a/"}}
		vrt.Assert(ac.Do(req) == nil && req.HttpRequest.URL.Path == "/a/"+path[1:], "C49/path-prefix-add")
	case 2:
		ac := Action{Cmd: ActionPathPrefixAdd, Params: []string{"b"}}
		vrt.Assert(ac.Do(req) == nil && req.HttpRequest.URL.Path == "/b"+path[1:], "C49/path-prefix-add")
	case 3:
		ac := Action{Cmd: ActionPathPrefixTrim, Params: []string{"/a"}}
		want := path
		if strings.HasPrefix(path, "/a") {
			want = path[2:]
			if !strings.HasPrefix(want, "/") {
				want = "/" + want
			}
		}
		vrt.Assert(ac.Do(req) == nil && req.HttpRequest.URL.Path == want, "C49/path-prefix-trim")
	}
	vrt.Assert(req.HttpRequest.URL.RawQuery == "x=1", "C49/path-actions-leave-query")
}

// ---------------------------------------------------------------- focused checks (seeded-change review)

// formQueryC49: a symbolic raw query of n bytes over {+ a = &}: form encoding writes a space as '+'.
func formQueryC49(n int) string {
	b := vrt.Bytes("fq", n)
	for i := 0; i < n; i++ {
		vrt.Assume(b[i] == '+' || b[i] == 'a' || b[i] == '=' || b[i] == '&')
	}
	return string(b)
}

// concrete raw queries around the configured key "a b" in its three spellings a+b, a%20b, a%2Bb (the
// last one is the different key "a+b")
var spaceKeyQueriesC49 = []string{
	"a+b=1&x=2&y", "a+b", "x=2&a+b", "a%20b=3&a+b=1", "a+b=1&a%2Bb=2", "a+b=&a+b=7&ab=1", "a%2bb=1&a=2&b=3", "+a+b=1&a+b+=2",
}

func sameValuesC49(bv, av []string) bool {
	same := len(bv) == len(av)
	if same {
		for i := range bv {
			if bv[i] != av[i] {
				same = false
			}
		}
	}
	return same
}

// queryKeyEditC49 runs one of QUERY_DEL / QUERY_DEL_ALL_EXCEPT / QUERY_RENAME with the configured key
// on the raw query and checks the documented effect on the query string the backend parses.
func queryKeyEditC49(raw, key string, action int) {
	before, _ := url.ParseQuery(raw)
	req := mkReqC49("h", "", "/", raw)
	switch action {
	case 0:
		ac := Action{Cmd: ActionQueryDel, Params: []string{key}}
		vrt.Assert(ac.Do(req) == nil, "C49/space-key-action-runs")
		after, _ := url.ParseQuery(req.HttpRequest.URL.RawQuery)
		_, still := after[key]
		vrt.Assert(!still, "C49/space-key-del-key-gone")
		vrt.Assert(sameExceptC49(before, after, key), "C49/space-key-del-others-unchanged")
	case 1:
		ac := Action{Cmd: ActionQueryDelAllExcept, Params: []string{key}}
		vrt.Assert(ac.Do(req) == nil, "C49/space-key-action-runs")
		after, _ := url.ParseQuery(req.HttpRequest.URL.RawQuery)
		only := true
		for k := range after {
			if k != key {
				only = false
			}
		}
		vrt.Assert(only, "C49/space-key-del-all-except-others-gone")
		vrt.Assert(sameValuesC49(before[key], after[key]), "C49/space-key-del-all-except-kept")
	case 2:
		ac := Action{Cmd: ActionQueryRename, Params: []string{key, "c"}}
		vrt.Assert(ac.Do(req) == nil, "C49/space-key-action-runs")
		after, _ := url.ParseQuery(req.HttpRequest.URL.RawQuery)
		_, still := after[key]
		vrt.Assert(!still, "C49/space-key-rename-old-key-gone")
		vrt.Assert(sameValuesC49(before[key], after["c"]), "C49/space-key-rename-values-moved")
		vrt.Assert(sameExceptC49(before, after, key, "c"), "C49/space-key-rename-others-unchanged")
	}
}

// VerifC49_focused (one entry point: every harness of this package pays the package initialisation):
// part 0: query key containing a space, configured key " " on every raw query of 0..N bytes over {+ a = &};
// part 1: configured key "a b" on concrete raw queries that spell it a+b / a%20b (and a%2Bb = other key);
// part 2: HOST_SUFFIX_REPLACE where the suffix text may occur in the host more than once: hosts of
//
//	1..H bytes over {a b .}, parameters [".b", ".org"] or ["b", "c"].
func VerifC49_focused() {
	switch vrt.Choose("part", 3) {
	case 0:
		raw := formQueryC49(vrt.Range("len", 0, vrt.Param("N", 3)))
		queryKeyEditC49(raw, " ", vrt.Choose("action", 3))
	case 1:
		raw := spaceKeyQueriesC49[vrt.Choose("raw", len(spaceKeyQueriesC49))]
		queryKeyEditC49(raw, "a b", vrt.Choose("action", 3))
	case 2:
		n := vrt.Range("hostLen", 1, vrt.Param("H", 4))
		hb := vrt.Bytes("host", n)
		for i := 0; i < n; i++ {
			vrt.Assume(hb[i] == 'a' || hb[i] == 'b' || hb[i] == '.')
		}
		h := string(hb)
		suffix, repl := ".b", ".org"
		if vrt.Choose("params", 2) == 1 {
			suffix, repl = "b", "c"
		}
		urlHost := ""
		if vrt.Choose("absoluteForm", 2) == 1 {
			urlHost = h
		}
		req := mkReqC49(h, urlHost, "/p", "")
		ac := Action{Cmd: ActionHostSuffixReplace, Params: []string{suffix, repl}}
		want := h
		if strings.HasSuffix(h, suffix) {
			want = h[:len(h)-len(suffix)] + repl
		}
		vrt.Assert(ac.Do(req) == nil, "C49/host-suffix-repeated-runs")
		vrt.Assert(req.HttpRequest.Host == want, "C49/host-suffix-only-the-suffix-replaced")
	}
}
