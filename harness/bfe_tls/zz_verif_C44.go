package bfe_tls

// C44 — session resumption cannot be forged or used to bypass policy.
//
// Decidable part: the POLICY that checkForResumption applies to a candidate session, whichever way
// the candidate was obtained. The candidate is injected through the session-ID cache (a fake
// ServerSessionCache defined here returns the marshalled, harness-built sessionState; the real
// sessionState.unmarshal parses it), readClientHello runs end to end as in C41, and the verdict
// (isResume) is compared with the property. The ticket path shares every line after the candidate is
// obtained; what is specific to it (HMAC-SHA256 verification and AES-CTR decryption in decryptTicket)
// is cryptography and outside the technique, except for the length guard, which is checked.

import (
	"net"
	"time"

	vrt "github.com/bfenetworks/bfe/zz_vrt"
)

type fakeConnC44 struct{}

func (f *fakeConnC44) Read(p []byte) (int, error)         { return 0, errEOFC44{} }
func (f *fakeConnC44) Write(p []byte) (int, error)        { return len(p), nil }
func (f *fakeConnC44) Close() error                       { return nil }
func (f *fakeConnC44) LocalAddr() net.Addr                { return nil }
func (f *fakeConnC44) RemoteAddr() net.Addr               { return nil }
func (f *fakeConnC44) SetDeadline(t time.Time) error      { return nil }
func (f *fakeConnC44) SetReadDeadline(t time.Time) error  { return nil }
func (f *fakeConnC44) SetWriteDeadline(t time.Time) error { return nil }

type errEOFC44 struct{}

func (errEOFC44) Error() string { return "EOF" }

type zeroRandC44 struct{}

func (zeroRandC44) Read(p []byte) (int, error) {
	for i := range p {
		p[i] = 0
	}
	return len(p), nil
}

type fixedRuleC44 struct{ r *Rule }

func (f fixedRuleC44) Get(c *Conn) *Rule { return f.r }

type fixedProtosC44 []string

func (f fixedProtosC44) Get(c *Conn) []string { return []string(f) }

// cacheC44: a session cache holding at most one entry; the key is ignored (any session id hits),
// which over-approximates "the id was issued by this server".
type cacheC44 struct {
	entry []byte
	gets  int
}

func (c *cacheC44) Get(key string) ([]byte, bool) {
	c.gets++
	if c.entry == nil {
		return nil, false
	}
	return c.entry, true
}
func (c *cacheC44) Put(key string, s []byte) error { return nil }

var versionsC44 = []uint16{0, VersionTLS10, VersionTLS12, VersionSSL30, VersionTLS11} // quick tier uses the first three
var serverSuitesC44 = []uint16{TLS_ECDHE_RSA_WITH_AES_128_GCM_SHA256, TLS_RSA_WITH_RC4_128_SHA, TLS_RSA_WITH_AES_128_CBC_SHA}

func hasU16C44(s []uint16, v uint16) bool {
	found := false
	for i := 0; i < len(s); i++ {
		if s[i] == v {
			found = true
		}
	}
	return found
}

func flagC44() bool { return vrt.Choose("flag", 2) == 1 }

// VerifC44_resume_policy: session {vers, suite: 16 bits symbolic each; master secret 2 bytes;
// 0 or 1 client certificate} x ClientHello {vers symbolic, NS <= 2 symbolic suites, session id of 1
// byte} x server {Min/Max in {0,SSL30..TLS12}, ClientAuth 0..4 (symbolic) or rule.ClientAuth (symbolic), grade via rule,
// cache hit/miss/disabled}.
func VerifC44_resume_policy() {
	cfg := &Config{Rand: zeroRandC44{}, SessionTicketsDisabled: true}
	cfg.Certificates = make([]Certificate, 1)
	cfg.MinVersion = versionsC44[vrt.Choose("min", vrt.Param("VERS", len(versionsC44)))]
	cfg.MaxVersion = versionsC44[vrt.Choose("max", vrt.Param("VERS", len(versionsC44)))]
	lo, hi := cfg.minVersion(), cfg.maxVersion()
	if lo > hi {
		return
	}
	cfg.CipherSuites = serverSuitesC44
	ca := vrt.Byte("clientAuth")
	vrt.Assume(ca <= 4) // NoClientCert .. RequireAndVerifyClientCert
	cfg.ClientAuth = ClientAuthType(ca)
	ruleAuth := false
	grade := GradeC
	if g := vrt.Choose("rule", 3); g > 0 {
		ruleAuth = vrt.Bool("ruleClientAuth")
		grade = []string{GradeA, GradeB}[g-1]
		cfg.ServerRule = fixedRuleC44{&Rule{Grade: grade, ClientAuth: ruleAuth, NextProtos: fixedProtosC44{}}}
	}

	st := &sessionState{}
	st.vers = vrt.U16("stVers")
	st.cipherSuite = vrt.U16("stSuite")
	st.masterSecret = vrt.Bytes("ms", 2)
	sessionHasCerts := flagC44()
	if sessionHasCerts {
		st.certificates = [][]byte{vrt.Bytes("cert", 1)}
	}
	cache := &cacheC44{}
	cacheMode := 0 // 0 hit, 1 miss, 2 cache disabled
	if vrt.Param("NOSESSION", 0) == 1 {
		cacheMode = 1 + vrt.Choose("cache", 2)
	}
	if cacheMode == 0 {
		cache.entry = st.marshal()
	}
	cfg.ServerSessionCache = cache
	cfg.SessionCacheDisabled = cacheMode == 2

	ch := &clientHelloMsg{}
	ch.vers = vrt.U16("clientVers")
	ch.random = make([]byte, 32)
	ch.sessionId = vrt.Bytes("sid", 1)
	ns := vrt.Range("nsuites", 1, vrt.Param("NS", 2))
	ch.cipherSuites = make([]uint16, ns)
	for i := range ch.cipherSuites {
		ch.cipherSuites[i] = vrt.U16("suite")
	}
	ch.compressionMethods = []uint8{compressionNone}
	ch.supportedCurves = []CurveID{CurveP256}
	ch.supportedPoints = []uint8{pointFormatUncompressed}
	clientSuites := append([]uint16(nil), ch.cipherSuites...)

	c := &Conn{conn: &fakeConnC44{}, config: cfg}
	c.hand.Write(ch.marshal())
	hs := &serverHandshakeState{c: c}

	vrt.Known("C44-resumed-version-differs", cacheMode == 0 && st.vers < ch.vers && st.vers < hi)

	isResume, err := hs.readClientHello()
	if err != nil {
		vrt.Assert(!isResume, "C44/error-means-no-resume")
		return
	}
	vrt.Assert(cacheMode == 0 || !isResume, "C44/no-stored-session-no-resume")
	if !isResume {
		vrt.Cover("C44/full-handshake")
		return
	}
	vrt.Cover("C44/resumed")
	// only a stored session can be resumed
	vrt.Assert(cacheMode == 0, "C44/resume-needs-stored-session")
	vrt.Assert(hs.sessionState != nil, "C44/resume-has-state")
	if hs.sessionState == nil {
		return
	}
	// the resumed connection keeps the original parameters
	vrt.Assert(hs.sessionState.vers == st.vers && hs.sessionState.cipherSuite == st.cipherSuite, "C44/state-as-stored")
	vrt.Assert(len(hs.sessionState.masterSecret) == 2 && hs.sessionState.masterSecret[0] == st.masterSecret[0] && hs.sessionState.masterSecret[1] == st.masterSecret[1], "C44/master-secret-as-stored")
	vrt.Assert(c.vers == st.vers, "C44/resumed-version-is-session-version")
	vrt.Assert(hs.hello.vers == st.vers, "C44/announced-version-is-session-version")
	vrt.Assert(st.vers >= lo && st.vers <= hi, "C44/session-version-still-enabled")
	vrt.Assert(hs.suite != nil && hs.suite.id == st.cipherSuite, "C44/resumed-suite-is-session-suite")
	vrt.Assert(hasU16C44(clientSuites, st.cipherSuite), "C44/suite-still-offered-by-client")
	vrt.Assert(hasU16C44(serverSuitesC44, st.cipherSuite), "C44/suite-still-enabled-by-server")
	if grade == GradeA {
		vrt.Assert(st.cipherSuite != TLS_RSA_WITH_RC4_128_SHA, "C44/suite-allowed-by-grade")
	}
	// client-certificate requirement
	need := ruleAuth || cfg.ClientAuth == RequireAnyClientCert || cfg.ClientAuth == RequireAndVerifyClientCert
	vrt.Assert(!need || sessionHasCerts, "C44/client-cert-requirement-kept")
}

// VerifC44_no_session: same scenario space, but the cache misses or is disabled: never a resumption.
func VerifC44_no_session() { VerifC44_resume_policy() }

// VerifC44_ticket_too_short: a ticket shorter than IV + MAC is refused before any cryptography.
func VerifC44_ticket_too_short() {
	n := vrt.Range("len", 0, 47)
	c := &Conn{config: &Config{}}
	st, ok := c.decryptTicket(vrt.Bytes("ticket", n))
	vrt.Assert(!ok && st == nil, "C44/short-ticket-refused")
}

// VerifC44_ticket_mac_modified: a GENUINE ticket (real encryptTicket of a session with symbolic
// version, suite and 2-byte master secret, under the server's current key) whose MAC field was
// modified afterwards (XOR with 32 symbolic bytes, not all zero; IV and ciphertext untouched) is
// refused by decryptTicket. HMAC-SHA256 is not interpreted: the SHA-256 compression function is an
// uninterpreted function with functional consistency (engine/sym/intrinsics_crypto.go: equal chaining
// state and block bytes give the equal new state, anything else a fresh symbolic state), which is all
// this needs - the MAC that decryptTicket recomputes over the unmodified IV||ciphertext is the MAC
// encryptTicket wrote, so a MAC field that differs from it must fail the comparison. AES-CTR runs from
// its real (generic Go) code on a concrete key and IV.
func VerifC44_ticket_mac_modified() {
	cfg := &Config{Rand: zeroRandC44{}}
	c := &Conn{config: cfg}
	st := &sessionState{vers: vrt.U16("stVers"), cipherSuite: vrt.U16("stSuite"), masterSecret: vrt.Bytes("ms", 2)}
	ticket, err := c.encryptTicket(st)
	vrt.Assert(err == nil && len(ticket) >= 48, "C44/ticket-issued")
	if err != nil || len(ticket) < 48 {
		return
	}
	genuine := append([]byte(nil), ticket...)
	if s0, ok0 := c.decryptTicket(genuine); ok0 && s0 != nil && s0.vers == st.vers && s0.cipherSuite == st.cipherSuite {
		vrt.Cover("C44/genuine-ticket-honoured") // the model is not vacuous: the untouched ticket verifies
	}
	modified := append([]byte(nil), ticket...)
	delta := vrt.Bytes("delta", 32)
	nonzero := false
	for i := 0; i < 32; i++ {
		if delta[i] != 0 {
			nonzero = true
		}
		modified[len(modified)-32+i] ^= delta[i]
	}
	vrt.Assume(nonzero)
	s1, ok1 := c.decryptTicket(modified)
	vrt.Assert(!ok1, "C44/ticket-with-modified-mac-refused")
	_ = s1
}
