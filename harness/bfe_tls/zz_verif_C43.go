package bfe_tls

// C43 — CBC padding removal accepts exactly valid padding.

import vrt "github.com/bfenetworks/bfe/zz_vrt"

// refPaddingC43: RFC 5246 §6.2.3.2 — last byte p, p+1 <= len, final p+1 bytes all equal p.
func refPaddingC43(payload []byte) (valid bool, remove int) {
	n := len(payload)
	if n == 0 {
		return false, 0
	}
	p := int(payload[n-1])
	if p+1 > n {
		return false, 0
	}
	ok := true
	for i := 0; i < n; i++ { // concrete trip count; the condition below is if-converted
		if i <= p && payload[n-1-i] != byte(p) {
			ok = false
		}
	}
	return ok, p + 1
}

// VerifC43_removePadding: every length LO..HI, every byte pattern.
func VerifC43_removePadding() {
	n := vrt.Range("len", vrt.Param("LO", 0), vrt.Param("HI", 40))
	checkPaddingC43(n)
}

// VerifC43_removePadding_window: lengths around the 256-byte padding window.
func VerifC43_removePadding_window() {
	ns := []int{255, 256, 257, 300}
	n := ns[vrt.Choose("len", len(ns))]
	// the padding-length byte is enumerated (concrete), every other byte stays symbolic
	ps := []int{0, 1, 127, 253, 254, 255}
	p := ps[vrt.Choose("p", len(ps))]
	checkPaddingPC43(n, p)
}

func checkPaddingC43(n int) { checkPaddingPC43(n, -1) }

func checkPaddingPC43(n int, fixedP int) {
	payload := vrt.Bytes("payload", n)
	if fixedP >= 0 {
		vrt.Assume(payload[n-1] == byte(fixedP))
		payload[n-1] = byte(fixedP)
	}
	if n > 0 {
		p := int(payload[n-1])
		// known-finding classes (honoured only if listed in known_findings.json)
		vrt.Known("C43-first-padding-byte-unchecked", p+1 == n)
		vrt.Known("C43-256-byte-padding", p == 255)
	}
	out, good := removePadding(payload)
	valid, rm := refPaddingC43(payload)
	vrt.Assert(good == 255 || good == 0, "C43/good-is-mask")
	vrt.Assert((good == 255) == valid, "C43/accept-iff-valid")
	if valid && good == 255 {
		vrt.Assert(len(out) == n-rm, "C43/removes-p-plus-1")
	}
	vrt.Assert(len(out) <= n, "C43/prefix")
}
