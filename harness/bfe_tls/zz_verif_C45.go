package bfe_tls

// C45 — TLS handshake messages round-trip and parse safely.
//
// (a) round trip: a message value with small symbolic fields is marshalled by the real marshal(),
//     parsed back by the real unmarshal() into a fresh message, and compared FIELD BY FIELD here
//     (bfe's own equal() is not used).
// (b) robustness: unmarshal() on a buffer of every length 0..P+T whose content is symbolic (for the
//     two hellos the 32-byte random and the 4-byte handshake header, which unmarshal never looks at,
//     are concrete zeroes): no panic (every index/slice expression is a bounds obligation of the
//     engine; a Go panic is a violation) and a bool comes back.

import vrt "github.com/bfenetworks/bfe/zz_vrt"

// ---------------------------------------------------------------------------------------------
// helpers

func eqBytesC45(a, b []byte) bool {
	if len(a) != len(b) {
		return false
	}
	ok := true
	for i := 0; i < len(a); i++ {
		if a[i] != b[i] {
			ok = false
		}
	}
	return ok
}

func eqU16sC45(a, b []uint16) bool {
	if len(a) != len(b) {
		return false
	}
	ok := true
	for i := 0; i < len(a); i++ {
		if a[i] != b[i] {
			ok = false
		}
	}
	return ok
}

func eqStrC45(a, b string) bool {
	if len(a) != len(b) {
		return false
	}
	ok := true
	for i := 0; i < len(a); i++ {
		if a[i] != b[i] {
			ok = false
		}
	}
	return ok
}

func eqStrsC45(a, b []string) bool {
	if len(a) != len(b) {
		return false
	}
	ok := true
	for i := 0; i < len(a); i++ {
		if !eqStrC45(a[i], b[i]) {
			ok = false
		}
	}
	return ok
}

func eqBytesListC45(a, b [][]byte) bool {
	if len(a) != len(b) {
		return false
	}
	ok := true
	for i := 0; i < len(a); i++ {
		if !eqBytesC45(a[i], b[i]) {
			ok = false
		}
	}
	return ok
}

func eqSigHashC45(a, b []signatureAndHash) bool {
	if len(a) != len(b) {
		return false
	}
	ok := true
	for i := 0; i < len(a); i++ {
		if a[i].hash != b[i].hash || a[i].signature != b[i].signature {
			ok = false
		}
	}
	return ok
}

func u16sC45(n int) []uint16 {
	r := make([]uint16, n)
	for i := range r {
		r[i] = vrt.U16("u16")
	}
	return r
}

func sigHashesC45(n int) []signatureAndHash {
	r := make([]signatureAndHash, n)
	for i := range r {
		r[i].hash = vrt.Byte("sh_hash")
		r[i].signature = vrt.Byte("sh_sig")
	}
	return r
}

// bytesListC45: n elements, each of lo..hi symbolic bytes (element lengths are shapes).
func bytesListC45(n, lo, hi int) [][]byte {
	r := make([][]byte, n)
	for i := range r {
		r[i] = vrt.Bytes("elem", vrt.Range("elemlen", lo, hi))
	}
	return r
}

func strsC45(n, lo, hi int) []string {
	r := make([]string, n)
	for i := range r {
		r[i] = vrt.Str("str", vrt.Range("strlen", lo, hi))
	}
	return r
}

func flagC45() bool { return vrt.Choose("flag", 2) == 1 }

func containsU16C45(s []uint16, v uint16) bool {
	found := false
	for i := 0; i < len(s); i++ {
		if s[i] == v {
			found = true
		}
	}
	return found
}

// ---------------------------------------------------------------------------------------------
// (a) round trips

// VerifC45_rt_clientHello_core: version, random, session id, suites, compression methods; no
// extensions. List lengths 0..K each.
func VerifC45_rt_clientHello_core() {
	K := vrt.Param("K", 2)
	m := &clientHelloMsg{}
	m.vers = vrt.U16("vers")
	m.random = vrt.Bytes("random", 32)
	m.sessionId = vrt.Bytes("sid", vrt.Range("sidlen", 0, K))
	m.cipherSuites = u16sC45(vrt.Range("nsuites", 0, K))
	m.compressionMethods = vrt.Bytes("comp", vrt.Range("ncomp", 0, K))
	checkClientHelloC45(m)
}

// VerifC45_rt_clientHello_ext: every subset of the nine extensions marshal() can emit, each list
// with E elements (E is a shape 1..K), element strings of 1..2 bytes.
func VerifC45_rt_clientHello_ext() {
	K := vrt.Param("K", 2)
	E := vrt.Range("E", 1, K)
	m := &clientHelloMsg{}
	m.vers = vrt.U16("vers")
	m.random = vrt.Bytes("random", 32)
	m.sessionId = vrt.Bytes("sid", 1)
	m.cipherSuites = u16sC45(1)
	m.compressionMethods = vrt.Bytes("comp", 1)
	m.nextProtoNeg = flagC45()
	if flagC45() {
		m.serverName = vrt.Str("sni", E)
	}
	m.ocspStapling = flagC45()
	if flagC45() {
		m.supportedCurves = make([]CurveID, E)
		for i := range m.supportedCurves {
			m.supportedCurves[i] = CurveID(vrt.U16("curve"))
		}
	}
	if flagC45() {
		m.supportedPoints = vrt.Bytes("points", E)
	}
	if flagC45() {
		m.ticketSupported = true
		m.sessionTicket = vrt.Bytes("ticket", vrt.Range("ticketlen", 0, E))
	}
	if flagC45() {
		m.signatureAndHashes = sigHashesC45(E)
	}
	m.secureRenegotiation = flagC45()
	if flagC45() {
		m.alpnProtocols = strsC45(E, 1, 2)
	}
	checkClientHelloC45(m)
}

func checkClientHelloC45(m *clientHelloMsg) {
	// known-finding class: the renegotiation_info extension written by marshal() (0xff01) is looked
	// for under 0xff02 by unmarshal(), so the flag survives only via the SCSV pseudo suite.
	vrt.Known("C45-clienthello-reneg-ext-id", m.secureRenegotiation && !containsU16C45(m.cipherSuites, scsvRenegotiation))
	raw := m.marshal()
	m2 := &clientHelloMsg{}
	ok := m2.unmarshal(raw)
	vrt.Assert(ok, "C45/clientHello-parses")
	if !ok {
		return
	}
	vrt.Assert(m2.vers == m.vers, "C45/clientHello-vers")
	vrt.Assert(eqBytesC45(m2.random, m.random), "C45/clientHello-random")
	vrt.Assert(eqBytesC45(m2.sessionId, m.sessionId), "C45/clientHello-sessionId")
	vrt.Assert(eqU16sC45(m2.cipherSuites, m.cipherSuites), "C45/clientHello-suites")
	vrt.Assert(eqBytesC45(m2.compressionMethods, m.compressionMethods), "C45/clientHello-compression")
	vrt.Assert(m2.nextProtoNeg == m.nextProtoNeg, "C45/clientHello-npn")
	vrt.Assert(eqStrC45(m2.serverName, m.serverName), "C45/clientHello-sni")
	vrt.Assert(m2.ocspStapling == m.ocspStapling, "C45/clientHello-ocsp")
	vrt.Assert(len(m2.supportedCurves) == len(m.supportedCurves), "C45/clientHello-curves")
	for i := 0; i < len(m.supportedCurves) && i < len(m2.supportedCurves); i++ {
		vrt.Assert(m2.supportedCurves[i] == m.supportedCurves[i], "C45/clientHello-curves")
	}
	vrt.Assert(eqBytesC45(m2.supportedPoints, m.supportedPoints), "C45/clientHello-points")
	vrt.Assert(m2.ticketSupported == m.ticketSupported, "C45/clientHello-ticketSupported")
	vrt.Assert(eqBytesC45(m2.sessionTicket, m.sessionTicket), "C45/clientHello-ticket")
	vrt.Assert(eqSigHashC45(m2.signatureAndHashes, m.signatureAndHashes), "C45/clientHello-sigalgs")
	// the SCSV pseudo suite 0x00ff is, by RFC 5746 §3.3, another spelling of the same flag
	wantReneg := m.secureRenegotiation || containsU16C45(m.cipherSuites, scsvRenegotiation)
	vrt.Assert(m2.secureRenegotiation == wantReneg, "C45/clientHello-secureRenegotiation")
	vrt.Assert(eqStrsC45(m2.alpnProtocols, m.alpnProtocols), "C45/clientHello-alpn")
}

// VerifC45_rt_serverHello: all fields; nextProtos 0..K names of 1..2 bytes, ALPN 0..2 bytes.
func VerifC45_rt_serverHello() {
	K := vrt.Param("K", 2)
	m := &serverHelloMsg{}
	m.vers = vrt.U16("vers")
	m.random = vrt.Bytes("random", 32)
	m.sessionId = vrt.Bytes("sid", vrt.Range("sidlen", 0, K))
	m.cipherSuite = vrt.U16("suite")
	m.compressionMethod = vrt.Byte("comp")
	if flagC45() {
		m.nextProtoNeg = true
		m.nextProtos = strsC45(vrt.Range("nprotos", 0, K), 1, 2)
	}
	m.ocspStapling = flagC45()
	m.ticketSupported = flagC45()
	m.secureRenegotiation = flagC45()
	m.alpnProtocol = vrt.Str("alpn", vrt.Range("alpnlen", 0, 2))

	raw := m.marshal()
	m2 := &serverHelloMsg{}
	ok := m2.unmarshal(raw)
	vrt.Assert(ok, "C45/serverHello-parses")
	if !ok {
		return
	}
	vrt.Assert(m2.vers == m.vers, "C45/serverHello-vers")
	vrt.Assert(eqBytesC45(m2.random, m.random), "C45/serverHello-random")
	vrt.Assert(eqBytesC45(m2.sessionId, m.sessionId), "C45/serverHello-sessionId")
	vrt.Assert(m2.cipherSuite == m.cipherSuite, "C45/serverHello-suite")
	vrt.Assert(m2.compressionMethod == m.compressionMethod, "C45/serverHello-compression")
	vrt.Assert(m2.nextProtoNeg == m.nextProtoNeg, "C45/serverHello-npn")
	vrt.Assert(eqStrsC45(m2.nextProtos, m.nextProtos), "C45/serverHello-nextProtos")
	vrt.Assert(m2.ocspStapling == m.ocspStapling, "C45/serverHello-ocsp")
	vrt.Assert(m2.ticketSupported == m.ticketSupported, "C45/serverHello-ticketSupported")
	vrt.Assert(m2.secureRenegotiation == m.secureRenegotiation, "C45/serverHello-secureRenegotiation")
	vrt.Assert(eqStrC45(m2.alpnProtocol, m.alpnProtocol), "C45/serverHello-alpn")
}

// VerifC45_rt_certificate: 0..K certificates of 1..2 bytes (ASN.1Cert<1..2^24-1>).
func VerifC45_rt_certificate() {
	K := vrt.Param("K", 2)
	m := &certificateMsg{}
	m.certificates = bytesListC45(vrt.Range("ncerts", 0, K), 1, 2)
	raw := m.marshal()
	m2 := &certificateMsg{}
	ok := m2.unmarshal(raw)
	vrt.Assert(ok, "C45/certificate-parses")
	if ok {
		vrt.Assert(eqBytesListC45(m2.certificates, m.certificates), "C45/certificate-certs")
	}
}

// VerifC45_rt_opaque: the four messages that carry one opaque byte string.
func VerifC45_rt_opaque() {
	K := vrt.Param("K", 2)
	n := vrt.Range("len", 0, 2*K)
	switch vrt.Choose("msg", 4) {
	case 0:
		m := &serverKeyExchangeMsg{key: vrt.Bytes("key", n)}
		m2 := &serverKeyExchangeMsg{}
		ok := m2.unmarshal(m.marshal())
		vrt.Assert(ok, "C45/serverKeyExchange-parses")
		if ok {
			vrt.Assert(eqBytesC45(m2.key, m.key), "C45/serverKeyExchange-key")
		}
	case 1:
		m := &clientKeyExchangeMsg{ciphertext: vrt.Bytes("ct", n)}
		m2 := &clientKeyExchangeMsg{}
		ok := m2.unmarshal(m.marshal())
		vrt.Assert(ok, "C45/clientKeyExchange-parses")
		if ok {
			vrt.Assert(eqBytesC45(m2.ciphertext, m.ciphertext), "C45/clientKeyExchange-ciphertext")
		}
	case 2:
		m := &finishedMsg{verifyData: vrt.Bytes("vd", n)}
		m2 := &finishedMsg{}
		ok := m2.unmarshal(m.marshal())
		vrt.Assert(ok, "C45/finished-parses")
		if ok {
			vrt.Assert(eqBytesC45(m2.verifyData, m.verifyData), "C45/finished-verifyData")
		}
	case 3:
		m := &newSessionTicketMsg{ticket: vrt.Bytes("ticket", n)}
		m2 := &newSessionTicketMsg{}
		ok := m2.unmarshal(m.marshal())
		vrt.Assert(ok, "C45/newSessionTicket-parses")
		if ok {
			vrt.Assert(eqBytesC45(m2.ticket, m.ticket), "C45/newSessionTicket-ticket")
		}
	}
}

// VerifC45_rt_certificateStatus: OCSP (response 0..2K bytes) and every other status type.
func VerifC45_rt_certificateStatus() {
	K := vrt.Param("K", 2)
	m := &certificateStatusMsg{}
	m.statusType = vrt.Byte("type")
	if flagC45() {
		vrt.Assume(m.statusType == statusTypeOCSP)
		m.statusType = statusTypeOCSP
		m.response = vrt.Bytes("resp", vrt.Range("len", 0, 2*K))
	} else {
		vrt.Assume(m.statusType != statusTypeOCSP)
	}
	m2 := &certificateStatusMsg{}
	ok := m2.unmarshal(m.marshal())
	vrt.Assert(ok, "C45/certificateStatus-parses")
	if ok {
		vrt.Assert(m2.statusType == m.statusType, "C45/certificateStatus-type")
		vrt.Assert(eqBytesC45(m2.response, m.response), "C45/certificateStatus-response")
	}
}

// VerifC45_rt_nextProto: protocol name of 0..N bytes (padding to a multiple of 32 included).
func VerifC45_rt_nextProto() {
	m := &nextProtoMsg{proto: vrt.Str("proto", vrt.Range("len", 0, vrt.Param("N", 4)))}
	m2 := &nextProtoMsg{}
	ok := m2.unmarshal(m.marshal())
	vrt.Assert(ok, "C45/nextProto-parses")
	if ok {
		vrt.Assert(eqStrC45(m2.proto, m.proto), "C45/nextProto-proto")
	}
}

// VerifC45_rt_certificateRequest: 1..K certificate types (the field is <1..2^8-1>), optional
// signature/hash list of 0..K pairs, 0..K authorities of 1..2 bytes. hasSignatureAndHash is a
// property of the negotiated version and is set on the receiving message by the caller, as
// handshake_client.go does.
func VerifC45_rt_certificateRequest() {
	K := vrt.Param("K", 2)
	m := &certificateRequestMsg{}
	m.certificateTypes = vrt.Bytes("types", vrt.Range("ntypes", 1, K))
	if flagC45() {
		m.hasSignatureAndHash = true
		m.signatureAndHashes = sigHashesC45(vrt.Range("nsig", 0, K))
	}
	m.certificateAuthorities = bytesListC45(vrt.Range("ncas", 0, K), 1, 2)
	m2 := &certificateRequestMsg{hasSignatureAndHash: m.hasSignatureAndHash}
	ok := m2.unmarshal(m.marshal())
	vrt.Assert(ok, "C45/certificateRequest-parses")
	if ok {
		vrt.Assert(eqBytesC45(m2.certificateTypes, m.certificateTypes), "C45/certificateRequest-types")
		vrt.Assert(eqSigHashC45(m2.signatureAndHashes, m.signatureAndHashes), "C45/certificateRequest-sigalgs")
		vrt.Assert(eqBytesListC45(m2.certificateAuthorities, m.certificateAuthorities), "C45/certificateRequest-cas")
	}
}

// VerifC45_rt_certificateVerify: signature of 0..2K bytes, with and without the TLS 1.2 prefix.
func VerifC45_rt_certificateVerify() {
	K := vrt.Param("K", 2)
	m := &certificateVerifyMsg{}
	if flagC45() {
		m.hasSignatureAndHash = true
		m.signatureAndHash.hash = vrt.Byte("hash")
		m.signatureAndHash.signature = vrt.Byte("sig")
	}
	m.signature = vrt.Bytes("signature", vrt.Range("len", 0, 2*K))
	m2 := &certificateVerifyMsg{hasSignatureAndHash: m.hasSignatureAndHash}
	ok := m2.unmarshal(m.marshal())
	vrt.Assert(ok, "C45/certificateVerify-parses")
	if ok {
		vrt.Assert(m2.signatureAndHash.hash == m.signatureAndHash.hash, "C45/certificateVerify-sigalg")
		vrt.Assert(m2.signatureAndHash.signature == m.signatureAndHash.signature, "C45/certificateVerify-sigalg")
		vrt.Assert(eqBytesC45(m2.signature, m.signature), "C45/certificateVerify-signature")
	}
}

// VerifC45_rt_sessionState: master secret 0..2K bytes, 0..K certificates of 0..2 bytes.
func VerifC45_rt_sessionState() {
	K := vrt.Param("K", 2)
	s := &sessionState{}
	s.vers = vrt.U16("vers")
	s.cipherSuite = vrt.U16("suite")
	s.masterSecret = vrt.Bytes("ms", vrt.Range("mslen", 0, 2*K))
	s.certificates = bytesListC45(vrt.Range("ncerts", 0, K), 0, 2)
	s2 := &sessionState{}
	ok := s2.unmarshal(s.marshal())
	vrt.Assert(ok, "C45/sessionState-parses")
	if ok {
		vrt.Assert(s2.vers == s.vers, "C45/sessionState-vers")
		vrt.Assert(s2.cipherSuite == s.cipherSuite, "C45/sessionState-suite")
		vrt.Assert(eqBytesC45(s2.masterSecret, s.masterSecret), "C45/sessionState-masterSecret")
		vrt.Assert(eqBytesListC45(s2.certificates, s.certificates), "C45/sessionState-certs")
	}
}

// ---------------------------------------------------------------------------------------------
// (b) unmarshal on arbitrary bytes

// helloBufC45: n bytes; bytes 0..3 (handshake header) and 6..37 (random) are concrete zeroes
// (neither unmarshal reads them except to alias them), everything else is symbolic.
func helloBufC45(n int) []byte {
	buf := make([]byte, n)
	if n > 4 {
		hi := n
		if hi > 6 {
			hi = 6
		}
		copy(buf[4:hi], vrt.Bytes("vers", hi-4))
	}
	if n > 38 {
		copy(buf[38:], vrt.Bytes("tail", n-38))
	}
	return buf
}

func VerifC45_raw_clientHello() {
	T := vrt.Param("T", 10)
	n := vrt.Range("len", 0, 38+T)
	buf := helloBufC45(n)
	m := &clientHelloMsg{}
	ok := m.unmarshal(buf)
	vrt.Cover("C45/raw-clientHello-returned")
	if ok {
		vrt.Assert(len(m.sessionId) <= 32, "C45/raw-clientHello-sid")
		vrt.Assert(len(buf) >= 42, "C45/raw-clientHello-minlen")
	}
	vrt.Assert(true, "C45/raw-clientHello-nopanic")
}

func VerifC45_raw_serverHello() {
	T := vrt.Param("T", 10)
	n := vrt.Range("len", 0, 38+T)
	buf := helloBufC45(n)
	m := &serverHelloMsg{}
	ok := m.unmarshal(buf)
	if ok {
		vrt.Assert(len(m.sessionId) <= 32, "C45/raw-serverHello-sid")
		vrt.Assert(len(buf) >= 42, "C45/raw-serverHello-minlen")
	}
	vrt.Assert(true, "C45/raw-serverHello-nopanic")
}

// rawBufC45: a fully symbolic buffer of 0..T bytes.
func rawBufC45() []byte {
	return vrt.Bytes("buf", vrt.Range("len", 0, vrt.Param("T", 10)))
}

func VerifC45_raw_certificate() {
	buf := rawBufC45()
	m := &certificateMsg{}
	if m.unmarshal(buf) {
		// the certificates tile the buffer exactly
		total := 0
		for _, c := range m.certificates {
			total += 3 + len(c)
		}
		vrt.Assert(total == len(buf)-7, "C45/raw-certificate-covers")
	}
	vrt.Assert(true, "C45/raw-certificate-nopanic")
}

// VerifC45_raw_opaque: serverKeyExchange, certificateStatus, serverHelloDone, clientKeyExchange,
// finished, nextProto, newSessionTicket.
func VerifC45_raw_opaque() {
	buf := rawBufC45()
	switch vrt.Choose("msg", 7) {
	case 0:
		m := &serverKeyExchangeMsg{}
		if m.unmarshal(buf) {
			vrt.Assert(len(m.key) == len(buf)-4, "C45/raw-opaque-len")
		}
	case 1:
		m := &certificateStatusMsg{}
		if m.unmarshal(buf) {
			vrt.Assert(len(m.response) <= len(buf), "C45/raw-opaque-len")
		}
	case 2:
		m := &serverHelloDoneMsg{}
		vrt.Assert(m.unmarshal(buf) == (len(buf) == 4), "C45/raw-helloDone")
	case 3:
		m := &clientKeyExchangeMsg{}
		if m.unmarshal(buf) {
			vrt.Assert(len(m.ciphertext) == len(buf)-4, "C45/raw-opaque-len")
		}
	case 4:
		m := &finishedMsg{}
		if m.unmarshal(buf) {
			vrt.Assert(len(m.verifyData) == len(buf)-4, "C45/raw-opaque-len")
		}
	case 5:
		m := &nextProtoMsg{}
		if m.unmarshal(buf) {
			vrt.Assert(len(m.proto) <= len(buf)-6, "C45/raw-opaque-len")
		}
	case 6:
		m := &newSessionTicketMsg{}
		if m.unmarshal(buf) {
			vrt.Assert(len(m.ticket) == len(buf)-10, "C45/raw-opaque-len")
		}
	}
	vrt.Assert(true, "C45/raw-opaque-nopanic")
}

func VerifC45_raw_certificateRequest() {
	buf := rawBufC45()
	m := &certificateRequestMsg{hasSignatureAndHash: flagC45()}
	if m.unmarshal(buf) {
		vrt.Assert(len(m.certificateTypes) >= 1, "C45/raw-certificateRequest-types")
	}
	vrt.Assert(true, "C45/raw-certificateRequest-nopanic")
}

func VerifC45_raw_certificateVerify() {
	buf := rawBufC45()
	m := &certificateVerifyMsg{hasSignatureAndHash: flagC45()}
	if m.unmarshal(buf) {
		vrt.Assert(len(m.signature) <= len(buf)-6, "C45/raw-opaque-len")
	}
	vrt.Assert(true, "C45/raw-certificateVerify-nopanic")
}

// VerifC45_raw_sessionState: the certificate count (a 16-bit field that sizes a make) is assumed
// <= C; a larger count only makes the per-certificate loop fail later on the same 4-byte check.
func VerifC45_raw_sessionState() {
	T := vrt.Param("T", 10)
	n := vrt.Range("len", 0, T)
	buf := vrt.Bytes("buf", n)
	if n >= 8 {
		// master secret length is a shape so that the position of the count is concrete;
		// k == n-5 stands for every length that does not fit (unmarshal returns false at once)
		k := vrt.Range("mslen", 0, n-5)
		msl := int(buf[4])<<8 | int(buf[5])
		if k == n-5 {
			vrt.Assume(msl > n-6)
		} else {
			vrt.Assume(msl == k)
			if 6+k+2 <= n {
				vrt.Assume(buf[6+k] == 0 && int(buf[6+k+1]) <= vrt.Param("C", 3))
			}
		}
	}
	s := &sessionState{}
	if s.unmarshal(buf) {
		vrt.Assert(len(s.masterSecret) <= len(buf)-8, "C45/raw-opaque-len")
	}
	vrt.Assert(true, "C45/raw-sessionState-nopanic")
}

// ---------------------------------------------------------------------------------------------
// (c) focused shapes that the general harnesses above do not reach within the quick bounds

// VerifC45_rt_clientHello_sni_long: round trip of a ClientHello whose server name is 252..256 octets
// long (the lengths around the point where server_name_list length = name length + 3 needs its
// high-order octet; 253 is the longest textual DNS name). First and last octet symbolic, the rest 'a'.
func VerifC45_rt_clientHello_sni_long() {
	lens := []int{252, 253, 254, 255, 256}
	n := lens[vrt.Choose("snilen", len(lens))]
	b := make([]byte, n)
	for i := range b {
		b[i] = 'a'
	}
	b[0] = vrt.Byte("first")
	b[n-1] = vrt.Byte("last")
	m := &clientHelloMsg{}
	m.vers = vrt.U16("vers")
	m.random = make([]byte, 32)
	m.cipherSuites = u16sC45(1)
	m.compressionMethods = []byte{0}
	m.serverName = string(b)
	if flagC45() {
		m.ocspStapling = true // an extension after server_name
	}
	raw := m.marshal()
	m2 := &clientHelloMsg{}
	ok := m2.unmarshal(raw)
	vrt.Assert(ok, "C45/clientHello-parses")
	if !ok {
		return
	}
	vrt.Assert(len(m2.serverName) == n, "C45/clientHello-sni-long")
	vrt.Assert(eqStrC45(m2.serverName, m.serverName), "C45/clientHello-sni-long")
	vrt.Assert(m2.ocspStapling == m.ocspStapling, "C45/clientHello-ocsp")
	vrt.Assert(m2.vers == m.vers && eqU16sC45(m2.cipherSuites, m.cipherSuites), "C45/clientHello-suites")
}

// VerifC45_raw_clientHello_ext: the extension area of a ClientHello on arbitrary bytes. The part in
// front of it is the shortest well-formed one (empty session id, one symbolic suite, one compression
// method: 45 octets), followed by 0..X fully symbolic octets (extensions length, then extension
// headers and bodies of any type and any declared length). The buffer's capacity equals its length,
// so a slice expression that reaches past the end of the message is a Go panic. Oracle: no panic.
func VerifC45_raw_clientHello_ext() {
	X := vrt.Param("X", 10)
	e := vrt.Range("extlen", 0, X)
	buf := make([]byte, 45+e)
	copy(buf[4:6], vrt.Bytes("vers", 2))
	buf[38] = 0 // session id length
	buf[39], buf[40] = 0, 2
	copy(buf[41:43], vrt.Bytes("suite", 2))
	buf[43], buf[44] = 1, 0
	copy(buf[45:], vrt.Bytes("ext", e))
	m := &clientHelloMsg{}
	ok := m.unmarshal(buf)
	vrt.Cover("C45/raw-clientHello-ext-returned")
	if ok {
		vrt.Cover("C45/raw-clientHello-ext-accepted")
		vrt.Assert(len(m.serverName) <= e, "C45/raw-clientHello-ext-sni-inside")
	}
	vrt.Assert(true, "C45/raw-clientHello-ext-nopanic")
}
