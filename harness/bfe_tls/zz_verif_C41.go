package bfe_tls

// C41 — TLS negotiation picks mutually supported parameters and resists downgrade.
//
// The server side negotiation (readClientHello and the kernels it calls: mutualVersion,
// checkVersionGrade, checkCipherGrade, tryCipherSuite, negotiateEquivalentCipherSuites,
// mutualProtocol, validateHttp2Accepted, the TLS_FALLBACK_SCSV check) is executed symbolically on a
// hand-built *Conn whose handshake buffer already holds the marshalled ClientHello (that is the state
// readRecord leaves behind; the record layer itself is not part of this property's decidable part).

import (
	"net"
	"time"

	vrt "github.com/bfenetworks/bfe/zz_vrt"
)

// ---------------------------------------------------------------------------------------------
// stubs (all defined here, nothing in /repo is changed)

type fakeConnC41 struct{ wrote int }

func (f *fakeConnC41) Read(p []byte) (int, error)         { return 0, errEOFC41{} }
func (f *fakeConnC41) Write(p []byte) (int, error)        { f.wrote += len(p); return len(p), nil }
func (f *fakeConnC41) Close() error                       { return nil }
func (f *fakeConnC41) LocalAddr() net.Addr                { return nil }
func (f *fakeConnC41) RemoteAddr() net.Addr               { return nil }
func (f *fakeConnC41) SetDeadline(t time.Time) error      { return nil }
func (f *fakeConnC41) SetReadDeadline(t time.Time) error  { return nil }
func (f *fakeConnC41) SetWriteDeadline(t time.Time) error { return nil }

type errEOFC41 struct{}

func (errEOFC41) Error() string { return "EOF" }

type zeroRandC41 struct{}

func (zeroRandC41) Read(p []byte) (int, error) {
	for i := range p {
		p[i] = 0
	}
	return len(p), nil
}

type fixedRuleC41 struct{ r *Rule }

func (f fixedRuleC41) Get(c *Conn) *Rule { return f.r }

type fixedProtosC41 []string

func (f fixedProtosC41) Get(c *Conn) []string { return []string(f) }

// ---------------------------------------------------------------------------------------------
// reference helpers

var versionsC41 = []uint16{0, VersionSSL30, VersionTLS10, VersionTLS11, VersionTLS12}
var gradesC41 = []string{GradeAPlus, GradeA, GradeB, GradeC}

func effMinC41(v uint16) uint16 {
	if v == 0 {
		return VersionSSL30 // documented default of Config.MinVersion
	}
	return v
}

func effMaxC41(v uint16) uint16 {
	if v == 0 {
		return VersionTLS12 // documented default of Config.MaxVersion
	}
	return v
}

func hasU16C41(s []uint16, v uint16) bool {
	found := false
	for i := 0; i < len(s); i++ {
		if s[i] == v {
			found = true
		}
	}
	return found
}

func hasStrC41(s []string, v string) bool {
	found := false
	for i := 0; i < len(s); i++ {
		if s[i] == v {
			found = true
		}
	}
	return found
}

// suiteFlagsC41: the documented attributes of the suites bfe implements (cipher_suites.go table /
// docs: which suites are RC4, TLS1.2-only, ECDHE, ECDSA, ChaCha20). ok=false: not implemented.
func suiteFlagsC41(id uint16) (rc4, tls12, ecdhe, ecdsa, chacha, ok bool) {
	switch id {
	case TLS_ECDHE_RSA_WITH_CHACHA20_POLY1305_SHA256:
		return false, true, true, false, true, true
	case TLS_ECDHE_ECDSA_WITH_CHACHA20_POLY1305_SHA256:
		return false, true, true, true, true, true
	case TLS_ECDHE_RSA_WITH_AES_128_GCM_SHA256:
		return false, true, true, false, false, true
	case TLS_ECDHE_ECDSA_WITH_AES_128_GCM_SHA256:
		return false, true, true, true, false, true
	case TLS_ECDHE_RSA_WITH_RC4_128_SHA:
		return true, false, true, false, false, true
	case TLS_ECDHE_ECDSA_WITH_RC4_128_SHA:
		return true, false, true, true, false, true
	case TLS_ECDHE_RSA_WITH_AES_128_CBC_SHA, TLS_ECDHE_RSA_WITH_AES_256_CBC_SHA, TLS_ECDHE_RSA_WITH_3DES_EDE_CBC_SHA:
		return false, false, true, false, false, true
	case TLS_ECDHE_ECDSA_WITH_AES_128_CBC_SHA, TLS_ECDHE_ECDSA_WITH_AES_256_CBC_SHA:
		return false, false, true, true, false, true
	case TLS_RSA_WITH_RC4_128_SHA:
		return true, false, false, false, false, true
	case TLS_RSA_WITH_AES_128_CBC_SHA, TLS_RSA_WITH_AES_256_CBC_SHA, TLS_RSA_WITH_3DES_EDE_CBC_SHA, TLS_RSA_WITH_SM4_SM3:
		return false, false, false, false, false, true
	}
	return false, false, false, false, false, false
}

// ---------------------------------------------------------------------------------------------
// kernel harnesses

// VerifC41_version: mutualVersion followed by checkVersionGrade, every 16-bit client version, every
// Min/Max in {0, SSL30..TLS12} with effective min <= effective max, every grade.
func VerifC41_version() {
	cfg := &Config{}
	cfg.MinVersion = versionsC41[vrt.Choose("min", len(versionsC41))]
	cfg.MaxVersion = versionsC41[vrt.Choose("max", len(versionsC41))]
	lo, hi := effMinC41(cfg.MinVersion), effMaxC41(cfg.MaxVersion)
	if lo > hi {
		return // empty range: a configuration error, outside the claim
	}
	grade := gradesC41[vrt.Choose("grade", len(gradesC41))]
	client := vrt.U16("clientVers")
	v, ok := cfg.mutualVersion(client)
	if ok {
		vrt.Assert(v >= lo, "C41/version-ge-min")
		vrt.Assert(v <= hi, "C41/version-le-max")
		vrt.Assert(v <= client, "C41/version-le-client")
		v2, ok2 := cfg.checkVersionGrade(v, grade)
		if ok2 {
			vrt.Assert(v2 == v, "C41/grade-keeps-version")
			// docs (tls grade): A+ only TLS1.2, A no SSLv3
			vrt.Assert(grade != GradeAPlus || v2 >= VersionTLS12, "C41/grade-aplus-tls12")
			vrt.Assert(grade != GradeA || v2 >= VersionTLS10, "C41/grade-a-no-ssl3")
		}
	} else {
		// a client inside the range is never refused for its version
		vrt.Assert(client < lo, "C41/version-refused-only-below-min")
	}
}

// VerifC41_tryCipherSuite: symbolic id, <= 3 symbolic supported ids, symbolic version and flags.
func VerifC41_tryCipherSuite() {
	c := &Conn{}
	id := vrt.U16("id")
	n := vrt.Range("nsupported", 0, vrt.Param("S", 3))
	supported := make([]uint16, n)
	for i := range supported {
		supported[i] = vrt.U16("supported")
	}
	version := versionsC41[1+vrt.Choose("vers", 4)]
	ellipticOk, ecdsaOk, chachaOk := vrt.Bool("elliptic"), vrt.Bool("ecdsa"), vrt.Bool("chacha")
	useRC4 := uint8(1 + vrt.Choose("rc4", 3)) // disableRC4, enableRC4, onlyRC4
	s, idx := c.tryCipherSuite(id, supported, version, ellipticOk, ecdsaOk, chachaOk, useRC4)
	if s != nil {
		vrt.Assert(s.id == id, "C41/try-id")
		vrt.Assert(idx >= 0 && idx < n && supported[idx] == id, "C41/try-offered")
		rc4, tls12, ecdhe, ecdsa, chacha, ok := suiteFlagsC41(id)
		vrt.Assert(ok, "C41/try-implemented")
		vrt.Assert(!tls12 || version >= VersionTLS12, "C41/try-tls12-suite-needs-tls12")
		vrt.Assert(!ecdhe || ellipticOk, "C41/try-ecdhe-needs-curves")
		vrt.Assert(ecdsa == ecdsaOk, "C41/try-cert-type")
		vrt.Assert(!chacha || chachaOk, "C41/try-chacha-enabled")
		vrt.Assert(!(rc4 && useRC4 == disableRC4), "C41/try-rc4-disabled")
		vrt.Assert(!(!rc4 && useRC4 == onlyRC4), "C41/try-only-rc4")
	}
}

// VerifC41_mutualProtocol: <= 2 client and <= 2 server protocol names of 1..2 symbolic bytes.
func VerifC41_mutualProtocol() {
	nc := vrt.Range("nclient", 1, 2)
	ns := vrt.Range("nserver", 0, 2)
	cp := make([]string, nc)
	for i := range cp {
		cp[i] = vrt.Str("cproto", vrt.Range("clen", 1, 2))
	}
	sp := make([]string, ns)
	for i := range sp {
		sp[i] = vrt.Str("sproto", vrt.Range("slen", 1, 2))
	}
	p, fallback := mutualProtocol(cp, sp)
	if !fallback {
		vrt.Assert(hasStrC41(cp, p), "C41/alpn-offered-by-client")
		vrt.Assert(hasStrC41(sp, p), "C41/alpn-offered-by-server")
	} else {
		// no false "no overlap"
		for i := 0; i < len(cp); i++ {
			vrt.Assert(!hasStrC41(sp, cp[i]), "C41/alpn-fallback-only-without-overlap")
		}
	}
}

// ---------------------------------------------------------------------------------------------
// readClientHello as a whole

var serverSuiteSetsC41 = [][]uint16{
	{TLS_RSA_WITH_RC4_128_SHA, TLS_RSA_WITH_AES_128_CBC_SHA},
	{TLS_ECDHE_RSA_WITH_CHACHA20_POLY1305_SHA256, TLS_ECDHE_RSA_WITH_AES_128_GCM_SHA256, TLS_ECDHE_RSA_WITH_RC4_128_SHA, TLS_RSA_WITH_AES_128_CBC_SHA},
	{TLS_ECDHE_ECDSA_WITH_AES_128_GCM_SHA256, TLS_RSA_WITH_RC4_128_SHA},
	nil, // defaults: every implemented suite
}

// (the configuration loader rejects a non-empty NextProtos without "http/1.1")
var serverProtoSetsC41 = [][]string{{"h2", "http/1.1"}, {"http/1.1"}, {}}

// scenarioC41: one server configuration and the shape of one ClientHello. Each harness below fixes
// some dimensions and enumerates/symbolises the others.
type scenarioC41 struct {
	min, max     uint16
	suites       []uint16 // Config.CipherSuites
	prefer       int      // 0 client order, 1 server order, 2 server order with equal-priority pairs
	serverProtos []string
	rule         bool
	grade        string
	chacha       bool // symbolic when set with vrt.Bool
	ns           int  // number of (symbolic) client suites
	curves       bool // client sends supported curves + point formats
	alpn         int  // 0 none, 1 [h2], 2 [sym], 3 [h2,sym], 4 [sym,sym], 5 [h2,http/1.1], 6 [http/1.1,h2]
	clone        bool // the live configuration is Config.Clone() of the configured one (ticket key rotation)
}

func runHelloC41(sc scenarioC41) {
	cfg := &Config{Rand: zeroRandC41{}, SessionTicketsDisabled: true, SessionCacheDisabled: true}
	cfg.Certificates = make([]Certificate, 1)
	cfg.MinVersion, cfg.MaxVersion = sc.min, sc.max
	lo, hi := effMinC41(cfg.MinVersion), effMaxC41(cfg.MaxVersion)
	if lo > hi {
		return // empty range: a configuration error, outside the claim
	}
	cfg.CipherSuites = sc.suites
	if sc.prefer >= 1 {
		cfg.PreferServerCipherSuites = true
	}
	if sc.prefer == 2 {
		pr := make([]uint16, len(cfg.cipherSuites()))
		for i := range pr {
			pr[i] = uint16(i / 2)
		}
		cfg.CipherSuitesPriority = pr
	}
	cfg.NextProtos = sc.serverProtos
	grade := GradeC // readClientHello's default when there is no rule
	if sc.rule {
		grade = sc.grade
		cfg.ServerRule = fixedRuleC41{&Rule{Grade: grade, Chacha20: sc.chacha, NextProtos: fixedProtosC41(sc.serverProtos)}}
	}
	configured := cfg // the oracle below speaks about the configuration as the operator wrote it
	if sc.clone {
		// bfe_server's UpdateSessionTicketKey installs cfg.Clone() (with a new ticket key) as the live
		// configuration of the listener: the clone must negotiate exactly like the original.
		cfg = cfg.Clone()
	}

	ch := &clientHelloMsg{}
	ch.vers = vrt.U16("clientVers")
	ch.random = make([]byte, 32)
	ch.cipherSuites = make([]uint16, sc.ns)
	for i := range ch.cipherSuites {
		ch.cipherSuites[i] = vrt.U16("suite")
	}
	ch.compressionMethods = []uint8{compressionNone}
	if sc.curves {
		ch.supportedCurves = []CurveID{CurveP256}
		ch.supportedPoints = []uint8{pointFormatUncompressed}
	}
	switch sc.alpn {
	case 1:
		ch.alpnProtocols = []string{"h2"}
	case 2:
		ch.alpnProtocols = []string{vrt.Str("alpn", 2)}
	case 3:
		ch.alpnProtocols = []string{"h2", vrt.Str("alpn", 2)}
	case 4:
		ch.alpnProtocols = []string{vrt.Str("alpn", 2), vrt.Str("alpn", 2)}
	case 5:
		ch.alpnProtocols = []string{"h2", "http/1.1"}
	case 6:
		ch.alpnProtocols = []string{"http/1.1", "h2"}
	}
	clientSuites := append([]uint16(nil), ch.cipherSuites...)
	clientProtos := append([]string(nil), ch.alpnProtocols...)
	clientVers := ch.vers

	fc := &fakeConnC41{}
	c := &Conn{conn: fc, config: cfg}
	c.hand.Write(ch.marshal()) // what readRecord leaves for readHandshake
	hs := &serverHandshakeState{c: c}

	scsv := hasU16C41(clientSuites, TLS_FALLBACK_SCSV)
	// known-finding classes
	vrt.Known("C41-fallback-scsv-default-maxversion", scsv && configured.MaxVersion == 0 && clientVers < hi)
	vrt.Known("C41-h2-rewritten-to-unoffered-http11", hasStrC41(clientProtos, "h2") && !hasStrC41(clientProtos, "http/1.1"))

	isResume, err := hs.readClientHello()
	vrt.Assert(!isResume, "C41/no-resumption-without-ticket-or-id")
	if err != nil {
		vrt.Cover("C41/hello-refused")
		return
	}
	vrt.Cover("C41/hello-accepted")
	// version
	vrt.Assert(c.vers >= lo, "C41/hello-version-ge-min")
	vrt.Assert(c.vers <= hi, "C41/hello-version-le-max")
	vrt.Assert(c.vers <= clientVers, "C41/hello-version-le-client")
	vrt.Assert(hs.hello.vers == c.vers, "C41/hello-version-announced")
	vrt.Assert(grade != GradeAPlus || c.vers >= VersionTLS12, "C41/hello-grade-aplus-tls12")
	vrt.Assert(grade != GradeA || c.vers >= VersionTLS10, "C41/hello-grade-a-no-ssl3")
	// suite
	vrt.Assert(hs.suite != nil, "C41/hello-suite-chosen")
	if hs.suite != nil {
		id := hs.suite.id
		vrt.Assert(hasU16C41(clientSuites, id), "C41/hello-suite-offered-by-client")
		vrt.Assert(hasU16C41(configured.cipherSuites(), id), "C41/hello-suite-enabled-by-server")
		rc4, tls12, _, ecdsa, isChacha, ok := suiteFlagsC41(id)
		vrt.Assert(ok, "C41/hello-suite-implemented")
		vrt.Assert(!tls12 || c.vers >= VersionTLS12, "C41/hello-tls12-suite-needs-tls12")
		vrt.Assert(!ecdsa, "C41/hello-suite-matches-rsa-cert")
		vrt.Assert(!isChacha || sc.chacha, "C41/hello-chacha-enabled-by-rule")
		// docs: grade A+/A no RC4; grade B: SSLv3 only with RC4, TLS without RC4
		if grade == GradeAPlus || grade == GradeA {
			vrt.Assert(!rc4, "C41/hello-grade-no-rc4")
		}
		if grade == GradeB {
			vrt.Assert(rc4 == (c.vers < VersionTLS10), "C41/hello-grade-b-rc4-iff-ssl3")
		}
	}
	// ALPN
	if p := hs.hello.alpnProtocol; p != "" {
		vrt.Assert(hasStrC41(clientProtos, p), "C41/hello-alpn-offered-by-client")
		vrt.Assert(hasStrC41(sc.serverProtos, p), "C41/hello-alpn-offered-by-server")
	}
	// downgrade protection (RFC 7507): SCSV with a version below the server's highest is refused
	vrt.Assert(!(scsv && clientVers < hi), "C41/hello-fallback-scsv-refused")
}

func flagC41() bool { return vrt.Choose("flag", 2) == 1 }

// VerifC41_hello_version: every Min/Max pair x {no rule, A+, A, B, C}; client version and NS suites
// fully symbolic; server enables one RC4 and one AES suite so that every grade can complete.
func VerifC41_hello_version() {
	sc := scenarioC41{suites: serverSuiteSetsC41[0], curves: true}
	sc.min = versionsC41[vrt.Choose("min", len(versionsC41))]
	sc.max = versionsC41[vrt.Choose("max", len(versionsC41))]
	if g := vrt.Choose("rule", 5); g > 0 {
		sc.rule, sc.grade = true, gradesC41[g-1]
	}
	sc.ns = vrt.Range("nsuites", vrt.Param("NSLO", 1), vrt.Param("NS", 2))
	runHelloC41(sc)
}

// VerifC41_hello_suite: default version range and Max=TLS1.1; every grade, chacha on/off, server
// suite sets 0..SETS-1, the three preference modes, curves present/absent; NS symbolic suites.
func VerifC41_hello_suite() {
	sc := scenarioC41{}
	sc.max = []uint16{0, VersionTLS11}[vrt.Choose("max", vrt.Param("MAXES", 2))]
	sc.suites = serverSuiteSetsC41[vrt.Choose("serverSuites", vrt.Param("SETS", 3))]
	sc.prefer = vrt.Choose("prefer", 3)
	if g := vrt.Choose("rule", 5); g > 0 {
		sc.rule, sc.grade = true, gradesC41[g-1]
		sc.chacha = vrt.Bool("chacha")
	}
	sc.curves = flagC41()
	sc.ns = vrt.Range("nsuites", vrt.Param("NSLO", 0), vrt.Param("NS", 2))
	runHelloC41(sc)
}

// VerifC41_hello_alpn: the ALPN shapes x server protocol sets x {rule, no rule} x Max {default,
// TLS1.1} (validateHttp2Accepted), one or two symbolic suites against suite set 1.
func VerifC41_hello_alpn() {
	sc := scenarioC41{suites: serverSuiteSetsC41[1], curves: true}
	sc.max = []uint16{0, VersionTLS11}[vrt.Choose("max", 2)]
	sc.serverProtos = serverProtoSetsC41[vrt.Choose("serverProtos", 3)]
	if flagC41() {
		sc.rule, sc.grade = true, GradeB
	}
	sc.alpn = vrt.Choose("alpn", 7)
	sc.ns = vrt.Range("nsuites", 1, vrt.Param("NS", 1))
	runHelloC41(sc)
}

// ---------------------------------------------------------------------------------------------
// TLS_FALLBACK_SCSV on the resumption path

type cacheC41 struct{ entry []byte }

func (c *cacheC41) Get(key string) ([]byte, bool)  { return c.entry, c.entry != nil }
func (c *cacheC41) Put(key string, s []byte) error { return nil }

// VerifC41_hello_resume_scsv: the client presents a session id for which the (fake) session cache
// holds a session {vers symbolic, TLS_RSA_WITH_AES_128_CBC_SHA}, offers [that suite, one symbolic
// suite], client version symbolic; server Max in {default, TLS1.2, TLS1.1}. Whether or not the
// session is resumed, SCSV with a version below the server's highest must be refused.
func VerifC41_hello_resume_scsv() {
	cfg := &Config{Rand: zeroRandC41{}, SessionTicketsDisabled: true}
	cfg.Certificates = make([]Certificate, 1)
	cfg.MaxVersion = []uint16{0, VersionTLS12, VersionTLS11}[vrt.Choose("max", 3)]
	lo, hi := effMinC41(cfg.MinVersion), effMaxC41(cfg.MaxVersion)
	st := &sessionState{vers: vrt.U16("stVers"), cipherSuite: TLS_RSA_WITH_AES_128_CBC_SHA, masterSecret: []byte{1, 2}}
	cfg.ServerSessionCache = &cacheC41{entry: st.marshal()}

	ch := &clientHelloMsg{}
	ch.vers = vrt.U16("clientVers")
	ch.random = make([]byte, 32)
	ch.sessionId = []byte{7}
	ch.cipherSuites = []uint16{TLS_RSA_WITH_AES_128_CBC_SHA, vrt.U16("suite")}
	ch.compressionMethods = []uint8{compressionNone}
	clientVers := ch.vers
	scsv := ch.cipherSuites[1] == TLS_FALLBACK_SCSV

	c := &Conn{conn: &fakeConnC41{}, config: cfg}
	c.hand.Write(ch.marshal())
	hs := &serverHandshakeState{c: c}

	vrt.Known("C41-fallback-scsv-default-maxversion", scsv && cfg.MaxVersion == 0 && clientVers < hi)
	vrt.Known("C41-fallback-scsv-skipped-on-resumption", scsv && clientVers < hi && st.vers <= clientVers && st.vers >= lo)
	isResume, err := hs.readClientHello()
	if err != nil {
		return
	}
	if isResume {
		vrt.Cover("C41/resumed")
	}
	vrt.Assert(!(scsv && clientVers < hi), "C41/hello-fallback-scsv-refused")
}

// VerifC41_hello_suite_default: Config.CipherSuites left nil (all 16 implemented suites enabled, the
// shipped default), every grade, the three preference modes, curves present/absent, NS symbolic suites.
func VerifC41_hello_suite_default() {
	sc := scenarioC41{suites: nil}
	sc.prefer = vrt.Choose("prefer", 3)
	if g := vrt.Choose("rule", 5); g > 0 {
		sc.rule, sc.grade = true, gradesC41[g-1]
		sc.chacha = vrt.Bool("chacha")
	}
	sc.curves = flagC41()
	sc.ns = vrt.Range("nsuites", 1, vrt.Param("NS", 1))
	runHelloC41(sc)
}

// ---------------------------------------------------------------------------------------------
// the live configuration is a Clone() of the configured one

// VerifC41_hello_clone: every Min/Max pair, server suite set 0 in server order, NextProtos
// {h2,http/1.1}, no rule or grade B; the Config handed to the connection is cfg.Clone() (what the
// session ticket key rotation installs). One symbolic suite, symbolic client version, ALPN none or
// [http/1.1,h2]. Same oracle as every other hello harness, stated against the ORIGINAL configuration.
func VerifC41_hello_clone() {
	sc := scenarioC41{suites: serverSuiteSetsC41[0], curves: true, clone: true, prefer: 1}
	sc.min = versionsC41[vrt.Choose("min", len(versionsC41))]
	sc.max = versionsC41[vrt.Choose("max", len(versionsC41))]
	sc.serverProtos = serverProtoSetsC41[0]
	if flagC41() {
		sc.rule, sc.grade = true, GradeB
	}
	if flagC41() {
		sc.alpn = 6
	}
	sc.ns = 1
	runHelloC41(sc)
}

// ---------------------------------------------------------------------------------------------
// negotiated parameters of a RESUMED handshake

// VerifC41_hello_resume_params: the (fake) session cache holds a session {vers, suite: 16 bits
// symbolic each}; the client presents a session id, a symbolic version and two symbolic suites; the
// server enables exactly {RSA_AES128_CBC_SHA, RSA_AES256_CBC_SHA} and Min/Max from {0, TLS1.0, TLS1.2}.
// A completed readClientHello - resumed or not - uses a version inside the configured range and not
// above the client's, and a suite that the client offered and the server configuration enables.
func VerifC41_hello_resume_params() {
	cfg := &Config{Rand: zeroRandC41{}, SessionTicketsDisabled: true}
	cfg.Certificates = make([]Certificate, 1)
	vs := []uint16{0, VersionTLS10, VersionTLS12}
	cfg.MinVersion = vs[vrt.Choose("min", len(vs))]
	cfg.MaxVersion = vs[vrt.Choose("max", len(vs))]
	lo, hi := effMinC41(cfg.MinVersion), effMaxC41(cfg.MaxVersion)
	if lo > hi {
		return
	}
	serverSuites := []uint16{TLS_RSA_WITH_AES_128_CBC_SHA, TLS_RSA_WITH_AES_256_CBC_SHA}
	cfg.CipherSuites = serverSuites
	st := &sessionState{vers: vrt.U16("stVers"), cipherSuite: vrt.U16("stSuite"), masterSecret: []byte{1, 2}}
	cfg.ServerSessionCache = &cacheC41{entry: st.marshal()}

	ch := &clientHelloMsg{}
	ch.vers = vrt.U16("clientVers")
	ch.random = make([]byte, 32)
	ch.sessionId = []byte{7}
	ch.cipherSuites = []uint16{vrt.U16("suite"), vrt.U16("suite")}
	ch.compressionMethods = []uint8{compressionNone}
	clientVers := ch.vers
	clientSuites := append([]uint16(nil), ch.cipherSuites...)
	// the TLS_FALLBACK_SCSV classes are the business of VerifC41_hello_resume_scsv
	vrt.Assume(!hasU16C41(clientSuites, TLS_FALLBACK_SCSV))

	c := &Conn{conn: &fakeConnC41{}, config: cfg}
	c.hand.Write(ch.marshal())
	hs := &serverHandshakeState{c: c}

	isResume, err := hs.readClientHello()
	if err != nil {
		return
	}
	if isResume {
		vrt.Cover("C41/resume-params-resumed")
	} else {
		vrt.Cover("C41/resume-params-full")
	}
	vrt.Assert(c.vers >= lo, "C41/resume-version-ge-min")
	vrt.Assert(c.vers <= hi, "C41/resume-version-le-max")
	vrt.Assert(c.vers <= clientVers, "C41/resume-version-le-client")
	vrt.Assert(hs.hello.vers == c.vers, "C41/resume-version-announced")
	vrt.Assert(hs.suite != nil, "C41/resume-suite-chosen")
	if hs.suite != nil {
		vrt.Assert(hasU16C41(clientSuites, hs.suite.id), "C41/resume-suite-offered-by-client")
		vrt.Assert(hasU16C41(serverSuites, hs.suite.id), "C41/resume-suite-enabled-by-server")
	}
}
