package bfe_route

// C10 — host to product resolution follows the host table.
//
// Kernel (all real): buildHostRoute, findHostRoute, hostnameStrip, string_reverse.ReverseFqdnHost,
// trie.Set/Get, findVipRoute, HostTable.LookupHostTagAndProduct.
// Reference: the chain of the property sentence (exact, case-insensitive, port and trailing dot
// ignored -> wildcard with the longest matching suffix -> VIP -> default -> no product).

import (
	"net"

	"github.com/bfenetworks/bfe/bfe_basic"
	"github.com/bfenetworks/bfe/bfe_config/bfe_route_conf/host_rule_conf"
	"github.com/bfenetworks/bfe/bfe_config/bfe_route_conf/vip_rule_conf"
	"github.com/bfenetworks/bfe/bfe_http"
	vrt "github.com/bfenetworks/bfe/zz_vrt"
)

// universe of configured host patterns (after normalisation they are pairwise different, so that the
// table has one meaning; tables whose meaning depends on map order are C14's subject)
var patsC10 = []string{
	"ab.c",   // exact
	"*.b.c",  // wildcard, nested below *.c
	"*.c",    // wildcard
	"x.b.c",  // exact below both wildcards
	"Q.C",    // exact, upper case in the configuration
	"d.Ef.",  // exact, trailing dot and mixed case in the configuration
	"*.Ef",   // wildcard, mixed case in the configuration, next to the exact d.Ef.
}

func lowerC10(b byte) byte {
	if b >= 'A' && b <= 'Z' {
		return b + 32
	}
	return b
}

// normPatC10: configured pattern lower-cased without trailing dot (concrete)
func normPatC10(p string) string {
	if len(p) > 0 && p[len(p)-1] == '.' {
		p = p[:len(p)-1]
	}
	b := []byte(p)
	for i := range b {
		b[i] = lowerC10(b[i])
	}
	return string(b)
}

// eqFoldC10: h (symbolic bytes, concrete length) equals the concrete lower-case string s ignoring case
func eqFoldC10(h string, s string) bool {
	if len(h) != len(s) {
		return false
	}
	ok := true
	for i := 0; i < len(h); i++ {
		if lowerC10(h[i]) != s[i] {
			ok = false
		}
	}
	return ok
}

// refHostC10 returns the index of the pattern that decides host h (already without port and trailing
// dot), or -1. present[i] tells whether pattern i is configured.
func refHostC10(h string, present []bool) int {
	// exact
	for i, p := range patsC10 {
		np := normPatC10(p)
		if present[i] && np[0] != '*' && eqFoldC10(h, np) {
			return i
		}
	}
	// wildcard: longest matching suffix
	best, bestLen := -1, -1
	for i, p := range patsC10 {
		np := normPatC10(p)
		if !present[i] || np[0] != '*' {
			continue
		}
		suf := np[1:] // ".b.c"
		if len(h) > len(suf) && eqFoldC10(h[len(h)-len(suf):], suf) && len(suf) > bestLen {
			best, bestLen = i, len(suf)
		}
	}
	return best
}

// symHostC10 draws a request host of 1..3 labels of 1..2 symbolic ASCII bytes (no '.' / ':' inside a
// label), returns the bare name and the name as sent (optional trailing dot, optional :port).
func symHostC10(maxLabels int) (bare string, sent string) {
	k := vrt.Range("labels", 1, maxLabels)
	for i := 0; i < k; i++ {
		n := vrt.Range("label-len", 1, vrt.Param("LL", 2))
		l := vrt.Str("label", n)
		for j := 0; j < n; j++ {
			vrt.Assume(l[j] != '.' && l[j] != ':' && l[j] < 0x80)
		}
		if i > 0 {
			bare += "."
		}
		bare += l
	}
	sent = bare
	switch vrt.Choose("decor", 4) {
	case 1:
		sent = bare + "."
	case 2:
		sent = bare + ":80"
	case 3:
		sent = bare + ".:8"
	}
	return
}

func mkReqC10(host string, vip net.IP) *bfe_basic.Request {
	return &bfe_basic.Request{
		HttpRequest: &bfe_http.Request{Host: host},
		Session:     &bfe_basic.Session{Vip: vip},
	}
}

// VerifC10_host: every sub-table of the pattern universe (selected by tier parameter) x every request
// host of the bound; fallback reduced to "default product set or not" (the full chain is
// VerifC10_fallback).
func VerifC10_host() {
	np := len(patsC10)
	present := make([]bool, np)
	maxPresent := vrt.Param("SUB", 2) // sub-tables with at most SUB patterns, plus the full table
	cnt := 0
	full := vrt.Choose("full-table", 2) == 1
	for i := 0; i < np; i++ {
		if full {
			present[i] = true
		} else if cnt < maxPresent && vrt.Choose("present", 2) == 1 {
			present[i] = true
			cnt++
		}
	}
	conf := host_rule_conf.HostConf{HostMap: host_rule_conf.Host2HostTag{}, HostTagMap: host_rule_conf.HostTag2Product{}}
	prods := make([]string, np)
	tags := []string{"t0", "t1", "t2", "t3", "t4", "t5", "t6"}
	for i := 0; i < np; i++ {
		if present[i] {
			prods[i] = vrt.Str("prod", 2)
			conf.HostMap[patsC10[i]] = tags[i]
			conf.HostTagMap[tags[i]] = prods[i]
		}
	}
	def := ""
	if vrt.Choose("default", vrt.Param("DEFSHAPES", 2)) == 1 {
		def = vrt.Str("default-product", 2)
	}
	conf.DefaultProduct = def
	t := newHostTable()
	t.updateHostTable(conf)

	bare, sent := symHostC10(vrt.Param("LABELS", 3))
	req := mkReqC10(sent, nil)
	err := t.LookupHostTagAndProduct(req)

	k := refHostC10(bare, present)
	if k >= 0 {
		vrt.Assert(err == nil, "C10/host-found")
		vrt.Assert(req.Route.Product == prods[k], "C10/host-product")
		if req.Route.HostTag == tags[k] {
			vrt.Cover("C10/host-tag-of-matching-entry")
		}
	} else if def != "" {
		vrt.Assert(err == nil, "C10/default-found")
		vrt.Assert(req.Route.Product == def, "C10/default-product")
	} else {
		vrt.Assert(err != nil, "C10/no-product-error")
		vrt.Assert(req.Route.Error != nil, "C10/no-product-error-recorded")
	}
}

// VerifC10_fallback: the whole chain host -> VIP -> default -> error, with a one-entry host table
// (or none), every VIP-table / session-VIP / default combination, symbolic products.
func VerifC10_fallback() {
	t := newHostTable()
	hostShape := vrt.Choose("host-table", 3) // 0: never loaded (nil trie), 1: empty, 2: {"ab.c"}
	hp := vrt.Str("host-product", 2)
	if hostShape >= 1 {
		conf := host_rule_conf.HostConf{HostMap: host_rule_conf.Host2HostTag{}, HostTagMap: host_rule_conf.HostTag2Product{}}
		if hostShape == 2 {
			conf.HostMap["ab.c"] = "t"
			conf.HostTagMap["t"] = hp
		}
		t.updateHostTable(conf)
	}
	def := ""
	if vrt.Choose("default", 2) == 1 {
		def = vrt.Str("default-product", 2)
	}
	t.defaultProduct = def

	vp := vrt.Str("vip-product", 2)
	vipShape := vrt.Choose("vip-table", 3) // 0: no table, 1: {1.2.3.4}, 2: {1.2.3.4, 10.0.0.1}
	vips := vip_rule_conf.Vip2Product{}
	if vipShape >= 1 {
		vips["1.2.3.4"] = vp
	}
	if vipShape == 2 {
		vips["10.0.0.1"] = "zz"
	}
	t.updateVipTable(vip_rule_conf.VipConf{VipMap: vips})
	var vip net.IP
	vipIn := false
	switch vrt.Choose("session-vip", 3) {
	case 1:
		vip = net.IPv4(1, 2, 3, 4)
		vipIn = vipShape >= 1
	case 2:
		vip = net.IPv4(5, 6, 7, 8)
	}

	// request host: 2 labels "??.?" (may or may not be ab.c in any case), decorated
	l0 := vrt.Str("label", 2)
	l1 := vrt.Str("label", 1)
	vrt.Assume(l0[0] != '.' && l0[0] != ':' && l0[0] < 0x80)
	vrt.Assume(l0[1] != '.' && l0[1] != ':' && l0[1] < 0x80)
	vrt.Assume(l1[0] != '.' && l1[0] != ':' && l1[0] < 0x80)
	bare := l0 + "." + l1
	sent := bare
	switch vrt.Choose("decor", 3) {
	case 1:
		sent = bare + "."
	case 2:
		sent = bare + ":80"
	}
	req := mkReqC10(sent, vip)
	err := t.LookupHostTagAndProduct(req)

	hostHit := hostShape == 2 && eqFoldC10(bare, "ab.c")
	switch {
	case hostHit:
		vrt.Assert(err == nil && req.Route.Product == hp, "C10/chain-host-first")
	case vipIn:
		vrt.Assert(err == nil && req.Route.Product == vp, "C10/chain-vip-second")
	case def != "":
		vrt.Assert(err == nil && req.Route.Product == def, "C10/chain-default-third")
	default:
		vrt.Assert(err != nil && req.Route.Error != nil, "C10/chain-no-product")
	}
}
