package bfe_route

// C12 — cluster lookup combines basic and advanced rules as documented.
//
// Kernel: HostTable.LookupCluster (real), on top of a real BasicRouteRuleTree.
// The meaning of the basic tree itself is C11's business: here the tree's answer for the
// (port-stripped) host and the path is obtained by an independent call of BasicRouteRuleTree.Get and
// is an *input* of the reference; what is decided is the combination basic / ADVANCED_MODE / ordered
// advanced rules / error.

import (
	"net/url"

	"github.com/bfenetworks/bfe/bfe_basic"
	"github.com/bfenetworks/bfe/bfe_config/bfe_route_conf/route_rule_conf"
	"github.com/bfenetworks/bfe/bfe_http"
	vrt "github.com/bfenetworks/bfe/zz_vrt"
)

// condC12 is a stub condition: its verdict is a symbolic bool drawn by the harness; it records the
// request it was evaluated on and how often it was evaluated.
type condC12 struct {
	res   bool
	calls int
	req   *bfe_basic.Request
}

func (c *condC12) Match(req *bfe_basic.Request) bool {
	c.calls++
	c.req = req
	return c.res
}

func strPtrC12(s string) *string { return &s }

// stripPortC12: the host without ":port" (everything from the first ':' on is dropped).
func stripPortC12(h string) string {
	for i := 0; i < len(h); i++ {
		if h[i] == ':' {
			return h[:i]
		}
	}
	return h
}

func mkTreeC12(rules []route_rule_conf.BasicRouteRuleFile) *route_rule_conf.BasicRouteRuleTree {
	t := route_rule_conf.NewBasicRouteRuleTree()
	for i := range rules {
		r := rules[i]
		if err := t.Insert(&r); err != nil {
			panic("C12 harness: fixture tree does not build: " + err.Error())
		}
	}
	return t
}

func VerifC12_lookupCluster() {
	// --- configuration -------------------------------------------------------------------------
	// product "p": basic rules   a.x /s -> b1 (real cluster, symbolic name)
	//                            b.x *  -> ADVANCED_MODE
	//                            *.y /t* -> b2
	// product "q": basic rules   *   *  -> bq           (must never leak into p's or r's answer)
	// product "r": no basic tree
	b1 := vrt.Str("b1", 2)
	b2 := vrt.Str("b2", 2)
	bq := vrt.Str("bq", 2)
	am := route_rule_conf.AdvancedMode
	treeP := mkTreeC12([]route_rule_conf.BasicRouteRuleFile{
		{Hostname: []string{"a.x"}, Path: []string{"/s"}, ClusterName: &b1},
		{Hostname: []string{"b.x"}, ClusterName: &am},
		{Hostname: []string{"*.y"}, Path: []string{"/t*"}, ClusterName: &b2},
	})
	treeQ := mkTreeC12([]route_rule_conf.BasicRouteRuleFile{
		{Hostname: []string{"*"}, Path: []string{"*"}, ClusterName: &bq},
	})
	t := newHostTable()
	t.productBasicRouteTree = route_rule_conf.ProductBasicRouteTree{}
	t.productAdvancedRouteTable = route_rule_conf.ProductAdvancedRouteRule{}
	basicShape := vrt.Choose("basic-shape", 3) // 0: p and q have trees, 1: only q, 2: none
	if basicShape == 0 {
		t.productBasicRouteTree["p"] = treeP
	}
	if basicShape <= 1 {
		t.productBasicRouteTree["q"] = treeQ
	}

	// advanced rules of the request's product: absent, or a list of 0..N rules
	nmax := vrt.Param("N", 3)
	advPresent := vrt.Choose("adv-present", 2) == 1
	n := 0
	conds := make([]*condC12, nmax)
	names := make([]string, nmax)
	prod := []string{"p", "q", "r"}[vrt.Choose("product", 3)]
	if advPresent {
		n = vrt.Range("adv-n", 0, nmax)
		rules := make(route_rule_conf.AdvancedRouteRules, n)
		for i := 0; i < n; i++ {
			conds[i] = &condC12{res: vrt.Bool("match")}
			names[i] = vrt.Str("adv", 2)
			rules[i] = route_rule_conf.AdvancedRouteRule{Cond: conds[i], ClusterName: names[i]}
		}
		t.productAdvancedRouteTable[prod] = rules
	}
	// another product's advanced rules always match: they must never be consulted
	other := &condC12{res: true}
	otherProd := "q"
	if prod == "q" {
		otherProd = "p"
	}
	t.productAdvancedRouteTable[otherProd] = route_rule_conf.AdvancedRouteRules{{Cond: other, ClusterName: "zz"}}

	// --- request ---------------------------------------------------------------------------------
	// host: "<c>.<d>" with symbolic bytes, optionally followed by ":8"; path "/<e>" or "/<e>/<f>"; URL may be nil
	hb := vrt.Str("host", 3)
	vrt.Assume(hb[0] != ':' && hb[2] != ':' && hb[0] != '.' && hb[2] != '.')
	vrt.Assume(hb[0] < 0x80 && hb[2] < 0x80)
	vrt.Assume(hb[1] == '.')
	host := hb
	if vrt.Choose("port", 2) == 1 {
		host = hb + ":8"
	}
	pathShape := vrt.Choose("path-shape", 3)
	path := ""
	hreq := &bfe_http.Request{Host: host}
	if pathShape >= 1 {
		path = "/" + vrt.Str("p1", 1)
		if pathShape == 2 {
			path = path + "/" + vrt.Str("p2", 1)
		}
		hreq.URL = &url.URL{Path: path}
	}
	req := &bfe_basic.Request{HttpRequest: hreq}
	req.Route.Product = prod

	// --- reference -------------------------------------------------------------------------------
	// the basic table's own answer (its semantics are C11's subject)
	bc, bfound := "", false
	if tree, ok := t.productBasicRouteTree[prod]; ok {
		bc, bfound = tree.Get(stripPortC12(host), path)
	}
	wantOK, want := false, ""
	if bfound && bc != route_rule_conf.AdvancedMode {
		wantOK, want = true, bc
	} else {
		for i := 0; i < n; i++ {
			if !wantOK && conds[i].res {
				wantOK, want = true, names[i]
			}
		}
	}
	for i := 0; i < n; i++ {
		conds[i].calls = 0
	}

	// --- real code -------------------------------------------------------------------------------
	err := t.LookupCluster(req)

	vrt.Assert((err == nil) == wantOK, "C12/found-iff-reference")
	if wantOK && err == nil {
		vrt.Assert(req.Route.ClusterName == want, "C12/cluster-is-reference")
	}
	if !wantOK && err != nil {
		vrt.Assert(req.Route.ClusterName == "", "C12/no-cluster-on-error")
		vrt.Assert(req.Route.Error != nil, "C12/error-recorded")
	}
	vrt.Assert(other.calls == 0, "C12/other-product-rules-untouched")
	vrt.Assert(req.Route.Product == prod, "C12/product-unchanged")
	for i := 0; i < n; i++ {
		if conds[i].calls > 0 {
			vrt.Assert(conds[i].req == req, "C12/cond-sees-this-request")
		}
	}
}

// VerifC12_pathAsIs: the basic table is consulted with the request's (decoded) URL.Path as it is, whatever
// bytes it contains (space, '%', '?', non-ASCII ... — bytes that a URL would carry escaped on the wire).
// Product p has ONE basic rule whose path is "/" + two symbolic bytes (exact rule, or a prefix rule
// "/<b1><b2>/*" requested with one more symbolic element) naming a real cluster, and an always-matching
// advanced rule naming another cluster. As in VerifC12_lookupCluster the basic table's own answer comes from
// an independent BasicRouteRuleTree.Get(host, URL.Path); it must be LookupCluster's answer.
func VerifC12_pathAsIs() {
	rb := vrt.Str("rule-path", 2)
	vrt.Assume(rb[1] != '*') // keeps the rule an exact one / the prefix rule's root free of '*'
	rulePath, path := "/"+rb, "/"+rb
	if vrt.Choose("prefix-rule", 2) == 1 {
		rulePath = rulePath + "/*"
		path = path + "/" + vrt.Str("elem", 1)
	}
	b1 := "b1"
	tree := mkTreeC12([]route_rule_conf.BasicRouteRuleFile{
		{Hostname: []string{"a.x"}, Path: []string{rulePath}, ClusterName: &b1},
	})
	t := newHostTable()
	t.productBasicRouteTree = route_rule_conf.ProductBasicRouteTree{"p": tree}
	adv := &condC12{res: true}
	t.productAdvancedRouteTable = route_rule_conf.ProductAdvancedRouteRule{
		"p": route_rule_conf.AdvancedRouteRules{{Cond: adv, ClusterName: "zz"}},
	}
	req := &bfe_basic.Request{HttpRequest: &bfe_http.Request{Host: "a.x", URL: &url.URL{Path: path}}}
	req.Route.Product = "p"

	bc, bfound := tree.Get("a.x", path)

	err := t.LookupCluster(req)

	vrt.Assert(err == nil, "C12/path-as-is-found")
	if bfound && err == nil {
		vrt.Assert(req.Route.ClusterName == bc, "C12/path-as-is-basic-result")
		vrt.Assert(adv.calls == 0, "C12/path-as-is-advanced-not-consulted")
	}
}
