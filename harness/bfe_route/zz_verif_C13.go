package bfe_route

// C13 — documented configs load, loaded configs are closed, loaders never panic (bfe_route part).
//
// Kernel (all real): LoadServerDataConf = HostRuleConfLoad + VipRuleConfLoad + RouteConfLoad (convert,
// convertBasicRule, convertAdvancedRule, condition.Build) + ClusterTable.Init (ClusterConfLoad,
// BfeClusterConfCheck, BfeCluster.BasicInit) + ServerDataConf.check.
// JSON decoding is outside (reflection): the four files are given as decoded structs through the
// "verif-json:" hook (see zz_verif_C14.go / engine intrinsics_route.go); natively real JSON files are
// written and decoded by the real decoder.

import (
	"encoding/json"
	"os"

	"github.com/bfenetworks/bfe/bfe_config/bfe_cluster_conf/cluster_conf"
	"github.com/bfenetworks/bfe/bfe_config/bfe_route_conf/host_rule_conf"
	"github.com/bfenetworks/bfe/bfe_config/bfe_route_conf/route_rule_conf"
	"github.com/bfenetworks/bfe/bfe_config/bfe_route_conf/vip_rule_conf"
	vrt "github.com/bfenetworks/bfe/zz_vrt"
)

var (
	hookHostC13    *host_rule_conf.HostTableConf
	hookVipC13     *vip_rule_conf.VipTableConf
	hookRouteC13   *route_rule_conf.RouteTableFile
	hookClusterC13 *cluster_conf.BfeClusterConf
)

func VerifC13_decHost(dst interface{}) error {
	*(dst.(*host_rule_conf.HostTableConf)) = *hookHostC13
	return nil
}

func VerifC13_decVip(dst interface{}) error {
	*(dst.(*vip_rule_conf.VipTableConf)) = *hookVipC13
	return nil
}

func VerifC13_decRoute(dst interface{}) error {
	*(dst.(*route_rule_conf.RouteTableFile)) = *hookRouteC13
	return nil
}

// BfeClusterConf.LoadAndCheck decodes into &conf (a **BfeClusterConf): a JSON null makes conf nil.
func VerifC13_decCluster(dst interface{}) error {
	p := dst.(**cluster_conf.BfeClusterConf)
	if hookClusterC13 == nil {
		*p = nil
		return nil
	}
	**p = *hookClusterC13
	return nil
}

func fileC13(hook string, v interface{}) string {
	if vrt.Symbolic() {
		return "verif-json:" + hook
	}
	b, err := json.Marshal(v)
	if err != nil {
		panic(err)
	}
	f, err := os.CreateTemp("", "verifC13-*.json")
	if err != nil {
		panic(err)
	}
	f.Write(b)
	f.Close()
	return f.Name()
}

func sC13(s string) *string { return &s }

var clusterNamesC13 = []string{"c1", "c2", "c3", route_rule_conf.AdvancedMode}
var productNamesC13 = []string{"p1", "p2"}

// VerifC13_serverData: host table {p1 (always), p2 (optional)}, clusters {c1 (always), c2 (optional)},
// route table: for product P (p1 or p2): 0..1 basic rules and 0..2 advanced rules whose clusters are drawn
// from {c1, c2, c3, ADVANCED_MODE}. Oracle: accepted => closed; documented and closed => accepted.
func VerifC13_serverData() {
	ver := "v"
	// host table
	hosts := host_rule_conf.HostTagToHost{"t1": &host_rule_conf.HostnameList{"a.c"}}
	tags := host_rule_conf.ProductToHostTag{"p1": &host_rule_conf.HostTagList{"t1"}}
	haveP2 := vrt.Choose("host-has-p2", 2) == 1
	if haveP2 {
		hosts["t2"] = &host_rule_conf.HostnameList{"b.c"}
		tags["p2"] = &host_rule_conf.HostTagList{"t2"}
	}
	hookHostC13 = &host_rule_conf.HostTableConf{Version: &ver, Hosts: &hosts, HostTags: &tags}
	hookVipC13 = &vip_rule_conf.VipTableConf{Version: ver, Vips: vip_rule_conf.Product2Vip{"p1": {"1.2.3.4"}}}
	// cluster conf
	clusters := cluster_conf.ClusterToConf{"c1": cluster_conf.ClusterConf{}}
	haveC2 := vrt.Choose("cluster-has-c2", 2) == 1
	if haveC2 {
		clusters["c2"] = cluster_conf.ClusterConf{}
	}
	hookClusterC13 = &cluster_conf.BfeClusterConf{Version: &ver, Config: &clusters}
	exists := func(c string) bool { return c == "c1" || c == "c2" && haveC2 }

	// route table of one product
	prod := productNamesC13[vrt.Choose("route-product", 2)]
	closed := prod == "p1" || haveP2
	advancedModeInBasic := false
	route := &route_rule_conf.RouteTableFile{Version: &ver}
	nb := vrt.Range("basic-rules", 0, 1)
	if nb > 0 {
		c := clusterNamesC13[vrt.Choose("basic-cluster", len(clusterNamesC13))]
		if c == route_rule_conf.AdvancedMode {
			advancedModeInBasic = true // documented: continue with the advanced rule table
		} else if !exists(c) {
			closed = false
		}
		route.BasicRule = &route_rule_conf.ProductBasicRouteRuleFile{prod: {
			{Hostname: []string{"a.c"}, Path: []string{"/x*"}, ClusterName: sC13(c)},
		}}
	}
	na := vrt.Range("advanced-rules", 1-nb, 2)
	advancedModeInAdvanced := false
	if na > 0 {
		var rules route_rule_conf.AdvancedRouteRuleFiles
		for i := 0; i < na; i++ {
			c := clusterNamesC13[vrt.Choose("advanced-cluster", len(clusterNamesC13))]
			if c == route_rule_conf.AdvancedMode {
				advancedModeInAdvanced = true // not a documented target of an advanced rule, not a cluster
			}
			if !exists(c) {
				closed = false
			}
			rules = append(rules, route_rule_conf.AdvancedRouteRuleFile{Cond: sC13("default_t()"), ClusterName: sC13(c)})
		}
		route.ProductRule = &route_rule_conf.ProductAdvancedRouteRuleFile{prod: rules}
	}
	hookRouteC13 = route
	_ = advancedModeInAdvanced

	vrt.Known("C13-basic-rule-advanced-mode-rejected", advancedModeInBasic)
	s, err := LoadServerDataConf(fileC13("VerifC13_decHost", hookHostC13), fileC13("VerifC13_decVip", hookVipC13),
		fileC13("VerifC13_decRoute", hookRouteC13), fileC13("VerifC13_decCluster", hookClusterC13))
	if err == nil {
		vrt.Assert(s != nil, "C13/accepted-has-conf")
		vrt.Assert(closed, "C13/accepted-is-closed")
	}
	if closed {
		vrt.Assert(err == nil, "C13/documented-closed-config-accepted")
	}
}

// VerifC13_serverDataBasicList: the closedness check over a LIST of basic rules. Host table {p1}, clusters
// {c1, (c2)}, route table of p1: 2..NB basic rules (distinct paths) whose clusters are drawn, in every order,
// from {c1, c2, c3, ADVANCED_MODE}, plus one advanced rule -> c1. Oracle as in VerifC13_serverData:
// accepted => every basic rule names an existing cluster or ADVANCED_MODE (wherever it stands in the list);
// documented and closed => accepted.
func VerifC13_serverDataBasicList() {
	ver := "v"
	hosts := host_rule_conf.HostTagToHost{"t1": &host_rule_conf.HostnameList{"a.c"}}
	tags := host_rule_conf.ProductToHostTag{"p1": &host_rule_conf.HostTagList{"t1"}}
	hookHostC13 = &host_rule_conf.HostTableConf{Version: &ver, Hosts: &hosts, HostTags: &tags}
	hookVipC13 = &vip_rule_conf.VipTableConf{Version: ver, Vips: vip_rule_conf.Product2Vip{"p1": {"1.2.3.4"}}}
	clusters := cluster_conf.ClusterToConf{"c1": cluster_conf.ClusterConf{}}
	haveC2 := vrt.Choose("cluster-has-c2", 2) == 1
	if haveC2 {
		clusters["c2"] = cluster_conf.ClusterConf{}
	}
	hookClusterC13 = &cluster_conf.BfeClusterConf{Version: &ver, Config: &clusters}

	closed := true
	paths := []string{"/x*", "/y", "/z/*"}
	nb := vrt.Range("basic-rules", 2, vrt.Param("NB", 3))
	var basic route_rule_conf.BasicRouteRuleFiles
	for i := 0; i < nb; i++ {
		c := clusterNamesC13[vrt.Choose("basic-cluster", len(clusterNamesC13))]
		if c != route_rule_conf.AdvancedMode && !(c == "c1" || c == "c2" && haveC2) {
			closed = false
		}
		basic = append(basic, route_rule_conf.BasicRouteRuleFile{Hostname: []string{"a.c"}, Path: []string{paths[i]}, ClusterName: sC13(c)})
	}
	hookRouteC13 = &route_rule_conf.RouteTableFile{Version: &ver,
		BasicRule: &route_rule_conf.ProductBasicRouteRuleFile{"p1": basic},
		ProductRule: &route_rule_conf.ProductAdvancedRouteRuleFile{"p1": {
			{Cond: sC13("default_t()"), ClusterName: sC13("c1")},
		}},
	}

	s, err := LoadServerDataConf(fileC13("VerifC13_decHost", hookHostC13), fileC13("VerifC13_decVip", hookVipC13),
		fileC13("VerifC13_decRoute", hookRouteC13), fileC13("VerifC13_decCluster", hookClusterC13))
	if err == nil {
		vrt.Assert(s != nil, "C13/basic-list-accepted-has-conf")
		vrt.Assert(closed, "C13/basic-list-accepted-is-closed")
	}
	if closed {
		vrt.Assert(err == nil, "C13/basic-list-documented-closed-accepted")
	}
}

func iC13(v int) *int { return &v }

// VerifC13_clusterConf: cluster_conf.data as a decoded struct -> ClusterTable.Init (ClusterConfLoad,
// BfeClusterConfCheck and every *Check below it, BfeCluster.BasicInit). One group of the cluster's config
// is varied over nil / present / documented / undocumented values (ints symbolic), the other groups are
// absent or the documented example. No panic; accepted => the accessors that dereference the config do
// not panic either; documented values => accepted.
func VerifC13_clusterConf() {
	ver := "v"
	top := vrt.Choose("file-shape", 4) // 0: whole file is null, 1: no Version, 2: no Config, 3: complete
	others := vrt.Choose("other-groups", 2) == 1
	cc := cluster_conf.ClusterConf{}
	if others {
		// the documented example (docs/en_us/configuration/server_data_conf/cluster_conf.data.md)
		f := false
		cc.BackendConf = &cluster_conf.BackendBasic{TimeoutConnSrv: iC13(2000), TimeoutResponseHeader: iC13(50000),
			MaxIdleConnsPerHost: iC13(0), MaxConnsPerHost: iC13(0), RetryLevel: iC13(0), OutlierDetectionHttpCode: sC13("5xx|400")}
		cc.CheckConf = &cluster_conf.BackendCheck{Schem: sC13("http"), Uri: sC13("/healthcheck"), Host: sC13("example.org"),
			StatusCode: iC13(200), FailNum: iC13(10), CheckInterval: iC13(1000)}
		cc.GslbBasic = &cluster_conf.GslbBasicConf{CrossRetry: iC13(0), RetryMax: iC13(2),
			HashConf: &cluster_conf.HashConf{HashStrategy: iC13(0), HashHeader: sC13("Cookie:UID"), SessionSticky: &f}}
		cc.ClusterBasic = &cluster_conf.ClusterBasicConf{TimeoutReadClient: iC13(30000), TimeoutWriteClient: iC13(60000),
			TimeoutReadClientAgain: iC13(30000), ReqWriteBufferSize: iC13(512), ReqFlushInterval: iC13(0), ResFlushInterval: iC13(-1),
			CancelOnClientClose: &f}
	}
	documented := true // does the varied group only use documented values?
	switch vrt.Choose("group", 4) {
	case 0: // BackendConf
		b := &cluster_conf.BackendBasic{}
		switch vrt.Choose("protocol", 5) {
		case 1:
			b.Protocol = sC13("http")
		case 2:
			b.Protocol = sC13("fcgi")
		case 3:
			b.Protocol = sC13("FCGI") // accepted by bfe (lower-cased), not required by the documentation
			documented = false
		case 4:
			b.Protocol = sC13("ftp")
			documented = false
		}
		if vrt.Choose("max-conns", 2) == 1 {
			b.MaxConnsPerHost = iC13(vrt.Int("max-conns"))
		}
		if vrt.Choose("fcgi-conf", 2) == 1 {
			b.FCGIConf = &cluster_conf.FCGIConf{}
		}
		cc.BackendConf = b
	case 1: // CheckConf
		c := &cluster_conf.BackendCheck{}
		schem := vrt.Choose("schem", 4)
		switch schem {
		case 1:
			c.Schem = sC13("http")
		case 2:
			c.Schem = sC13("tcp")
		case 3:
			c.Schem = sC13("udp")
			documented = false
		}
		switch vrt.Choose("uri", 3) {
		case 1:
			c.Uri = sC13("/h")
		case 2:
			c.Uri = sC13("h")
			if schem != 2 {
				documented = false
			}
		}
		if vrt.Choose("status", 2) == 1 {
			sc := vrt.Int("status-code")
			c.StatusCode = &sc
			if !(sc >= 100 && sc <= 599 || sc >= 0 && sc <= 31) && schem != 2 {
				documented = false
			}
		}
		if vrt.Choose("succ", 2) == 1 {
			sn := vrt.Int("succ-num")
			c.SuccNum = &sn
			if sn < 1 {
				documented = false
			}
		}
		cc.CheckConf = c
	case 2: // GslbBasic
		g := &cluster_conf.GslbBasicConf{}
		switch vrt.Choose("balance-mode", 4) {
		case 1:
			g.BalanceMode = sC13("WRR")
		case 2:
			g.BalanceMode = sC13("WLC")
		case 3:
			g.BalanceMode = sC13("RANDOM")
			documented = false
		}
		if vrt.Choose("hash-conf", 2) == 1 {
			h := &cluster_conf.HashConf{}
			needHeader := false
			if vrt.Choose("hash-strategy", 2) == 1 {
				hs := vrt.Int("hash-strategy")
				h.HashStrategy = &hs
				if hs < 0 || hs > 3 {
					documented = false
				}
				needHeader = hs == cluster_conf.ClientIdOnly || hs == cluster_conf.ClientIdPreferred
			}
			switch vrt.Choose("hash-header", 5) {
			case 0:
				if needHeader {
					documented = false
				}
			case 1:
				h.HashHeader = sC13("")
				if needHeader {
					documented = false
				}
			case 2:
				h.HashHeader = sC13("X-Id")
			case 3:
				h.HashHeader = sC13("Cookie:UID")
			case 4:
				h.HashHeader = sC13("Cookie: ")
				if needHeader {
					documented = false
				}
			}
			g.HashConf = h
		}
		cc.GslbBasic = g
	case 3: // ClusterBasic
		k := &cluster_conf.ClusterBasicConf{}
		if vrt.Choose("basic-set", 2) == 1 {
			k.TimeoutReadClient = iC13(vrt.Int("basic"))
			k.ResFlushInterval = iC13(vrt.Int("basic"))
		}
		cc.ClusterBasic = k
	}
	clusters := cluster_conf.ClusterToConf{"c1": cc}
	switch top {
	case 0:
		hookClusterC13 = nil
	case 1:
		hookClusterC13 = &cluster_conf.BfeClusterConf{Config: &clusters}
	case 2:
		hookClusterC13 = &cluster_conf.BfeClusterConf{Version: &ver}
	case 3:
		hookClusterC13 = &cluster_conf.BfeClusterConf{Version: &ver, Config: &clusters}
	}

	t := newClusterTable()
	err := t.Init(fileC13("VerifC13_decCluster", hookClusterC13))
	if top != 3 {
		vrt.Assert(err != nil, "C13/cluster-conf-incomplete-file-rejected")
		return
	}
	vrt.Assert(!documented || err == nil, "C13/cluster-conf-documented-accepted")
	if err != nil {
		return
	}
	// accepted: the cluster exists and everything bfe dereferences unconditionally is there
	c, lerr := t.Lookup("c1")
	vrt.Assert(lerr == nil && c != nil, "C13/cluster-conf-accepted-cluster-present")
	_ = c.TimeoutConnSrv()
	_ = *c.BackendConf().TimeoutResponseHeader
	_ = *c.BackendConf().MaxIdleConnsPerHost
	_ = *c.BackendConf().MaxConnsPerHost
	_ = c.BackendConf().FCGIConf.Root
	_ = c.RetryLevel()
	_ = c.OutlierDetectionHttpCode()
	_ = c.ReqFlushInterval()
	g := c.GslbBasic // what bal_gslb.SetGslbBasic / getHashKey dereference
	_, _, _, _ = *g.CrossRetry, *g.RetryMax, *g.HashConf, *g.BalanceMode
	hs := *g.HashConf.HashStrategy
	_ = *g.HashConf.SessionSticky
	if hs == cluster_conf.ClientIdOnly || hs == cluster_conf.ClientIdPreferred {
		_ = *g.HashConf.HashHeader
	}
	k := c.CheckConf // what bfe_balance/backend/health_check.go dereferences
	_, _, _, _, _, _, _ = *k.Schem, *k.Uri, *k.Host, *k.StatusCode, *k.FailNum, *k.SuccNum, *k.CheckInterval
	vrt.Cover("C13/cluster-conf-accepted-derefs-ok")
}

var vipStringsC13 = []struct {
	s     string
	valid bool   // a textual IPv4 / IPv6 address
	canon string // the form bfe looks it up by (net.IP.String of the session VIP)
}{
	{"1.2.3.4", true, "1.2.3.4"}, {"2001:db8::1", true, "2001:db8::1"}, {"2001:DB8:0::1", true, "2001:db8::1"},
	{"", false, ""}, {"1.2.3", false, ""}, {"1.2.3.4.5", false, ""}, {"1.2.3.256", false, ""}, {"host.example", false, ""},
}

// VerifC13_vipConf: vip_rule.data as a decoded struct through VipRuleConfLoad (VipTableConfCheck with the
// real net.ParseIP + conversion): missing version, null / empty lists, valid and malformed addresses.
func VerifC13_vipConf() {
	conf := &vip_rule_conf.VipTableConf{}
	if vrt.Choose("version", 2) == 1 {
		conf.Version = "v"
	}
	shape := vrt.Choose("vips", 4) // 0: no Vips section, 1: p1: null, 2: p1: [], 3: p1: [address]
	k := 0
	switch shape {
	case 1:
		conf.Vips = vip_rule_conf.Product2Vip{"p1": nil}
	case 2:
		conf.Vips = vip_rule_conf.Product2Vip{"p1": vip_rule_conf.VipList{}}
	case 3:
		k = vrt.Choose("address", len(vipStringsC13))
		conf.Vips = vip_rule_conf.Product2Vip{"p1": vip_rule_conf.VipList{vipStringsC13[k].s}}
	}
	hookVipC13 = conf
	got, err := vip_rule_conf.VipRuleConfLoad(fileC13("VerifC13_decVip", conf))
	if conf.Version == "" {
		vrt.Assert(err != nil, "C13/vip-no-version-rejected")
	}
	if conf.Version != "" && (shape != 3 || vipStringsC13[k].valid) {
		vrt.Assert(err == nil, "C13/vip-documented-accepted")
	}
	if err == nil && shape == 3 {
		// accepted => the address is a real address and is found under the form bfe looks it up by
		vrt.Assert(vipStringsC13[k].valid, "C13/vip-accepted-address-valid")
		vrt.Assert(got.VipMap[vipStringsC13[k].canon] == "p1", "C13/vip-accepted-address-resolves")
	}
}
