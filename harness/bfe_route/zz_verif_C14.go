package bfe_route

// C14 — configuration interpretation is deterministic.
//
// Kernel (all real): host_rule_conf.HostRuleConfLoad (HostTableConfCheck + the conversion loops with the
// duplicate-host check), buildHostRoute, trie.Set/Get, HostTable.LookupHostTagAndProduct.
// Map iteration order is a symbolic permutation (vrt.MapOrder): the same decoded host table is loaded
// and built twice, once in insertion order (reference) and once in every possible order, and every lookup
// must agree, unless the loader rejects the configuration (in both runs).
//
// The file layer: HostRuleConfLoad opens and JSON-decodes the file itself. Symbolically the file name
// "verif-json:VerifC14_decodeHost" makes the engine call VerifC14_decodeHost instead of the reflection
// based decoder (it copies the struct the harness built); natively the struct is written as a real JSON
// file and decoded by the real decoder.

import (
	"encoding/json"
	"os"

	"github.com/bfenetworks/bfe/bfe_basic"
	"github.com/bfenetworks/bfe/bfe_config/bfe_route_conf/host_rule_conf"
	"github.com/bfenetworks/bfe/bfe_config/bfe_route_conf/vip_rule_conf"
	"github.com/bfenetworks/bfe/bfe_http"
	vrt "github.com/bfenetworks/bfe/zz_vrt"
)

var hookConfC14 *host_rule_conf.HostTableConf

// VerifC14_decodeHost is the decode hook (see above): *dst = copy of the harness's struct.
func VerifC14_decodeHost(dst interface{}) error {
	c := dst.(*host_rule_conf.HostTableConf)
	*c = *hookConfC14
	return nil
}

func hostFileC14(conf *host_rule_conf.HostTableConf) string {
	if vrt.Symbolic() {
		hookConfC14 = conf
		return "verif-json:VerifC14_decodeHost"
	}
	b, err := json.Marshal(conf)
	if err != nil {
		panic(err)
	}
	f, err := os.CreateTemp("", "verifC14-*.json")
	if err != nil {
		panic(err)
	}
	f.Write(b)
	f.Close()
	return f.Name()
}

// host names of the configuration universe
var namesC14 = []string{"a.c", "A.c", "a.c.", "b.c", "*.c", "*.C"}

func lowerStrC14(s string) string {
	b := []byte(s)
	for i := range b {
		if b[i] >= 'A' && b[i] <= 'Z' {
			b[i] += 32
		}
	}
	return string(b)
}

func stripDotC14(s string) string {
	if len(s) > 0 && s[len(s)-1] == '.' {
		return s[:len(s)-1]
	}
	return s
}

func strsC14(s ...string) *host_rule_conf.HostnameList {
	l := host_rule_conf.HostnameList(s)
	return &l
}

func tagsC14(s ...string) *host_rule_conf.HostTagList {
	l := host_rule_conf.HostTagList(s)
	return &l
}

// pairC14 picks an unordered pair of universe names: a fixed list of 7 representative pairs (same name,
// case variants, trailing-dot variants, wildcard case variants, unrelated names, exact + wildcard), or
// every pair when the tier sets ALLPAIRS=1.
var pairsC14 = [][2]int{{0, 0}, {0, 1}, {0, 2}, {1, 2}, {4, 5}, {0, 3}, {0, 4}}

func pairC14() (string, string) {
	if vrt.Param("ALLPAIRS", 0) == 1 {
		i := vrt.Choose("name-x", len(namesC14))
		j := i + vrt.Choose("name-y", len(namesC14)-i)
		return namesC14[i], namesC14[j]
	}
	p := pairsC14[vrt.Choose("name-pair", len(pairsC14))]
	return namesC14[p[0]], namesC14[p[1]]
}

func mkReqC14(host string) *bfe_basic.Request {
	return &bfe_basic.Request{HttpRequest: &bfe_http.Request{Host: host}, Session: &bfe_basic.Session{}}
}

func VerifC14_hostTable() {
	hostTableC14(vrt.Choose("shape", 4), pairC14, false)
}

// names that carry a ":port". The request side ignores the port ("port ... ignored", C10), so the name the
// configuration side compares must not make two entries of different products meet under one lookup key.
var portPairsC14 = [][2]string{{"a.c", "a.c:8"}, {"a.c:8", "a.c:9"}, {"A.c:8", "a.c"}, {"*.c", "*.c:8"}}

func portPairC14() (string, string) {
	p := portPairsC14[vrt.Choose("port-name-pair", len(portPairsC14))]
	return p[0], p[1]
}

// VerifC14_hostTablePort: shapes 0 (two products, trie built in every order) and 3 (one product, loader loops
// in every order) of VerifC14_hostTable with pairs of configured names of which at least one carries a
// ":port"; the request host is "<l0>.<l1>" with optional trailing dot and optional ":8".
func VerifC14_hostTablePort() {
	hostTableC14([]int{0, 3}[vrt.Choose("shape", 2)], portPairC14, true)
}

func hostTableC14(shape int, pairC14 func() (string, string), reqPort bool) {
	ver := "v"
	conf := &host_rule_conf.HostTableConf{Version: &ver}
	x, y := "a.c", "a.c"
	phase := 1 // 0: map order is nondeterministic while loading; 1: while building the lookup trie
	switch shape {
	case 0:
		// two names (every unordered pair of the universe) under two tags of two products; the loader's
		// own loops run in insertion order (its 7 nested map loops would give 2^14 order pairs), the
		// trie is built in every order
		x, y = pairC14()
		conf.Hosts = &host_rule_conf.HostTagToHost{"t1": strsC14(x), "t2": strsC14(y)}
		conf.HostTags = &host_rule_conf.ProductToHostTag{"p1": tagsC14("t1"), "p2": tagsC14("t2")}
	case 1:
		// one tag listed under two products; every order of the loader's loops
		phase = 0
		conf.Hosts = &host_rule_conf.HostTagToHost{"t1": strsC14(x)}
		conf.HostTags = &host_rule_conf.ProductToHostTag{"p1": tagsC14("t1"), "p2": tagsC14("t1")}
	case 2:
		// two tags (one of them the empty string) of one product, same or different host name; every
		// order of the loader's loops
		phase = 0
		if vrt.Choose("same-name", 2) == 0 {
			y = "b.c"
		}
		conf.Hosts = &host_rule_conf.HostTagToHost{"": strsC14(x), "t2": strsC14(y)}
		conf.HostTags = &host_rule_conf.ProductToHostTag{"p1": tagsC14("", "t2")}
	case 3:
		// two names under two tags of ONE product (only the Hosts map has two entries, so every order of
		// the loader's loops is affordable): decides the duplicate-host check itself; the observable
		// difference is the host tag (an input of the req_host_tag_in routing condition)
		phase = 0
		x, y = pairC14()
		conf.Hosts = &host_rule_conf.HostTagToHost{"t1": strsC14(x), "t2": strsC14(y)}
		conf.HostTags = &host_rule_conf.ProductToHostTag{"p1": tagsC14("t1", "t2")}
	}
	nx, ny := lowerStrC14(x), lowerStrC14(y)
	vrt.Known("C14-host-names-differ-only-in-case", (shape == 0 || shape == 3) && x != y && nx == ny)
	vrt.Known("C14-host-names-differ-only-in-trailing-dot", (shape == 0 || shape == 3) && nx != ny && stripDotC14(nx) == stripDotC14(ny))
	vrt.Known("C14-host-tag-under-two-products", shape == 1)
	vrt.Known("C14-empty-host-tag-hides-duplicate-host", shape == 2 && x == y)

	file := hostFileC14(conf)
	// run 1 is the reference (maps iterate in insertion order); run 2 explores every order. "Every order
	// agrees with the reference" is the same statement as "any two orders agree" (all comparisons below
	// are equalities) and needs k instead of k*k paths.
	c1, e1 := host_rule_conf.HostRuleConfLoad(file)
	vrt.MapOrder(phase == 0)
	c2, e2 := host_rule_conf.HostRuleConfLoad(file)
	vrt.MapOrder(false)
	vrt.Assert((e1 == nil) == (e2 == nil), "C14/accept-or-reject-independent-of-map-order")
	if e1 != nil || e2 != nil {
		vrt.Cover("C14/rejected")
		return
	}
	t1, t2 := newHostTable(), newHostTable()
	t1.updateHostTable(c1)
	vrt.MapOrder(phase == 1)
	t2.updateHostTable(c2)
	vrt.MapOrder(false)

	// request host "<l0>.<l1>" with optional trailing dot
	n0 := vrt.Range("label-len", 1, vrt.Param("LL", 1))
	l0 := vrt.Str("label", n0)
	l1 := vrt.Str("label", 1)
	for j := 0; j < n0; j++ {
		vrt.Assume(l0[j] != '.' && l0[j] != ':' && l0[j] < 0x80)
	}
	vrt.Assume(l1[0] != '.' && l1[0] != ':' && l1[0] < 0x80)
	host := l0 + "." + l1
	if vrt.Choose("trailing-dot", 2) == 1 {
		host += "."
	}
	if reqPort && vrt.Choose("request-port", 2) == 1 {
		host += ":8"
	}
	r1, r2 := mkReqC14(host), mkReqC14(host)
	err1 := t1.LookupHostTagAndProduct(r1)
	err2 := t2.LookupHostTagAndProduct(r2)
	vrt.Assert((err1 == nil) == (err2 == nil), "C14/same-lookup-outcome")
	vrt.Assert(r1.Route.Product == r2.Route.Product, "C14/same-product")
	vrt.Assert(r1.Route.HostTag == r2.Route.HostTag, "C14/same-host-tag")
}

// ---- VIP table ----

var hookVipC14 *vip_rule_conf.VipTableConf

func VerifC14_decVip(dst interface{}) error {
	*(dst.(*vip_rule_conf.VipTableConf)) = *hookVipC14
	return nil
}

var vipsC14 = []struct{ s, canon string }{
	{"1.2.3.4", "1.2.3.4"}, {"::ffff:1.2.3.4", "1.2.3.4"}, {"2001:db8::1", "2001:db8::1"}, {"2001:DB8:0::1", "2001:db8::1"}, {"5.6.7.8", "5.6.7.8"},
}

// VerifC14_vipTable: vip_rule.data {p1:[x], p2:[y]} loaded twice (insertion order / every order):
// acceptance and the product found for each of the two addresses must agree.
func VerifC14_vipTable() {
	i := vrt.Choose("vip-x", len(vipsC14))
	j := i + vrt.Choose("vip-y", len(vipsC14)-i)
	x, y := vipsC14[i], vipsC14[j]
	conf := &vip_rule_conf.VipTableConf{Version: "v", Vips: vip_rule_conf.Product2Vip{"p1": {x.s}, "p2": {y.s}}}
	vrt.Known("C14-vip-under-two-products", x.canon == y.canon)
	var file string
	if vrt.Symbolic() {
		hookVipC14 = conf
		file = "verif-json:VerifC14_decVip"
	} else {
		b, _ := json.Marshal(conf)
		f, _ := os.CreateTemp("", "verifC14-*.json")
		f.Write(b)
		f.Close()
		file = f.Name()
	}
	c1, e1 := vip_rule_conf.VipRuleConfLoad(file)
	conf.Vips = vip_rule_conf.Product2Vip{"p1": {x.s}, "p2": {y.s}} // VipTableConfCheck rewrites the lists in place
	vrt.MapOrder(true)
	c2, e2 := vip_rule_conf.VipRuleConfLoad(file)
	vrt.MapOrder(false)
	vrt.Assert((e1 == nil) == (e2 == nil), "C14/vip-accept-or-reject-independent-of-map-order")
	if e1 != nil || e2 != nil {
		return
	}
	t1, t2 := newHostTable(), newHostTable()
	t1.updateVipTable(c1)
	t2.updateVipTable(c2)
	for _, v := range []string{x.canon, y.canon} {
		p1, err1 := t1.LookupProductByVip(v)
		p2, err2 := t2.LookupProductByVip(v)
		vrt.Assert((err1 == nil) == (err2 == nil) && p1 == p2, "C14/vip-same-product")
	}
}
