package mod_doh

// C56 — DoH forwards the client's query with a correct client-subnet option.
// Kernel: RequestToDnsMsg, requestToMsgPost (length limit), requestToMsgGet, setClientSubnet.
// The DNS message itself is a fixed, valid query (miekg/dns' unpacker runs from its real SSA on
// concrete bytes); what is symbolic is the client address (RemoteAddr / ClientAddr, 4- or 16-byte
// net.IP, all byte values) and the amount of data following the message in a POST body.

import (
	"bytes"
	"encoding/base64"
	"io"
	"io/ioutil"
	"net"
	"net/url"

	"github.com/miekg/dns"

	"github.com/bfenetworks/bfe/bfe_basic"
	"github.com/bfenetworks/bfe/bfe_http"
	vrt "github.com/bfenetworks/bfe/zz_vrt"
)

// queryC56: id 0xE941, RD|CD, one question "example.org." A IN (29 bytes), as packed by miekg/dns.
var queryC56 = []byte{
	0xe9, 0x41, 0x01, 0x10, 0x00, 0x01, 0x00, 0x00, 0x00, 0x00, 0x00, 0x00,
	7, 'e', 'x', 'a', 'm', 'p', 'l', 'e', 3, 'o', 'r', 'g', 0,
	0x00, 0x01, 0x00, 0x01,
}

func ipC56() net.IP {
	n := 4
	if vrt.Choose("ipLen", 2) == 1 {
		n = 16
	}
	return net.IP(vrt.Bytes("ip", n))
}

// refIsV4C56: an address is IPv4 iff it is 4 bytes or a 16-byte v4-mapped address (::ffff:a.b.c.d)
// — the meaning of net.IP.To4, written out.
func refIsV4C56(ip net.IP) bool {
	if len(ip) == 4 {
		return true
	}
	if len(ip) != 16 {
		return false
	}
	ok := true
	for i := 0; i < 10; i++ {
		if ip[i] != 0 {
			ok = false
		}
	}
	return ok && ip[10] == 0xff && ip[11] == 0xff
}

func sameAddrC56(a, b net.IP) bool {
	a16, b16 := a.To16(), b.To16()
	return a16 != nil && b16 != nil && bytes.Equal(a16, b16)
}

func checkSubnetC56(msg *dns.Msg, cip net.IP, extraBefore int) {
	vrt.Assert(len(msg.Extra) == extraBefore+1, "C56/one-opt-record-added")
	opt, ok := msg.Extra[len(msg.Extra)-1].(*dns.OPT)
	vrt.Assert(ok && opt != nil && len(opt.Option) == 1, "C56/opt-has-one-option")
	sub, ok := opt.Option[0].(*dns.EDNS0_SUBNET)
	vrt.Assert(ok && sub != nil, "C56/option-is-client-subnet")
	vrt.Assert(sub.Code == dns.EDNS0SUBNET, "C56/option-code")
	v4 := refIsV4C56(cip)
	vrt.Known("C56-ipv4-client-gets-family-2", v4)
	if v4 {
		vrt.Assert(sub.Family == 1, "C56/subnet-family-matches-client")
		vrt.Assert(sub.SourceNetmask == 32, "C56/subnet-prefix-matches-client")
	} else {
		vrt.Assert(sub.Family == 2, "C56/subnet-family-matches-client")
		vrt.Assert(sub.SourceNetmask == 128, "C56/subnet-prefix-matches-client")
	}
	vrt.Assert(sameAddrC56(sub.Address, cip), "C56/subnet-address-is-client")
	vrt.Assert(sub.SourceScope == 0, "C56/scope-zero-in-query")
}

// VerifC56_subnet: setClientSubnet alone, every 4/16-byte address, ClientAddr present or absent.
func VerifC56_subnet() {
	req := new(bfe_basic.Request)
	req.RemoteAddr = &net.TCPAddr{IP: ipC56(), Port: 1234}
	cip := req.RemoteAddr.IP
	if vrt.Choose("clientAddr", 2) == 1 {
		req.ClientAddr = &net.TCPAddr{IP: ipC56(), Port: 99}
		cip = req.ClientAddr.IP
	}
	msg := new(dns.Msg)
	setClientSubnet(req, msg)
	checkSubnetC56(msg, cip, 0)
}

func checkQueryC56(msg *dns.Msg) {
	vrt.Assert(msg.Id == 0xe941 && msg.RecursionDesired && msg.CheckingDisabled && !msg.Response, "C56/message-header-preserved")
	vrt.Assert(len(msg.Question) == 1 && msg.Question[0].Name == "example.org." &&
		msg.Question[0].Qtype == dns.TypeA && msg.Question[0].Qclass == dns.ClassINET, "C56/question-preserved")
	vrt.Assert(len(msg.Answer) == 0 && len(msg.Ns) == 0, "C56/no-sections-invented")
}

// VerifC56_post: POST bodies = the valid query followed by 0..PAD further bytes, limit lowered to
// len(query)+LIM. A body longer than the limit must be rejected (never cut and forwarded).
func VerifC56_post() {
	lim := vrt.Param("LIM", 2)
	pad := vrt.Range("pad", 0, vrt.Param("PAD", 4))
	saved := maxPostMsgLength
	maxPostMsgLength = int64(len(queryC56) + lim)
	body := append(append([]byte{}, queryC56...), make([]byte, pad)...)
	hreq := &bfe_http.Request{Method: "POST", Header: bfe_http.Header{}, Body: ioutil.NopCloser(bytes.NewReader(body))}
	req := &bfe_basic.Request{HttpRequest: hreq}
	req.RemoteAddr = &net.TCPAddr{IP: ipC56(), Port: 1234}
	vrt.Known("C56-oversized-post-truncated", int64(len(body)) > maxPostMsgLength)
	msg, err := RequestToDnsMsg(req)
	over := int64(len(body)) > maxPostMsgLength
	maxPostMsgLength = saved
	if over {
		vrt.Assert(err != nil, "C56/oversized-post-rejected")
		return
	}
	vrt.Assert(err == nil && msg != nil, "C56/valid-post-accepted")
	checkQueryC56(msg)
	checkSubnetC56(msg, req.RemoteAddr.IP, 0)
}

// VerifC56_get: GET ?dns=<base64url(query)>, plus the malformed variants (missing / repeated /
// badly encoded parameter, other methods) which must be rejected.
func VerifC56_get() {
	enc := base64.RawURLEncoding.EncodeToString(queryC56)
	kind := vrt.Choose("kind", 6)
	method, rawq := "GET", "dns="+enc
	switch kind {
	case 1:
		rawq = "x=1"
	case 2:
		rawq = "dns=" + enc + "&dns=" + enc
	case 3:
		rawq = "dns=" + enc + "="
	case 4:
		rawq = "dns=" + enc[:len(enc)-1] + "!"
	case 5:
		method = "PUT"
	}
	hreq := &bfe_http.Request{Method: method, Header: bfe_http.Header{}, URL: &url.URL{Path: "/dns-query", RawQuery: rawq}}
	req := &bfe_basic.Request{HttpRequest: hreq}
	req.RemoteAddr = &net.TCPAddr{IP: ipC56(), Port: 1234}
	msg, err := RequestToDnsMsg(req)
	if kind != 0 {
		vrt.Assert(err != nil && msg == nil, "C56/malformed-get-rejected")
		return
	}
	vrt.Assert(err == nil && msg != nil, "C56/valid-get-accepted")
	checkQueryC56(msg)
	checkSubnetC56(msg, req.RemoteAddr.IP, 0)
}

// ---------------------------------------------------------------- focused checks (seeded-change review)

// segReaderC56 delivers a body in pieces of at most seg bytes (TCP segments / TLS records / chunks).
type segReaderC56 struct {
	data []byte
	pos  int
	seg  int
}

func (r *segReaderC56) Read(p []byte) (int, error) {
	if r.pos >= len(r.data) {
		return 0, io.EOF
	}
	n := len(r.data) - r.pos
	if n > r.seg {
		n = r.seg
	}
	if n > len(p) {
		n = len(p)
	}
	copy(p, r.data[r.pos:r.pos+n])
	r.pos += n
	return n, nil
}
func (r *segReaderC56) Close() error { return nil }

// VerifC56_postFraming: how the POST body reaches the unpacker.
//
//	part 0, segmented bodies: the valid query arrives in pieces of 1, 12 (= the DNS header), 20, 28 or
//	  29 bytes, with Content-Length known (29) or unknown (-1, chunked): it is forwarded complete.
//	part 1, oversized bodies whose first maxPostMsgLength bytes are not a message of their own (limit
//	  lowered to 5, inside the DNS header, or 26, inside the question's type field; a cut inside the
//	  name ends in miekg/dns' ErrBuf, a package-level value the engine does not initialise, and a cut
//	  at 27/28 is accepted by miekg/dns as a message with a short question): rejected, whether the length is declared
//	  (Content-Length 29), unknown (-1, chunked) or unset (0). (Oversized bodies whose prefix happens
//	  to be a complete message are the known class C56-oversized-post-truncated, see VerifC56_post.)
func VerifC56_postFraming() {
	part := vrt.Choose("part", 2)
	seg := []int{1, 12, 20, 28, 29}[vrt.Choose("segment", 5)]
	cl := int64(-1)
	switch vrt.Choose("contentLength", 3) {
	case 1:
		cl = int64(len(queryC56))
	case 2:
		cl = 0 // not set by the caller (body present)
	}
	saved := maxPostMsgLength
	if part == 1 {
		maxPostMsgLength = int64([]int{5, 26}[vrt.Choose("limit", 2)])
	}
	hreq := &bfe_http.Request{Method: "POST", Header: bfe_http.Header{}, ContentLength: cl,
		Body: &segReaderC56{data: append([]byte{}, queryC56...), seg: seg}}
	if cl < 0 {
		hreq.TransferEncoding = []string{"chunked"}
	}
	req := &bfe_basic.Request{HttpRequest: hreq}
	req.RemoteAddr = &net.TCPAddr{IP: net.IP{10, 0, 0, 7}, Port: 1234}
	msg, err := RequestToDnsMsg(req)
	maxPostMsgLength = saved
	if part == 1 {
		vrt.Assert(err != nil && msg == nil, "C56/oversized-post-never-forwarded")
		return
	}
	vrt.Assert(err == nil && msg != nil, "C56/segmented-post-accepted")
	if err != nil || msg == nil {
		return
	}
	checkQueryC56(msg)
	checkSubnetC56(msg, req.RemoteAddr.IP, 0)
}
