package mod_trust_clientip

// C29 part 3 — the trust decision: acceptHandler marks the session trusted iff the peer address lies in
// one of the configured ranges (ipItemsMake + ipdict.IPTable.Search; exactness of the table itself for
// larger tables is C19).

import (
	"encoding/json"
	"net"
	"net/url"
	"os"

	"github.com/baidu/go-lib/web-monitor/metrics"
	"github.com/bfenetworks/bfe/bfe_basic"
	"github.com/bfenetworks/bfe/bfe_util/ipdict"
	vrt "github.com/bfenetworks/bfe/zz_vrt"
)

// VerifC29_trustDecision: <= R ranges 10.0.0.b .. 10.0.0.e (b <= e symbolic), peer 10.0.0.p (p symbolic),
// given as a 4-byte or a 16-byte net.IP.
func VerifC29_trustDecision() {
	nr := vrt.Range("ranges", 0, vrt.Param("R", 2))
	list := AddrScopeList{}
	lo := make([]byte, nr)
	hi := make([]byte, nr)
	for i := 0; i < nr; i++ {
		lo[i], hi[i] = vrt.Byte("begin"), vrt.Byte("end")
		vrt.Assume(lo[i] <= hi[i])
		list = append(list, AddrScope{Begin: net.IPv4(10, 0, 0, lo[i]), End: net.IPv4(10, 0, 0, hi[i])})
	}
	conf := TrustIPConf{Version: "v", Config: SrcScopeMap{"idc": &list}}
	items, err := ipItemsMake(conf)
	vrt.Assert(err == nil, "C29/trust-table-builds")
	if err != nil {
		return
	}
	m := &ModuleTrustClientIP{name: ModTrustClientIP, trustTable: ipdict.NewIPTable()}
	m.state.ConnTotal = new(metrics.Counter)
	m.state.ConnTrustClientip = new(metrics.Counter)
	m.state.ConnAddrInternal = new(metrics.Counter)
	m.state.ConnAddrInternalNotTrust = new(metrics.Counter)
	m.trustTable.Update(items)

	p := vrt.Byte("peer")
	third := byte(0)
	if vrt.Bool("otherNet") {
		third = 1 // 10.0.1.p: outside every configured range
	}
	ip := net.IPv4(10, 0, third, p)
	if vrt.Bool("v4form") {
		ip = ip.To4()
	}
	sess := &bfe_basic.Session{RemoteAddr: &net.TCPAddr{IP: ip, Port: 4000}}
	m.acceptHandler(sess)

	in := false
	for i := 0; i < nr; i++ {
		if third == 0 && lo[i] <= p && p <= hi[i] {
			in = true
		}
	}
	vrt.Assert(sess.TrustSource() == in, "C29/trusted-iff-in-table")
}

// ---------------------------------------------------------------------------------------------------
// Focused harness (added after the seeded-change review, see notes/C29.md): the table that decides is
// the one the operator loaded last. loadConfData = TrustIPConfLoad (file + JSON decoding: outside, the
// engine's "verif-json:" hook hands over the struct built here; the native replay writes a real file)
// + TrustIPConfCheck + conversion + ipItemsMake + IPTable.Update.

var hookC29 *TrustIPConfFile

func VerifC29_decTrust(dst interface{}) error {
	*(dst.(*TrustIPConfFile)) = *hookC29
	return nil
}

func fileC29(v *TrustIPConfFile) string {
	hookC29 = v
	if vrt.Symbolic() {
		return "verif-json:VerifC29_decTrust"
	}
	b, err := json.Marshal(v)
	if err != nil {
		panic(err)
	}
	f, err := os.CreateTemp("", "verifC29-*.json")
	if err != nil {
		panic(err)
	}
	f.Write(b)
	f.Close()
	return f.Name()
}

// tablesC29: [begin, end] of the single range 10.0.0.begin .. 10.0.0.end; the last entry does not parse.
var tablesC29 = []struct {
	begin, end string
	lo, hi     int
}{
	{"10.0.0.1", "10.0.0.9", 1, 9},
	{"10.0.0.20", "10.0.0.20", 20, 20},
	{"10.0.0.5", "10.0.0.30", 5, 30},
	{"10.0.0.x", "10.0.0.9", -1, -1},
}

// VerifC29_reload: 1..2 (re)loads, each of one of the tables above under version "v1" or "v2" (so a
// reload may carry new content under an unchanged version string, or fail), then a connection from
// 10.0.0.p with symbolic p: trusted iff p lies in the table of the last load that succeeded.
func VerifC29_reload() {
	m := &ModuleTrustClientIP{name: ModTrustClientIP, trustTable: ipdict.NewIPTable()}
	m.state.ConnTotal = new(metrics.Counter)
	m.state.ConnTrustClientip = new(metrics.Counter)
	m.state.ConnAddrInternal = new(metrics.Counter)
	m.state.ConnAddrInternalNotTrust = new(metrics.Counter)

	lo, hi := -1, -1 // nothing loaded: nobody is trusted
	nt := vrt.Param("T", 4)
	for i, n := 0, vrt.Range("loads", 1, 2); i < n; i++ {
		t := tablesC29[vrt.Choose("table", nt)]
		version := []string{"v1", "v2"}[vrt.Choose("version", 2)]
		begin, end := t.begin, t.end
		list := AddrScopeFileList{{Begin: &begin, End: &end}}
		cfg := SrcScopeMapFile{"idc": &list}
		path := fileC29(&TrustIPConfFile{Version: &version, Config: &cfg})
		err := m.loadConfData(url.Values{"path": {path}})
		if !vrt.Symbolic() {
			os.Remove(path)
		}
		if t.lo < 0 {
			vrt.Assert(err != nil, "C29/bad-table-refused")
		} else {
			vrt.Assert(err == nil, "C29/reload-succeeds")
			lo, hi = t.lo, t.hi
		}
	}
	p := vrt.Byte("peer")
	sess := &bfe_basic.Session{RemoteAddr: &net.TCPAddr{IP: net.IPv4(10, 0, 0, p).To4(), Port: 4000}}
	m.acceptHandler(sess)
	in := lo >= 0 && lo <= int(p) && int(p) <= hi
	vrt.Assert(sess.TrustSource() == in, "C29/trusted-iff-in-last-loaded-table")
}
