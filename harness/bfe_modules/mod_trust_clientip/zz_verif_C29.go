package mod_trust_clientip

// C29 part 3 — the trust decision: acceptHandler marks the session trusted iff the peer address lies in
// one of the configured ranges (ipItemsMake + ipdict.IPTable.Search; exactness of the table itself for
// larger tables is C19).

import (
	"net"

	"github.com/baidu/go-lib/web-monitor/metrics"
	"github.com/bfenetworks/bfe/bfe_basic"
	"github.com/bfenetworks/bfe/bfe_util/ipdict"
	vrt "github.com/bfenetworks/bfe/zz_vrt"
)

// VerifC29_trustDecision: <= R ranges 10.0.0.b .. 10.0.0.e (b <= e symbolic), peer 10.0.0.p (p symbolic),
// given as a 4-byte or a 16-byte net.IP.
func VerifC29_trustDecision() {
	nr := vrt.Range("ranges", 0, vrt.Param("R", 2))
	list := AddrScopeList{}
	lo := make([]byte, nr)
	hi := make([]byte, nr)
	for i := 0; i < nr; i++ {
		lo[i], hi[i] = vrt.Byte("begin"), vrt.Byte("end")
		vrt.Assume(lo[i] <= hi[i])
		list = append(list, AddrScope{Begin: net.IPv4(10, 0, 0, lo[i]), End: net.IPv4(10, 0, 0, hi[i])})
	}
	conf := TrustIPConf{Version: "v", Config: SrcScopeMap{"idc": &list}}
	items, err := ipItemsMake(conf)
	vrt.Assert(err == nil, "C29/trust-table-builds")
	if err != nil {
		return
	}
	m := &ModuleTrustClientIP{name: ModTrustClientIP, trustTable: ipdict.NewIPTable()}
	m.state.ConnTotal = new(metrics.Counter)
	m.state.ConnTrustClientip = new(metrics.Counter)
	m.state.ConnAddrInternal = new(metrics.Counter)
	m.state.ConnAddrInternalNotTrust = new(metrics.Counter)
	m.trustTable.Update(items)

	p := vrt.Byte("peer")
	third := byte(0)
	if vrt.Bool("otherNet") {
		third = 1 // 10.0.1.p: outside every configured range
	}
	ip := net.IPv4(10, 0, third, p)
	if vrt.Bool("v4form") {
		ip = ip.To4()
	}
	sess := &bfe_basic.Session{RemoteAddr: &net.TCPAddr{IP: ip, Port: 4000}}
	m.acceptHandler(sess)

	in := false
	for i := 0; i < nr; i++ {
		if third == 0 && lo[i] <= p && p <= hi[i] {
			in = true
		}
	}
	vrt.Assert(sess.TrustSource() == in, "C29/trusted-iff-in-table")
}
