package mod_redirect

// C49 — redirect actions have their documented effect (bfe_modules/mod_redirect, the command set of
// docs/en_us/modules/mod_redirect/mod_redirect.md):
//   URL_SET         redirect location = the parameter
//   URL_FROM_QUERY  redirect location = value of the named query parameter
//   URL_PREFIX_ADD  redirect location = prefix + original uri (path and query as the client sent them)
//   SCHEME_SET      redirect location = scheme://host + original uri
// Kernel: ActionFileCheck, redirectActionsDo, ReqUrlSet / ReqUrlFromQuery / ReqUrlPrefixAdd / ReqSchemeSet
// with net/url.ParseRequestURI / URL.RequestURI / URL.Query executed from their real SSA.

import (
	"net/url"

	"github.com/bfenetworks/bfe/bfe_basic"
	"github.com/bfenetworks/bfe/bfe_http"
	vrt "github.com/bfenetworks/bfe/zz_vrt"
)

func isHexC49(c byte) bool {
	return (c >= '0' && c <= '9') || (c >= 'A' && c <= 'F') || (c >= 'a' && c <= 'f')
}

// targetC49 builds an origin-form request target: "/" + ("" | "dl/") + (one percent escape %XY with
// symbolic hex digits — so %20, %2F, %3F, %25, %41, %E4 ... all occur — | "d") + ("" | "/x"), optionally
// followed by a query.
func targetC49() string {
	t := "/"
	if vrt.Choose("dir", 2) == 1 {
		t += "dl/"
	}
	if vrt.Choose("escape", 2) == 1 {
		h := vrt.Bytes("hex", 2)
		vrt.Assume(isHexC49(h[0]) && isHexC49(h[1]))
		t += "%" + string(h)
	} else {
		t += "d"
	}
	if vrt.Choose("tail", 2) == 1 {
		t += "/x"
	}
	switch vrt.Choose("query", 3) {
	case 1:
		t += "?"
	case 2:
		t += "?k=%2F&u=v+w"
	}
	return t
}

// VerifC49_redirect: the four documented redirect commands through ActionFileCheck and
// redirectActionsDo on requests parsed from symbolic request targets.
func VerifC49_redirect() {
	i := vrt.Choose("cmd", 4)
	target := "/d?k=%2F&u=v+w"
	if i < 2 {
		target = targetC49()
	} else if vrt.Choose("noQuery", 2) == 1 {
		target = "/a%20b"
	}
	u, err := url.ParseRequestURI(target)
	vrt.Assert(err == nil && u != nil, "C49/redirect-target-parses")
	if err != nil {
		return
	}
	hr := &bfe_http.Request{Method: "GET", Header: bfe_http.Header{}, Host: "n.example.org", URL: u, RequestURI: target}
	req := &bfe_basic.Request{HttpRequest: hr}
	cmds := []string{"URL_PREFIX_ADD", "SCHEME_SET", "URL_SET", "URL_FROM_QUERY"}
	params := []string{"http://n1.example.com/redirect", "HTTPS", "https://x.example/y?z=%20", "u"}
	cmd := cmds[i]
	af := ActionFile{Cmd: &cmd, Params: []string{params[i]}}
	vrt.Assert(ActionFileCheck(af) == nil, "C49/redirect-action-accepted")
	redirectActionsDo(req, actionsConvert(ActionFileList{af}))
	got := req.Redirect.Url
	switch i {
	case 0:
		vrt.Assert(got == "http://n1.example.com/redirect"+target, "C49/redirect-url-prefix-add")
	case 1:
		vrt.Assert(got == "https://n.example.org"+target, "C49/redirect-scheme-set")
	case 2:
		vrt.Assert(got == "https://x.example/y?z=%20", "C49/redirect-url-set")
	case 3:
		want := ""
		if len(target) > 12 && target[len(target)-12:] == "?k=%2F&u=v+w" {
			want = "v w"
		}
		vrt.Assert(got == want, "C49/redirect-url-from-query")
	}
}
