package mod_header

// C29 part 2 — the default headers mod_header sends upstream (setDefaultHeader, modHeaderForwardedAddr,
// setHeaderRealAddr) for a request from an untrusted peer, i.e. with ClientAddr == RemoteAddr as
// setClientAddr leaves it (part 1).

import (
	"net"
	"strconv"
	"time"

	"github.com/bfenetworks/bfe/bfe_basic"
	"github.com/bfenetworks/bfe/bfe_http"
	vrt "github.com/bfenetworks/bfe/zz_vrt"
)

// fakeConnC29 is the client connection: only LocalAddr is consulted (X-Bfe-Ip).
type fakeConnC29 struct{ local, remote *net.TCPAddr }

func (c *fakeConnC29) Read(b []byte) (int, error)         { return 0, nil }
func (c *fakeConnC29) Write(b []byte) (int, error)        { return len(b), nil }
func (c *fakeConnC29) Close() error                       { return nil }
func (c *fakeConnC29) LocalAddr() net.Addr                { return c.local }
func (c *fakeConnC29) RemoteAddr() net.Addr               { return c.remote }
func (c *fakeConnC29) SetDeadline(t time.Time) error      { return nil }
func (c *fakeConnC29) SetReadDeadline(t time.Time) error  { return nil }
func (c *fakeConnC29) SetWriteDeadline(t time.Time) error { return nil }

func hasSuffixC29(s, suf string) bool {
	if len(s) < len(suf) {
		return false
	}
	eq := true
	for i := 0; i < len(suf); i++ {
		if s[len(s)-len(suf)+i] != suf[i] {
			eq = false
		}
	}
	return eq
}

var addrHeadersC29 = []string{"X-Real-Ip", "X-Real-Port", "X-Forwarded-For", "X-Forwarded-Port"}

// VerifC29_defaultHeader: peer 10.1.x.y:port with FREE symbolic low address bytes and a port from
// {80, 0, 65535, 7} (PORTSYM=1: any 16-bit port);
// every subset of the four client-supplied address headers with symbolic values of 0..V bytes.
func VerifC29_defaultHeader() {
	ip := net.IP{10, 1, 2, 3}
	free := vrt.Param("FREE", 1)
	copy(ip[4-free:], vrt.Bytes("peerip", free))
	port := []int{80, 0, 65535, 7}[vrt.Choose("port", 4)]
	if vrt.Param("PORTSYM", 0) == 1 {
		port = int(vrt.U16("peerport"))
	}
	peer := &net.TCPAddr{IP: ip, Port: port}
	ipStr := peer.IP.String()
	portStr := strconv.Itoa(peer.Port)

	h := bfe_http.Header{}
	for _, name := range addrHeadersC29 {
		if vrt.Bool("present") {
			h[name] = []string{vrt.Str("hv", vrt.Range("hvlen", 0, vrt.Param("V", 1)))}
		}
	}
	conn := &fakeConnC29{local: &net.TCPAddr{IP: net.IP{192, 168, 0, 1}, Port: 80}, remote: peer}
	sess := &bfe_basic.Session{RemoteAddr: peer, Connection: conn}
	sess.SetTrustSource(false)
	req := &bfe_basic.Request{
		Connection: conn, Session: sess, RemoteAddr: peer,
		ClientAddr:  peer, // what setClientAddr leaves for an untrusted peer (VerifC29_untrusted)
		HttpRequest: &bfe_http.Request{Header: h, Host: "example.org", RemoteAddr: peer.String()},
	}
	m := &ModuleHeader{name: "mod_header"}
	m.setDefaultHeader(req)

	out := req.HttpRequest.Header
	vrt.Assert(len(out["X-Real-Ip"]) == 1 && out["X-Real-Ip"][0] == ipStr, "C29/x-real-ip-is-peer")
	vrt.Assert(len(out["X-Real-Port"]) == 1 && out["X-Real-Port"][0] == portStr, "C29/x-real-port-is-peer")
	xff := out["X-Forwarded-For"]
	vrt.Assert(len(xff) == 1, "C29/xff-single-line")
	if len(xff) == 1 {
		vrt.Assert(xff[0] == ipStr || hasSuffixC29(xff[0], ", "+ipStr), "C29/xff-ends-with-peer")
	}
}
