package mod_header

// C29 part 2 — the default headers mod_header sends upstream (setDefaultHeader, modHeaderForwardedAddr,
// setHeaderRealAddr) for a request from an untrusted peer, i.e. with ClientAddr == RemoteAddr as
// setClientAddr leaves it (part 1).

import (
	"net"
	"strconv"
	"time"

	"github.com/bfenetworks/bfe/bfe_basic"
	"github.com/bfenetworks/bfe/bfe_http"
	vrt "github.com/bfenetworks/bfe/zz_vrt"
)

// fakeConnC29 is the client connection: only LocalAddr is consulted (X-Bfe-Ip).
type fakeConnC29 struct{ local, remote *net.TCPAddr }

func (c *fakeConnC29) Read(b []byte) (int, error)         { return 0, nil }
func (c *fakeConnC29) Write(b []byte) (int, error)        { return len(b), nil }
func (c *fakeConnC29) Close() error                       { return nil }
func (c *fakeConnC29) LocalAddr() net.Addr                { return c.local }
func (c *fakeConnC29) RemoteAddr() net.Addr               { return c.remote }
func (c *fakeConnC29) SetDeadline(t time.Time) error      { return nil }
func (c *fakeConnC29) SetReadDeadline(t time.Time) error  { return nil }
func (c *fakeConnC29) SetWriteDeadline(t time.Time) error { return nil }

func hasSuffixC29(s, suf string) bool {
	if len(s) < len(suf) {
		return false
	}
	eq := true
	for i := 0; i < len(suf); i++ {
		if s[len(s)-len(suf)+i] != suf[i] {
			eq = false
		}
	}
	return eq
}

var addrHeadersC29 = []string{"X-Real-Ip", "X-Real-Port", "X-Forwarded-For", "X-Forwarded-Port"}

// VerifC29_defaultHeader: peer 10.1.x.y:port with FREE symbolic low address bytes and a port from
// {80, 0, 65535, 7} (PORTSYM=1: any 16-bit port);
// every subset of the four client-supplied address headers with symbolic values of 0..V bytes.
func VerifC29_defaultHeader() {
	ip := net.IP{10, 1, 2, 3}
	free := vrt.Param("FREE", 1)
	copy(ip[4-free:], vrt.Bytes("peerip", free))
	port := []int{80, 0, 65535, 7}[vrt.Choose("port", 4)]
	if vrt.Param("PORTSYM", 0) == 1 {
		port = int(vrt.U16("peerport"))
	}
	peer := &net.TCPAddr{IP: ip, Port: port}
	ipStr := peer.IP.String()
	portStr := strconv.Itoa(peer.Port)

	h := bfe_http.Header{}
	for _, name := range addrHeadersC29 {
		if vrt.Bool("present") {
			h[name] = []string{vrt.Str("hv", vrt.Range("hvlen", 0, vrt.Param("V", 1)))}
		}
	}
	conn := &fakeConnC29{local: &net.TCPAddr{IP: net.IP{192, 168, 0, 1}, Port: 80}, remote: peer}
	sess := &bfe_basic.Session{RemoteAddr: peer, Connection: conn}
	sess.SetTrustSource(false)
	req := &bfe_basic.Request{
		Connection: conn, Session: sess, RemoteAddr: peer,
		ClientAddr:  peer, // what setClientAddr leaves for an untrusted peer (VerifC29_untrusted)
		HttpRequest: &bfe_http.Request{Header: h, Host: "example.org", RemoteAddr: peer.String()},
	}
	m := &ModuleHeader{name: "mod_header"}
	m.setDefaultHeader(req)

	out := req.HttpRequest.Header
	vrt.Assert(len(out["X-Real-Ip"]) == 1 && out["X-Real-Ip"][0] == ipStr, "C29/x-real-ip-is-peer")
	vrt.Assert(len(out["X-Real-Port"]) == 1 && out["X-Real-Port"][0] == portStr, "C29/x-real-port-is-peer")
	xff := out["X-Forwarded-For"]
	vrt.Assert(len(xff) == 1, "C29/xff-single-line")
	if len(xff) == 1 {
		vrt.Assert(xff[0] == ipStr || hasSuffixC29(xff[0], ", "+ipStr), "C29/xff-ends-with-peer")
	}
}

// ---------------------------------------------------------------------------------------------------
// Focused harnesses (added after the seeded-change review, see notes/C29.md).

// lastElemIsC29: is the last element of the comma-separated list s (OWS trimmed) equal to want?
// want contains neither ',' nor OWS.
func lastElemIsC29(s, want string) bool {
	last := -1
	for i := 0; i < len(s); i++ {
		if s[i] == ',' {
			last = i
		}
	}
	e := s[last+1:]
	for len(e) > 0 && (e[0] == ' ' || e[0] == '\t') {
		e = e[1:]
	}
	for len(e) > 0 && (e[len(e)-1] == ' ' || e[len(e)-1] == '\t') {
		e = e[:len(e)-1]
	}
	return e == want
}

func runDefaultHeaderC29(peer *net.TCPAddr, h bfe_http.Header) bfe_http.Header {
	conn := &fakeConnC29{local: &net.TCPAddr{IP: net.IP{192, 168, 0, 1}, Port: 80}, remote: peer}
	sess := &bfe_basic.Session{RemoteAddr: peer, Connection: conn}
	sess.SetTrustSource(false)
	req := &bfe_basic.Request{
		Connection: conn, Session: sess, RemoteAddr: peer,
		ClientAddr:  peer, // what setClientAddr leaves for an untrusted peer (VerifC29_untrusted)
		HttpRequest: &bfe_http.Request{Header: h, Host: "example.org", RemoteAddr: peer.String()},
	}
	m := &ModuleHeader{name: "mod_header"}
	m.setDefaultHeader(req)
	return req.HttpRequest.Header
}

// VerifC29_xffLastHop: an untrusted peer (1.1.2.3 or 10.1.2.3) whose X-Forwarded-For value is 0..P symbolic
// bytes followed by the text of its own address ("21.1.2.3", "x,1.1.2.3", " 1.1.2.3" ...), optionally after
// a first X-Forwarded-For line. The last hop sent upstream - the last list element, not merely the last
// characters - must be the peer's address.
func VerifC29_xffLastHop() {
	ip := []net.IP{{1, 1, 2, 3}, {10, 1, 2, 3}}[vrt.Choose("peer", 2)]
	peer := &net.TCPAddr{IP: ip, Port: 80}
	ipStr := ip.String()
	pre := vrt.Str("pre", vrt.Range("prelen", 0, vrt.Param("P", 2)))
	h := bfe_http.Header{}
	if vrt.Bool("two-lines") {
		h["X-Forwarded-For"] = []string{"8.8.8.8", pre + ipStr}
	} else {
		h["X-Forwarded-For"] = []string{pre + ipStr}
	}
	out := runDefaultHeaderC29(peer, h)
	xff := out["X-Forwarded-For"]
	vrt.Assert(len(xff) == 1, "C29/xff-single-line")
	if len(xff) == 1 {
		vrt.Assert(lastElemIsC29(xff[0], ipStr), "C29/xff-last-hop-is-peer")
	}
	vrt.Assert(len(out["X-Real-Ip"]) == 1 && out["X-Real-Ip"][0] == ipStr, "C29/x-real-ip-is-peer")
}

// VerifC29_repeatedHeaders: each of the four client-supplied address headers is absent, present once or
// repeated (two lines), every value one symbolic byte. Everything sent upstream under X-Real-Ip /
// X-Real-Port is the peer's socket address - all values of the field, not only the first.
func VerifC29_repeatedHeaders() {
	peer := &net.TCPAddr{IP: net.IP{10, 1, 2, 3}, Port: 4321}
	ipStr, portStr := "10.1.2.3", "4321"
	h := bfe_http.Header{}
	for _, name := range addrHeadersC29 {
		for i, n := 0, vrt.Range("lines", 0, 2); i < n; i++ {
			h[name] = append(h[name], vrt.Str("hv", 1))
		}
	}
	out := runDefaultHeaderC29(peer, h)
	vrt.Assert(len(out["X-Real-Ip"]) == 1 && out["X-Real-Ip"][0] == ipStr, "C29/x-real-ip-is-peer")
	vrt.Assert(len(out["X-Real-Port"]) == 1 && out["X-Real-Port"][0] == portStr, "C29/x-real-port-is-peer")
	xff := out["X-Forwarded-For"]
	vrt.Assert(len(xff) == 1, "C29/xff-single-line")
	if len(xff) == 1 {
		vrt.Assert(lastElemIsC29(xff[0], ipStr), "C29/xff-last-hop-is-peer")
	}
}
