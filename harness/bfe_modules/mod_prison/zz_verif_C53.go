package mod_prison

// C53 — rate limiting jails keys after the threshold.
// Kernel: prisonRule.recordAndCheck, shouldDeny, recordAccess, AccessSigner.Sign/prepareData,
// AccessCounter.IncAndCheck/reset, NewAccessCounter, with the real LRU dictionaries (go-lib lru_cache).
// time.Now is the engine's symbolic clock (every call returns a fresh instant >= the previous one),
// so every interleaving of clock readings with requests is covered; the harness reads the same clock
// before (a[i]) and after (b[i]) request i, which brackets all instants bfe used for that request.

import (
	"time"

	"github.com/bfenetworks/bfe/bfe_basic"
	"github.com/bfenetworks/bfe/bfe_basic/action"
	"github.com/bfenetworks/bfe/bfe_http"
	vrt "github.com/bfenetworks/bfe/zz_vrt"
)

const maxReqC53 = 8

func mkRuleC53(period, stay int64, threshold int32) *prisonRule {
	r := new(prisonRule)
	r.name = "r"
	r.condStr = "default_t()"
	r.action = action.Action{Cmd: "CLOSE"}
	r.accessSigner = AccessSigner{AccessSignConf: AccessSignConf{Header: []string{"X-Key"}}}
	r.checkPeriodNs, r.stayPeriodNs, r.threshold = period, stay, threshold
	r.accessDictSize, r.prisonDictSize = 16, 16
	r.initDict(nil)
	return r
}

func mkReqC53(key int) *bfe_basic.Request {
	hr := &bfe_http.Request{Method: "GET", Header: bfe_http.Header{}}
	hr.Header.Set("X-Key", []string{"alice", "bob"}[key])
	req := &bfe_basic.Request{HttpRequest: hr}
	req.Context = make(map[interface{}]interface{})
	return req
}

// VerifC53_history: K requests; which of the two keys each request carries is a concrete choice
// (so the md5 signatures are the real ones), all instants and both periods are symbolic.
func VerifC53_history() {
	historyC53(vrt.Param("K", 4), vrt.Param("TMAX", 2), uint(vrt.Param("PERIOD_BITS", 12)))
}

// VerifC53_history_wide: the same with the full clock range [0,2^61) ns and periods < 2^50 ns
// (registered without CLOCK_BITS), for shorter histories.
func VerifC53_history_wide() {
	historyC53(vrt.Param("KW", 3), vrt.Param("TMAX", 2), 50)
}

func historyC53(K int, tmax int, periodBits uint) {
	T := int32(vrt.Range("threshold", 1, tmax))
	var period, stay int64
	if periodBits <= 16 {
		// narrow variant: 16-bit values zero-extended (upper bits syntactically zero for the solver)
		period, stay = int64(vrt.U16("period")), int64(vrt.U16("stay"))
	} else {
		period, stay = vrt.I64("period"), vrt.I64("stay")
	}
	vrt.Assume(period > 0 && period < int64(1)<<periodBits && stay > 0 && stay < int64(1)<<periodBits)
	rule := mkRuleC53(period, stay, T)

	var key [maxReqC53]int
	var a, b [maxReqC53]int64
	var denied [maxReqC53]bool
	for i := 0; i < K; i++ {
		if i > 0 {
			key[i] = vrt.Choose("key", 2) // the first request carries key 0 (symmetry)
		}
		req := mkReqC53(key[i])
		a[i] = time.Now().UnixNano()
		denied[i] = rule.recordAndCheck(req)
		b[i] = time.Now().UnixNano()
	}

	for k := 0; k < 2; k++ {
		// same-key request indices, in order
		var idx []int
		for i := 0; i < K; i++ {
			if key[i] == k {
				idx = append(idx, i)
			}
		}
		n := len(idx)
		tt := int(T)

		// (i) below the threshold: any T+1 consecutive requests of the key are, whatever the exact
		// instants inside [a,b], spread over more than one CheckPeriod  =>  never denied.
		under := true
		for j := 0; j+tt < n; j++ {
			if !(a[idx[j+tt]]-b[idx[j]] > period) {
				under = false
			}
		}
		if under {
			for j := 0; j < n; j++ {
				vrt.Assert(!denied[idx[j]], "C53/below-threshold-never-denied")
			}
		}

		// (ii) the first T+1 requests of the key all fall within one CheckPeriod counted from the first
		// of them (the counter's own window, so window alignment is not in question), and the
		// (T+1)-th is handled in less than StayPeriod  =>  it is denied, later requests are denied
		// for at least StayPeriod, and the key is free again once StayPeriod+CheckPeriod have passed.
		if n > tt {
			first, last := idx[0], idx[tt]
			if b[last]-a[first] <= period && b[last]-a[last] < stay {
				for j := 0; j < tt; j++ {
					vrt.Assert(!denied[idx[j]], "C53/not-denied-up-to-threshold")
				}
				vrt.Assert(denied[last], "C53/denied-when-threshold-exceeded")
				allInside := true
				for j := tt + 1; j < n; j++ {
					q := idx[j]
					if b[q] < a[last]+stay {
						if allInside {
							vrt.Assert(denied[q], "C53/denied-during-stay-period")
						}
					} else {
						if allInside && a[q] > b[last]+stay+period {
							vrt.Assert(!denied[q], "C53/free-after-stay-plus-period")
						}
						allInside = false
					}
				}
			}
		}
	}
}
