package mod_prison

// C53 — rate limiting jails keys after the threshold.
// Kernel: prisonRule.recordAndCheck, shouldDeny, recordAccess, AccessSigner.Sign/prepareData,
// AccessCounter.IncAndCheck/reset, NewAccessCounter, with the real LRU dictionaries (go-lib lru_cache).
// time.Now is the engine's symbolic clock (every call returns a fresh instant >= the previous one),
// so every interleaving of clock readings with requests is covered; the harness reads the same clock
// before (a[i]) and after (b[i]) request i, which brackets all instants bfe used for that request.

import (
	"time"

	"github.com/bfenetworks/bfe/bfe_basic"
	"github.com/bfenetworks/bfe/bfe_basic/action"
	"github.com/bfenetworks/bfe/bfe_http"
	vrt "github.com/bfenetworks/bfe/zz_vrt"
)

const maxReqC53 = 8

func mkRuleC53(period, stay int64, threshold int32) *prisonRule {
	r := new(prisonRule)
	r.name = "r"
	r.condStr = "default_t()"
	r.action = action.Action{Cmd: "CLOSE"}
	r.accessSigner = AccessSigner{AccessSignConf: AccessSignConf{Header: []string{"X-Key"}}}
	r.checkPeriodNs, r.stayPeriodNs, r.threshold = period, stay, threshold
	r.accessDictSize, r.prisonDictSize = 16, 16
	r.initDict(nil)
	return r
}

func mkReqC53(key int) *bfe_basic.Request {
	hr := &bfe_http.Request{Method: "GET", Header: bfe_http.Header{}}
	hr.Header.Set("X-Key", []string{"alice", "bob"}[key])
	req := &bfe_basic.Request{HttpRequest: hr}
	req.Context = make(map[interface{}]interface{})
	return req
}

// VerifC53_history: K requests; which of the two keys each request carries is a concrete choice
// (so the md5 signatures are the real ones), all instants and both periods are symbolic.
func VerifC53_history() {
	historyC53(vrt.Param("K", 4), vrt.Param("TMAX", 2), uint(vrt.Param("PERIOD_BITS", 12)))
}

// VerifC53_history_wide: the same with the full clock range [0,2^61) ns and periods < 2^50 ns
// (registered without CLOCK_BITS), for shorter histories.
func VerifC53_history_wide() {
	historyC53(vrt.Param("KW", 3), vrt.Param("TMAX", 2), 50)
}

func historyC53(K int, tmax int, periodBits uint) {
	T := int32(vrt.Range("threshold", 1, tmax))
	var period, stay int64
	if periodBits <= 16 {
		// narrow variant: 16-bit values zero-extended (upper bits syntactically zero for the solver)
		period, stay = int64(vrt.U16("period")), int64(vrt.U16("stay"))
	} else {
		period, stay = vrt.I64("period"), vrt.I64("stay")
	}
	vrt.Assume(period > 0 && period < int64(1)<<periodBits && stay > 0 && stay < int64(1)<<periodBits)
	rule := mkRuleC53(period, stay, T)

	var key [maxReqC53]int
	var a, b [maxReqC53]int64
	var denied [maxReqC53]bool
	for i := 0; i < K; i++ {
		if i > 0 {
			key[i] = vrt.Choose("key", 2) // the first request carries key 0 (symmetry)
		}
		req := mkReqC53(key[i])
		a[i] = time.Now().UnixNano()
		denied[i] = rule.recordAndCheck(req)
		b[i] = time.Now().UnixNano()
	}

	for k := 0; k < 2; k++ {
		// same-key request indices, in order
		var idx []int
		for i := 0; i < K; i++ {
			if key[i] == k {
				idx = append(idx, i)
			}
		}
		n := len(idx)
		tt := int(T)

		// (i) below the threshold: any T+1 consecutive requests of the key are, whatever the exact
		// instants inside [a,b], spread over more than one CheckPeriod  =>  never denied.
		under := true
		for j := 0; j+tt < n; j++ {
			if !(a[idx[j+tt]]-b[idx[j]] > period) {
				under = false
			}
		}
		if under {
			for j := 0; j < n; j++ {
				vrt.Assert(!denied[idx[j]], "C53/below-threshold-never-denied")
			}
		}

		// (ii) the first T+1 requests of the key all fall within one CheckPeriod counted from the first
		// of them (the counter's own window, so window alignment is not in question), and the
		// (T+1)-th is handled in less than StayPeriod  =>  it is denied, later requests are denied
		// for at least StayPeriod, and the key is free again once StayPeriod+CheckPeriod have passed.
		if n > tt {
			first, last := idx[0], idx[tt]
			if b[last]-a[first] <= period && b[last]-a[last] < stay {
				for j := 0; j < tt; j++ {
					vrt.Assert(!denied[idx[j]], "C53/not-denied-up-to-threshold")
				}
				vrt.Assert(denied[last], "C53/denied-when-threshold-exceeded")
				allInside := true
				for j := tt + 1; j < n; j++ {
					q := idx[j]
					if b[q] < a[last]+stay {
						if allInside {
							vrt.Assert(denied[q], "C53/denied-during-stay-period")
						}
					} else {
						if allInside && a[q] > b[last]+stay+period {
							vrt.Assert(!denied[q], "C53/free-after-stay-plus-period")
						}
						allInside = false
					}
				}
			}
		}
	}
}

// ---------------------------------------------------------------- focused scenarios (seeded-change review)

func mkReqNameC53(name string) *bfe_basic.Request {
	hr := &bfe_http.Request{Method: "GET", Header: bfe_http.Header{}}
	hr.Header.Set("X-Key", name)
	req := &bfe_basic.Request{HttpRequest: hr}
	req.Context = make(map[interface{}]interface{})
	return req
}

// VerifC53_scenarios: three narrow histories with the symbolic clock (16-bit instants, periods < 2^12 ns,
// every request handled in less than StayPeriod and less than CheckPeriod):
//
//	0 idle-then-burst, Threshold 1, one key: a first request, a pause longer than CheckPeriod (any length:
//	  2, 3, 10 periods), then 2*Threshold+1 = 3 requests within one CheckPeriod. Whatever the alignment of
//	  the counting windows, Threshold+1 of the three fall into one window, so one of them is denied.
//	1 jail length, Threshold 1, one key: two requests within one CheckPeriod of the first (the counter's
//	  own window) jail the key; a third request before (window start + CheckPeriod + StayPeriod), i.e.
//	  before "StayPeriod plus the rest of that period" has passed, is denied.
//	2 other keys, Threshold 1, accessDictSize 1 < prisonDictSize 2: key A is jailed by two requests, then key
//	  B by two requests (2 jailed keys fit the prison dictionary; a key's counter is dropped when it is
//	  jailed, so one counter slot suffices); A is still denied before its StayPeriod has passed.
//	  (With Threshold 0 the probe would be jailed afresh on the spot and an eviction would go unnoticed.)
func VerifC53_scenarios() {
	period, stay := int64(vrt.U16("period")), int64(vrt.U16("stay"))
	vrt.Assume(period > 0 && period < 1<<12 && stay > 0 && stay < 1<<12)
	scenario := vrt.Choose("scenario", 3)
	names := [][]string{{"alice", "alice", "alice", "alice"}, {"alice", "alice", "alice"}, {"alice", "alice", "bob", "bob", "alice"}}[scenario]
	threshold := int32(1)
	r := new(prisonRule)
	r.name = "r"
	r.condStr = "default_t()"
	r.action = action.Action{Cmd: "CLOSE"}
	r.accessSigner = AccessSigner{AccessSignConf: AccessSignConf{Header: []string{"X-Key"}}}
	r.checkPeriodNs, r.stayPeriodNs, r.threshold = period, stay, threshold
	r.accessDictSize, r.prisonDictSize = 16, 16
	if scenario == 2 {
		r.accessDictSize, r.prisonDictSize = 1, 2
	}
	r.initDict(nil)

	var a, b [5]int64
	var denied [5]bool
	for i := range names {
		req := mkReqNameC53(names[i])
		a[i] = time.Now().UnixNano()
		// the timing constraints of the scenario are stated as early as possible (they prune the
		// clock-comparison forks inside bfe)
		if scenario == 0 && i == 1 {
			vrt.Assume(a[1]-b[0] > period)
		}
		denied[i] = r.recordAndCheck(req)
		b[i] = time.Now().UnixNano()
		vrt.Assume(b[i]-a[i] < stay && b[i]-a[i] < period)
		if scenario == 0 && i >= 1 {
			vrt.Assume(b[i]-a[1] <= period)
		}
		if (scenario == 1 || scenario == 2) && i == 1 {
			vrt.Assume(b[1]-a[0] <= period)
		}
		if scenario == 2 && i == 3 {
			vrt.Assume(b[3]-a[2] <= period)
		}
	}
	switch scenario {
	case 0:
		vrt.Assert(!denied[0], "C53/burst-first-request-free")
		vrt.Assert(denied[1] || denied[2] || denied[3], "C53/burst-after-idle-denied")
	case 1:
		vrt.Assert(!denied[0] && denied[1], "C53/jail-starts-at-threshold")
		if b[2] < a[0]+period+stay {
			vrt.Assert(denied[2], "C53/denied-until-stay-plus-rest-of-period")
		}
	case 2:
		vrt.Assert(!denied[0] && denied[1] && !denied[2] && denied[3], "C53/each-key-jailed")
		if b[4] < a[1]+stay {
			vrt.Assert(denied[4], "C53/jailed-key-unaffected-by-other-keys")
		}
	}
}
