package mod_cors

// C52 — CORS headers are granted only to allowed origins and vary on Origin.
// Kernel: ruleConvert (allow-origin map), matchOriginAllowed, setRespHeaderForNonPreflight,
// setRespHeaderForPreflght, addVaryHeader, corsHandler (rule selection with a harness condition).

import (
	"strings"

	"github.com/baidu/go-lib/web-monitor/metrics"
	"github.com/bfenetworks/bfe/bfe_basic"
	"github.com/bfenetworks/bfe/bfe_http"
	"github.com/bfenetworks/bfe/bfe_module"
	vrt "github.com/bfenetworks/bfe/zz_vrt"
)

// condC52 is a harness condition with a fixed verdict (the condition language is C16-C18's business).
type condC52 struct{ v bool }

func (c condC52) Match(req *bfe_basic.Request) bool { return c.v }

// allow-origin configurations that ruleConvert accepts (shape index -> list).
var allowListsC52 = [][]string{
	{"%origin"},
	{"*"},
	{"null"},
	{"ab"},
	{"ab", "c"},
	{"ab", "%origin"},
}

// pre-existing Vary header lines of the upstream response (shape index -> lines; nil = absent).
var varyShapesC52 = [][]string{
	nil,
	{"Origin"},
	{"Accept-Encoding"},
	{"*"},
	{"Accept, Origin"},
	{"Accept,Cookie"},
	{"origin"},
	{"Accept", "Cookie"},
	{"Accept", "Origin"},
}

func mkRuleC52(k int, cred bool) *CorsRule {
	raw := CorsRuleRaw{Cond: "default_t()", AccessControlAllowOrigins: allowListsC52[k], AccessControlAllowCredentials: cred}
	raw.AccessControlExposeHeaders = []string{"X-A"}
	raw.AccessControlAllowMethods = []string{"GET", "PUT"}
	raw.AccessControlAllowHeaders = []string{"X-B"}
	rule := new(CorsRule)
	rule.Cond = condC52{true}
	rule.AccessControlAllowOriginMap = make(map[string]bool)
	for _, o := range raw.AccessControlAllowOrigins {
		rule.AccessControlAllowOriginMap[o] = true
	}
	rule.AccessControlAllowCredentials = cred
	rule.AccessControlExposeHeaders = raw.AccessControlExposeHeaders
	rule.AccessControlAllowMethods = raw.AccessControlAllowMethods
	rule.AccessControlAllowHeaders = raw.AccessControlAllowHeaders
	return rule
}

// refAllowedC52: the documented meaning of AccessControlAllowOrigins (docs/en_us/modules/mod_cors):
// "%origin" echoes any request origin, "*" grants "*", otherwise the origin must be listed.
func refAllowedC52(origin string, list []string) (bool, string) {
	listed, wild, echo := false, false, false
	for _, o := range list {
		if o == "%origin" {
			echo = true
		} else if o == "*" {
			wild = true
		} else if o == origin {
			listed = true
		}
	}
	if echo || listed {
		return true, origin
	}
	if wild {
		return true, "*"
	}
	return false, ""
}

// tokensC52 splits Vary lines into trimmed, non-empty field-name tokens.
func tokensC52(lines []string) []string {
	var out []string
	for _, l := range lines {
		for _, t := range strings.Split(l, ",") {
			t = strings.TrimSpace(t)
			if t != "" {
				out = append(out, t)
			}
		}
	}
	return out
}

func hasTokenC52(toks []string, want string) bool {
	for _, t := range toks {
		if strings.EqualFold(t, want) {
			return true
		}
	}
	return false
}

func hasACAC52(h bfe_http.Header) bool {
	for k := range h {
		if strings.HasPrefix(k, "Access-Control-") {
			return true
		}
	}
	return false
}

func newModuleC52() *ModuleCors {
	m := new(ModuleCors)
	m.name = ModCors
	m.ruleTable = NewCorsRuleTable()
	m.state.ReqCorsRuleHit = new(metrics.Counter)
	m.state.ReqPreFlightHit = new(metrics.Counter)
	m.state.ReqAllowOriginHit = new(metrics.Counter)
	m.state.ReqNotAllowOriginHit = new(metrics.Counter)
	return m
}

func originC52() string {
	// origins: symbolic strings of 1..3 bytes (so "ab", "c", "*" and every near miss occur) or "null"
	if vrt.Choose("originKind", 2) == 1 {
		return "null"
	}
	return vrt.Str("origin", vrt.Range("originLen", 1, vrt.Param("OL", 3)))
}

func checkC52(origin string, list []string, cred bool, oldVary []string, h bfe_http.Header, preflight bool) {
	allowed, want := refAllowedC52(origin, list)
	if !allowed {
		vrt.Assert(!hasACAC52(h), "C52/no-cors-headers-when-origin-not-allowed")
		return
	}
	acao := h["Access-Control-Allow-Origin"]
	vrt.Assert(len(acao) == 1 && acao[0] == want, "C52/allow-origin-echoed-or-star")
	if cred {
		vrt.Assert(h.Get(HeaderAccessControlAllowCredentials) == "true", "C52/credentials-as-configured")
	} else {
		vrt.Assert(h.Get(HeaderAccessControlAllowCredentials) == "", "C52/credentials-as-configured")
	}
	newToks := tokensC52(h["Vary"])
	oldToks := tokensC52(oldVary)
	if want != "*" {
		// the response carries the echoed origin: it depends on the request Origin
		vrt.Known("C52-vary-origin-not-appended", len(oldToks) > 0 && !hasTokenC52(oldToks, "Origin") && !hasTokenC52(oldToks, "*"))
		vrt.Assert(hasTokenC52(newToks, "Origin") || hasTokenC52(newToks, "*"), "C52/vary-lists-origin")
	}
	for _, t := range oldToks {
		vrt.Assert(hasTokenC52(newToks, t), "C52/vary-keeps-existing-values")
	}
	_ = preflight
}

// VerifC52_nonPreflight: setRespHeaderForNonPreflight for every rule shape x origin x upstream Vary.
func VerifC52_nonPreflight() {
	k := vrt.Choose("allowList", len(allowListsC52))
	cred := vrt.Bool("cred")
	if allowListsC52[k][0] == "*" {
		cred = false // ruleConvert rejects "*" with credentials
	}
	rule := mkRuleC52(k, cred)
	origin := originC52()
	vk := vrt.Choose("vary", len(varyShapesC52))
	h := bfe_http.Header{}
	h.Set("Content-Type", "text/html")
	for _, l := range varyShapesC52[vk] {
		h.Add("Vary", l)
	}
	req := &bfe_basic.Request{HttpRequest: &bfe_http.Request{Method: "GET", Header: bfe_http.Header{}}}
	req.HttpRequest.Header.Set("Origin", origin)
	m := newModuleC52()
	m.setRespHeaderForNonPreflight(req, h, rule)
	checkC52(origin, allowListsC52[k], cred, varyShapesC52[vk], h, false)
	vrt.Assert(h.Get("Content-Type") == "text/html", "C52/other-headers-untouched")
}

// VerifC52_handlers: the two registered callbacks end to end (rule table lookup, first matching rule,
// preflight detection) with a two-rule table whose conditions have symbolic verdicts.
func VerifC52_handlers() {
	k0 := vrt.Choose("allowList0", len(allowListsC52))
	k1 := vrt.Choose("allowList1", 2) // "%origin" or "*"
	r0, r1 := mkRuleC52(k0, false), mkRuleC52(k1, false)
	m0, m1 := vrt.Bool("match0"), vrt.Bool("match1")
	r0.Cond, r1.Cond = condC52{m0}, condC52{m1}
	m := newModuleC52()
	m.ruleTable.Update(&CorsRuleConf{Version: "v", Config: ProductRuleList{"p": CorsRuleList{*r0, *r1}}})

	origin := originC52()
	preflight := vrt.Bool("preflight")
	req := &bfe_basic.Request{HttpRequest: &bfe_http.Request{Method: "GET", Header: bfe_http.Header{}}}
	req.Route.Product = "p"
	if vrt.Bool("knownProduct") == false {
		req.Route.Product = "q"
	}
	req.HttpRequest.Header.Set("Origin", origin)
	if preflight {
		req.HttpRequest.Method = "OPTIONS"
		req.HttpRequest.Header.Set("Access-Control-Request-Method", "PUT")
	}
	var h bfe_http.Header
	var oldVary []string
	if preflight {
		ret, resp := m.corsPreflightHandler(req)
		if req.Route.Product != "p" || (!m0 && !m1) {
			vrt.Assert(resp == nil, "C52/no-rule-no-preflight-response")
			return
		}
		vrt.Assert(ret == bfe_module.BfeHandlerResponse && resp != nil, "C52/preflight-answered")
		h = resp.Header
	} else {
		vk := vrt.Choose("vary", len(varyShapesC52))
		h = bfe_http.Header{}
		for _, l := range varyShapesC52[vk] {
			h.Add("Vary", l)
		}
		oldVary = varyShapesC52[vk]
		m.corsHandler(req, &bfe_http.Response{Header: h})
		if req.Route.Product != "p" || (!m0 && !m1) {
			vrt.Assert(!hasACAC52(h), "C52/no-rule-no-cors-headers")
			return
		}
	}
	list := allowListsC52[k0]
	if !m0 {
		list = allowListsC52[k1]
	}
	checkC52(origin, list, false, oldVary, h, preflight)
	if preflight {
		allowed, _ := refAllowedC52(origin, list)
		if allowed {
			vrt.Assert(h.Get(HeaderAccessControlAllowMethods) == "GET,PUT", "C52/preflight-methods")
			vrt.Assert(h.Get(HeaderAccessControlAllowHeaders) == "X-B", "C52/preflight-headers")
		}
	}
}

// VerifC52_ruleConvert: the configuration loader builds exactly the documented allow-origin set
// (every listed origin, nothing else), for the shapes used above.
func VerifC52_ruleConvert() {
	k := vrt.Choose("allowList", len(allowListsC52))
	raw := CorsRuleRaw{Cond: "default_t()", AccessControlAllowOrigins: allowListsC52[k]}
	rule, err := ruleConvert(raw)
	vrt.Assert(err == nil && rule != nil, "C52/documented-origin-list-accepted")
	origin := originC52()
	got, gotOrigin := matchOriginAllowed(origin, rule)
	want, wantOrigin := refAllowedC52(origin, allowListsC52[k])
	vrt.Assert(got == want, "C52/match-origin-allowed")
	vrt.Assert(gotOrigin == wantOrigin, "C52/match-origin-value")
}

// ---------------------------------------------------------------- focused checks (seeded-change review)

// concrete upstream Vary lines naming headers that merely contain the letters "origin" (or nothing like it)
var varyNearOriginC52 = [][]string{
	{"X-Origin-Country"},
	{"Accept-Encoding, X-Original-Host"},
	{"Accept-Encoding", "Sec-Origin-Policy,Cookie"},
	{"Originator"},
	{"X-Origin, origin"},
}

// VerifC52_focused (one entry point for two narrow questions; every harness of this package pays the
// package initialisation). Part 0, Vary items: the upstream Vary value is a list of field names; "Origin is already listed" is
// a statement about a whole list item. Upstream line = <0..2 symbolic bytes> "Origin" <0..2 symbolic
// bytes> over {X - , space *} (so "Origin", "X-Origin", "Origin-X", "X,Origin", " Origin ,X", "*,Origin"
// ... occur) or one of the concrete shapes above; rule [%origin] (echoes the origin).
func VerifC52_focused() {
	if vrt.Choose("part", 2) == 1 {
		originPortC52()
		return
	}
	var lines []string
	if vrt.Choose("kind", 2) == 1 {
		lines = varyNearOriginC52[vrt.Choose("near", len(varyNearOriginC52))]
	} else {
		pre := vrt.Bytes("pre", vrt.Range("preLen", 0, vrt.Param("VL", 2)))
		suf := vrt.Bytes("suf", vrt.Range("sufLen", 0, vrt.Param("VL", 2)))
		for _, c := range pre {
			vrt.Assume(c == 'X' || c == '-' || c == ',' || c == ' ' || c == '*')
		}
		for _, c := range suf {
			vrt.Assume(c == 'X' || c == '-' || c == ',' || c == ' ' || c == '*')
		}
		lines = []string{string(pre) + "Origin" + string(suf)}
	}
	h := bfe_http.Header{}
	for _, l := range lines {
		h.Add("Vary", l)
	}
	rule := mkRuleC52(0, false)
	req := &bfe_basic.Request{HttpRequest: &bfe_http.Request{Method: "GET", Header: bfe_http.Header{}}}
	req.HttpRequest.Header.Set("Origin", "https://a.example")
	m := newModuleC52()
	m.setRespHeaderForNonPreflight(req, h, rule)
	acao := h["Access-Control-Allow-Origin"]
	vrt.Assert(len(acao) == 1 && acao[0] == "https://a.example", "C52/vary-items-origin-echoed")
	newToks := tokensC52(h["Vary"])
	vrt.Assert(hasTokenC52(newToks, "Origin") || hasTokenC52(newToks, "*"), "C52/vary-items-origin-listed-as-item")
	for _, t := range tokensC52(lines) {
		vrt.Assert(hasTokenC52(newToks, t), "C52/vary-items-existing-kept")
	}
}

// originPortC52 (part 1 of VerifC52_focused): an origin is scheme + host + port; "https://a.example" and "https://a.example:80"
// are different origins. Rule: [https://a.example, http://b.example]; request Origin = one of the
// listed origins followed by 0..4 symbolic bytes (":80", ":443", ":8080"[:4], ".x" ...), through
// the actual-request / preflight header setters.
func originPortC52() {
	list := []string{"https://a.example", "http://b.example"}
	rule := mkRuleC52(0, true)
	rule.AccessControlAllowOriginMap = map[string]bool{list[0]: true, list[1]: true} // what ruleConvert builds
	tail := vrt.Str("tail", vrt.Range("tailLen", 0, vrt.Param("TL", 4)))
	origin := list[vrt.Choose("base", 2)] + tail
	req := &bfe_basic.Request{HttpRequest: &bfe_http.Request{Method: "GET", Header: bfe_http.Header{}}}
	req.HttpRequest.Header.Set("Origin", origin)
	h := bfe_http.Header{}
	m := newModuleC52()
	if vrt.Choose("preflight", 2) == 1 {
		m.setRespHeaderForPreflght(req, h, rule)
	} else {
		m.setRespHeaderForNonPreflight(req, h, rule)
	}
	if tail == "" {
		acao := h["Access-Control-Allow-Origin"]
		vrt.Assert(len(acao) == 1 && acao[0] == origin, "C52/origin-port-listed-origin-granted")
	} else {
		vrt.Assert(!hasACAC52(h), "C52/origin-port-other-origin-not-granted")
	}
}
