package bfe_server

// C29 part 1 — setClientAddr / parseClientAddr (bfe_server/set_client_addr.go).
// Untrusted peer: the client address is the peer's socket address whatever the request headers say.
// Trusted peer: X-Real-Ip/X-Real-Port are honoured first, then the first element of
// X-Forwarded-For/X-Forwarded-Port.

import (
	"net"

	"github.com/bfenetworks/bfe/bfe_basic"
	"github.com/bfenetworks/bfe/bfe_http"
	vrt "github.com/bfenetworks/bfe/zz_vrt"
)

func symPeerC29() *net.TCPAddr {
	ip := make(net.IP, 4)
	copy(ip, vrt.Bytes("peerip", 4))
	port := int(vrt.U16("peerport"))
	return &net.TCPAddr{IP: ip, Port: port}
}

var addrHeadersC29 = []string{"X-Real-Ip", "X-Real-Port", "X-Forwarded-For", "X-Forwarded-Port"}

// VerifC29_untrusted: symbolic peer address, every subset of the four address headers with symbolic
// values (0..V bytes each, every byte value), session not marked trusted.
func VerifC29_untrusted() {
	peer := symPeerC29()
	wantIP := append([]byte{}, peer.IP...)
	wantPort := peer.Port
	h := bfe_http.Header{}
	for _, name := range addrHeadersC29 {
		if vrt.Bool("present") {
			h[name] = []string{vrt.Str("hv", vrt.Range("hvlen", 0, vrt.Param("V", 2)))}
		}
	}
	sess := &bfe_basic.Session{RemoteAddr: peer}
	sess.SetTrustSource(false)
	req := &bfe_basic.Request{Session: sess, RemoteAddr: peer, HttpRequest: &bfe_http.Request{Header: h}}
	setClientAddr(req)
	vrt.Assert(req.ClientAddr != nil, "C29/untrusted-clientaddr-set")
	if req.ClientAddr != nil {
		same := req.ClientAddr.Port == wantPort && len(req.ClientAddr.IP) == 4
		if same {
			for i := 0; i < 4; i++ {
				if req.ClientAddr.IP[i] != wantIP[i] {
					same = false
				}
			}
		}
		vrt.Assert(same, "C29/untrusted-clientaddr-is-peer")
	}
}

// value universes for the trusted case; expIPC29 gives the address each literal denotes (nil: not an IP)
var xriC29 = []string{"1.2.3.4", "", "bad", "::1", " 1.2.3.4"}
var xffC29 = []string{"5.6.7.8", " 5.6.7.8 , 9.9.9.9", "bad, 5.6.7.8", "", "::2,5.6.7.8"}
var portsC29 = []string{"80", "x", "443, 80", ""}

func expIPC29(lit string) net.IP {
	switch lit {
	case "1.2.3.4":
		return net.IPv4(1, 2, 3, 4)
	case "5.6.7.8":
		return net.IPv4(5, 6, 7, 8)
	case "::1":
		return net.IP{0, 0, 0, 0, 0, 0, 0, 0, 0, 0, 0, 0, 0, 0, 0, 1}
	case "::2":
		return net.IP{0, 0, 0, 0, 0, 0, 0, 0, 0, 0, 0, 0, 0, 0, 0, 2}
	}
	return nil
}

func expPortC29(lit string) int {
	switch lit {
	case "80":
		return 80
	case "443":
		return 443
	}
	return 0 // not a number: port left unset
}

// first element of a comma separated list, white space trimmed
func firstElemC29(v string) string {
	end := len(v)
	for i := 0; i < len(v); i++ {
		if v[i] == ',' {
			end = i
			break
		}
	}
	s := v[:end]
	for len(s) > 0 && (s[0] == ' ' || s[0] == '\t') {
		s = s[1:]
	}
	for len(s) > 0 && (s[len(s)-1] == ' ' || s[len(s)-1] == '\t') {
		s = s[:len(s)-1]
	}
	return s
}

// VerifC29_trusted: trusted peer, the four headers absent or drawn from small universes.
func VerifC29_trusted() {
	peer := &net.TCPAddr{IP: net.IPv4(10, 0, 0, 1).To4(), Port: 1234}
	h := bfe_http.Header{}
	pick := func(name string, u []string) (string, bool) {
		k := vrt.Choose("hv", len(u)+1)
		if k == len(u) {
			return "", false
		}
		h[name] = []string{u[k]}
		return u[k], true
	}
	xri, _ := pick("X-Real-Ip", xriC29)
	xrp, _ := pick("X-Real-Port", portsC29)
	xff, _ := pick("X-Forwarded-For", xffC29)
	xfp, _ := pick("X-Forwarded-Port", portsC29)

	sess := &bfe_basic.Session{RemoteAddr: peer}
	sess.SetTrustSource(true)
	req := &bfe_basic.Request{Session: sess, RemoteAddr: peer, HttpRequest: &bfe_http.Request{Header: h}}
	setClientAddr(req)

	// documented precedence: X-Real-Ip (+ X-Real-Port), else first of X-Forwarded-For (+ -Port)
	ipLit, portLit := xri, xrp
	if xri == "" {
		ipLit, portLit = firstElemC29(xff), firstElemC29(xfp)
	}
	want := expIPC29(ipLit)
	if want == nil {
		// no usable header: the code leaves the client address unknown (nil); the property only
		// speaks of honouring the headers, so nothing more is demanded here.
		vrt.Cover("C29/trusted-no-usable-header")
		if ipLit == "" || ipLit == "bad" {
			vrt.Assert(req.ClientAddr == nil || req.ClientAddr == peer || req.ClientAddr.IP.Equal(peer.IP), "C29/trusted-unusable-header-not-invented")
		}
		return
	}
	vrt.Assert(req.ClientAddr != nil, "C29/trusted-header-honoured")
	if req.ClientAddr != nil {
		vrt.Assert(req.ClientAddr.IP.Equal(want), "C29/trusted-ip-from-header")
		vrt.Assert(req.ClientAddr.Port == expPortC29(portLit), "C29/trusted-port-from-header")
	}
}
