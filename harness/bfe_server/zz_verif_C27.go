package bfe_server

// C27 — HTTP/1 responses to clients are correctly framed.
// Kernel: newResponse, response.Header/WriteHeader/Write/Flush/finishRequest/bodyAllowed,
// chunkWriter.writeHeader/Write/flush/close, extraHeader.Write, statusLine (bfe_server/response.go,
// chunk_writer.go) on a hand-built conn whose output goes to a byte recorder. The bytes written are
// parsed by a reference HTTP/1 response parser (RFC 7230 §3.3.3 for a client that sent the given request).

import (
	"bytes"
	"net"
	"time"

	"github.com/bfenetworks/bfe/bfe_bufio"
	"github.com/bfenetworks/bfe/bfe_http"
	vrt "github.com/bfenetworks/bfe/zz_vrt"
)

type fakeConnC27 struct{ closed bool }

func (c *fakeConnC27) Read(b []byte) (int, error)         { return 0, nil }
func (c *fakeConnC27) Write(b []byte) (int, error)        { return len(b), nil }
func (c *fakeConnC27) Close() error                       { c.closed = true; return nil }
func (c *fakeConnC27) LocalAddr() net.Addr                { return nil }
func (c *fakeConnC27) RemoteAddr() net.Addr               { return nil }
func (c *fakeConnC27) SetDeadline(t time.Time) error      { return nil }
func (c *fakeConnC27) SetReadDeadline(t time.Time) error  { return nil }
func (c *fakeConnC27) SetWriteDeadline(t time.Time) error { return nil }

func lowerC27(c byte) byte {
	if 'A' <= c && c <= 'Z' {
		return c + 32
	}
	return c
}

func foldEqC27(a []byte, b string) bool {
	if len(a) != len(b) {
		return false
	}
	for i := 0; i < len(a); i++ {
		if lowerC27(a[i]) != lowerC27(b[i]) {
			return false
		}
	}
	return true
}

func trimOWSC27(b []byte) []byte {
	for len(b) > 0 && (b[0] == ' ' || b[0] == '\t') {
		b = b[1:]
	}
	for len(b) > 0 && (b[len(b)-1] == ' ' || b[len(b)-1] == '\t') {
		b = b[:len(b)-1]
	}
	return b
}

type fieldC27 struct{ name, value []byte }

type respC27 struct {
	minor       int // HTTP/1.<minor>
	status      int
	fields      []fieldC27
	body        []byte
	untilClose  bool // body is delimited by connection close
	truncated   bool // declared framing needs more bytes than were written
	end         int  // bytes occupied (== len(out) when untilClose)
	doubleChunk bool // "chunked" listed more than once
}

func valuesC27(fields []fieldC27, name string) [][]byte {
	var out [][]byte
	for _, f := range fields {
		if foldEqC27(f.name, name) {
			out = append(out, f.value)
		}
	}
	return out
}

func listElemsC27(vals [][]byte) [][]byte {
	var out [][]byte
	for _, v := range vals {
		start := 0
		for i := 0; i <= len(v); i++ {
			if i == len(v) || v[i] == ',' {
				if t := trimOWSC27(v[start:i]); len(t) > 0 {
					out = append(out, t)
				}
				start = i + 1
			}
		}
	}
	return out
}

// refChunkedC27: strict chunked decoding (hex size CRLF data CRLF ... 0 CRLF CRLF, no trailers/extensions).
func refChunkedC27(in []byte) (data []byte, n int, ok bool) {
	pos := 0
	for {
		e := bytes.Index(in[pos:], []byte("\r\n"))
		if e <= 0 {
			return nil, 0, false
		}
		sz := 0
		for _, c := range in[pos : pos+e] {
			switch {
			case '0' <= c && c <= '9':
				sz = sz*16 + int(c-'0')
			case 'a' <= c && c <= 'f':
				sz = sz*16 + int(c-'a') + 10
			case 'A' <= c && c <= 'F':
				sz = sz*16 + int(c-'A') + 10
			default:
				return nil, 0, false
			}
		}
		pos += e + 2
		if sz == 0 {
			if len(in)-pos < 2 || in[pos] != '\r' || in[pos+1] != '\n' {
				return nil, 0, false
			}
			return data, pos + 2, true
		}
		if len(in)-pos < sz+2 || in[pos+sz] != '\r' || in[pos+sz+1] != '\n' {
			return nil, 0, false
		}
		data = append(data, in[pos:pos+sz]...)
		pos += sz + 2
	}
}

// refResponseC27 parses the first response in out as a client that sent a request with the given
// method would (RFC 7230 §3.3.3). ok=false: not a well-formed response head.
func refResponseC27(out []byte, head bool) (r respC27, ok bool) {
	e := bytes.Index(out, []byte("\r\n"))
	if e < 0 {
		return r, false
	}
	line := out[:e]
	// "HTTP/1.x SP 3DIGIT SP reason"
	if len(line) < 13 || string(line[:7]) != "HTTP/1." || line[8] != ' ' || line[12] != ' ' {
		return r, false
	}
	if line[7] != '0' && line[7] != '1' {
		return r, false
	}
	r.minor = int(line[7] - '0')
	for _, c := range line[9:12] {
		if c < '0' || c > '9' {
			return r, false
		}
		r.status = r.status*10 + int(c-'0')
	}
	pos := e + 2
	for {
		e := bytes.Index(out[pos:], []byte("\r\n"))
		if e < 0 {
			return r, false
		}
		l := out[pos : pos+e]
		pos += e + 2
		if len(l) == 0 {
			break
		}
		c := bytes.IndexByte(l, ':')
		if c <= 0 || l[c-1] == ' ' || l[0] == ' ' || l[0] == '\t' {
			return r, false
		}
		r.fields = append(r.fields, fieldC27{l[:c], trimOWSC27(l[c+1:])})
	}
	rest := out[pos:]
	noBody := head || r.status/100 == 1 || r.status == 204 || r.status == 304
	te := listElemsC27(valuesC27(r.fields, "Transfer-Encoding"))
	cl := listElemsC27(valuesC27(r.fields, "Content-Length"))
	switch {
	case noBody:
		r.end = pos
	case len(te) > 0:
		nchunked := 0
		for _, c := range te {
			if foldEqC27(c, "chunked") {
				nchunked++
			}
		}
		r.doubleChunk = nchunked > 1
		if foldEqC27(te[len(te)-1], "chunked") {
			data, n, good := refChunkedC27(rest)
			if !good {
				r.truncated = true
				r.end = len(out)
			} else {
				r.body, r.end = data, pos+n
			}
		} else {
			r.untilClose, r.body, r.end = true, rest, len(out)
		}
	case len(cl) > 0:
		n, good := 0, true
		for i, v := range cl {
			m := 0
			if len(v) == 0 || len(v) > 6 {
				good = false
			}
			for _, d := range v {
				if d < '0' || d > '9' {
					good = false
				}
				m = m*10 + int(d-'0')
			}
			if i > 0 && m != n {
				good = false
			}
			n = m
		}
		if !good {
			return r, false // invalid Content-Length in a response: unrecoverable
		}
		if len(rest) < n {
			r.truncated, r.body, r.end = true, rest, len(out)
		} else {
			r.body, r.end = rest[:n], pos+n
		}
	default:
		r.untilClose, r.body, r.end = true, rest, len(out)
	}
	return r, true
}

var statusesC27 = []int{200, 204, 304, 100, 404, 101, 199, 500, 205, 599}
var handlerCLC27 = []string{"", "2", "3", "0", "x"}
var handlerTEC27 = []string{"", "chunked", "identity"}
var connHdrC27 = []string{"", "close", "keep-alive"}

type scenarioC27 struct {
	status           int
	head, http10     bool
	reqConn          string
	hCL, hTE, hConn  string
	w1, w2           int
	flush            bool
	graceful, noKeep bool
}

// runC27 plays a handler against the real response machinery and returns the bytes put on the wire,
// the body the handler tried to send and the server's close-after-reply decision.
func runC27(s scenarioC27) (out []byte, sent []byte, closeAfter bool) {
	srv := &BfeServer{}
	srv.BufioCache = NewBufioCache()
	srv.CloseNotifyCh = make(chan bool)
	if s.noKeep {
		srv.SetKeepAlivesEnabled(false)
	}
	var wire bytes.Buffer
	c := &conn{server: srv, rwc: &fakeConnC27{}}
	c.buf = bfe_bufio.NewReadWriter(bfe_bufio.NewReader(bytes.NewReader(nil)), bfe_bufio.NewWriter(&wire))
	req := &bfe_http.Request{Method: "GET", Proto: "HTTP/1.1", ProtoMajor: 1, ProtoMinor: 1,
		Header: bfe_http.Header{}, Body: bfe_http.EofReader}
	if s.head {
		req.Method = "HEAD"
	}
	if s.http10 {
		req.Proto, req.ProtoMinor = "HTTP/1.0", 0
	}
	if s.reqConn != "" {
		req.Header.Set("Connection", s.reqConn)
	}
	w := newResponse(c, req)
	h := w.Header()
	h.Set("Date", "D")              // a handler-supplied Date keeps time.Now out of the picture
	h.Set("Content-Type", "text/x") // no content sniffing
	h.Set("X-A", "1")
	if s.hCL != "" {
		h.Set("Content-Length", s.hCL)
	}
	if s.hTE != "" {
		h.Set("Transfer-Encoding", s.hTE)
	}
	if s.hConn != "" {
		h.Set("Connection", s.hConn)
	}
	w.WriteHeader(s.status)
	body := []byte("abcdef")
	if s.w1 > 0 {
		w.Write(body[:s.w1])
		sent = append(sent, body[:s.w1]...)
	}
	if s.flush {
		w.Flush()
	}
	if s.w2 > 0 {
		w.Write(body[3 : 3+s.w2])
		sent = append(sent, body[3:3+s.w2]...)
	}
	w.finishRequest()
	return wire.Bytes(), sent, w.closeAfterReply
}

func checkC27(s scenarioC27, out, sent []byte, closeAfter bool) {
	r, ok := refResponseC27(out, s.head)
	vrt.Assert(ok, "C27/response-head-well-formed")
	if !ok {
		return
	}
	vrt.Assert(r.status == s.status, "C27/status-preserved")
	xa := valuesC27(r.fields, "X-A")
	vrt.Assert(len(xa) == 1 && string(xa[0]) == "1", "C27/end-to-end-header-preserved")
	vrt.Assert(!r.doubleChunk, "C27/chunked-listed-once")
	noBody := s.head || s.status/100 == 1 || s.status == 204 || s.status == 304
	// honest handler: a declared Content-Length equals what it writes
	declared := -1
	switch s.hCL {
	case "0", "2", "3":
		declared = int(s.hCL[0] - '0')
	}
	honest := declared < 0 || declared == len(sent) || noBody
	if r.untilClose || r.truncated {
		// the client cannot find the end of this response by itself
		vrt.Assert(closeAfter, "C27/undelimited-response-closes")
	} else {
		// exactly one response on the wire
		vrt.Assert(r.end == len(out), "C27/no-bytes-after-response")
	}
	if noBody {
		vrt.Assert(len(r.body) == 0, "C27/bodiless-response-has-no-body")
	} else if honest && !r.truncated {
		vrt.Assert(bytes.Equal(r.body, sent), "C27/body-preserved")
	}
}

// VerifC27_framing: status x method x version x handler Content-Length / Transfer-Encoding x two writes
// x optional flush between them.
func VerifC27_framing() {
	var s scenarioC27
	s.status = statusesC27[vrt.Choose("status", vrt.Param("ST", 4))]
	s.head = vrt.Bool("head")
	s.http10 = vrt.Bool("http10")
	s.hCL = handlerCLC27[vrt.Choose("cl", vrt.Param("CL", 3))]
	s.hTE = handlerTEC27[vrt.Choose("te", vrt.Param("TE", 2))]
	s.w1 = vrt.Range("w1", 0, vrt.Param("W", 2))
	s.w2 = vrt.Range("w2", 0, 1)
	s.flush = vrt.Bool("flush")

	// a 1xx final status is framed like a 200 (chunked terminator / body bytes follow the head); a 204
	// lets the handler's body bytes through unframed
	vrt.Known("C27-body-bytes-after-1xx-204", !s.head && (s.status/100 == 1 || s.status == 204 && s.w1+s.w2 > 0))
	// handler-set "Transfer-Encoding: chunked" on a chunked HTTP/1.1 reply is written next to the server's own
	vrt.Known("C27-handler-te-chunked-duplicated", s.hTE == "chunked" && !s.http10 && !s.head && s.status != 304 && s.status != 204)
	// an unparsable handler Content-Length is deleted from handlerHeader but not from the snapshot that is written
	vrt.Known("C27-invalid-handler-content-length-written", s.hCL == "x" && s.http10)
	out, sent, closeAfter := runC27(s)
	checkC27(s, out, sent, closeAfter)
}

// VerifC27_keepalive: 200 responses; request version x request Connection x handler Connection x
// handler Content-Length x flush x server keep-alive switch.
func VerifC27_keepalive() {
	var s scenarioC27
	s.status = 200
	s.http10 = vrt.Bool("http10")
	s.head = vrt.Bool("head")
	s.reqConn = connHdrC27[vrt.Choose("reqconn", 3)]
	s.hConn = connHdrC27[vrt.Choose("hconn", 3)]
	s.hCL = handlerCLC27[vrt.Choose("cl", 2)]
	s.w1 = 2
	s.flush = vrt.Bool("flush")
	s.noKeep = vrt.Bool("nokeep")
	out, sent, closeAfter := runC27(s)
	checkC27(s, out, sent, closeAfter)
	// a client that asked for "close", or a server with keep-alives off, gets the connection closed
	if s.reqConn == "close" || s.noKeep || s.hConn == "close" {
		vrt.Assert(closeAfter, "C27/close-honoured")
	}
}

// ---------------------------------------------------------------------------------------------------
// Focused harnesses (added after the seeded-change review, see notes/C27.md).

// VerifC27_overflow: a handler that declares Content-Length 2 or 3 and then writes 0..3 + 0..3 bytes:
// writes whose running total crosses the declared length are refused as a whole, so the wire may carry
// fewer bytes than declared although the handler "wrote" more; then the connection must be closed.
func VerifC27_overflow() {
	var s scenarioC27
	s.status = 200
	s.hCL = handlerCLC27[1+vrt.Choose("cl", 2)] // "2", "3"
	s.w1 = vrt.Range("w1", 0, 3)
	s.w2 = vrt.Range("w2", 0, 3)
	s.flush = vrt.Bool("flush")
	out, sent, closeAfter := runC27(s)
	checkC27(s, out, sent, closeAfter)
}

// VerifC27_largeWrite: one Write of 64 KiB or more on a chunked (HTTP/1.1, no Content-Length) response.
// bufio passes a write larger than its buffer straight through, so the whole write becomes one chunk
// with a 5-digit size line. The body is concrete; the decision is the reference parser's.
func VerifC27_largeWrite() {
	n := []int{0x10000, 0x12345}[vrt.Choose("size", 2)]
	srv := &BfeServer{}
	srv.BufioCache = NewBufioCache()
	srv.CloseNotifyCh = make(chan bool)
	var wire bytes.Buffer
	c := &conn{server: srv, rwc: &fakeConnC27{}}
	c.buf = bfe_bufio.NewReadWriter(bfe_bufio.NewReader(bytes.NewReader(nil)), bfe_bufio.NewWriter(&wire))
	req := &bfe_http.Request{Method: "GET", Proto: "HTTP/1.1", ProtoMajor: 1, ProtoMinor: 1,
		Header: bfe_http.Header{}, Body: bfe_http.EofReader}
	w := newResponse(c, req)
	h := w.Header()
	h.Set("Date", "D")
	h.Set("Content-Type", "text/x")
	h.Set("X-A", "1")
	w.WriteHeader(200)
	big := bytes.Repeat([]byte("0123456789abcde\n"), n/16+1)[:n]
	var sent []byte
	if vrt.Bool("small-first") { // 2 bytes wait in the 512-byte staging buffer when the large write arrives
		w.Write([]byte("ab"))
		sent = append(sent, "ab"...)
	}
	w.Write(big)
	sent = append(sent, big...)
	w.finishRequest()
	s := scenarioC27{status: 200}
	checkC27(s, wire.Bytes(), sent, w.closeAfterReply)
}
