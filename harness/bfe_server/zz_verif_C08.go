package bfe_server

// C08 — retries are safe and bounded. Uses the scenario of zz_verif_C07.go (real clusterInvoke on a
// real BalTable / BalanceGslb, fault-injecting RoundTripper).
//
// Oracle, evaluated on the log of RoundTrip calls after clusterInvoke returned:
//   (A) call i+1 exists only if call i failed with a connect error (bfe_http.ConnectError or
//       bfe_fcgi.ConnectError), or the request is a GET without body and RetryLevel == RetryGet;
//       in particular never after a success, and a request with an unread body is resent only after a
//       connect failure;
//   (B) number of calls <= 1 + RetryMax + CrossRetry;
//   (C) no call is addressed to a backend of GSLB_BLACKHOLE; a call made in the cross-retry stage
//       (the balancer flagged the request IsCrossCluster, or more than 1+RetryMax calls were made) is
//       addressed to a sub-cluster different from the request's assigned (first-choice) one.

import (
	"github.com/bfenetworks/bfe/bfe_config/bfe_cluster_conf/cluster_conf"
	vrt "github.com/bfenetworks/bfe/zz_vrt"
)

var methodsC08 = []string{"GET", "POST", "HEAD"}

func (s *scenC07) checkC08() {
	bodyless := s.body != 2
	getRetry := s.method == "GET" && bodyless && s.level == cluster_conf.RetryGet
	vrt.Assert(s.n <= 1+s.rm+s.cr, "C08/attempts-bounded")
	for i := 0; i < s.n && i < maxCallsC07; i++ {
		if i > 0 {
			prev := s.kind[i-1]
			vrt.Assert(prev != fOkC07, "C08/no-attempt-after-success")
			connFail := prev == fConnC07 || prev == fFcgiConnC07
			vrt.Assert(connFail || getRetry, "C08/retry-only-after-connect-failure-or-bodyless-get")
		}
		tgt := s.target[i]
		vrt.Assert(tgt >= 0, "C08/attempt-addressed-to-a-configured-backend")
		if tgt < 0 {
			continue
		}
		sub := s.subOf[tgt]
		vrt.Assert(!s.subBH[sub], "C08/never-sent-to-blackhole")
		if s.cross[i] || i > s.rm {
			vrt.Assert(sub != s.first, "C08/cross-attempt-leaves-assigned-subcluster")
			vrt.Cover("C08/cross-attempt-seen")
		}
	}
}

// VerifC08_retryRule: the retry decision. Every fault kind at one call position (`rich`), the kinds
// {ok, connect error, write error} elsewhere; every method/body shape; symbolic RetryLevel, RetryMax,
// CrossRetry; two sub-clusters with one available backend each.
func VerifC08_retryRule() {
	s := buildC07(1, 1, false, false, vrt.Param("AV", 0) == 0)
	s.kinds, s.kindsRest = nFaultC07, vrt.Param("KREST", 3)
	s.rich = vrt.Choose("rich-position", vrt.Param("POS", 2))
	method := methodsC08[vrt.Choose("method", vrt.Param("METHODS", len(methodsC08)))]
	s.requestC07(method, vrt.Choose("body", 3))
	_, _, _ = s.p.clusterInvoke(s.srv, s.cluster, s.req, nil)
	s.checkC08()
}

// VerifC08_budget: the attempt budget and the cross-retry target. Fault kinds {ok, connect error,
// write error}; a body-less GET so that RetryLevel decides whether write errors are retried; every
// sub-cluster weight pattern, optional blackhole sub-cluster, 1..NB backends per sub-cluster with
// symbolic availability, symbolic FailNum (a failing backend may drop out between attempts).
func VerifC08_budget() {
	nb := vrt.Param("NB", 2)
	s := buildC07(vrt.Range("nb0", 1, nb), vrt.Range("nb1", 1, vrt.Param("NB1", nb)), vrt.Choose("blackhole", 1+vrt.Param("BH", 1)) == 1,
		vrt.Choose("wlc", vrt.Param("MODES", 1)) == 1, false)
	s.kinds, s.kindsRest = vrt.Param("K", 3), vrt.Param("K", 3)
	s.requestC07("GET", 0)
	_, _, _ = s.p.clusterInvoke(s.srv, s.cluster, s.req, nil)
	s.checkC08()
}

// VerifC08_crossTwice: the cross-retry target when more than one cross attempt is allowed (narrow:
// CrossRetry fixed to its upper bound CR >= 2, RetryMax <= RM, one backend per sub-cluster with
// symbolic availability, fault kinds {ok, connect error}, body-less GET). Every attempt of the cross
// stage - not only the first - must go to a sub-cluster other than the request's assigned one.
func VerifC08_crossTwice() {
	s := buildC07(1, 1, vrt.Choose("blackhole", 1+vrt.Param("BH", 0)) == 1, false, false)
	vrt.Assume(s.cr == vrt.Param("CR", 2))
	s.kinds, s.kindsRest = vrt.Param("K", 2), vrt.Param("K", 2)
	s.requestC07("GET", 0)
	_, _, _ = s.p.clusterInvoke(s.srv, s.cluster, s.req, nil)
	s.checkC08()
	ncross := 0
	for i := 0; i < s.n && i < maxCallsC07; i++ {
		if s.cross[i] || i > s.rm {
			ncross++
		}
	}
	if ncross >= 2 {
		vrt.Cover("C08/second-cross-attempt-seen")
	}
}
