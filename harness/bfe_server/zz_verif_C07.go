package bfe_server

// C07 / C08 — shared scenario for the reverse proxy's retry loop.
//
// The REAL ReverseProxy.clusterInvoke and ReverseProxy.FinishReq are run on a hand-built BfeServer:
//   - a real bfe_balance.BalTable built with BalTableReload from config structs: one cluster "c" with
//     sub-clusters s0, s1 (1..NB backends each) and optionally GSLB_BLACKHOLE (one backend), sub-cluster
//     weights from a table of sign patterns, symbolic availability of every backend;
//   - a real bfe_cluster.BfeCluster (BasicInit) with symbolic RetryLevel, real BalanceGslb.SetGslbBasic
//     with symbolic RetryMax / CrossRetry, health-check conf with symbolic FailNum (so that OnFail may
//     take a backend out of service between attempts);
//   - real bfe_module.BfeCallbacks, optionally with a forward filter whose verdict is chosen per attempt;
//   - a harness RoundTripper (rtC07) whose i-th call returns a chosen fault kind and which records the
//     backend it was sent to (from outreq.URL.Host, as a real transport would see it).
// No sockets, no goroutines (the health checker's `go check(...)` is only recorded by the engine).

import (
	"errors"
	"net"
	"net/url"

	"github.com/bfenetworks/bfe/bfe_balance"
	"github.com/bfenetworks/bfe/bfe_balance/backend"
	"github.com/bfenetworks/bfe/bfe_balance/bal_gslb"
	"github.com/bfenetworks/bfe/bfe_balance/bal_slb"
	"github.com/bfenetworks/bfe/bfe_basic"
	"github.com/bfenetworks/bfe/bfe_config/bfe_cluster_conf/cluster_conf"
	"github.com/bfenetworks/bfe/bfe_config/bfe_cluster_conf/cluster_table_conf"
	"github.com/bfenetworks/bfe/bfe_config/bfe_cluster_conf/gslb_conf"
	"github.com/bfenetworks/bfe/bfe_fcgi"
	"github.com/bfenetworks/bfe/bfe_http"
	"github.com/bfenetworks/bfe/bfe_module"
	"github.com/bfenetworks/bfe/bfe_route/bfe_cluster"
	vrt "github.com/bfenetworks/bfe/zz_vrt"
)

// fault kinds of one RoundTrip call: every error type that clusterInvoke's switch names, plus an
// error of an unnamed type.
const (
	fOkC07          = iota
	fConnC07        // bfe_http.ConnectError
	fWriteC07       // bfe_http.WriteRequestError
	fOtherC07       // an error type the switch does not name
	fFcgiWriteC07   // bfe_fcgi.WriteRequestError
	fReadHdrC07     // bfe_http.ReadRespHeaderError
	fTimeoutC07     // bfe_http.RespHeaderTimeoutError
	fBrokenC07      // bfe_http.TransportBrokenError
	fFcgiConnC07    // bfe_fcgi.ConnectError
	fFcgiReadHdrC07 // bfe_fcgi.ReadRespHeaderError
	nFaultC07
)

const maxCallsC07 = 8

type bodyC07 struct{ left int }

func (b *bodyC07) Read(p []byte) (int, error) { return 0, errors.New("body consumed") }
func (b *bodyC07) Close() error               { return nil }

type scenC07 struct {
	srv     *BfeServer
	p       *ReverseProxy
	cluster *bfe_cluster.BfeCluster
	bal     *bal_gslb.BalanceGslb
	req     *bfe_basic.Request

	bks    []*backend.BfeBackend // all backends
	subOf  []int                 // sub-cluster index of each backend
	subBH  []bool                // per sub-cluster: blackhole?
	first  int                   // index of the request's assigned (first-choice) sub-cluster
	rm, cr int                   // RetryMax, CrossRetry
	level  int                   // RetryLevel
	method string
	body   int // 0 nil, 1 EofReader, 2 unread non-empty body

	// fault menu: call i may return any kind < kinds if i == rich, else any kind < kindsRest
	kinds, kindsRest, rich int
	fwd                    bool // forward filter registered

	// log written by the RoundTripper / forward filter
	n       int
	kind    [maxCallsC07]int
	target  [maxCallsC07]int  // backend index the call was addressed to (-1 unknown)
	cross   [maxCallsC07]bool // request.Stat.IsCrossCluster at the time of the call
	retryT  [maxCallsC07]int  // request.RetryTime at the time of the call
	fwdFin  bool              // a forward filter returned BfeHandlerFinish
	fwdSeen int
	finSeen int  // calls of the request-finish filter
	finFin  bool // the request-finish filter returned BfeHandlerFinish
}

func (s *scenC07) indexOfC07(b *backend.BfeBackend) int {
	for i := range s.bks {
		if s.bks[i] == b {
			return i
		}
	}
	return -1
}

type rtC07 struct{ s *scenC07 }

func errC07(k int) error {
	base := errors.New("injected")
	switch k {
	case fConnC07:
		return bfe_http.ConnectError{Addr: "x", Err: base}
	case fWriteC07:
		return bfe_http.WriteRequestError{Err: base}
	case fReadHdrC07:
		return bfe_http.ReadRespHeaderError{Err: base}
	case fTimeoutC07:
		return bfe_http.RespHeaderTimeoutError{}
	case fBrokenC07:
		return bfe_http.TransportBrokenError{}
	case fFcgiConnC07:
		return bfe_fcgi.ConnectError{Addr: "x", Err: base}
	case fFcgiWriteC07:
		return bfe_fcgi.WriteRequestError{Err: base}
	case fFcgiReadHdrC07:
		return bfe_fcgi.ReadRespHeaderError{Err: base}
	}
	return base
}

// RoundTrip is the fault-injecting transport. It also performs the C07 "in flight" observation: while
// an attempt is running, the addressed backend counts exactly this one request, every other backend none.
func (t *rtC07) RoundTrip(r *bfe_http.Request) (*bfe_http.Response, error) {
	s := t.s
	i := s.n
	s.n++
	tgt := -1
	for j := range s.bks {
		if r.URL != nil && r.URL.Host == s.bks[j].AddrInfo {
			tgt = j
		}
	}
	if i < maxCallsC07 {
		s.target[i] = tgt
		s.cross[i] = s.req.Stat.IsCrossCluster
		s.retryT[i] = s.req.RetryTime
	}
	for j := range s.bks {
		c := s.bks[j].ConnNum()
		vrt.Assert(c >= 0, "C07/never-negative")
		if j == tgt {
			vrt.Assert(c == 1, "C07/in-flight-backend-counts-request")
		} else {
			vrt.Assert(c == 0, "C07/other-backends-count-nothing")
		}
	}
	menu := s.kindsRest
	if i == s.rich {
		menu = s.kinds
	}
	k := vrt.Choose("fault", menu)
	if i < maxCallsC07 {
		s.kind[i] = k
	}
	if k == fOkC07 {
		return &bfe_http.Response{StatusCode: 200, Body: bfe_http.EofReader}, nil
	}
	vrt.Known("C07-fcgi-write-error-panics", k == fFcgiWriteC07)
	vrt.Known("C08-fcgi-write-error-panics", k == fFcgiWriteC07)
	return nil, errC07(k)
}

// (s0, s1) weights: both positive (equal / unequal), one zero (cross-retry target only), one negative
// (never used)
var weightsC07 = [][2]int{{1, 1}, {1, 0}, {0, 1}, {2, 1}, {1, -1}, {-1, 1}}

var addrsC07 = []string{"10.0.0.1", "10.0.0.2", "10.0.1.1", "10.0.1.2", "10.0.2.1"}

func mkBackendsC07(sub string, first, n int) cluster_table_conf.SubClusterBackend {
	var conf cluster_table_conf.SubClusterBackend
	for i := 0; i < n; i++ {
		name, addr, port, wt := sub+"-b", addrsC07[first+i], 8000+first+i, 1
		conf = append(conf, &cluster_table_conf.BackendConf{Name: &name, Addr: &addr, Port: &port, Weight: &wt})
	}
	return conf
}

func ipC07() *int { v := 1000; return &v }

// buildC07 builds the whole scenario. nb0/nb1: backends in s0/s1; bh: add GSLB_BLACKHOLE (with one
// backend configured for it, so that "never forwards to the blackhole" is not vacuous).
func buildC07(nb0, nb1 int, bh bool, wlc bool, allAvail bool) *scenC07 {
	s := &scenC07{rich: -1}

	// --- balancer table from config structs (real BalTableReload -> Reload/BackendReload/Update)
	gc := gslb_conf.GslbClusterConf{}
	cb := cluster_table_conf.ClusterBackend{}
	// sub-cluster weights are concrete (the first-choice hash is reduced modulo their sum; a symbolic
	// 64-bit modulus is very slow in the solver): every sign pattern the loader accepts
	wp := weightsC07[vrt.Choose("subweights", vrt.Param("WP", len(weightsC07)))]
	gc["s0"], gc["s1"] = wp[0], wp[1]
	cb["s0"], cb["s1"] = mkBackendsC07("s0", 0, nb0), mkBackendsC07("s1", 2, nb1)
	if bh {
		gc["GSLB_BLACKHOLE"] = vrt.Choose("blackhole-weight", 2)
		cb["GSLB_BLACKHOLE"] = mkBackendsC07("GSLB_BLACKHOLE", 4, 1)
	}
	vrt.Assume(gc.Check() == nil) // what the gslb loader enforces

	failNum := vrt.Int("failnum")
	vrt.Assume(failNum >= 1 && failNum <= 3)
	if allAvail {
		vrt.Assume(failNum == 3) // fixed threshold: keeps the retry-rule harness small (the budget harness varies it)
	}
	schem, uri, sc, succ, cto, civ := "tcp", "/", 200, 1, 1, 3600000
	checkConf := &cluster_conf.BackendCheck{Schem: &schem, Uri: &uri, StatusCode: &sc, FailNum: &failNum,
		SuccNum: &succ, CheckTimeout: &cto, CheckInterval: &civ}
	bt := bfe_balance.NewBalTable(func(cluster string) *cluster_conf.BackendCheck { return checkConf })
	ver, ts, host := "v", "ts", "h"
	clusters := gslb_conf.GslbClustersConf{"c": gc}
	all := cluster_table_conf.AllClusterBackend{"c": cb}
	err := bt.BalTableReload(gslb_conf.GslbConf{Clusters: &clusters, Hostname: &host, Ts: &ts},
		cluster_table_conf.ClusterTableConf{Version: &ver, Config: &all})
	vrt.Assume(err == nil)
	bal, err := bt.Lookup("c")
	vrt.Assume(err == nil && bal != nil)
	s.bal = bal

	// --- retry settings
	s.rm, s.cr = vrt.Int("retryMax"), vrt.Int("crossRetry")
	vrt.Assume(s.rm >= 0 && s.rm <= vrt.Param("RM", 2))
	vrt.Assume(s.cr >= 0 && s.cr <= vrt.Param("CR", 1))
	if vrt.Param("RFIX", 0) == 1 { // fixed retry settings (the retry-rule harness does not vary the budget)
		vrt.Assume(s.rm == vrt.Param("RM", 2) && s.cr == vrt.Param("CR", 1))
	}
	rm, cr := s.rm, s.cr
	strategy, sticky, mode := cluster_conf.ClientIpOnly, false, cluster_conf.BalanceModeWrr
	if wlc {
		mode = cluster_conf.BalanceModeWlc
	}
	gb := cluster_conf.GslbBasicConf{CrossRetry: &cr, RetryMax: &rm,
		HashConf: &cluster_conf.HashConf{HashStrategy: &strategy, SessionSticky: &sticky}, BalanceMode: &mode}
	bal.SetGslbBasic(gb)

	// --- cluster conf
	s.level = vrt.Int("retryLevel")
	vrt.Assume(s.level >= 0 && s.level <= 2)
	level := s.level
	proto, outlier, f := "http", "", false
	s.cluster = bfe_cluster.NewBfeCluster("c")
	s.cluster.BasicInit(cluster_conf.ClusterConf{
		BackendConf: &cluster_conf.BackendBasic{Protocol: &proto, TimeoutConnSrv: ipC07(), TimeoutResponseHeader: ipC07(),
			MaxIdleConnsPerHost: ipC07(), MaxConnsPerHost: ipC07(), RetryLevel: &level, SlowStartTime: new(int),
			OutlierDetectionHttpCode: &outlier},
		CheckConf: checkConf,
		GslbBasic: &gb,
		ClusterBasic: &cluster_conf.ClusterBasicConf{TimeoutReadClient: ipC07(), TimeoutWriteClient: ipC07(),
			TimeoutReadClientAgain: ipC07(), ReqWriteBufferSize: ipC07(), ReqFlushInterval: new(int),
			ResFlushInterval: new(int), CancelOnClientClose: &f},
	})

	// --- enumerate backends, symbolic availability
	ns := bal_gslb.VerifHelpSubsC07(bal)
	for si := 0; si < ns; si++ {
		_, isBH, _, bks := bal_gslb.VerifHelpSubC07(bal, si)
		s.subBH = append(s.subBH, isBH)
		for _, b := range bks {
			if !allAvail {
				b.SetAvail(vrt.Bool("avail"))
			}
			s.bks = append(s.bks, b)
			s.subOf = append(s.subOf, si)
		}
	}

	// --- server, proxy, transport
	s.srv = &BfeServer{CallBacks: bfe_module.NewBfeCallbacks(), balTable: bt}
	s.p = &ReverseProxy{transports: RoundTripperMap{"c": &rtC07{s}}, server: s.srv, proxyState: &ProxyState{}}
	s.srv.ReverseProxy = s.p
	return s
}

// keyC07 picks the client address (the sub-cluster hash key). Symbolically: 4 free bytes, the hash is
// uninterpreted. Natively (replay): search an address whose real murmur3 residue equals the model's.
func (s *scenC07) keyC07() net.IP {
	ip := net.IP(vrt.Bytes("ip", 4))
	if !vrt.Symbolic() {
		total := 0
		for si := 0; si < bal_gslb.VerifHelpSubsC07(s.bal); si++ {
			if _, _, w, _ := bal_gslb.VerifHelpSubC07(s.bal, si); w > 0 {
				total += w
			}
		}
		want := int(vrt.U64("murmur") % uint64(total))
		for x := 0; x < 1<<16; x++ {
			ip = net.IP{10, 9, byte(x >> 8), byte(x)}
			if bal_slb.GetHash(ip, uint(total)) == want {
				break
			}
		}
	}
	return ip
}

// requestC07 builds the request as ServeHTTP hands it to clusterInvoke.
func (s *scenC07) requestC07(method string, body int) {
	s.method, s.body = method, body
	peer := &net.TCPAddr{IP: net.IP{192, 0, 2, 1}, Port: 4000}
	in := &bfe_http.Request{Method: method, URL: &url.URL{Path: "/"}, Header: bfe_http.Header{}, Host: "h",
		State: &bfe_http.RequestState{}}
	switch body {
	case 1:
		in.Body = bfe_http.EofReader
	case 2:
		in.Body = &bodyC07{left: 3}
		in.ContentLength = 3
	}
	out := new(bfe_http.Request)
	*out = *in
	out.URL = &url.URL{Path: "/"}
	s.req = &bfe_basic.Request{Stat: &bfe_basic.RequestStat{}, HttpRequest: in, OutRequest: out,
		RemoteAddr: peer, ClientAddr: &net.TCPAddr{IP: s.keyC07(), Port: 4000}}
	s.first = bal_gslb.VerifHelpFirstChoiceC07(s.bal, s.req)
}

// forwardFilterC07 registers a HandleForward callback whose verdict is chosen per call.
func (s *scenC07) forwardFilterC07() {
	s.fwd = true
	err := s.srv.CallBacks.AddFilter(bfe_module.HandleForward, func(req *bfe_basic.Request) int {
		s.fwdSeen++
		if vrt.Choose("forward-verdict", 2) == 1 {
			s.fwdFin = true
			return bfe_module.BfeHandlerFinish
		}
		return bfe_module.BfeHandlerGoOn
	})
	vrt.Assume(err == nil)
}

// VerifC07_connnum: one request through clusterInvoke + FinishReq with symbolic retry settings, backend
// availability, per-attempt fault kinds and per-attempt forward-filter verdicts.
func VerifC07_connnum() {
	nb := vrt.Param("NB", 2)
	s := buildC07(vrt.Range("nb0", 1, nb), vrt.Range("nb1", 1, vrt.Param("NB1", nb)), vrt.Choose("blackhole", 1+vrt.Param("BH", 1)) == 1,
		vrt.Choose("wlc", vrt.Param("MODES", 1)) == 1, false)
	s.kinds, s.kindsRest = vrt.Param("K", nFaultC07), vrt.Param("K", nFaultC07)
	s.forwardFilterC07()
	s.requestC07("GET", 0)
	for j := range s.bks {
		vrt.Assert(s.bks[j].ConnNum() == 0, "C07/initially-zero")
	}

	_, _, _ = s.p.clusterInvoke(s.srv, s.cluster, s.req, nil)

	// between clusterInvoke and FinishReq the request is still assigned to Trans.Backend (the response
	// is being copied): nothing may be negative, no other backend may count anything
	cur := s.indexOfC07(s.req.Trans.Backend)
	for j := range s.bks {
		c := s.bks[j].ConnNum()
		vrt.Assert(c >= 0, "C07/never-negative")
		if j != cur {
			vrt.Assert(c == 0, "C07/other-backends-count-nothing")
		}
	}

	s.p.FinishReq(nil, s.req)

	// every backend other than the last assigned one first, the last assigned one at the end: the known
	// class below is exactly "a forward filter finished the request and the backend it was about to
	// use ends at -1"; any other deviation is still reported
	for j := range s.bks {
		if j != cur {
			c := s.bks[j].ConnNum()
			vrt.Assert(c >= 0, "C07/never-negative-after-finish")
			vrt.Assert(c == 0, "C07/zero-after-finish")
		}
	}
	if cur >= 0 {
		c := s.bks[cur].ConnNum()
		vrt.Known("C07-forward-finish-decrements-uncounted-backend", s.fwdFin && c == -1)
		vrt.Assert(c >= 0, "C07/never-negative-after-finish")
		vrt.Assert(c == 0, "C07/zero-after-finish")
	}
}

// requestFinishFilterC07 registers a HandleRequestFinish callback (the callback point of FinishReq)
// whose verdict is chosen per call.
func (s *scenC07) requestFinishFilterC07() {
	err := s.srv.CallBacks.AddFilter(bfe_module.HandleRequestFinish, func(req *bfe_basic.Request, res *bfe_http.Response) int {
		s.finSeen++
		vrt.Cover("C07/request-finish-filter-ran")
		if vrt.Choose("request-finish-verdict", 2) == 1 {
			s.finFin = true
			return bfe_module.BfeHandlerFinish
		}
		return bfe_module.BfeHandlerGoOn
	})
	vrt.Assume(err == nil)
}

// VerifC07_finish: the end of the request's life (narrow: two sub-clusters of one available backend,
// weights (1,1), fault kinds {ok, connect error}, RetryMax/CrossRetry <= 1). Two things the big
// harness does not vary:
//   - a HandleRequestFinish filter runs inside FinishReq and its verdict {GoOn, Finish} is chosen (module
//     verdicts of the request-finish phase);
//   - while the response is being copied to the client (between clusterInvoke and FinishReq) the
//     assigned backend may be taken out of rotation by failing attempts of other requests (OnFail x
//     FailNum, the real UpdateStatus path) and may then be brought back by its health checker (the two
//     statements check() executes on recovery: SetRestart(true); SetAvail(true)).
//
// Oracle as VerifC07_connnum: in flight the assigned backend counts 1 and every other 0, after FinishReq
// every backend counts 0, never negative.
func VerifC07_finish() {
	s := buildC07(1, 1, false, false, true)
	s.kinds, s.kindsRest = vrt.Param("K", 2), vrt.Param("K", 2)
	if vrt.Param("FWD", 0) == 1 {
		s.forwardFilterC07()
	}
	s.requestFinishFilterC07()
	s.requestC07("GET", 0)

	_, _, _ = s.p.clusterInvoke(s.srv, s.cluster, s.req, nil)

	cur := s.indexOfC07(s.req.Trans.Backend)
	if cur >= 0 {
		b := s.bks[cur]
		if flap := vrt.Choose("health-flap", 3); flap >= 1 {
			for k := 0; k < 3 && b.Avail(); k++ { // FailNum is 3 here
				b.OnFail("c")
			}
			if !b.Avail() {
				vrt.Cover("C07/taken-out-while-request-in-flight")
			}
			if flap == 2 {
				b.SetRestart(true)
				b.SetAvail(true)
				vrt.Cover("C07/revived-while-request-in-flight")
			}
		}
	}
	for j := range s.bks {
		c := s.bks[j].ConnNum()
		vrt.Assert(c >= 0, "C07/never-negative")
		if j == cur {
			vrt.Assert(c == 1, "C07/in-flight-backend-counts-request")
		} else {
			vrt.Assert(c == 0, "C07/other-backends-count-nothing")
		}
	}

	s.p.FinishReq(nil, s.req)

	if s.finFin && cur >= 0 {
		vrt.Cover("C07/request-finish-verdict-finish-with-backend")
	}
	for j := range s.bks {
		c := s.bks[j].ConnNum()
		vrt.Assert(c >= 0, "C07/never-negative-after-finish")
		vrt.Assert(c == 0, "C07/zero-after-finish")
	}
}
