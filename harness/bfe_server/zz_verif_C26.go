package bfe_server

// C26 — hop-by-hop headers are not forwarded.
// Kernel: hopByHopHeaderRemove (bfe_server/reverseproxy.go) followed by the real Request.Write
// (bfe_http/request.go: reqWriteExcludeHeader, Header.WriteSubset). The observation point is the header
// block of the bytes written for the backend, examined by a small reference header-block scanner.

import (
	"bytes"
	"net/url"

	"github.com/bfenetworks/bfe/bfe_http"
	vrt "github.com/bfenetworks/bfe/zz_vrt"
)

// the eight field names of the property, in canonical form
var hopNamesC26 = []string{
	"Connection", "Keep-Alive", "Proxy-Authenticate", "Proxy-Authorization",
	"Te", "Trailer", "Transfer-Encoding", "Upgrade",
}

func isOWSC26(c byte) bool { return c == ' ' || c == '\t' }

func lowerC26(c byte) byte {
	if 'A' <= c && c <= 'Z' {
		return c + 32
	}
	return c
}

// foldEqC26: ASCII case-insensitive equality (lengths are concrete in every use).
func foldEqC26(a, b []byte) bool {
	if len(a) != len(b) {
		return false
	}
	eq := true
	for i := 0; i < len(a); i++ {
		if lowerC26(a[i]) != lowerC26(b[i]) {
			eq = false
		}
	}
	return eq
}

func trimOWSC26(b []byte) []byte {
	for len(b) > 0 && isOWSC26(b[0]) {
		b = b[1:]
	}
	for len(b) > 0 && isOWSC26(b[len(b)-1]) {
		b = b[:len(b)-1]
	}
	return b
}

// connTokensC26: the field names listed in the client's Connection header (RFC 7230 §6.1:
// comma-separated tokens, optional whitespace, empty elements ignored).
func connTokensC26(h bfe_http.Header) [][]byte {
	var toks [][]byte
	for _, v := range h["Connection"] {
		b := []byte(v)
		start := 0
		for i := 0; i <= len(b); i++ {
			if i == len(b) || b[i] == ',' {
				t := trimOWSC26(b[start:i])
				if len(t) > 0 {
					toks = append(toks, t)
				}
				start = i + 1
			}
		}
	}
	return toks
}

// fieldC26 is one header line of the written block.
type fieldC26 struct{ name, value []byte }

// refHeaderBlockC26 scans "request-line CRLF *(name ":" OWS value OWS CRLF) CRLF" and returns the fields.
func refHeaderBlockC26(out []byte) (fields []fieldC26, ok bool) {
	pos := bytes.Index(out, []byte("\r\n"))
	if pos < 0 {
		return nil, false
	}
	pos += 2
	for {
		e := bytes.Index(out[pos:], []byte("\r\n"))
		if e < 0 {
			return nil, false
		}
		line := out[pos : pos+e]
		pos += e + 2
		if len(line) == 0 {
			return fields, pos == len(out)
		}
		c := bytes.IndexByte(line, ':')
		if c <= 0 {
			return nil, false
		}
		fields = append(fields, fieldC26{line[:c], trimOWSC26(line[c+1:])})
	}
}

// forbiddenC26: must this written field be absent according to the property?
func forbiddenC26(f fieldC26, toks [][]byte) bool {
	for _, n := range hopNamesC26 {
		if foldEqC26(f.name, []byte(n)) {
			if n == "Te" && foldEqC26(f.value, []byte("trailers")) {
				return false // "TE: trailers" may be forwarded
			}
			return true
		}
	}
	for _, t := range toks {
		if foldEqC26(f.name, t) {
			return true
		}
	}
	return false
}

// ---- known-finding classes (predicates over the input header set) ----

// a name listed in Connection is present as a header (and is not one of bfe's own HopHeaders).
func knownConnListedC26(h bfe_http.Header) bool {
	toks := connTokensC26(h)
	hit := false
	for k := range h {
		own := false
		for _, n := range []string{"Connection", "Keep-Alive", "Proxy-Authenticate", "Proxy-Authorization", "Te", "Trailers", "Transfer-Encoding", "Upgrade", "Trailer"} {
			if k == n {
				own = true
			}
		}
		if own {
			continue
		}
		for _, t := range toks {
			if foldEqC26([]byte(k), t) {
				hit = true
			}
		}
	}
	return hit
}

// the first value of a hop-by-hop header is the empty string (Header.Get()=="" is taken as "absent").
func knownEmptyFirstC26(h bfe_http.Header) bool {
	hit := false
	for _, n := range hopNamesC26 {
		if vv := h[n]; len(vv) > 0 && vv[0] == "" {
			hit = true
		}
	}
	return hit
}

// Te: first value is exactly "trailers" and a further value is something else.
func knownTeMultiC26(h bfe_http.Header) bool {
	vv := h["Te"]
	if len(vv) < 2 || vv[0] != "trailers" {
		return false
	}
	hit := false
	for _, v := range vv[1:] {
		if !foldEqC26(trimOWSC26([]byte(v)), []byte("trailers")) {
			hit = true
		}
	}
	return hit
}

// proxyAndWriteC26 does what ReverseProxy.ServeHTTP does to build the backend request
// (shallow copy, httpProtoSet, hopByHopHeaderRemove) and writes it with the real Request.Write.
func proxyAndWriteC26(h bfe_http.Header) []byte {
	req := &bfe_http.Request{
		Method: "GET", URL: &url.URL{Path: "/"}, RequestURI: "/",
		Proto: "HTTP/1.1", ProtoMajor: 1, ProtoMinor: 1,
		Header: h, Host: "h", State: &bfe_http.RequestState{},
	}
	outreq := new(bfe_http.Request)
	*outreq = *req
	httpProtoSet(outreq)
	hopByHopHeaderRemove(outreq, req)
	var wire bytes.Buffer
	err := outreq.Write(&wire)
	vrt.Assert(err == nil, "C26/write-no-error")
	return wire.Bytes()
}

func checkC26(h bfe_http.Header, toks [][]byte, out []byte) {
	fields, ok := refHeaderBlockC26(out)
	vrt.Assert(ok, "C26/written-block-parses")
	bad := false
	for _, f := range fields {
		if forbiddenC26(f, toks) {
			bad = true
		}
	}
	vrt.Assert(!bad, "C26/no-hop-header-written")
}

var connTemplatesC26 = []string{"x-a", "X-A , x-b", "close", "", "keep-alive", "te, X-B"}
var valTemplatesC26 = []string{"", "trailers", "x", "trailers, gzip", "Trailers"}

// VerifC26_sets: header sets over the universe {the 8 names, Trailers, X-A, X-B}; Connection and one
// further hop-by-hop field are absent or carry 1..2 values drawn from small value universes.
func VerifC26_sets() {
	nc := vrt.Param("CT", 3) // connection templates in use
	nv := vrt.Param("VT", 3) // value templates in use
	h := bfe_http.Header{}
	h["X-A"] = []string{"1"}
	h["X-B"] = []string{"2"}
	// Connection: absent / one / two values
	for i, n := 0, vrt.Range("nconn", 0, 2); i < n; i++ {
		h["Connection"] = append(h["Connection"], connTemplatesC26[vrt.Choose("conn", nc)])
	}
	// one more field of the universe
	others := []string{"Keep-Alive", "Proxy-Authenticate", "Proxy-Authorization", "Te", "Trailer", "Trailers", "Transfer-Encoding", "Upgrade"}
	if k := vrt.Choose("other", len(others)+1); k < len(others) {
		for i, n := 0, vrt.Range("nval", 1, 2); i < n; i++ {
			h[others[k]] = append(h[others[k]], valTemplatesC26[vrt.Choose("val", nv)])
		}
	}
	toks := connTokensC26(h)
	vrt.Known("C26-connection-listed-header", knownConnListedC26(h))
	vrt.Known("C26-empty-first-value", knownEmptyFirstC26(h))
	vrt.Known("C26-te-trailers-then-other", knownTeMultiC26(h))
	out := proxyAndWriteC26(h)
	checkC26(h, toks, out)
}

// VerifC26_symbolic: the same question with symbolic bytes. Header names are one letter ("A", "B") so
// that a short symbolic Connection value (every byte value) can name them in any spelling
// ("a", "A,b", " b ", ",a" …); one further hop-by-hop field carries a fully symbolic short value, and
// Te carries a symbolic 8-byte value (so "trailers" and its near misses are all covered).
func VerifC26_symbolic() {
	h := bfe_http.Header{}
	h["A"] = []string{"1"}
	h["B"] = []string{"2"}
	if lc := vrt.Range("lconn", -1, vrt.Param("LC", 3)); lc >= 0 { // -1: no Connection header
		h["Connection"] = []string{vrt.Str("conn", lc)}
	}
	others := []string{"Keep-Alive", "Te", "Upgrade", "Proxy-Authorization"}
	switch k := vrt.Choose("other", len(others)+2); {
	case k < len(others):
		lv := vrt.Range("lval", 0, vrt.Param("LV", 2))
		h[others[k]] = []string{vrt.Str("val", lv)}
	case k == len(others):
		h["Te"] = []string{vrt.Str("te8", 8)}
	}
	toks := connTokensC26(h)
	vrt.Known("C26-connection-listed-header", knownConnListedC26(h))
	vrt.Known("C26-empty-first-value", knownEmptyFirstC26(h))
	out := proxyAndWriteC26(h)
	checkC26(h, toks, out)
}

// ---------------------------------------------------------------------------------------------------
// Focused harnesses (added after the seeded-change review, see notes/C26.md).

// proxyAndWriteProtoC26: as proxyAndWriteC26 for a client request of the given protocol version (the
// reverse proxy serves HTTP/1.0, HTTP/1.1, SPDY (ProtoMajor 1) and HTTP/2 (ProtoMajor 2) clients alike).
func proxyAndWriteProtoC26(h bfe_http.Header, proto string, major, minor int) []byte {
	req := &bfe_http.Request{
		Method: "GET", URL: &url.URL{Path: "/"}, RequestURI: "/",
		Proto: proto, ProtoMajor: major, ProtoMinor: minor,
		Header: h, Host: "h", State: &bfe_http.RequestState{},
	}
	outreq := new(bfe_http.Request)
	*outreq = *req
	httpProtoSet(outreq)
	hopByHopHeaderRemove(outreq, req)
	var wire bytes.Buffer
	err := outreq.Write(&wire)
	vrt.Assert(err == nil, "C26/write-no-error")
	return wire.Bytes()
}

var teListsC26 = []string{"trailers, deflate;q=0.5", "gzip, trailers", "trailers", "deflate", "Trailers", "trailers,"}

// VerifC26_teLists: TE values that mention "trailers" next to other codings. 1..2 Te lines from the
// templates above, or one line "trailers" ++ 2 symbolic bytes (every byte value: "trailers,x",
// "trailers;q", "trailers  " ...). Only a field whose whole value is "trailers" may be written.
func VerifC26_teLists() {
	h := bfe_http.Header{}
	h["X-A"] = []string{"1"}
	nt := vrt.Param("TT", 4)
	if n := vrt.Range("nte", 0, 2); n == 0 {
		h["Te"] = []string{"trailers" + vrt.Str("tail", 2)}
	} else {
		for i := 0; i < n; i++ {
			h["Te"] = append(h["Te"], teListsC26[vrt.Choose("te", nt)])
		}
	}
	out := proxyAndWriteC26(h)
	checkC26(h, nil, out)
}

// VerifC26_clientProto: the same removal for every client protocol version. Connection names X-A; one
// further hop-by-hop field (or none) is present with the value "x".
func VerifC26_clientProto() {
	protos := []struct {
		name         string
		major, minor int
	}{{"HTTP/2.0", 2, 0}, {"HTTP/1.0", 1, 0}, {"HTTP/1.1", 1, 1}}
	p := protos[vrt.Choose("proto", len(protos))]
	h := bfe_http.Header{}
	h["X-A"] = []string{"1"}
	h["X-B"] = []string{"2"}
	if vrt.Bool("conn") {
		h["Connection"] = []string{"x-a"}
	}
	others := []string{"Keep-Alive", "Proxy-Authenticate", "Proxy-Authorization", "Te", "Trailer", "Transfer-Encoding", "Upgrade"}
	if k := vrt.Choose("other", len(others)+1); k < len(others) {
		h[others[k]] = []string{"x"}
	}
	toks := connTokensC26(h)
	out := proxyAndWriteProtoC26(h, p.name, p.major, p.minor)
	checkC26(h, toks, out)
	// end-to-end fields stay
	fields, _ := refHeaderBlockC26(out)
	kept := false
	for _, f := range fields {
		if foldEqC26(f.name, []byte("X-B")) {
			kept = true
		}
	}
	vrt.Assert(kept, "C26/end-to-end-header-kept")
}
