package gslb_conf

// C13 (gslb.data) — GslbConfLoad = decode + GslbConfCheck on every nil / non-nil shape of the decoded
// struct with symbolic weights. JSON decoding is outside (hook "verif-json:").

import (
	"encoding/json"
	"os"

	vrt "github.com/bfenetworks/bfe/zz_vrt"
)

var hookC13 *GslbConf

func VerifC13_decGslb(dst interface{}) error {
	*(dst.(*GslbConf)) = *hookC13
	return nil
}

func fileC13(hook string, v interface{}) string {
	if vrt.Symbolic() {
		return "verif-json:" + hook
	}
	b, err := json.Marshal(v)
	if err != nil {
		panic(err)
	}
	f, err := os.CreateTemp("", "verifC13-*.json")
	if err != nil {
		panic(err)
	}
	f.Write(b)
	f.Close()
	return f.Name()
}

func VerifC13_gslbConf() {
	host, ts := "gslb-sch.example.com", "20140516151616"
	conf := &GslbConf{}
	if vrt.Choose("hostname", 2) == 1 {
		conf.Hostname = &host
	}
	if vrt.Choose("ts", 2) == 1 {
		conf.Ts = &ts
	}
	w1, w2 := vrt.Int("weight"), vrt.Int("weight")
	vrt.Assume(w1 >= -1000000 && w1 <= 1000000 && w2 >= -1000000 && w2 <= 1000000)
	total := 0
	if w1 > 0 {
		total += w1
	}
	if w2 > 0 {
		total += w2
	}
	shape := vrt.Choose("clusters", 5)
	switch shape {
	case 1:
		conf.Clusters = &GslbClustersConf{}
	case 2:
		conf.Clusters = &GslbClustersConf{"c1": nil} // "c1": null
	case 3:
		conf.Clusters = &GslbClustersConf{"c1": GslbClusterConf{"sc1": w1, "sc2": w2}}
	case 4:
		conf.Clusters = &GslbClustersConf{"c1": GslbClusterConf{"sc1": w1, "sc2": w2}, "c2": GslbClusterConf{"sc1": 1}}
	}
	hookC13 = conf
	got, err := GslbConfLoad(fileC13("VerifC13_decGslb", conf))
	if err == nil {
		vrt.Assert(got.Clusters != nil && got.Hostname != nil && got.Ts != nil, "C13/gslb-accepted-fields-present")
		if shape >= 3 {
			// accepted => every cluster has a sub-cluster that can take traffic
			vrt.Assert(total > 0, "C13/gslb-accepted-cluster-has-positive-weight")
		}
		vrt.Assert(shape != 2, "C13/gslb-accepted-no-null-cluster")
	}
	if conf.Hostname != nil && conf.Ts != nil && (shape == 1 || shape >= 3 && total > 0) {
		vrt.Assert(err == nil, "C13/gslb-documented-accepted")
	}
}
