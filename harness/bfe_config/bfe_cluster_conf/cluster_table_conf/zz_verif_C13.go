package cluster_table_conf

// C13 (cluster_table.data) — ClusterTableLoad = decode + ClusterTableConfCheck / AllClusterBackendCheck /
// SubClusterBackend.Check / BackendConfCheck on every nil / non-nil shape of the decoded struct, including
// a null list entry. JSON decoding itself is outside (hook "verif-json:", see engine intrinsics_route.go;
// natively a real JSON file is written).

import (
	"encoding/json"
	"os"

	vrt "github.com/bfenetworks/bfe/zz_vrt"
)

var hookC13 *ClusterTableConf

func VerifC13_decClusterTable(dst interface{}) error {
	*(dst.(*ClusterTableConf)) = *hookC13
	return nil
}

func fileC13(hook string, v interface{}) string {
	if vrt.Symbolic() {
		return "verif-json:" + hook
	}
	b, err := json.Marshal(v)
	if err != nil {
		panic(err)
	}
	f, err := os.CreateTemp("", "verifC13-*.json")
	if err != nil {
		panic(err)
	}
	f.Write(b)
	f.Close()
	return f.Name()
}

func VerifC13_clusterTable() {
	ver := "v"
	conf := &ClusterTableConf{}
	if vrt.Choose("version", 2) == 1 {
		conf.Version = &ver
	}
	n := vrt.Range("backends", 0, vrt.Param("N", 2))
	hasNull := false
	complete := true
	anyAvail := false
	sub := SubClusterBackend{}
	for i := 0; i < n; i++ {
		if vrt.Choose("null-entry", 2) == 1 {
			sub = append(sub, nil) // what a JSON null list element decodes to
			hasNull = true
			continue
		}
		b := &BackendConf{}
		fields := vrt.Choose("fields", 5) // 0: all present, k: field k missing
		name, addr, port, weight := "b", "10.0.0.1", 80+i, vrt.Int("weight")
		if fields != 1 {
			b.Name = &name
		}
		if fields != 2 {
			b.Addr = &addr
		}
		if fields != 3 {
			b.Port = &port
		}
		if fields != 4 {
			b.Weight = &weight
		}
		if fields != 0 {
			complete = false
		}
		if weight > 0 {
			anyAvail = true
		}
		sub = append(sub, b)
	}
	switch vrt.Choose("config", 4) {
	case 1:
		conf.Config = &AllClusterBackend{}
	case 2:
		conf.Config = &AllClusterBackend{"c1": nil} // "c1": null
	case 3:
		conf.Config = &AllClusterBackend{"c1": ClusterBackend{"sc1": sub}}
	}
	full := conf.Config != nil && len(*conf.Config) == 1 && (*conf.Config)["c1"] != nil
	hookC13 = conf

	vrt.Known("C13-null-backend-entry-panics", hasNull)
	got, err := ClusterTableLoad(fileC13("VerifC13_decClusterTable", conf))

	if err == nil {
		// accepted => what bfe dereferences later is present
		vrt.Assert(got.Version != nil && got.Config != nil, "C13/cluster-table-accepted-has-version-and-config")
		if full {
			vrt.Assert(!hasNull && complete, "C13/cluster-table-accepted-backends-complete")
			for _, b := range (*got.Config)["c1"]["sc1"] {
				_ = b.AddrInfo() // dereferences Addr and Port
				_, _ = *b.Name, *b.Weight
			}
		}
	}
	// documented: Version, Config, every backend with Name/Addr/Port/Weight, a backend with weight > 0
	if conf.Version != nil && full && !hasNull && complete && anyAvail {
		vrt.Assert(err == nil, "C13/cluster-table-documented-accepted")
	}
	if conf.Version == nil || conf.Config == nil {
		vrt.Assert(err != nil, "C13/cluster-table-incomplete-rejected")
	}
}
