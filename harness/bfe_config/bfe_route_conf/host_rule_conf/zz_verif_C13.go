package host_rule_conf

// C13 (host_rule.data) — HostRuleConfLoad = decode + HostTableConfCheck + conversion on every nil / non-nil
// shape of the decoded struct (missing sections, null list values) over a small universe of tags and
// products. JSON decoding is outside (hook "verif-json:").

import (
	"encoding/json"
	"os"

	vrt "github.com/bfenetworks/bfe/zz_vrt"
)

var hookC13 *HostTableConf

func VerifC13_decHostTable(dst interface{}) error {
	*(dst.(*HostTableConf)) = *hookC13
	return nil
}

func fileC13(hook string, v interface{}) string {
	if vrt.Symbolic() {
		return "verif-json:" + hook
	}
	b, err := json.Marshal(v)
	if err != nil {
		panic(err)
	}
	f, err := os.CreateTemp("", "verifC13-*.json")
	if err != nil {
		panic(err)
	}
	f.Write(b)
	f.Close()
	return f.Name()
}

var tagNamesC13 = []string{"t1", "t2", "t3"}

func VerifC13_hostConf() {
	ver := "v"
	conf := &HostTableConf{}
	if vrt.Choose("version", 2) == 1 {
		conf.Version = &ver
	}
	// Hosts: tag t1 -> [a.c] always; a second tag entry: absent / null list / [b.c] under t2 / under t3
	hosts := HostTagToHost{"t1": &HostnameList{"a.c"}}
	second := vrt.Choose("second-host-tag", 4)
	secondTag := ""
	switch second {
	case 1:
		secondTag = "t2"
		hosts["t2"] = nil // "t2": null
	case 2:
		secondTag = "t2"
		hosts["t2"] = &HostnameList{"b.c"}
	case 3:
		secondTag = "t3"
		hosts["t3"] = &HostnameList{"b.c"}
	}
	if vrt.Choose("hosts", 2) == 1 {
		conf.Hosts = &hosts
	}
	// HostTags: p1 -> [t1] always; p2: absent / null list / [t2]
	tags := ProductToHostTag{"p1": &HostTagList{"t1"}}
	p2 := vrt.Choose("p2-tags", 3)
	switch p2 {
	case 1:
		tags["p2"] = nil
	case 2:
		tags["p2"] = &HostTagList{"t2"}
	}
	if vrt.Choose("host-tags", 2) == 1 {
		conf.HostTags = &tags
	}
	def := []string{"", "p1", "p2", "p9"}[vrt.Choose("default-product", 4)]
	if def != "" {
		conf.DefaultProduct = &def
	}
	hookC13 = conf

	got, err := HostRuleConfLoad(fileC13("VerifC13_decHostTable", conf))

	complete := conf.Version != nil && conf.Hosts != nil && conf.HostTags != nil
	// closed: every tag that has hosts belongs to a product; the default product is a product
	closed := (secondTag == "" || secondTag == "t2" && p2 == 2) && (def == "" || def == "p1" || def == "p2" && p2 != 0)
	noNull := second != 1 && p2 != 1
	if err == nil {
		vrt.Assert(complete, "C13/host-accepted-complete")
		vrt.Assert(closed, "C13/host-accepted-closed")
		// every configured host resolves to a tag that resolves to a product
		tag, ok := got.HostMap["a.c"]
		vrt.Assert(ok && got.HostTagMap[tag] == "p1", "C13/host-accepted-host-has-product")
		if second >= 2 {
			tag2, ok2 := got.HostMap["b.c"]
			vrt.Assert(ok2 && got.HostTagMap[tag2] == "p2", "C13/host-accepted-second-host-has-product")
		}
	}
	if complete && closed && noNull {
		vrt.Assert(err == nil, "C13/host-documented-accepted")
	}
	if !complete {
		vrt.Assert(err != nil, "C13/host-incomplete-rejected")
	}
}
