package route_rule_conf

// C11 — basic route rules follow the documented precedence.
//
// Kernel (all real): BasicRouteRuleTree.Insert/Get, hostTrees.insert/get, pathTrees.insert/get,
// string_reverse.ReverseFqdnHost and the armon/go-radix tree below them.
// Reference: docs/zh_cn/introduction/route.md "基础规则匹配顺序" as restated in the property.

import (
	vrt "github.com/bfenetworks/bfe/zz_vrt"
)

type ruleC11 struct {
	host string // "" = no host condition (any host)
	path string // "" = no path condition (any path)
}

// universe of basic rules; every (normalised host, path) pair occurs once, so every sub-table loads
var rulesC11 = []ruleC11{
	{"a.b", "/p"},     // 0 exact host, exact path
	{"A.b", "/p/*"},   // 1 same host written in another case, prefix path
	{"a.b", "*"},      // 2 exact host, any path
	{"*.b", "/p/q*"},  // 3 wildcard host, longer prefix (written without the slash before *)
	{"*.b", "/*"},     // 4 wildcard host, shortest prefix
	{"*", "/p/*"},     // 5 any host, prefix
	{"", "/p"},        // 6 any host (empty host condition), exact path
	{"*.a.b", "/p"},   // 7 nested wildcard host, exact path
	{"*.a.B", ""},     // 8 nested wildcard host (other case), any path (empty path condition)
	{"x.a.b", "/p/q"}, // 9 exact host below both wildcards, exact two-element path
	{"*.b", "/p/"},    // 10 wildcard host, exact path with trailing slash
	{"*", "*"},        // 11 any host, any path
}

func lowerC11(b byte) byte {
	if b >= 'A' && b <= 'Z' {
		return b + 32
	}
	return b
}

func lowerStrC11(s string) string {
	b := []byte(s)
	for i := range b {
		b[i] = lowerC11(b[i])
	}
	return string(b)
}

// eqFoldC11: symbolic h equals concrete lower-case s ignoring case
func eqFoldC11(h, s string) bool {
	if len(h) != len(s) {
		return false
	}
	ok := true
	for i := 0; i < len(h); i++ {
		if lowerC11(h[i]) != s[i] {
			ok = false
		}
	}
	return ok
}

func eqC11(a, b string) bool {
	if len(a) != len(b) {
		return false
	}
	ok := true
	for i := 0; i < len(a); i++ {
		if a[i] != b[i] {
			ok = false
		}
	}
	return ok
}

// hostClassC11: 0 exact, 1 single-label wildcard, 2 any host
func hostClassC11(h string) int {
	switch {
	case h == "" || h == "*":
		return 2
	case h[0] == '*':
		return 1
	}
	return 0
}

// hostMatchC11: does rule host pattern p match the request host (first label `first`, remaining
// labels joined `rest`, whole name `whole`)?
func hostMatchC11(p string, whole, rest string, nlabels int) bool {
	switch hostClassC11(p) {
	case 2:
		return true
	case 1: // "*.S": exactly one label in front of S
		return nlabels >= 2 && eqFoldC11(rest, lowerStrC11(p[2:]))
	}
	return eqFoldC11(whole, lowerStrC11(p))
}

// path condition kinds: 0 exact, 1 prefix (base returned without trailing slash), 2 any
func pathKindC11(p string) (kind int, base string) {
	if p == "" || p == "*" {
		return 2, ""
	}
	if p[len(p)-1] == '*' {
		b := p[:len(p)-1]
		if len(b) > 0 && b[len(b)-1] == '/' {
			b = b[:len(b)-1]
		}
		return 1, b
	}
	return 0, p
}

// prefixMatchC11: path r consists of the elements of base followed by zero or more further elements
// (a trailing slash of r is ignored): r == base (base non-empty) or r starts with base + "/".
func prefixMatchC11(r, base string) bool {
	if len(base) > 0 && eqC11(r, base) {
		return true
	}
	k := base + "/"
	return len(r) >= len(k) && eqC11(r[:len(k)], k)
}

// refC11: index of the rule the documentation selects, or -1.
// (Written without data-dependent control flow: symbolic conditions only guard assignments to locals.)
func refC11(rules []ruleC11, present []bool, whole, rest string, nlabels int, path string) int {
	result, decided := -1, false
	// 1. host class: exact, else wildcard, else any — the first class with at least one matching rule
	// decides; there is no fallback to a later class when the path does not match
	for class := 0; class <= 2; class++ {
		inClass := false
		// 2. path within the class: exact, else longest prefix, else any
		best, bestKind, bestLen := -1, 3, -1
		for i, r := range rules {
			if !present[i] || hostClassC11(r.host) != class {
				continue
			}
			hm := hostMatchC11(r.host, whole, rest, nlabels)
			kind, base := pathKindC11(r.path)
			m := true
			switch kind {
			case 0:
				m = eqC11(path, base)
			case 1:
				m = prefixMatchC11(path, base)
			}
			if hm {
				inClass = true
			}
			if hm && m && (kind < bestKind || kind == bestKind && kind == 1 && len(base) > bestLen) {
				best, bestKind, bestLen = i, kind, len(base)
			}
		}
		if inClass && !decided {
			result, decided = best, true
		}
	}
	return result
}

func VerifC11_precedence() {
	checkUniverseC11(rulesC11, vrt.Param("SUB", 2), vrt.Param("LABELS", 3), vrt.Param("ELEMS", 3), vrt.Param("ELEN", 2))
}

// checkUniverseC11: sub-tables with at most maxPresent rules of the universe, plus the full table, against a
// symbolic request host of 1..labels one-byte labels and a symbolic request path of <= elems elements.
func checkUniverseC11(rules []ruleC11, maxPresent, labels, elems, elen int) {
	nr := len(rules)
	present := make([]bool, nr)
	full := vrt.Choose("full-table", 2) == 1
	cnt := 0
	for i := 0; i < nr; i++ {
		if full {
			present[i] = true
		} else if cnt < maxPresent && vrt.Choose("present", 2) == 1 {
			present[i] = true
			cnt++
		}
	}
	tree := NewBasicRouteRuleTree()
	clusters := make([]string, nr)
	for i, r := range rules {
		if !present[i] {
			continue
		}
		clusters[i] = vrt.Str("cluster", 2)
		rf := &BasicRouteRuleFile{ClusterName: &clusters[i]}
		if r.host != "" {
			rf.Hostname = []string{r.host}
		}
		if r.path != "" {
			rf.Path = []string{r.path}
		}
		if err := tree.Insert(rf); err != nil {
			panic("C11 harness: universe rule rejected: " + err.Error())
		}
	}

	// request host: 1..LABELS labels of 1 symbolic ASCII byte (not '.', not ':')
	k := vrt.Range("labels", 1, labels)
	whole, rest := "", ""
	for i := 0; i < k; i++ {
		l := vrt.Str("label", 1)
		vrt.Assume(l[0] != '.' && l[0] != ':' && l[0] < 0x80)
		if i > 0 {
			whole += "."
		}
		whole += l
		if i == 1 {
			rest = l
		} else if i > 1 {
			rest += "." + l
		}
	}
	// request path: "" or "/" or 1..ELEMS elements of one symbolic byte (the last one 1..ELEN bytes; not '/'),
	// optional trailing slash
	path := ""
	e := vrt.Range("elems", -1, elems)
	if e == 0 {
		path = "/"
	}
	for i := 0; i < e; i++ {
		n := 1
		if i == e-1 {
			n = vrt.Range("last-elem-len", 1, elen) // "/p/qx" must not match "/p/q*"
		}
		c := vrt.Str("elem", n)
		for j := 0; j < n; j++ {
			vrt.Assume(c[j] != '/')
		}
		path += "/" + c
	}
	if e > 0 && vrt.Choose("trailing-slash", 2) == 1 {
		path += "/"
	}

	got, found := tree.Get(whole, path)
	want := refC11(rules, present, whole, rest, k, path)
	vrt.Assert(found == (want >= 0), "C11/found-iff-documented")
	if found && want >= 0 {
		vrt.Assert(got == clusters[want], "C11/cluster-of-documented-rule")
	}
}

// universe 2: an exact rule for a slash-terminated path next to a prefix rule rooted at the same path, in
// every host class ("/" with "/*", "/s/" with "/s/*" or "/s*"); the documented order (exact path before
// prefix) must hold for a request of exactly that path, and "/s" (no slash) must still take the prefix rule.
var rulesSlashC11 = []ruleC11{
	{"a.b", "/"},    // 0 exact host, exact root
	{"a.b", "/*"},   // 1 exact host, prefix rooted at the root
	{"a.b", "/s/"},  // 2 exact host, exact slash-terminated path
	{"a.b", "/s/*"}, // 3 exact host, prefix rooted at the same path
	{"*.b", "/s/"},  // 4 wildcard host, exact slash-terminated path
	{"*.b", "/s*"},  // 5 wildcard host, prefix rooted at the same path (written without the slash)
	{"*", "/"},      // 6 any host, exact root
	{"*", "/*"},     // 7 any host, prefix rooted at the root
}

func VerifC11_exactAndPrefixSamePath() {
	checkUniverseC11(rulesSlashC11, vrt.Param("SUB", 2), 2, vrt.Param("ELEMS", 2), 1)
}

func isLetterC11(b byte) bool { return b >= 'a' && b <= 'z' || b >= 'A' && b <= 'Z' }

// VerifC11_hostCaseFold: "host comparison is case-insensitive" for every letter. The rule host is
// "<L1><L2>.<L3>" (exact) or "*.<L1><L2>.<L3>" (wildcard) with symbolic ASCII letters/digits/hyphen in any
// case; the request host is any spelling that differs from it only in letter case. The rule must be the one
// that answers (an any-host rule with another cluster is always present).
func VerifC11_hostCaseFold() {
	l := vrt.Str("rule-label", 3)
	q := vrt.Str("req-label", 3)
	for i := 0; i < 3; i++ {
		vrt.Assume(isLetterC11(l[i]) || l[i] >= '0' && l[i] <= '9' || l[i] == '-')
		vrt.Assume(lowerC11(q[i]) == lowerC11(l[i]) && (isLetterC11(q[i]) || q[i] == l[i]))
	}
	ruleHost := l[:2] + "." + l[2:]
	reqHost := q[:2] + "." + q[2:]
	wildcard := vrt.Choose("wildcard-rule", 2) == 1
	if wildcard {
		ruleHost = "*." + ruleHost
		x := vrt.Str("first-label", 1)
		vrt.Assume(x[0] != '.' && x[0] != ':' && x[0] < 0x80)
		reqHost = x + "." + reqHost
	}
	cr, ca := "R", "A"
	tree := NewBasicRouteRuleTree()
	if err := tree.Insert(&BasicRouteRuleFile{Hostname: []string{ruleHost}, Path: []string{"*"}, ClusterName: &cr}); err != nil {
		panic("C11 harness: rule rejected: " + err.Error())
	}
	if err := tree.Insert(&BasicRouteRuleFile{Hostname: []string{"*"}, Path: []string{"*"}, ClusterName: &ca}); err != nil {
		panic("C11 harness: rule rejected: " + err.Error())
	}
	got, found := tree.Get(reqHost, "/p")
	vrt.Assert(found, "C11/case-variant-host-found")
	vrt.Assert(got == cr, "C11/case-variant-host-takes-its-rule")
}
