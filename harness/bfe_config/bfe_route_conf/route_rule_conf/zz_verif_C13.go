package route_rule_conf

// C13 (route_rule.data) — RouteConfLoad = decode + convert / convertBasicRule / convertAdvancedRule /
// checkHostInBasicRule / checkPathInBasicRule / BasicRouteRuleTree.Insert / condition.Build on nil / non-nil
// shapes of the decoded struct and a universe of documented and malformed host and path patterns.
// JSON decoding is outside (hook "verif-json:").

import (
	"encoding/json"
	"os"

	vrt "github.com/bfenetworks/bfe/zz_vrt"
)

var hookC13 *RouteTableFile

func VerifC13_decRouteTable(dst interface{}) error {
	*(dst.(*RouteTableFile)) = *hookC13
	return nil
}

func fileC13(hook string, v interface{}) string {
	if vrt.Symbolic() {
		return "verif-json:" + hook
	}
	b, err := json.Marshal(v)
	if err != nil {
		panic(err)
	}
	f, err := os.CreateTemp("", "verifC13-*.json")
	if err != nil {
		panic(err)
	}
	f.Write(b)
	f.Close()
	return f.Name()
}

type patC13 struct {
	s          string
	documented bool // follows docs/zh_cn/introduction/route.md
}

var hostPatsC13 = []patC13{
	{"www.a.com", true}, {"*.a.com", true}, {"*", true},
	{"", false}, {"*a.com", false}, {"*.*.com", false}, {"a.*.com", false}, {"a.com*", false},
}

var pathPatsC13 = []patC13{
	{"/a", true}, {"/a/*", true}, {"/*", true}, {"*", true}, {"/", true},
	{"", false}, {"/*/*", false}, {"/a*b", false}, {"**", false},
}

func sC13(s string) *string { return &s }

func VerifC13_routeConf() {
	ver := "v"
	file := &RouteTableFile{}
	if vrt.Choose("version", 2) == 1 {
		file.Version = &ver
	}
	documented := true
	// basic rules of product p1: none / section null / one rule / two rules
	nb := vrt.Choose("basic", 4) - 1
	if nb >= 0 {
		rules := BasicRouteRuleFiles{}
		for i := 0; i < nb; i++ {
			r := BasicRouteRuleFile{}
			hostSel := vrt.Choose("host", len(hostPatsC13)+1) // last: no host condition
			pathSel := vrt.Choose("path", len(pathPatsC13)+1) // last: no path condition
			if i == 0 && nb == 2 && vrt.Param("FULL2", 0) == 0 {
				// two rules: the first one only from {www.a.com, *} x {/a, *} (all pairs when FULL2=1)
				vrt.Assume((hostSel == 0 || hostSel == 2) && (pathSel == 0 || pathSel == 3))
			}
			if hostSel < len(hostPatsC13) {
				r.Hostname = []string{hostPatsC13[hostSel].s}
				documented = documented && hostPatsC13[hostSel].documented
			}
			if pathSel < len(pathPatsC13) {
				r.Path = []string{pathPatsC13[pathSel].s}
				documented = documented && pathPatsC13[pathSel].documented
			}
			if hostSel == len(hostPatsC13) && pathSel == len(pathPatsC13) {
				documented = false // at least one of the two conditions is required
			}
			if i == 1 {
				// second rule: the same (host, path) pair as the first one is a duplicate, not documented as valid
				first := rules[0]
				sameHost := len(first.Hostname) == len(r.Hostname) && (len(r.Hostname) == 0 || first.Hostname[0] == r.Hostname[0])
				samePath := len(first.Path) == len(r.Path) && (len(r.Path) == 0 || first.Path[0] == r.Path[0])
				if sameHost && samePath {
					documented = false
				}
				// "*" and "no condition" are the same any-host / any-path rule
				anyHost := func(x []string) bool { return len(x) == 0 || x[0] == "*" }
				anyPath := func(x []string) bool { return len(x) == 0 || x[0] == "*" }
				if (sameHost || anyHost(first.Hostname) && anyHost(r.Hostname)) && (samePath || anyPath(first.Path) && anyPath(r.Path)) {
					documented = false
				}
			}
			// cluster shapes: 0 no ClusterName, 1 c1, 2 ADVANCED_MODE
			first, count := 0, 3
			if nb == 2 && vrt.Param("FULL2", 0) == 0 {
				// reduced two-rule case: first rule c1 or ADVANCED_MODE, second rule c1
				first, count = 1, 2-i
			}
			switch first + vrt.Choose("basic-cluster", count) {
			case 0:
				documented = false // no ClusterName
			case 1:
				r.ClusterName = sC13("c1")
			case 2:
				r.ClusterName = sC13(AdvancedMode)
			}
			rules = append(rules, r)
		}
		file.BasicRule = &ProductBasicRouteRuleFile{"p1": rules}
	}
	// advanced rules of product p1: none / empty list / one rule
	na := vrt.Choose("advanced", 3) - 1
	if na >= 0 {
		rules := AdvancedRouteRuleFiles{}
		if na == 1 {
			r := AdvancedRouteRuleFile{}
			switch vrt.Choose("cond", 4) {
			case 0:
				documented = false // no Cond
			case 1:
				r.Cond = sC13("default_t()")
			case 2:
				r.Cond = sC13("req_host_in(\"www.c.com\")")
			case 3:
				r.Cond = sC13("req_host_in(")
				documented = false
			}
			if vrt.Choose("advanced-cluster", 2) == 1 {
				r.ClusterName = sC13("c1")
			} else {
				documented = false
			}
			rules = append(rules, r)
		}
		file.ProductRule = &ProductAdvancedRouteRuleFile{"p1": rules}
	}
	if file.Version == nil || nb < 0 && na < 0 {
		documented = false
	}
	hookC13 = file

	conf, err := RouteConfLoad(fileC13("VerifC13_decRouteTable", file))

	if documented {
		vrt.Assert(err == nil, "C13/route-documented-accepted")
	}
	if file.Version == nil || nb < 0 && na < 0 {
		vrt.Assert(err != nil, "C13/route-incomplete-rejected")
	}
	if err == nil {
		vrt.Assert(conf != nil, "C13/route-accepted-has-conf")
		// accepted => every rule of the file is in the tables with its cluster name (what check() and
		// LookupCluster read), and a tree exists for every product with basic rules
		if nb >= 0 {
			vrt.Assert(len(conf.BasicRuleMap["p1"]) == nb && conf.BasicRuleTree["p1"] != nil, "C13/route-accepted-basic-table")
			for i, r := range conf.BasicRuleMap["p1"] {
				vrt.Assert(r.ClusterName == *(*file.BasicRule)["p1"][i].ClusterName, "C13/route-accepted-basic-cluster")
			}
		}
		if na >= 0 {
			vrt.Assert(len(conf.AdvancedRuleMap["p1"]) == na, "C13/route-accepted-advanced-table")
			for _, r := range conf.AdvancedRuleMap["p1"] {
				vrt.Assert(r.Cond != nil && r.ClusterName == "c1", "C13/route-accepted-advanced-rule")
			}
		}
	}
}
