package pipe

// C21 — body pipes deliver data in order exactly once.
//
// Real code: Pipe.Read/Write/CloseWithError/BreakWithError/Err/Done/Release, FixedBuffer.*.
// The reference model is a byte queue of bounded capacity plus the flags closed / broken / released.
// sync.Cond.Wait ends a symbolic path as `blocked`; vrt.ExpectBlock says where the model demands that.

import (
	"errors"
	"io"
	"sync"
	"sync/atomic"
	"time"

	vrt "github.com/bfenetworks/bfe/zz_vrt"
)

var (
	errAC21 = errors.New("C21 close error A")
	errBC21 = errors.New("C21 close error B")
	errXC21 = errors.New("C21 break error X")
	errYC21 = errors.New("C21 break error Y")
)

var closeErrsC21 = []error{io.EOF, errAC21, errBC21}
var breakErrsC21 = []error{errXC21, errYC21}

const (
	oWriteC21 = iota
	oReadC21
	oCloseC21
	oBreakC21
	oErrC21
	oDoneC21
	oReleaseC21
	nOpsC21
)

// modelC21 is the reference pipe.
type modelC21 struct {
	capacity   int
	q          []byte // written and not yet read (concrete length, symbolic bytes)
	closed     bool
	broken     bool
	released   bool
	closeGiven [3]bool // which close errors were passed so far
	breakGiven [2]bool
}

func (m *modelC21) isCloseErr(e error) bool {
	ok := false
	for i, c := range closeErrsC21 {
		if m.closeGiven[i] && e == c {
			ok = true
		}
	}
	return ok
}

func (m *modelC21) isBreakErr(e error) bool {
	ok := false
	for i, c := range breakErrsC21 {
		if m.breakGiven[i] && e == c {
			ok = true
		}
	}
	return ok
}

func eqBytesC21(a, b []byte) bool {
	if len(a) != len(b) {
		return false
	}
	ok := true
	for i := 0; i < len(a); i++ {
		if a[i] != b[i] {
			ok = false
		}
	}
	return ok
}

func doneClosedC21(ch <-chan struct{}) bool {
	select {
	case <-ch:
		return true
	default:
		return false
	}
}

// stepC21 performs one operation on the real pipe and on the model and compares.
func stepC21(p *Pipe, m *modelC21, pool *sync.Pool, op int, rlen int) {
	switch op {
	case oWriteC21:
		l := vrt.Range("wlen", 0, m.capacity+1)
		d := vrt.Bytes("w", l)
		n, err := p.Write(d)
		vrt.Assert(n >= 0 && n <= l, "C21/write-count-in-range")
		vrt.Assert(n == l || err != nil, "C21/short-write-reports-error")
		if !m.closed && !m.released && !m.broken {
			free := m.capacity - len(m.q)
			if l <= free {
				vrt.Assert(n == l && err == nil, "C21/fitting-write-accepted")
			} else {
				vrt.Assert(n <= free, "C21/write-within-capacity")
			}
		}
		if m.released {
			vrt.Assert(n == 0, "C21/write-after-release-refused")
		}
		m.q = append(m.q, d[:n]...)
	case oReadC21:
		l := rlen
		if l < 0 {
			l = vrt.Range("rlen", 0, m.capacity+1)
		}
		d := make([]byte, l)
		switch {
		case m.broken:
			n, err := p.Read(d)
			vrt.Assert(n == 0 && m.isBreakErr(err), "C21/break-reported-immediately")
		case len(m.q) > 0:
			n, err := p.Read(d)
			vrt.Assert(err == nil, "C21/no-error-before-drain")
			vrt.Assert(n >= 0 && n <= l && n <= len(m.q), "C21/read-count-in-range")
			vrt.Assert(l == 0 || n > 0, "C21/read-makes-progress")
			vrt.Assert(eqBytesC21(d[:n], m.q[:n]), "C21/read-data-in-order")
			m.q = m.q[n:]
		case m.closed:
			n, err := p.Read(d)
			vrt.Assert(n == 0 && m.isCloseErr(err), "C21/close-reported-after-drain")
		default:
			// no data, not closed: the reader must wait
			vrt.ExpectBlock("C21/read-blocks")
			p.Read(d)
			vrt.ExpectBlock("")
			vrt.Assert(false, "C21/read-must-block")
		}
	case oCloseC21:
		i := vrt.Choose("cerr", len(closeErrsC21))
		p.CloseWithError(closeErrsC21[i])
		m.closed = true
		m.closeGiven[i] = true
	case oBreakC21:
		i := vrt.Choose("berr", len(breakErrsC21))
		p.BreakWithError(breakErrsC21[i])
		m.broken = true
		m.breakGiven[i] = true
	case oErrC21:
		e := p.Err()
		if m.broken {
			vrt.Assert(m.isBreakErr(e), "C21/err-reports-break")
		} else if m.closed {
			vrt.Assert(m.isCloseErr(e), "C21/err-reports-close")
		} else {
			vrt.Assert(e == nil, "C21/err-nil-while-open")
		}
	case oDoneC21:
		vrt.Assert(doneClosedC21(p.Done()) == (m.closed || m.broken), "C21/done-iff-closed")
	case oReleaseC21:
		if m.released {
			return // Release is called at most once per pipe (bfe_http2 / bfe_spdy closeStream)
		}
		p.Release(pool)
		m.released = true
		m.q = nil
	}
}

// VerifC21_sequential: every history of N operations on a pipe with a fixed buffer of 1..CAP bytes.
func VerifC21_sequential() {
	capacity := vrt.Range("cap", 1, vrt.Param("CAP", 2))
	p := NewPipeWithSize(uint32(capacity))
	m := &modelC21{capacity: capacity}
	var pool sync.Pool
	n := vrt.Param("N", 3)
	for t := 0; t < n; t++ {
		stepC21(p, m, &pool, vrt.Choose("op", nOpsC21), -1)
	}
	// drain: everything still queued comes back, in order (then the close error, or the reader waits)
	if !m.broken {
		for i := 0; i <= capacity; i++ {
			if len(m.q) == 0 && !m.closed {
				break
			}
			stepC21(p, m, &pool, oReadC21, capacity)
			if len(m.q) == 0 && m.closed && i > 0 {
				break
			}
		}
	}
}

// VerifC21_fixedBuffer: FixedBuffer alone: N writes/reads with chosen sizes against the queue model.
func VerifC21_fixedBuffer() {
	capacity := vrt.Range("cap", 1, vrt.Param("CAP", 3))
	b := NewFixedBuffer(make([]byte, capacity))
	var q []byte
	n := vrt.Param("N", 4)
	for t := 0; t < n; t++ {
		if vrt.Choose("op", 2) == 0 {
			l := vrt.Range("wlen", 0, capacity+1)
			d := vrt.Bytes("w", l)
			k, err := b.Write(d)
			free := capacity - len(q)
			if l <= free {
				vrt.Assert(k == l && err == nil, "C21/fb-fitting-write-accepted")
			} else {
				vrt.Assert(err != nil && k >= 0 && k <= free, "C21/fb-overfull-write-reports-error")
			}
			q = append(q, d[:k]...)
		} else {
			l := vrt.Range("rlen", 0, capacity+1)
			d := make([]byte, l)
			k, err := b.Read(d)
			if len(q) == 0 {
				vrt.Assert(k == 0 && err != nil, "C21/fb-read-empty-is-error")
			} else {
				vrt.Assert(err == nil && k <= l && k <= len(q) && (l == 0 || k > 0), "C21/fb-read-count")
				vrt.Assert(eqBytesC21(d[:k], q[:k]), "C21/fb-read-data-in-order")
				q = q[k:]
			}
		}
		vrt.Assert(b.Len() == len(q), "C21/fb-len")
	}
}

// ---------- two parties ----------

// parkC21 stands for a reader parked in p.c.Wait() inside Pipe.Read. Read's loop keeps no state across
// iterations, so "woken, then re-check under the lock" is the same as calling Read afresh; the harness
// therefore does not keep the real Read call open while the reader waits. Symbolically the wake-up is
// observed as "a Signal/Broadcast was executed since parking" (vrt.CondSignals); natively a helper
// goroutine really waits on p.c, so replays of a lost wake-up reproduce.
type parkC21 struct {
	base  int
	woken int32
}

func startParkC21(p *Pipe) *parkC21 {
	pk := &parkC21{}
	if vrt.Symbolic() {
		pk.base = vrt.CondSignals()
		return pk
	}
	ready := make(chan struct{})
	go func() {
		p.mu.Lock()
		if p.c.L == nil {
			p.c.L = &p.mu
		}
		close(ready)
		p.c.Wait()
		atomic.StoreInt32(&pk.woken, 1)
		p.mu.Unlock()
	}()
	<-ready
	p.mu.Lock() // succeeds once the helper released the lock inside Wait
	p.mu.Unlock()
	return pk
}

func (pk *parkC21) isWoken() bool {
	if vrt.Symbolic() {
		return vrt.CondSignals() > pk.base
	}
	for i := 0; i < 50 && atomic.LoadInt32(&pk.woken) == 0; i++ {
		time.Sleep(time.Millisecond)
	}
	return atomic.LoadInt32(&pk.woken) == 1
}

func readyC21(m *modelC21) bool { return m.broken || m.closed || len(m.q) > 0 }

// VerifC21_twoParty: a writer script (WOPS operations from {Write, CloseWithError, BreakWithError}) and a
// reader script (ROPS Reads), interleaved at the granularity of the pipe's critical sections; vrt.Choose
// picks who moves next. A Read that finds nothing parks; it moves again only after a Signal. Claim: no
// reachable state has the reader parked and un-signalled while data, closure or break is pending (no
// lost wake-up), every Read that is let through returns what the model says, and no operation finds the
// mutex still held.
func VerifC21_twoParty() {
	capacity := vrt.Range("cap", 1, vrt.Param("CAP", 2))
	p := NewPipeWithSize(uint32(capacity))
	m := &modelC21{capacity: capacity}
	var pool sync.Pool
	wops, rops := vrt.Param("WOPS", 2), vrt.Param("ROPS", 2)
	wi, ri := 0, 0
	var park *parkC21
	rlen := 0
	for step := 0; step < 3*(wops+rops)+2; step++ {
		wEn := wi < wops
		rEn := ri < rops && (park == nil || park.isWoken())
		if !wEn && !rEn {
			break
		}
		writerMoves := wEn
		if wEn && rEn {
			writerMoves = vrt.Choose("who", 2) == 0
		}
		if writerMoves {
			stepC21(p, m, &pool, []int{oWriteC21, oCloseC21, oBreakC21}[vrt.Choose("wop", 3)], -1)
			wi++
			if park != nil && readyC21(m) {
				vrt.Assert(park.isWoken(), "C21/no-lost-wakeup")
			}
			continue
		}
		// the reader moves: a fresh Read, or the re-check after a wake-up
		if park == nil {
			rlen = vrt.Range("rlen", 1, capacity+1)
		}
		if readyC21(m) {
			stepC21(p, m, &pool, oReadC21, rlen)
			park = nil
			ri++
			continue
		}
		if vrt.Choose("verify-wait", 2) == 1 {
			stepC21(p, m, &pool, oReadC21, rlen) // expects the real Read to block here; ends the path
		}
		park = startParkC21(p)
	}
	// quiescence: a reader still parked although something is pending would be a deadlock
	if park != nil && readyC21(m) {
		vrt.Assert(park.isWoken(), "C21/no-lost-wakeup")
	}
}
