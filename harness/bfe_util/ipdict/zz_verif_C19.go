package ipdict

// C19 — IP dictionaries report exact membership.
//
// Real code: IPItems.InsertPair/InsertSingle/Sort (sort.Sort from real SSA, mergeItems, checkMerge),
// IPTable.Update/Search, hash_set (C20). Reference: the membership predicate itself.

import (
	"net"

	"github.com/bfenetworks/bfe/bfe_util/hash_set"
	vrt "github.com/bfenetworks/bfe/zz_vrt"
)

// cmp16C19: bytewise (big-endian) order of two 16-byte addresses: a <= b
func le16C19(a, b []byte) bool {
	// scan from the least significant byte: the most significant difference decides
	le := true
	for i := 15; i >= 0; i-- {
		if a[i] < b[i] {
			le = true
		} else if a[i] > b[i] {
			le = false
		}
	}
	return le
}

func eq16C19(a, b []byte) bool {
	eq := true
	for i := 0; i < 16; i++ {
		if a[i] != b[i] {
			eq = false
		}
	}
	return eq
}

func isZero16C19(a []byte) bool {
	z := true
	for i := 0; i < 16; i++ {
		if a[i] != 0 {
			z = false
		}
	}
	return z
}

// isV4C19: the address is an IPv4-mapped one (what net.IP.To4 accepts for a 16-byte slice)
func isV4C19(a []byte) bool {
	v4 := a[10] == 0xff && a[11] == 0xff
	for i := 0; i < 10; i++ {
		if a[i] != 0 {
			v4 = false
		}
	}
	return v4
}

// prefixes an address may have; the last FREE bytes are symbolic, the bytes between are zero.
// 0: ::/96 (contains ::), 1: ::ffff:0:0/96 (IPv4-mapped, contains 0.0.0.0), 2: 2001:db8::/32-ish
func addrC19(free int) []byte {
	a := make([]byte, 16)
	if free >= 16 {
		copy(a, vrt.Bytes("ip", 16))
		return a
	}
	return addrClassC19(free, vrt.Choose("family", 3))
}

// addrClassC19: an address of the given prefix class (0, 1, 2 as above), last `free` (< 16) bytes symbolic
func addrClassC19(free, class int) []byte {
	a := make([]byte, 16)
	switch class {
	case 1:
		a[10], a[11] = 0xff, 0xff
	case 2:
		a[0], a[1] = 0x20, 0x01
	}
	copy(a[16-free:], vrt.Bytes("ip", free))
	return a
}

// hashC19 replaces ipdict.Hash (fnv-1 over 16 bytes) for the single-address set: C20 shows that the
// set's answers do not depend on the hash function.
func hashC19(k []byte) uint64 {
	return uint64(k[15]) + uint64(k[14])
}

// VerifC19_membership: NP ranges + NS singles + one probe, all symbolic (last FREE bytes free).
func VerifC19_membership() { runC19(vrt.Param("FREE", 1)) }

// VerifC19_membershipWide: the same check with more symbolic bytes per address and fewer ranges.
func VerifC19_membershipWide() { runC19(vrt.Param("FREE", 4)) }

func runC19(free int) {
	np := vrt.Range("pairs", 0, vrt.Param("NP", 2))
	ns := vrt.Range("singles", 0, vrt.Param("NS", 1))
	starts := make([][]byte, np)
	ends := make([][]byte, np)
	for i := 0; i < np; i++ {
		s, e := addrC19(free), addrC19(free)
		// what checkIPPair admits: start <= end, both IPv4 or both not
		vrt.Assume(le16C19(s, e) && isV4C19(s) == isV4C19(e))
		starts[i], ends[i] = s, e
	}
	singles := make([][]byte, ns)
	for i := 0; i < ns; i++ {
		singles[i] = addrC19(free)
	}
	loadAndCheckC19(starts, ends, nil, nil, singles, addrC19(free), false)
}

// isZeroEndC19: the address is :: or 0.0.0.0 (::ffff:0.0.0.0) - as a range end this is the in-band marker
// of a merged-away entry.
func isZeroEndC19(e []byte) bool {
	return isZero16C19(e) || (isV4C19(e) && e[12] == 0 && e[13] == 0 && e[14] == 0 && e[15] == 0)
}

// ipC19 hands an address to the code under test: a private copy, in the 4-byte net.IP form if four.
func ipC19(a []byte, four bool) net.IP {
	if four {
		return net.IP(append([]byte{}, a[12:16]...))
	}
	return net.IP(append([]byte{}, a...))
}

// loadAndCheckC19 loads the ranges [starts[i], ends[i]] and the singles (all given as 16-byte reference
// forms; f4s[i] / f4e[i] (may be nil): the bound is handed over as a 4-byte net.IP) through the real
// InsertPair/InsertSingle/Sort/Update and compares Search(probe) with the membership predicate.
func loadAndCheckC19(starts, ends [][]byte, f4s, f4e []bool, singles [][]byte, probe []byte, probe4 bool) {
	np, ns := len(starts), len(singles)
	set, err := hash_set.NewHashSet(ns+1, IP_LENGTH, true, hashC19)
	vrt.Assert(err == nil, "C19/new")
	items := &IPItems{ipSet: set, items: make(ipPairs, 0, np)}
	for i := 0; i < np; i++ {
		a4, b4 := f4s != nil && f4s[i], f4e != nil && f4e[i]
		vrt.Assert(items.InsertPair(ipC19(starts[i], a4), ipC19(ends[i], b4)) == nil, "C19/insert-pair")
	}
	for i := 0; i < ns; i++ {
		vrt.Assert(items.InsertSingle(ipC19(singles[i], false)) == nil, "C19/insert-single")
	}
	items.Sort()
	table := NewIPTable()
	table.Update(items)

	want := false
	for i := 0; i < np; i++ {
		if le16C19(starts[i], probe) && le16C19(probe, ends[i]) {
			want = true
		}
	}
	for i := 0; i < ns; i++ {
		if eq16C19(singles[i], probe) {
			want = true
		}
	}
	// Known defect classes: "::" / "0.0.0.0" as a range end is the in-band marker for "merged away".
	// (1) a loaded range [z, z] with z = :: or 0.0.0.0 is taken for such a marker and never merged with
	//     another loaded range that contains z: the table keeps overlapping entries;
	// (2) a range that starts at :: (and does not end there) ties with the markers when the merged list is
	//     re-sorted and cut.
	// A range [z, z] that no other range overlaps is handled correctly and is outside both classes.
	zeroEndOverlap, zeroStart := false, false
	for i := 0; i < np; i++ {
		for j := 0; j < np; j++ {
			if j != i && isZeroEndC19(ends[i]) && le16C19(starts[j], ends[i]) && le16C19(ends[i], ends[j]) {
				zeroEndOverlap = true
			}
		}
		if isZero16C19(starts[i]) && !isZero16C19(ends[i]) {
			zeroStart = true
		}
	}
	vrt.Known("C19-zero-end-range-not-merged", zeroEndOverlap)
	vrt.Known("C19-range-starting-at-zero-lost-after-merge", zeroStart)
	got := table.Search(ipC19(probe, probe4))
	vrt.Assert(got == want, "C19/membership")
}

// VerifC19_zeroRange: the range [z, z] with z = :: or 0.0.0.0 (legal input, and also the value the merge step
// writes into merged-away entries) loaded together with NP-1 symbolic ranges (so that merges can happen
// elsewhere in the table), then a symbolic probe.
func VerifC19_zeroRange() {
	free := vrt.Param("FREE", 1)
	np := vrt.Param("NP", 3)
	starts := make([][]byte, np)
	ends := make([][]byte, np)
	z := make([]byte, 16)
	if vrt.Choose("zero", 2) == 1 {
		z[10], z[11] = 0xff, 0xff
	}
	starts[0], ends[0] = z, z
	// SAMECLASS=1: the other ranges all lie in one prefix class (chosen once), otherwise every bound chooses
	class := -1
	if vrt.Param("SAMECLASS", 0) == 1 {
		class = vrt.Choose("family", 3)
	}
	for i := 1; i < np; i++ {
		var s, e []byte
		if class >= 0 {
			s, e = addrClassC19(free, class), addrClassC19(free, class)
		} else {
			s, e = addrC19(free), addrC19(free)
		}
		vrt.Assume(le16C19(s, e) && isV4C19(s) == isV4C19(e))
		starts[i], ends[i] = s, e
	}
	loadAndCheckC19(starts, ends, nil, nil, nil, addrC19(free), false)
}

// addrV4C19: an IPv4-mapped address ::ffff:0.0.x.y with the last `free` (<= 4) bytes symbolic
func addrV4C19(free int) []byte {
	a := make([]byte, 16)
	a[10], a[11] = 0xff, 0xff
	copy(a[16-free:], vrt.Bytes("ip4", free))
	return a
}

// VerifC19_fourByte: IPv4 ranges and probes in the 4-byte net.IP form (net.IP{a,b,c,d}, ip.To4(),
// net.IPNet.IP ...): 1..NP IPv4 ranges whose bounds are handed to InsertPair as 4-byte or 16-byte slices
// (chosen per range, or per bound with PERBOUND=1), then a probe of any family, an IPv4 probe as 4-byte or 16-byte slice.
func VerifC19_fourByte() {
	free := vrt.Param("FREE", 1)
	np := vrt.Range("pairs", 1, vrt.Param("NP", 2))
	starts := make([][]byte, np)
	ends := make([][]byte, np)
	f4s := make([]bool, np)
	f4e := make([]bool, np)
	for i := 0; i < np; i++ {
		s, e := addrV4C19(free), addrV4C19(free)
		vrt.Assume(le16C19(s, e))
		starts[i], ends[i] = s, e
		// PERBOUND=1: the form is chosen per bound, otherwise per range
		f4s[i] = vrt.Choose("form", 2) == 1
		f4e[i] = f4s[i]
		if vrt.Param("PERBOUND", 0) == 1 {
			f4e[i] = vrt.Choose("form", 2) == 1
		}
	}
	var probe []byte
	probe4 := false
	if vrt.Choose("probefamily", 2) == 1 {
		probe = addrV4C19(free)
		probe4 = vrt.Choose("form", 2) == 1
	} else {
		probe = addrC19(free)
	}
	loadAndCheckC19(starts, ends, f4s, f4e, nil, probe, probe4)
}
