package ipdict

// C19 — IP dictionaries report exact membership.
//
// Real code: IPItems.InsertPair/InsertSingle/Sort (sort.Sort from real SSA, mergeItems, checkMerge),
// IPTable.Update/Search, hash_set (C20). Reference: the membership predicate itself.

import (
	"net"

	"github.com/bfenetworks/bfe/bfe_util/hash_set"
	vrt "github.com/bfenetworks/bfe/zz_vrt"
)

// cmp16C19: bytewise (big-endian) order of two 16-byte addresses: a <= b
func le16C19(a, b []byte) bool {
	// scan from the least significant byte: the most significant difference decides
	le := true
	for i := 15; i >= 0; i-- {
		if a[i] < b[i] {
			le = true
		} else if a[i] > b[i] {
			le = false
		}
	}
	return le
}

func eq16C19(a, b []byte) bool {
	eq := true
	for i := 0; i < 16; i++ {
		if a[i] != b[i] {
			eq = false
		}
	}
	return eq
}

func isZero16C19(a []byte) bool {
	z := true
	for i := 0; i < 16; i++ {
		if a[i] != 0 {
			z = false
		}
	}
	return z
}

// isV4C19: the address is an IPv4-mapped one (what net.IP.To4 accepts for a 16-byte slice)
func isV4C19(a []byte) bool {
	v4 := a[10] == 0xff && a[11] == 0xff
	for i := 0; i < 10; i++ {
		if a[i] != 0 {
			v4 = false
		}
	}
	return v4
}

// prefixes an address may have; the last FREE bytes are symbolic, the bytes between are zero.
// 0: ::/96 (contains ::), 1: ::ffff:0:0/96 (IPv4-mapped, contains 0.0.0.0), 2: 2001:db8::/32-ish
func addrC19(free int) []byte {
	a := make([]byte, 16)
	if free >= 16 {
		copy(a, vrt.Bytes("ip", 16))
		return a
	}
	switch vrt.Choose("family", 3) {
	case 1:
		a[10], a[11] = 0xff, 0xff
	case 2:
		a[0], a[1] = 0x20, 0x01
	}
	copy(a[16-free:], vrt.Bytes("ip", free))
	return a
}

// hashC19 replaces ipdict.Hash (fnv-1 over 16 bytes) for the single-address set: C20 shows that the
// set's answers do not depend on the hash function.
func hashC19(k []byte) uint64 {
	return uint64(k[15]) + uint64(k[14])
}

// VerifC19_membership: NP ranges + NS singles + one probe, all symbolic (last FREE bytes free).
func VerifC19_membership() { runC19(vrt.Param("FREE", 1)) }

// VerifC19_membershipWide: the same check with more symbolic bytes per address and fewer ranges.
func VerifC19_membershipWide() { runC19(vrt.Param("FREE", 4)) }

func runC19(free int) {
	np := vrt.Range("pairs", 0, vrt.Param("NP", 2))
	ns := vrt.Range("singles", 0, vrt.Param("NS", 1))
	set, err := hash_set.NewHashSet(ns+1, IP_LENGTH, true, hashC19)
	vrt.Assert(err == nil, "C19/new")
	items := &IPItems{ipSet: set, items: make(ipPairs, 0, np)}

	starts := make([][]byte, np)
	ends := make([][]byte, np)
	zeroStart, zeroEnd := false, false
	for i := 0; i < np; i++ {
		s, e := addrC19(free), addrC19(free)
		// what checkIPPair admits: start <= end, both IPv4 or both not
		vrt.Assume(le16C19(s, e) && isV4C19(s) == isV4C19(e))
		starts[i], ends[i] = s, e
		zeroStart = zeroStart || isZero16C19(s)
		zeroEnd = zeroEnd || isZero16C19(e) || (isV4C19(e) && e[12] == 0 && e[13] == 0 && e[14] == 0 && e[15] == 0)
		// the table gets its own copies
		vrt.Assert(items.InsertPair(net.IP(append([]byte{}, s...)), net.IP(append([]byte{}, e...))) == nil, "C19/insert-pair")
	}
	singles := make([][]byte, ns)
	for i := 0; i < ns; i++ {
		a := addrC19(free)
		singles[i] = a
		vrt.Assert(items.InsertSingle(net.IP(append([]byte{}, a...))) == nil, "C19/insert-single")
	}
	items.Sort()
	table := NewIPTable()
	table.Update(items)

	probe := addrC19(free)
	want := false
	for i := 0; i < np; i++ {
		if le16C19(starts[i], probe) && le16C19(probe, ends[i]) {
			want = true
		}
	}
	for i := 0; i < ns; i++ {
		if eq16C19(singles[i], probe) {
			want = true
		}
	}
	// Known defect classes: "::" / "0.0.0.0" as a range end is the in-band marker for "merged away",
	// and a range starting at "::" ties with those markers when the merged list is re-sorted and cut.
	vrt.Known("C19-zero-end-range-not-merged", zeroEnd)
	vrt.Known("C19-range-starting-at-zero-lost-after-merge", zeroStart)
	got := table.Search(net.IP(probe))
	vrt.Assert(got == want, "C19/membership")
}
