package hash_set

// C20 — the hash set behaves as a bounded mathematical set.
//
// Real code: NewHashSet, HashSet.Add/Remove/Exist/Len/Full, nodePool.*, byte_pool.BytePool / FixedBytePool.
// Harness: a history of Add/Remove operations with symbolic keys, a harness hash function with symbolic
// bucket assignment, and a reference set defined by folding the history.

import (
	vrt "github.com/bfenetworks/bfe/zz_vrt"
)

const (
	kAddC20 = iota
	kRemoveC20
)

// histC20 is the operation history; the reference set is a fold over it.
type histC20 struct {
	kind  []int    // concrete
	key   [][]byte // concrete lengths, symbolic bytes
	valid []bool   // key length admissible for this set
	eff   []bool   // Add: key is a member after the operation
}

func eqKeyC20(a, b []byte) bool {
	if len(a) != len(b) {
		return false
	}
	same := true
	for i := 0; i < len(a); i++ {
		if a[i] != b[i] {
			same = false
		}
	}
	return same
}

// memberC20: is key a member of the reference set after the first t operations?
func memberC20(h *histC20, t int, key []byte) bool {
	m := false
	for i := 0; i < t; i++ {
		same := eqKeyC20(h.key[i], key)
		if h.kind[i] == kAddC20 {
			if same && h.eff[i] {
				m = true
			}
		} else {
			if same && h.valid[i] {
				m = false
			}
		}
	}
	return m
}

// validLenC20: the documented admissible key lengths: exactly elemSize for a fixed-length set,
// 0..elemSize otherwise.
func validLenC20(fixed bool, elemSize, n int) bool {
	if fixed {
		return n == elemSize
	}
	return n <= elemSize
}

// runC20 runs a history of n operations on a fresh set and compares with the reference set.
// script == nil: every operation chooses its kind (Add/Remove) and key length minLen..es+1;
// otherwise script[t] = {kind, key length} is prescribed. Key bytes are always symbolic.
// hash = T[key[0]&3] (T[0] for the empty key) with four symbolic bucket values: all collision patterns
// between the four key classes, including the constant hash.
func runC20(capacity, es int, fixed bool, n, minLen int, script [][2]int) {
	runHashC20(capacity, es, fixed, n, minLen, script, false)
}

// runHashC20: degenerate == true makes the hash function constant (one symbolic value for every key).
func runHashC20(capacity, es int, fixed bool, n, minLen int, script [][2]int, degenerate bool) {
	var tab [4]byte
	for i := 0; i < 4; i++ {
		if degenerate && i > 0 {
			tab[i] = tab[0]
		} else {
			tab[i] = vrt.Byte("hash")
		}
	}
	hashf := func(key []byte) uint64 {
		if len(key) == 0 {
			return uint64(tab[0])
		}
		return uint64(tab[key[0]&3])
	}
	set, err := NewHashSet(capacity, es, fixed, hashf)
	vrt.Assert(err == nil && set != nil, "C20/new")

	h := &histC20{kind: make([]int, n), key: make([][]byte, n), valid: make([]bool, n), eff: make([]bool, n)}
	size := 0
	shortAdd := false
	for t := 0; t < n; t++ {
		var kind, kl int
		if script != nil {
			kind, kl = script[t][0], script[t][1]
		} else {
			kind = vrt.Choose("kind", 2)
			kl = vrt.Range("klen", minLen, es+1)
		}
		key := vrt.Bytes("key", kl)
		valid := validLenC20(fixed, es, kl)
		before := memberC20(h, t, key)
		h.kind[t], h.key[t], h.valid[t] = kind, key, valid
		if kind == kAddC20 {
			// Known defect: a fixed-length set only checks len(key) <= elemSize; a shorter key gets a
			// node whose bytes are never written (FixedBytePool.Set's error is dropped).
			shortAdd = shortAdd || (fixed && kl < es)
			vrt.Known("C20-fixed-set-accepts-short-key", shortAdd)
			e := set.Add(key)
			if !valid {
				vrt.Assert(e != nil, "C20/invalid-length-rejected")
			} else if before {
				// re-adding a member: must succeed unless the set is full (then either answer is tolerated)
				vrt.Assert(e == nil || size >= capacity, "C20/add-result")
			} else {
				vrt.Assert((e == nil) == (size < capacity), "C20/add-result")
			}
			h.eff[t] = valid && (before || size < capacity)
			if valid && !before && size < capacity {
				size++
			}
		} else {
			e := set.Remove(key)
			if valid {
				vrt.Assert(e == nil, "C20/remove-result")
				if before {
					size--
				}
			}
		}
		vrt.Assert(set.Len() == size, "C20/len")
		vrt.Assert(set.Full() == (size >= capacity), "C20/full")
	}
	// membership of an arbitrary key of a chosen length (subsumes the keys of the history)
	l := vrt.Range("plen", minLen, es+1)
	probe := vrt.Bytes("probe", l)
	got := set.Exist(probe)
	if validLenC20(fixed, es, l) {
		vrt.Assert(got == memberC20(h, n, probe), "C20/membership")
	} else {
		vrt.Assert(!got, "C20/invalid-length-not-member")
	}
}

// VerifC20_history: every history of <= N Add/Remove operations on a set of capacity 1..CAP, element size
// ESMIN..ES, fixed or variable key length; keys symbolic with lengths MINLEN..ES+1.
func VerifC20_history() {
	capacity := vrt.Range("cap", 1, vrt.Param("CAP", 3))
	es := vrt.Range("es", vrt.Param("ESMIN", 2), vrt.Param("ES", 2))
	fixed := vrt.Choose("fixed", 2) == 1
	n := vrt.Range("n", 0, vrt.Param("N", 3))
	runC20(capacity, es, fixed, n, vrt.Param("MINLEN", 1), nil)
}

// VerifC20_chain: collision-chain deletion and free-list reuse with valid keys only: K Adds, one Remove,
// one more Add (K = 2..CAP), capacity CAP, then an arbitrary probe. Keys and bucket assignment symbolic.
func VerifC20_chain() {
	capacity := vrt.Param("CAP", 3)
	es := vrt.Param("ES", 2)
	fixed := vrt.Choose("fixed", 2) == 1
	k := vrt.Range("adds", 2, capacity)
	var script [][2]int
	for i := 0; i < k; i++ {
		script = append(script, [2]int{kAddC20, es})
	}
	script = append(script, [2]int{kRemoveC20, es}, [2]int{kAddC20, es})
	runC20(capacity, es, fixed, len(script), es, script)
}

// shapes of VerifC20_degenerate (A = Add, R = Remove): fill the chain then remove twice (a freed node still
// holds a removed key when a second, interior removal happens); remove from a two-member chain with a
// never-used node on the free list, then add twice (freed and never-used nodes are reused).
var shapesC20 = [][]int{
	{kAddC20, kAddC20, kAddC20, kRemoveC20, kRemoveC20},
	{kAddC20, kAddC20, kRemoveC20, kAddC20, kAddC20},
}

// VerifC20_degenerate: the degenerate (constant, symbolic value) hash function: every key lives in one
// collision chain of up to 3 members. One of the first SHAPES histories of shapesC20 with valid symbolic keys
// on capacity CAP, then an arbitrary probe: removal of head / interior / tail chain members followed by
// further operations that walk the chain and reuse freed nodes.
func VerifC20_degenerate() {
	capacity := vrt.Param("CAP", 3)
	es := vrt.Param("ES", 2)
	fixed := vrt.Choose("fixed", 2) == 1
	shape := shapesC20[vrt.Choose("shape", vrt.Param("SHAPES", len(shapesC20)))]
	script := make([][2]int, len(shape))
	for i := range shape {
		script[i] = [2]int{shape[i], es}
	}
	runHashC20(capacity, es, fixed, len(script), es, script, true)
}
