package bfe_util

// C17 (bfe_util part) — ParseTime / ParseTimeOfDay are total: an error or a value, never a panic.
// fmt.Sscanf is the engine's executable model (engine/sym/intrinsics_cond.go, validated against the
// real fmt); in native replay the real fmt.Sscanf runs.

import (
	vrt "github.com/bfenetworks/bfe/zz_vrt"
)

// twoWordsUtilC17: does fmt.Sscanf(s, "%<wid>s%s", &a, &b) succeed on the ASCII string s.
func twoWordsUtilC17(s string, wid int) bool {
	ph, cnt := 0, 0 // 0 before word 1, 1 in word 1, 2 between, 3 success, 4 failure
	for i := 0; i < len(s); i++ {
		c := s[i]
		nl := c == '\n'
		sp := c == ' ' || c == '\t' || c == '\v' || c == '\f' || c == '\r'
		switch ph {
		case 0:
			if nl {
				ph = 4
			} else if !sp {
				ph, cnt = 1, 1
			}
		case 1:
			if nl {
				ph = 4
			} else if sp {
				ph = 2
			} else if cnt == wid {
				ph = 3
			} else {
				cnt++
			}
		case 2:
			if nl {
				ph = 4
			} else if !sp {
				ph = 3
			}
		}
	}
	return ph == 3
}

func asciiStrC17(l int) string {
	s := vrt.Str("time", l)
	for i := 0; i < l; i++ {
		vrt.Assume(s[i] < 0x80)
	}
	return s
}

func digitC17(c byte) bool { return c >= '0' && c <= '9' }

func zoneLetterC17(c byte) bool {
	if c >= 'a' && c <= 'z' {
		c -= 'a' - 'A'
	}
	return c >= 'A' && c <= 'Z' && c != 'J'
}

// refZoneC17: the documented military zone table (docs/en_us/condition/system/time.md, Appendix B).
func refZoneC17(c byte) (int, bool) {
	if c >= 'a' && c <= 'z' {
		c -= 'a' - 'A'
	}
	switch {
	case c >= 'A' && c <= 'I':
		return int(c-'A'+1) * 3600, true
	case c >= 'K' && c <= 'M':
		return int(c-'K'+10) * 3600, true
	case c >= 'N' && c <= 'Y':
		return -int(c-'N'+1) * 3600, true
	case c == 'Z':
		return 0, true
	}
	return 0, false
}

// checkTimeOfDayStringC17: string-level well-formedness of an accepted time-of-day literal.
func checkTimeOfDayStringC17(s string) (hh, mm, ss int, ok bool) {
	l := len(s)
	vrt.Assert(l >= 7, "C17/accepted-time-of-day-has-6-digits-and-zone")
	if l < 7 {
		return 0, 0, 0, false
	}
	ok = true
	for i := 0; i < 6; i++ {
		ok = ok && digitC17(s[i])
	}
	vrt.Assert(ok, "C17/accepted-time-of-day-starts-with-6-digits")
	if !ok {
		return 0, 0, 0, false
	}
	hh = int(s[0]-'0')*10 + int(s[1]-'0')
	mm = int(s[2]-'0')*10 + int(s[3]-'0')
	ss = int(s[4]-'0')*10 + int(s[5]-'0')
	vrt.Assert(hh < 24 && mm < 60 && ss < 60, "C17/accepted-time-of-day-in-range")
	hasZone := false
	for i := 6; i < l; i++ {
		hasZone = hasZone || zoneLetterC17(s[i])
	}
	vrt.Assert(hasZone, "C17/accepted-time-of-day-has-zone-letter")
	return hh, mm, ss, true
}

// VerifC17_parseTimeOfDay: every ASCII string of <= TL bytes: no panic; when accepted, the first six
// bytes are an in-range hhmmss and a zone letter follows.
func VerifC17_parseTimeOfDay() {
	l := vrt.Range("len", 0, vrt.Param("TL", 6))
	s := asciiStrC17(l)
	vrt.Known("C17-time-of-day-shorter-than-6-bytes", l < 6 && twoWordsUtilC17(s, 6))
	_, _, err := ParseTimeOfDay(s)
	if err != nil {
		vrt.Cover("C17/time-of-day-rejected")
		return
	}
	checkTimeOfDayStringC17(s)
}

// VerifC17_parseTimeOfDayShape: 7..8 bytes, six symbolic digits followed by one or two arbitrary ASCII
// bytes: no panic; accepted exactly when hhmmss is in range and the rest is a zone letter (optionally
// after white space, optionally followed by white space); clock and offset have the documented values.
func VerifC17_parseTimeOfDayShape() {
	l := vrt.Range("len", 7, vrt.Param("SHAPEMAX", 8))
	s := asciiStrC17(l)
	for i := 0; i < 6; i++ {
		vrt.Assume(digitC17(s[i]))
	}
	ts, off, err := ParseTimeOfDay(s)
	hh := int(s[0]-'0')*10 + int(s[1]-'0')
	mm := int(s[2]-'0')*10 + int(s[3]-'0')
	ss := int(s[4]-'0')*10 + int(s[5]-'0')
	ws := func(c byte) bool { return c == ' ' || c == '\t' || c == '\v' || c == '\f' || c == '\r' }
	// the zone word: s[6] alone, or (white space, s[7]), or (s[6], white space or newline)
	var zc byte
	zoneOK := false
	if l == 7 {
		zc = s[6]
		_, zoneOK = refZoneC17(zc)
	} else if ws(s[6]) {
		zc = s[7]
		_, zoneOK = refZoneC17(zc)
	} else if ws(s[7]) || s[7] == '\n' {
		zc = s[6]
		_, zoneOK = refZoneC17(zc)
	}
	want := hh < 24 && mm < 60 && ss < 60 && zoneOK
	vrt.Assert((err == nil) == want, "C17/time-of-day-accepted-iff-wellformed")
	if err != nil || !want {
		return
	}
	wantOff, _ := refZoneC17(zc)
	vrt.Assert(off == wantOff, "C17/time-of-day-zone-offset")
	h, m, sec := ts.Clock()
	vrt.Assert(h == hh && m == mm && sec == ss, "C17/time-of-day-value")
}

// VerifC17_parseTime: every ASCII string of <= TL bytes is rejected without a panic (a valid
// literal has 14 digits and a zone letter).
func VerifC17_parseTime() {
	l := vrt.Range("len", 0, vrt.Param("TL", 8))
	s := asciiStrC17(l)
	_, err := ParseTime(s)
	vrt.Assert(err != nil, "C17/short-time-literal-rejected")
}

// VerifC17_parseTimeFull: strings of 15..16 bytes: a date taken from a small concrete set (valid, leap
// day, invalid day, invalid month) or, with DATE=0, eight symbolic digits; six symbolic bytes for the
// clock; then one or two arbitrary ASCII bytes: no panic; when accepted, 14 digits are followed by a zone
// letter and the calendar fields are in range.
var datesC17 = []string{"20190204", "20200229", "20190229", "20191301", " 2019020"}

func VerifC17_parseTimeFull() {
	l := vrt.Range("len", 15, 16)
	var s string
	if vrt.Param("DATE", 1) == 1 {
		rest := asciiStrC17(l - 8)
		nd := vrt.Param("CLOCKDIGITS", 6) // how many of the clock bytes are constrained to digits
		for i := 0; i < nd; i++ {
			vrt.Assume(digitC17(rest[i]))
		}
		s = datesC17[vrt.Choose("date", len(datesC17))] + rest
	} else {
		s = asciiStrC17(l)
		for i := 0; i < 8; i++ {
			vrt.Assume(digitC17(s[i]))
		}
	}
	_, err := ParseTime(s)
	if err != nil {
		return
	}
	// p = number of leading white space bytes (at most l-15 can be skipped if 14 digits + zone must fit)
	p := 0
	if s[0] == ' ' || s[0] == '\t' || s[0] == '\v' || s[0] == '\f' || s[0] == '\r' {
		p = 1
	}
	vrt.Assert(p+15 <= l, "C17/accepted-time-has-14-digits-and-zone")
	if p+15 > l {
		return
	}
	ok := true
	for i := 0; i < 14; i++ {
		ok = ok && digitC17(s[p+i])
	}
	vrt.Assert(ok, "C17/accepted-time-has-14-digits")
	if !ok {
		return
	}
	hasZone := false
	for i := p + 14; i < l; i++ {
		hasZone = hasZone || zoneLetterC17(s[i])
	}
	vrt.Assert(hasZone, "C17/accepted-time-has-zone-letter")
	num := func(i int) int { return int(s[p+i]-'0')*10 + int(s[p+i+1]-'0') }
	mon, day, hh, mm, ss := num(4), num(6), num(8), num(10), num(12)
	vrt.Assert(mon >= 1 && mon <= 12 && day >= 1 && day <= 31 && hh < 24 && mm < 60 && ss < 60, "C17/accepted-time-fields-in-range")
}

// refZoneTailC17: what may follow the digits of a time literal (ASCII): optional white space without a
// newline, then exactly ONE zone letter of Appendix B, then the end of the literal or white space / a
// newline (what follows that white space is not examined by bfe and is not judged here). In particular a
// zone letter with anything glued to it ("HH", "UTC", "Z+0800", "H8") is not a zone.
// Returns whether the tail is acceptable and the zone letter.
func refZoneTailC17(tail string) (bool, byte) {
	const (
		skipping = 0 // before the zone word
		letter   = 1 // the zone word has one character so far
		done     = 2 // the zone word ended after one character
		bad      = 3
	)
	st := skipping
	var zc byte
	for i := 0; i < len(tail); i++ {
		c := tail[i]
		nl := c == '\n'
		sp := c == ' ' || c == '\t' || c == '\v' || c == '\f' || c == '\r'
		if st == skipping {
			if nl {
				st = bad
			} else if !sp {
				st, zc = letter, c
			}
		} else if st == letter {
			if nl || sp {
				st = done
			} else {
				st = bad
			}
		}
	}
	_, isZone := refZoneC17(zc)
	return (st == letter || st == done) && isZone, zc
}

// VerifC17_timeZoneTail: a concrete well-formed yyyymmddhhmmss (ParseTime) / hhmmss (ParseTimeOfDay)
// followed by 0..TAIL symbolic ASCII bytes: no panic; the literal is accepted exactly when the tail is one
// zone letter in the sense of refZoneTailC17 - an invalid time argument (no zone, unknown zone, characters
// glued to the zone letter) is rejected with an error; the zone offset is the documented one.
func VerifC17_timeZoneTail() {
	l := vrt.Range("tail", 0, vrt.Param("TAIL", 3))
	tail := asciiStrC17(l)
	want, zc := refZoneTailC17(tail)
	wantOff, _ := refZoneC17(zc)
	if vrt.Choose("func", 2) == 0 {
		tm, err := ParseTime("20190204203000" + tail)
		vrt.Assert((err == nil) == want, "C17/time-accepted-iff-tail-is-one-zone-letter")
		if err == nil && want {
			// 2019-02-04 20:30:00 in the zone = 1549312200 - offset in UTC
			vrt.Assert(tm.Unix() == 1549312200-int64(wantOff), "C17/time-zone-offset")
		}
		return
	}
	ts, off, err := ParseTimeOfDay("203000" + tail)
	vrt.Assert((err == nil) == want, "C17/time-of-day-accepted-iff-tail-is-one-zone-letter")
	if err == nil && want {
		vrt.Assert(off == wantOff, "C17/time-of-day-tail-zone-offset")
		h, m, sec := ts.Clock()
		vrt.Assert(h == 20 && m == 30 && sec == 0, "C17/time-of-day-tail-clock")
	}
}
