package hpack

// C30 — HPACK encoding round-trips and respects table limits.

import (
	"bytes"

	vrt "github.com/bfenetworks/bfe/zz_vrt"
)

// VerifC30_varint: readVarInt(n, appendVarInt(nil, n, i)) == i for every prefix size and every 64-bit i.
func VerifC30_varint() {
	n := byte(vrt.Range("n", 1, 8))
	i := vrt.U64("i")
	// precondition: the encoder only encodes table indices, uint32 table sizes and string lengths
	vrt.Assume(i < 1<<62)
	enc := appendVarInt(nil, n, i)
	got, rest, err := readVarInt(n, enc)
	vrt.Assert(err == nil, "C30/varint-decodes")
	if err == nil {
		vrt.Assert(got == i, "C30/varint-roundtrip")
		vrt.Assert(len(rest) == 0, "C30/varint-consumes-all")
	}
	vrt.Assert(len(enc) <= 11, "C30/varint-length")
}

// VerifC30_huffman: decode(encode(s)) == s for every string of 0..N bytes.
func VerifC30_huffman() {
	n := vrt.Range("len", 0, vrt.Param("N", 2))
	s := vrt.Str("s", n)
	// optional byte range (registry: the two-byte bound covers printable ASCII; every byte value is covered
	// by the one-byte bound)
	lo, hi := byte(vrt.Param("LO", 0)), byte(vrt.Param("HI", 255))
	for i := 0; i < n; i++ {
		vrt.Assume(s[i] >= lo && s[i] <= hi)
	}
	enc := AppendHuffmanString(nil, s)
	vrt.Assert(uint64(len(enc)) == HuffmanEncodeLength(s), "C30/huffman-length")
	var buf bytes.Buffer
	err := huffmanDecode(&buf, 0, enc)
	vrt.Assert(err == nil, "C30/huffman-decodes")
	if err == nil {
		vrt.Assert(buf.String() == s, "C30/huffman-roundtrip")
	}
}

func pickNameC30(k int) string {
	switch vrt.Choose("namekind", vrt.Param("NK", 4)) {
	case 0:
		return vrt.Str("name", vrt.Range("namelen", 1, vrt.Param("MAXLEN", 2)))
	case 1:
		return "accept-charset" // static index 15: fills a 4-bit prefix exactly
	case 2:
		return ":path"
	case 3:
		return "age"
	}
	return ":method"
}

func pickValueC30(k int) string {
	switch vrt.Choose("valuekind", vrt.Param("VK", 4)) {
	case 0:
		return vrt.Str("value", vrt.Range("valuelen", 0, vrt.Param("MAXLEN", 2)))
	case 1:
		return "/"
	case 2:
		return "aaa" // 3 x 5-bit codes: Huffman-coded by the encoder
	}
	return "GET"
}

// VerifC30_roundtrip: K fields through Encoder -> Decoder with an announced table size change in between.
func VerifC30_roundtrip() {
	k := vrt.Param("K", 2)
	var wire bytes.Buffer
	enc := NewEncoder(&wire)
	var got []HeaderField
	dec := NewDecoder(initialHeaderTableSize, func(f HeaderField) error {
		got = append(got, f)
		return nil
	})
	var in []HeaderField
	for j := 0; j < k; j++ {
		if j >= vrt.Param("RESIZE_FROM", 0) && vrt.Bool("resize") {
			var sz uint32
			if vrt.Param("SZSET", 0) == 1 {
				// boundary table sizes around the entry sizes 32+len(name)+len(value)
				szs := []uint32{0, 34, 128}
				sz = szs[vrt.Choose("sizepick", len(szs))]
			} else {
				sz = vrt.U32("size")
				vrt.Assume(sz <= uint32(vrt.Param("MAXSZ", 128)))
			}
			enc.SetMaxDynamicTableSize(sz)
		}
		f := HeaderField{Name: pickNameC30(j), Value: pickValueC30(j), Sensitive: vrt.Bool("sensitive")}
		in = append(in, f)
		wire.Reset()
		err := enc.WriteField(f)
		vrt.Assert(err == nil, "C30/encode-ok")
		_, derr := dec.Write(wire.Bytes())
		vrt.Assert(derr == nil, "C30/decode-ok")
		vrt.Assert(dec.Close() == nil, "C30/decode-complete")
		vrt.Assert(enc.dynTab.size <= enc.dynTab.maxSize, "C30/encoder-table-within-size")
		vrt.Assert(dec.dynTab.size <= dec.dynTab.maxSize, "C30/decoder-table-within-size")
		vrt.Assert(dec.dynTab.maxSize <= dec.dynTab.allowedMaxSize, "C30/decoder-size-within-allowed")
		vrt.Assert(enc.dynTab.maxSize == dec.dynTab.maxSize, "C30/tables-same-max")
		vrt.Assert(len(enc.dynTab.ents) == len(dec.dynTab.ents), "C30/tables-same-entries")
	}
	vrt.Assert(len(got) == len(in), "C30/field-count")
	if len(got) == len(in) {
		for j := range in {
			vrt.Assert(got[j].Name == in[j].Name, "C30/name-roundtrip")
			vrt.Assert(got[j].Value == in[j].Value, "C30/value-roundtrip")
			vrt.Assert(got[j].Sensitive == in[j].Sensitive, "C30/never-index-flag-roundtrip")
		}
	}
}


// VerifC30_resize_twice: a populated table, two announced size changes between header blocks (the encoder
// must then emit the minimum and the final size), and a further field: still decodes identically.
func VerifC30_resize_twice() {
	var wire bytes.Buffer
	enc := NewEncoder(&wire)
	var got []HeaderField
	dec := NewDecoder(initialHeaderTableSize, func(f HeaderField) error {
		got = append(got, f)
		return nil
	})
	f1 := HeaderField{Name: vrt.Str("name", 2), Value: vrt.Str("value", 1)}
	vrt.Assert(enc.WriteField(f1) == nil, "C30/encode-ok")
	_, e := dec.Write(wire.Bytes())
	vrt.Assert(e == nil && dec.Close() == nil, "C30/decode-ok")
	s1, s2 := vrt.U32("size"), vrt.U32("size")
	vrt.Assume(s1 <= 4096 && s2 <= 4096)
	enc.SetMaxDynamicTableSize(s1)
	enc.SetMaxDynamicTableSize(s2)
	f2 := HeaderField{Name: ":path", Value: vrt.Str("value", 1)}
	wire.Reset()
	vrt.Assert(enc.WriteField(f2) == nil, "C30/encode-ok")
	_, e = dec.Write(wire.Bytes())
	vrt.Assert(e == nil, "C30/decode-ok-after-two-size-changes")
	vrt.Assert(dec.Close() == nil, "C30/decode-complete")
	vrt.Assert(len(got) == 2, "C30/field-count")
	if len(got) == 2 {
		vrt.Assert(got[0] == f1 && got[1].Name == f2.Name && got[1].Value == f2.Value, "C30/fields-after-two-size-changes")
	}
	vrt.Assert(dec.dynTab.size <= dec.dynTab.maxSize && enc.dynTab.size <= enc.dynTab.maxSize, "C30/tables-within-size")
	vrt.Assert(dec.dynTab.maxSize == enc.dynTab.maxSize, "C30/tables-same-max")
}
