package hpack

// C31 — HPACK decoding conforms to RFC 7541 (Huffman part and integer/string/field layers).

import (
	"bytes"

	vrt "github.com/bfenetworks/bfe/zz_vrt"
)

// refHuffC31 is a bit-serial RFC 7541 §5.2 decoder over the Appendix B table:
// returns the decoded bytes and whether the string is valid (no EOS symbol in the data,
// padding strictly shorter than 8 bits and made only of 1-bits, i.e. a prefix of EOS).
func refHuffC31(v []byte) (out []byte, ok bool) {
	var code uint32
	var clen uint8
	for _, b := range v {
		for bit := 7; bit >= 0; bit-- {
			code = code<<1 | uint32(b>>uint(bit))&1
			clen++
			if clen > 30 {
				return nil, false
			}
			if clen == 30 && code == 0x3fffffff {
				return nil, false // EOS encoded in the data
			}
			// match against the 256 symbols
			found := false
			var sym byte
			for s := 0; s < 256; s++ {
				if huffmanCodeLen[s] == clen && huffmanCodes[s] == code {
					found = true
					sym = byte(s)
				}
			}
			if found {
				out = append(out, sym)
				code, clen = 0, 0
			}
		}
	}
	// remaining bits are padding: fewer than 8 and all ones
	if clen >= 8 {
		return nil, false
	}
	if code != uint32(1)<<clen-1 {
		return nil, false
	}
	return out, true
}

// VerifC31_huffman: every Huffman-encoded string of 0..N bytes.
func VerifC31_huffman() {
	n := vrt.Range("len", 0, vrt.Param("N", 3))
	v := vrt.Bytes("huff", n)
	var buf bytes.Buffer
	err := huffmanDecode(&buf, 0, v)
	want, ok := refHuffC31(v)
	vrt.Assert((err == nil) == ok, "C31/huffman-accept-iff-valid")
	if err == nil && ok {
		vrt.Assert(bytes.Equal(buf.Bytes(), want), "C31/huffman-data")
	}
}
