package hpack

// C31 — HPACK decoding conforms to RFC 7541 (Huffman part and integer/string/field layers).

import (
	"bytes"

	vrt "github.com/bfenetworks/bfe/zz_vrt"
)

// refHuffC31 is a bit-serial RFC 7541 §5.2 decoder over the Appendix B table:
// returns the decoded bytes and whether the string is valid (no EOS symbol in the data,
// padding strictly shorter than 8 bits and made only of 1-bits, i.e. a prefix of EOS).
func refHuffC31(v []byte) (out []byte, ok bool) {
	var code uint32
	var clen uint8
	for _, b := range v {
		for bit := 7; bit >= 0; bit-- {
			code = code<<1 | uint32(b>>uint(bit))&1
			clen++
			if clen > 30 {
				return nil, false
			}
			if clen == 30 && code == 0x3fffffff {
				return nil, false // EOS encoded in the data
			}
			// match against the 256 symbols
			found := false
			var sym byte
			for s := 0; s < 256; s++ {
				if huffmanCodeLen[s] == clen && huffmanCodes[s] == code {
					found = true
					sym = byte(s)
				}
			}
			if found {
				out = append(out, sym)
				code, clen = 0, 0
			}
		}
	}
	// remaining bits are padding: fewer than 8 and all ones
	if clen >= 8 {
		return nil, false
	}
	if code != uint32(1)<<clen-1 {
		return nil, false
	}
	return out, true
}

// VerifC31_huffman: every Huffman-encoded string of 0..N bytes.
func VerifC31_huffman() {
	n := vrt.Range("len", 0, vrt.Param("N", 3))
	v := vrt.Bytes("huff", n)
	var buf bytes.Buffer
	err := huffmanDecode(&buf, 0, v)
	want, ok := refHuffC31(v)
	vrt.Assert((err == nil) == ok, "C31/huffman-accept-iff-valid")
	if err == nil && ok {
		vrt.Assert(bytes.Equal(buf.Bytes(), want), "C31/huffman-data")
	}
}

// ---------- integer layer (RFC 7541 §5.1) ----------

// refVarIntC31 decodes an n-bit-prefix integer: status 0 = ok, 1 = need more bytes, 2 = too long / overflow.
func refVarIntC31(n byte, p []byte) (val uint64, used int, status int) {
	if len(p) == 0 {
		return 0, 0, 1
	}
	max := uint64(1)<<n - 1
	v := uint64(p[0]) & max
	if v < max {
		return v, 1, 0
	}
	shift := uint(0)
	for k := 1; k < len(p); k++ {
		b := p[k]
		if shift >= 63 {
			return 0, 0, 2
		}
		add := uint64(b&127) << shift
		if add>>shift != uint64(b&127) || v+add < v {
			return 0, 0, 2
		}
		v += add
		if b&128 == 0 {
			return v, k + 1, 0
		}
		shift += 7
	}
	if shift >= 63 {
		return 0, 0, 2
	}
	return 0, 0, 1
}

// VerifC31_varint: every prefix size 1..8, every byte string of 0..L bytes.
func VerifC31_varint() {
	n := byte(vrt.Range("n", 1, 8))
	l := vrt.Range("len", 0, vrt.Param("L", 11))
	p := vrt.Bytes("p", l)
	i, rest, err := readVarInt(n, p)
	want, used, st := refVarIntC31(n, p)
	if err == nil {
		// success must agree with the reference (an error is always acceptable to the property)
		vrt.Assert(st == 0, "C31/varint-accepts-only-valid")
		if st == 0 {
			vrt.Assert(i == want, "C31/varint-value")
			vrt.Assert(len(rest) == l-used, "C31/varint-consumed")
		}
	} else {
		vrt.Assert(len(rest) == l, "C31/varint-error-consumes-nothing")
		if st == 2 {
			vrt.Assert(err != errNeedMore, "C31/varint-overlong-is-error")
		}
	}
}

// ---------- header block layer ----------

type fieldC31 struct {
	name, value string
	sensitive   bool
}

// refDecodeC31 is an RFC 7541 §6 reference decoder for one complete header block.
// dyn is the dynamic table (newest first), maxSize/allowed as negotiated.
func refDecodeC31(p []byte, allowed uint32) (out []fieldC31, ok bool) {
	var dyn []fieldC31
	dynSize := uint32(0)
	maxSize := allowed
	evict := func() {
		for dynSize > maxSize && len(dyn) > 0 {
			last := dyn[len(dyn)-1]
			dynSize -= uint32(len(last.name) + len(last.value) + 32)
			dyn = dyn[:len(dyn)-1]
		}
	}
	at := func(i uint64) (fieldC31, bool) {
		if i == 0 {
			return fieldC31{}, false
		}
		if i <= uint64(len(staticTable)) {
			e := staticTable[i-1]
			return fieldC31{name: e.Name, value: e.Value}, true
		}
		j := i - uint64(len(staticTable)) - 1
		if j >= uint64(len(dyn)) {
			return fieldC31{}, false
		}
		return dyn[j], true
	}
	readStr := func(p []byte) (s string, rest []byte, good bool) {
		if len(p) == 0 {
			return "", nil, false
		}
		huff := p[0]&128 != 0
		n, used, st := refVarIntC31(7, p)
		if st != 0 {
			return "", nil, false
		}
		p = p[used:]
		if uint64(len(p)) < n {
			return "", nil, false
		}
		raw := p[:n]
		if huff {
			dec, good := refHuffC31(raw)
			if !good {
				return "", nil, false
			}
			return string(dec), p[n:], true
		}
		return string(raw), p[n:], true
	}
	for len(p) > 0 {
		b := p[0]
		switch {
		case b&128 != 0:
			idx, used, st := refVarIntC31(7, p)
			if st != 0 {
				return nil, false
			}
			f, good := at(idx)
			if !good {
				return nil, false
			}
			p = p[used:]
			out = append(out, fieldC31{name: f.name, value: f.value})
		case b&192 == 64, b&240 == 0, b&240 == 16:
			n := byte(4)
			if b&192 == 64 {
				n = 6
			}
			idx, used, st := refVarIntC31(n, p)
			if st != 0 {
				return nil, false
			}
			p = p[used:]
			var f fieldC31
			if idx > 0 {
				e, good := at(idx)
				if !good {
					return nil, false
				}
				f.name = e.name
			} else {
				var good bool
				f.name, p, good = readStr(p)
				if !good {
					return nil, false
				}
			}
			var good bool
			f.value, p, good = readStr(p)
			if !good {
				return nil, false
			}
			if b&192 == 64 {
				dyn = append([]fieldC31{{name: f.name, value: f.value}}, dyn...)
				dynSize += uint32(len(f.name) + len(f.value) + 32)
				evict()
			}
			f.sensitive = b&240 == 16
			out = append(out, f)
		case b&224 == 32:
			sz, used, st := refVarIntC31(5, p)
			if st != 0 || sz > uint64(allowed) {
				return nil, false
			}
			p = p[used:]
			maxSize = uint32(sz)
			evict()
		default:
			return nil, false
		}
	}
	return out, true
}

// VerifC31_decoder: Decoder.Write (two writes at every split point) + Close on every block of 0..L bytes.
func VerifC31_decoder() {
	l := vrt.Range("len", 0, vrt.Param("L", 3))
	p := vrt.Bytes("blk", l)
	split := vrt.Range("split", 0, l)
	allowed := uint32(vrt.Param("ALLOWED", 64))
	if vrt.Param("IDXSET", 0) == 1 {
		// bound: table indices are restricted to boundary classes (0 = invalid, first/last static entry,
		// first dynamic slot, beyond the tables, prefix-full = multi-byte integer); everything else stays free
		for _, b := range p {
			idx7, idx6, idx4 := b&127, b&63, b&15
			okIdx := b&128 != 0 && (idx7 <= 2 || idx7 >= 60 && idx7 <= 63 || idx7 == 127) ||
				b&192 == 64 && (idx6 <= 1 || idx6 >= 60) ||
				b&192 == 0 && b&32 == 0 && (idx4 <= 1 || idx4 == 15) ||
				b&224 == 32
			vrt.Assume(okIdx)
		}
	}
	var got []fieldC31
	d := NewDecoder(allowed, func(f HeaderField) error {
		got = append(got, fieldC31{f.Name, f.Value, f.Sensitive})
		return nil
	})
	_, err := d.Write(p[:split])
	if err == nil {
		_, err = d.Write(p[split:])
	}
	if err == nil {
		err = d.Close()
	}
	want, ok := refDecodeC31(p, allowed)
	if err == nil {
		vrt.Assert(ok, "C31/decoder-accepts-only-valid")
		if ok {
			vrt.Assert(len(got) == len(want), "C31/decoder-field-count")
			if len(got) == len(want) {
				for i := range got {
					vrt.Assert(got[i].name == want[i].name && got[i].value == want[i].value, "C31/decoder-field-equal")
					vrt.Assert(got[i].sensitive == want[i].sensitive, "C31/decoder-never-index-flag")
				}
			}
		}
	}
	vrt.Cover("C31/decoder-end")
}

// VerifC31_long_integers: representations whose integer (table index, name index or table size) is a
// multi-byte HPACK integer of 1..L continuation bytes, all symbolic: no panic, success only if the
// reference decoder accepts, same fields.
func VerifC31_long_integers() {
	firsts := []byte{0xff, 0x7f, 0x0f, 0x1f, 0x3f}
	first := firsts[vrt.Choose("repr", len(firsts))]
	// 8..10 continuation bytes: the integers are >= 2^49 (far beyond any table or allowed size) up to
	// overflowing 64 bits; short multi-byte integers are covered by VerifC31_decoder
	l := vrt.Range("cont", 8, vrt.Param("L", 10))
	cont := vrt.Bytes("cont", l)
	for i := 0; i < l-1; i++ {
		vrt.Assume(cont[i]&0x80 != 0) // all but the last byte continue (otherwise the integer is shorter)
	}
	p := append([]byte{first}, cont...)
	if first == 0x7f || first == 0x0f || first == 0x1f {
		p = append(p, 0x00) // empty value string
	}
	allowed := uint32(vrt.Param("ALLOWED", 4096))
	var got []fieldC31
	d := NewDecoder(allowed, func(f HeaderField) error {
		got = append(got, fieldC31{f.Name, f.Value, f.Sensitive})
		return nil
	})
	_, err := d.Write(p)
	if err == nil {
		err = d.Close()
	}
	want, ok := refDecodeC31(p, allowed)
	if err == nil {
		vrt.Assert(ok, "C31/long-int-accepts-only-valid")
		if ok {
			vrt.Assert(len(got) == len(want), "C31/long-int-field-count")
			if len(got) == len(want) && len(got) == 1 {
				vrt.Assert(got[0].name == want[0].name && got[0].value == want[0].value, "C31/long-int-field-equal")
			}
		}
	}
	vrt.Cover("C31/long-int-end")
}

// VerifC31_emit_disabled: a decoder whose emit callback switches emitting off in the middle of a block
// (what the HTTP/2 framer does once a header list is too large) must keep its dynamic table exactly as
// a decoder that never disabled emitting: the next block decodes to the same fields.
func VerifC31_emit_disabled() {
	// block 1: one literal with incremental indexing, new name (1 byte) and value (1 byte), then a second one
	n1, v1 := vrt.Byte("n1"), vrt.Byte("v1")
	n2, v2 := vrt.Byte("n2"), vrt.Byte("v2")
	vrt.Assume(n1 < 0x80 && v1 < 0x80 && n2 < 0x80 && v2 < 0x80)
	blk1 := []byte{0x40, 1, n1, 1, v1, 0x40, 1, n2, 1, v2}
	// block 2: two indexed references chosen among the first dynamic slots / just beyond
	i1 := byte(vrt.Range("idx1", 61, 64))
	i2 := byte(vrt.Range("idx2", 61, 64))
	blk2 := []byte{0x80 | i1, 0x80 | i2}

	run := func(disable bool) (fields []fieldC31, failed bool) {
		var d *Decoder
		count := 0
		d = NewDecoder(4096, func(f HeaderField) error {
			fields = append(fields, fieldC31{f.Name, f.Value, f.Sensitive})
			count++
			if disable && count == 1 {
				d.SetEmitEnabled(false)
			}
			return nil
		})
		if _, err := d.Write(blk1); err != nil || d.Close() != nil {
			return nil, true
		}
		d.SetEmitEnabled(true)
		fields = nil
		if _, err := d.Write(blk2); err != nil || d.Close() != nil {
			return nil, true
		}
		return fields, false
	}
	ref, refFailed := run(false)
	got, gotFailed := run(true)
	vrt.Assert(refFailed == gotFailed, "C31/emit-disabled-same-verdict")
	if !refFailed && !gotFailed {
		vrt.Assert(len(got) == len(ref), "C31/emit-disabled-same-count")
		if len(got) == len(ref) {
			for i := range ref {
				vrt.Assert(got[i].name == ref[i].name && got[i].value == ref[i].value, "C31/emit-disabled-same-fields")
			}
		}
	}
}
