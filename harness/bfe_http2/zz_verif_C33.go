package bfe_http2

// C33 — inbound flow control is enforced and replenished.
//
// One-step checks of the serve-loop step functions on a hand-built serverConn with one request stream
// and a real pipe.Pipe as its body, from an arbitrary state satisfying
//     Inv: 0 <= sc.inflow.n, 0 <= st.inflow.n  (31-bit windows the server has advertised and not yet seen used).
// The oracle is the client's arithmetic (RFC 7540 6.9): every DATA frame debits its whole payload
// length (data + padding) from the connection window, and from the stream window while the stream is
// open; the only credits are the WINDOW_UPDATE frames the server queues. Octets that are not kept for
// the handler (padding, DATA the server throws away) must be credited back at once, octets handed to
// the handler when it reads them (noteBodyRead) - otherwise the windows shrink for good and a
// conforming client stalls.

import (
	"io"

	"github.com/bfenetworks/bfe/bfe_util/pipe"
	vrt "github.com/bfenetworks/bfe/zz_vrt"
)

// queuedWindowUpdatesC33 sums the increments of all WINDOW_UPDATE frames handed to the writer or
// waiting in the scheduler: (connection level, stream id).
func queuedWindowUpdatesC33(sc *serverConn, id uint32) (int64, int64) {
	var uc, us int64
	add := func(wm frameWriteMsg) {
		if wu, ok := wm.write.(writeWindowUpdate); ok {
			if wu.streamID == 0 {
				uc += int64(wu.n)
			} else if wu.streamID == id {
				us += int64(wu.n)
			}
		}
	}
	select {
	case wm := <-sc.writeFrameCh:
		add(wm)
	default:
	}
	for _, wm := range sc.writeSched.zero.s {
		add(wm)
	}
	for _, q := range sc.writeSched.sq {
		for _, wm := range q.s {
			add(wm)
		}
	}
	return uc, us
}

// mkStreamC33 builds the request stream (id 1) with a body pipe holding `unread` buffered bytes.
func mkStreamC33(sc *serverConn, unread int, bodyClosedByHandler bool) *stream {
	st := &stream{id: 1, state: stateOpen}
	attachStreamH2(sc, st)
	st.body = pipe.NewPipeWithSize(8)
	if unread > 0 {
		st.body.Write(vrt.Bytes("buffered", unread))
	}
	if bodyClosedByHandler {
		st.body.CloseWithError(errClosedBody) // RequestBody.Close()
	}
	st.inflow.n = vrt.I32("streamWindow")
	// Inv: the buffered octets were debited from a window that never exceeded 2^31-1
	vrt.Assume(st.inflow.n >= 0 && int64(st.inflow.n)+int64(unread) <= 1<<31-1)
	sc.maxStreamID = 1
	sc.curOpenStreams = 1
	return st
}

// readableC33 ends the body and returns how many buffered octets a handler could still read.
func readableC33(st *stream) int {
	st.body.CloseWithError(io.EOF)
	buf := make([]byte, 16)
	n, _ := st.body.Read(buf)
	return n
}

// errCodeC33 classifies the reaction to a frame: the error handed back to processFrameFromReader (which
// turns a StreamError into resetStream and a ConnectionError into goAway) or an RST_STREAM the step
// function queued for the stream itself.
func errCodeC33(sc *serverConn, id uint32, err error) (isStream, isConn bool, code ErrCode) {
	switch e := err.(type) {
	case StreamError:
		return true, false, e.Code
	case ConnectionError:
		return false, true, e.Code
	case goAwayFlowError:
		return false, true, ErrCodeFlowControl
	}
	for _, wm := range sc.writeSched.zero.s {
		if se, ok := wm.write.(StreamError); ok && se.StreamID == id {
			return true, false, se.Code
		}
	}
	return false, false, 0
}

// VerifC33_data: one DATA frame.
func VerifC33_data() {
	sc, _ := newConnH2()
	sc.writingFrame = vrt.Choose("writerBusy", 2) == 1
	sc.inflow.n = vrt.I32("connWindow")
	vrt.Assume(sc.inflow.n >= 0 && sc.inflow.n <= 1<<31-1-8) // Inv: room for the octets buffered unread

	// who the frame is for: 0 open stream, 1 half-closed(remote) stream, 2 a stream that is not in the map
	// any more (closed) - the client may legitimately still have DATA in flight for it
	kind := vrt.Choose("streamKind", 3)
	unread := vrt.Range("unread", 0, 1)
	bodyClosed := vrt.Bool("bodyClosedByHandler")
	st := mkStreamC33(sc, unread, bodyClosed)
	switch kind {
	case 0:
		sc.streams[st.id] = st
	case 1:
		st.state = stateHalfClosedRemote
		sc.streams[st.id] = st
	}
	st.gotTrailerHeader = vrt.Bool("gotTrailerHeader")
	st.declBodyBytes = vrt.I64("declBodyBytes")
	st.bodyBytes = vrt.I64("bodyBytes")
	vrt.Assume(st.declBodyBytes >= -1 && st.declBodyBytes < 1<<40)
	vrt.Assume(st.bodyBytes >= 0 && st.bodyBytes < 1<<40)
	vrt.Assume(st.declBodyBytes == -1 || st.bodyBytes <= st.declBodyBytes)

	// graceful shutdown in progress? (after an error GOAWAY the connection is closed within 250ms and
	// nobody can stall any more: outside the claim)
	sc.inGoAway = vrt.Bool("inGoAway")
	sc.goAwayCode = ErrCodeNo
	frameID := st.id
	if vrt.Bool("frameForStreamAboveLast") {
		frameID = 3 // > sc.maxStreamID: a stream the server never saw (possible only after GOAWAY was sent)
		vrt.Assume(sc.inGoAway)
	}

	d := vrt.Range("dataLen", 0, vrt.Param("D", 2))
	data := vrt.Bytes("data", d)
	length := vrt.U32("frameLength") // data + pad-length octet + padding
	vrt.Assume(length >= uint32(d) && length < 1<<24)
	var flags Flags
	if vrt.Bool("endStream") {
		flags |= FlagDataEndStream
	}
	if length > uint32(d) {
		flags |= FlagDataPadded
	}
	f := &DataFrame{FrameHeader: FrameHeader{valid: true, Type: FrameData, Flags: flags, Length: length, StreamID: frameID}, data: data}

	connBefore, streamBefore := int64(sc.inflow.n), int64(st.inflow.n)
	bufBefore := unread
	live := frameID == st.id && kind == 0 && !st.gotTrailerHeader // the client still holds a stream window
	overDeclared := live && st.declBodyBytes != -1 && st.bodyBytes+int64(d) > st.declBodyBytes
	exceedsConn := int64(length) > connBefore
	exceedsStream := live && int64(length) > streamBefore
	discardedAfterGoAway := sc.inGoAway && frameID > sc.maxStreamID

	vrt.Known("C33-data-discarded-after-goaway-not-counted", discardedAfterGoAway && length > 0)
	vrt.Known("C33-conn-window-leak-on-content-length-overflow", overDeclared && length > 0)
	vrt.Known("C33-conn-window-leak-on-body-write-error", live && !overDeclared && d > 0 && bodyClosed)

	err := sc.processData(f)

	var inflight frameWriteMsg
	select {
	case inflight = <-sc.writeFrameCh: // what the step handed to the idle writer
		sc.writeSched.zero.s = append([]frameWriteMsg{inflight}, sc.writeSched.zero.s...) // look at it with the queue
	default:
	}
	isStreamErr, isConnErr, code := errCodeC33(sc, frameID, err)
	uc, us := queuedWindowUpdatesC33(sc, st.id)
	// octets the frame added to what the handler can read (negative if the step threw the buffer away)
	kept := int64(readableC33(st) - bufBefore)
	connAfter, streamAfter := int64(sc.inflow.n), int64(st.inflow.n)

	// (1) never accept more than advertised; the excess is answered with FLOW_CONTROL_ERROR
	if (exceedsConn || exceedsStream) && !discardedAfterGoAway {
		vrt.Assert(kept <= 0, "C33/excess-data-not-accepted")
		vrt.Assert(isStreamErr || isConnErr, "C33/excess-answered-with-error")
		if !overDeclared { // a frame that also overruns Content-Length may be answered PROTOCOL_ERROR
			vrt.Assert(code == ErrCodeFlowControl, "C33/excess-answered-with-flow-control-error")
		}
	}
	// (2) a client inside its windows: exact accounting
	if !exceedsConn && !exceedsStream && !isConnErr {
		vrt.Assert(kept <= int64(d), "C33/kept-at-most-the-data")
		// connection level, whatever happens to the stream
		vrt.Assert(uc == int64(length)-kept, "C33/conn-window-reopened-by-octets-not-kept")
		vrt.Assert(connAfter == connBefore-int64(length)+uc, "C33/conn-window-bookkeeping")
		if err == nil && live && sc.streams[st.id] == st { // the stream goes on
			vrt.Assert(us == int64(length)-kept, "C33/stream-window-reopened-by-padding")
			vrt.Assert(streamAfter == streamBefore-int64(length)+us, "C33/stream-window-bookkeeping")
			vrt.Assert(kept == int64(d), "C33/accepted-data-reaches-the-body")
		}
		// Inv again
		vrt.Assert(connAfter >= 0 && connAfter <= 1<<31-1, "C33/conn-window-in-range")
		vrt.Assert(streamAfter >= 0 && streamAfter <= 1<<31-1, "C33/stream-window-in-range")
	}
}

// VerifC33_bodyRead: the handler consumed n body octets (bodyReadMsg -> noteBodyRead).
func VerifC33_bodyRead() {
	sc, _ := newConnH2()
	sc.writingFrame = vrt.Choose("writerBusy", 2) == 1
	st := mkStreamC33(sc, 0, false)
	kind := vrt.Choose("streamKind", 3)
	switch kind {
	case 0:
		sc.streams[st.id] = st
	case 1:
		st.state = stateHalfClosedRemote
		sc.streams[st.id] = st
	case 2:
		st.state = stateClosed
	}
	sc.inflow.n = vrt.I32("connWindow")
	n := vrt.Int("read")
	// Inv: the octets the handler holds were debited from windows that never exceeded 2^31-1
	vrt.Assume(sc.inflow.n >= 0 && n >= 0 && n <= 1<<31-1)
	vrt.Assume(int64(sc.inflow.n)+int64(n) <= 1<<31-1)
	vrt.Assume(int64(st.inflow.n)+int64(n) <= 1<<31-1)
	connBefore, streamBefore := int64(sc.inflow.n), int64(st.inflow.n)

	sc.noteBodyRead(st, n)

	uc, us := queuedWindowUpdatesC33(sc, st.id)
	vrt.Assert(uc == int64(n), "C33/read-reopens-conn-window-exactly")
	vrt.Assert(int64(sc.inflow.n) == connBefore+int64(n), "C33/conn-window-bookkeeping")
	if kind == 0 {
		vrt.Assert(us == int64(n), "C33/read-reopens-stream-window-exactly")
		vrt.Assert(int64(st.inflow.n) == streamBefore+int64(n), "C33/stream-window-bookkeeping")
	} else {
		vrt.Assert(us == 0 || us == int64(n), "C33/read-reopens-stream-window-exactly")
	}
}

// VerifC33_closeStream: a stream leaves (RST_STREAM either way, handler done, timeout) while request
// octets are still buffered unread. With the default stream window closeStream hands the buffer back to
// the pool, so the handler can never read - and never credit - those octets: they must be credited to
// the connection window now.
func VerifC33_closeStream() {
	sc, _ := newConnH2()
	sc.writingFrame = vrt.Choose("writerBusy", 2) == 1
	unread := vrt.Range("unread", 0, vrt.Param("U", 2))
	st := mkStreamC33(sc, unread, vrt.Bool("bodyClosedByHandler"))
	if vrt.Choose("state", 2) == 1 {
		st.state = stateHalfClosedRemote
	}
	sc.streams[st.id] = st
	sc.inflow.n = vrt.I32("connWindow")
	vrt.Assume(sc.inflow.n >= 0 && int64(sc.inflow.n)+int64(unread) <= 1<<31-1)
	connBefore := int64(sc.inflow.n)
	vrt.Assume(st.defaultStreamWindow())

	vrt.Known("C33-closed-stream-unread-body-not-refunded", unread > 0)
	sc.closeStream(st, errHandlerComplete)

	uc, _ := queuedWindowUpdatesC33(sc, st.id)
	got := readableC33(st) // what the handler can still get
	vrt.Assert(uc+int64(got) == int64(unread), "C33/unread-octets-of-closed-stream-returned-to-conn-window")
	vrt.Assert(int64(sc.inflow.n) == connBefore+uc, "C33/conn-window-bookkeeping")
}

// VerifC33_resetAfterPartialRead: a three-step history on one request stream - the client sends a DATA
// frame (symbolic Length = 1..D data octets + padding, inside both windows), the handler reads 0..d of
// the octets (pipe Read + noteBodyRead, what RequestBody.Read makes the serve loop do), then the client
// cancels the upload with RST_STREAM. Whatever part the handler had not read can never be read (the body
// buffer is released) and the client keeps using the connection window for its other streams, so after
// the three steps the connection WINDOW_UPDATEs queued must add up to the whole frame.
func VerifC33_resetAfterPartialRead() {
	sc, _ := newConnH2()
	sc.writingFrame = vrt.Choose("writerBusy", 2) == 1
	st := mkStreamC33(sc, 0, false)
	st.declBodyBytes = -1
	sc.streams[st.id] = st
	sc.inflow.n = vrt.I32("connWindow")
	vrt.Assume(sc.inflow.n >= 0)

	d := vrt.Range("dataLen", 1, vrt.Param("D", 3))
	data := vrt.Bytes("data", d)
	length := vrt.U32("frameLength") // data + pad-length octet + padding
	vrt.Assume(length >= uint32(d) && length < 1<<24)
	// a client that respects both windows
	vrt.Assume(int64(length) <= int64(sc.inflow.n) && int64(length) <= int64(st.inflow.n))
	var flags Flags
	if length > uint32(d) {
		flags |= FlagDataPadded
	}
	f := &DataFrame{FrameHeader: FrameHeader{valid: true, Type: FrameData, Flags: flags, Length: length, StreamID: st.id}, data: data}
	connBefore := int64(sc.inflow.n)

	if err := sc.processData(f); err != nil {
		vrt.Assert(false, "C33/data-inside-the-windows-accepted")
		return
	}

	// the handler reads r of the d octets
	r := vrt.Range("handlerRead", 0, d)
	if r > 0 {
		buf := make([]byte, r)
		n, _ := st.body.Read(buf)
		vrt.Assert(n == r, "C33/accepted-data-reaches-the-body")
		sc.noteBodyRead(st, n)
	}

	// the client gives up on the stream
	sc.processResetStream(&RSTStreamFrame{FrameHeader: FrameHeader{valid: true, Type: FrameRSTStream, Length: 4, StreamID: st.id}, ErrCode: ErrCodeCancel})
	vrt.Assert(sc.streams[st.id] == nil, "C33/reset-stream-left-the-map")

	uc, _ := queuedWindowUpdatesC33(sc, st.id)
	still := readableC33(st) // what a handler could still get out of the body (and credit later)
	vrt.Assert(uc+int64(still) == int64(length), "C33/octets-of-a-stream-reset-by-the-client-returned-to-conn-window")
	vrt.Assert(int64(sc.inflow.n) == connBefore-int64(length)+uc, "C33/conn-window-bookkeeping")
}
