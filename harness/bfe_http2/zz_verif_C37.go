package bfe_http2

// C37 — control-frame floods are bounded (the part that is decidable without the serve goroutine).
//
// The defence in bfe is: serverConn.queuedControlFrames counts the control frames (frames not tied to
// a stream: PING acks, RST_STREAM, connection WINDOW_UPDATE, ...) waiting in the write scheduler, and
// the serve loop closes the connection when the counter exceeds Server.maxQueuedControlFrames() after
// any event. What can be decided at unit level, and is decided here from an arbitrary state with the
// writer stalled or not:
//   (a) the counter is exact: after every serve-loop step function it equals the number of control
//       frames actually held by the scheduler (so memory held for control frames <= counter);
//   (b) with the writer stalled (client not reading) every frame-eliciting client frame raises the
//       counter by exactly the number of control frames it queued - a flood cannot stay under the limit
//       by being miscounted;
//   (c) the limit is a positive constant.
// The comparison itself sits inline in serve()'s select loop and is not executed here (notes/C37.md).

import (
	vrt "github.com/bfenetworks/bfe/zz_vrt"
)

func controlQueuedC37(sc *serverConn) int {
	n := 0
	for _, wm := range sc.writeSched.zero.s {
		if wm.isControl() {
			n++
		}
	}
	// stream queues must not hide control frames
	for _, q := range sc.writeSched.sq {
		for _, wm := range q.s {
			if wm.isControl() {
				n++
			}
		}
	}
	return n
}

// VerifC37_step: one serve-loop step from an arbitrary state satisfying the invariant.
func VerifC37_step() {
	sc, _ := newConnH2()
	sc.sawFirstSettings = true
	// an open request stream (id 1) with a response DATA frame queued, a closed stream id 3
	st := &stream{id: 1, state: stateOpen}
	attachStreamH2(sc, st)
	sc.streams[1] = st
	sc.curOpenStreams = 1
	sc.maxStreamID = 3
	if vrt.Bool("streamHasQueuedData") {
		sc.writeSched.add(frameWriteMsg{write: &writeData{streamID: 1, p: vrt.Bytes("resp", 1)}, stream: st})
	}
	// k control frames already waiting
	k := vrt.Range("queuedControl", 0, vrt.Param("K", 2))
	for i := 0; i < k; i++ {
		switch vrt.Choose("queuedKind", 3) {
		case 0:
			sc.writeSched.add(frameWriteMsg{write: writePingAck{&PingFrame{}}})
		case 1:
			sc.writeSched.add(frameWriteMsg{write: StreamError{StreamID: 3, Code: ErrCodeStreamClosed}})
		case 2:
			sc.writeSched.add(frameWriteMsg{write: writeWindowUpdate{streamID: 0, n: 1}})
		}
	}
	sc.queuedControlFrames = k // Inv
	stalled := vrt.Choose("writerStalled", 2) == 1
	var inflight frameWriteMsg
	if stalled {
		// a frame is with the write goroutine, which is blocked on the client's full receive buffer
		sc.writingFrame = true
		inflight = frameWriteMsg{write: writePingAck{&PingFrame{}}}
	}
	sc.needToSendSettingsAck = vrt.Bool("needToSendSettingsAck")
	if vrt.Bool("inGoAway") {
		sc.inGoAway = true
		sc.goAwayCode = ErrCode(vrt.U32("goAwayCode"))
	}
	sc.inflow.n = vrt.I32("connInflow")
	vrt.Assume(sc.inflow.n >= 0 && sc.inflow.n < 1<<30)

	before := sc.queuedControlFrames
	elicited := -1 // control frames the event must add to the queue when the writer is stalled (-1: not fixed)
	switch vrt.Choose("event", 7) {
	case 0: // PING
		f := &PingFrame{FrameHeader: FrameHeader{valid: true, Type: FramePing, Length: 8}}
		if vrt.Bool("pingAck") {
			f.Flags = FlagPingAck
			elicited = 0
		} else {
			elicited = 1
		}
		err := sc.processPing(f)
		vrt.Assert(err == nil, "C37/ping-accepted")
	case 1: // SETTINGS (empty, not an ack): answered through the needToSendSettingsAck flag, never queued
		f := &SettingsFrame{FrameHeader: FrameHeader{valid: true, Type: FrameSettings}}
		elicited = 0
		sc.processSettings(f)
	case 2: // a stream error on the request stream or on an unknown stream: RST_STREAM is queued
		id := uint32(1)
		if vrt.Bool("unknownStream") {
			id = 5
		}
		elicited = 1
		sc.resetStream(StreamError{StreamID: id, Code: ErrCodeProtocol})
	case 3: // DATA for a closed stream: answered with a connection WINDOW_UPDATE, then RST_STREAM by the caller
		length := vrt.U32("dataLength")
		vrt.Assume(length < 1<<14)
		f := &DataFrame{FrameHeader: FrameHeader{valid: true, Type: FrameData, Length: length, StreamID: 3}}
		sc.processData(f)
	case 4: // the write goroutine reports back
		if !stalled {
			vrt.Assume(false)
		}
		stalled = false
		sc.wroteFrame(frameWriteResult{wm: inflight})
	case 5: // WINDOW_UPDATE from the client
		f := &WindowUpdateFrame{FrameHeader: FrameHeader{valid: true, Type: FrameWindowUpdate, Length: 4}, Increment: 1}
		if vrt.Bool("onStream") {
			f.StreamID = 1
		}
		elicited = 0
		sc.processWindowUpdate(f)
	case 6: // RST_STREAM from the client
		f := &RSTStreamFrame{FrameHeader: FrameHeader{valid: true, Type: FrameRSTStream, Length: 4, StreamID: 1}, ErrCode: ErrCodeCancel}
		elicited = 0
		sc.processResetStream(f)
	}

	vrt.Assert(sc.queuedControlFrames == controlQueuedC37(sc), "C37/counter-equals-queued-control-frames")
	vrt.Assert(sc.queuedControlFrames >= 0, "C37/counter-not-negative")
	if stalled && elicited >= 0 {
		vrt.Assert(sc.queuedControlFrames == before+elicited, "C37/stalled-writer-every-elicited-frame-counted")
	}
	vrt.Assert(sc.srv.maxQueuedControlFrames() > 0, "C37/limit-positive")
}

// VerifC37_flood: n frame-eliciting client frames against a stalled writer starting from an empty queue:
// the counter the serve loop compares with the limit is exactly n.
func VerifC37_flood() {
	sc, _ := newConnH2()
	sc.sawFirstSettings = true
	sc.maxStreamID = 99
	sc.writingFrame = true // stalled
	n := vrt.Param("N", 6)
	for i := 0; i < n; i++ {
		switch vrt.Choose("floodKind", 3) {
		case 0:
			sc.processPing(&PingFrame{FrameHeader: FrameHeader{valid: true, Type: FramePing, Length: 8}})
		case 1:
			sc.resetStream(StreamError{StreamID: uint32(2*i + 1), Code: ErrCodeStreamClosed})
		case 2:
			// SETTINGS flood: must not grow anything
			sc.processSettings(&SettingsFrame{FrameHeader: FrameHeader{valid: true, Type: FrameSettings}})
			sc.processPing(&PingFrame{FrameHeader: FrameHeader{valid: true, Type: FramePing, Length: 8}})
		}
		vrt.Assert(sc.queuedControlFrames == i+1, "C37/flood-counter-tracks-queue")
		vrt.Assert(controlQueuedC37(sc) == i+1, "C37/flood-counter-tracks-queue")
		vrt.Assert(len(sc.writeFrameCh) == 0, "C37/stalled-writer-gets-nothing-more")
	}
}
