package bfe_http2

// C37 — control-frame floods are bounded (the part that is decidable without the serve goroutine).
//
// The defence in bfe is: serverConn.queuedControlFrames counts the control frames (frames not tied to
// a stream: PING acks, RST_STREAM, connection WINDOW_UPDATE, ...) waiting in the write scheduler, and
// the serve loop closes the connection when the counter exceeds Server.maxQueuedControlFrames() after
// any event. What can be decided at unit level, and is decided here from an arbitrary state with the
// writer stalled or not:
//   (a) the counter is exact: after every serve-loop step function it equals the number of control
//       frames actually held by the scheduler (so memory held for control frames <= counter);
//   (b) with the writer stalled (client not reading) every frame-eliciting client frame raises the
//       counter by exactly the number of control frames it queued - a flood cannot stay under the limit
//       by being miscounted;
//   (c) the limit is a positive constant.
// The comparison itself sits inline in serve()'s select loop; VerifC37_serve runs that loop with the harness
// as the only other party (notes/C37.md).

import (
	"io"

	vrt "github.com/bfenetworks/bfe/zz_vrt"
)

func controlQueuedC37(sc *serverConn) int {
	n := 0
	for _, wm := range sc.writeSched.zero.s {
		if wm.isControl() {
			n++
		}
	}
	// stream queues must not hide control frames
	for _, q := range sc.writeSched.sq {
		for _, wm := range q.s {
			if wm.isControl() {
				n++
			}
		}
	}
	return n
}

// VerifC37_step: one serve-loop step from an arbitrary state satisfying the invariant.
func VerifC37_step() {
	sc, _ := newConnH2()
	sc.sawFirstSettings = true
	// an open request stream (id 1) with a response DATA frame queued, a closed stream id 3
	st := &stream{id: 1, state: stateOpen}
	attachStreamH2(sc, st)
	sc.streams[1] = st
	sc.curOpenStreams = 1
	sc.maxStreamID = 3
	if vrt.Bool("streamHasQueuedData") {
		sc.writeSched.add(frameWriteMsg{write: &writeData{streamID: 1, p: vrt.Bytes("resp", 1)}, stream: st})
	}
	// k control frames already waiting
	k := vrt.Range("queuedControl", 0, vrt.Param("K", 2))
	for i := 0; i < k; i++ {
		switch vrt.Choose("queuedKind", 3) {
		case 0:
			sc.writeSched.add(frameWriteMsg{write: writePingAck{&PingFrame{}}})
		case 1:
			sc.writeSched.add(frameWriteMsg{write: StreamError{StreamID: 3, Code: ErrCodeStreamClosed}})
		case 2:
			sc.writeSched.add(frameWriteMsg{write: writeWindowUpdate{streamID: 0, n: 1}})
		}
	}
	sc.queuedControlFrames = k // Inv
	stalled := vrt.Choose("writerStalled", 2) == 1
	var inflight frameWriteMsg
	if stalled {
		// a frame is with the write goroutine, which is blocked on the client's full receive buffer
		sc.writingFrame = true
		inflight = frameWriteMsg{write: writePingAck{&PingFrame{}}}
	}
	// a SETTINGS acknowledgement may be owed: produced by the real processSettings while the writer is
	// stalled (with an idle writer the acknowledgement is handed to the writer at once, it is never pending
	// between two steps). How the server remembers it - a flag or a queue entry - is its own business; a
	// queue entry falls under Inv like every other control frame.
	if stalled && vrt.Bool("settingsAckOwed") {
		sc.processSettings(&SettingsFrame{FrameHeader: FrameHeader{valid: true, Type: FrameSettings}})
	}
	if vrt.Bool("inGoAway") {
		sc.inGoAway = true
		sc.goAwayCode = ErrCode(vrt.U32("goAwayCode"))
	}
	sc.inflow.n = vrt.I32("connInflow")
	vrt.Assume(sc.inflow.n >= 0 && sc.inflow.n < 1<<30)

	before := sc.queuedControlFrames
	elicited := -1 // control frames the event must add to the queue when the writer is stalled (-1: not fixed)
	switch vrt.Choose("event", 7) {
	case 0: // PING
		f := &PingFrame{FrameHeader: FrameHeader{valid: true, Type: FramePing, Length: 8}}
		if vrt.Bool("pingAck") {
			f.Flags = FlagPingAck
			elicited = 0
		} else {
			elicited = 1
		}
		err := sc.processPing(f)
		vrt.Assert(err == nil, "C37/ping-accepted")
	case 1: // SETTINGS (empty, not an ack): bfe coalesces the acknowledgements in a flag; an implementation
		// that queues (and counts) one per frame would be as good, so only Inv is demanded
		f := &SettingsFrame{FrameHeader: FrameHeader{valid: true, Type: FrameSettings}}
		sc.processSettings(f)
	case 2: // a stream error on the request stream or on an unknown stream: RST_STREAM is queued
		id := uint32(1)
		if vrt.Bool("unknownStream") {
			id = 5
		}
		elicited = 1
		sc.resetStream(StreamError{StreamID: id, Code: ErrCodeProtocol})
	case 3: // DATA for a closed stream: answered with a connection WINDOW_UPDATE, then RST_STREAM by the caller
		length := vrt.U32("dataLength")
		vrt.Assume(length < 1<<14)
		f := &DataFrame{FrameHeader: FrameHeader{valid: true, Type: FrameData, Length: length, StreamID: 3}}
		sc.processData(f)
	case 4: // the write goroutine reports back
		if !stalled {
			vrt.Assume(false)
		}
		stalled = false
		sc.wroteFrame(frameWriteResult{wm: inflight})
	case 5: // WINDOW_UPDATE from the client
		f := &WindowUpdateFrame{FrameHeader: FrameHeader{valid: true, Type: FrameWindowUpdate, Length: 4}, Increment: 1}
		if vrt.Bool("onStream") {
			f.StreamID = 1
		}
		elicited = 0
		sc.processWindowUpdate(f)
	case 6: // RST_STREAM from the client
		f := &RSTStreamFrame{FrameHeader: FrameHeader{valid: true, Type: FrameRSTStream, Length: 4, StreamID: 1}, ErrCode: ErrCodeCancel}
		elicited = 0
		sc.processResetStream(f)
	}

	vrt.Assert(sc.queuedControlFrames == controlQueuedC37(sc), "C37/counter-equals-queued-control-frames")
	vrt.Assert(sc.queuedControlFrames >= 0, "C37/counter-not-negative")
	if stalled && elicited >= 0 {
		vrt.Assert(sc.queuedControlFrames == before+elicited, "C37/stalled-writer-every-elicited-frame-counted")
	}
	vrt.Assert(sc.srv.maxQueuedControlFrames() > 0, "C37/limit-positive")
}

// VerifC37_flood: n frame-eliciting client frames against a stalled writer starting from an empty queue:
// the counter the serve loop compares with the limit is exactly n.
func VerifC37_flood() {
	sc, _ := newConnH2()
	sc.sawFirstSettings = true
	sc.maxStreamID = 99
	sc.writingFrame = true // stalled
	n := vrt.Param("N", 6)
	for i := 0; i < n; i++ {
		switch vrt.Choose("floodKind", 3) {
		case 0:
			sc.processPing(&PingFrame{FrameHeader: FrameHeader{valid: true, Type: FramePing, Length: 8}})
		case 1:
			sc.resetStream(StreamError{StreamID: uint32(2*i + 1), Code: ErrCodeStreamClosed})
		case 2:
			// SETTINGS flood: must not grow anything
			sc.processSettings(&SettingsFrame{FrameHeader: FrameHeader{valid: true, Type: FrameSettings}})
			sc.processPing(&PingFrame{FrameHeader: FrameHeader{valid: true, Type: FramePing, Length: 8}})
		}
		vrt.Assert(sc.queuedControlFrames == i+1, "C37/flood-counter-tracks-queue")
		vrt.Assert(controlQueuedC37(sc) == i+1, "C37/flood-counter-tracks-queue")
		vrt.Assert(len(sc.writeFrameCh) == 0, "C37/stalled-writer-gets-nothing-more")
	}
}

// prefaceConnC37 is a client that sends the connection preface and then nothing on the socket (the frames
// of the flood are handed to the serve loop directly, the way readFrames would), and never reads.
type prefaceConnC37 struct {
	fakeConnH2
	pos int
}

func (c *prefaceConnC37) Read(p []byte) (int, error) {
	n := copy(p, clientPreface[c.pos:])
	c.pos += n
	return n, nil
}

// VerifC37_serve: the limit check itself. The real serve() runs on a hand-built serverConn; the harness is
// the only other party (vrt.OnBlock): whenever the loop waits in its select the harness first looks at
// the scheduler - the loop must never go back to waiting with more than the limit of control frames
// pending - and then delivers the next event the way the reader goroutine / the reload signal would:
// FLOOD PING frames (or FLOOD empty SETTINGS frames), optionally preceded or interrupted by the graceful-shutdown notification
// (CloseNotifyCh closed -> goAway(NO_ERROR)), finally EOF. The `go` statements of serve() are recorded and
// never run: the frame writer never reports back, i.e. the client does not read. To keep the run short
// the scheduler already holds PRE = limit-SLACK PING acks when serve() is entered (with the counter equal
// to their number, the invariant VerifC37_step proves inductive and VerifC37_flood shows a flood produces);
// PRE=0 with FLOOD > limit is the complete flood from a fresh connection.
func VerifC37_serve() {
	sc, _ := newConnH2()
	pc := &prefaceConnC37{}
	sc.conn = pc
	sc.sawFirstSettings = true
	sc.readFrameCh = make(chan readFrameResult, 1) // capacity 1: the harness is not a goroutine that could rendezvous
	closeNotify := make(chan bool)
	sc.closeNotifyCh = closeNotify
	limit := sc.srv.maxQueuedControlFrames()
	flood := vrt.Param("FLOOD", 8)
	pre := vrt.Param("PRE", -1)
	if pre < 0 {
		pre = limit - vrt.Param("SLACK", 3)
	}
	if pre > 0 {
		q := make([]frameWriteMsg, pre)
		for i := range q {
			q[i] = frameWriteMsg{write: writePingAck{&PingFrame{}}}
		}
		sc.writeSched.zero.s = q
		sc.queuedControlFrames = pre
		sc.writingFrame = true // a frame is with the write goroutine, blocked on the client's full receive buffer
	}
	// when the reload signal arrives: never / before the flood / after two frames of it
	gracefulAt := vrt.Choose("gracefulShutdownAt", 3) - 1
	if gracefulAt == 1 {
		gracefulAt = 2
	}

	settingsFlood := vrt.Choose("floodKind", 2) == 1 // PING frames, or empty SETTINGS frames (each wants an acknowledgement)

	waits, delivered := 0, 0
	prefaceRead, notified, eofSent := false, false, false
	peer := func() {
		if !prefaceRead { // serve() waits in readPreface: run its reader goroutine
			prefaceRead = true
			vrt.RunGo(vrt.GoCount() - 1)
			return
		}
		waits++
		vrt.Assert(controlQueuedC37(sc) <= limit, "C37/serve-loop-never-waits-with-more-than-the-limit-pending")
		if !notified && gracefulAt >= 0 && delivered >= gracefulAt {
			notified = true
			close(closeNotify)
			return
		}
		if delivered < flood {
			delivered++
			var f Frame = &PingFrame{FrameHeader: FrameHeader{valid: true, Type: FramePing, Length: 8}}
			if settingsFlood {
				f = &SettingsFrame{FrameHeader: FrameHeader{valid: true, Type: FrameSettings}}
			}
			sc.readFrameCh <- readFrameResult{f: f, readMore: func() {}}
			return
		}
		eofSent = true
		sc.readFrameCh <- readFrameResult{err: io.EOF, readMore: func() {}}
	}
	vrt.OnBlock(peer)
	sc.serve()
	vrt.OnBlock(nil)

	vrt.Assert(pc.closed, "C37/connection-closed-when-serve-returns")
	if !eofSent {
		// serve() gave up by itself: it must have been the flood check (nothing else can end this run)
		vrt.Assert(delivered > 0 && controlQueuedC37(sc) > limit, "C37/serve-ended-by-the-limit-check")
		vrt.Cover("C37/flood-past-the-limit-closes-the-connection")
	}
	if gracefulAt >= 0 && notified {
		vrt.Cover("C37/flood-during-graceful-shutdown")
	}
}
