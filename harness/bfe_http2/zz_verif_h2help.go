package bfe_http2

// Shared scaffolding for the HTTP/2 server harnesses (C33..C38): a hand-built serverConn on a fake
// net.Conn. Nothing here starts serve(), goroutines, sockets or timers. Not part of bfe.

import (
	"net"
	"time"

	"github.com/baidu/go-lib/gotrack"

	http "github.com/bfenetworks/bfe/bfe_http"
	"github.com/bfenetworks/bfe/bfe_http2/hpack"
)

type fakeAddrH2 struct{}

func (fakeAddrH2) Network() string { return "tcp" }
func (fakeAddrH2) String() string  { return "192.0.2.1:4242" }

// fakeConnH2 is an in-memory net.Conn: writes are appended to out, reads return EOF-less zero bytes.
type fakeConnH2 struct {
	out       []byte
	closed    bool
	deadlines int
}

func (c *fakeConnH2) Read(p []byte) (int, error)         { return 0, nil }
func (c *fakeConnH2) Write(p []byte) (int, error)        { c.out = append(c.out, p...); return len(p), nil }
func (c *fakeConnH2) Close() error                       { c.closed = true; return nil }
func (c *fakeConnH2) LocalAddr() net.Addr                { return fakeAddrH2{} }
func (c *fakeConnH2) RemoteAddr() net.Addr               { return fakeAddrH2{} }
func (c *fakeConnH2) SetDeadline(t time.Time) error      { c.deadlines++; return nil }
func (c *fakeConnH2) SetReadDeadline(t time.Time) error  { c.deadlines++; return nil }
func (c *fakeConnH2) SetWriteDeadline(t time.Time) error { c.deadlines++; return nil }

// newConnH2 mirrors the struct literal of Server.ServeConn (same channel capacities, same initial
// windows and frame size) without calling serve().
func newConnH2() (*serverConn, *fakeConnH2) {
	c := &fakeConnH2{}
	s := &Server{}
	sc := &serverConn{
		srv:              s,
		hs:               &http.Server{},
		conn:             c,
		remoteAddrStr:    "192.0.2.1:4242",
		bw:               newBufferedWriter(c),
		streams:          make(map[uint32]*stream),
		readFrameCh:      make(chan readFrameResult),
		wantWriteFrameCh: make(chan frameWriteMsg, 8),
		writeFrameCh:     make(chan frameWriteMsg, 1),
		wroteFrameCh:     make(chan frameWriteResult, 1),
		bodyReadCh:       make(chan bodyReadMsg),
		doneServing:      make(chan struct{}),
		advMaxStreams:    defaultMaxStreams,
		writeSched: writeScheduler{
			maxFrameSize: initialMaxFrameSize,
		},
		initialWindowSize: initialWindowSize,
		headerTableSize:   initialHeaderTableSize,
		pushEnabled:       true,
		serveG:            gotrack.NewGoroutineLock(), // the harness plays the serve goroutine

		readClientAgainTimeout: defaultReadClientAgainTimeout,
		timeoutEventCh:         make(chan timeoutEventElem, 4),
		timeoutValueCh:         make(chan timeoutValueElem, 4),
	}
	sc.flow.add(initialWindowSize)
	sc.inflow.add(initialWindowSize)
	sc.hpackEncoder = hpack.NewEncoder(&sc.headerWriteBuf)
	fr := NewFramer(sc.bw, c)
	fr.ReadMetaHeaders = hpack.NewDecoder(initialHeaderTableSize, nil)
	sc.framer = fr
	return sc, c
}

// attachStreamH2 wires a stream object to sc the way processHeaders does (flow links, closeWaiter).
func attachStreamH2(sc *serverConn, st *stream) {
	st.sc = sc
	st.cw.Init()
	st.flow.conn = &sc.flow
	st.inflow.conn = &sc.inflow
}
