package bfe_http2

// C32 — HTTP/2 frames round-trip and malformed frames are rejected.

import (
	"bytes"

	vrt "github.com/bfenetworks/bfe/zz_vrt"
)

func sidC32(label string) uint32 { return vrt.U32(label) & (1<<31 - 1) }

// VerifC32_roundtrip: one frame of each type written with symbolic parameters is read back identical.
func VerifC32_roundtrip() {
	var wire bytes.Buffer
	fr := NewFramer(&wire, &wire)
	kind := vrt.Choose("frametype", 9)
	switch kind {
	case 0: // DATA (optionally padded)
		id := sidC32("sid")
		end := vrt.Bool("end")
		data := vrt.Bytes("data", vrt.Range("dlen", 0, vrt.Param("P", 3)))
		var pad []byte
		if vrt.Bool("padded") {
			pad = make([]byte, vrt.Range("plen", 0, 2))
		}
		err := fr.WriteDataPadded(id, end, data, pad)
		if id == 0 {
			vrt.Assert(err != nil, "C32/write-data-stream0-refused")
			return
		}
		vrt.Assert(err == nil, "C32/write-ok")
		f, rerr := fr.ReadFrame()
		vrt.Assert(rerr == nil, "C32/readback-ok")
		if rerr != nil {
			return
		}
		df, ok := f.(*DataFrame)
		vrt.Assert(ok, "C32/readback-type")
		if ok {
			vrt.Assert(df.StreamID == id && df.StreamEnded() == end, "C32/data-fields")
			vrt.Assert(bytes.Equal(df.Data(), data), "C32/data-payload")
		}
	case 1: // HEADERS
		id := sidC32("sid")
		p := HeadersFrameParam{StreamID: id, EndStream: vrt.Bool("es"), EndHeaders: vrt.Bool("eh"),
			BlockFragment: vrt.Bytes("frag", vrt.Range("flen", 0, vrt.Param("P", 3))),
			PadLength:     uint8(vrt.Range("plen", 0, 2))}
		if vrt.Bool("prio") {
			p.Priority = PriorityParam{StreamDep: sidC32("dep"), Exclusive: vrt.Bool("excl"), Weight: vrt.Byte("w")}
		}
		vrt.Known("C32-empty-headers-fragment", len(p.BlockFragment) == 0)
		err := fr.WriteHeaders(p)
		if err != nil {
			// refused to write (invalid stream id / dependency): nothing to read back
			vrt.Assert(id == 0 || (!p.Priority.IsZero() && p.Priority.StreamDep == 0), "C32/write-headers-refusal-justified")
			return
		}
		f, rerr := fr.ReadFrame()
		vrt.Assert(rerr == nil, "C32/readback-ok")
		if rerr != nil {
			return
		}
		hf, ok := f.(*HeadersFrame)
		vrt.Assert(ok, "C32/readback-type")
		if ok {
			vrt.Assert(hf.StreamID == id && hf.StreamEnded() == p.EndStream && hf.HeadersEnded() == p.EndHeaders, "C32/headers-fields")
			vrt.Assert(bytes.Equal(hf.HeaderBlockFragment(), p.BlockFragment), "C32/headers-fragment")
			vrt.Assert(hf.HasPriority() == !p.Priority.IsZero(), "C32/headers-priority-flag")
			if hf.HasPriority() {
				vrt.Assert(hf.Priority == p.Priority, "C32/headers-priority")
			}
		}
	case 2: // PRIORITY
		id := sidC32("sid")
		pp := PriorityParam{StreamDep: sidC32("dep"), Exclusive: vrt.Bool("excl"), Weight: vrt.Byte("w")}
		if fr.WritePriority(id, pp) != nil {
			vrt.Assert(id == 0, "C32/write-priority-refusal-justified")
			return
		}
		f, rerr := fr.ReadFrame()
		vrt.Assert(rerr == nil, "C32/readback-ok")
		if rerr != nil {
			return
		}
		pf, ok := f.(*PriorityFrame)
		vrt.Assert(ok, "C32/readback-type")
		if ok {
			vrt.Assert(pf.StreamID == id && pf.PriorityParam == pp, "C32/priority-fields")
		}
	case 3: // RST_STREAM
		id := sidC32("sid")
		code := ErrCode(vrt.U32("code"))
		if fr.WriteRSTStream(id, code) != nil {
			vrt.Assert(id == 0, "C32/write-rst-refusal-justified")
			return
		}
		f, rerr := fr.ReadFrame()
		vrt.Assert(rerr == nil, "C32/readback-ok")
		if rerr != nil {
			return
		}
		rf, ok := f.(*RSTStreamFrame)
		vrt.Assert(ok, "C32/readback-type")
		if ok {
			vrt.Assert(rf.StreamID == id && rf.ErrCode == code, "C32/rst-fields")
		}
	case 4: // SETTINGS
		n := vrt.Range("nsettings", 0, 2)
		var ss []Setting
		for i := 0; i < n; i++ {
			s := Setting{ID: SettingID(vrt.U16("sid")), Val: vrt.U32("sval")}
			// the writer is given settings that are valid per RFC 7540 §6.5.2
			vrt.Assume(s.Valid() == nil)
			ss = append(ss, s)
		}
		vrt.Assert(fr.WriteSettings(ss...) == nil, "C32/write-ok")
		f, rerr := fr.ReadFrame()
		vrt.Assert(rerr == nil, "C32/readback-ok")
		if rerr != nil {
			return
		}
		sf, ok := f.(*SettingsFrame)
		vrt.Assert(ok, "C32/readback-type")
		if ok {
			var got []Setting
			sf.ForeachSetting(func(s Setting) error { got = append(got, s); return nil })
			vrt.Assert(len(got) == len(ss), "C32/settings-count")
			if len(got) == len(ss) {
				for i := range ss {
					vrt.Assert(got[i] == ss[i], "C32/settings-fields")
				}
			}
			vrt.Assert(!sf.IsAck(), "C32/settings-not-ack")
		}
	case 5: // PING
		var d [8]byte
		copy(d[:], vrt.Bytes("ping", 8))
		ack := vrt.Bool("ack")
		vrt.Assert(fr.WritePing(ack, d) == nil, "C32/write-ok")
		f, rerr := fr.ReadFrame()
		vrt.Assert(rerr == nil, "C32/readback-ok")
		if rerr != nil {
			return
		}
		pf, ok := f.(*PingFrame)
		vrt.Assert(ok, "C32/readback-type")
		if ok {
			vrt.Assert(pf.IsAck() == ack && pf.Data == d, "C32/ping-fields")
		}
	case 6: // GOAWAY
		last := sidC32("last")
		code := ErrCode(vrt.U32("code"))
		dbg := vrt.Bytes("debug", vrt.Range("dbglen", 0, vrt.Param("P", 3)))
		vrt.Assert(fr.WriteGoAway(last, code, dbg) == nil, "C32/write-ok")
		f, rerr := fr.ReadFrame()
		vrt.Assert(rerr == nil, "C32/readback-ok")
		if rerr != nil {
			return
		}
		gf, ok := f.(*GoAwayFrame)
		vrt.Assert(ok, "C32/readback-type")
		if ok {
			vrt.Assert(gf.LastStreamID == last && gf.ErrCode == code, "C32/goaway-fields")
			vrt.Assert(bytes.Equal(gf.DebugData(), dbg), "C32/goaway-debug")
		}
	case 7: // WINDOW_UPDATE
		id := sidC32("sid")
		inc := vrt.U32("inc")
		if fr.WriteWindowUpdate(id, inc) != nil {
			vrt.Assert(inc < 1 || inc > 1<<31-1, "C32/write-wu-refusal-justified")
			return
		}
		f, rerr := fr.ReadFrame()
		vrt.Assert(rerr == nil, "C32/readback-ok")
		if rerr != nil {
			return
		}
		wf, ok := f.(*WindowUpdateFrame)
		vrt.Assert(ok, "C32/readback-type")
		if ok {
			vrt.Assert(wf.StreamID == id && wf.Increment == inc, "C32/wu-fields")
		}
	case 8: // HEADERS without END_HEADERS followed by CONTINUATION
		id := sidC32("sid")
		vrt.Assume(id != 0)
		frag1 := vrt.Bytes("frag", vrt.Range("f1", 1, 2))
		frag2 := vrt.Bytes("frag", vrt.Range("f2", 0, 2))
		endH := vrt.Bool("eh2")
		vrt.Assert(fr.WriteHeaders(HeadersFrameParam{StreamID: id, BlockFragment: frag1}) == nil, "C32/write-ok")
		vrt.Assert(fr.WriteContinuation(id, endH, frag2) == nil, "C32/write-ok")
		f1, e1 := fr.ReadFrame()
		vrt.Assert(e1 == nil, "C32/readback-ok")
		if e1 != nil {
			return
		}
		_, isH := f1.(*HeadersFrame)
		vrt.Assert(isH, "C32/readback-type")
		f2, e2 := fr.ReadFrame()
		vrt.Assert(e2 == nil, "C32/readback-ok")
		if e2 != nil {
			return
		}
		cf, ok := f2.(*ContinuationFrame)
		vrt.Assert(ok, "C32/readback-type")
		if ok {
			vrt.Assert(cf.StreamID == id && cf.HeadersEnded() == endH, "C32/continuation-fields")
			vrt.Assert(bytes.Equal(cf.HeaderBlockFragment(), frag2), "C32/continuation-fragment")
		}
	}
	vrt.Cover("C32/roundtrip-end")
}

// refInvalidC32 says whether a single frame (header fields + payload) violates a frame-level MUST of
// RFC 7540 §4–§6 when it is the first frame on a connection (no CONTINUATION pending).
func refInvalidC32(typ byte, flags byte, sid uint32, p []byte, maxSize uint32) bool {
	n := len(p)
	if uint32(n) > maxSize {
		return true
	}
	be32 := func(b []byte) uint32 { return uint32(b[0])<<24 | uint32(b[1])<<16 | uint32(b[2])<<8 | uint32(b[3]) }
	switch typ {
	case 0: // DATA
		if sid == 0 {
			return true
		}
		if flags&0x8 != 0 {
			if n < 1 || int(p[0]) > n-1 {
				return true
			}
		}
	case 1: // HEADERS
		if sid == 0 {
			return true
		}
		need := 0
		pad := 0
		if flags&0x8 != 0 {
			need++
			if n < 1 {
				return true
			}
			pad = int(p[0])
		}
		if flags&0x20 != 0 {
			need += 5
		}
		if n < need || pad > n-need {
			return true
		}
	case 2: // PRIORITY
		if sid == 0 || n != 5 {
			return true
		}
	case 3: // RST_STREAM
		if sid == 0 || n != 4 {
			return true
		}
	case 4: // SETTINGS
		if sid != 0 || n%6 != 0 || (flags&0x1 != 0 && n != 0) {
			return true
		}
		for i := 0; i+6 <= n; i += 6 {
			id := uint16(p[i])<<8 | uint16(p[i+1])
			v := be32(p[i+2 : i+6])
			if id == 4 && v > 1<<31-1 {
				return true
			}
		}
	case 6: // PING
		if sid != 0 || n != 8 {
			return true
		}
	case 7: // GOAWAY
		if sid != 0 || n < 8 {
			return true
		}
	case 8: // WINDOW_UPDATE
		if n != 4 {
			return true
		}
		if be32(p)&0x7fffffff == 0 {
			return true
		}
	case 9: // CONTINUATION with no preceding HEADERS
		return true
	}
	return false
}

// VerifC32_raw: any 9-byte header + payload: ReadFrame never panics and rejects frames that break a MUST.
func VerifC32_raw() {
	plen := vrt.Range("plen", 0, vrt.Param("P", 8))
	typ := byte(vrt.Range("type", 0, 10))
	flags := vrt.Byte("flags")
	sidb := vrt.Bytes("sid", 4)
	payload := vrt.Bytes("payload", plen)
	hdr := []byte{0, 0, byte(plen), typ, flags, sidb[0], sidb[1], sidb[2], sidb[3]}
	stream := append(hdr, payload...)
	fr := NewFramer(nil, bytes.NewReader(stream))
	f, err := fr.ReadFrame()
	sid := (uint32(sidb[0])<<24 | uint32(sidb[1])<<16 | uint32(sidb[2])<<8 | uint32(sidb[3])) & (1<<31 - 1)
	invalid := refInvalidC32(typ, flags, sid, payload, 1<<24-1)
	if invalid {
		vrt.Assert(err != nil, "C32/raw-invalid-rejected")
	}
	if err == nil {
		h := f.Header()
		vrt.Assert(byte(h.Type) == typ && byte(h.Flags) == flags && h.StreamID == sid && int(h.Length) == plen, "C32/raw-header-fields")
	}
	vrt.Cover("C32/raw-end")
}

// VerifC32_sequence: CONTINUATION sequencing across two frames, and the max frame size limit.
func VerifC32_sequence() {
	// frame 1: HEADERS (stream 1) with symbolic END_HEADERS; frame 2: symbolic type/stream
	eh := vrt.Bool("eh")
	f1flags := byte(0)
	if eh {
		f1flags = 0x4
	}
	t2 := byte(vrt.Range("type2", 0, 11)) // 10, 11: unknown (extension) frame types
	s2 := byte(vrt.Range("sid2", 0, 2))
	f2flags := vrt.Byte("flags2") & 0x4
	p2 := []byte{0xaa, 0xbb, 0xcc, 0xdd, 0xee}
	n2 := 1
	switch t2 {
	case 2:
		n2 = 5
	case 3, 8:
		n2 = 4
	case 4:
		n2 = 0
	case 6:
		return // needs 8 bytes; covered by raw
	case 7:
		return
	}
	stream := []byte{0, 0, 1, 1, f1flags, 0, 0, 0, 1, 0x82}
	stream = append(stream, 0, 0, byte(n2), t2, f2flags, 0, 0, 0, s2)
	stream = append(stream, p2[:n2]...)
	fr := NewFramer(nil, bytes.NewReader(stream))
	_, e1 := fr.ReadFrame()
	vrt.Assert(e1 == nil, "C32/seq-first-ok")
	_, e2 := fr.ReadFrame()
	if !eh {
		// only CONTINUATION on the same stream may follow
		if t2 != 9 || s2 != 1 {
			vrt.Assert(e2 != nil, "C32/seq-continuation-required")
		} else {
			vrt.Assert(e2 == nil, "C32/seq-continuation-accepted")
		}
	} else if t2 == 9 {
		vrt.Assert(e2 != nil, "C32/seq-unexpected-continuation")
	}
	// max frame size
	fr2 := NewFramer(nil, bytes.NewReader([]byte{0, 0x40, 1, 0, 0, 0, 0, 0, 1}))
	fr2.SetMaxReadFrameSize(16384)
	_, e3 := fr2.ReadFrame()
	vrt.Assert(e3 == ErrFrameTooLarge, "C32/frame-too-large")
}
