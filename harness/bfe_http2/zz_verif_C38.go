package bfe_http2

// C38 — an HTTP/2 response carries exactly the handler's response (unit level, full write path).
//
// The harness plays an http.Handler on a real responseWriter / responseWriterState (Header, WriteHeader,
// Write, Flush, handlerDone). The serve goroutine is the harness's vrt.OnBlock peer: whenever the handler
// side would block on its hand-off channels the peer performs the serve loop's own steps with the real
// code - writeFrame (scheduler, flow control), the write goroutine's wm.write.writeFrame(sc) (real HPACK
// encoder and Framer onto the fake conn) and wroteFrame (stream state, reply on wm.done). The oracle
// reads the bytes that reached the fake conn back with a second Framer + HPACK decoder: this is the
// client's view named by the property.

import (
	"bufio"
	"bytes"

	"github.com/baidu/go-lib/gotrack"

	http "github.com/bfenetworks/bfe/bfe_http"
	"github.com/bfenetworks/bfe/bfe_http2/hpack"
	vrt "github.com/bfenetworks/bfe/zz_vrt"
)

type sentFrameC38 struct {
	isHeaders bool
	isData    bool
	endStream bool
	fields    []hpack.HeaderField
	data      []byte
}

// clientViewC38 decodes everything the server wrote for stream id.
func clientViewC38(wire []byte, id uint32) ([]sentFrameC38, bool) {
	fr := NewFramer(nil, bytes.NewReader(wire))
	fr.ReadMetaHeaders = hpack.NewDecoder(initialHeaderTableSize, nil)
	var out []sentFrameC38
	for i := 0; i < 16; i++ {
		f, err := fr.ReadFrame()
		if err != nil {
			return out, len(wire) == 0 || err.Error() == "EOF"
		}
		switch f := f.(type) {
		case *MetaHeadersFrame:
			if f.StreamID == id {
				out = append(out, sentFrameC38{isHeaders: true, endStream: f.StreamEnded(), fields: append([]hpack.HeaderField(nil), f.Fields...)})
			}
		case *DataFrame:
			if f.StreamID == id {
				out = append(out, sentFrameC38{isData: true, endStream: f.StreamEnded(), data: append([]byte(nil), f.Data()...)})
			}
		}
	}
	return out, false
}

func fieldC38(fields []hpack.HeaderField, name string) (string, int) {
	v, n := "", 0
	for _, hf := range fields {
		if hf.Name == name {
			if n == 0 {
				v = hf.Value
			}
			n++
		}
	}
	return v, n
}

var statusesC38 = []int{200, 404, 204, 304}

// handler header universe: canonical key as a handler sets it with Header().Set, value, connection-specific?
var hdrKeysC38 = []string{"X-Custom", "Set-Cookie", "Connection", "Keep-Alive", "Proxy-Connection", "Transfer-Encoding", "Upgrade"}
var hdrLowerC38 = []string{"x-custom", "set-cookie", "connection", "keep-alive", "proxy-connection", "transfer-encoding", "upgrade"}
var hdrValsC38 = []string{"Va", "k=v", "close", "timeout=5", "keep-alive", "chunked", "h2c"}

const firstConnSpecificC38 = 2

// VerifC38_response
func VerifC38_response() {
	gotrack.DebugGoroutines = false // natively the peer runs on a helper goroutine
	sc, conn := newConnH2()
	st := &stream{id: 1, state: stateHalfClosedRemote} // request completely received
	attachStreamH2(sc, st)
	st.flow.add(sc.initialWindowSize)
	sc.streams[1] = st
	sc.curOpenStreams = 1
	sc.maxStreamID = 1

	method := "GET"
	isHead := vrt.Choose("head", 2) == 1
	if isHead {
		method = "HEAD"
	}
	rws := &responseWriterState{conn: sc, stream: st, req: &http.Request{Method: method}}
	rws.bw = bufio.NewWriterSize(chunkWriter{rws}, handlerChunkWriteSize)
	rw := &responseWriter{rws: rws}

	// the serve goroutine, sequentialised
	peer := func() {
		for i := 0; i < 8; i++ {
			select {
			case wm := <-sc.wantWriteFrameCh:
				sc.writeFrame(wm)
			default:
			}
			select {
			case wm := <-sc.writeFrameCh:
				err := wm.write.writeFrame(sc)
				sc.wroteFrame(frameWriteResult{wm: wm, err: err})
			default:
				if len(sc.wantWriteFrameCh) == 0 {
					return
				}
			}
		}
	}
	vrt.OnBlock(peer)

	// ---- the handler ----
	status := statusesC38[vrt.Choose("status", vrt.Param("STATUSES", 4))]
	h := rw.Header()
	h.Set("Content-Type", "text/plain") // keeps content sniffing and the clock (Date) out of the run
	h.Set("Date", "Mon, 01 Jan 2024 00:00:00 GMT")
	var picked [7]bool
	nh := vrt.Range("extraHeaders", 0, vrt.Param("H", 2))
	for i := 0; i < nh; i++ {
		k := vrt.Choose("headerPick", len(hdrKeysC38))
		picked[k] = true
		h.Set(hdrKeysC38[k], hdrValsC38[k])
	}
	trailerMode := vrt.Choose("trailers", vrt.Param("TRAILERMODES", 3)) // 0 none, 1 declared up front, 2 TrailerPrefix
	if trailerMode == 1 {
		h.Set("Trailer", "X-T")
	}
	if vrt.Choose("explicitWriteHeader", 2) == 1 {
		rw.WriteHeader(status)
	} else {
		status = 200
	}
	bodyOK := bodyAllowedForStatus(status)
	var body []byte
	nw := vrt.Range("writes", 0, vrt.Param("W", 2))
	for i := 0; i < nw; i++ {
		p := vrt.Bytes("chunk", vrt.Range("chunkLen", 1, vrt.Param("L", 2)))
		n, err := rw.Write(p)
		if bodyOK {
			if !isHead { // for HEAD the bytes are discarded; what Write reports to the handler is not part of the claim
				vrt.Assert(err == nil && n == len(p), "C38/write-accepted")
			}
			body = append(body, p...)
		} else {
			vrt.Assert(err != nil, "C38/write-refused-for-bodyless-status")
		}
		if vrt.Choose("flush", 2) == 1 {
			rw.Flush()
		}
	}
	switch trailerMode {
	case 1:
		h.Set("X-T", "tv")
	case 2:
		h.Set(TrailerPrefix+"X-T", "tv")
	}
	// nothing of the response has left the handler side yet and there is no buffered body either
	nothingSentYet := !rws.sentHeader && rws.bw.Buffered() == 0
	vrt.Known("C38-trailerprefix-trailers-dropped-for-empty-unflushed-response", trailerMode == 2 && !isHead && nothingSentYet)
	rw.handlerDone()
	// ---- end of handler ----
	vrt.OnBlock(nil)
	peer()
	sc.Flush()

	frames, ok := clientViewC38(conn.out, 1)
	vrt.Assert(ok, "C38/client-can-parse-the-response")
	vrt.Assert(len(frames) >= 1 && frames[0].isHeaders, "C38/response-starts-with-headers")
	if len(frames) == 0 || !frames[0].isHeaders {
		return
	}
	hd := frames[0].fields
	sv, sn := fieldC38(hd, ":status")
	vrt.Assert(sn == 1 && sv == httpCodeString(status), "C38/status-is-the-handlers")
	for _, hf := range hd {
		for j := 0; j < len(hf.Name); j++ {
			vrt.Assert(hf.Name[j] < 'A' || hf.Name[j] > 'Z', "C38/header-names-lower-case")
		}
	}
	for k := range hdrKeysC38 {
		v, n := fieldC38(hd, hdrLowerC38[k])
		if k >= firstConnSpecificC38 {
			vrt.Assert(n == 0, "C38/connection-specific-fields-removed")
		} else if picked[k] {
			vrt.Assert(n == 1 && v == hdrValsC38[k], "C38/handler-header-delivered")
		} else {
			vrt.Assert(n == 0, "C38/no-invented-header")
		}
	}
	// body, trailers, END_STREAM
	var got []byte
	ends, lastEnds := 0, false
	seenTrailers, dataAfterTrailers := false, false
	var trailerFields []hpack.HeaderField
	for i, f := range frames {
		if f.endStream {
			ends++
		}
		lastEnds = f.endStream
		if i == 0 {
			continue
		}
		if f.isData {
			got = append(got, f.data...)
			if seenTrailers {
				dataAfterTrailers = true
			}
		}
		if f.isHeaders {
			seenTrailers = true
			trailerFields = f.fields
		}
	}
	vrt.Assert(ends == 1 && lastEnds, "C38/end-stream-exactly-once-and-last")
	if isHead || !bodyOK {
		vrt.Assert(len(got) == 0, "C38/no-body-for-head-and-bodyless-status")
	} else {
		vrt.Assert(len(got) == len(body), "C38/body-is-the-bytes-written")
		if len(got) == len(body) {
			for i := range body {
				vrt.Assert(got[i] == body[i], "C38/body-is-the-bytes-written")
			}
		}
	}
	vrt.Assert(!dataAfterTrailers, "C38/trailers-after-body")
	if trailerMode != 0 && !isHead {
		tv, tn := fieldC38(trailerFields, "x-t")
		vrt.Assert(seenTrailers && tn == 1 && tv == "tv", "C38/declared-trailers-delivered")
	}
	if trailerMode == 0 {
		vrt.Assert(!seenTrailers, "C38/no-trailers-unless-declared")
	}
}

// setupC38 is the scaffolding of VerifC38_response for the focused harnesses below: a response writer for
// stream 1 of a hand-built serverConn and the sequentialised serve goroutine as vrt.OnBlock peer.
func setupC38(method string) (*serverConn, *fakeConnH2, *responseWriter, func()) {
	gotrack.DebugGoroutines = false
	sc, conn := newConnH2()
	st := &stream{id: 1, state: stateHalfClosedRemote}
	attachStreamH2(sc, st)
	st.flow.add(sc.initialWindowSize)
	sc.streams[1] = st
	sc.curOpenStreams = 1
	sc.maxStreamID = 1
	rws := &responseWriterState{conn: sc, stream: st, req: &http.Request{Method: method}}
	rws.bw = bufio.NewWriterSize(chunkWriter{rws}, handlerChunkWriteSize)
	rw := &responseWriter{rws: rws}
	peer := func() {
		for i := 0; i < 8; i++ {
			select {
			case wm := <-sc.wantWriteFrameCh:
				sc.writeFrame(wm)
			default:
			}
			select {
			case wm := <-sc.writeFrameCh:
				err := wm.write.writeFrame(sc)
				sc.wroteFrame(frameWriteResult{wm: wm, err: err})
			default:
				if len(sc.wantWriteFrameCh) == 0 {
					return
				}
			}
		}
	}
	vrt.OnBlock(peer)
	return sc, conn, rw, peer
}

func repeatC38(c byte, n int) string {
	b := make([]byte, n)
	for i := range b {
		b[i] = c
	}
	return string(b)
}

// continuationsC38 counts the CONTINUATION frames on the wire.
func continuationsC38(wire []byte) int {
	n := 0
	for off := 0; off+9 <= len(wire); {
		l := int(wire[off])<<16 | int(wire[off+1])<<8 | int(wire[off+2])
		if FrameType(wire[off+3]) == FrameContinuation {
			n++
		}
		off += 9 + l
	}
	return n
}

// VerifC38_largeHeaders: a response whose HPACK header block does not fit one frame (HEADERS +
// CONTINUATION): one handler header of BIG octets ('Z' has an 8-bit Huffman code, so the block is not
// shrunk below the 16384-octet frame size), header-only (204, HEAD, handler returns without writing) or
// followed by a one-octet body. The client view must still have the handler's status and header and
// END_STREAM exactly once, at the end.
func VerifC38_largeHeaders() {
	isHead := vrt.Choose("head", 2) == 1
	method := "GET"
	if isHead {
		method = "HEAD"
	}
	sc, conn, rw, peer := setupC38(method)
	big := repeatC38('Z', vrt.Param("BIG", 17000))
	status := 200
	if vrt.Choose("status204", 2) == 1 {
		status = 204
	}
	h := rw.Header()
	h.Set("Content-Type", "text/plain")
	h.Set("Date", "Mon, 01 Jan 2024 00:00:00 GMT")
	h.Set("X-Custom", big)
	rw.WriteHeader(status)
	var body []byte
	if status == 200 && vrt.Choose("writeBody", 2) == 1 {
		body = vrt.Bytes("chunk", 1)
		rw.Write(body)
	}
	rw.handlerDone()
	vrt.OnBlock(nil)
	peer()
	sc.Flush()

	frames, ok := clientViewC38(conn.out, 1)
	vrt.Assert(ok, "C38/client-can-parse-the-response")
	vrt.Assert(len(frames) >= 1 && frames[0].isHeaders, "C38/response-starts-with-headers")
	if len(frames) == 0 || !frames[0].isHeaders {
		return
	}
	sv, sn := fieldC38(frames[0].fields, ":status")
	vrt.Assert(sn == 1 && sv == httpCodeString(status), "C38/status-is-the-handlers")
	v, n := fieldC38(frames[0].fields, "x-custom")
	vrt.Assert(n == 1 && v == big, "C38/handler-header-delivered")
	if continuationsC38(conn.out) > 0 {
		vrt.Cover("C38/header-block-needed-continuation") // vacuity guard: BIG was big enough
	}
	ends, lastEnds := 0, false
	var got []byte
	for i, f := range frames {
		if f.endStream {
			ends++
		}
		lastEnds = f.endStream
		if i > 0 && f.isData {
			got = append(got, f.data...)
		}
	}
	vrt.Assert(ends == 1 && lastEnds, "C38/end-stream-exactly-once-and-last")
	if isHead {
		vrt.Assert(len(got) == 0, "C38/no-body-for-head-and-bodyless-status")
	} else {
		vrt.Assert(len(got) == len(body) && (len(body) == 0 || got[0] == body[0]), "C38/body-is-the-bytes-written")
	}
}

var teSpellingsC38 = []string{"transfer-encoding", "Transfer-encoding", "TRANSFER-ENCODING", "Transfer-Encoding"}

// VerifC38_rawHeaderKeys: http.Header is a map; a handler (or a proxy layer copying a backend's header map)
// may store a field under a key that is not in canonical form. Whatever the spelling of the key, the
// connection-specific Transfer-Encoding field must not reach the client (RFC 7540 8.1.2.2) and every
// field name on the wire is lower case; an ordinary field stored the same way is delivered.
// (Only Transfer-Encoding: bfe, like x/net/http2, recognises the other connection-specific fields by
// their canonical map key only - see notes/C38.md.)
func VerifC38_rawHeaderKeys() {
	sc, conn, rw, peer := setupC38("GET")
	h := rw.Header()
	h.Set("Content-Type", "text/plain")
	h.Set("Date", "Mon, 01 Jan 2024 00:00:00 GMT")
	te := teSpellingsC38[vrt.Choose("spelling", len(teSpellingsC38))]
	h[te] = []string{"chunked"}
	rawCustom := vrt.Choose("rawCustom", 2) == 1
	if rawCustom {
		h["x-cUSTOM"] = []string{"Va"}
	}
	if vrt.Choose("explicitWriteHeader", 2) == 1 {
		rw.WriteHeader(200)
	}
	var body []byte
	if vrt.Choose("writeBody", 2) == 1 {
		body = vrt.Bytes("chunk", 1)
		rw.Write(body)
	}
	rw.handlerDone()
	vrt.OnBlock(nil)
	peer()
	sc.Flush()

	frames, ok := clientViewC38(conn.out, 1)
	vrt.Assert(ok, "C38/client-can-parse-the-response")
	vrt.Assert(len(frames) >= 1 && frames[0].isHeaders, "C38/response-starts-with-headers")
	if len(frames) == 0 || !frames[0].isHeaders {
		return
	}
	hd := frames[0].fields
	for _, hf := range hd {
		for j := 0; j < len(hf.Name); j++ {
			vrt.Assert(hf.Name[j] < 'A' || hf.Name[j] > 'Z', "C38/header-names-lower-case")
		}
	}
	_, n := fieldC38(hd, "transfer-encoding")
	vrt.Assert(n == 0, "C38/connection-specific-fields-removed")
	v, n := fieldC38(hd, "x-custom")
	if rawCustom {
		vrt.Assert(n == 1 && v == "Va", "C38/handler-header-delivered")
	} else {
		vrt.Assert(n == 0, "C38/no-invented-header")
	}
}
