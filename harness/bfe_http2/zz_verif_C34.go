package bfe_http2

// C34 — outbound DATA respects the peer's windows, its maximum frame size and per-stream order.
//
// VerifC34_take drives the real writeScheduler (add / take / takeFrom / streamWritableBytes) and the
// real flow arithmetic (flow.available / take) on hand-built stream objects until the scheduler has
// nothing more it may send. The oracle keeps mathematical ghost copies of the client's stream and
// connection windows (int64, never wrapped) and a cursor into the bytes each stream produced.
//
// VerifC34_conn does the same through the serve-loop step functions of a hand-built serverConn
// (writeFrame = handler output arriving, processWindowUpdate / processSettings / processResetStream =
// client frames, wroteFrame = the write goroutine reporting back), observing what reaches writeFrameCh.

import (
	vrt "github.com/bfenetworks/bfe/zz_vrt"
)

const maxStreamsC34 = 2
const maxQueuedC34 = 3

// ghostC34 is the oracle state: what the client believes.
type ghostC34 struct {
	connWin int64
	win     [maxStreamsC34]int64
	// produced frames per stream, in production order
	nfr    [maxStreamsC34]int
	isData [maxStreamsC34][maxQueuedC34]bool
	data   [maxStreamsC34][maxQueuedC34][]byte // private copy of the payload
	end    [maxStreamsC34][maxQueuedC34]bool
	hdr    [maxStreamsC34][maxQueuedC34]*writeResHeaders
	// cursor
	idx [maxStreamsC34]int // first produced frame not yet completely sent
	off [maxStreamsC34]int // bytes of data[idx] already sent
}

// produceC34 appends one handler-produced frame for stream s to the ghost and returns the message.
func (g *ghostC34) produceC34(s int, st *stream) frameWriteMsg {
	j := g.nfr[s]
	g.nfr[s]++
	if vrt.Param("HEADERS", 1) == 1 && vrt.Choose("kind", 2) == 1 {
		h := &writeResHeaders{streamID: st.id, httpResCode: 200}
		g.hdr[s][j] = h
		return frameWriteMsg{write: h, stream: st}
	}
	l := vrt.Range("len", 0, vrt.Param("L", 2))
	p := vrt.Bytes("payload", l)
	e := vrt.Bool("endStream")
	g.isData[s][j] = true
	g.data[s][j] = append([]byte(nil), p...)
	g.end[s][j] = e
	return frameWriteMsg{write: &writeData{streamID: st.id, p: p, endStream: e}, stream: st}
}

// observeC34 checks one frame the scheduler released for stream s against the ghost and advances it.
func (g *ghostC34) observeC34(s int, wm frameWriteMsg, maxFrameSize uint32) {
	j := g.idx[s]
	vrt.Assert(j < g.nfr[s], "C34/only-produced-frames-are-sent")
	wd, isData := wm.write.(*writeData)
	if !isData {
		// a non-DATA stream frame: must be the oldest unsent one, and no DATA piece may be pending before it
		vrt.Assert(!g.isData[s][j] && g.off[s] == 0, "C34/per-stream-fifo")
		h, _ := wm.write.(*writeResHeaders)
		vrt.Assert(h == g.hdr[s][j], "C34/per-stream-fifo")
		g.idx[s]++
		return
	}
	vrt.Assert(g.isData[s][j], "C34/per-stream-fifo")
	k := len(wd.p)
	orig := g.data[s][j]
	rem := len(orig) - g.off[s]
	vrt.Assert(k <= rem, "C34/per-stream-fifo")
	if k > 0 {
		vrt.Assert(int64(k) <= g.win[s], "C34/data-within-stream-window")
		vrt.Assert(int64(k) <= g.connWin, "C34/data-within-conn-window")
		vrt.Assert(int64(k) <= int64(maxFrameSize), "C34/data-within-max-frame-size")
	}
	for i := 0; i < k; i++ {
		vrt.Assert(wd.p[i] == orig[g.off[s]+i], "C34/per-stream-bytes-in-order")
	}
	last := k == rem
	vrt.Assert(!wd.endStream || (last && g.end[s][j]), "C34/end-stream-only-on-last-piece")
	vrt.Assert(wd.endStream || !(last && g.end[s][j]), "C34/end-stream-kept-on-last-piece")
	g.win[s] -= int64(k)
	g.connWin -= int64(k)
	g.off[s] += k
	if last {
		g.idx[s]++
		g.off[s] = 0
	}
}

func streamIndexC34(sts []*stream, st *stream) int {
	for i, x := range sts {
		if x == st {
			return i
		}
	}
	return -1
}

// VerifC34_take: scheduler level.
func VerifC34_take() {
	vrt.MapOrder(true)
	ns := vrt.Range("streams", 1, vrt.Param("S", 2))
	var g ghostC34
	conn := &flow{n: vrt.I32("connWindow")}
	g.connWin = int64(conn.n)
	ws := &writeScheduler{maxFrameSize: vrt.U32("maxFrameSize")}
	// precondition of the scheduler ("must be non-zero and between 16K-16M"); the lower end is relaxed to
	// 1 so that the limit binds on the small payloads the engine can enumerate (a superset of the states
	// processSetting can produce, see VerifC34_maxFrameSizeSetting)
	vrt.Assume(ws.maxFrameSize >= 1 && ws.maxFrameSize < 1<<24)
	sts := make([]*stream, ns)
	total := 0
	for s := 0; s < ns; s++ {
		st := &stream{id: uint32(2*s + 1), state: stateOpen}
		st.flow.conn = conn
		st.flow.n = vrt.I32("streamWindow")
		g.win[s] = int64(st.flow.n)
		sts[s] = st
		nq := vrt.Range("queued", 1, vrt.Param("Q", 2))
		for j := 0; j < nq; j++ {
			wm := g.produceC34(s, st)
			if g.isData[s][j] {
				total += len(g.data[s][j])
			}
			total++
			ws.add(wm)
		}
	}
	// every successful take sends at least one byte or completes a frame
	for step := 0; step < total; step++ {
		wm, ok := ws.take()
		if !ok {
			break
		}
		s := streamIndexC34(sts, wm.stream)
		vrt.Assert(s >= 0, "C34/only-produced-frames-are-sent")
		g.observeC34(s, wm, ws.maxFrameSize)
	}
	_, more := ws.take()
	vrt.Assert(!more, "C34/scheduler-step-bound") // harness sanity: the loop bound above was enough
	vrt.Cover("C34/drained")
}

// VerifC34_maxFrameSizeSetting: the only writer of writeScheduler.maxFrameSize after construction is
// processSetting(SETTINGS_MAX_FRAME_SIZE); whatever 32-bit value the client sends, the value stored stays
// inside [2^14, 2^24-1] (RFC 7540 6.5.2), the range VerifC34_take assumes a superset of.
func VerifC34_maxFrameSizeSetting() {
	sc, _ := newConnH2()
	id := SettingID(vrt.U16("settingID"))
	val := vrt.U32("value")
	if vrt.Param("ONLYMFS", 1) == 1 {
		vrt.Assume(id == SettingMaxFrameSize)
	} else {
		vrt.Assume(id != SettingInitialWindowSize && id != SettingHeaderTableSize)
	}
	err := sc.processSetting(Setting{ID: id, Val: val})
	m := sc.writeSched.maxFrameSize
	vrt.Assert(m >= 1<<14 && m <= 1<<24-1, "C34/max-frame-size-setting-in-range")
	if err == nil && id == SettingMaxFrameSize && m == val {
		vrt.Cover("C34/max-frame-size-setting-applied")
	}
}

// ---------------------------------------------------------------------------------------------
// VerifC34_conn: the same oracle, driven through the serve loop's own step functions on a hand-built
// serverConn with two response streams, for a history of K events:
//   handler output arriving (writeFrame of a DATA frame), WINDOW_UPDATE (stream / connection),
//   RST_STREAM from the client, SETTINGS_INITIAL_WINDOW_SIZE, SETTINGS_MAX_FRAME_SIZE
//   (in this order: the parameter EVENTS=n restricts a run to the first n kinds).
// After every event the harness plays the write goroutine: it takes what startFrameWrite put on
// writeFrameCh, checks it against the ghost client and reports back through wroteFrame.

func settingsFrameC34(id SettingID, val uint32) *SettingsFrame {
	p := []byte{byte(id >> 8), byte(id), byte(val >> 24), byte(val >> 16), byte(val >> 8), byte(val)}
	return &SettingsFrame{FrameHeader: FrameHeader{valid: true, Type: FrameSettings, Length: 6}, p: p}
}

func VerifC34_conn() {
	vrt.MapOrder(true)
	sc, _ := newConnH2()
	sc.sawFirstSettings = true
	ns := vrt.Param("S", 2)
	var g ghostC34
	// the client's windows: what it granted so far (arbitrary, 31-bit)
	sc.flow.n = vrt.I32("connWindow")
	vrt.Assume(sc.flow.n >= 0)
	g.connWin = int64(sc.flow.n)
	sc.initialWindowSize = vrt.I32("initialWindowSize")
	vrt.Assume(sc.initialWindowSize >= 0)
	maxFrame := int64(sc.writeSched.maxFrameSize)
	sts := make([]*stream, ns)
	var ended, reset [maxStreamsC34]bool
	for s := 0; s < ns; s++ {
		st := &stream{id: uint32(2*s + 1), state: stateHalfClosedRemote}
		attachStreamH2(sc, st)
		st.flow.n = vrt.I32("streamWindow") // may be negative after an earlier SETTINGS change (6.9.2)
		// Inv: window = current initial size + credits - sent, and what was sent fitted the window of its
		// time, so window - initial >= -(2^31-1)
		vrt.Assume(int64(st.flow.n)-int64(sc.initialWindowSize) >= -(1<<31 - 1))
		g.win[s] = int64(st.flow.n)
		sc.streams[st.id] = st
		sc.curOpenStreams++
		sts[s] = st
	}
	sc.maxStreamID = uint32(2*ns - 1)
	dead := false
	lateData := false

	pump := func() {
		for i := 0; i < 12; i++ {
			select {
			case wm := <-sc.writeFrameCh:
				if wm.stream != nil {
					s := streamIndexC34(sts, wm.stream)
					vrt.Assert(s >= 0, "C34/only-produced-frames-are-sent")
					vrt.Assert(!ended[s], "C34/nothing-sent-after-end-stream")
					vrt.Assert(!reset[s], "C34/nothing-sent-after-reset")
					g.observeC34(s, wm, uint32(maxFrame))
					if endsStream(wm.write) {
						ended[s] = true
					}
				}
				sc.wroteFrame(frameWriteResult{wm: wm})
			default:
				return
			}
		}
	}

	k := vrt.Param("K", 2)
	for step := 0; step < k && !dead; step++ {
		s := 0
		if ns > 1 {
			s = vrt.Choose("stream", ns)
		}
		st := sts[s]
		// DATA of a handler racing with the client's RST_STREAM is scheduled (and charged to the windows)
		// before startFrameWrite skips it: the server's view of the connection window falls below the client's
		vrt.Known("C34-skipped-frame-of-reset-stream-charged-to-windows", lateData)
		switch vrt.Choose("event", vrt.Param("EVENTS", 5)) {
		case 0: // the handler of stream s produced a frame
			if ended[s] || g.nfr[s] >= maxQueuedC34 {
				vrt.Assume(false) // a handler produces nothing after its END_STREAM frame
			}
			if g.nfr[s] > 0 && g.isData[s][g.nfr[s]-1] && g.end[s][g.nfr[s]-1] {
				vrt.Assume(false)
			}
			wm := g.produceC34(s, st)
			if reset[s] {
				// the stream is gone; the frame of the racing handler must be dropped, not sent
				g.nfr[s]--
				if wd, ok := wm.write.(*writeData); ok && len(wd.p) > 0 {
					lateData = true
				}
			}
			sc.writeFrame(wm)
		case 1: // WINDOW_UPDATE
			inc := vrt.U32("increment")
			vrt.Assume(inc >= 1 && inc <= 1<<31-1)
			f := &WindowUpdateFrame{FrameHeader: FrameHeader{valid: true, Type: FrameWindowUpdate, Length: 4}, Increment: inc}
			onConn := vrt.Choose("level", 2) == 1
			if !onConn {
				f.StreamID = st.id
			}
			err := sc.processWindowUpdate(f)
			if onConn {
				g.connWin += int64(inc)
				if g.connWin > 1<<31-1 {
					vrt.Assert(err != nil, "C34/window-overflow-rejected") // 6.9.1
				}
				if err != nil {
					dead = true // GOAWAY
				}
			} else if !reset[s] && !ended[s] {
				g.win[s] += int64(inc)
				if g.win[s] > 1<<31-1 {
					vrt.Assert(err != nil, "C34/window-overflow-rejected")
				}
				if err != nil { // what processFrameFromReader does with it (see VerifC34_flowAdd for refusals of legal updates)
					if se, ok := err.(StreamError); ok {
						sc.resetStream(se)
						reset[s] = true
					} else {
						dead = true
					}
				}
			}
		case 3: // SETTINGS_INITIAL_WINDOW_SIZE
			val := vrt.U32("newInitialWindow")
			vrt.Assume(val <= 1<<31-1)
			old := int64(sc.initialWindowSize)
			err := sc.processSettings(settingsFrameC34(SettingInitialWindowSize, val))
			for i := 0; i < ns; i++ {
				if !reset[i] && !ended[i] {
					g.win[i] += int64(val) - old
					if g.win[i] > 1<<31-1 {
						vrt.Assert(err != nil, "C34/window-overflow-rejected") // 6.9.2
					}
				}
			}
			if err != nil {
				dead = true // connection error
			}
		case 2: // RST_STREAM from the client
			f := &RSTStreamFrame{FrameHeader: FrameHeader{valid: true, Type: FrameRSTStream, Length: 4, StreamID: st.id}, ErrCode: ErrCodeCancel}
			sc.processResetStream(f)
			reset[s] = true
		case 4: // SETTINGS_MAX_FRAME_SIZE (any value; invalid ones must be refused)
			val := vrt.U32("newMaxFrameSize")
			err := sc.processSettings(settingsFrameC34(SettingMaxFrameSize, val))
			if err == nil {
				maxFrame = int64(val)
				vrt.Assert(val >= 1<<14 && val <= 1<<24-1, "C34/max-frame-size-setting-in-range")
			} else {
				dead = true
			}
		}
		if !dead {
			pump()
		}
	}
	vrt.Cover("C34/history-done")
}

// VerifC34_flowAdd: the window arithmetic behind WINDOW_UPDATE and SETTINGS_INITIAL_WINDOW_SIZE. A window
// is a number in [-(2^31-1), 2^31-1] (RFC 7540 6.9.2 makes negative windows legal); adding n must fail
// exactly when the result would exceed 2^31-1 (6.9.1) and otherwise produce the mathematical sum.
func VerifC34_flowAdd() {
	var f flow
	f.n = vrt.I32("window")
	n := vrt.I32("delta")
	vrt.Assume(f.n >= -(1<<31 - 1) && n >= -(1<<31 - 1))
	sum := int64(f.n) + int64(n)
	vrt.Assume(sum >= -(1<<31 - 1)) // Inv of VerifC34_conn: a window never drops below -(2^31-1)
	vrt.Known("C34-flow-add-refuses-increase-of-negative-window", f.n < 0)
	ok := f.add(n)
	if sum > 1<<31-1 {
		vrt.Assert(!ok, "C34/window-overflow-rejected")
	} else {
		vrt.Assert(ok, "C34/legal-window-change-accepted")
		vrt.Assert(int64(f.n) == sum, "C34/window-arithmetic-exact")
	}
}

// VerifC34_windowShrink: the RFC 7540 6.9.2 scenario as a fixed three-event history on one response stream,
// from an arbitrary state of the windows: the handler produces one DATA frame of 1..L bytes, the client
// changes SETTINGS_INITIAL_WINDOW_SIZE to any value (lowering it may leave the stream window negative:
// "a sender MUST track the negative flow-control window and MUST NOT send new flow-controlled frames
// until it receives WINDOW_UPDATE frames that cause the window to become positive") and sends a stream
// WINDOW_UPDATE with any increment - in the order DATA, SETTINGS, WINDOW_UPDATE (the write is blocked or
// partly sent when the window shrinks) or, with ORDERS=2, also SETTINGS, WINDOW_UPDATE, DATA. After every event the harness
// plays the write goroutine and checks what was released against the ghost client of VerifC34_conn.
func VerifC34_windowShrink() {
	sc, _ := newConnH2()
	sc.sawFirstSettings = true
	var g ghostC34
	sc.flow.n = 1 << 30 // the connection window is kept out of the way (VerifC34_take / VerifC34_conn vary it)
	g.connWin = int64(sc.flow.n)
	if vrt.Param("SYMINIT", 0) == 1 {
		sc.initialWindowSize = vrt.I32("initialWindowSize")
	} // else the default 65535 of newConnH2: only the difference to the new value matters
	// all quantities below 2^20 in magnitude: no sum gets near 2^31 (window overflow is decided by
	// VerifC34_flowAdd and VerifC34_conn), which keeps the solver fast
	const bound = 1 << 20
	vrt.Assume(sc.initialWindowSize >= 0 && sc.initialWindowSize <= bound)
	st := &stream{id: 1, state: stateHalfClosedRemote}
	attachStreamH2(sc, st)
	st.flow.n = vrt.I32("streamWindow") // may already be negative (6.9.2)
	vrt.Assume(st.flow.n >= -bound && st.flow.n <= bound)
	g.win[0] = int64(st.flow.n)
	sc.streams[st.id] = st
	sc.curOpenStreams = 1
	sc.maxStreamID = 1
	maxFrame := sc.writeSched.maxFrameSize

	pump := func() {
		for i := 0; i < 6; i++ {
			select {
			case wm := <-sc.writeFrameCh:
				if wm.stream != nil {
					vrt.Assert(wm.stream == st, "C34/only-produced-frames-are-sent")
					g.observeC34(0, wm, maxFrame)
				}
				sc.wroteFrame(frameWriteResult{wm: wm})
			default:
				return
			}
		}
	}
	produce := func() {
		l := vrt.Range("len", 1, vrt.Param("L", 2))
		p := vrt.Bytes("payload", l)
		g.nfr[0] = 1
		g.isData[0][0] = true
		g.data[0][0] = append([]byte(nil), p...)
		sc.writeFrame(frameWriteMsg{write: &writeData{streamID: st.id, p: p}, stream: st})
		pump()
	}

	dataFirst := true
	if vrt.Param("ORDERS", 1) == 2 {
		dataFirst = vrt.Choose("dataFirst", 2) == 1
	}
	if dataFirst {
		produce()
	}

	val := vrt.U32("newInitialWindow")
	vrt.Assume(val <= bound)
	old := int64(sc.initialWindowSize)
	err := sc.processSettings(settingsFrameC34(SettingInitialWindowSize, val))
	g.win[0] += int64(val) - old
	vrt.Assert(err == nil, "C34/legal-window-change-accepted")
	if err != nil {
		return
	}
	pump()

	inc := vrt.U32("increment")
	vrt.Assume(inc >= 1 && inc <= bound)
	err = sc.processWindowUpdate(&WindowUpdateFrame{FrameHeader: FrameHeader{valid: true, Type: FrameWindowUpdate, Length: 4, StreamID: st.id}, Increment: inc})
	g.win[0] += int64(inc)
	vrt.Assert(err == nil, "C34/legal-window-change-accepted")
	if err != nil {
		return
	}
	pump()

	if !dataFirst {
		produce()
	}
	vrt.Cover("C34/shrink-history-done")
}
