package bfe_http2

// C35 — the stream state machine is enforced without internal failures (unit level).
//
// A fresh hand-built serverConn receives a sequence of <= K client frames through the real
// processFrameFromReader (processFrame + the reaction: resetStream / goAway), interleaved with "the
// handler finished its response" events (the final END_STREAM frame goes through writeFrame and
// wroteFrame exactly as the serve loop would do it). `go sc.runHandler(...)` is only recorded.
// The oracle is a small RFC 7540 5.1 / 5.1.1 / 8.1 reference automaton over the stream ids 1, 2, 3.
// Any Go panic (the "internal error" ones and nil dereferences alike) is reported by the engine.

import (
	http "github.com/bfenetworks/bfe/bfe_http"
	"github.com/bfenetworks/bfe/bfe_http2/hpack"
	vrt "github.com/bfenetworks/bfe/zz_vrt"
)

type fakeHandlerC35 struct{}

func (fakeHandlerC35) ServeHTTP(w http.ResponseWriter, r *http.Request) {}

const (
	gIdleC35 = iota
	gOpenC35
	gHalfClosedRemoteC35
	gClosedC35
)

const (
	hdrRequestC35       = iota // complete request pseudo-headers
	hdrNoPathC35               // request without :path (malformed, 8.1.2.3)
	hdrTrailersC35             // regular fields only (what trailers look like)
	hdrPseudoAfterC35          // trailers that carry a pseudo-header
	hdrKindsC35
)

func mkHeadersC35(id uint32, endStream bool, kind int) *MetaHeadersFrame {
	flags := FlagHeadersEndHeaders
	if endStream {
		flags |= FlagHeadersEndStream
	}
	hf := &HeadersFrame{FrameHeader: FrameHeader{valid: true, Type: FrameHeaders, Flags: flags, StreamID: id}}
	var fields []hpack.HeaderField
	switch kind {
	case hdrRequestC35:
		fields = []hpack.HeaderField{{Name: ":method", Value: "POST"}, {Name: ":scheme", Value: "https"}, {Name: ":path", Value: "/"}, {Name: "host", Value: "a"}}
	case hdrNoPathC35:
		fields = []hpack.HeaderField{{Name: ":method", Value: "POST"}, {Name: ":scheme", Value: "https"}, {Name: "host", Value: "a"}}
	case hdrTrailersC35:
		fields = []hpack.HeaderField{{Name: "x-t", Value: "1"}}
	case hdrPseudoAfterC35:
		fields = []hpack.HeaderField{{Name: ":path", Value: "/"}, {Name: "x-t", Value: "1"}}
	}
	return &MetaHeadersFrame{HeadersFrame: hf, Fields: fields}
}

// rstQueuedC35 counts RST_STREAM frames for id handed to the writer or waiting in the scheduler.
func rstQueuedC35(sc *serverConn, id uint32, inflight []frameWriteMsg) int {
	n := 0
	chk := func(wm frameWriteMsg) {
		if se, ok := wm.write.(StreamError); ok && se.StreamID == id {
			n++
		}
	}
	for _, wm := range inflight {
		chk(wm)
	}
	for _, wm := range sc.writeSched.zero.s {
		chk(wm)
	}
	return n
}

func ghostIndexC35(id uint32) int { return int(id) } // ids 1..3

// VerifC35_frames
func VerifC35_frames() {
	sc, _ := newConnH2()
	sc.srv.MaxUploadBufferPerStream = 8
	sc.handler = fakeHandlerC35{}
	sc.sawFirstSettings = true
	sc.advMaxStreams = uint32(vrt.Param("MAXSTREAMS", 2))

	var ghost [4]int
	var ghostMax uint32
	ghostOpen := 0
	dead := false         // connection ended (GOAWAY with error queued / serve would return)
	var sent []frameWriteMsg // frames that reached the write goroutine

	// drain: play the write goroutine + the serve loop's wroteFrame case until nothing is in flight
	drain := func() {
		for i := 0; i < 8; i++ {
			select {
			case wm := <-sc.writeFrameCh:
				sent = append(sent, wm)
				sc.wroteFrame(frameWriteResult{wm: wm})
			default:
				return
			}
		}
	}

	k := vrt.Param("K", 2)
	for step := 0; step < k && !dead; step++ {
		ev := vrt.Choose("event", 4)
		id := uint32(1)
		if vrt.Choose("id", 2) == 1 {
			id = 3
		}
		gi := ghostIndexC35(id)
		handlers := vrt.GoCount()
		rstBefore := rstQueuedC35(sc, id, sent)
		mustReject, mustAccept := false, false
		var f Frame
		switch ev {
		case 0: // HEADERS
			if vrt.Param("EVENID", 1) == 1 && vrt.Choose("evenID", 2) == 1 {
				id, gi = 2, 2
				rstBefore = rstQueuedC35(sc, id, sent)
			}
			es := vrt.Choose("endStream", 2) == 1
			kind := vrt.Choose("headerKind", hdrKindsC35)
			f = mkHeadersC35(id, es, kind)
			switch {
			case id%2 == 0:
				mustReject = true // 5.1.1
			case ghost[gi] == gIdleC35 && id <= ghostMax:
				mustReject = true // 5.1.1: implicitly closed
			case ghost[gi] == gIdleC35:
				ghostMax = id
				if kind != hdrRequestC35 {
					mustReject = true // 8.1.2.3 / 8.1.2.1 malformed request
					ghost[gi] = gClosedC35
				} else if ghostOpen+1 > int(sc.advMaxStreams) {
					mustReject = true // 5.1.2
					ghost[gi] = gClosedC35
				} else {
					mustAccept = true
					ghostOpen++
					ghost[gi] = gOpenC35
					if es {
						ghost[gi] = gHalfClosedRemoteC35
					}
				}
			case ghost[gi] == gOpenC35: // trailers
				if !es || kind != hdrTrailersC35 {
					mustReject = true // 8.1: trailers must end the stream; 8.1.2.1: no pseudo-headers in trailers
					ghost[gi] = gClosedC35
					ghostOpen--
				} else {
					mustAccept = true
					ghost[gi] = gHalfClosedRemoteC35
				}
			case ghost[gi] == gHalfClosedRemoteC35:
				mustReject = true // 5.1 half-closed (remote): STREAM_CLOSED
				ghost[gi] = gClosedC35
				ghostOpen--
			default:
				mustReject = true // closed
			}
			vrt.Known("C35-headers-on-half-closed-remote-stream", mustReject && id%2 == 1 && sc.streams[id] != nil && sc.streams[id].state == stateHalfClosedRemote)
		case 1: // DATA
			es := vrt.Choose("endStream", 2) == 1
			d := vrt.Range("dataLen", 0, 1)
			var flags Flags
			if es {
				flags = FlagDataEndStream
			}
			f = &DataFrame{FrameHeader: FrameHeader{valid: true, Type: FrameData, Flags: flags, Length: uint32(d), StreamID: id}, data: vrt.Bytes("data", d)}
			if ghost[gi] == gOpenC35 {
				mustAccept = true
				if es {
					ghost[gi] = gHalfClosedRemoteC35
				}
			} else {
				mustReject = true // 5.1 / 6.1
				if ghost[gi] == gHalfClosedRemoteC35 {
					ghost[gi] = gClosedC35
					ghostOpen--
				}
			}
		case 2: // RST_STREAM
			f = &RSTStreamFrame{FrameHeader: FrameHeader{valid: true, Type: FrameRSTStream, Length: 4, StreamID: id}, ErrCode: ErrCodeCancel}
			if ghost[gi] == gIdleC35 && id > ghostMax {
				mustReject = true // 6.4: RST_STREAM on an idle stream is a connection error
			} else if ghost[gi] == gOpenC35 || ghost[gi] == gHalfClosedRemoteC35 {
				ghost[gi] = gClosedC35
				ghostOpen--
			}
		case 3: // the handler of stream id finished: its last frame carries END_STREAM
			st := sc.streams[id]
			if st == nil {
				vrt.Assume(false)
			}
			sc.writeFrame(frameWriteMsg{write: &writeResHeaders{streamID: id, httpResCode: 200, endStream: true}, stream: st})
			drain()
			vrt.Assert(sc.streams[id] == nil, "C35/stream-closed-after-response-end")
			ghost[gi] = gClosedC35
			ghostOpen--
			continue
		}

		alive := sc.processFrameFromReader(readFrameResult{f: f, readMore: func() {}})
		drain()

		rejected := !alive || (sc.inGoAway && sc.goAwayCode != ErrCodeNo) || rstQueuedC35(sc, id, sent) > rstBefore
		if mustReject {
			vrt.Assert(rejected, "C35/forbidden-frame-is-answered-with-an-error")
			if vrt.Symbolic() { // recorded `go` statements exist only symbolically
				vrt.Assert(vrt.GoCount() == handlers, "C35/forbidden-frame-starts-no-handler")
			}
			if st := sc.streams[id]; st != nil && alive && !sc.inGoAway {
				vrt.Assert(false, "C35/stream-of-forbidden-frame-stays-usable")
			}
		}
		if mustAccept {
			vrt.Assert(!rejected, "C35/valid-frame-is-accepted")
			st := sc.streams[id]
			vrt.Assert(st != nil, "C35/valid-frame-is-accepted")
			if st != nil {
				want := stateOpen
				if ghost[gi] == gHalfClosedRemoteC35 {
					want = stateHalfClosedRemote
				}
				vrt.Assert(st.state == want, "C35/stream-state-follows-rfc7540")
			}
			if vrt.Symbolic() && ev == 0 && ghost[gi] != gClosedC35 && st != nil && !st.gotTrailerHeader {
				vrt.Assert(vrt.GoCount() == handlers+1, "C35/new-request-starts-one-handler")
			}
		}
		if !alive || (sc.inGoAway && sc.goAwayCode != ErrCodeNo) {
			dead = true
		}
	}
	vrt.Cover("C35/sequence-done")
}

// mkRequestHeadersC35 is a complete POST request that declares a body of cl octets ("" = no content-length),
// without END_STREAM.
func mkRequestHeadersC35(id uint32, cl string) *MetaHeadersFrame {
	hf := &HeadersFrame{FrameHeader: FrameHeader{valid: true, Type: FrameHeaders, Flags: FlagHeadersEndHeaders, StreamID: id}}
	fields := []hpack.HeaderField{{Name: ":method", Value: "POST"}, {Name: ":scheme", Value: "https"}, {Name: ":path", Value: "/"}, {Name: "host", Value: "a"}}
	if cl != "" {
		fields = append(fields, hpack.HeaderField{Name: "content-length", Value: cl})
	}
	return &MetaHeadersFrame{HeadersFrame: hf, Fields: fields}
}

var declaredLengthsC35 = []string{"0", "1", "2", ""}

// VerifC35_declaredLength: the stream rules for requests that declare their body length. A request
// HEADERS frame with content-length 0 / 1 / 2 / none leaves the stream open; the second client frame is a
// DATA frame (0..1 octets, END_STREAM or not - the empty END_STREAM DATA frame is how clients finish such
// a request) or trailers; the third is another HEADERS or DATA frame on the same stream. Oracle: no Go
// panic on any of them; a frame that ends the request leaves the stream half-closed (remote) or - if the
// server treats a content-length mismatch as malformed (RFC 7540 8.1.2.6) - reset; DATA or HEADERS on a
// stream the client has already ended is answered with an error (5.1).
func VerifC35_declaredLength() {
	sc, _ := newConnH2()
	sc.srv.MaxUploadBufferPerStream = 8
	sc.handler = fakeHandlerC35{}
	sc.sawFirstSettings = true
	var sent []frameWriteMsg
	drain := func() {
		for i := 0; i < 8; i++ {
			select {
			case wm := <-sc.writeFrameCh:
				sent = append(sent, wm)
				sc.wroteFrame(frameWriteResult{wm: wm})
			default:
				return
			}
		}
	}
	dead := func(alive bool) bool { return !alive || (sc.inGoAway && sc.goAwayCode != ErrCodeNo) }
	const id = 1

	cli := vrt.Choose("declared", len(declaredLengthsC35))
	decl := int64(-1)
	if declaredLengthsC35[cli] != "" {
		decl = int64(cli)
	}
	alive := sc.processFrameFromReader(readFrameResult{f: mkRequestHeadersC35(id, declaredLengthsC35[cli]), readMore: func() {}})
	drain()
	st := sc.streams[id]
	vrt.Assert(alive && !sc.inGoAway && st != nil && rstQueuedC35(sc, id, sent) == 0, "C35/valid-frame-is-accepted")
	if st == nil {
		return
	}
	vrt.Assert(st.state == stateOpen, "C35/stream-state-follows-rfc7540")

	// second frame
	ended := false // the client ended the request
	var f Frame
	received := int64(0)
	if vrt.Choose("second", 2) == 0 {
		es := vrt.Choose("endStream", 2) == 1
		d := vrt.Range("dataLen", 0, 1)
		var flags Flags
		if es {
			flags = FlagDataEndStream
		}
		f = &DataFrame{FrameHeader: FrameHeader{valid: true, Type: FrameData, Flags: flags, Length: uint32(d), StreamID: id}, data: vrt.Bytes("data", d)}
		received = int64(d)
		ended = es
	} else {
		f = mkHeadersC35(id, true, hdrTrailersC35)
		ended = true
	}
	overrun := decl != -1 && received > decl
	alive = sc.processFrameFromReader(readFrameResult{f: f, readMore: func() {}})
	drain()
	if dead(alive) {
		return // a connection error is never an internal failure; which frames deserve one is VerifC35_frames' business
	}
	rst := rstQueuedC35(sc, id, sent)
	st = sc.streams[id]
	if overrun {
		vrt.Assert(rst > 0 && st == nil, "C35/forbidden-frame-is-answered-with-an-error")
		return
	}
	if decl == -1 || !ended || received == decl {
		vrt.Assert(rst == 0 && st != nil, "C35/valid-frame-is-accepted")
	}
	if st == nil {
		vrt.Assert(rst > 0, "C35/stream-leaves-only-with-rst-stream")
		return
	}
	if !ended {
		vrt.Assert(st.state == stateOpen, "C35/stream-state-follows-rfc7540")
		return
	}
	// ended: whether the server really regards the stream as half-closed (remote) is observed through
	// its reaction to the next frame, not through the private state field

	// third frame: the client goes on after its END_STREAM
	if vrt.Choose("third", 2) == 0 {
		f = &DataFrame{FrameHeader: FrameHeader{valid: true, Type: FrameData, Flags: FlagDataEndStream, StreamID: id}}
	} else {
		f = mkHeadersC35(id, true, hdrTrailersC35)
	}
	handlers := vrt.GoCount()
	alive = sc.processFrameFromReader(readFrameResult{f: f, readMore: func() {}})
	drain()
	vrt.Assert(dead(alive) || rstQueuedC35(sc, id, sent) > rst, "C35/forbidden-frame-is-answered-with-an-error")
	if vrt.Symbolic() {
		vrt.Assert(vrt.GoCount() == handlers, "C35/forbidden-frame-starts-no-handler")
	}
	if st := sc.streams[id]; st != nil && alive && !sc.inGoAway {
		vrt.Assert(false, "C35/stream-of-forbidden-frame-stays-usable")
	}
	vrt.Cover("C35/declared-length-sequence-done")
}
