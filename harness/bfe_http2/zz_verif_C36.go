package bfe_http2

// C36 — the HTTP/2 priority tree stays acyclic and priority processing terminates.
//
// One-step induction. The dependency "tree" of bfe is the set of stream objects linked by
// stream.parent; open streams are the values of serverConn.streams, closed streams are no longer in
// the map (closeStream only deletes the map entry, it never re-parents) but stay reachable through the
// parent pointers of their former dependants. The inductive invariant is "the parent graph over all
// stream objects is acyclic". The harness builds EVERY such state over <= N stream objects (parent of
// each node enumerated, open/closed enumerated, stream ids symbolic), applies one real
// adjustStreamPriority with a symbolic PRIORITY payload under every map iteration order, and checks the
// invariant again. Termination of the ancestor walk and of the exclusive loop is the absence of an
// `unwind` outcome under the registered unwind bound.

import (
	http "github.com/bfenetworks/bfe/bfe_http"
	"github.com/bfenetworks/bfe/bfe_http2/hpack"
	vrt "github.com/bfenetworks/bfe/zz_vrt"
)

// acyclicIdxC36: does every node reach nil in <= n parent steps (par[i] == -1 is nil)?
func acyclicIdxC36(par []int, n int) bool {
	for i := 0; i < n; i++ {
		j, steps := i, 0
		for j >= 0 {
			j = par[j]
			steps++
			if steps > n {
				return false
			}
		}
	}
	return true
}

// buildForestC36 enumerates a forest over n stream objects. Node 0 is always open. Returns the nodes,
// the open flags and the map of open streams (keys: distinct non-zero symbolic ids).
func buildForestC36(n int) ([]*stream, []bool, map[uint32]*stream) {
	nodes := make([]*stream, n)
	par := make([]int, n)
	for i := 0; i < n; i++ {
		nodes[i] = &stream{}
		par[i] = vrt.Choose("parent", n+1) - 1
		if par[i] == i {
			vrt.Assume(false)
		}
	}
	if !acyclicIdxC36(par, n) {
		vrt.Assume(false) // precondition: the invariant holds before the step
	}
	for i := 0; i < n; i++ {
		if par[i] >= 0 {
			nodes[i].parent = nodes[par[i]]
		}
	}
	open := make([]bool, n)
	streams := make(map[uint32]*stream)
	for i := 0; i < n; i++ {
		open[i] = i == 0 || vrt.Choose("open", 2) == 1
		if !open[i] {
			continue
		}
		var id uint32
		if vrt.Param("SYMIDS", 1) == 1 {
			id = vrt.U32("id")
			vrt.Assume(id != 0 && id < 1<<31)
			for j := 0; j < i; j++ {
				if open[j] {
					vrt.Assume(nodes[j].id != id)
				}
			}
		} else {
			id = uint32(2*i + 1)
		}
		nodes[i].id = id
		nodes[i].state = stateOpen
		streams[id] = nodes[i]
	}
	return nodes, open, streams
}

// assertAcyclicC36: from every stream object the parent walk reaches nil within n steps.
func assertAcyclicC36(nodes []*stream, n int) {
	for i := 0; i < n; i++ {
		p := nodes[i]
		for k := 0; k < n && p != nil; k++ {
			p = p.parent
		}
		vrt.Assert(p == nil, "C36/no-stream-is-its-own-ancestor")
	}
}

// VerifC36_adjust: one PRIORITY update (PRIORITY frame or prioritised HEADERS; both call
// adjustStreamPriority) from an arbitrary acyclic state.
func VerifC36_adjust() {
	vrt.MapOrder(true)
	n := vrt.Range("n", 1, vrt.Param("N", 3))
	nodes, open, streams := buildForestC36(n)

	streamID := vrt.U32("streamID")
	if vrt.Param("ANYTARGET", 0) == 0 {
		// Without loss of generality the re-prioritised open stream is node 0 (every labelled forest is
		// enumerated, so every (forest, target) pair occurs with the target labelled 0); ANYTARGET=1
		// drops this symmetry reduction.
		for i := 1; i < n; i++ {
			if open[i] {
				vrt.Assume(streamID != nodes[i].id)
			}
		}
	}
	pp := PriorityParam{
		StreamDep: vrt.U32("dep"),
		Exclusive: vrt.Bool("exclusive"),
		Weight:    vrt.Byte("weight"),
	}
	vrt.Assume(pp.StreamDep < 1<<31) // 31-bit field on the wire

	adjustStreamPriority(streams, streamID, pp)
	vrt.Cover("C36/adjust-returned")

	assertAcyclicC36(nodes, n)
}

// VerifC36_closeStream: closing an open stream (closeStream is how streams leave serverConn.streams:
// RST_STREAM in either direction, handler completion, connection teardown) from an arbitrary acyclic
// state keeps the parent graph acyclic (the closed stream stays reachable through parent pointers), and
// a following PRIORITY update on the remaining state is again covered by VerifC36_adjust because the
// post-state is one of its pre-states. Here: close, then one more adjust, invariant after both.
func VerifC36_closeStream() {
	vrt.MapOrder(true)
	n := vrt.Range("n", 1, vrt.Param("N", 3))
	sc, _ := newConnH2()
	nodes, open, streams := buildForestC36(n)
	sc.streams = streams
	for i := 0; i < n; i++ {
		if open[i] {
			attachStreamH2(sc, nodes[i])
			sc.curOpenStreams++
		}
	}
	switch vrt.Choose("state", 3) {
	case 1:
		nodes[0].state = stateHalfClosedRemote
	case 2:
		nodes[0].state = stateHalfClosedLocal
	}
	sc.closeStream(nodes[0], errClientDisconnected)
	vrt.Cover("C36/closeStream-returned")
	assertAcyclicC36(nodes, n)
	if _, still := sc.streams[nodes[0].id]; !still {
		vrt.Cover("C36/closed-stream-left-the-map")
	}

	if n >= 2 && open[1] {
		pp := PriorityParam{StreamDep: vrt.U32("dep"), Exclusive: vrt.Bool("exclusive"), Weight: vrt.Byte("weight")}
		vrt.Assume(pp.StreamDep < 1<<31)
		sc.processPriority(&PriorityFrame{FrameHeader: FrameHeader{Type: FramePriority, StreamID: nodes[1].id, Length: 5}, PriorityParam: pp})
		assertAcyclicC36(nodes, n)
	}
}

// cyclicC36: concrete check that some stream object does not reach nil within n parent steps.
func cyclicC36(nodes []*stream, n int) bool {
	for i := 0; i < len(nodes); i++ {
		p := nodes[i]
		for k := 0; k < n && p != nil; k++ {
			p = p.parent
		}
		if p != nil {
			return true
		}
	}
	return false
}

// VerifC36_history: histories instead of one step - a guard against code that keeps derived data about the
// tree (cached depths, child lists, ...) which the one-step harness cannot name and therefore cannot put
// into an arbitrary state. Four freshly opened streams 1,3,5,7 (flat forest, exactly what processHeaders
// creates) receive K PRIORITY frames through the real processPriority; the tree must be acyclic after
// each of them. Symmetry reduction: the first frame that changes anything in a flat forest makes some
// stream depend on another one, w.l.o.g. 3 on 1 (frames before it are no-ops and a history that starts
// with no-ops is a shorter history); the remaining K-1 frames enumerate every (stream, dependency) pair
// over the four streams and dependency 0. Exclusive only with EXCL=1.
func VerifC36_history() {
	if vrt.Param("EXCL", 0) == 1 {
		vrt.MapOrder(true) // only the exclusive loop ranges over the map (not natively replayable then)
	}
	sc, _ := newConnH2()
	ids := []uint32{1, 3, 5, 7}
	nodes := make([]*stream, len(ids))
	for i, id := range ids {
		nodes[i] = &stream{id: id, state: stateOpen}
		attachStreamH2(sc, nodes[i])
		sc.streams[id] = nodes[i]
		sc.curOpenStreams++
	}
	sc.maxStreamID = 7
	k := vrt.Param("K", 4)
	for step := 0; step < k; step++ {
		var id, dep uint32
		excl := false
		if step == 0 {
			id, dep = 3, 1
		} else {
			id = ids[vrt.Choose("stream", len(ids))]
			d := vrt.Choose("dep", len(ids)+1)
			if d > 0 {
				dep = ids[d-1]
			}
			if dep == id {
				vrt.Assume(false) // self-dependency: covered by VerifC36_adjust, a no-op here
			}
		}
		if vrt.Param("EXCL", 0) == 1 {
			excl = vrt.Choose("exclusive", 2) == 1
		}
		sc.processPriority(&PriorityFrame{FrameHeader: FrameHeader{valid: true, Type: FramePriority, StreamID: id, Length: 5},
			PriorityParam: PriorityParam{StreamDep: dep, Exclusive: excl, Weight: 15}})
		cyc := cyclicC36(nodes, len(nodes))
		vrt.Assert(!cyc, "C36/no-stream-is-its-own-ancestor")
		if cyc {
			return // a later ancestor walk over a cyclic graph would not end
		}
	}
	vrt.Cover("C36/history-done")
}

type fakeHandlerC36 struct{}

func (fakeHandlerC36) ServeHTTP(w http.ResponseWriter, r *http.Request) {}

// VerifC36_headers: the other way priorities enter the tree - a HEADERS frame with the PRIORITY flag
// opening a new stream, through the real processHeaders (stream creation, insertion into sc.streams,
// priority), from every acyclic parent graph over <= N existing stream objects. The PRIORITY payload is
// fully symbolic, so StreamDep may name any open stream, no stream, or the new stream itself.
func VerifC36_headers() {
	vrt.MapOrder(true)
	n := vrt.Range("n", 0, vrt.Param("N", 2))
	sc, _ := newConnH2()
	sc.handler = fakeHandlerC36{}
	sc.sawFirstSettings = true
	nodes, open, streams := buildForestC36(n) // ids 1,3,.. with SYMIDS=0
	sc.streams = streams
	for i := 0; i < n; i++ {
		if open[i] {
			attachStreamH2(sc, nodes[i])
			sc.curOpenStreams++
		}
	}
	newID := uint32(2*n + 1)
	sc.maxStreamID = newID - 2
	if n == 0 {
		sc.maxStreamID = 0
	}
	pp := PriorityParam{StreamDep: vrt.U32("dep"), Exclusive: vrt.Bool("exclusive"), Weight: vrt.Byte("weight")}
	vrt.Assume(pp.StreamDep < 1<<31)
	hf := &HeadersFrame{FrameHeader: FrameHeader{valid: true, Type: FrameHeaders, Flags: FlagHeadersEndHeaders | FlagHeadersEndStream | FlagHeadersPriority, StreamID: newID}, Priority: pp}
	f := &MetaHeadersFrame{HeadersFrame: hf, Fields: []hpack.HeaderField{{Name: ":method", Value: "GET"}, {Name: ":scheme", Value: "https"}, {Name: ":path", Value: "/"}, {Name: "host", Value: "a"}}}

	err := sc.processHeaders(f)
	vrt.Cover("C36/headers-returned")
	st := sc.streams[newID]
	if err == nil {
		vrt.Assert(st != nil, "C36/prioritised-headers-open-the-stream")
	}
	all := nodes
	if st != nil {
		all = append(append([]*stream(nil), nodes...), st)
	}
	assertAcyclicC36(all, len(all))
}
