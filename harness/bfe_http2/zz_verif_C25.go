package bfe_http2

// C25, HTTP/2 frontend — the name/value validation applied by Framer.readMetaFrame to every decoded
// header field (validHeaderFieldName / validHeaderFieldValue) admits only RFC 7230 tokens (lower case)
// as names and no control byte other than HTAB in values; so nothing that could change the structure of
// the HTTP/1 message written to a backend passes.

import (
	"bytes"

	vrt "github.com/bfenetworks/bfe/zz_vrt"
)

func isTcharC25(c byte) bool {
	if 'a' <= c && c <= 'z' || 'A' <= c && c <= 'Z' || '0' <= c && c <= '9' {
		return true
	}
	switch c {
	case '!', '#', '$', '%', '&', '\'', '*', '+', '-', '.', '^', '_', '`', '|', '~':
		return true
	}
	return false
}

// VerifC25_h2FieldValidators: every name/value of 0..L bytes.
func VerifC25_h2FieldValidators() {
	name := vrt.Str("name", vrt.Range("nlen", 0, vrt.Param("L", 3)))
	value := vrt.Str("value", vrt.Range("vlen", 0, vrt.Param("L", 3)))
	for i := 0; i < len(name); i++ {
		// validHeaderFieldName ranges over runes; UTF-8 lead bytes are outside the engine's model
		vrt.Assume(name[i] < 0xC2 || name[i] > 0xF4)
	}
	if validHeaderFieldName(name) {
		ok := len(name) > 0
		for i := 0; i < len(name); i++ {
			if !isTcharC25(name[i]) || 'A' <= name[i] && name[i] <= 'Z' {
				ok = false
			}
		}
		vrt.Assert(ok, "C25/h2-accepted-name-is-lowercase-token")
	}
	if validHeaderFieldValue(value) {
		ok := true
		for i := 0; i < len(value); i++ {
			if c := value[i]; c < 0x20 && c != '\t' || c == 0x7f {
				ok = false
			}
		}
		vrt.Assert(ok, "C25/h2-accepted-value-has-no-control-bytes")
	}
}

// ---------------------------------------------------------------------------------------------------
// HTTP/2 frontend end to end: HEADERS block -> Framer.readMetaFrame (real hpack decoder, value/name checks,
// checkPseudos) -> serverConn.newWriterAndRequest (pseudo-header fields become Request.Method / Host /
// RequestURI) -> Request.Write. One value of the block is symbolic: :authority, :method or a regular field.

// litC25: HPACK "literal header field without indexing - new name", both strings raw (no Huffman).
func litC25(name string, value []byte) []byte {
	b := []byte{0x00, byte(len(name))}
	b = append(b, name...)
	b = append(b, byte(len(value)))
	return append(b, value...)
}

func isTokenC25(b []byte) bool {
	ok := len(b) > 0
	for _, c := range b {
		if !isTcharC25(c) {
			ok = false
		}
	}
	return ok
}

// linesC25 splits out at CRLF; ok=false if out does not end with CRLF or a line holds a control byte other
// than HTAB (so a bare CR or LF anywhere makes it false).
func linesC25(out []byte) (lines [][]byte, ok bool) {
	ok = true
	start := 0
	for i := 0; i+1 < len(out); i++ {
		if out[i] == '\r' && out[i+1] == '\n' {
			lines = append(lines, out[start:i])
			start = i + 2
			i++
		}
	}
	if start != len(out) {
		return nil, false
	}
	for _, l := range lines {
		for _, c := range l {
			if c < 0x20 && c != '\t' || c == 0x7f {
				ok = false
			}
		}
	}
	return lines, ok
}

func VerifC25_h2PseudoValues() {
	which := vrt.Choose("which", 3)
	v := vrt.Bytes("value", vrt.Range("vlen", 1, vrt.Param("PL", 3)))
	method, authority := []byte("GET"), []byte("h")
	switch which {
	case 0:
		authority = v
	case 1:
		method = v
	}
	var block []byte
	block = append(block, litC25(":method", method)...)
	block = append(block, litC25(":scheme", []byte("http"))...)
	block = append(block, litC25(":path", []byte("/p"))...)
	block = append(block, litC25(":authority", authority)...)
	if which == 2 {
		block = append(block, litC25("x-a", v)...)
	}
	sc, _ := newConnH2()
	hf := &HeadersFrame{
		FrameHeader: FrameHeader{valid: true, Type: FrameHeaders, Flags: FlagHeadersEndHeaders | FlagHeadersEndStream,
			Length: uint32(len(block)), StreamID: 1},
		headerFragBuf: block,
	}
	mh, err := sc.framer.readMetaFrame(hf)
	if err != nil {
		vrt.Cover("C25/h2-headers-refused")
		return
	}
	st := &stream{id: 1, state: stateHalfClosedRemote}
	attachStreamH2(sc, st)
	_, req, err := sc.newWriterAndRequest(st, mh)
	if err != nil {
		vrt.Cover("C25/h2-request-refused")
		return
	}
	// :method may be any value without control bytes (e.g. "G T", "(") and is written as the first word of
	// the request line
	methodCtl := false
	for _, c := range method {
		if c < 0x20 && c != '\t' || c == 0x7f {
			methodCtl = true
		}
	}
	vrt.Known("C25-h2-method-not-token", which == 1 && !isTokenC25(method) && !methodCtl)

	var wire bytes.Buffer
	if werr := req.Write(&wire); werr != nil {
		vrt.Cover("C25/h2-write-refused")
		return
	}
	out := wire.Bytes()
	lines, ok := linesC25(out)
	vrt.Assert(ok, "C25/h2-forward-lines-well-formed")
	if !ok {
		return
	}
	// request line, Host, [X-A], empty line - and nothing else
	want := 3
	if which == 2 {
		want = 4
	}
	vrt.Assert(len(lines) == want && len(lines[want-1]) == 0, "C25/h2-forward-exactly-one-request")
	if len(lines) != want {
		return
	}
	rl := lines[0]
	tail := " /p HTTP/1.1"
	okLine := len(rl) > len(tail) && string(rl[len(rl)-len(tail):]) == tail && isTokenC25(rl[:len(rl)-len(tail)])
	vrt.Assert(okLine, "C25/h2-forward-request-line")
	namesOK := true
	for _, l := range lines[1 : want-1] {
		c := -1
		for i := len(l) - 1; i >= 0; i-- {
			if l[i] == ':' {
				c = i
			}
		}
		if c <= 0 || !isTokenC25(l[:c]) {
			namesOK = false
		}
	}
	vrt.Assert(namesOK, "C25/h2-forward-field-names")
	vrt.Assert(len(lines[1]) >= 5 && string(lines[1][:5]) == "Host:", "C25/h2-forward-host")
}
