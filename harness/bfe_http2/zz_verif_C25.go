package bfe_http2

// C25, HTTP/2 frontend — the name/value validation applied by Framer.readMetaFrame to every decoded
// header field (validHeaderFieldName / validHeaderFieldValue) admits only RFC 7230 tokens (lower case)
// as names and no control byte other than HTAB in values; so nothing that could change the structure of
// the HTTP/1 message written to a backend passes.

import (
	vrt "github.com/bfenetworks/bfe/zz_vrt"
)

func isTcharC25(c byte) bool {
	if 'a' <= c && c <= 'z' || 'A' <= c && c <= 'Z' || '0' <= c && c <= '9' {
		return true
	}
	switch c {
	case '!', '#', '$', '%', '&', '\'', '*', '+', '-', '.', '^', '_', '`', '|', '~':
		return true
	}
	return false
}

// VerifC25_h2FieldValidators: every name/value of 0..L bytes.
func VerifC25_h2FieldValidators() {
	name := vrt.Str("name", vrt.Range("nlen", 0, vrt.Param("L", 3)))
	value := vrt.Str("value", vrt.Range("vlen", 0, vrt.Param("L", 3)))
	for i := 0; i < len(name); i++ {
		// validHeaderFieldName ranges over runes; UTF-8 lead bytes are outside the engine's model
		vrt.Assume(name[i] < 0xC2 || name[i] > 0xF4)
	}
	if validHeaderFieldName(name) {
		ok := len(name) > 0
		for i := 0; i < len(name); i++ {
			if !isTcharC25(name[i]) || 'A' <= name[i] && name[i] <= 'Z' {
				ok = false
			}
		}
		vrt.Assert(ok, "C25/h2-accepted-name-is-lowercase-token")
	}
	if validHeaderFieldValue(value) {
		ok := true
		for i := 0; i < len(value); i++ {
			if c := value[i]; c < 0x20 && c != '\t' || c == 0x7f {
				ok = false
			}
		}
		vrt.Assert(ok, "C25/h2-accepted-value-has-no-control-bytes")
	}
}
