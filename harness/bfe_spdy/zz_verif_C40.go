package bfe_spdy

// C40 — the SPDY server enforces stream and flow-control rules.
//
// One-step checks from an arbitrary (symbolic) state of a hand-built serverConn: the frame handlers
// processData / processWindowUpdate / processSynStream (id rules) and the write scheduler's takeFrom
// run on a serverConn that has no goroutines, no network connection and a frame write "in flight"
// (writingFrame = true, so scheduleFrameWrite does not start a writer goroutine). The window
// counters start from arbitrary values that satisfy the representation invariant (receive windows
// >= 0), so the step covers histories of any length as far as the counters are concerned.

import (
	"github.com/bfenetworks/bfe/bfe_util/pipe"
	vrt "github.com/bfenetworks/bfe/zz_vrt"
)

func newConnC40() *serverConn {
	return &serverConn{
		streams:           make(map[uint32]*stream),
		writingFrame:      true,
		advMaxStreams:     1000,
		curOpenStreams:    1,
		initialWindowSize: initialWindowSize,
	}
}

// VerifC40_processData: stream 1 exists in any of the 7 states; receive windows S (stream) and C
// (connection) arbitrary >= 0; DATA frame for stream 1 or 3 (absent) with 0..L bytes, FIN symbolic;
// declared Content-Length none or D, B bytes seen so far (B <= D).
func VerifC40_processData() {
	sc := newConnC40()
	S, C := vrt.I32("streamWindow"), vrt.I32("connWindow")
	vrt.Assume(S >= 0 && C >= 0)
	sc.inflow.n = C
	st := &stream{id: 1, body: pipe.NewPipeWithSize(8)}
	stateByte := vrt.Byte("state")
	vrt.Assume(stateByte <= byte(stateClosed))
	st.state = streamState(stateByte)
	st.inflow.conn = &sc.inflow
	st.inflow.n = S
	st.declBodyBytes = -1
	B := int64(vrt.Byte("seen"))
	D := int64(-1)
	if vrt.Choose("declared", 2) == 1 {
		D = int64(vrt.Byte("declared"))
		vrt.Assume(B <= D)
		st.declBodyBytes = D
	}
	st.bodyBytes = B
	sc.streams[1] = st

	L := vrt.Range("datalen", 0, vrt.Param("L", 3))
	f := &DataFrame{StreamId: StreamId(1 + 2*vrt.Choose("absent", 2)), Flags: DataFlags(vrt.Byte("flags")), Data: vrt.Bytes("data", L)}
	fin := f.Flags&DataFlagFin != 0
	wasOpen := st.state == stateOpen

	err := sc.processData(f)

	l := int32(L)
	if err == nil {
		vrt.Cover("C40/data-accepted")
		vrt.Assert(f.StreamId == 1 && wasOpen, "C40/data-only-on-open-stream")
		vrt.Assert(l <= S && l <= C, "C40/data-within-advertised-windows")
		vrt.Assert(st.inflow.n == S-l && sc.inflow.n == C-l, "C40/data-consumes-windows")
		vrt.Assert(st.inflow.n >= 0 && sc.inflow.n >= 0, "C40/windows-stay-nonnegative")
		vrt.Assert(st.bodyBytes == B+int64(L), "C40/data-counted")
		vrt.Assert(D == -1 || st.bodyBytes <= D, "C40/data-within-content-length")
		if fin {
			vrt.Assert(st.state == stateHalfClosedRemote, "C40/fin-half-closes")
			vrt.Assert(D == -1 || st.bodyBytes == D, "C40/fin-needs-declared-length")
		} else {
			vrt.Assert(st.state == stateOpen, "C40/data-keeps-open")
		}
		return
	}
	vrt.Cover("C40/data-refused")
	se, isStreamErr := err.(StreamError)
	vrt.Assert(isStreamErr, "C40/data-refusal-is-stream-error")
	// a refused frame leaves the windows alone, or (Content-Length mismatch detected at FIN, after
	// the bytes were taken into the body) has consumed exactly its length, which fitted the windows
	vrt.Assert((st.inflow.n == S && sc.inflow.n == C) || (l <= S && l <= C && st.inflow.n == S-l && sc.inflow.n == C-l), "C40/refused-data-leaves-windows")
	if isStreamErr {
		if f.StreamId != 1 {
			vrt.Assert(se.StreamID == 3 && se.Code == InvalidStream, "C40/data-unknown-stream")
		} else if !wasOpen {
			vrt.Assert(se.Code == StreamAlreadyClosed, "C40/data-closed-stream")
		}
	}
}

// VerifC40_processData_overflow: on an open stream without Content-Length, a DATA frame longer than
// either receive window is refused with FLOW_CONTROL_ERROR.
func VerifC40_processData_overflow() {
	sc := newConnC40()
	S, C := vrt.I32("streamWindow"), vrt.I32("connWindow")
	vrt.Assume(S >= 0 && C >= 0)
	sc.inflow.n = C
	st := &stream{id: 1, body: pipe.NewPipeWithSize(8), state: stateOpen, declBodyBytes: -1}
	st.inflow.conn = &sc.inflow
	st.inflow.n = S
	sc.streams[1] = st
	L := vrt.Range("datalen", 1, vrt.Param("L", 3))
	f := &DataFrame{StreamId: 1, Flags: DataFlags(vrt.Byte("flags")), Data: vrt.Bytes("data", L)}
	vrt.Assume(int32(L) > S || int32(L) > C)
	err := sc.processData(f)
	se, ok := err.(StreamError)
	vrt.Assert(ok && se.Code == FlowControlError, "C40/data-beyond-window-refused")
	vrt.Assert(st.inflow.n == S && sc.inflow.n == C && st.bodyBytes == 0, "C40/refused-data-leaves-windows")
}

// VerifC40_noteBodyRead: replenishment equals the bytes consumed by the handler (n in 0..2^31-1),
// from arbitrary windows whose sum with n does not exceed 2^31-1 (the invariant: windows never exceed
// the initial size, which is 64K).
func VerifC40_noteBodyRead() {
	sc := newConnC40()
	S, C := vrt.I32("streamWindow"), vrt.I32("connWindow")
	n := vrt.I32("n")
	vrt.Assume(S >= 0 && C >= 0 && n >= 0 && S <= 1<<20 && C <= 1<<20 && n <= 1<<20)
	sc.inflow.n = C
	stateByte := vrt.Byte("state")
	vrt.Assume(stateByte <= byte(stateClosed))
	st := &stream{id: 1, state: streamState(stateByte)}
	st.inflow.conn = &sc.inflow
	st.inflow.n = S
	sc.streams[1] = st
	sc.noteBodyRead(st, int(n))
	vrt.Assert(sc.inflow.n == C+n, "C40/conn-window-replenished-by-consumed")
	if st.state == stateHalfClosedRemote || st.state == stateClosed {
		vrt.Assert(st.inflow.n == S, "C40/closed-stream-not-replenished")
	} else {
		vrt.Assert(st.inflow.n == S+n, "C40/stream-window-replenished-by-consumed")
	}
}

// VerifC40_processWindowUpdate: send windows S, C arbitrary int32; delta 31 bits; target: the
// connection (id 0), stream 1 (exists) or stream 3 (absent).
func VerifC40_processWindowUpdate() {
	sc := newConnC40()
	S, C := vrt.I32("streamWindow"), vrt.I32("connWindow")
	sc.flow.n = C
	st := &stream{id: 1, state: stateOpen}
	st.flow.conn = &sc.flow
	st.flow.n = S
	sc.streams[1] = st
	delta := vrt.U32("delta")
	vrt.Assume(delta&0x80000000 == 0) // the frame reader masks the reserved bit
	target := []StreamId{0, 1, 3}[vrt.Choose("target", 3)]
	err := sc.processWindowUpdate(&WindowUpdateFrame{StreamId: target, DeltaWindowSize: delta})
	const max = int64(1<<31 - 1)
	switch target {
	case 0:
		if err == nil {
			vrt.Assert(int64(sc.flow.n) == int64(C)+int64(delta), "C40/wu-conn-window-grows-by-delta")
			vrt.Assert(int64(C)+int64(delta) <= max, "C40/wu-no-overflow")
		} else {
			vrt.Assert(sc.flow.n == C, "C40/wu-refused-leaves-window")
		}
		vrt.Assert(st.flow.n == S, "C40/wu-conn-leaves-stream")
	case 1:
		if err == nil {
			vrt.Assert(int64(st.flow.n) == int64(S)+int64(delta), "C40/wu-stream-window-grows-by-delta")
			vrt.Assert(int64(S)+int64(delta) <= max, "C40/wu-no-overflow")
		} else {
			vrt.Assert(st.flow.n == S, "C40/wu-refused-leaves-window")
		}
		vrt.Assert(sc.flow.n == C, "C40/wu-stream-leaves-conn")
	case 3:
		vrt.Assert(err == nil && st.flow.n == S && sc.flow.n == C, "C40/wu-unknown-stream-ignored")
	}
}

// VerifC40_takeFrom: the write scheduler never hands out more DATA than the client's stream and
// connection windows allow. Queue with one DATA frame of 0..L bytes; send windows S, C arbitrary
// with S, C >= 0 (the scheduler is only asked when the stream is writable).
func VerifC40_takeFrom() {
	sc := newConnC40()
	S, C := vrt.I32("streamWindow"), vrt.I32("connWindow")
	vrt.Assume(S >= 0 && C >= 0)
	sc.flow.n = C
	st := &stream{id: 1, state: stateOpen}
	st.flow.conn = &sc.flow
	st.flow.n = S
	L := vrt.Range("datalen", 0, vrt.Param("L", 3))
	ws := &sc.writeSched
	ws.maxFrameSize = uint32(1 + vrt.Choose("maxFrame", 3))
	q := &writeQueue{}
	q.push(frameWriteMsg{stream: st, frame: &DataFrame{StreamId: 1, Data: vrt.Bytes("data", L)}})
	ws.sq = map[uint32]*writeQueue{1: q}
	wm, ok := ws.takeFrom(1, q)
	if !ok {
		vrt.Assert(st.flow.n == S && sc.flow.n == C, "C40/nothing-taken-leaves-windows")
		vrt.Assert(L > 0 && (S == 0 || C == 0), "C40/blocked-only-without-window")
		return
	}
	df, isData := wm.frame.(*DataFrame)
	vrt.Assert(isData, "C40/take-data")
	if isData {
		n := int32(len(df.Data))
		vrt.Assert(n <= S && n <= C, "C40/sent-within-client-windows")
		vrt.Assert(n <= int32(ws.maxFrameSize) || L == 0, "C40/sent-within-frame-size")
		vrt.Assert(st.flow.n == S-n && sc.flow.n == C-n, "C40/sent-consumes-windows")
	}
}

// VerifC40_synStream_ids: any 31-bit stream id against any highest-seen id M. Headers are empty, so a
// SYN_STREAM with an acceptable id ends as the documented "malformed request" stream error after
// the stream has been registered.
func VerifC40_synStream_ids() {
	sc := newConnC40()
	M := vrt.U32("maxSeen")
	vrt.Assume(M&0x80000000 == 0 && (M == 0 || M%2 == 1)) // ids seen so far were odd
	sc.maxStreamID = M
	id := vrt.U32("id")
	vrt.Assume(id&0x80000000 == 0)
	f := &SynStreamFrame{StreamId: StreamId(id)}
	err := sc.processSynStream(f)
	_, created := sc.streams[id]
	valid := id%2 == 1 && id > M
	if valid {
		vrt.Assert(created && sc.maxStreamID == id, "C40/syn-valid-id-registered")
	} else {
		vrt.Assert(err != nil, "C40/syn-invalid-id-rejected")
		vrt.Assert(!created && sc.maxStreamID == M, "C40/syn-invalid-id-leaves-state")
		if id == M && id%2 == 1 {
			_, isStream := err.(StreamError)
			vrt.Assert(isStream, "C40/syn-duplicate-id-stream-error")
		} else {
			ce, isConn := err.(ConnectionError)
			vrt.Assert(isConn && RstStreamStatus(ce) == ProtocolError, "C40/syn-bad-id-connection-error")
		}
	}
}

// VerifC40_settings_then_send: a three-step client history on one stream, with the CLIENT's view of
// its stream window kept in 64-bit arithmetic next to the server's (SPDY/3 2.6.8):
//  pre-state: the server's send window for the stream equals the client's window T = S (any value in
//             [-2^30, 2^30]: negative after an earlier shrink), SETTINGS_INITIAL_WINDOW_SIZE = I;
//  1. SETTINGS(INITIAL_WINDOW_SIZE = V), I, V in [0, 2^30]: the client's window becomes T + (V - I) and
//     may legitimately be negative ("the window size can become negative", the debt has to be paid
//     off by WINDOW_UPDATEs before DATA may flow again);
//  2. optionally WINDOW_UPDATE(stream, delta), delta 31 bits: T += delta if the server accepts it;
//  3. the write scheduler is asked for the next frame with L >= 1 response bytes queued.
// If any step is refused (connection / stream error) nothing is sent and the history ends. Otherwise
// the DATA the scheduler hands to the writer must fit the client's stream window and the connection
// window.
func VerifC40_settings_then_send() {
	sc := newConnC40()
	const lim = int32(1 << 30)
	S, C := vrt.I32("streamWindow"), vrt.I32("connWindow")
	I, V := vrt.I32("oldInitialWindow"), vrt.I32("newInitialWindow")
	vrt.Assume(S >= -lim && S <= lim && C >= 0 && I >= 0 && I <= lim && V >= 0 && V <= lim)
	sc.initialWindowSize = I
	sc.flow.n = C
	st := &stream{id: 1, state: stateOpen}
	st.flow.conn = &sc.flow
	st.flow.n = S
	sc.streams[1] = st
	T := int64(S) // the client's own account of its stream window

	err := sc.processSettings(&SettingsFrame{FlagIdValues: []SettingsFlagIdValue{{Id: SettingsInitialWindowSize, Value: uint32(V)}}})
	if err != nil {
		vrt.Cover("C40/settings-refused")
		return
	}
	T += int64(V) - int64(I)

	if vrt.Choose("windowUpdate", 2) == 1 {
		delta := vrt.U32("delta")
		vrt.Assume(delta&0x80000000 == 0)
		if err := sc.processWindowUpdate(&WindowUpdateFrame{StreamId: 1, DeltaWindowSize: delta}); err != nil {
			vrt.Cover("C40/window-update-refused")
			return // stream error: the stream is reset, no DATA follows
		}
		T += int64(delta)
	}

	L := vrt.Range("datalen", 1, vrt.Param("L", 2))
	ws := &sc.writeSched
	ws.maxFrameSize = 16
	q := &writeQueue{}
	q.push(frameWriteMsg{stream: st, frame: &DataFrame{StreamId: 1, Data: vrt.Bytes("data", L)}})
	ws.sq = map[uint32]*writeQueue{1: q}
	wm, ok := ws.take()
	if !ok {
		vrt.Cover("C40/send-blocked")
		return
	}
	df, isData := wm.frame.(*DataFrame)
	vrt.Assert(isData, "C40/take-data")
	if isData {
		n := int64(len(df.Data))
		vrt.Assert(n <= T, "C40/sent-within-client-window-after-settings")
		vrt.Assert(n <= int64(C), "C40/sent-within-connection-window-after-settings")
	}
}
