package bfe_spdy

// C39 — SPDY frames round-trip and parsing is robust.
//
// Header compression (zlib) is outside the reach of the technique, so every Framer here is built
// like the one in bfe's own frame_test.go: headerCompressionDisabled = true. Everything else (frame
// (de)serialisation, header block (de)serialisation, length arithmetic, allocations) is the real code.

import (
	"bytes"
	"io"

	http "github.com/bfenetworks/bfe/bfe_http"
	vrt "github.com/bfenetworks/bfe/zz_vrt"
)

// wireC39 is the byte stream under the Framer: Write appends, Read consumes and records the largest
// read request (io.ReadFull(r, make([]byte, n)) asks for n bytes: that is the allocation size).
type wireC39 struct {
	data   []byte
	pos    int
	maxReq int
}

func (w *wireC39) Write(p []byte) (int, error) {
	w.data = append(w.data, p...)
	return len(p), nil
}

func (w *wireC39) Read(p []byte) (int, error) {
	if len(p) > w.maxReq {
		w.maxReq = len(p)
	}
	if w.pos >= len(w.data) {
		return 0, io.EOF
	}
	n := copy(p, w.data[w.pos:])
	w.pos += n
	return n, nil
}

// allocSlackC39: a reader may always use a small fixed-size buffer (bytes.Buffer grows by 512);
// anything larger must be covered by the declared frame length.
const allocSlackC39 = 4096

func newFramerC39(w *wireC39) *Framer {
	return &Framer{headerCompressionDisabled: true, w: w, headerBuf: new(bytes.Buffer), r: w}
}

// declaredOkC39: the length field of the (single) frame in w equals the bytes that follow the 8-byte
// frame header - what any reader that honours the length field (the compressed-mode reader does) needs.
func declaredOkC39(w *wireC39) bool {
	if len(w.data) < 8 {
		return false
	}
	return int(w.data[5])<<16|int(w.data[6])<<8|int(w.data[7]) == len(w.data)-8
}

func flagC39() bool { return vrt.Choose("flag", 2) == 1 }

func streamIdC39() StreamId {
	id := StreamId(vrt.U32("streamId"))
	vrt.Assume(id != 0 && id&0x80000000 == 0) // stream ids are 31-bit and non-zero (SPDY/3 2.3.2)
	return id
}

func eqStrC39(a, b string) bool {
	if len(a) != len(b) {
		return false
	}
	ok := true
	for i := 0; i < len(a); i++ {
		if a[i] != b[i] {
			ok = false
		}
	}
	return ok
}

// ---------------------------------------------------------------------------------------------
// (a) round trip of the fixed-layout frames

func VerifC39_rt_fixed() {
	w := &wireC39{}
	f := newFramerC39(w)
	var err error
	switch vrt.Choose("frame", 6) {
	case 0:
		in := &RstStreamFrame{StreamId: streamIdC39(), Status: RstStreamStatus(vrt.U32("status"))}
		vrt.Assume(in.Status != 0)
		err = f.WriteFrame(in)
		vrt.Assert(err == nil, "C39/rt-write-ok")
		vrt.Assert(declaredOkC39(w), "C39/rt-declared-length")
		out, rerr := f.ReadFrame()
		vrt.Assert(rerr == nil, "C39/rt-read-ok")
		if rerr == nil {
			o, ok := out.(*RstStreamFrame)
			vrt.Assert(ok, "C39/rt-type")
			if ok {
				vrt.Assert(o.StreamId == in.StreamId && o.Status == in.Status, "C39/rt-fields")
			}
		}
	case 1:
		n := vrt.Range("nsettings", 0, vrt.Param("K", 2))
		in := &SettingsFrame{}
		in.CFHeader.Flags = ControlFlags(vrt.Byte("flags"))
		in.FlagIdValues = make([]SettingsFlagIdValue, n)
		for i := range in.FlagIdValues {
			in.FlagIdValues[i].Flag = SettingsFlag(vrt.Byte("sflag"))
			id := SettingsId(vrt.U32("sid"))
			vrt.Assume(id&0xff000000 == 0) // ids are 24-bit
			in.FlagIdValues[i].Id = id
			in.FlagIdValues[i].Value = vrt.U32("sval")
		}
		err = f.WriteFrame(in)
		vrt.Assert(err == nil, "C39/rt-write-ok")
		vrt.Assert(declaredOkC39(w), "C39/rt-declared-length")
		out, rerr := f.ReadFrame()
		vrt.Assert(rerr == nil, "C39/rt-read-ok")
		if rerr == nil {
			o, ok := out.(*SettingsFrame)
			vrt.Assert(ok, "C39/rt-type")
			if ok {
				vrt.Assert(o.CFHeader.Flags == in.CFHeader.Flags, "C39/rt-fields")
				vrt.Assert(len(o.FlagIdValues) == n, "C39/rt-fields")
				for i := 0; i < n && i < len(o.FlagIdValues); i++ {
					vrt.Assert(o.FlagIdValues[i] == in.FlagIdValues[i], "C39/rt-fields")
				}
			}
		}
	case 2:
		in := &PingFrame{Id: vrt.U32("id")}
		vrt.Assume(in.Id != 0)
		err = f.WriteFrame(in)
		vrt.Assert(err == nil, "C39/rt-write-ok")
		vrt.Assert(declaredOkC39(w), "C39/rt-declared-length")
		out, rerr := f.ReadFrame()
		vrt.Assert(rerr == nil, "C39/rt-read-ok")
		if rerr == nil {
			o, ok := out.(*PingFrame)
			vrt.Assert(ok, "C39/rt-type")
			if ok {
				vrt.Assert(o.Id == in.Id, "C39/rt-fields")
			}
		}
	case 3:
		in := &GoAwayFrame{LastGoodStreamId: StreamId(vrt.U32("last")), Status: GoAwayStatus(vrt.U32("status"))}
		vrt.Assume(in.LastGoodStreamId&0x80000000 == 0)
		err = f.WriteFrame(in)
		vrt.Assert(err == nil, "C39/rt-write-ok")
		vrt.Assert(declaredOkC39(w), "C39/rt-declared-length")
		out, rerr := f.ReadFrame()
		vrt.Assert(rerr == nil, "C39/rt-read-ok")
		if rerr == nil {
			o, ok := out.(*GoAwayFrame)
			vrt.Assert(ok, "C39/rt-type")
			if ok {
				vrt.Assert(o.LastGoodStreamId == in.LastGoodStreamId && o.Status == in.Status, "C39/rt-fields")
			}
		}
	case 4:
		in := &WindowUpdateFrame{StreamId: StreamId(vrt.U32("sid")), DeltaWindowSize: vrt.U32("delta")}
		vrt.Assume(in.StreamId&0x80000000 == 0 && in.DeltaWindowSize&0x80000000 == 0)
		err = f.WriteFrame(in)
		vrt.Assert(err == nil, "C39/rt-write-ok")
		vrt.Assert(declaredOkC39(w), "C39/rt-declared-length")
		out, rerr := f.ReadFrame()
		vrt.Assert(rerr == nil, "C39/rt-read-ok")
		if rerr == nil {
			o, ok := out.(*WindowUpdateFrame)
			vrt.Assert(ok, "C39/rt-type")
			if ok {
				vrt.Assert(o.StreamId == in.StreamId && o.DeltaWindowSize == in.DeltaWindowSize, "C39/rt-fields")
			}
		}
	case 5:
		in := &DataFrame{StreamId: streamIdC39(), Flags: DataFlags(vrt.Byte("flags"))}
		in.Data = vrt.Bytes("data", vrt.Range("datalen", 0, vrt.Param("D", 3)))
		err = f.WriteFrame(in)
		vrt.Assert(err == nil, "C39/rt-write-ok")
		vrt.Assert(declaredOkC39(w), "C39/rt-declared-length")
		out, rerr := f.ReadFrame()
		vrt.Assert(rerr == nil, "C39/rt-read-ok")
		if rerr == nil {
			o, ok := out.(*DataFrame)
			vrt.Assert(ok, "C39/rt-type")
			if ok {
				vrt.Assert(o.StreamId == in.StreamId && o.Flags == in.Flags, "C39/rt-fields")
				vrt.Assert(len(o.Data) == len(in.Data), "C39/rt-fields")
				for i := 0; i < len(in.Data) && i < len(o.Data); i++ {
					vrt.Assert(o.Data[i] == in.Data[i], "C39/rt-fields")
				}
			}
		}
	}
	// the whole written frame, and nothing else, was consumed
	vrt.Assert(w.pos == len(w.data), "C39/rt-boundary")
}

// ---------------------------------------------------------------------------------------------
// (b) round trip of the frames that carry a header block

// nonASCIINamesC39: concrete names outside ASCII (the engine's strings.ToLower model covers symbolic
// ASCII bytes and concrete strings of any kind; symbolic non-ASCII case mapping is not modelled).
// é and É keep their length under strings.ToLower, the KELVIN SIGN (3 bytes) shrinks to "k". Names that
// grow (İ, invalid UTF-8 such as "\xff") are not run: the corrupted frame makes the reader request a
// multi-gigabyte allocation, which neither the engine nor a native replay should attempt.
var nonASCIINamesC39 = []string{"\xc3\xa9", "\xc3\x89", "\xe2\x84\xaa"}

func lowerASCIIC39(s string) string {
	b := make([]byte, len(s))
	for i := 0; i < len(s); i++ {
		c := s[i]
		if 'A' <= c && c <= 'Z' {
			c += 'a' - 'A'
		}
		b[i] = c
	}
	return string(b)
}

func noNulC39(s string) bool {
	ok := true
	for i := 0; i < len(s); i++ {
		if s[i] == 0 {
			ok = false
		}
	}
	return ok
}

// VerifC39_rt_headers: SYN_STREAM / SYN_REPLY / HEADERS with one header (name: 1..2 symbolic ASCII
// bytes, or one of the concrete non-ASCII names; 1..2 values of 0..2 symbolic non-NUL bytes).
// Written names are compared case-insensitively (SPDY lower-cases names on the wire, bfe's Header
// type canonicalises them when read): the read header block must contain exactly one entry, whose
// name equals the written one up to ASCII case and whose values are the written ones.
func VerifC39_rt_headers() {
	w := &wireC39{}
	f := newFramerC39(w)
	var name string
	nonASCII := false
	if k := vrt.Choose("name", 1+vrt.Param("NONASCII", len(nonASCIINamesC39))); k == 0 {
		name = vrt.Str("name", vrt.Range("namelen", 1, 2))
		for i := 0; i < len(name); i++ {
			vrt.Assume(name[i] < 0x80)
		}
	} else {
		name = nonASCIINamesC39[k-1]
		nonASCII = true
	}
	var values []string
	if nonASCII {
		values = []string{"v"} // concrete: a corrupted block must not turn symbolic bytes into lengths
	} else {
		nv := vrt.Range("nvalues", 1, 2)
		values = make([]string, nv)
		for i := range values {
			values[i] = vrt.Str("value", vrt.Range("valuelen", 0, 2))
			vrt.Assume(noNulC39(values[i])) // NUL is the value separator on the wire (SPDY/3 2.6.10)
		}
	}
	hdr := http.Header{name: values}
	sid := streamIdC39()

	vrt.Known("C39-name-length-written-before-lowercasing", nonASCII && len(name) != len(toLowerC39(name)))

	var werr error
	kind := vrt.Choose("frame", 3)
	switch kind {
	case 0:
		in := &SynStreamFrame{StreamId: sid, Headers: hdr}
		in.AssociatedToStreamId = StreamId(vrt.U32("assoc")) & 0x7fffffff
		in.Priority = vrt.Byte("prio") & 7
		in.Slot = vrt.Byte("slot")
		in.CFHeader.Flags = ControlFlags(vrt.Byte("flags"))
		werr = f.WriteFrame(in)
		vrt.Assert(werr == nil, "C39/rth-write-ok")
		vrt.Assert(declaredOkC39(w), "C39/rth-declared-length")
		out, rerr := f.ReadFrame()
		if rerr != nil {
			// the only legitimate refusals: a forbidden request header name, an over-long :path
			vrt.Assert(invalidReqHeaders[http.CanonicalHeaderKey(lowerASCIIC39(name))] || name == ":path", "C39/rth-read-ok")
			return
		}
		o, ok := out.(*SynStreamFrame)
		vrt.Assert(ok, "C39/rth-type")
		if !ok {
			return
		}
		vrt.Assert(o.StreamId == sid && o.AssociatedToStreamId == in.AssociatedToStreamId, "C39/rth-fields")
		vrt.Assert(o.Priority == in.Priority && o.Slot == in.Slot && o.CFHeader.Flags == in.CFHeader.Flags, "C39/rth-fields")
		checkHeadersC39(o.Headers, name, values)
	case 1:
		in := &SynReplyFrame{StreamId: sid, Headers: hdr}
		werr = f.WriteFrame(in)
		vrt.Assert(werr == nil, "C39/rth-write-ok")
		vrt.Assert(declaredOkC39(w), "C39/rth-declared-length")
		out, rerr := f.ReadFrame()
		if rerr != nil {
			vrt.Assert(invalidRespHeaders[http.CanonicalHeaderKey(lowerASCIIC39(name))], "C39/rth-read-ok")
			return
		}
		o, ok := out.(*SynReplyFrame)
		vrt.Assert(ok, "C39/rth-type")
		if !ok {
			return
		}
		vrt.Assert(o.StreamId == sid, "C39/rth-fields")
		checkHeadersC39(o.Headers, name, values)
	case 2:
		in := &HeadersFrame{StreamId: sid, Headers: hdr}
		werr = f.WriteFrame(in)
		vrt.Assert(werr == nil, "C39/rth-write-ok")
		vrt.Assert(declaredOkC39(w), "C39/rth-declared-length")
		out, rerr := f.ReadFrame()
		if rerr != nil {
			cn := http.CanonicalHeaderKey(lowerASCIIC39(name))
			vrt.Assert(invalidReqHeaders[cn] || invalidRespHeaders[cn] || name == ":path", "C39/rth-read-ok")
			return
		}
		o, ok := out.(*HeadersFrame)
		vrt.Assert(ok, "C39/rth-type")
		if !ok {
			return
		}
		vrt.Assert(o.StreamId == sid, "C39/rth-fields")
		checkHeadersC39(o.Headers, name, values)
	}
	vrt.Assert(w.pos == len(w.data), "C39/rth-boundary")
}

// toLowerC39 is only applied to the concrete non-ASCII names (known-finding predicate).
func toLowerC39(s string) string {
	// lengths of strings.ToLower(s) for the table above, written out so that the predicate does not
	// depend on the library: é->é (2), É->é (2), KELVIN SIGN (3 bytes) -> k (1), İ (2) -> i̇ (3),
	// \xff -> U+FFFD (3), x\x80 -> xU+FFFD (4)
	switch s {
	case "\xe2\x84\xaa":
		return "k"
	case "\xc4\xb0":
		return "i\xcc\x87"
	case "\xff":
		return "\xef\xbf\xbd"
	case "x\x80":
		return "x\xef\xbf\xbd"
	case "\xc3\x89":
		return "\xc3\xa9"
	}
	return s
}

func checkHeadersC39(got http.Header, name string, values []string) {
	vrt.Assert(len(got) == 1, "C39/rth-one-header")
	for k, vs := range got {
		vrt.Assert(eqStrC39(lowerASCIIC39(k), lowerASCIIC39(name)) || eqStrC39(lowerASCIIC39(k), lowerASCIIC39(toLowerC39(name))), "C39/rth-name")
		vrt.Assert(len(vs) == len(values), "C39/rth-values")
		for i := 0; i < len(values) && i < len(vs); i++ {
			vrt.Assert(eqStrC39(vs[i], values[i]), "C39/rth-values")
		}
	}
}

// ---------------------------------------------------------------------------------------------
// (c) raw byte streams

// fixedLenC39: payload length the SPDY/3 draft prescribes for the fixed-layout control frames.
func fixedLenC39(t ControlFrameType, payload []byte) (int, bool) {
	switch t {
	case TypeRstStream:
		return 8, true
	case TypePing:
		return 4, true
	case TypeGoAway:
		return 8, true
	case TypeWindowUpdate:
		return 8, true
	}
	return 0, false
}

// VerifC39_raw_control: 8 symbolic header bytes (control bit set) followed by 0..P symbolic payload
// bytes, P <= 12. Frame types: all 16 bits symbolic. For the header-block frames (SYN_STREAM,
// SYN_REPLY, HEADERS) the first length field that sizes an allocation (bytes 8..11 of the payload of
// SYN_REPLY/HEADERS; SYN_STREAM cannot reach one within 12 bytes) is restricted to 0..3 or 65536,
// for SETTINGS the entry count needs no restriction (it is checked against 1024 before the make, and
// the engine forks over it). No panic; on success the frame boundary is kept for the fixed-layout
// frames; no read request (= allocation) larger than the declared frame length.
func VerifC39_raw_control() {
	P := vrt.Param("P", 12)
	n := vrt.Range("payload", 0, P)
	hdr := vrt.Bytes("hdr", 8)
	vrt.Assume(hdr[0]&0x80 != 0)
	payload := vrt.Bytes("payload", n)
	ftype := ControlFrameType(uint16(hdr[2])<<8 | uint16(hdr[3]))
	declared := int(hdr[5])<<16 | int(hdr[6])<<8 | int(hdr[7])
	if n >= 12 {
		l := uint32(payload[8])<<24 | uint32(payload[9])<<16 | uint32(payload[10])<<8 | uint32(payload[11])
		vrt.Assume(!(ftype == TypeSynReply || ftype == TypeHeaders) || l <= 3 || l == 65536)
	}
	if n >= 4 {
		// SETTINGS: keep the number of forks of make([]SettingsFlagIdValue, n) small
		ns := uint32(payload[0])<<24 | uint32(payload[1])<<16 | uint32(payload[2])<<8 | uint32(payload[3])
		vrt.Assume(ftype != TypeSettings || ns <= 3 || ns == 1024 || ns == 1025)
	}
	w := &wireC39{data: append(append([]byte{}, hdr...), payload...)}
	f := newFramerC39(w)

	want, fixed := fixedLenC39(ftype, payload)
	vrt.Known("C39-fixed-frame-length-unchecked", (ftype == TypeRstStream || ftype == TypePing) && declared != want)
	if n >= 4 {
		ns := int(payload[0])<<24 | int(payload[1])<<16 | int(payload[2])<<8 | int(payload[3])
		vrt.Known("C39-fixed-frame-length-unchecked", ftype == TypeSettings && declared != 4+8*ns)
	}
	if n >= 12 {
		l := int(payload[8])<<24 | int(payload[9])<<16 | int(payload[10])<<8 | int(payload[11])
		vrt.Known("C39-header-field-length-sizes-allocation", (ftype == TypeSynReply || ftype == TypeHeaders) && l > declared)
	}

	fr, err := f.ReadFrame()
	vrt.Assert(w.maxReq <= allocSlackC39 || w.maxReq <= declared, "C39/raw-alloc-within-frame")
	if err != nil {
		vrt.Assert(fr == nil, "C39/raw-error-no-frame")
		return
	}
	vrt.Cover("C39/raw-control-accepted")
	if fixed {
		vrt.Assert(w.pos == 8+declared, "C39/raw-boundary")
	}
	if ftype == TypeSettings {
		vrt.Assert(w.pos == 8+declared, "C39/raw-boundary")
	}
}

// VerifC39_raw_data: data frame header (8 symbolic bytes, control bit clear) + 0..P payload bytes;
// the 24-bit length is restricted to 0..P+1 or 65536 (a make of the full 16M would only exceed the
// engine's allocation cap).
func VerifC39_raw_data() {
	P := vrt.Param("P", 12)
	n := vrt.Range("payload", 0, P)
	hdr := vrt.Bytes("hdr", 8)
	vrt.Assume(hdr[0]&0x80 == 0)
	declared := int(hdr[5])<<16 | int(hdr[6])<<8 | int(hdr[7])
	vrt.Assume(declared <= P+1 || declared == 65536)
	payload := vrt.Bytes("payload", n)
	w := &wireC39{data: append(append([]byte{}, hdr...), payload...)}
	f := newFramerC39(w)
	fr, err := f.ReadFrame()
	vrt.Assert(w.maxReq <= allocSlackC39 || w.maxReq <= declared, "C39/raw-alloc-within-frame")
	if err != nil {
		vrt.Assert(fr == nil, "C39/raw-error-no-frame")
		return
	}
	d, ok := fr.(*DataFrame)
	vrt.Assert(ok, "C39/raw-data-type")
	if ok {
		vrt.Assert(len(d.Data) == declared, "C39/raw-data-len")
		vrt.Assert(w.pos == 8+declared, "C39/raw-boundary")
	}
}

// VerifC39_raw_headerblock: parseHeaderValueBlock on a structured stream: header count 0..2 (or
// 1025), every length field one of {0,1,2,65536} (shapes), all content bytes symbolic ASCII (upper
// and lower case, control characters) - and the stream cut after any number of bytes. No panic;
// success only if the whole block was present; every allocation bounded by the bytes of the block.
func VerifC39_raw_headerblock() {
	lens := []uint32{0, 1, 2, 65536}
	var stream []byte
	put32 := func(v uint32) {
		stream = append(stream, byte(v>>24), byte(v>>16), byte(v>>8), byte(v))
	}
	counts := []uint32{0, 1, 1025, 2}
	nh := counts[vrt.Choose("nheaders", vrt.Param("NH", 3))]
	put32(nh)
	huge := false
	for i := uint32(0); i < nh && i < 2; i++ {
		for j := 0; j < 2; j++ {
			var l uint32
			if i == 0 {
				l = lens[vrt.Choose("len", len(lens))]
			} else {
				l = lens[1+2*vrt.Choose("len2", 2)] // second header: 1 or 65536
			}
			put32(l)
			if l > 2 {
				huge = true
				l = 2 // only two bytes follow
			}
			b := vrt.Bytes("content", int(l))
			for k := range b {
				vrt.Assume(b[k] < 0x80)
			}
			stream = append(stream, b...)
		}
	}
	cut := vrt.Range("cut", 0, len(stream))
	w := &wireC39{data: stream[:cut]}
	vrt.Known("C39-header-field-length-sizes-allocation", huge)
	h, _, err := parseHeaderValueBlock(w, 1)
	vrt.Assert(w.maxReq <= allocSlackC39 || w.maxReq <= len(stream), "C39/raw-alloc-within-frame")
	if err == nil {
		vrt.Assert(cut == len(stream) && !huge && nh <= 2, "C39/raw-block-complete")
		vrt.Assert(len(h) <= int(nh), "C39/raw-block-count")
	}
}

// ---------------------------------------------------------------------------------------------
// (d) two frames in a row: a header-bearing frame whose block the reader may reject, then a PING

// headerVerdictC39: the reader's verdict is about the CONTENT of a header block that was present in
// full (per-stream protocol errors that carry the stream id; the Framer stays usable, SPDY/3 2.4.2) -
// as opposed to I/O errors and malformed lengths, after which the stream position means nothing.
func headerVerdictC39(err error) bool {
	e, ok := err.(*Error)
	if !ok {
		return false
	}
	return e.Err == UnlowercasedHeaderName || e.Err == DuplicateHeaders || e.Err == InvalidHeaderPresent
}

// VerifC39_seq_headers_then_ping: raw bytes of one SYN_STREAM / SYN_REPLY / HEADERS frame whose
// declared length equals its structure (H = 2 headers, each a name of 1 symbolic ASCII byte - any of
// the 128 values, so upper case and equal names occur - and a value of 1 symbolic ASCII byte),
// followed by the 12 bytes of a PING with a symbolic id. Whatever the verdict on the first frame
// (accepted, or its header block rejected for its content), the reader must have consumed exactly
// that frame, and the next ReadFrame must return the PING: no frame boundary is lost.
func VerifC39_seq_headers_then_ping() {
	kind := vrt.Choose("frame", 3)
	sid := streamIdC39()
	var body []byte
	put32 := func(v uint32) {
		body = append(body, byte(v>>24), byte(v>>16), byte(v>>8), byte(v))
	}
	put32(uint32(sid))
	ftype := ControlFrameType(TypeSynReply)
	switch kind {
	case 0:
		ftype = TypeSynStream
		put32(0)                  // associated-to stream id
		body = append(body, 0, 0) // priority, slot
	case 2:
		ftype = TypeHeaders
	}
	H := vrt.Param("H", 2)
	put32(uint32(H))
	for i := 0; i < H; i++ {
		nv := vrt.Bytes("namevalue", 2)
		vrt.Assume(nv[0] < 0x80 && nv[1] < 0x80)
		put32(1)
		body = append(body, nv[0])
		put32(1)
		body = append(body, nv[1])
	}
	frame1 := []byte{0x80, 0x03, byte(ftype >> 8), byte(ftype), 0, byte(len(body) >> 16), byte(len(body) >> 8), byte(len(body))}
	frame1 = append(frame1, body...)
	pingId := vrt.U32("pingId")
	vrt.Assume(pingId != 0)
	ping := []byte{0x80, 0x03, 0, byte(TypePing), 0, 0, 0, 4, byte(pingId >> 24), byte(pingId >> 16), byte(pingId >> 8), byte(pingId)}
	w := &wireC39{data: append(append([]byte{}, frame1...), ping...)}
	f := newFramerC39(w)

	_, err := f.ReadFrame()
	if err != nil {
		if !headerVerdictC39(err) {
			vrt.Cover("C39/seq-first-frame-other-error")
			return
		}
		vrt.Cover("C39/seq-first-frame-rejected")
	} else {
		vrt.Cover("C39/seq-first-frame-accepted")
	}
	vrt.Assert(w.pos == len(frame1), "C39/seq-boundary-after-first-frame")
	fr2, err2 := f.ReadFrame()
	vrt.Assert(err2 == nil, "C39/seq-next-frame-read")
	if err2 == nil {
		p, ok := fr2.(*PingFrame)
		vrt.Assert(ok, "C39/seq-next-frame-intact")
		if ok {
			vrt.Assert(p.Id == pingId, "C39/seq-next-frame-intact")
		}
	}
	vrt.Assert(w.pos == len(w.data), "C39/seq-boundary-after-second-frame")
}
