package bfe_spdy

// C25, SPDY frontend — which header names/values can reach the HTTP/1 writer. The real
// parseHeaderValueBlock (compression disabled: the block is given in its decompressed form) on a block
// holding one header whose name and value are symbolic bytes; the post-condition that the HTTP/1 writer
// (VerifC25_writeField in bfe_http) needs is that every name is an RFC 7230 token (values are sanitised by
// the writer itself).

import (
	"bytes"

	vrt "github.com/bfenetworks/bfe/zz_vrt"
)

func isTcharC25(c byte) bool {
	if 'a' <= c && c <= 'z' || 'A' <= c && c <= 'Z' || '0' <= c && c <= '9' {
		return true
	}
	switch c {
	case '!', '#', '$', '%', '&', '\'', '*', '+', '-', '.', '^', '_', '`', '|', '~':
		return true
	}
	return false
}

func isTokenStrC25(s string) bool {
	ok := len(s) > 0
	for i := 0; i < len(s); i++ {
		if !isTcharC25(s[i]) {
			ok = false
		}
	}
	return ok
}

func be32C25(n int) []byte { return []byte{byte(n >> 24), byte(n >> 16), byte(n >> 8), byte(n)} }

// VerifC25_spdyHeaderBlock: numHeaders=1, name 1..NL symbolic bytes, value 0..VL symbolic bytes.
func VerifC25_spdyHeaderBlock() {
	name := vrt.Bytes("name", vrt.Range("nlen", 1, vrt.Param("NL", 2)))
	value := vrt.Bytes("value", vrt.Range("vlen", 0, vrt.Param("VL", 2)))
	for _, c := range name {
		// strings.ToLower is modelled for ASCII only (see registry bounds)
		vrt.Assume(c < 0x80)
	}
	var block []byte
	block = append(block, be32C25(1)...)
	block = append(block, be32C25(len(name))...)
	block = append(block, name...)
	block = append(block, be32C25(len(value))...)
	block = append(block, value...)

	nameOK := true
	for _, c := range name {
		if !isTcharC25(c) {
			nameOK = false
		}
	}
	vrt.Known("C25-spdy-header-name-unvalidated", !nameOK)

	h, _, err := parseHeaderValueBlock(bytes.NewReader(block), 1)
	if err != nil && h == nil {
		vrt.Cover("C25/spdy-block-refused")
		return
	}
	namesOK, valuesOK := true, true
	for k, vv := range h {
		if !isTokenStrC25(k) {
			namesOK = false
		}
		for _, v := range vv {
			for i := 0; i < len(v); i++ {
				// CR/LF in values are replaced by the HTTP/1 writer (Header.WriteSubset); NUL is the
				// SPDY value separator and must have been split away
				if v[i] == 0 {
					valuesOK = false
				}
			}
		}
	}
	vrt.Assert(namesOK, "C25/spdy-names-are-tokens")
	vrt.Assert(valuesOK, "C25/spdy-values-no-nul")
}
