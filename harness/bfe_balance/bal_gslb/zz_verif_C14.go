package bal_gslb

// C14 (balancing part) — BalanceGslb.Init builds the sub-cluster list while ranging over the gslb map
// and sorts it by name afterwards: two initialisations of the same configuration under independent map
// iteration orders must give the same list (names, weights, order) and the same derived fields.

import (
	"github.com/bfenetworks/bfe/bfe_config/bfe_cluster_conf/gslb_conf"
	vrt "github.com/bfenetworks/bfe/zz_vrt"
)

var subNamesC14 = []string{"sub-b", "GSLB_BLACKHOLE", "sub-a", "Sub-a"}

func VerifC14_gslbInit() {
	n := vrt.Range("subclusters", 1, vrt.Param("N", 3))
	conf := gslb_conf.GslbClusterConf{}
	for i := 0; i < n; i++ {
		w := vrt.Int("weight")
		vrt.Assume(w >= -1 && w <= 1000)
		conf[subNamesC14[i]] = w
	}
	// b1: insertion order (reference); b2: every order (agreement with a fixed reference for every order
	// is equivalent to pairwise agreement, with k instead of k*k paths)
	b1, b2 := NewBalanceGslb("c"), NewBalanceGslb("c")
	e1 := b1.Init(conf)
	vrt.MapOrder(true)
	e2 := b2.Init(conf)
	vrt.MapOrder(false)
	vrt.Assert((e1 == nil) == (e2 == nil), "C14/gslb-accept-independent-of-map-order")
	if e1 != nil || e2 != nil {
		return
	}
	vrt.Assert(len(b1.subClusters) == n && len(b2.subClusters) == n, "C14/gslb-all-subclusters")
	for i := 0; i < n; i++ {
		vrt.Assert(b1.subClusters[i].Name == b2.subClusters[i].Name, "C14/gslb-same-order")
		vrt.Assert(b1.subClusters[i].weight == b2.subClusters[i].weight, "C14/gslb-same-weights")
		vrt.Assert(b1.subClusters[i].sType == b2.subClusters[i].sType, "C14/gslb-same-type")
	}
	vrt.Assert(b1.totalWeight == b2.totalWeight, "C14/gslb-same-total")
	vrt.Assert(b1.single == b2.single, "C14/gslb-same-single")
	if b1.single {
		vrt.Assert(b1.avail == b2.avail, "C14/gslb-same-avail")
	}
}

var reloadNamesC14 = []string{"sub-b", "sub-a", "sub-c"}

// VerifC14_gslbReload ("... independent of map iteration order, process, or reload count"): a balancer that
// reached configuration NEW by Init(OLD) + Reload(NEW), with Reload's map range in every order, must hold the
// same sub-cluster list (names in the same order, weights, types), total weight and single/avail as a balancer
// of a freshly started process, Init(NEW). OLD and NEW are non-empty subsets of three names (so sub clusters
// are retired, kept and introduced in every combination); OLD weights are 1, NEW weights symbolic.
func VerifC14_gslbReload() {
	oldSet := vrt.Range("old-subset", 1, 7)
	newSet := vrt.Range("new-subset", 1, 7)
	oldConf, newConf := gslb_conf.GslbClusterConf{}, gslb_conf.GslbClusterConf{}
	n := 0
	for i, name := range reloadNamesC14 {
		if oldSet&(1<<uint(i)) != 0 {
			oldConf[name] = 1
		}
		if newSet&(1<<uint(i)) != 0 {
			w := vrt.Int("weight")
			vrt.Assume(w >= -1 && w <= 1000)
			newConf[name] = w
			n++
		}
	}
	fresh, reloaded := NewBalanceGslb("c"), NewBalanceGslb("c")
	e1 := fresh.Init(newConf)
	if err := reloaded.Init(oldConf); err != nil {
		panic("C14 harness: old configuration rejected")
	}
	vrt.MapOrder(true)
	e2 := reloaded.Reload(newConf)
	vrt.MapOrder(false)
	vrt.Assert((e1 == nil) == (e2 == nil), "C14/gslb-reload-accept-as-fresh")
	if e1 != nil || e2 != nil {
		return
	}
	vrt.Assert(len(fresh.subClusters) == n && len(reloaded.subClusters) == n, "C14/gslb-reload-all-subclusters")
	for i := 0; i < n; i++ {
		vrt.Assert(fresh.subClusters[i].Name == reloaded.subClusters[i].Name, "C14/gslb-reload-same-order")
		vrt.Assert(fresh.subClusters[i].weight == reloaded.subClusters[i].weight, "C14/gslb-reload-same-weights")
		vrt.Assert(fresh.subClusters[i].sType == reloaded.subClusters[i].sType, "C14/gslb-reload-same-type")
	}
	vrt.Assert(fresh.totalWeight == reloaded.totalWeight, "C14/gslb-reload-same-total")
	vrt.Assert(fresh.single == reloaded.single, "C14/gslb-reload-same-single")
	if fresh.single {
		vrt.Assert(fresh.avail == reloaded.avail, "C14/gslb-reload-same-avail")
	}
}
