package bal_gslb

// Shared test-only accessors for the balancing harnesses living in package bfe_balance. Not part of bfe.

import "github.com/bfenetworks/bfe/bfe_balance/bal_slb"

// VerifHelpSubs returns the current sub-cluster list.
func VerifHelpSubs(bal *BalanceGslb) []*SubCluster { return bal.subClusters }

// VerifHelpRR returns the instance-level balancer of a sub-cluster.
func VerifHelpRR(sub *SubCluster) *bal_slb.BalanceRR { return sub.backends }

// VerifHelpWeight returns the sub-cluster weight.
func VerifHelpWeight(sub *SubCluster) int { return sub.weight }
