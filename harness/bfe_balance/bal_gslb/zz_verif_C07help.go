package bal_gslb

// Test-only accessors for the reverse-proxy harnesses (C07/C08, package bfe_server): enumerate the
// sub-clusters and backends of a BalanceGslb and ask which sub-cluster is the first choice for a
// request. Not part of bfe; nothing here changes the balancer's state.

import (
	"github.com/bfenetworks/bfe/bfe_balance/backend"
	"github.com/bfenetworks/bfe/bfe_balance/bal_slb"
	"github.com/bfenetworks/bfe/bfe_basic"
)

// VerifHelpSubsC07 returns the number of sub-clusters.
func VerifHelpSubsC07(bal *BalanceGslb) int { return len(bal.subClusters) }

// VerifHelpSubC07 returns name, blackhole flag, weight and the backends of the i-th sub-cluster.
func VerifHelpSubC07(bal *BalanceGslb, i int) (string, bool, int, []*backend.BfeBackend) {
	sub := bal.subClusters[i]
	var bks []*backend.BfeBackend
	for k := 0; k < sub.Len(); k++ {
		_, _, b := bal_slb.VerifHelpGetRR(sub.backends, k)
		bks = append(bks, b)
	}
	return sub.Name, sub.sType == TypeGslbBlackhole, sub.weight, bks
}

// VerifHelpFirstChoiceC07 returns the index of the sub-cluster that subClusterBalance selects for the
// request's hash key (the request's "assigned" sub-cluster), or -1.
func VerifHelpFirstChoiceC07(bal *BalanceGslb, req *bfe_basic.Request) int {
	sub, err := bal.subClusterBalance(bal.getHashKey(req))
	if err != nil || sub == nil {
		return -1
	}
	for i := range bal.subClusters {
		if bal.subClusters[i] == sub {
			return i
		}
	}
	return -1
}
