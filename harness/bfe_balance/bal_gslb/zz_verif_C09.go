package bal_gslb

// C09 (gslb level) — a sub-cluster added by BalanceGslb.Reload (+BackendReload) becomes selectable, a
// removed one is never selected again: after a reload that leaves the ADDED sub-cluster as the only one
// with positive weight, every first-try selection returns one of its backends; in general a selection
// never returns a released backend, and the added sub-cluster is selected for some key.

import (
	"net"

	"github.com/bfenetworks/bfe/bfe_balance/backend"
	"github.com/bfenetworks/bfe/bfe_balance/bal_slb"
	"github.com/bfenetworks/bfe/bfe_basic"
	"github.com/bfenetworks/bfe/bfe_config/bfe_cluster_conf/cluster_table_conf"
	"github.com/bfenetworks/bfe/bfe_config/bfe_cluster_conf/gslb_conf"
	vrt "github.com/bfenetworks/bfe/zz_vrt"
)

// reloadShapesC09gslb: (names before) -> (names after); the added names sort before, between and after
// the surviving ones; shapes 2 and 4 also remove a sub-cluster.
var reloadShapesC09gslb = [][2][]string{
	{{"sh"}, {"bj", "sh"}},
	{{"bj"}, {"bj", "sh"}},
	{{"gz", "sh"}, {"bj", "sh"}},
	{{"bj", "sh"}, {"bj", "gz", "sh"}},
	{{"gz"}, {"bj", "sh"}},
}

func backendsC09gslb(sub string) cluster_table_conf.SubClusterBackend {
	name, addr, port, wt := sub+"-1", "10.0.0.1", 80, 1
	return cluster_table_conf.SubClusterBackend{&cluster_table_conf.BackendConf{Name: &name, Addr: &addr, Port: &port, Weight: &wt}}
}

func VerifC09_gslb_added() {
	shape := reloadShapesC09gslb[vrt.Choose("shape", vrt.Param("SHAPES", len(reloadShapesC09gslb)))]
	draw := func(names []string) gslb_conf.GslbClusterConf {
		gc := gslb_conf.GslbClusterConf{}
		for _, nm := range names {
			w := vrt.Int("subweight")
			vrt.Assume(w >= -1 && w <= 3)
			gc[nm] = w
		}
		vrt.Assume(gc.Check() == nil) // what GslbConfCheck enforces per cluster
		return gc
	}
	g0, gc := draw(shape[0]), draw(shape[1])
	cb := cluster_table_conf.ClusterBackend{}
	for _, nm := range []string{"bj", "gz", "sh"} {
		cb[nm] = backendsC09gslb(nm)
	}
	bal := NewBalanceGslb("c")
	vrt.MapOrder(true)
	vrt.Assert(bal.Init(g0) == nil, "C09/gslb-init-accepts-checked-conf")
	bal.BackendInit(cb)
	// backends of the old sub-clusters, to recognise released ones later
	var oldSubs []string
	var oldBk []*backend.BfeBackend
	for _, sub := range bal.subClusters {
		for i := 0; i < sub.Len(); i++ {
			oldSubs = append(oldSubs, sub.Name)
			_, _, ob := bal_slb.VerifHelpGetRR(sub.backends, i)
			oldBk = append(oldBk, ob)
		}
	}
	vrt.Assert(bal.Reload(gc) == nil, "C09/gslb-reload-accepts-checked-conf")
	bal.BackendReload(cb)
	vrt.MapOrder(false)

	isOld := func(nm string) bool {
		for _, o := range shape[0] {
			if o == nm {
				return true
			}
		}
		return false
	}
	// removed sub-clusters are released (once: a second close panics), survivors are not
	for i, b := range oldBk {
		_, kept := gc[oldSubs[i]]
		vrt.Assert(backend.VerifHelpClosed(b) == !kept, "C09/gslb-removed-released-survivor-kept")
	}

	req := &bfe_basic.Request{Stat: &bfe_basic.RequestStat{}}
	req.ClientAddr = &net.TCPAddr{IP: net.IP(vrt.Bytes("ip", 4))}
	b, err := bal.Balance(req)
	// every configured sub-cluster has one available backend with positive weight and at least one
	// sub-cluster has positive weight: the first try succeeds
	vrt.Assert(err == nil && b != nil, "C09/gslb-selects-after-reload")
	vrt.Assert(!backend.VerifHelpClosed(b), "C09/gslb-removed-never-selected")
	positives := 0
	for _, w := range gc {
		if w > 0 {
			positives++
		}
	}
	hit := false
	for _, sub := range bal.subClusters {
		for i := 0; i < sub.Len(); i++ {
			if _, _, bk := bal_slb.VerifHelpGetRR(sub.backends, i); bk == b {
				// sub.Name is concrete here
				hit = true
				w, listed := gc[sub.Name]
				vrt.Assert(listed, "C09/gslb-removed-never-selected")
				// the only positive-weight sub-cluster gets every request (in particular a newly added one)
				if positives == 1 {
					vrt.Assert(w > 0, "C09/gslb-sole-positive-subcluster-selected")
				}
				if !isOld(sub.Name) {
					vrt.Cover("C09/gslb-added-subcluster-selected")
				}
			}
		}
	}
	vrt.Assert(hit, "C09/gslb-selection-from-new-list")
}
