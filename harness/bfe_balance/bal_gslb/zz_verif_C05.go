package bal_gslb

// C05 (gslb level, sequential part) — BalanceGslb.Balance returns (a backend or an error) without
// panicking or blocking after a configuration reload, including a reload that BalanceGslb.Reload itself
// rejects (total positive weight 0) and that lists fewer sub-clusters than before. Reload holds
// bal.lock for its whole body, so "concurrent with a reload" is "before or after" it.

import (
	"net"

	"github.com/bfenetworks/bfe/bfe_basic"
	"github.com/bfenetworks/bfe/bfe_config/bfe_cluster_conf/cluster_table_conf"
	"github.com/bfenetworks/bfe/bfe_config/bfe_cluster_conf/gslb_conf"
	vrt "github.com/bfenetworks/bfe/zz_vrt"
)

var subNamesC05 = []string{"x.wt", "x.dx", "GSLB_BLACKHOLE"}

func VerifC05_gslb_reload() {
	// initial conf: all three names, loader accepted
	g0 := gslb_conf.GslbClusterConf{}
	cb := cluster_table_conf.ClusterBackend{}
	for _, nm := range subNamesC05 {
		w := vrt.Int("subweight0")
		vrt.Assume(w >= -1 && w <= 3)
		g0[nm] = w
		name, addr, port, wt := nm+"-b", "10.0.0.1", 80, 1
		cb[nm] = cluster_table_conf.SubClusterBackend{&cluster_table_conf.BackendConf{Name: &name, Addr: &addr, Port: &port, Weight: &wt}}
	}
	vrt.Assume(g0.Check() == nil)
	bal := NewBalanceGslb("c")
	vrt.Assert(bal.Init(g0) == nil, "C05/gslb-init-accepts-checked-conf")
	bal.BackendInit(cb)

	// one reload with ANY conf over a non-empty subset of the names (not assumed to pass the loader
	// check: Reload has its own total-weight rejection path, and that path must leave the balancer usable)
	mask := vrt.Choose("present", 7) + 1
	gc := gslb_conf.GslbClusterConf{}
	for i, nm := range subNamesC05 {
		if mask&(1<<uint(i)) != 0 {
			w := vrt.Int("subweight")
			vrt.Assume(w >= -1 && w <= 3)
			gc[nm] = w
		}
	}
	rerr := bal.Reload(gc)
	if rerr == nil {
		bal.BackendReload(cb)
		vrt.Cover("C05/gslb-reload-accepted")
	} else {
		vrt.Cover("C05/gslb-reload-rejected")
	}

	req := &bfe_basic.Request{Stat: &bfe_basic.RequestStat{}}
	req.ClientAddr = &net.TCPAddr{IP: net.IP(vrt.Bytes("ip", 4))}
	rt := vrt.Int("retryTime")
	vrt.Assume(rt >= 0 && rt <= 5)
	req.RetryTime = rt
	b, err := bal.Balance(req) // an index-out-of-range / nil dereference is reported as a panic
	vrt.Assert(err != nil || b != nil, "C05/gslb-returns-backend-or-error")
}
