package bal_gslb

// C02 (cluster level) — hash-based sub-cluster selection is a fixed function of the key hash and of the
// sub-cluster weights, independent of the (map) order of the configuration; the hash residues modulo
// the total weight are split exactly in proportion to the weights. getHashKey yields the documented
// key source for each strategy.

import (
	"net"
	"sort"

	"github.com/spaolacci/murmur3"

	"github.com/bfenetworks/bfe/bfe_basic"
	"github.com/bfenetworks/bfe/bfe_config/bfe_cluster_conf/cluster_conf"
	"github.com/bfenetworks/bfe/bfe_config/bfe_cluster_conf/gslb_conf"
	"github.com/bfenetworks/bfe/bfe_http"
	vrt "github.com/bfenetworks/bfe/zz_vrt"
)

var subNamesC02 = []string{"sub-b", "GSLB_BLACKHOLE", "sub-a", "sub-c"}

// refSubC02: names sorted, sub-clusters with weight>0 partition [0,W) by cumulative weight.
func refSubC02(sorted []string, gc gslb_conf.GslbClusterConf, r int) int {
	want, cum, found := -1, 0, false
	for j, nm := range sorted {
		if w := gc[nm]; w > 0 {
			cum += w
			if !found && r < cum {
				want, found = j, true
			}
		}
	}
	return want
}

// VerifC02_subcluster: Init (and optionally a following Reload) of a loader-accepted gslb conf under
// every map iteration order, then subClusterBalance(key) for every key hash.
func VerifC02_subcluster() {
	n := vrt.Range("subclusters", 1, vrt.Param("N", 3))
	wb := vrt.Param("WB", 256)
	gc := gslb_conf.GslbClusterConf{}
	for i := 0; i < n; i++ {
		w := vrt.Int("weight")
		vrt.Assume(w >= -1 && w < wb)
		gc[subNamesC02[i]] = w
	}
	vrt.Assume(gc.Check() == nil)
	bal := NewBalanceGslb("c")
	vrt.MapOrder(true)
	if vrt.Param("RELOAD", 0) == 1 {
		// start from another accepted conf over a shifted name set, then reload to gc
		g0 := gslb_conf.GslbClusterConf{}
		for i := 1; i <= n; i++ {
			w := vrt.Int("weight0")
			vrt.Assume(w >= -1 && w < wb)
			g0[subNamesC02[i%4]] = w
		}
		vrt.Assume(g0.Check() == nil)
		vrt.Assert(bal.Init(g0) == nil, "C02/init-accepts-checked-conf")
		vrt.Assert(bal.Reload(gc) == nil, "C02/reload-accepts-checked-conf")
	} else {
		vrt.Assert(bal.Init(gc) == nil, "C02/init-accepts-checked-conf")
	}
	vrt.MapOrder(false)

	sorted := append([]string{}, subNamesC02[:n]...)
	sort.Strings(sorted)
	total := 0
	for _, nm := range sorted {
		if w := gc[nm]; w > 0 {
			total += w
		}
	}
	vrt.Assert(bal.totalWeight == total, "C02/gslb-total-weight")
	key := vrt.Bytes("key", 4)
	sub, err := bal.subClusterBalance(key)
	vrt.Assert(err == nil && sub != nil, "C02/gslb-selects")
	// after the assertion above the two totals are equal; using the code's term keeps one remainder
	r := int(murmur3.Sum64(key) % uint64(bal.totalWeight))
	want := refSubC02(sorted, gc, r)
	got := -1
	for j, nm := range sorted {
		if sub.Name == nm {
			got = j
		}
	}
	vrt.Assert(got == want, "C02/gslb-target-is-weight-partition-of-hash")
}

// VerifC02_hashkey: getHashKey returns the documented source per strategy; random only when empty.
func VerifC02_hashkey() {
	bal := NewBalanceGslb("c")
	strategy := vrt.Choose("strategy", 4)
	header := "X-Client-Id"
	bal.hashConf.HashStrategy = &strategy
	bal.hashConf.HashHeader = &header
	ipLen := vrt.Choose("iplen", 2) * 4 // absent or IPv4
	hvLen := vrt.Range("headerlen", 0, vrt.Param("L", 2))
	uriLen := vrt.Range("urilen", 0, vrt.Param("L", 2))
	ip := vrt.Bytes("ip", ipLen)
	hv := vrt.Str("hv", hvLen)
	uri := vrt.Str("uri", uriLen)
	req := &bfe_basic.Request{HttpRequest: &bfe_http.Request{Header: bfe_http.Header{}, RequestURI: uri}}
	if ipLen > 0 {
		req.ClientAddr = &net.TCPAddr{IP: net.IP(ip)}
	}
	if hvLen > 0 {
		req.HttpRequest.Header.Set(header, hv)
	}
	key := bal.getHashKey(req)
	var src []byte
	switch strategy {
	case cluster_conf.ClientIdOnly:
		src = []byte(hv)
	case cluster_conf.ClientIpOnly:
		src = ip
	case cluster_conf.ClientIdPreferred:
		src = []byte(hv)
		if hvLen == 0 {
			src = ip
		}
	case cluster_conf.RequestURI:
		src = []byte(uri)
	}
	if len(src) == 0 {
		vrt.Assert(len(key) == 8, "C02/hashkey-random-when-source-empty")
		return
	}
	vrt.Assert(len(key) == len(src), "C02/hashkey-is-documented-source")
	for i := range src {
		if i < len(key) {
			vrt.Assert(key[i] == src[i], "C02/hashkey-is-documented-source")
		}
	}
}

// VerifC02_reload: same body as VerifC02_subcluster, registered with RELOAD=1.
func VerifC02_reload() { VerifC02_subcluster() }

// VerifC02_hashkey_cookie: hash header of the form "Cookie: UID": the key is the value of cookie UID
// (symbolic value bytes restricted to [a-z0-9], which need no quoting/splitting in a Cookie header);
// without that cookie ClientIdOnly falls back to random, ClientIdPreferred to the client IP.
func VerifC02_hashkey_cookie() {
	bal := NewBalanceGslb("c")
	strategy := cluster_conf.ClientIdOnly
	if vrt.Choose("preferred", 2) == 1 {
		strategy = cluster_conf.ClientIdPreferred
	}
	header := "Cookie: UID"
	bal.hashConf.HashStrategy = &strategy
	bal.hashConf.HashHeader = &header
	n := vrt.Range("valuelen", 1, vrt.Param("L", 2))
	val := vrt.Bytes("cookie", n)
	for _, c := range val {
		vrt.Assume((c >= 'a' && c <= 'z') || (c >= '0' && c <= '9'))
	}
	ip := vrt.Bytes("ip", 4)
	req := &bfe_basic.Request{HttpRequest: &bfe_http.Request{Header: bfe_http.Header{}}}
	req.ClientAddr = &net.TCPAddr{IP: net.IP(ip)}
	has := vrt.Choose("hascookie", 2) == 1
	if has {
		req.HttpRequest.Header.Set("Cookie", "other=1; UID="+string(val))
	} else {
		req.HttpRequest.Header.Set("Cookie", "other=1")
	}
	key := bal.getHashKey(req)
	src := val
	if !has {
		if strategy == cluster_conf.ClientIdOnly {
			vrt.Assert(len(key) == 8, "C02/hashkey-random-when-source-empty")
			return
		}
		src = ip
	}
	vrt.Assert(len(key) == len(src), "C02/hashkey-cookie-is-documented-source")
	for i := range src {
		if i < len(key) {
			vrt.Assert(key[i] == src[i], "C02/hashkey-cookie-is-documented-source")
		}
	}
}

// reloadShapesC02: (names before) -> (names after) of a gslb reload. Every shape ADDS at least one name
// that sorts before a surviving one, so Reload's "kept first, new ones appended, then sort" really
// permutes the list (the shifted name sets of VerifC02_reload only append names that sort last).
var reloadShapesC02 = [][2][]string{
	{{"sub-b"}, {"sub-a", "sub-b"}},
	{{"sub-b"}, {"GSLB_BLACKHOLE", "sub-b"}},
	{{"sub-b", "sub-c"}, {"sub-a", "sub-c"}},
	{{"sub-a", "sub-c"}, {"sub-a", "sub-b", "sub-c"}},
	{{"sub-c"}, {"sub-a", "sub-b", "sub-c"}},
}

func drawGslbConfC02(names []string, wb int) gslb_conf.GslbClusterConf {
	gc := gslb_conf.GslbClusterConf{}
	for _, nm := range names {
		w := vrt.Int("weight")
		vrt.Assume(w >= -1 && w < wb)
		gc[nm] = w
	}
	vrt.Assume(gc.Check() == nil)
	return gc
}

// VerifC02_reload_added: Init(conf0) then Reload(conf) where the reload adds sub-cluster names sorting
// before surviving ones (every map order): the target is still the name-sorted cumulative-weight
// partition of hash mod W for the NEW conf only — a fixed function of key and eligible set, whatever the
// reload history (incl. the `single` shortcut when exactly one weight is positive).
func VerifC02_reload_added() {
	shape := reloadShapesC02[vrt.Choose("shape", vrt.Param("SHAPES", len(reloadShapesC02)))]
	wb := vrt.Param("WB", 256)
	g0 := drawGslbConfC02(shape[0], wb)
	gc := drawGslbConfC02(shape[1], wb)
	// decide the sign pattern of the new weights by forking (a store inside the branch): Reload itself
	// accumulates total/available-count without forking, and queries about one remainder by an
	// if-then-else sum of three weights are ~50x slower than with the pattern fixed
	pos := make([]bool, len(shape[1]))
	for i, nm := range shape[1] {
		if gc[nm] > 0 {
			pos[i] = true
		}
	}
	_ = pos
	bal := NewBalanceGslb("c")
	vrt.MapOrder(true)
	vrt.Assert(bal.Init(g0) == nil, "C02/init-accepts-checked-conf")
	vrt.Assert(bal.Reload(gc) == nil, "C02/reload-accepts-checked-conf")
	vrt.MapOrder(false)

	sorted := append([]string{}, shape[1]...)
	sort.Strings(sorted)
	total := 0
	for _, nm := range sorted {
		if w := gc[nm]; w > 0 {
			total += w
		}
	}
	vrt.Assert(bal.totalWeight == total, "C02/gslb-total-weight")
	key := vrt.Bytes("key", 4)
	sub, err := bal.subClusterBalance(key)
	vrt.Assert(err == nil && sub != nil, "C02/gslb-selects")
	r := int(murmur3.Sum64(key) % uint64(bal.totalWeight))
	want := refSubC02(sorted, gc, r)
	got := -1
	for j, nm := range sorted {
		if sub.Name == nm {
			got = j
		}
	}
	vrt.Assert(got == want, "C02/gslb-target-after-reload-is-weight-partition-of-hash")
}
