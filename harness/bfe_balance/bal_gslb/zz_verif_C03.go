package bal_gslb

// C03 (cluster level) — BalanceGslb.Balance never returns an ineligible backend, never sends
// first-choice traffic to a sub-cluster without positive weight, rejects blackhole traffic, and
// reports an error exactly when the retry stage has no eligible target.

import (
	"net"

	"github.com/bfenetworks/bfe/bfe_balance/backend"
	"github.com/bfenetworks/bfe/bfe_balance/bal_slb"
	"github.com/bfenetworks/bfe/bfe_basic"
	"github.com/bfenetworks/bfe/bfe_config/bfe_cluster_conf/cluster_conf"
	"github.com/bfenetworks/bfe/bfe_config/bfe_cluster_conf/cluster_table_conf"
	"github.com/bfenetworks/bfe/bfe_config/bfe_cluster_conf/gslb_conf"
	vrt "github.com/bfenetworks/bfe/zz_vrt"
)

var subNamesC03 = []string{"s1", "s0", "s2"}
var addrsC03 = []string{"10.0.0.2", "10.0.0.1", "10.0.0.3"}

func mkBackendsC03(sub string, n int) cluster_table_conf.SubClusterBackend {
	var conf cluster_table_conf.SubClusterBackend
	for i := 0; i < n; i++ {
		name, addr, port, wt := sub+"-b", addrsC03[i], 80, 1
		conf = append(conf, &cluster_table_conf.BackendConf{Name: &name, Addr: &addr, Port: &port, Weight: &wt})
	}
	return conf
}

type subInfoC03 struct {
	sub   *SubCluster
	bk    []*backend.BfeBackend
	elig  []bool
	anyEl bool
}

// buildC03 makes a cluster with ns normal sub-clusters (+ optionally GSLB_BLACKHOLE), each with
// 0..NB backends, through the real Init/BackendInit, then puts every backend into an arbitrary state.
func buildC03() (*BalanceGslb, []subInfoC03) {
	ns := vrt.Range("subclusters", vrt.Param("NSLO", 1), vrt.Param("NS", 2))
	nbMin, nbMax := vrt.Param("NBLO", 0), vrt.Param("NB", 2)
	withBH := false
	switch vrt.Param("BH", 2) { // 0 never, 1 always, 2 both
	case 1:
		withBH = true
	case 2:
		withBH = vrt.Choose("blackhole", 2) == 1
	}
	names := append([]string{}, subNamesC03[:ns]...)
	if withBH {
		names = append(names, "GSLB_BLACKHOLE")
	}
	gc := gslb_conf.GslbClusterConf{}
	cb := cluster_table_conf.ClusterBackend{}
	for _, nm := range names {
		w := vrt.Int("subweight")
		vrt.Assume(w >= -1 && w <= 3)
		gc[nm] = w
		nb := nbMax // the blackhole entry always gets backends, so that forwarding to it would be visible
		if nm != "GSLB_BLACKHOLE" {
			nb = vrt.Range("backends", nbMin, nbMax)
		}
		if nb > 0 {
			cb[nm] = mkBackendsC03(nm, nb)
		}
	}
	// what the gslb loader enforces: some sub-cluster has positive weight
	vrt.Assume(gc.Check() == nil)
	bal := NewBalanceGslb("c")
	err := bal.Init(gc)
	vrt.Assert(err == nil, "C03/init-accepts-checked-conf")
	bal.BackendInit(cb)
	infos := make([]subInfoC03, len(bal.subClusters))
	for si, sub := range bal.subClusters {
		inf := subInfoC03{sub: sub}
		for i := 0; i < sub.Len(); i++ {
			wt := vrt.Int("w")
			cur := vrt.Int("cur")
			c := vrt.Int("conn")
			av := vrt.Bool("avail")
			vrt.Assume(wt >= -1 && wt <= 3)
			vrt.Assume(c >= 0 && c <= 3)
			vrt.Assume(cur >= -1000 && cur <= 1000)
			bal_slb.VerifHelpSetRR(sub.backends, i, wt, cur)
			_, _, b := bal_slb.VerifHelpGetRR(sub.backends, i)
			backend.VerifHelpSetState(b, av, c)
			inf.bk = append(inf.bk, b)
			inf.elig = append(inf.elig, av && wt > 0)
			inf.anyEl = inf.anyEl || (av && wt > 0)
		}
		infos[si] = inf
	}
	return bal, infos
}

// VerifC03_subcluster: the first-choice sub-cluster always has positive weight.
func VerifC03_subcluster() {
	bal, _ := buildC03()
	key := vrt.Bytes("key", 4)
	sub, err := bal.subClusterBalance(key)
	vrt.Assert(err == nil && sub != nil, "C03/first-choice-exists")
	vrt.Assert(sub.weight > 0, "C03/first-choice-positive-weight")
}

// VerifC03_gslb: one Balance call, any retry stage, any mode (shape parameters from the registry).
func VerifC03_gslb() { gslbC03() }

// VerifC03_cross: same body, registered with three normal sub-clusters to reach a cross-retry stage
// that has several candidate sub-clusters.
func VerifC03_cross() { gslbC03() }

func gslbC03() {
	bal, infos := buildC03()
	rm, cr := vrt.Int("retryMax"), vrt.Int("crossRetry")
	vrt.Assume(rm >= -1 && rm <= 2 && cr >= -1 && cr <= 1)
	bal.retryMax, bal.crossRetry = rm, cr
	mode := vrt.Param("MODE", -1) // 0 WRR (smooth), 1 WLC (smooth), 2 session sticky, -1 all
	if mode < 0 {
		mode = vrt.Choose("mode", 3)
	}
	sticky := mode == 2
	bal.hashConf.SessionSticky = &sticky
	if mode == 1 {
		bal.BalanceMode = cluster_conf.BalanceModeWlc
	}
	req := &bfe_basic.Request{Stat: &bfe_basic.RequestStat{}}
	req.ClientAddr = &net.TCPAddr{IP: net.IP(vrt.Bytes("ip", 4))}
	rt := vrt.Int("retryTime")
	vrt.Assume(rt >= 0 && rt <= 4)
	req.RetryTime = rt

	// first choice, computed with the same key (murmur3 is functionally consistent)
	fc, ferr := bal.subClusterBalance(bal.getHashKey(req))
	vrt.Assert(ferr == nil && fc != nil, "C03/first-choice-exists")
	fi := -1
	for i := range infos {
		if infos[i].sub == fc {
			fi = i
		}
	}
	vrt.Assert(fi >= 0, "C03/first-choice-member")

	b, err := bal.Balance(req)

	// generic safety of a successful result
	if err == nil {
		vrt.Assert(b != nil, "C03/returns-backend")
		hit := false
		for si := range infos {
			for i := range infos[si].bk {
				if infos[si].bk[i] == b {
					hit = true
					vrt.Assert(infos[si].elig[i], "C03/backend-eligible")
					vrt.Assert(infos[si].sub.sType != TypeGslbBlackhole, "C03/never-forwards-to-blackhole")
					if !req.Stat.IsCrossCluster {
						vrt.Assert(si == fi, "C03/in-cluster-result-from-first-choice")
					} else {
						vrt.Assert(si != fi, "C03/cross-result-from-other-subcluster")
					}
				}
			}
		}
		vrt.Assert(hit, "C03/backend-member")
	}
	if err == bfe_basic.ErrGslbBlackhole {
		vrt.Assert(b == nil, "C03/blackhole-returns-no-backend")
	}

	// staged reference: when must the call fail / succeed
	switch {
	case rt > rm+cr:
		vrt.Assert(err != nil, "C03/retries-exhausted-is-error")
	case fc.sType == TypeGslbBlackhole:
		vrt.Assert(err == bfe_basic.ErrGslbBlackhole && b == nil, "C03/blackhole-rejected")
	case rt <= rm && infos[fi].anyEl:
		vrt.Assert(err == nil, "C03/first-choice-eligible-is-success")
		vrt.Assert(fc.weight > 0, "C03/first-choice-positive-weight")
	case cr <= 0:
		vrt.Assert(err != nil, "C03/no-eligible-is-error")
	default:
		// cross-sub-cluster stage: candidates are the other non-blackhole sub-clusters the
		// implementation admits (weight >= 0)
		candAny, candAll, cands := false, true, 0
		for si := range infos {
			s := infos[si].sub
			if si == fi || s.sType == TypeGslbBlackhole || s.weight < 0 {
				continue
			}
			cands++
			candAny = candAny || infos[si].anyEl
			candAll = candAll && infos[si].anyEl
		}
		if !candAny {
			vrt.Assert(err != nil, "C03/no-eligible-is-error")
		} else {
			vrt.Known("C03-cross-retry-picks-dead-subcluster", cands > 1 && !candAll)
			vrt.Assert(err == nil, "C03/cross-eligible-is-success")
		}
	}
}

// reloadShapesC03: (names before) -> (names after) of a gslb reload; every shape adds a name that sorts
// before a surviving one (Reload keeps survivors first, appends new names, then sorts).
var reloadShapesC03 = [][2][]string{
	{{"s1"}, {"s0", "s1"}},
	{{"s1"}, {"GSLB_BLACKHOLE", "s1"}},
	{{"s1", "s2"}, {"s0", "s2"}},
	{{"s0", "s2"}, {"s0", "s1", "s2"}},
}

// VerifC03_reload: the first-choice rule after a reload history. Init(conf0)+BackendInit, then
// Reload(conf)+BackendReload with a conf that adds sub-clusters (one available backend each, so every
// sub-cluster that has backends has an eligible one): for every key the first-choice sub-cluster has
// positive weight, and a first-try Balance forwards only into a positive-weight, non-blackhole
// sub-cluster (ErrGslbBlackhole exactly when the first choice is the blackhole).
func VerifC03_reload() {
	shape := reloadShapesC03[vrt.Choose("shape", vrt.Param("SHAPES", len(reloadShapesC03)))]
	draw := func(names []string) gslb_conf.GslbClusterConf {
		gc := gslb_conf.GslbClusterConf{}
		for _, nm := range names {
			w := vrt.Int("subweight")
			vrt.Assume(w >= -1 && w <= 3)
			gc[nm] = w
		}
		vrt.Assume(gc.Check() == nil) // what the gslb loader enforces
		return gc
	}
	g0, gc := draw(shape[0]), draw(shape[1])
	cb := cluster_table_conf.ClusterBackend{}
	for _, nm := range []string{"s0", "s1", "s2", "GSLB_BLACKHOLE"} {
		cb[nm] = mkBackendsC03(nm, 1)
	}
	bal := NewBalanceGslb("c")
	vrt.MapOrder(true)
	vrt.Assert(bal.Init(g0) == nil, "C03/init-accepts-checked-conf")
	bal.BackendInit(cb)
	vrt.Assert(bal.Reload(gc) == nil, "C03/reload-accepts-checked-conf")
	bal.BackendReload(cb)
	vrt.MapOrder(false)

	req := &bfe_basic.Request{Stat: &bfe_basic.RequestStat{}}
	req.ClientAddr = &net.TCPAddr{IP: net.IP(vrt.Bytes("ip", 4))}
	// With one available positive-weight backend in every sub-cluster, a first try (RetryTime 0 <=
	// retryMax) succeeds inside the first-choice sub-cluster unless that is the blackhole, so the first
	// choice is observable from the result of the one Balance call.
	b, err := bal.Balance(req)
	if err != nil {
		// the only admissible failure: the request was assigned to the blackhole, which then must
		// carry positive weight
		vrt.Assert(err == bfe_basic.ErrGslbBlackhole && b == nil, "C03/blackhole-rejected")
		bw, listed := gc["GSLB_BLACKHOLE"]
		vrt.Assert(listed && bw > 0, "C03/first-choice-positive-weight-after-reload")
		return
	}
	vrt.Assert(b != nil, "C03/first-choice-eligible-is-success")
	hit := false
	for _, sub := range bal.subClusters {
		for i := 0; i < sub.Len(); i++ {
			if _, _, bk := bal_slb.VerifHelpGetRR(sub.backends, i); bk == b {
				hit = true // sub.Name is concrete here
				vrt.Assert(sub.sType != TypeGslbBlackhole, "C03/never-forwards-to-blackhole")
				vrt.Assert(sub.weight > 0 && gc[sub.Name] > 0, "C03/first-choice-positive-weight-after-reload")
			}
		}
	}
	vrt.Assert(hit, "C03/backend-member")
}
