package backend

// C07 (backend side) — the active-connection count of a BfeBackend follows the requests assigned to it
// and nothing else: the health machinery (request failures that take the backend out of rotation, the
// checker goroutine that brings it back) must leave it alone. A backend is usually marked down while
// requests are still running on it and may be revived before they finish.
//
// Events: a request is assigned (IncConnNum, what clusterInvoke does after the forward phase), an
// assigned request leaves (DecConnNum: clusterInvoke on a backend change / FinishReq), an attempt
// fails (OnFail) or succeeds (OnSuccess), and a run of the REAL checker goroutine body: the
// `go check(...)` recorded by UpdateStatus is run synchronously with vrt.RunGo until it ends (the
// net.Dial stub connects, so it ends by SetRestart(true); SetAvail(true) after SuccNum probes; the
// first probe may be chosen to fail: CheckTimeout set -> net.DialTimeout stub fails).
// Oracle after every event: ConnNum() == number of assigned requests (hence never negative, and zero
// when all have left).

import (
	"github.com/bfenetworks/bfe/bfe_config/bfe_cluster_conf/cluster_conf"
	"github.com/bfenetworks/bfe/bfe_config/bfe_cluster_conf/cluster_table_conf"
	vrt "github.com/bfenetworks/bfe/zz_vrt"
)

type stC07 struct {
	confOK, confFail *cluster_conf.BackendCheck
	inChecker        bool
	iter             int // iterations of the running checker
}

var curC07 *stC07

func mkCheckConfC07(fail, succ int, timeout *int) *cluster_conf.BackendCheck {
	schem, interval := "tcp", 1
	f, s := fail, succ
	return &cluster_conf.BackendCheck{Schem: &schem, FailNum: &f, SuccNum: &s, CheckTimeout: timeout, CheckInterval: &interval}
}

// fetchC07 is the CheckConfFetcher. The checker asks for the conf at the top of every iteration: the
// conf handed out decides the outcome of the coming probe.
func fetchC07(cluster string) *cluster_conf.BackendCheck {
	s := curC07
	if s.inChecker {
		s.iter++
		if s.iter == 1 && vrt.Choose("first-probe-fails", 2) == 1 {
			return s.confFail
		}
	}
	return s.confOK
}

func VerifC07_backendHealth() {
	f, sn := vrt.Int("FailNum"), vrt.Int("SuccNum")
	vrt.Assume(f >= 1 && f <= vrt.Param("T", 2) && sn >= 1 && sn <= vrt.Param("T", 2))
	timeout := 1
	s := &stC07{confOK: mkCheckConfC07(f, sn, nil), confFail: mkCheckConfC07(f, sn, &timeout)}
	curC07 = s
	SetCheckConfFetcher(fetchC07)
	name, addr, port, wt := "b", "10.0.0.1", 80, 1
	b := NewBfeBackend()
	b.Init("sc", &cluster_table_conf.BackendConf{Name: &name, Addr: &addr, Port: &port, Weight: &wt})
	vrt.Assert(b.ConnNum() == 0, "C07/backend-initially-zero")

	inflight, ran := 0, 0
	for k := 0; k < vrt.Param("EV", 5); k++ {
		switch vrt.Choose("event", 5) {
		case 0: // a request is assigned to the backend
			if inflight >= vrt.Param("INFLIGHT", 2) {
				return
			}
			b.IncConnNum()
			inflight++
		case 1: // an assigned request finishes or moves to another backend
			if inflight == 0 {
				return
			}
			b.DecConnNum()
			inflight--
		case 2: // an attempt on the backend failed
			b.OnFail("c")
		case 3: // an attempt on the backend succeeded
			b.OnSuccess()
		case 4: // the health checker started by a status flip runs until it brings the backend back
			if ran >= vrt.GoCount() {
				return
			}
			s.inChecker, s.iter = true, 0
			vrt.RunGo(ran)
			s.inChecker = false
			ran++
			if b.Avail() && inflight > 0 {
				vrt.Cover("C07/backend-revived-with-requests-in-flight")
			}
		}
		c := b.ConnNum()
		vrt.Assert(c >= 0, "C07/backend-never-negative")
		vrt.Assert(c == inflight, "C07/health-events-keep-count")
	}
}
