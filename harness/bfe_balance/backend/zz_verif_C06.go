package backend

// C06 — backend health state machine: out of rotation exactly when consecutive request failures reach
// FailNum; at most one checker while out; back only after SuccNum consecutive successful checks; a
// released backend stops being checked.
//
// The real check() goroutine body is run synchronously (vrt.RunGo on the recorded `go check(...)`).
// Its only call into the environment at the top of every loop iteration is getCheckConf(), i.e. the
// harness-provided CheckConfFetcher: that is the interleaving point where the harness injects
// concurrent request events, chooses the outcome of the coming probe (CheckTimeout nil -> net.Dial
// stub connects, set -> net.DialTimeout stub fails) and checks the effect of the previous iteration.

import (
	"github.com/bfenetworks/bfe/bfe_config/bfe_cluster_conf/cluster_conf"
	"github.com/bfenetworks/bfe/bfe_config/bfe_cluster_conf/cluster_table_conf"
	vrt "github.com/bfenetworks/bfe/zz_vrt"
)

type stopC06 struct{}

type stC06 struct {
	b          *BfeBackend
	failNum    int // FailNum threshold (symbolic)
	succNum    int // SuccNum threshold (symbolic)
	budget     int // remaining events
	refAvail   bool
	refFail    int // consecutive request failures
	refSucc    int // consecutive successful probes of the running checker
	spawned    int // go check(...) statements seen so far
	live       int // spawned and not finished checkers
	released   bool
	pendingUpd int // AddFailNum sections whose UpdateStatus section has not run yet
	inChecker  bool
	relSeen    bool // release happened before the select of the coming iteration
	expectDone bool // the last probe must have ended the checker
	confOK     *cluster_conf.BackendCheck
	confFail   *cluster_conf.BackendCheck
	next       *cluster_conf.BackendCheck
}

var curC06 *stC06

func mkCheckConfC06(fail, succ int, timeout *int) *cluster_conf.BackendCheck {
	schem, interval := "tcp", 1
	f, s := fail, succ
	return &cluster_conf.BackendCheck{Schem: &schem, FailNum: &f, SuccNum: &s, CheckTimeout: timeout, CheckInterval: &interval}
}

// noteSpawnC06 is called after every request failure: a new `go check` is legal only when no checker is live.
func (s *stC06) noteSpawnC06(flipped bool) {
	n := vrt.GoCount()
	if n > s.spawned {
		vrt.Assert(s.live == 0, "C06/at-most-one-checker")
		vrt.Assert(n == s.spawned+1, "C06/at-most-one-checker")
		s.live++
		s.spawned = n
	} else {
		vrt.Assert(!flipped, "C06/checker-started-when-taken-out")
	}
}

func (s *stC06) failC06() {
	s.b.OnFail("c")
	s.refFail++
	flipped := false
	if s.refFail >= s.failNum && s.refAvail {
		s.refAvail = false
		flipped = true
	}
	vrt.Assert(s.b.Avail() == s.refAvail, "C06/avail-follows-thresholds")
	s.noteSpawnC06(flipped)
}

// A request failure split into its two lock sections (two request goroutines may interleave them).
func (s *stC06) addFailC06() {
	s.b.AddFailNum()
	s.refFail++
	s.pendingUpd++
}

func (s *stC06) updateStatusC06() {
	UpdateStatus(s.b, "c")
	s.pendingUpd--
	flipped := false
	if s.refFail >= s.failNum && s.refAvail {
		s.refAvail = false
		flipped = true
	}
	vrt.Assert(s.b.Avail() == s.refAvail, "C06/avail-follows-thresholds")
	s.noteSpawnC06(flipped)
}

func (s *stC06) successC06() {
	s.b.OnSuccess()
	s.refFail = 0
	vrt.Assert(s.b.Avail() == s.refAvail, "C06/avail-follows-thresholds")
}

func (s *stC06) releaseC06() {
	s.b.Release()
	s.released = true
}

// hookC06 runs at the top of every checker iteration (after its select on the close channel).
func (s *stC06) hookC06() {
	vrt.Assert(!s.relSeen, "C06/released-backend-not-checked")
	vrt.Assert(!s.expectDone, "C06/checker-stops-after-recovery")
	vrt.Assert(s.b.Avail() == s.refAvail, "C06/avail-follows-thresholds")
	if s.budget <= 0 {
		panic(stopC06{})
	}
	s.budget--
	// a concurrent request event between two probes (its own getCheckConf call is not a checker step)
	s.inChecker = false
	switch vrt.Choose("during-check", 4) {
	case 1:
		s.failC06()
	case 2:
		s.successC06()
	case 3:
		if !s.released {
			s.releaseC06()
		}
	}
	s.inChecker = true
	s.relSeen = s.released
	// outcome of the coming probe
	if vrt.Choose("probe", 2) == 1 {
		s.next = s.confOK
		s.refSucc++
		if s.refSucc >= s.succNum {
			s.refSucc = 0
			s.refAvail = true
			s.refFail = 0
			s.expectDone = true
		}
	} else {
		s.next = s.confFail
		s.refSucc = 0
	}
}

func fetchC06(cluster string) *cluster_conf.BackendCheck {
	s := curC06
	if s.inChecker {
		s.hookC06()
	}
	return s.next
}

// runCheckerC06 runs the i-th recorded checker; returns false when the event budget stopped it.
func (s *stC06) runCheckerC06(i int) (finished bool) {
	defer func() {
		s.inChecker = false
		if r := recover(); r != nil {
			if _, ok := r.(stopC06); !ok {
				panic(r)
			}
			finished = false
		}
	}()
	s.inChecker = true
	s.relSeen = s.released
	s.expectDone = false
	s.refSucc = 0
	vrt.RunGo(i)
	return true
}

// VerifC06_split: same machine, registered with SPLIT=1 (request failures as two separate lock sections).
func VerifC06_split() { VerifC06_machine() }

func VerifC06_machine() {
	f, sn := vrt.Int("FailNum"), vrt.Int("SuccNum")
	vrt.Assume(f >= 1 && f <= vrt.Param("T", 3) && sn >= 1 && sn <= vrt.Param("T", 3))
	timeout := 1
	s := &stC06{failNum: f, succNum: sn, budget: vrt.Param("K", 5), refAvail: true}
	s.confOK = mkCheckConfC06(f, sn, nil)
	s.confFail = mkCheckConfC06(f, sn, &timeout)
	s.next = s.confOK
	curC06 = s
	SetCheckConfFetcher(fetchC06)
	name, addr, port, wt := "b", "10.0.0.1", 80, 1
	s.b = NewBfeBackend()
	s.b.Init("sc", &cluster_table_conf.BackendConf{Name: &name, Addr: &addr, Port: &port, Weight: &wt})
	ran := 0
	for s.budget > 0 {
		s.budget--
		nev := 4
		if vrt.Param("SPLIT", 0) == 1 {
			nev = 6
		}
		ev := vrt.Choose("event", nev)
		switch {
		case ev == 4:
			s.addFailC06()
		case ev == 5 && s.pendingUpd > 0:
			s.updateStatusC06()
		case ev == 0:
			s.failC06()
		case ev == 1:
			s.successC06()
		case ev == 2 && !s.released:
			s.releaseC06()
		case ev == 3 && ran < s.spawned:
			fin := s.runCheckerC06(ran)
			ran++
			if !fin {
				return
			}
			s.live--
			vrt.Assert(s.expectDone || s.released, "C06/checker-ends-only-by-recovery-or-release")
			vrt.Assert(s.b.Avail() == s.refAvail, "C06/avail-follows-thresholds")
			if s.expectDone {
				vrt.Cover("C06/recovered")
			}
		default:
			return
		}
	}
	vrt.Assert(s.b.Avail() == s.refAvail, "C06/avail-follows-thresholds")
}
