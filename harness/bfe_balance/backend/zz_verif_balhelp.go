package backend

// Shared test-only accessors for the balancing harnesses (C02..C05, C09): they put a backend into an
// arbitrary (symbolic) state without going through branching setters. Not part of bfe.

// VerifHelpSetState stores availability and the active-connection count directly.
func VerifHelpSetState(b *BfeBackend, avail bool, connNum int) {
	b.avail = avail
	b.connNum = connNum
}

// VerifHelpCounters returns (failNum, succNum, connNum, restarted).
func VerifHelpCounters(b *BfeBackend) (int, int, int, bool) {
	return b.failNum, b.succNum, b.connNum, b.restarted
}

// VerifHelpSetCounters stores the health counters directly.
func VerifHelpSetCounters(b *BfeBackend, failNum, succNum int) {
	b.failNum = failNum
	b.succNum = succNum
}

// VerifHelpClosed reports whether the backend's close channel has been closed (Release called).
func VerifHelpClosed(b *BfeBackend) bool {
	select {
	case <-b.closeChan:
		return true
	default:
		return false
	}
}
