package bfe_balance

// C09 (table level) — BalTable.BalTableReload over histories of configurations: backends whose
// (cluster, sub-cluster, address) persists keep identity and state and are not released; backends of
// removed clusters / sub-clusters / addresses are released exactly once (a double close panics).

import (
	"github.com/bfenetworks/bfe/bfe_balance/backend"
	"github.com/bfenetworks/bfe/bfe_balance/bal_gslb"
	"github.com/bfenetworks/bfe/bfe_balance/bal_slb"
	"github.com/bfenetworks/bfe/bfe_config/bfe_cluster_conf/cluster_table_conf"
	"github.com/bfenetworks/bfe/bfe_config/bfe_cluster_conf/gslb_conf"
	vrt "github.com/bfenetworks/bfe/zz_vrt"
)

var clustersC09 = []string{"c0", "c1"}
var subsC09 = []string{"s0", "s1"}
var addrsC09 = []string{"10.0.0.1", "10.0.0.2"}

// shapesC09[k][cluster][sub] = bit mask of configured addresses (0 = sub-cluster absent; a cluster
// with no sub-cluster is absent).
var shapesC09 = [][2][2]int{
	{{1, 0}, {0, 0}},
	{{3, 0}, {0, 0}},
	{{1, 1}, {0, 0}},
	{{2, 3}, {0, 0}},
	{{1, 0}, {1, 0}},
	{{0, 2}, {3, 1}},
}

type entC09 struct {
	key   string
	b     *backend.BfeBackend
	avail bool
	conn  int
}

func drawConfC09() (gslb_conf.GslbConf, cluster_table_conf.ClusterTableConf, map[string]bool) {
	shape := shapesC09[vrt.Choose("shape", vrt.Param("SHAPES", 6))]
	gcs := gslb_conf.GslbClustersConf{}
	all := cluster_table_conf.AllClusterBackend{}
	keys := map[string]bool{}
	for c := 0; c < 2; c++ {
		if shape[c][0] == 0 && shape[c][1] == 0 {
			continue
		}
		gc := gslb_conf.GslbClusterConf{}
		cb := cluster_table_conf.ClusterBackend{}
		for s := 0; s < 2; s++ {
			if shape[c][s] == 0 {
				continue
			}
			sw := vrt.Int("subweight")
			vrt.Assume(sw >= -1 && sw <= 3)
			gc[subsC09[s]] = sw
			var list cluster_table_conf.SubClusterBackend
			for a := 0; a < 2; a++ {
				if shape[c][s]&(1<<uint(a)) == 0 {
					continue
				}
				name, addr, port := "b", addrsC09[a], 80
				wt := vrt.Int("w")
				vrt.Assume(wt >= -1 && wt <= 3)
				list = append(list, &cluster_table_conf.BackendConf{Name: &name, Addr: &addr, Port: &port, Weight: &wt})
				keys[clustersC09[c]+"/"+subsC09[s]+"/"+addr] = true
			}
			cb[subsC09[s]] = list
		}
		gcs[clustersC09[c]] = gc
		all[clustersC09[c]] = cb
	}
	host, ts, ver := "h", "t", "v"
	g := gslb_conf.GslbConf{Clusters: &gcs, Hostname: &host, Ts: &ts}
	b := cluster_table_conf.ClusterTableConf{Version: &ver, Config: &all}
	// what the loaders enforce
	vrt.Assume(gslb_conf.GslbConfCheck(g) == nil)
	vrt.Assume(cluster_table_conf.ClusterTableConfCheck(b) == nil)
	return g, b, keys
}

func walkC09(t *BalTable) []entC09 {
	var out []entC09
	for _, cn := range clustersC09 {
		bal, ok := t.balTable[cn]
		if !ok {
			continue
		}
		for _, sub := range bal_gslb.VerifHelpSubs(bal) {
			rr := bal_gslb.VerifHelpRR(sub)
			for i := 0; i < rr.Len(); i++ {
				_, _, b := bal_slb.VerifHelpGetRR(rr, i)
				out = append(out, entC09{key: cn + "/" + sub.Name + "/" + b.Addr, b: b})
			}
		}
	}
	return out
}

func VerifC09_table() {
	t := NewBalTable(nil)
	var prev []entC09
	for round := 0; round < vrt.Param("R", 2); round++ {
		for i := range prev {
			av, conn := vrt.Bool("avail"), vrt.Int("conn")
			vrt.Assume(conn >= 0 && conn <= 5)
			backend.VerifHelpSetState(prev[i].b, av, conn)
			prev[i].avail, prev[i].conn = av, conn
		}
		g, b, keys := drawConfC09()
		err := t.BalTableReload(g, b) // a double release would panic (close of closed channel)
		vrt.Assert(err == nil, "C09/table-reload-accepts-checked-conf")
		cur := walkC09(t)
		vrt.Assert(len(cur) == len(keys), "C09/table-is-new-conf")
		for _, e := range cur {
			vrt.Assert(keys[e.key], "C09/table-is-new-conf")
			vrt.Assert(!backend.VerifHelpClosed(e.b), "C09/table-listed-backend-not-released")
		}
		for _, p := range prev {
			var now *backend.BfeBackend
			for _, e := range cur {
				if e.key == p.key {
					now = e.b
				}
			}
			if keys[p.key] {
				vrt.Assert(now == p.b, "C09/table-survivor-keeps-identity")
				_, _, conn, _ := backend.VerifHelpCounters(p.b)
				vrt.Assert(p.b.Avail() == p.avail && conn == p.conn, "C09/table-survivor-keeps-state")
			} else {
				vrt.Assert(now == nil, "C09/table-removed-not-listed")
				vrt.Assert(backend.VerifHelpClosed(p.b), "C09/table-removed-released")
			}
		}
		prev = cur
	}
}
