package bal_slb

// C09 (instance level) — BalanceRR.Update: backends whose address persists keep identity, availability
// and counters; removed ones are released exactly once (a second close would panic) and are never
// selected again; added ones become selectable.

import (
	"github.com/bfenetworks/bfe/bfe_balance/backend"
	"github.com/bfenetworks/bfe/bfe_config/bfe_cluster_conf/cluster_table_conf"
	vrt "github.com/bfenetworks/bfe/zz_vrt"
)

var addrsC09 = []string{"10.0.0.2", "10.0.0.1", "10.0.0.3"}

// confC09 draws a loader-accepted backend list: a non-empty subset of the 3-address universe in a fixed
// order, optionally with the first present address listed twice (duplicate entry, other weight).
func confC09(allowDup bool) (conf cluster_table_conf.SubClusterBackend, present []bool, weight []int) {
	mask := vrt.Choose("present", 7) + 1
	present, weight = make([]bool, 3), make([]int, 3)
	add := func(a int) {
		name, addr, port := "b", addrsC09[a], 80
		wt := vrt.Int("w")
		vrt.Assume(wt >= -1 && wt <= 3)
		conf = append(conf, &cluster_table_conf.BackendConf{Name: &name, Addr: &addr, Port: &port, Weight: &wt})
		weight[a] = wt // the last entry of an address wins (confMapMake)
	}
	first := -1
	for a := 0; a < 3; a++ {
		if mask&(1<<uint(a)) != 0 {
			present[a] = true
			if first < 0 {
				first = a
			}
			add(a)
		}
	}
	if allowDup && vrt.Choose("dup", 2) == 1 {
		add(first)
	}
	vrt.Assume(conf.Check() == nil)
	return
}

type snapC09 struct {
	b                   *backend.BfeBackend
	addr                int
	avail, restarted    bool
	fail, succ, conn    int
}

func addrIndexC09(b *backend.BfeBackend) int {
	for a := range addrsC09 {
		if b.Addr == addrsC09[a] {
			return a
		}
	}
	return -1
}

func VerifC09_update() {
	dup := vrt.Param("DUP", 1) == 1
	brr := NewBalanceRR("sc")
	c0, _, _ := confC09(dup)
	brr.Init(c0)
	for round := 0; round < vrt.Param("R", 1); round++ {
		// arbitrary health/counter state before the reload
		var old []snapC09
		for _, x := range brr.backends {
			av, conn := vrt.Bool("avail"), vrt.Int("conn")
			fl, sc := vrt.Int("fail"), vrt.Int("succ")
			vrt.Assume(conn >= 0 && conn <= 5 && fl >= 0 && fl <= 5 && sc >= 0 && sc <= 5)
			backend.VerifHelpSetState(x.backend, av, conn)
			backend.VerifHelpSetCounters(x.backend, fl, sc)
			old = append(old, snapC09{b: x.backend, addr: addrIndexC09(x.backend), avail: av, fail: fl, succ: sc, conn: conn})
		}
		conf, present, weight := confC09(dup)
		brr.Update(conf) // a close of a closed channel would be reported as a panic

		// every previous backend either survives (address still configured; the first instance of an
		// address when the old list held duplicates) with its state, or is released
		seen := make([]bool, 3)
		for _, o := range old {
			inNew := false
			for _, x := range brr.backends {
				if x.backend == o.b {
					inNew = true
				}
			}
			closed := backend.VerifHelpClosed(o.b)
			vrt.Assert(inNew != closed, "C09/kept-xor-released")
			mustSurvive := present[o.addr] && !seen[o.addr]
			seen[o.addr] = true
			vrt.Assert(inNew == mustSurvive, "C09/survives-iff-address-persists")
			if inNew {
				fl, sc, conn, _ := backend.VerifHelpCounters(o.b)
				vrt.Assert(o.b.Avail() == o.avail, "C09/survivor-keeps-availability")
				vrt.Assert(fl == o.fail && sc == o.succ && conn == o.conn, "C09/survivor-keeps-counters")
			}
		}
		// the new list holds exactly the configured addresses, none of them released
		cnt := make([]int, 3)
		for _, x := range brr.backends {
			a := addrIndexC09(x.backend)
			cnt[a]++
			vrt.Assert(!backend.VerifHelpClosed(x.backend), "C09/listed-backend-not-released")
			vrt.Assert(x.weight == weight[a]*100, "C09/weight-from-new-conf")
			isOld := false
			for _, o := range old {
				if o.b == x.backend {
					isOld = true
				}
			}
			if !isOld {
				vrt.Assert(x.backend.Avail(), "C09/added-backend-available")
			}
		}
		for a := 0; a < 3; a++ {
			want := 0
			if present[a] {
				want = 1
			}
			vrt.Assert(cnt[a] == want, "C09/list-is-new-conf")
		}
		// a following selection never returns a removed backend; an added one can be selected
		b, err := brr.Balance(WrrSticky, vrt.Bytes("key", 4))
		if err == nil {
			member, added := false, true
			for _, x := range brr.backends {
				if x.backend == b {
					member = true
				}
			}
			for _, o := range old {
				if o.b == b {
					added = false
				}
			}
			vrt.Assert(member, "C09/selection-from-new-list")
			if added {
				vrt.Cover("C09/added-backend-selected")
			}
		}
	}
}
