package bal_slb

// C03 (instance level) — BalanceRR.Balance never returns an unavailable or non-positive-weight backend
// and reports an error exactly when no backend is eligible, for all five algorithms.

import (
	"github.com/spaolacci/murmur3"

	"github.com/bfenetworks/bfe/bfe_balance/backend"
	"github.com/bfenetworks/bfe/bfe_config/bfe_cluster_conf/cluster_table_conf"
	vrt "github.com/bfenetworks/bfe/zz_vrt"
)

var addrsC03 = []string{"10.0.0.3", "10.0.0.1", "10.0.0.4", "10.0.0.2"}
var namesC03 = []string{"b0", "b1", "b2", "b3"}

func mkConfC03(n int) cluster_table_conf.SubClusterBackend {
	var conf cluster_table_conf.SubClusterBackend
	for i := 0; i < n; i++ {
		name, addr, port, wt := namesC03[i], addrsC03[i], 80, 1
		conf = append(conf, &cluster_table_conf.BackendConf{Name: &name, Addr: &addr, Port: &port, Weight: &wt})
	}
	return conf
}

// findKeyC03 (native replay only) searches a key whose murmur3 hash agrees with the value the solver
// chose modulo every base up to 12 (= 4 backends x weight 3), whatever total the code under test uses.
func findKeyC03(want uint64) []byte {
	const l = 27720 // lcm(1..12)
	for x := uint32(0); ; x++ {
		k := []byte{byte(x), byte(x >> 8), byte(x >> 16), byte(x >> 24)}
		if murmur3.Sum64(k)%l == want%l {
			return k
		}
	}
}

// slbC03: one Balance call of the given algorithm from an arbitrary state.
func slbC03(algo int) {
	n := vrt.Range("n", 1, vrt.Param("N", 3))
	brr := NewBalanceRR("sc")
	brr.Init(mkConfC03(n))
	elig := make([]bool, 4)
	bk := make([]*backend.BfeBackend, 4) // identity before the call (stickyBalance sorts the list in place)
	any, negAvail := false, false
	for i := 0; i < n; i++ {
		wt := vrt.Int("w")
		cur := vrt.Int("cur")
		c := vrt.Int("conn")
		av := vrt.Bool("avail")
		vrt.Assume(wt >= -1 && wt <= 3)
		vrt.Assume(c >= 0 && c <= 3)
		vrt.Assume(cur >= -1000 && cur <= 1000)
		if algo == WrrSimple {
			// state invariant of the simple algorithm (kept by Init, UpdateWeight, initWeight and the
			// decrement): a backend without positive weight has no positive credit
			vrt.Assume(wt > 0 || cur <= 0)
		}
		brr.backends[i].weight = wt
		brr.backends[i].current = cur
		backend.VerifHelpSetState(brr.backends[i].backend, av, c)
		elig[i] = av && wt > 0
		bk[i] = brr.backends[i].backend
		any = any || elig[i]
		negAvail = negAvail || (av && wt < 0)
	}
	if algo == WrrSimple {
		brr.next = vrt.Choose("next", n)
		// an available backend with NEGATIVE weight and no eligible backend makes simpleBalance rescan
		// forever: that is the termination question decided (and reported) under C05, excluded here
		vrt.Assume(any || !negAvail)
	}
	var key []byte
	if algo == WrrSticky {
		key = vrt.Bytes("key", 4)
		if !vrt.Symbolic() {
			key = findKeyC03(vrt.U64("murmur"))
		}
	}
	b, err := brr.Balance(algo, key)
	vrt.Assert((err == nil) == any, "C03/slb-error-iff-none-eligible")
	if err == nil {
		vrt.Assert(b != nil, "C03/slb-returns-backend")
		hit := false
		for i := 0; i < n; i++ {
			if bk[i] == b {
				hit = true
				vrt.Assert(elig[i], "C03/slb-eligible")
			}
		}
		vrt.Assert(hit, "C03/slb-member")
	}
}

// VerifC03_slb: WrrSimple, WrrSmooth, WlcSmooth (deterministic algorithms).
func VerifC03_slb() {
	algos := []int{WrrSimple, WrrSmooth, WlcSmooth}
	slbC03(algos[vrt.Choose("algo", 3)])
}

// VerifC03_slb_sticky: WrrSticky for every key hash (murmur3 uninterpreted).
func VerifC03_slb_sticky() { slbC03(WrrSticky) }

// VerifC03_slb_random: WlcSimple (random tie-break nondeterministic).
func VerifC03_slb_random() { slbC03(WlcSimple) }
