package bal_slb

// C04 — weighted-least-connection mode picks a backend minimising connNum/weight among the eligible ones.

import (
	"math/bits"

	"github.com/bfenetworks/bfe/bfe_balance/backend"
	"github.com/bfenetworks/bfe/bfe_config/bfe_cluster_conf/cluster_table_conf"
	vrt "github.com/bfenetworks/bfe/zz_vrt"
)

var addrsC04 = []string{"10.0.0.1", "10.0.0.2", "10.0.0.3", "10.0.0.4"}
var namesC04 = []string{"b0", "b1", "b2", "b3"}

func mkConfC04(n int) cluster_table_conf.SubClusterBackend {
	var conf cluster_table_conf.SubClusterBackend
	for i := 0; i < n; i++ {
		name, addr, port, wt := namesC04[i], addrsC04[i], 80, 1
		conf = append(conf, &cluster_table_conf.BackendConf{Name: &name, Addr: &addr, Port: &port, Weight: &wt})
	}
	return conf
}

func indexOfC04(brr *BalanceRR, b *backend.BfeBackend) int {
	k := -1
	for i, x := range brr.backends {
		if x.backend == b {
			k = i
		}
	}
	return k
}

// le128C04 decides a*b <= c*d over the naturals (128-bit products; a,b,c,d >= 0), i.e. the
// cross-multiplied form of a/d <= c/b without any 64-bit wrap.
func le128C04(a, b, c, d int) bool {
	if vrt.Param("REF128", 0) == 0 {
		// operands are bounded by the harness (< 2^31), so the 64-bit unsigned products are exact
		return uint64(a)*uint64(b) <= uint64(c)*uint64(d)
	}
	h1, l1 := bits.Mul64(uint64(a), uint64(b))
	h2, l2 := bits.Mul64(uint64(c), uint64(d))
	return h1 < h2 || (h1 == h2 && l1 <= l2)
}

// stateC04 builds a BalanceRR with n backends in an arbitrary state: weight in [0,WB) (0 = ineligible), connNum in
// [0,CB), availability free, current free (bounded).
func stateC04(n int) (brr *BalanceRR, w, conn []int, elig []bool) {
	wb := vrt.Param("WB", 4096)
	cb := vrt.Param("CB", 4096)
	brr = NewBalanceRR("sc")
	brr.Init(mkConfC04(n))
	w, conn, elig = make([]int, 4), make([]int, 4), make([]bool, 4)
	for i := 0; i < n; i++ {
		// structurally narrow values (zero-extended 16/32-bit variables) keep the multipliers small
		var wt, c int
		if wb <= 65536 && cb <= 65536 {
			wt, c = int(vrt.U16("w")), int(vrt.U16("conn"))
		} else {
			wt, c = int(vrt.U32("w")), int(vrt.U32("conn"))
		}
		cur := vrt.Int("cur")
		av := vrt.Bool("avail")
		vrt.Assume(wt >= 0 && wt < wb)
		vrt.Assume(c >= 0 && c < cb)
		vrt.Assume(cur >= -100000000 && cur <= 100000000)
		brr.backends[i].weight = wt
		brr.backends[i].current = cur
		backend.VerifHelpSetState(brr.backends[i].backend, av, c)
		w[i], conn[i], elig[i] = wt, c, av && wt > 0
	}
	return
}

func checkC04(algo int, nlo, nhi int) {
	n := vrt.Range("n", nlo, nhi)
	brr, w, conn, elig := stateC04(n)
	any := false
	for i := 0; i < n; i++ {
		any = any || elig[i]
	}
	b, err := brr.Balance(algo, nil)
	if !any {
		vrt.Assert(err != nil, "C04/none-eligible-is-error")
		return
	}
	vrt.Assert(err == nil && b != nil, "C04/selects")
	hit := 0
	for k := 0; k < n; k++ {
		if brr.backends[k].backend != b {
			continue
		}
		// forks per chosen index: k is concrete below, so the products are the very terms the code built
		hit++
		vrt.Assert(elig[k], "C04/selects-eligible")
		for i := 0; i < n; i++ {
			// conn_k / w_k <= conn_i / w_i  <=>  conn_k * w_i <= conn_i * w_k   (weights > 0)
			if elig[i] {
				vrt.Assert(le128C04(conn[k], w[i], conn[i], w[k]), "C04/minimal-conn-per-weight")
			}
		}
	}
	vrt.Assert(hit == 1, "C04/selects-member")
}

// VerifC04_smooth: Balance(WlcSmooth) from an arbitrary state returns a minimal conn/weight backend.
func VerifC04_smooth() { checkC04(WlcSmooth, 1, vrt.Param("N", 3)) }

// VerifC04_simple: Balance(WlcSimple) (random tie-break, rand nondeterministic) returns a minimal one.
func VerifC04_simple() { checkC04(WlcSimple, 1, vrt.Param("N", 3)) }

// VerifC04_pair: two backends, wide value ranges: decides the cross-multiplication in compLCWeight
// against the 128-bit reference (REF128=1) without needing transitivity of the ratio order.
func VerifC04_pair() { checkC04(WlcSmooth, 2, 2) }

// ---- concrete boundary cases (near ties) ----

// nearTieC04: magnitudes n of the adjacent-fraction pair  A = n/(n+1)  >  B = (n-1)/n  (conns/weight);
// the cross-multiplied difference is exactly 1, the smallest gap two different ratios can have, and the
// ratio gap 1/(n(n+1)) ranges from 1e-2 down to 1e-12.
var nearTieC04 = []int{10, 100, 1000, 10000, 100000, 1000000}

// boundaryC04: every operand is CONCRETE (chosen with vrt.Choose), so an implementation that compares
// the ratios in floating point is executed concretely by the engine (symbolic floats are not encoded).
// Two backends A (conns n*s, weight (n+1)*s*100... ) and B with a strictly smaller ratio, in both list
// orders, optionally scaled: B is the unique minimum and must be chosen; A must not enter the tie set.
func boundaryC04(algo int) {
	n := nearTieC04[vrt.Choose("magnitude", len(nearTieC04))]
	scale := 1
	if vrt.Choose("scaled", 2) == 1 {
		scale = 100 // conf weights are multiplied by 100 by BackendRR.Init
	}
	bFirst := vrt.Choose("order", 2) == 1
	wA, cA := (n+1)*scale, n
	wB, cB := n*scale, n-1
	w, conn := []int{wA, wB}, []int{cA, cB}
	minIdx := 1
	if bFirst {
		w, conn = []int{wB, wA}, []int{cB, cA}
		minIdx = 0
	}
	brr := NewBalanceRR("sc")
	brr.Init(mkConfC04(2))
	for i := 0; i < 2; i++ {
		brr.backends[i].weight = w[i]
		brr.backends[i].current = w[i] // the non-minimal A has the larger weight: a smooth round among {A,B} would pick A
		backend.VerifHelpSetState(brr.backends[i].backend, true, conn[i])
	}
	b, err := brr.Balance(algo, nil)
	vrt.Assert(err == nil && b != nil, "C04/boundary-selects")
	k := indexOfC04(brr, b)
	vrt.Assert(k >= 0, "C04/boundary-selects-member")
	// conn_k * w_i <= conn_i * w_k for both i (exact in 64 bits: operands < 2^31)
	for i := 0; i < 2; i++ {
		if k >= 0 {
			vrt.Assert(uint64(conn[k])*uint64(w[i]) <= uint64(conn[i])*uint64(w[k]), "C04/boundary-minimal-conn-per-weight")
		}
	}
	vrt.Assert(k == minIdx, "C04/boundary-unique-minimum-chosen")
}

// VerifC04_boundary: WlcSmooth on the concrete near-tie pairs.
func VerifC04_boundary() { boundaryC04(WlcSmooth) }

// VerifC04_boundary_simple: WlcSimple on the same pairs (rand nondeterministic if a tie set forms).
func VerifC04_boundary_simple() { boundaryC04(WlcSimple) }
