package bal_slb

// C02 (instance level) — session-sticky selection is a fixed function of the key hash and of the set of
// eligible backends with their weights: independent of configuration order, and the residues of the
// hash modulo the total weight are split between the backends exactly in proportion to the weights.

import (
	"sort"

	"github.com/spaolacci/murmur3"

	"github.com/bfenetworks/bfe/bfe_balance/backend"
	"github.com/bfenetworks/bfe/bfe_config/bfe_cluster_conf/cluster_table_conf"
	vrt "github.com/bfenetworks/bfe/zz_vrt"
)

var addrsC02 = []string{"10.0.0.9", "10.0.0.10", "10.0.1.1", "10.0.0.1"}
var portsC02 = []int{80, 8080, 80, 80}

var permsC02 = [][]int{
	{0, 1, 2, 3}, {0, 1, 3, 2}, {0, 2, 1, 3}, {0, 2, 3, 1}, {0, 3, 1, 2}, {0, 3, 2, 1},
	{1, 0, 2, 3}, {1, 0, 3, 2}, {1, 2, 0, 3}, {1, 2, 3, 0}, {1, 3, 0, 2}, {1, 3, 2, 0},
	{2, 0, 1, 3}, {2, 0, 3, 1}, {2, 1, 0, 3}, {2, 1, 3, 0}, {2, 3, 0, 1}, {2, 3, 1, 0},
	{3, 0, 1, 2}, {3, 0, 2, 1}, {3, 1, 0, 2}, {3, 1, 2, 0}, {3, 2, 0, 1}, {3, 2, 1, 0},
}

// permC02 returns the k-th permutation of [0,n) (concrete).
func permC02(n, k int) []int {
	cnt := 0
	for _, p := range permsC02 {
		ok := true
		for i := n; i < 4; i++ {
			if p[i] != i {
				ok = false
			}
		}
		if ok {
			if cnt == k {
				return p[:n]
			}
			cnt++
		}
	}
	return permsC02[0][:n]
}

func factC02(n int) int {
	f := 1
	for i := 2; i <= n; i++ {
		f *= i
	}
	return f
}

func findKeyC02(want uint64, base uint64) []byte {
	if base == 0 {
		return []byte{0, 0, 0, 0}
	}
	for x := uint32(0); ; x++ {
		k := []byte{byte(x), byte(x >> 8), byte(x >> 16), byte(x >> 24)}
		if murmur3.Sum64(k)%base == want%base {
			return k
		}
	}
}

// VerifC02_sticky: n backends (identities = addresses of a fixed universe) configured in the k-th
// order; Balance(WrrSticky,key) must return the backend the order-independent reference names.
func VerifC02_sticky() {
	n := vrt.Range("n", 1, vrt.Param("N", 3))
	perm := permC02(n, vrt.Choose("order", factC02(n)))
	wb := vrt.Param("WB", 256)
	// state per identity
	w, av := make([]int, 4), make([]bool, 4)
	for a := 0; a < n; a++ {
		w[a] = vrt.Int("w")
		av[a] = vrt.Bool("avail")
		vrt.Assume(w[a] >= -1 && w[a] < wb)
	}
	// configuration in the chosen order
	var conf cluster_table_conf.SubClusterBackend
	for i := 0; i < n; i++ {
		a := perm[i]
		name, addr, port, wt := "b", addrsC02[a], portsC02[a], 1
		conf = append(conf, &cluster_table_conf.BackendConf{Name: &name, Addr: &addr, Port: &port, Weight: &wt})
	}
	brr := NewBalanceRR("sc")
	brr.Init(conf)
	for i := 0; i < n; i++ {
		a := perm[i]
		brr.backends[i].weight = w[a]
		brr.backends[i].current = w[a]
		backend.VerifHelpSetState(brr.backends[i].backend, av[a], 0)
	}
	// reference: identities sorted by "addr:port", eligible ones partition [0,W) by cumulative weight
	infos := make([]string, n)
	for a := 0; a < n; a++ {
		c := cluster_table_conf.BackendConf{Addr: &addrsC02[a], Port: &portsC02[a]}
		infos[a] = c.AddrInfo()
	}
	sorted := append([]string{}, infos...)
	sort.Strings(sorted)
	order := make([]int, n) // order[j] = identity at sorted position j
	for j := 0; j < n; j++ {
		for a := 0; a < n; a++ {
			if infos[a] == sorted[j] {
				order[j] = a
			}
		}
	}
	// eligibility is decided by forking (the call inside the branch prevents if-conversion) and the
	// total is summed in sorted order, so that hash%total is the very term the code computes and the
	// solver sees one remainder instead of two
	total := 0
	elig := make([]bool, 4)
	for j := 0; j < n; j++ {
		a := order[j]
		if av[a] && w[a] > 0 {
			vrt.Cover("C02/eligible")
			elig[a] = true
			total += w[a]
		}
	}
	key := vrt.Bytes("key", 4)
	if !vrt.Symbolic() {
		key = findKeyC02(vrt.U64("murmur"), uint64(total))
	}
	b, err := brr.Balance(WrrSticky, key)
	if total == 0 {
		vrt.Assert(err != nil, "C02/sticky-none-eligible-is-error")
		return
	}
	vrt.Assert(err == nil && b != nil, "C02/sticky-selects")
	r := int(murmur3.Sum64(key) % uint64(total))
	want, cum, found := -1, 0, false
	for j := 0; j < n; j++ {
		a := order[j]
		if elig[a] {
			cum += w[a]
			if !found && r < cum {
				want, found = a, true
			}
		}
	}
	vrt.Assert(found, "C02/reference-total")
	got := -1
	for a := 0; a < n; a++ {
		if b.AddrInfo == infos[a] {
			got = a
		}
	}
	vrt.Assert(got == want, "C02/sticky-target-is-weight-partition-of-hash")
	// GetHash itself: murmur3 64 mod base
	vrt.Assert(GetHash(key, uint(total)) == r, "C02/gethash-is-murmur-mod-base")
}
