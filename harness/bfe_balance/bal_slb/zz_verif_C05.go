package bal_slb

// C05 (sequential part) — every BalanceRR entry point returns (a backend or an error) without
// panicking, blocking or looping forever, for every sequence of whole operations
// Balance(any algorithm) | SetAvail | Update | SetSlowStart from any loader-accepted configuration.
// Each operation holds the balancer mutex for its whole body, so an interleaving of whole operations
// is one of these sequences. Data races and real schedules are outside (see notes/C05.md).

import (
	"github.com/bfenetworks/bfe/bfe_config/bfe_cluster_conf/cluster_table_conf"
	vrt "github.com/bfenetworks/bfe/zz_vrt"
)

var addrsC05 = []string{"10.0.0.1", "10.0.0.2", "10.0.0.3", "10.0.0.4"}

// confC05 builds a sub-cluster backend list of n entries starting at universe position from, with
// symbolic weights in [-1,3], accepted by the real loader check (some weight > 0).
func confC05(from, n int) cluster_table_conf.SubClusterBackend {
	var conf cluster_table_conf.SubClusterBackend
	for i := 0; i < n; i++ {
		name, addr, port := "b", addrsC05[(from+i)%4], 80
		wt := vrt.Int("w")
		vrt.Assume(wt >= -1 && wt <= 3)
		conf = append(conf, &cluster_table_conf.BackendConf{Name: &name, Addr: &addr, Port: &port, Weight: &wt})
	}
	vrt.Assume(conf.Check() == nil) // what ClusterTableLoad enforces
	return conf
}

func VerifC05_ops() {
	n := vrt.Range("n", 1, vrt.Param("N", 2))
	k := vrt.Param("K", 2)
	brr := NewBalanceRR("sc")
	brr.Init(confC05(0, n))
	for step := 0; step < k; step++ {
		switch vrt.Choose("op", 4) {
		case 0: // a selection with any exposed algorithm
			algo := vrt.Choose("algo", 5)
			var key []byte
			if algo == WrrSticky {
				key = vrt.Bytes("key", 2)
			}
			anyElig, negAvail := false, false
			for _, x := range brr.backends {
				av := x.backend.Avail()
				anyElig = anyElig || (av && x.weight > 0)
				negAvail = negAvail || (av && x.weight < 0)
			}
			vrt.Known("C05-simple-rescan-negative-weight", algo == WrrSimple && negAvail && !anyElig)
			b, err := brr.Balance(algo, key)
			vrt.Assert(err != nil || b != nil, "C05/returns-backend-or-error")
		case 1: // a health flip of one backend
			i := vrt.Choose("backend", len(brr.backends))
			brr.backends[i].backend.SetAvail(vrt.Bool("avail"))
			vrt.Cover("C05/setavail-returns")
		case 2: // a reload: some backends survive, some go, some are new
			m := vrt.Range("m", 1, n)
			brr.Update(confC05(1, m))
			vrt.Assert(len(brr.backends) >= 1, "C05/update-keeps-a-backend")
		case 3: // slow-start reconfiguration (0 = off; the time-dependent ramp is in VerifC05_slowstart)
			brr.SetSlowStart(0)
			vrt.Cover("C05/setslowstart-returns")
		}
	}
}

// VerifC05_slowstart: with slow start on (symbolic clock), restart flags set by a reload or a health
// recovery, selections still return.
func VerifC05_slowstart() {
	n := vrt.Range("n", 1, vrt.Param("N", 2))
	brr := NewBalanceRR("sc")
	brr.Init(confC05(0, n))
	brr.SetSlowStart(vrt.Range("sstime", 1, 2))
	for i := 0; i < n; i++ {
		brr.backends[i].backend.SetRestart(vrt.Bool("restarted"))
	}
	for step := 0; step < vrt.Param("K", 2); step++ {
		algos := []int{WrrSmooth, WlcSmooth}
		b, err := brr.Balance(algos[vrt.Choose("algo", 2)], nil)
		vrt.Assert(err != nil || b != nil, "C05/returns-backend-or-error")
	}
}
