package bal_slb

// C05 (sequential part) — every BalanceRR entry point returns (a backend or an error) without
// panicking, blocking or looping forever, for every sequence of whole operations
// Balance(any algorithm) | SetAvail | Update | SetSlowStart from any loader-accepted configuration.
// Each operation holds the balancer mutex for its whole body, so an interleaving of whole operations
// is one of these sequences. Data races and real schedules are outside (see notes/C05.md).

import (
	"github.com/bfenetworks/bfe/bfe_config/bfe_cluster_conf/cluster_table_conf"
	vrt "github.com/bfenetworks/bfe/zz_vrt"
)

var addrsC05 = []string{"10.0.0.1", "10.0.0.2", "10.0.0.3", "10.0.0.4"}

// confC05 builds a sub-cluster backend list of n entries starting at universe position from, with
// symbolic weights in [-1,3], accepted by the real loader check (some weight > 0).
func confC05(from, n int) cluster_table_conf.SubClusterBackend {
	var conf cluster_table_conf.SubClusterBackend
	for i := 0; i < n; i++ {
		name, addr, port := "b", addrsC05[(from+i)%4], 80
		wt := vrt.Int("w")
		vrt.Assume(wt >= -1 && wt <= 3)
		conf = append(conf, &cluster_table_conf.BackendConf{Name: &name, Addr: &addr, Port: &port, Weight: &wt})
	}
	vrt.Assume(conf.Check() == nil) // what ClusterTableLoad enforces
	return conf
}

func VerifC05_ops() {
	n := vrt.Range("n", 1, vrt.Param("N", 2))
	k := vrt.Param("K", 2)
	brr := NewBalanceRR("sc")
	brr.Init(confC05(0, n))
	for step := 0; step < k; step++ {
		switch vrt.Choose("op", 4) {
		case 0: // a selection with any exposed algorithm
			algo := vrt.Choose("algo", 5)
			var key []byte
			if algo == WrrSticky {
				key = vrt.Bytes("key", 2)
			}
			anyElig, negAvail := false, false
			for _, x := range brr.backends {
				av := x.backend.Avail()
				anyElig = anyElig || (av && x.weight > 0)
				negAvail = negAvail || (av && x.weight < 0)
			}
			vrt.Known("C05-simple-rescan-negative-weight", algo == WrrSimple && negAvail && !anyElig)
			b, err := brr.Balance(algo, key)
			vrt.Assert(err != nil || b != nil, "C05/returns-backend-or-error")
		case 1: // a health flip of one backend
			i := vrt.Choose("backend", len(brr.backends))
			brr.backends[i].backend.SetAvail(vrt.Bool("avail"))
			vrt.Cover("C05/setavail-returns")
		case 2: // a reload: some backends survive, some go, some are new
			m := vrt.Range("m", 1, n)
			brr.Update(confC05(1, m))
			vrt.Assert(len(brr.backends) >= 1, "C05/update-keeps-a-backend")
		case 3: // slow-start reconfiguration (0 = off; the time-dependent ramp is in VerifC05_slowstart)
			brr.SetSlowStart(0)
			vrt.Cover("C05/setslowstart-returns")
		}
	}
}

// VerifC05_slowstart: with slow start on (symbolic clock), restart flags set by a reload or a health
// recovery, selections still return.
func VerifC05_slowstart() {
	n := vrt.Range("n", 1, vrt.Param("N", 2))
	brr := NewBalanceRR("sc")
	brr.Init(confC05(0, n))
	brr.SetSlowStart(vrt.Range("sstime", 1, 2))
	for i := 0; i < n; i++ {
		brr.backends[i].backend.SetRestart(vrt.Bool("restarted"))
	}
	for step := 0; step < vrt.Param("K", 2); step++ {
		algos := []int{WrrSmooth, WlcSmooth}
		b, err := brr.Balance(algos[vrt.Choose("algo", 2)], nil)
		vrt.Assert(err != nil || b != nil, "C05/returns-backend-or-error")
	}
}

// VerifC05_failreports: health events between selections. K events among "a failed request is
// reported on backend i" (what BfeBackend.OnFail does: AddFailNum + UpdateStatus(threshold); several
// in-flight requests may fail after the backend was already taken out), "a request succeeded"
// (OnSuccess) and "the health checker brings backend i back" (SetRestart + SetAvail(true)); then a
// selection with any algorithm returns. A per-backend lock left held shows as outcome `blocked`.
func VerifC05_failreports() {
	n := vrt.Range("n", 1, vrt.Param("N", 2))
	brr := NewBalanceRR("sc")
	brr.Init(confC05(0, n))
	thr := vrt.Range("failthreshold", 1, 2)
	for step := 0; step < vrt.Param("K", 3); step++ {
		b := brr.backends[vrt.Choose("backend", n)].backend
		switch vrt.Choose("event", 3) {
		case 0:
			b.AddFailNum()
			b.UpdateStatus(thr)
			vrt.Cover("C05/failreport-returns")
		case 1:
			b.OnSuccess()
		case 2:
			b.SetRestart(true)
			b.SetAvail(true)
		}
	}
	algo := vrt.Choose("algo", 5)
	var key []byte
	if algo == WrrSticky {
		key = vrt.Bytes("key", 2)
	}
	got, err := brr.Balance(algo, key)
	vrt.Assert(err != nil || got != nil, "C05/returns-backend-or-error-after-failreports")
}

// VerifC05_slowstart_simple: slow start on and WrrSimple (the algorithm with the reset-and-rescan
// loop): backends that just came up (restart flag) ramp from weight 1 through the truncated
// final*elapsed/slowStartTime, which is 0 right after the start; K consecutive selections at any
// instants return inside the loop bound. Conf weights are concrete (1 or 3) so that the ramp is a
// product/quotient by constants; the clock is symbolic, non-decreasing, within 2^CLOCK_BITS ns.
func VerifC05_slowstart_simple() {
	n := vrt.Range("n", 1, vrt.Param("N", 2))
	var conf cluster_table_conf.SubClusterBackend
	for i := 0; i < n; i++ {
		name, addr, port := "b", addrsC05[i], 80
		wt := 1 + 2*vrt.Choose("w3", 2)
		conf = append(conf, &cluster_table_conf.BackendConf{Name: &name, Addr: &addr, Port: &port, Weight: &wt})
	}
	brr := NewBalanceRR("sc")
	brr.Init(conf)
	brr.SetSlowStart(vrt.Range("sstime", 1, 2))
	// RAMPS backends (default 1) may have just come up; the others are steady, up or down. (Two
	// simultaneous ramps give the solver two 64-bit quotients per query: tried, minutes per query.)
	for i := 0; i < n; i++ {
		if i < vrt.Param("RAMPS", 1) {
			brr.backends[i].backend.SetRestart(vrt.Choose("restarted", 2) == 1)
		} else {
			brr.backends[i].backend.SetAvail(vrt.Choose("up", 2) == 1)
		}
	}
	for step := 0; step < vrt.Param("K", 2); step++ {
		b, err := brr.Balance(WrrSimple, nil)
		vrt.Assert(err != nil || b != nil, "C05/slowstart-simple-returns-backend-or-error")
	}
}
