package bal_slb

// C01 — smooth weighted round-robin gives exact weight shares.

import (
	"github.com/bfenetworks/bfe/bfe_balance/backend"
	"github.com/bfenetworks/bfe/bfe_config/bfe_cluster_conf/cluster_table_conf"
	vrt "github.com/bfenetworks/bfe/zz_vrt"
)

var addrsC01 = []string{"10.0.0.1", "10.0.0.2", "10.0.0.3", "10.0.0.4"}
var namesC01 = []string{"b0", "b1", "b2", "b3"}

func mkConfC01(n int, w []int) cluster_table_conf.SubClusterBackend {
	var conf cluster_table_conf.SubClusterBackend
	for i := 0; i < n; i++ {
		name, addr, port, wt := namesC01[i], addrsC01[i], 80, w[i]
		conf = append(conf, &cluster_table_conf.BackendConf{Name: &name, Addr: &addr, Port: &port, Weight: &wt})
	}
	return conf
}

func indexOfC01(brr *BalanceRR, b *backend.BfeBackend) int {
	for i, x := range brr.backends {
		if x.backend == b {
			return i
		}
	}
	return -1
}

// refSWRRC01 is nginx-style smooth weighted round robin on the unscaled weights.
func refSWRRC01(cur []int, w []int, n int) int {
	best, total := -1, 0
	for i := 0; i < n; i++ {
		cur[i] += w[i]
		total += w[i]
		if best < 0 || cur[i] > cur[best] {
			best = i
		}
	}
	cur[best] -= total
	return best
}

// VerifC01_period: from the Init state, W = sum(w) selections pick backend i exactly w[i] times,
// the internal state returns to the initial one (period W), and the sequence equals the reference SWRR.
func VerifC01_period() {
	n := vrt.Range("n", 1, vrt.Param("N", 3))
	wmax := vrt.Param("WMAX", 6)
	w := make([]int, 4)
	sum := 0
	for i := 0; i < n; i++ {
		w[i] = vrt.Int("w")
		vrt.Assume(w[i] >= 1 && w[i] <= wmax)
		sum += w[i]
	}
	vrt.Assume(sum <= wmax)
	brr := NewBalanceRR("sc")
	brr.Init(mkConfC01(n, w))
	init := make([]int, n)
	for i := 0; i < n; i++ {
		init[i] = brr.backends[i].current
	}
	count := make([]int, 4)
	refCur := make([]int, 4)
	// first reference step mirrors bfe's initial state current=weight: nginx starts from 0 and adds w first
	for step := 0; step < wmax; step++ {
		if step >= sum {
			break
		}
		b, err := brr.Balance(WrrSmooth, nil)
		vrt.Assert(err == nil && b != nil, "C01/selects")
		k := indexOfC01(brr, b)
		vrt.Assert(k >= 0 && k < n, "C01/selects-member")
		// informational only (not asserted: a different tie-break is still a correct smooth WRR)
		if refSWRRC01(refCur, w, n) == k {
			vrt.Cover("C01/same-as-nginx-swrr")
		}
		count[k]++
	}
	for i := 0; i < n; i++ {
		vrt.Assert(count[i] == w[i], "C01/exact-share")
		vrt.Assert(brr.backends[i].current == init[i], "C01/period-state")
	}
}

// VerifC01_step: one-step lemma from an arbitrary pre-state: after a selection the sum of current
// over eligible backends is unchanged (so every window starts from a state with the same total),
// and the chosen backend had the maximal current.
func VerifC01_step() {
	n := vrt.Range("n", 1, vrt.Param("N", 3))
	brr := NewBalanceRR("sc")
	w := make([]int, 4)
	for i := 0; i < n; i++ {
		w[i] = 1
	}
	brr.Init(mkConfC01(n, w))
	sumBefore, sumW := 0, 0
	cur := make([]int, 4)
	for i := 0; i < n; i++ {
		wt := vrt.Int("w")
		c := vrt.Int("cur")
		vrt.Assume(wt >= 1 && wt <= 1000000)
		vrt.Assume(c >= -100000000 && c <= 100000000)
		brr.backends[i].weight = wt
		brr.backends[i].current = c
		cur[i] = c
		sumBefore += c
		sumW += wt
	}
	b, err := brr.Balance(WrrSmooth, nil)
	vrt.Assert(err == nil && b != nil, "C01/step-selects")
	k := indexOfC01(brr, b)
	sumAfter := 0
	for i := 0; i < n; i++ {
		sumAfter += brr.backends[i].current
		vrt.Assert(cur[k] >= cur[i], "C01/step-picks-max")
	}
	vrt.Assert(sumAfter == sumBefore+sumW-sumBefore, "C01/step-sum-becomes-total-weight")
}

// VerifC01_reload: k selections, then a reload (Update) with the same addresses and weights, then a full
// window of W selections: the window is still exact ("every starting point after a (re)load").
func VerifC01_reload() {
	n := vrt.Range("n", 1, vrt.Param("N", 3))
	wmax := vrt.Param("WMAX", 5)
	w := make([]int, 4)
	sum := 0
	for i := 0; i < n; i++ {
		w[i] = vrt.Int("w")
		vrt.Assume(w[i] >= 1 && w[i] <= wmax)
		sum += w[i]
	}
	vrt.Assume(sum <= wmax)
	brr := NewBalanceRR("sc")
	brr.Init(mkConfC01(n, w))
	k := vrt.Range("k", 0, wmax-1)
	for step := 0; step < k; step++ {
		_, err := brr.Balance(WrrSmooth, nil)
		vrt.Assert(err == nil, "C01/selects")
	}
	brr.Update(mkConfC01(n, w))
	vrt.Assert(len(brr.backends) == n, "C01/reload-keeps-backends")
	count := make([]int, 4)
	for step := 0; step < wmax; step++ {
		if step >= sum {
			break
		}
		b, err := brr.Balance(WrrSmooth, nil)
		vrt.Assert(err == nil && b != nil, "C01/selects")
		idx := -1
		for i := 0; i < n; i++ {
			if b.Addr == addrsC01[i] {
				idx = i
			}
		}
		vrt.Assert(idx >= 0, "C01/selects-member")
		count[idx]++
	}
	for i := 0; i < n; i++ {
		vrt.Assert(count[i] == w[i], "C01/exact-share-after-reload")
	}
}

// VerifC01_deterministic: the selection sequence is a function of the ordered weight list only: two
// sub-clusters with the same weights, one of them carrying incidental per-backend state (request
// failure counts, health-check success counts, connection counts), select the same sequence.
func VerifC01_deterministic() {
	n := vrt.Range("n", 2, vrt.Param("N", 3))
	wmax := vrt.Param("WMAX", 6)
	w := make([]int, 4)
	sum := 0
	for i := 0; i < n; i++ {
		w[i] = vrt.Int("w")
		vrt.Assume(w[i] >= 1 && w[i] <= wmax)
		sum += w[i]
	}
	vrt.Assume(sum <= wmax)
	a := NewBalanceRR("sc")
	a.Init(mkConfC01(n, w))
	b := NewBalanceRR("sc")
	b.Init(mkConfC01(n, w))
	for i := 0; i < n; i++ {
		back := b.backends[i].backend
		for k := vrt.Range("fails", 0, 2); k > 0; k-- {
			back.AddFailNum()
		}
		for k := vrt.Range("conns", 0, 1); k > 0; k-- {
			back.IncConnNum()
		}
		for k := vrt.Range("succ", 0, 1); k > 0; k-- {
			back.AddSuccNum()
		}
	}
	for step := 0; step < wmax; step++ {
		if step >= sum {
			break
		}
		x, e1 := a.Balance(WrrSmooth, nil)
		y, e2 := b.Balance(WrrSmooth, nil)
		vrt.Assert(e1 == nil && e2 == nil && x != nil && y != nil, "C01/selects")
		vrt.Assert(x.Addr == y.Addr, "C01/sequence-depends-only-on-weights")
	}
}
