package bal_slb

// Shared test-only accessors for the balancing harnesses living in other packages (bal_gslb,
// bfe_balance): read and set the per-backend round-robin state of a BalanceRR. Not part of bfe.

import "github.com/bfenetworks/bfe/bfe_balance/backend"

// VerifHelpSetRR stores weight and current of the i-th backend entry directly.
func VerifHelpSetRR(brr *BalanceRR, i int, weight, current int) {
	brr.backends[i].weight = weight
	brr.backends[i].current = current
}

// VerifHelpGetRR returns weight, current and the backend of the i-th entry.
func VerifHelpGetRR(brr *BalanceRR, i int) (int, int, *backend.BfeBackend) {
	x := brr.backends[i]
	return x.weight, x.current, x.backend
}
