package bfe_http

// C24 layers 2 and 3 — request framing.
// Layer 2: the real readTransfer (fixTransferEncoding, fixLength, fixTrailer, body reader selection) on a
// header map, decided against the RFC 7230 §3.3.3 rules.
// Layer 3: the real ReadRequest on a byte stream of two requests with symbolic header lines.

import (
	"bytes"
	"io"
	"io/ioutil"

	"github.com/bfenetworks/bfe/bfe_bufio"
	vrt "github.com/bfenetworks/bfe/zz_vrt"
)

func isOWSC24(c byte) bool { return c == ' ' || c == '\t' }

func trimOWSC24(b []byte) []byte {
	for len(b) > 0 && isOWSC24(b[0]) {
		b = b[1:]
	}
	for len(b) > 0 && isOWSC24(b[len(b)-1]) {
		b = b[:len(b)-1]
	}
	return b
}

func lowerC24(c byte) byte {
	if 'A' <= c && c <= 'Z' {
		return c + 32
	}
	return c
}

func foldEqC24(a, b []byte) bool {
	if len(a) != len(b) {
		return false
	}
	eq := true
	for i := 0; i < len(a); i++ {
		if lowerC24(a[i]) != lowerC24(b[i]) {
			eq = false
		}
	}
	return eq
}

// refContentLengthC24: Content-Length = 1*DIGIT (RFC 7230 §3.3.2) after OWS trimming, representable in int64.
func refContentLengthC24(v []byte) (int64, bool) {
	v = trimOWSC24(v)
	if len(v) == 0 || len(v) > 18 {
		// more than 18 digits: may not be representable; the harness universes use it only as "too large"
		return 0, false
	}
	var n int64
	ok := true
	for _, c := range v {
		if c < '0' || c > '9' {
			ok = false
		}
		n = n*10 + int64(c-'0')
	}
	return n, ok
}

// splitListC24: elements of a comma-separated list, OWS trimmed, empty elements dropped (RFC 7230 §7).
func splitListC24(v []byte) [][]byte {
	var out [][]byte
	start := 0
	for i := 0; i <= len(v); i++ {
		if i == len(v) || v[i] == ',' {
			if t := trimOWSC24(v[start:i]); len(t) > 0 {
				out = append(out, t)
			}
			start = i + 1
		}
	}
	return out
}

const (
	frameRejectC24  = iota // the message framing is invalid: must be refused
	frameNoneC24           // no body
	frameLengthC24         // body of exactly n bytes
	frameChunkedC24        // chunked body
)

// refFramingC24: RFC 7230 §3.3.3 for a request received by a server that implements only "chunked".
//   - Transfer-Encoding present: the codings of all Transfer-Encoding lines form one list; chunked must be the
//     final coding and may be applied only once (§3.3.1); any other coding is one this server does not
//     implement. So the only acceptable list is exactly [chunked]; then the body is chunked and any
//     Content-Length is overridden (and must not be forwarded).
//   - otherwise Content-Length: every value of every line must be valid and all must be equal
//     (a list "3, 3" or repeated lines with one value may be accepted); else invalid framing.
//   - otherwise no body.
func refFramingC24(te, cl []string) (kind int, n int64) {
	if len(te) > 0 {
		var codings [][]byte
		for _, v := range te {
			codings = append(codings, splitListC24([]byte(v))...)
		}
		if len(codings) == 1 && foldEqC24(codings[0], []byte("chunked")) {
			return frameChunkedC24, -1
		}
		return frameRejectC24, 0
	}
	if len(cl) > 0 {
		first := true
		for _, line := range cl {
			elems := splitListC24([]byte(line))
			if len(elems) == 0 {
				return frameRejectC24, 0
			}
			for _, e := range elems {
				m, ok := refContentLengthC24(e)
				if !ok || !first && m != n {
					return frameRejectC24, 0
				}
				n, first = m, false
			}
		}
		return frameLengthC24, n
	}
	return frameNoneC24, 0
}

// ---- known-finding classes: predicates over the Transfer-Encoding / Content-Length values ----

func hasElemC24(v string, name string) bool {
	hit := false
	for _, e := range splitListC24([]byte(v)) {
		if foldEqC24(e, []byte(name)) {
			hit = true
		}
	}
	return hit
}

// first Transfer-Encoding line mentions "identity" (the loop in fixTransferEncoding stops there)
func knownTEIdentityC24(te []string) bool { return len(te) > 0 && hasElemC24(te[0], "identity") }

// more than one Transfer-Encoding line (only raw[0] is looked at)
func knownTEExtraLinesC24(te []string) bool { return len(te) > 1 }

// no effective Transfer-Encoding, several Content-Length values that are not all equal (GetDirect: first wins)
func knownCLConflictC24(cl []string) bool {
	if len(cl) < 2 {
		return false
	}
	diff := false
	for _, v := range cl[1:] {
		if !bytes.Equal(trimOWSC24([]byte(v)), trimOWSC24([]byte(cl[0]))) {
			diff = true
		}
	}
	return diff
}

func isSpaceC24(c byte) bool {
	return c == ' ' || c == '\t' || c == '\n' || c == '\v' || c == '\f' || c == '\r'
}

// first Content-Length value is digits with a sign in front and/or surrounded by white space other than
// SP/HTAB (strings.TrimSpace + strconv.ParseInt accept "+3", "-0", "\v3")
func knownCLSyntaxC24(cl []string) bool {
	if len(cl) == 0 {
		return false
	}
	v := []byte(cl[0])
	for len(v) > 0 && isSpaceC24(v[0]) {
		v = v[1:]
	}
	for len(v) > 0 && isSpaceC24(v[len(v)-1]) {
		v = v[:len(v)-1]
	}
	plain := len(v) == len(trimOWSC24([]byte(cl[0])))
	signed, minus := false, false
	if len(v) > 0 && (v[0] == '+' || v[0] == '-') {
		signed, minus = true, v[0] == '-'
		v = v[1:]
	}
	digits, zero := len(v) > 0, true
	for _, c := range v {
		if c < '0' || c > '9' {
			digits = false
		}
		if c != '0' {
			zero = false
		}
	}
	if minus && !zero {
		return false // negative numbers are refused by bfe; only "-0" slips through
	}
	return digits && (signed || !plain)
}

// first Content-Length value is empty after trimming (taken as "no Content-Length")
func knownCLEmptyC24(cl []string) bool {
	if len(cl) == 0 {
		return false
	}
	v := []byte(cl[0])
	for len(v) > 0 && isSpaceC24(v[0]) {
		v = v[1:]
	}
	return len(v) == 0
}

// the data that follows the header block in the layer-2/3 streams: valid as a chunked body
// ("hello" + last chunk + empty trailer) followed by the beginning of another message.
const afterHeadC24 = "5\r\nhello\r\n0\r\n\r\nGET"

// frameAndReadC24 runs the real readTransfer on a POST request with the given header and consumes the
// body from a stream holding afterHeadC24.
func frameAndReadC24(h Header) (req *Request, body, rest []byte, err, rerr error) {
	br := bfe_bufio.NewReader(bytes.NewReader([]byte(afterHeadC24)))
	req = &Request{Method: "POST", Proto: "HTTP/1.1", ProtoMajor: 1, ProtoMinor: 1, Header: h}
	err = readTransfer(req, br)
	if err != nil {
		return
	}
	body, rerr = ioutil.ReadAll(req.Body)
	rest, _ = ioutil.ReadAll(br)
	return
}

func checkFramingC24(kind int, n int64, req *Request, body, rest []byte, err, rerr error) {
	if kind == frameRejectC24 {
		vrt.Assert(err != nil, "C24/framing-invalid-rejected")
		return
	}
	if err != nil {
		vrt.Cover("C24/framing-valid-refused")
		return
	}
	var wantBody, wantRest string
	switch kind {
	case frameNoneC24:
		wantBody, wantRest = "", afterHeadC24
	case frameLengthC24:
		if n > int64(len(afterHeadC24)) {
			vrt.Assert(rerr == io.ErrUnexpectedEOF, "C24/framing-short-body-is-error")
			return
		}
		wantBody, wantRest = afterHeadC24[:n], afterHeadC24[n:]
		vrt.Assert(req.ContentLength == n, "C24/framing-content-length-field")
	case frameChunkedC24:
		wantBody, wantRest = "hello", "GET"
		_, clLeft := req.Header["Content-Length"]
		vrt.Assert(!clLeft, "C24/framing-cl-dropped-when-chunked")
		vrt.Assert(len(req.TransferEncoding) == 1 && req.TransferEncoding[0] == "chunked", "C24/framing-te-field")
	}
	vrt.Assert(rerr == nil, "C24/framing-body-readable")
	vrt.Assert(string(body) == wantBody, "C24/framing-body")
	vrt.Assert(string(rest) == wantRest, "C24/framing-boundary")
}

var teUniverseC24 = []string{"chunked", "identity", "gzip", "identity, chunked", "chunked, identity", "gzip, chunked", "Chunked ", "chunked, chunked", ""}
var clUniverseC24 = []string{"3", "5", "+3", "0", " 5", "3, 3", "", "-1", "3, 5", "99999999999999999999"}

// VerifC24_framing: <= 2 Transfer-Encoding and <= 2 Content-Length values from small universes.
func VerifC24_framing() {
	h := Header{}
	nt := vrt.Param("TE", 5)
	nc := vrt.Param("CL", 5)
	for i, k := 0, vrt.Range("nte", 0, 2); i < k; i++ {
		h["Transfer-Encoding"] = append(h["Transfer-Encoding"], teUniverseC24[vrt.Choose("te", nt)])
	}
	for i, k := 0, vrt.Range("ncl", 0, 2); i < k; i++ {
		h["Content-Length"] = append(h["Content-Length"], clUniverseC24[vrt.Choose("cl", nc)])
	}
	te := append([]string{}, h["Transfer-Encoding"]...)
	cl := append([]string{}, h["Content-Length"]...)
	kind, n := refFramingC24(te, cl)

	vrt.Known("C24-te-identity-tolerated", knownTEIdentityC24(te))
	vrt.Known("C24-te-extra-lines-ignored", knownTEExtraLinesC24(te))
	vrt.Known("C24-conflicting-content-length", len(te) == 0 && knownCLConflictC24(cl))
	vrt.Known("C24-content-length-lenient-syntax", len(te) == 0 && knownCLSyntaxC24(cl))
	vrt.Known("C24-content-length-empty-ignored", len(te) == 0 && knownCLEmptyC24(cl))

	req, body, rest, err, rerr := frameAndReadC24(h)
	checkFramingC24(kind, n, req, body, rest, err, rerr)
}

// VerifC24_contentLengthValue: one Content-Length line whose value is 0..N symbolic bytes (all values).
func VerifC24_contentLengthValue() {
	n := vrt.Range("len", 0, vrt.Param("N", 3))
	v := vrt.Str("cl", n)
	for i := 0; i < len(v); i++ {
		// UTF-8 lead bytes are excluded: strings.TrimSpace decodes runes and the engine does not model
		// multi-byte decoding of symbolic bytes (stated in the registry bounds).
		vrt.Assume(v[i] < 0xC2 || v[i] > 0xF4)
	}
	h := Header{"Content-Length": {v}}
	cl := []string{v}
	kind, want := refFramingC24(nil, cl)
	vrt.Known("C24-content-length-lenient-syntax", knownCLSyntaxC24(cl))
	vrt.Known("C24-content-length-empty-ignored", knownCLEmptyC24(cl))
	req, body, rest, err, rerr := frameAndReadC24(h)
	checkFramingC24(kind, want, req, body, rest, err, rerr)
}

// ---------------------------------------------------------------------------------------------------
// Layer 3: ReadRequest on a stream.

func isTcharC24(c byte) bool {
	if 'a' <= c && c <= 'z' || 'A' <= c && c <= 'Z' || '0' <= c && c <= '9' {
		return true
	}
	switch c {
	case '!', '#', '$', '%', '&', '\'', '*', '+', '-', '.', '^', '_', '`', '|', '~':
		return true
	}
	return false
}

func isTokenC24(b []byte) bool {
	ok := len(b) > 0
	for _, c := range b {
		if !isTcharC24(c) {
			ok = false
		}
	}
	return ok
}

type fieldC24 struct{ name, value []byte }

// refHeadersC24: RFC 7230 §3.2 header block starting at in[0] (same reference as layer 1; obs-fold lines
// are appended to the previous value with one SP). Returns fields, bytes consumed including the empty
// line, ok.
func refHeadersC24(in []byte) (fields []fieldC24, consumed int, ok bool) {
	pos := 0
	for {
		e := -1
		for i := pos; i < len(in); i++ {
			if in[i] == '\n' {
				e = i
				break
			}
		}
		if e < 0 {
			return nil, 0, false
		}
		line := in[pos:e]
		if len(line) > 0 && line[len(line)-1] == '\r' {
			line = line[:len(line)-1]
		}
		pos = e + 1
		if len(line) == 0 {
			return fields, pos, true
		}
		if line[0] == ' ' || line[0] == '\t' {
			if len(fields) == 0 {
				return nil, 0, false
			}
			f := &fields[len(fields)-1]
			f.value = append(append(append([]byte{}, f.value...), ' '), trimOWSC24(line)...)
			continue
		}
		c := bytes.IndexByte(line, ':')
		if c < 0 || !isTokenC24(line[:c]) {
			return nil, 0, false
		}
		fields = append(fields, fieldC24{line[:c], trimOWSC24(line[c+1:])})
	}
}

func valuesOfC24(fields []fieldC24, name string) []string {
	var out []string
	for _, f := range fields {
		if foldEqC24(f.name, []byte(name)) {
			out = append(out, string(f.value))
		}
	}
	return out
}

const reqLineC24 = "POST / HTTP/1.1\r\nHost: a\r\n"
const chunkedBodyC24 = "5\r\nhello\r\n0\r\n\r\n"
const secondReqC24 = "GET /2 HTTP/1.1\r\nHost: b\r\n\r\n"

var l3NamesC24 = []string{"Content-Length", "Transfer-Encoding", "X-A"}
var l3ValuesC24 = [][]string{{"5", "3"}, {"chunked"}, {"1"}}

// VerifC24_readRequest: "POST / HTTP/1.1" + "Host: a" + <= L header lines NAME ++ s ++ ":" ++ " " ++ VALUE
// where s is 0..1 symbolic bytes (any value) between the field name and the colon, then a blank line, a
// valid chunked body and a second request. The real ReadRequest is run twice on the stream.
func VerifC24_readRequest() {
	in := []byte(reqLineC24)
	nl := vrt.Range("lines", 0, vrt.Param("L", 2))
	wsBeforeColon, badNameByte := false, false
	for i := 0; i < nl; i++ {
		k := vrt.Choose("name", len(l3NamesC24))
		s := vrt.Bytes("sep", vrt.Range("seplen", 0, 1))
		v := l3ValuesC24[k][vrt.Choose("value", len(l3ValuesC24[k]))]
		in = append(in, l3NamesC24[k]...)
		in = append(in, s...)
		in = append(in, ": "...)
		in = append(in, v...)
		in = append(in, "\r\n"...)
		if len(s) == 1 {
			if s[0] == ' ' || s[0] == '\t' {
				wsBeforeColon = true
			} else if !isTcharC24(s[0]) && s[0] != ':' && s[0] != '\n' {
				badNameByte = true
			}
		}
	}
	in = append(in, "\r\n"...)
	headEnd := len(in)
	in = append(in, chunkedBodyC24...)
	in = append(in, secondReqC24...)

	// reference
	fields, hdrLen, hdrOK := refHeadersC24(in[len("POST / HTTP/1.1\r\n"):])
	refOK := hdrOK
	var wantBody string
	wantEnd := 0
	var te, cl []string
	if hdrOK {
		// (a symbolic LF may end the block before headEnd)
		bodyStart := len("POST / HTTP/1.1\r\n") + hdrLen
		te, cl = valuesOfC24(fields, "Transfer-Encoding"), valuesOfC24(fields, "Content-Length")
		kind, n := refFramingC24(te, cl)
		switch kind {
		case frameRejectC24:
			refOK = false
		case frameNoneC24:
			wantBody, wantEnd = "", bodyStart
		case frameLengthC24:
			if int64(len(in)-bodyStart) < n {
				vrt.Assume(false)
			}
			wantBody, wantEnd = string(in[bodyStart:bodyStart+int(n)]), bodyStart+int(n)
		case frameChunkedC24:
			// only decided when the body position is the template's chunked body
			if bodyStart != headEnd {
				vrt.Assume(false)
			}
			wantBody, wantEnd = "hello", headEnd+len(chunkedBodyC24)
		}
	}

	vrt.Known("C24-ws-before-colon", wsBeforeColon)
	vrt.Known("C24-invalid-name-byte", badNameByte)
	vrt.Known("C24-conflicting-content-length", len(te) == 0 && knownCLConflictC24(cl))
	vrt.Known("C24-te-extra-lines-ignored", knownTEExtraLinesC24(te))

	src := bytes.NewReader(in)
	br := bfe_bufio.NewReader(src)
	req, err := ReadRequest(br, 1024)
	if !refOK {
		vrt.Assert(err != nil, "C24/request-invalid-rejected")
		return
	}
	if err != nil {
		vrt.Cover("C24/request-valid-refused")
		return
	}
	// same field names, in order (Host included)
	vrt.Assert(len(req.HeaderKeys) == len(fields), "C24/request-field-count")
	if len(req.HeaderKeys) == len(fields) {
		same := true
		for i, f := range fields {
			if !foldEqC24([]byte(req.HeaderKeys[i]), f.name) {
				same = false
			}
		}
		vrt.Assert(same, "C24/request-field-names")
	}
	body, rerr := ioutil.ReadAll(req.Body)
	vrt.Assert(rerr == nil, "C24/request-body-readable")
	vrt.Assert(string(body) == wantBody, "C24/request-body")
	end := len(in) - br.Buffered() - src.Len()
	vrt.Assert(end == wantEnd, "C24/request-boundary")
	// the next request on the connection
	if end == wantEnd && string(in[end:]) == secondReqC24 {
		req2, err2 := ReadRequest(br, 1024)
		vrt.Assert(err2 == nil && req2.Host == "b" && req2.Method == "GET" && req2.RequestURI == "/2", "C24/request-second")
	}
}

// ---------------------------------------------------------------------------------------------------
// Request framing does not depend on the request method (RFC 7230 §3.3.3: a request body is delimited by
// Transfer-Encoding / Content-Length only; "HEAD" changes the framing of the *response*).

var methodsC24 = []string{"HEAD", "POST", "GET", "OPTIONS", "PUT", "DELETE"}
var methodCLC24 = []string{"5", "3", "0", "x"}

// VerifC24_methodFraming (layer 2): readTransfer on a request of each method with an optional
// "Transfer-Encoding: chunked" and <= 2 Content-Length values; same oracle as VerifC24_framing.
func VerifC24_methodFraming() {
	method := methodsC24[vrt.Choose("method", vrt.Param("M", 4))]
	h := Header{}
	if vrt.Bool("chunked") {
		h["Transfer-Encoding"] = []string{"chunked"}
	}
	for i, k := 0, vrt.Range("ncl", 0, 2); i < k; i++ {
		h["Content-Length"] = append(h["Content-Length"], methodCLC24[vrt.Choose("cl", len(methodCLC24))])
	}
	te := append([]string{}, h["Transfer-Encoding"]...)
	cl := append([]string{}, h["Content-Length"]...)
	kind, n := refFramingC24(te, cl)

	br := bfe_bufio.NewReader(bytes.NewReader([]byte(afterHeadC24)))
	req := &Request{Method: method, Proto: "HTTP/1.1", ProtoMajor: 1, ProtoMinor: 1, Header: h}
	err := readTransfer(req, br)
	var body, rest []byte
	var rerr error
	if err == nil {
		body, rerr = ioutil.ReadAll(req.Body)
		rest, _ = ioutil.ReadAll(br)
	}
	checkFramingC24(kind, n, req, body, rest, err, rerr)
}

var methodLinesC24 = []string{
	"",
	"Content-Length: 5\r\n",
	"Content-Length: 3\r\n",
	"Transfer-Encoding: chunked\r\n",
	"Content-Length: 0\r\nContent-Length: 5\r\n",
	"Content-Length: 3\r\nTransfer-Encoding: chunked\r\n",
	"Content-Length: 16\r\n",
}

// VerifC24_methodRequest (layer 3): the real ReadRequest twice on METHOD / HTTP/1.1 + Host + one of the
// framing header shapes above + "5 CRLF hello CRLF 0 CRLF CRLF" + a second request. Whatever the method,
// an accepted request has the body and the end position the reference parser gives it, so the bytes
// after it are read as the second request and never as anything else.
func VerifC24_methodRequest() {
	method := methodsC24[vrt.Choose("method", vrt.Param("M", 4))]
	lines := methodLinesC24[vrt.Choose("lines", len(methodLinesC24))]
	start := method + " / HTTP/1.1\r\n"
	in := []byte(start + "Host: a\r\n" + lines + "\r\n")
	headEnd := len(in)
	in = append(in, chunkedBodyC24...)
	in = append(in, secondReqC24...)

	fields, hdrLen, hdrOK := refHeadersC24(in[len(start):])
	vrt.Assert(hdrOK && len(start)+hdrLen == headEnd, "C24/method-harness-sane")
	kind, n := refFramingC24(valuesOfC24(fields, "Transfer-Encoding"), valuesOfC24(fields, "Content-Length"))
	var wantBody string
	wantEnd := 0
	switch kind {
	case frameNoneC24:
		wantBody, wantEnd = "", headEnd
	case frameLengthC24:
		wantBody, wantEnd = string(in[headEnd:headEnd+int(n)]), headEnd+int(n)
	case frameChunkedC24:
		wantBody, wantEnd = "hello", headEnd+len(chunkedBodyC24)
	}

	src := bytes.NewReader(in)
	br := bfe_bufio.NewReader(src)
	req, err := ReadRequest(br, 1024)
	if kind == frameRejectC24 {
		vrt.Assert(err != nil, "C24/method-invalid-rejected")
		return
	}
	if err != nil {
		vrt.Cover("C24/method-valid-refused")
		return
	}
	vrt.Assert(req.Method == method, "C24/method-preserved")
	body, rerr := ioutil.ReadAll(req.Body)
	vrt.Assert(rerr == nil, "C24/method-body-readable")
	vrt.Assert(string(body) == wantBody, "C24/method-body")
	end := len(in) - br.Buffered() - src.Len()
	vrt.Assert(end == wantEnd, "C24/method-boundary")
	if end == wantEnd && string(in[end:]) == secondReqC24 {
		req2, err2 := ReadRequest(br, 1024)
		vrt.Assert(err2 == nil && req2.Host == "b" && req2.Method == "GET" && req2.RequestURI == "/2", "C24/method-second")
	}
}
