package bfe_http

// C25 — requests forwarded to backends cannot be split or injected (HTTP/1 writer and HTTP/1 frontend).
// Kernel: Request.Write -> Request.write, newTransferWriter/WriteHeader/WriteBody, Header.WriteSubset
// (value sanitising). Observation: the bytes written, parsed by a strict reference parser.

import (
	"bytes"
	"io/ioutil"
	"net/url"

	"github.com/bfenetworks/bfe/bfe_bufio"
	vrt "github.com/bfenetworks/bfe/zz_vrt"
)

func isTcharC25(c byte) bool {
	if 'a' <= c && c <= 'z' || 'A' <= c && c <= 'Z' || '0' <= c && c <= '9' {
		return true
	}
	switch c {
	case '!', '#', '$', '%', '&', '\'', '*', '+', '-', '.', '^', '_', '`', '|', '~':
		return true
	}
	return false
}

func isTokenC25(b []byte) bool {
	ok := len(b) > 0
	for _, c := range b {
		if !isTcharC25(c) {
			ok = false
		}
	}
	return ok
}

// field-value bytes: VCHAR, obs-text, SP, HTAB (RFC 7230 §3.2) — no other control bytes
func isValueByteC25(c byte) bool { return c == '\t' || c >= 0x20 && c != 0x7f }

func isValueC25(b []byte) bool {
	ok := true
	for _, c := range b {
		if !isValueByteC25(c) {
			ok = false
		}
	}
	return ok
}

func trimOWSC25(b []byte) []byte {
	for len(b) > 0 && (b[0] == ' ' || b[0] == '\t') {
		b = b[1:]
	}
	for len(b) > 0 && (b[len(b)-1] == ' ' || b[len(b)-1] == '\t') {
		b = b[:len(b)-1]
	}
	return b
}

func lowerC25(c byte) byte {
	if 'A' <= c && c <= 'Z' {
		return c + 32
	}
	return c
}

func foldEqC25(a, b []byte) bool {
	if len(a) != len(b) {
		return false
	}
	eq := true
	for i := 0; i < len(a); i++ {
		if lowerC25(a[i]) != lowerC25(b[i]) {
			eq = false
		}
	}
	return eq
}

type fieldC25 struct{ name, value []byte }

type msgC25 struct {
	method, target []byte
	fields         []fieldC25
	body           []byte
}

// strictParseC25: one HTTP/1.1 request in the strictest reading of RFC 7230 — CRLF line ends only,
// request-line = token SP target SP "HTTP/1.1", field = token ":" OWS value OWS with no control bytes,
// no obs-fold, body delimited by one valid Content-Length or absent (the harnesses never produce chunked
// output). Returns the message and the number of bytes it occupies.
func strictParseC25(out []byte) (m msgC25, n int, ok bool) {
	e := bytes.Index(out, []byte("\r\n"))
	if e < 0 {
		return m, 0, false
	}
	line := out[:e]
	s1 := bytes.IndexByte(line, ' ')
	if s1 <= 0 {
		return m, 0, false
	}
	s2 := bytes.IndexByte(line[s1+1:], ' ')
	if s2 <= 0 {
		return m, 0, false
	}
	s2 += s1 + 1
	m.method, m.target = line[:s1], line[s1+1:s2]
	if !isTokenC25(m.method) || !bytes.Equal(line[s2+1:], []byte("HTTP/1.1")) {
		return m, 0, false
	}
	for _, c := range m.target {
		if c <= 0x20 || c == 0x7f {
			return m, 0, false
		}
	}
	pos := e + 2
	clen, haveCL := 0, false
	for {
		e := bytes.Index(out[pos:], []byte("\r\n"))
		if e < 0 {
			return m, 0, false
		}
		line := out[pos : pos+e]
		pos += e + 2
		if len(line) == 0 {
			break
		}
		c := bytes.IndexByte(line, ':')
		if c <= 0 || !isTokenC25(line[:c]) || !isValueC25(line[c+1:]) {
			return m, 0, false
		}
		f := fieldC25{line[:c], trimOWSC25(line[c+1:])}
		if foldEqC25(f.name, []byte("Content-Length")) {
			if haveCL || len(f.value) == 0 || len(f.value) > 4 {
				return m, 0, false
			}
			for _, d := range f.value {
				if d < '0' || d > '9' {
					return m, 0, false
				}
				clen = clen*10 + int(d-'0')
			}
			haveCL = true
		}
		if foldEqC25(f.name, []byte("Transfer-Encoding")) {
			return m, 0, false
		}
		m.fields = append(m.fields, f)
	}
	if len(out)-pos < clen {
		return m, 0, false
	}
	m.body = out[pos : pos+clen]
	return m, pos + clen, true
}

func findFieldC25(fields []fieldC25, name []byte) (value []byte, count int) {
	for _, f := range fields {
		if foldEqC25(f.name, name) {
			if count == 0 {
				value = f.value
			}
			count++
		}
	}
	return
}

// sanitisedC25: what a forwarded value may look like — CR and LF replaced by SP, OWS trimmed.
func sanitisedC25(v []byte) []byte {
	r := make([]byte, len(v))
	for i, c := range v {
		if c == '\r' || c == '\n' {
			c = ' '
		}
		r[i] = c
	}
	return trimOWSC25(r)
}

type bodyC25 struct{ *bytes.Reader }

func (bodyC25) Close() error { return nil }

// VerifC25_writeField: a request with one header field whose name (1..NL bytes) and value (0..VL bytes)
// are symbolic (every byte value), written with the real Request.Write.
func VerifC25_writeField() {
	name := vrt.Bytes("name", vrt.Range("nlen", 1, vrt.Param("NL", 2)))
	value := vrt.Bytes("value", vrt.Range("vlen", 0, vrt.Param("VL", 2)))
	req := &Request{
		Method: "POST", URL: &url.URL{Path: "/p"}, RequestURI: "/p",
		Proto: "HTTP/1.1", ProtoMajor: 1, ProtoMinor: 1, Host: "h",
		Header: Header{string(name): {string(value)}},
		State:  &RequestState{},
	}
	withBody := vrt.Bool("body")
	if withBody {
		req.Body = bodyC25{bytes.NewReader([]byte("ab"))}
		req.ContentLength = 2
	}
	vrt.Known("C25-invalid-name-written-verbatim", !isTokenC25(name))
	vrt.Known("C25-control-byte-in-value-written", isTokenC25(name) && !isValueC25(sanitisedC25(value)))

	var wire bytes.Buffer
	err := req.Write(&wire)
	out := wire.Bytes()
	if err != nil {
		// refusing to forward is always safe
		vrt.Cover("C25/write-refused")
		return
	}
	m, n, ok := strictParseC25(out)
	vrt.Assert(ok, "C25/written-request-well-formed")
	if !ok {
		return
	}
	vrt.Assert(n == len(out), "C25/written-exactly-one-request")
	vrt.Assert(string(m.method) == "POST" && string(m.target) == "/p", "C25/written-request-line")
	hv, hc := findFieldC25(m.fields, []byte("Host"))
	vrt.Assert(hc == 1 && string(hv) == "h", "C25/written-host")
	want := 1
	if withBody {
		want++
		vrt.Assert(string(m.body) == "ab", "C25/written-body")
	}
	if isTokenC25(name) {
		want++
		v, c := findFieldC25(m.fields, name)
		vrt.Assert(c == 1 && bytes.Equal(v, sanitisedC25(value)), "C25/written-field-preserved")
	}
	// a name that cannot be a field name may be dropped, but nothing may be added
	vrt.Assert(len(m.fields) == want, "C25/written-no-extra-fields")
}

// VerifC25_http1Forward: HTTP/1 frontend to HTTP/1 backend. One element of the client's request is
// symbolic — a header line NAME ":" VALUE, or the Host value, or the method — and the request is read
// with the real ReadRequest and, when accepted, written with the real Request.Write.
func VerifC25_http1Forward() {
	which := vrt.Choose("which", 3)
	method, host := []byte("GET"), []byte("h")
	var name, value []byte
	switch which {
	case 0:
		name = vrt.Bytes("name", vrt.Range("nlen", 1, vrt.Param("NL", 2)))
		value = vrt.Bytes("value", vrt.Range("vlen", 0, vrt.Param("VL", 1)))
	case 1:
		host = vrt.Bytes("host", vrt.Range("hlen", 1, vrt.Param("HL", 2)))
	case 2:
		method = vrt.Bytes("method", vrt.Range("mlen", 1, vrt.Param("ML", 2)))
	}
	var in []byte
	in = append(in, method...)
	in = append(in, " /p HTTP/1.1\r\nHost: "...)
	in = append(in, host...)
	in = append(in, "\r\n"...)
	if which == 0 {
		in = append(in, name...)
		in = append(in, ':')
		in = append(in, value...)
		in = append(in, "\r\n"...)
	}
	in = append(in, "\r\n"...)

	req, err := ReadRequest(bfe_bufio.NewReader(bytes.NewReader(in)), 1024)
	if err != nil {
		vrt.Cover("C25/forward-request-refused")
		return
	}
	ioutil.ReadAll(req.Body)

	badName := false
	for _, k := range req.HeaderKeys {
		if !isTokenC25([]byte(k)) {
			badName = true
		}
	}
	badValue := false
	for _, vv := range req.Header {
		for _, v := range vv {
			if !isValueC25(sanitisedC25([]byte(v))) {
				badValue = true
			}
		}
	}
	vrt.Known("C25-invalid-name-written-verbatim", badName)
	vrt.Known("C25-control-byte-in-value-written", badValue)
	vrt.Known("C25-host-not-sanitised", !isValueC25([]byte(req.Host)))
	vrt.Known("C25-method-not-validated", !isTokenC25([]byte(req.Method)))

	var wire bytes.Buffer
	if werr := req.Write(&wire); werr != nil {
		vrt.Cover("C25/forward-write-refused")
		return
	}
	out := wire.Bytes()
	m, n, ok := strictParseC25(out)
	vrt.Assert(ok, "C25/forward-well-formed")
	if !ok {
		return
	}
	vrt.Assert(n == len(out), "C25/forward-exactly-one-request")
	vrt.Assert(string(m.method) == req.Method && string(m.target) == "/p", "C25/forward-request-line")
	hv, hc := findFieldC25(m.fields, []byte("Host"))
	vrt.Assert(hc == 1 && bytes.Equal(hv, trimOWSC25([]byte(req.Host))), "C25/forward-host")
	// every accepted field is forwarded once with its (sanitised) value, and nothing else is
	total := 1
	for k, vv := range req.Header {
		total += len(vv)
		if len(vv) == 1 {
			v, c := findFieldC25(m.fields, []byte(k))
			vrt.Assert(c == 1 && bytes.Equal(v, sanitisedC25([]byte(vv[0]))), "C25/forward-field-preserved")
		}
	}
	vrt.Assert(len(m.fields) == total, "C25/forward-no-extra-fields")
}

// VerifC25_writeValueInterior: the value sanitising of Header.WriteSubset on the *interior* of a value
// (VerifC25_writeField's short values are all leading/trailing positions, which TrimString also handles):
// a field "X-A" whose value is 'a' ++ 1..K symbolic bytes (every byte value) ++ 'b', written with the real
// Request.Write. Same oracle as VerifC25_writeField.
func VerifC25_writeValueInterior() {
	mid := vrt.Bytes("mid", vrt.Range("mlen", 1, vrt.Param("K", 2)))
	value := append(append([]byte("a"), mid...), 'b')
	req := &Request{
		Method: "GET", URL: &url.URL{Path: "/p"}, RequestURI: "/p",
		Proto: "HTTP/1.1", ProtoMajor: 1, ProtoMinor: 1, Host: "h",
		Header: Header{"X-A": {string(value)}},
		State:  &RequestState{},
	}
	vrt.Known("C25-control-byte-in-value-written", !isValueC25(sanitisedC25(value)))

	var wire bytes.Buffer
	if err := req.Write(&wire); err != nil {
		vrt.Cover("C25/write-refused")
		return
	}
	out := wire.Bytes()
	m, n, ok := strictParseC25(out)
	vrt.Assert(ok, "C25/interior-written-request-well-formed")
	if !ok {
		return
	}
	vrt.Assert(n == len(out), "C25/interior-written-exactly-one-request")
	vrt.Assert(string(m.method) == "GET" && string(m.target) == "/p", "C25/interior-written-request-line")
	v, c := findFieldC25(m.fields, []byte("X-A"))
	vrt.Assert(c == 1 && bytes.Equal(v, sanitisedC25(value)), "C25/interior-written-field-preserved")
	vrt.Assert(len(m.fields) == 2, "C25/interior-written-no-extra-fields")
}
