package bfe_http

// C23 — chunked transfer coding is decoded exactly.
// Harnesses are ordinary Go; vrt.* calls are intercepted by the symbolic interpreter.

import (
	"bytes"
	"io"

	"github.com/bfenetworks/bfe/bfe_bufio"
	vrt "github.com/bfenetworks/bfe/zz_vrt"
)

// refHexC23: a chunk-size is 1..16 hex digits (RFC 7230 §4.1, 64-bit sizes).
func refHexC23(line []byte) (uint64, bool) {
	if len(line) == 0 || len(line) > 16 {
		return 0, false
	}
	var n uint64
	for _, b := range line {
		var d byte
		switch {
		case '0' <= b && b <= '9':
			d = b - '0'
		case 'a' <= b && b <= 'f':
			d = b - 'a' + 10
		case 'A' <= b && b <= 'F':
			d = b - 'A' + 10
		default:
			return 0, false
		}
		n = n<<4 | uint64(d)
	}
	return n, true
}

func allHexC23(line []byte) bool {
	for _, b := range line {
		if !('0' <= b && b <= '9' || 'a' <= b && b <= 'f' || 'A' <= b && b <= 'F') {
			return false
		}
	}
	return true
}

// VerifC23_parseHexUint: every size line of length 0..N, all byte values.
func VerifC23_parseHexUint() {
	n := vrt.Range("len", 0, vrt.Param("N", 18))
	line := vrt.Bytes("line", n)
	vrt.Known("C23-empty-size-line", len(line) == 0)
	vrt.Known("C23-size-line-over-16-digits", len(line) > 16 && allHexC23(line))
	got, err := parseHexUint(line)
	want, ok := refHexC23(line)
	vrt.Assert(ok == (err == nil), "C23/size-line-accept")
	if ok && err == nil {
		vrt.Assert(got == want, "C23/size-line-value")
	}
}

// refChunkedC23 decodes a complete chunked body (no trailers): returns data, bytes consumed, ok.
// Lenient exactly where the implementation's line reader is documented to be (bare LF line ends,
// trailing SP/HTAB/CR before the LF), strict about everything the property names.
func refChunkedC23(in []byte) (data []byte, ok bool) {
	pos := 0
	for {
		// size line up to LF
		e := -1
		for i := pos; i < len(in); i++ {
			if in[i] == '\n' {
				e = i
				break
			}
		}
		if e < 0 {
			return nil, false
		}
		line := in[pos:e]
		for len(line) > 0 && (line[len(line)-1] == ' ' || line[len(line)-1] == '\t' || line[len(line)-1] == '\r' || line[len(line)-1] == '\n') {
			line = line[:len(line)-1]
		}
		sz, good := refHexC23(line)
		if !good {
			return nil, false
		}
		pos = e + 1
		if sz == 0 {
			return data, true
		}
		if uint64(len(in)-pos) < sz+2 {
			return nil, false
		}
		data = append(data, in[pos:pos+int(sz)]...)
		pos += int(sz)
		if in[pos] != '\r' || in[pos+1] != '\n' {
			return nil, false
		}
		pos += 2
	}
}

// VerifC23_reader: every byte string of length L presented as a chunked body.
func VerifC23_reader() {
	L := vrt.Range("len", 0, vrt.Param("L", 8))
	in := vrt.Bytes("body", L)
	cr := newChunkedReader(bfe_bufio.NewReader(bytes.NewReader(in)))
	var got []byte
	var err error
	buf := make([]byte, 3)
	for i := 0; i < 2*L+4; i++ {
		var n int
		n, err = cr.Read(buf)
		got = append(got, buf[:n]...)
		if err != nil {
			break
		}
	}
	want, ok := refChunkedC23(in)
	// size line made only of whitespace (empty after trimming) is the known empty-size-line class
	vrt.Known("C23-empty-size-line", hasEmptySizeLineC23(in))
	if err == io.EOF {
		vrt.Assert(ok, "C23/reader-accepts-only-valid")
		if ok {
			vrt.Assert(bytes.Equal(got, want), "C23/reader-data")
		}
	} else {
		vrt.Assert(err != nil, "C23/reader-terminates")
		vrt.Assert(!ok, "C23/reader-rejects-only-invalid")
	}
}

func hasEmptySizeLineC23(in []byte) bool {
	start := 0
	for i, b := range in {
		if b == '\n' {
			empty := true
			for _, c := range in[start:i] {
				if !(c == ' ' || c == '\t' || c == '\r') {
					empty = false
				}
			}
			if empty {
				return true
			}
			start = i + 1
		}
	}
	return false
}

// VerifC23_roundtrip: decode(encode(writes)) == concat(writes), for every chunking into <= 2 writes.
func VerifC23_roundtrip() {
	a := vrt.Bytes("w", vrt.Range("la", 0, vrt.Param("W", 3)))
	b := vrt.Bytes("w", vrt.Range("lb", 0, vrt.Param("W", 3)))
	var wire bytes.Buffer
	cw := newChunkedWriter(&wire)
	_, e1 := cw.Write(a)
	_, e2 := cw.Write(b)
	e3 := cw.Close()
	vrt.Assert(e1 == nil && e2 == nil && e3 == nil, "C23/encode-no-error")
	cr := newChunkedReader(bytes.NewReader(wire.Bytes()))
	var got []byte
	buf := make([]byte, 2)
	var err error
	for i := 0; i < 12; i++ {
		var n int
		n, err = cr.Read(buf)
		got = append(got, buf[:n]...)
		if err != nil {
			break
		}
	}
	vrt.Assert(err == io.EOF, "C23/roundtrip-eof")
	vrt.Assert(bytes.Equal(got, append(append([]byte{}, a...), b...)), "C23/roundtrip-data")
}

// VerifC23_roundtrip_sizes: one Write of a boundary size (around 4 KiB, 64 KiB and multiples) followed by a
// second small write must decode to exactly the bytes written. Contents are concrete (only the size
// arithmetic of the encoder/decoder is at stake); the small tail write is symbolic.
func VerifC23_roundtrip_sizes() {
	sizes := []int{1, 15, 16, 255, 256, 4095, 4096, 4097, 65534, 65535, 65536, 131070}
	n := sizes[vrt.Choose("size", len(sizes))]
	big := make([]byte, n)
	for i := range big {
		big[i] = byte(i*7 + 1)
	}
	tail := vrt.Bytes("tail", 2)
	var wire bytes.Buffer
	cw := newChunkedWriter(&wire)
	_, e1 := cw.Write(big)
	_, e2 := cw.Write(tail)
	e3 := cw.Close()
	vrt.Assert(e1 == nil && e2 == nil && e3 == nil, "C23/encode-no-error")
	cr := newChunkedReader(bytes.NewReader(wire.Bytes()))
	got := make([]byte, 0, n+2)
	buf := make([]byte, 32768)
	var err error
	for i := 0; i < 64; i++ {
		var k int
		k, err = cr.Read(buf)
		got = append(got, buf[:k]...)
		if err != nil {
			break
		}
	}
	vrt.Assert(err == io.EOF, "C23/sizes-roundtrip-eof")
	vrt.Assert(len(got) == n+2, "C23/sizes-roundtrip-length")
	if len(got) == n+2 {
		vrt.Assert(bytes.Equal(got[:n], big), "C23/sizes-roundtrip-data")
		vrt.Assert(got[n] == tail[0] && got[n+1] == tail[1], "C23/sizes-roundtrip-tail")
	}
}
